(* Proofs about Cluster/Frame.v (property C19): the incremental frame reader. *)
From Coq Require Import List NArith Arith Bool Lia ZifyN ZifyBool Wf_nat.
From RV Require Import Cluster.Codec Cluster.CodecProofs Cluster.Frame.
Import ListNotations.
Local Open Scope N_scope.

(* ---------- takeN / dropN ---------- *)

Lemma len_nil : len [] = 0.
Proof. reflexivity. Qed.

Lemma len_cons x l : len (x :: l) = 1 + len l.
Proof. unfold len. simpl length. lia. Qed.

Lemma len_zero l : len l = 0 -> l = [].
Proof. destruct l; auto. rewrite len_cons. lia. Qed.

Lemma takeN_firstn k l : takeN k l = firstn (N.to_nat k) l.
Proof.
  unfold takeN, len. destruct (N.le_gt_cases k (N.of_nat (length l))).
  - rewrite N.min_l by lia. reflexivity.
  - rewrite N.min_r by lia. rewrite Nat2N.id, firstn_all. symmetry. apply firstn_all2. lia.
Qed.

Lemma dropN_skipn k l : dropN k l = skipn (N.to_nat k) l.
Proof.
  unfold dropN, len. destruct (N.le_gt_cases k (N.of_nat (length l))).
  - rewrite N.min_l by lia. reflexivity.
  - rewrite N.min_r by lia. rewrite Nat2N.id, skipn_all. symmetry. apply skipn_all2. lia.
Qed.

Lemma takeN_dropN k l : takeN k l ++ dropN k l = l.
Proof. rewrite takeN_firstn, dropN_skipn. apply firstn_skipn. Qed.

Lemma len_takeN k l : len (takeN k l) = N.min k (len l).
Proof. rewrite takeN_firstn. unfold len. rewrite firstn_length. lia. Qed.

Lemma len_dropN k l : len (dropN k l) = len l - N.min k (len l).
Proof. rewrite dropN_skipn. unfold len. rewrite skipn_length. lia. Qed.

Lemma takeN_cons k x c : 0 < k -> takeN k (x :: c) = x :: takeN (k - 1) c.
Proof.
  intros H. rewrite !takeN_firstn. replace (N.to_nat k) with (S (N.to_nat (k - 1))) by lia. reflexivity.
Qed.

Lemma dropN_cons k x c : 0 < k -> dropN k (x :: c) = dropN (k - 1) c.
Proof.
  intros H. rewrite !dropN_skipn. replace (N.to_nat k) with (S (N.to_nat (k - 1))) by lia. reflexivity.
Qed.

Lemma takeN_0 l : takeN 0 l = [].
Proof. rewrite takeN_firstn. reflexivity. Qed.

Lemma dropN_0 l : dropN 0 l = l.
Proof. rewrite dropN_skipn. reflexivity. Qed.

Lemma takeN_nil k : takeN k [] = [].
Proof. rewrite takeN_firstn. apply firstn_nil. Qed.

Lemma dropN_nil k : dropN k [] = [].
Proof. rewrite dropN_skipn. apply skipn_nil. Qed.

Lemma takeN_all k l : len l <= k -> takeN k l = l.
Proof. intros H. rewrite takeN_firstn. apply firstn_all2. unfold len in H. lia. Qed.

Lemma dropN_all k l : len l <= k -> dropN k l = [].
Proof. intros H. rewrite dropN_skipn. apply skipn_all2. unfold len in H. lia. Qed.

Lemma takeN_app_exact k a b : len a = k -> takeN k (a ++ b) = a.
Proof. intros H. rewrite takeN_firstn. apply firstn_app_exact. unfold len in H. lia. Qed.

Lemma dropN_app_exact k a b : len a = k -> dropN k (a ++ b) = b.
Proof. intros H. rewrite dropN_skipn. apply skipn_app_exact. unfold len in H. lia. Qed.

Section ReaderProofs.
Variable max : N.
Variable valid : list N -> bool.

Notation iter := (iter max valid).
Notation feed_f := (feed_f max valid).
Notation feed := (feed max valid).
Notation feed_all := (feed_all max valid).
Notation run := (run max valid).
Notation parse_f := (parse_f max valid).
Notation parse := (parse max valid).

(* well-formed states: a header/payload under collection is still incomplete *)
Definition wf (r : reader) : Prop :=
  match r_st r with
  | RHdr acc => len acc < 8
  | RBody need buf => len buf < need
  | RDead => True
  end.

Lemma wf_init : wf init.
Proof. unfold wf, init. simpl. unfold len. simpl. lia. Qed.

(* ---------- one read ---------- *)

Lemma iter_more r chunk r' o rest : wf r -> iter r chunk = More r' o rest ->
  wf r' /\ len rest < len chunk /\ r_consumed r' + len rest = r_consumed r + len chunk.
Proof.
  destruct r as [[acc|need buf|] c0]; unfold wf, Frame.iter; cbv beta iota delta [r_st r_consumed]; intros W.
  - remember (8 - len acc) as k eqn:Hk.
    pose proof (len_takeN k chunk) as Lh.
    pose proof (len_dropN k chunk) as Lr.
    destruct (len (acc ++ takeN k chunk) <? 8) eqn:E; [discriminate|].
    rewrite len_app in E.
    destruct (checked_frame_length _ max); [discriminate|].
    destruct (de _ =? 0) eqn:Z.
    + destruct (valid []); [|discriminate]. intros H. injection H as <- <- <-. cbv beta iota delta [r_st r_consumed].
      rewrite len_nil. lia.
    + intros H. injection H as <- <- <-. cbv beta iota delta [r_st r_consumed]. rewrite len_nil. lia.
  - remember (need - len buf) as k eqn:Hk.
    pose proof (len_takeN k chunk) as Lh.
    pose proof (len_dropN k chunk) as Lr.
    destruct (len (buf ++ takeN k chunk) <? need) eqn:E; [discriminate|].
    rewrite len_app in E.
    destruct (valid _); [|discriminate]. intros H. injection H as <- <- <-. cbv beta iota delta [r_st r_consumed].
    rewrite len_nil. lia.
  - discriminate.
Qed.

Lemma iter_done r chunk r' o : wf r -> iter r chunk = Done r' o ->
  wf r' /\ r_consumed r' <= r_consumed r + len chunk.
Proof.
  destruct r as [[acc|need buf|] c0]; unfold wf, Frame.iter; cbv beta iota delta [r_st r_consumed]; intros W.
  - remember (8 - len acc) as k eqn:Hk.
    pose proof (len_takeN k chunk) as Lh.
    destruct (len (acc ++ takeN k chunk) <? 8) eqn:E.
    + intros H. injection H as <- <-. cbv beta iota delta [r_st r_consumed]. lia.
    + destruct (checked_frame_length _ max).
      * intros H. injection H as <- <-. cbv beta iota delta [r_st r_consumed]. lia.
      * destruct (de _ =? 0); [|discriminate]. destruct (valid []); [discriminate|].
        intros H. injection H as <- <-. cbv beta iota delta [r_st r_consumed]. lia.
  - remember (need - len buf) as k eqn:Hk.
    pose proof (len_takeN k chunk) as Lh.
    destruct (len (buf ++ takeN k chunk) <? need) eqn:E.
    + intros H. injection H as <- <-. cbv beta iota delta [r_st r_consumed]. lia.
    + destruct (valid _); [discriminate|]. intros H. injection H as <- <-. cbv beta iota delta [r_st r_consumed]. lia.
  - intros H. injection H as <- <-. cbv beta iota delta [r_st r_consumed]. lia.
Qed.

(* ---------- fuel is irrelevant once it covers the chunk ---------- *)

Lemma feed_f_fuel f1 : forall f2 r c, wf r -> (length c <= f1)%nat -> (length c <= f2)%nat ->
  feed_f f1 r c = feed_f f2 r c.
Proof.
  induction f1 as [|f1 IH]; intros f2 r c W L1 L2; destruct c as [|x c];
    try (destruct f2; reflexivity).
  - simpl in L1. lia.
  - destruct f2 as [|f2]; [simpl in L2; lia|]. cbn [Frame.feed_f].
    destruct (iter r (x :: c)) as [r' o|r' o rest] eqn:E; auto.
    apply iter_more in E as (W' & L & _); auto.
    unfold len in L. simpl length in *. rewrite (IH f2); auto; lia.
Qed.

Lemma feed_unfold r x c : wf r ->
  feed r (x :: c) = match iter r (x :: c) with
                    | Done r' o => (r', o)
                    | More r' o rest => let '(r2, o2) := feed r' rest in (r2, o ++ o2)
                    end.
Proof.
  intros W. unfold Frame.feed. cbn [length Frame.feed_f].
  destruct (iter r (x :: c)) as [r' o|r' o rest] eqn:E; auto.
  apply iter_more in E as (W' & L & _); auto.
  rewrite (feed_f_fuel (length c) (length rest)); auto.
  unfold len in L. simpl length in L. lia.
Qed.

Lemma feed_nil r : feed r [] = (r, []).
Proof. reflexivity. Qed.

Lemma feed_dead r c : r_st r = RDead -> feed r c = (r, []).
Proof.
  intros H. destruct c as [|x c]; [reflexivity|].
  unfold Frame.feed. cbn [length Frame.feed_f]. unfold Frame.iter. rewrite H. reflexivity.
Qed.

Lemma feed_wf r c : wf r -> wf (fst (feed r c)).
Proof.
  remember (length c) as n eqn:Hn. revert r c Hn.
  induction n as [n IH] using lt_wf_ind. intros r c Hn W.
  destruct c as [|x c]; [exact W|].
  rewrite feed_unfold by assumption.
  destruct (iter r (x :: c)) as [r' o|r' o rest] eqn:E.
  - apply iter_done in E as [W' _]; auto.
  - apply iter_more in E as (W' & L & _); auto.
    specialize (IH (length rest)). unfold len in L.
    assert (Hlt : (length rest < n)%nat) by lia.
    specialize (IH Hlt r' rest eq_refl W').
    destruct (feed r' rest). exact IH.
Qed.

(* ---------- one byte, then the rest = the whole chunk at once ---------- *)

Lemma iter_cons_hdr_partial acc c0 x c : len acc + 1 < 8 -> c <> [] ->
  iter (mkR (RHdr acc) c0) [x] = Done (mkR (RHdr (acc ++ [x])) (c0 + 1)) [] /\
  iter (mkR (RHdr acc) c0) (x :: c) = iter (mkR (RHdr (acc ++ [x])) (c0 + 1)) c.
Proof.
  intros H Hc. unfold Frame.iter. cbv beta iota delta [r_st r_consumed].
  rewrite !takeN_cons, !dropN_cons by lia. rewrite takeN_nil.
  assert (Lx : len (acc ++ [x]) = len acc + 1) by (rewrite len_app, len_cons, len_nil; lia).
  split.
  - rewrite Lx.
    destruct (N.ltb_spec (len acc + 1) 8); [|lia]. reflexivity.
  - rewrite !Lx.
    replace (8 - (len acc + 1)) with (8 - len acc - 1) by lia.
    replace ((acc ++ [x]) ++ takeN (8 - len acc - 1) c) with (acc ++ x :: takeN (8 - len acc - 1) c)
      by (rewrite <- app_assoc; reflexivity).
    rewrite len_cons.
    replace (c0 + 1 + len (takeN (8 - len acc - 1) c)) with (c0 + (1 + len (takeN (8 - len acc - 1) c))) by lia.
    reflexivity.
Qed.

Lemma iter_cons_body_partial need buf c0 x c : len buf + 1 < need -> c <> [] ->
  iter (mkR (RBody need buf) c0) [x] = Done (mkR (RBody need (buf ++ [x])) (c0 + 1)) [] /\
  iter (mkR (RBody need buf) c0) (x :: c) = iter (mkR (RBody need (buf ++ [x])) (c0 + 1)) c.
Proof.
  intros H Hc. unfold Frame.iter. cbv beta iota delta [r_st r_consumed].
  rewrite !takeN_cons, !dropN_cons by lia. rewrite takeN_nil.
  assert (Lx : len (buf ++ [x]) = len buf + 1) by (rewrite len_app, len_cons, len_nil; lia).
  split.
  - rewrite Lx.
    destruct (N.ltb_spec (len buf + 1) need); [|lia]. reflexivity.
  - rewrite !Lx.
    replace (need - (len buf + 1)) with (need - len buf - 1) by lia.
    replace ((buf ++ [x]) ++ takeN (need - len buf - 1) c) with (buf ++ x :: takeN (need - len buf - 1) c)
      by (rewrite <- app_assoc; reflexivity).
    rewrite len_cons.
    replace (c0 + 1 + len (takeN (need - len buf - 1) c)) with (c0 + (1 + len (takeN (need - len buf - 1) c))) by lia.
    reflexivity.
Qed.

(* the byte that completes a header / payload: the remainder of the chunk is left over *)
Definition with_rest (s : step_res) (c : list N) : step_res :=
  match s with Done r o => Done r o | More r o _ => More r o c end.

Lemma iter_cons_last r x c : wf r ->
  match r_st r with
  | RHdr acc => len acc + 1 = 8
  | RBody need buf => len buf + 1 = need
  | RDead => True
  end ->
  iter r (x :: c) = with_rest (iter r [x]) c /\
  match iter r [x] with
  | Done r1 _ => r_st r1 = RDead
  | More _ _ rest => rest = []
  end.
Proof.
  destruct r as [[acc|need buf|] c0]; unfold wf, Frame.iter; cbv beta iota delta [r_st r_consumed]; intros W H.
  - replace (8 - len acc) with 1 by lia.
    rewrite !takeN_cons, !dropN_cons by lia. rewrite !takeN_0, !dropN_0.
    rewrite len_app, len_cons, len_nil.
    destruct (N.ltb_spec (len acc + (1 + 0)) 8); [lia|].
    destruct (checked_frame_length _ max); [split; reflexivity|].
    destruct (de _ =? 0); [destruct (valid [])|]; split; reflexivity.
  - replace (need - len buf) with 1 by lia.
    rewrite !takeN_cons, !dropN_cons by lia. rewrite !takeN_0, !dropN_0.
    rewrite len_app, len_cons, len_nil.
    destruct (N.ltb_spec (len buf + (1 + 0)) need); [lia|].
    destruct (valid _); split; reflexivity.
  - split; reflexivity.
Qed.

Lemma feed_cons r x c : wf r ->
  feed r (x :: c) = let '(r1, o1) := feed r [x] in
                    let '(r2, o2) := feed r1 c in (r2, o1 ++ o2).
Proof.
  intros W. destruct c as [|y c'].
  { destruct (feed r [x]) as [r1 o1]. rewrite feed_nil, app_nil_r. reflexivity. }
  set (c := y :: c') in *. assert (Hc : c <> []) by discriminate.
  rewrite (feed_unfold r x c W), (feed_unfold r x [] W).
  destruct r as [[acc|need buf|] c0].
  - unfold wf in W. cbv beta iota delta [r_st] in W.
    destruct (N.lt_ge_cases (len acc + 1) 8) as [Hp|Hl].
    + destruct (iter_cons_hdr_partial acc c0 x c Hp Hc) as [E1 E2]. rewrite E1, E2.
      unfold c. rewrite feed_unfold;
        [destruct (iter _ (y :: c')) as [ra oa|ra oa resta];
         [reflexivity|destruct (feed ra resta); reflexivity]|].
      unfold wf. cbv beta iota delta [r_st]. rewrite len_app, len_cons, len_nil. lia.
    + destruct (iter_cons_last (mkR (RHdr acc) c0) x c) as [E1 E2];
        [unfold wf; cbv beta iota delta [r_st]; lia|cbv beta iota delta [r_st]; lia|].
      rewrite E1. destruct (iter (mkR (RHdr acc) c0) [x]) as [r1 o1|r1 o1 rest1]; cbn [with_rest].
      * rewrite feed_dead by assumption. rewrite app_nil_r. reflexivity.
      * subst rest1. rewrite feed_nil, app_nil_r. reflexivity.
  - unfold wf in W. cbv beta iota delta [r_st] in W.
    destruct (N.lt_ge_cases (len buf + 1) need) as [Hp|Hl].
    + destruct (iter_cons_body_partial need buf c0 x c Hp Hc) as [E1 E2]. rewrite E1, E2.
      unfold c. rewrite feed_unfold;
        [destruct (iter _ (y :: c')) as [ra oa|ra oa resta];
         [reflexivity|destruct (feed ra resta); reflexivity]|].
      unfold wf. cbv beta iota delta [r_st]. rewrite len_app, len_cons, len_nil. lia.
    + destruct (iter_cons_last (mkR (RBody need buf) c0) x c) as [E1 E2];
        [unfold wf; cbv beta iota delta [r_st]; lia|cbv beta iota delta [r_st]; lia|].
      rewrite E1. destruct (iter (mkR (RBody need buf) c0) [x]) as [r1 o1|r1 o1 rest1]; cbn [with_rest].
      * rewrite feed_dead by assumption. rewrite app_nil_r. reflexivity.
      * subst rest1. rewrite feed_nil, app_nil_r. reflexivity.
  - unfold Frame.iter. cbv beta iota delta [r_st]. rewrite feed_dead by reflexivity. reflexivity.
Qed.

(* feeding a ++ b at once = feeding a, then b *)
Lemma feed_app a : forall r b, wf r ->
  feed r (a ++ b) = let '(r1, o1) := feed r a in
                    let '(r2, o2) := feed r1 b in (r2, o1 ++ o2).
Proof.
  induction a as [|x a IH]; intros r b W.
  - rewrite feed_nil. cbn [app]. destruct (feed r b). reflexivity.
  - rewrite <- app_comm_cons. rewrite (feed_cons r x (a ++ b) W), (feed_cons r x a W).
    pose proof (feed_wf r [x] W) as W1.
    destruct (feed r [x]) as [r1 o1]. cbn [fst] in W1.
    rewrite (IH r1 b W1).
    destruct (feed r1 a) as [r2 o2]. destruct (feed r2 b) as [r3 o3].
    rewrite app_assoc. reflexivity.
Qed.

Lemma feed_all_wf chunks : forall r, wf r -> wf (fst (feed_all r chunks)).
Proof.
  induction chunks as [|c cs IH]; intros r W; [exact W|]. cbn [Frame.feed_all].
  pose proof (feed_wf r c W) as W1. destruct (feed r c) as [r1 o1]. cbn [fst] in W1.
  specialize (IH r1 W1). destruct (feed_all r1 cs). exact IH.
Qed.

(* decoding does not depend on how the stream is split into reads *)
Theorem fragmentation_from chunks : forall r, wf r -> feed_all r chunks = feed r (concat chunks).
Proof.
  induction chunks as [|c cs IH]; intros r W; [reflexivity|].
  cbn [Frame.feed_all concat]. rewrite feed_app by assumption.
  pose proof (feed_wf r c W) as W1. destruct (feed r c) as [r1 o1]. cbn [fst] in W1.
  rewrite IH by assumption. reflexivity.
Qed.

Theorem fragmentation bytes chunks : concat chunks = bytes -> feed_all init chunks = feed init bytes.
Proof. intros <-. apply fragmentation_from. apply wf_init. Qed.

Theorem fragmentation_run bytes chunks : concat chunks = bytes -> run chunks = run [bytes].
Proof.
  intros H. unfold Frame.run. rewrite (fragmentation bytes chunks H).
  cbn [Frame.feed_all]. destruct (feed init bytes) as [r o]. rewrite app_nil_r. reflexivity.
Qed.

Corollary fragmentation_two c1 c2 : concat c1 = concat c2 -> run c1 = run c2.
Proof.
  intros H. rewrite (fragmentation_run (concat c1) c1 eq_refl).
  rewrite (fragmentation_run (concat c1) c2 (eq_sym H)). reflexivity.
Qed.

(* ---------- big-step equations of the reader ---------- *)

Lemma feed_hdr_partial acc c0 p : len acc + len p < 8 ->
  feed (mkR (RHdr acc) c0) p = (mkR (RHdr (acc ++ p)) (c0 + len p), []).
Proof.
  intros H. destruct p as [|x p].
  - rewrite feed_nil, app_nil_r, len_nil, N.add_0_r. reflexivity.
  - rewrite feed_unfold by (unfold wf; cbv beta iota delta [r_st]; lia).
    unfold Frame.iter. cbv beta iota delta [r_st r_consumed].
    rewrite takeN_all by lia. rewrite len_app.
    destruct (N.ltb_spec (len acc + len (x :: p)) 8); [reflexivity|lia].
Qed.

Lemma feed_body_partial need buf c0 p : len buf + len p < need ->
  feed (mkR (RBody need buf) c0) p = (mkR (RBody need (buf ++ p)) (c0 + len p), []).
Proof.
  intros H. destruct p as [|x p].
  - rewrite feed_nil, app_nil_r, len_nil, N.add_0_r. reflexivity.
  - rewrite feed_unfold by (unfold wf; cbv beta iota delta [r_st]; lia).
    unfold Frame.iter. cbv beta iota delta [r_st r_consumed].
    rewrite takeN_all by lia. rewrite len_app.
    destruct (N.ltb_spec (len buf + len (x :: p)) need); [reflexivity|lia].
Qed.

(* the 8 header bytes have arrived *)
Definition after_header (c : N) (hdr : list N) : reader * list fout :=
  let n := de hdr in
  match checked_frame_length n max with
  | Some e => (mkR RDead c, [FErr e])
  | None =>
    if n =? 0 then
      if valid [] then (mkR (RHdr []) c, [FMsg []]) else (mkR RDead c, [FErr EDecode])
    else (mkR (RBody n []) c, [])
  end.

Lemma feed_hdr_complete acc c0 p : len acc < 8 -> len acc + len p = 8 ->
  feed (mkR (RHdr acc) c0) p = after_header (c0 + len p) (acc ++ p).
Proof.
  intros W H. destruct p as [|x p]; [rewrite len_nil in H; lia|].
  rewrite feed_unfold by (unfold wf; cbv beta iota delta [r_st]; lia).
  unfold Frame.iter, after_header. cbv beta iota delta [r_st r_consumed].
  rewrite takeN_all, dropN_all by lia. rewrite len_app.
  destruct (N.ltb_spec (len acc + len (x :: p)) 8); [lia|].
  destruct (checked_frame_length _ max); [reflexivity|].
  destruct (de _ =? 0); [destruct (valid [])|]; rewrite ?feed_nil; reflexivity.
Qed.

(* the whole payload has arrived *)
Definition after_body (c : N) (payload : list N) : reader * list fout :=
  if valid payload then (mkR (RHdr []) c, [FMsg payload]) else (mkR RDead c, [FErr EDecode]).

Lemma feed_body_complete need buf c0 p : len buf < need -> len buf + len p = need ->
  feed (mkR (RBody need buf) c0) p = after_body (c0 + len p) (buf ++ p).
Proof.
  intros W H. destruct p as [|x p]; [rewrite len_nil in H; lia|].
  rewrite feed_unfold by (unfold wf; cbv beta iota delta [r_st]; lia).
  unfold Frame.iter, after_body. cbv beta iota delta [r_st r_consumed].
  rewrite takeN_all, dropN_all by lia. rewrite len_app.
  destruct (N.ltb_spec (len buf + len (x :: p)) need); [lia|].
  destruct (valid _); rewrite ?feed_nil; reflexivity.
Qed.

(* ---------- frame bound ---------- *)

(* a header declaring more than [max] bytes: rejected, exactly the 8 header bytes consumed,
   nothing of the payload consumed or buffered, whatever follows and however it is split *)
Lemma oversized_at_once hdr rest : length hdr = 8%nat -> max < de hdr ->
  feed init (hdr ++ rest) = (mkR RDead 8, [FErr ETooLarge]).
Proof.
  intros L H. rewrite feed_app by apply wf_init.
  unfold init. rewrite feed_hdr_complete; [|rewrite len_nil; lia|unfold len; rewrite L; reflexivity].
  unfold after_header. cbn [app]. unfold checked_frame_length.
  destruct (N.ltb_spec max (de hdr)); [|lia].
  rewrite feed_dead by reflexivity. unfold len. rewrite L. reflexivity.
Qed.

Lemma prefix_cases (p q hdr rest : list N) : p ++ q = hdr ++ rest ->
  (length p < length hdr)%nat \/ exists p', p = hdr ++ p'.
Proof.
  revert hdr; induction p as [|x p IH]; intros [|y hdr] E; simpl in *.
  - right. exists []. reflexivity.
  - left. lia.
  - right. exists (x :: p). reflexivity.
  - injection E as -> E. destruct (IH hdr E) as [H|[p' ->]]; [left; lia|right; exists p'; reflexivity].
Qed.

Theorem frame_bound hdr rest chunks :
  length hdr = 8%nat -> max < de hdr -> concat chunks = hdr ++ rest ->
  feed_all init chunks = (mkR RDead 8, [FErr ETooLarge]).
Proof.
  intros L H E. rewrite (fragmentation _ _ E). apply oversized_at_once; assumption.
Qed.

Theorem frame_bound_nothing_buffered hdr rest chunks1 chunks2 :
  length hdr = 8%nat -> max < de hdr -> concat (chunks1 ++ chunks2) = hdr ++ rest ->
  buffered (fst (feed_all init chunks1)) = 0.
Proof.
  intros L H E. rewrite concat_app in E.
  rewrite (fragmentation _ _ eq_refl).
  destruct (prefix_cases _ _ _ _ E) as [Hs|[p' Hp]].
  - unfold init. rewrite feed_hdr_partial; [reflexivity|].
    rewrite len_nil. unfold len. lia.
  - rewrite Hp. rewrite oversized_at_once by assumption. reflexivity.
Qed.

(* ---------- buffer bound ---------- *)

(* payload bytes held + the header that announced them never exceed the bytes taken from
   the stream, and a payload under collection was announced with a length <= max *)
Definition inv (r : reader) : Prop :=
  match r_st r with
  | RHdr acc => len acc <= r_consumed r
  | RBody need buf => need <= max /\ len buf + 8 <= r_consumed r
  | RDead => True
  end.

Lemma checked_ok n : checked_frame_length n max = None -> n <= max.
Proof.
  unfold checked_frame_length. destruct (N.ltb_spec max n); [discriminate|]. intros _. assumption.
Qed.

Lemma iter_inv r chunk : wf r -> inv r ->
  match iter r chunk with Done r' _ => inv r' | More r' _ _ => inv r' end.
Proof.
  destruct r as [[acc|need buf|] c0]; unfold wf, inv, Frame.iter; cbv beta iota delta [r_st r_consumed]; intros W I.
  - remember (8 - len acc) as k eqn:Hk.
    pose proof (len_takeN k chunk) as Lh.
    destruct (len (acc ++ takeN k chunk) <? 8) eqn:E; rewrite len_app in E.
    + cbv beta iota delta [r_st r_consumed]. rewrite len_app. lia.
    + destruct (checked_frame_length _ max) eqn:C; cbv beta iota delta [r_st]; auto.
      apply checked_ok in C.
      destruct (de _ =? 0) eqn:Z; [destruct (valid [])|]; cbv beta iota delta [r_st r_consumed]; auto.
      * rewrite len_nil. lia.
      * rewrite len_nil. split; [assumption|lia].
  - remember (need - len buf) as k eqn:Hk.
    pose proof (len_takeN k chunk) as Lh.
    destruct (len (buf ++ takeN k chunk) <? need) eqn:E; rewrite len_app in E.
    + cbv beta iota delta [r_st r_consumed]. rewrite len_app. lia.
    + destruct (valid _); cbv beta iota delta [r_st r_consumed]; auto. rewrite len_nil. lia.
  - cbv beta iota delta [r_st]. auto.
Qed.

Lemma feed_inv r c : wf r -> inv r ->
  inv (fst (feed r c)) /\ r_consumed (fst (feed r c)) <= r_consumed r + len c.
Proof.
  remember (length c) as n eqn:Hn. revert r c Hn.
  induction n as [n IH] using lt_wf_ind. intros r c Hn W I.
  destruct c as [|x c]; [rewrite feed_nil; cbn [fst]; split; [assumption|lia]|].
  rewrite feed_unfold by assumption.
  pose proof (iter_inv r (x :: c) W I) as I'.
  destruct (iter r (x :: c)) as [r' o|r' o rest] eqn:E.
  - apply iter_done in E as [_ Hc]; auto.
  - apply iter_more in E as (W' & L & Hc); auto.
    assert (Hlt : (length rest < n)%nat) by (unfold len in L; lia).
    destruct (IH (length rest) Hlt r' rest eq_refl W' I') as [I2 C2].
    destruct (feed r' rest) as [r2 o2]. cbn [fst] in *. split; [assumption|lia].
Qed.

Lemma feed_all_inv chunks : forall r, wf r -> inv r ->
  inv (fst (feed_all r chunks)) /\
  r_consumed (fst (feed_all r chunks)) <= r_consumed r + len (concat chunks).
Proof.
  induction chunks as [|c cs IH]; intros r W I.
  - cbn [Frame.feed_all concat fst]. split; [assumption|]. rewrite len_nil. lia.
  - cbn [Frame.feed_all concat].
    pose proof (feed_wf r c W) as W1. destruct (feed_inv r c W I) as [I1 C1].
    destruct (feed r c) as [r1 o1]. cbn [fst] in *.
    destruct (IH r1 W1 I1) as [I2 C2]. destruct (feed_all r1 cs) as [r2 o2]. cbn [fst] in *.
    split; [assumption|]. rewrite len_app. lia.
Qed.

(* the reader never holds more payload bytes than were announced (<= max) nor more than
   it received; it never takes more from the transport than was offered *)
Theorem buffer_bound chunks :
  let r := fst (feed_all init chunks) in
  buffered r <= max /\ buffered r <= len (concat chunks) /\ r_consumed r <= len (concat chunks).
Proof.
  assert (I0 : inv init) by (unfold inv, init; cbv beta iota delta [r_st r_consumed]; rewrite len_nil; lia).
  destruct (feed_all_inv chunks init wf_init I0) as [I C].
  pose proof (feed_all_wf chunks init wf_init) as W.
  cbv zeta. set (r := fst (feed_all init chunks)) in *.
  unfold init in C. cbn [r_consumed] in C.
  unfold inv, wf, buffered in *. destruct (r_st r) as [acc|need buf|]; lia.
Qed.

(* ---------- a running reader has taken everything that was offered ---------- *)

Lemma iter_done_alive r chunk r' o : wf r -> iter r chunk = Done r' o -> r_st r' <> RDead ->
  r_consumed r' = r_consumed r + len chunk.
Proof.
  destruct r as [[acc|need buf|] c0]; unfold wf, Frame.iter; cbv beta iota delta [r_st r_consumed]; intros W.
  - remember (8 - len acc) as k eqn:Hk.
    pose proof (len_takeN k chunk) as Lh.
    destruct (len (acc ++ takeN k chunk) <? 8) eqn:E.
    + rewrite len_app in E. intros H _. injection H as <- <-. cbv beta iota delta [r_consumed]. lia.
    + destruct (checked_frame_length _ max).
      * intros H A. injection H as <- <-. exfalso. apply A. reflexivity.
      * destruct (de _ =? 0); [|discriminate]. destruct (valid []); [discriminate|].
        intros H A. injection H as <- <-. exfalso. apply A. reflexivity.
  - remember (need - len buf) as k eqn:Hk.
    pose proof (len_takeN k chunk) as Lh.
    destruct (len (buf ++ takeN k chunk) <? need) eqn:E.
    + rewrite len_app in E. intros H _. injection H as <- <-. cbv beta iota delta [r_consumed]. lia.
    + destruct (valid _); [discriminate|]. intros H A. injection H as <- <-. exfalso. apply A. reflexivity.
  - intros H A. injection H as <- <-. exfalso. apply A. reflexivity.
Qed.

Lemma feed_consumes_all r c : wf r -> r_st (fst (feed r c)) <> RDead ->
  r_consumed (fst (feed r c)) = r_consumed r + len c.
Proof.
  remember (length c) as n eqn:Hn. revert r c Hn.
  induction n as [n IH] using lt_wf_ind. intros r c Hn W.
  destruct c as [|x c]; [rewrite feed_nil; cbn [fst]; rewrite len_nil; lia|].
  rewrite feed_unfold by assumption.
  destruct (iter r (x :: c)) as [r' o|r' o rest] eqn:E.
  - cbn [fst]. intros A. eapply iter_done_alive; eauto.
  - apply iter_more in E as (W' & L & Hc); auto.
    assert (Hlt : (length rest < n)%nat) by (unfold len in L; lia).
    specialize (IH (length rest) Hlt r' rest eq_refl W').
    destruct (feed r' rest) as [r2 o2]. cbn [fst] in *. intros A. rewrite (IH A). lia.
Qed.

(* as long as no error occurred the reader has consumed every byte it was given:
   it never stalls on input it could have used (and, by buffer_bound, never reads ahead) *)
Theorem reader_consumes_all chunks :
  r_st (fst (feed_all init chunks)) <> RDead ->
  r_consumed (fst (feed_all init chunks)) = len (concat chunks).
Proof.
  rewrite (fragmentation _ _ eq_refl). intros A.
  rewrite (feed_consumes_all init (concat chunks) wf_init A). reflexivity.
Qed.

(* ---------- the reader refines the one-shot parse of the stream ---------- *)

Lemma split_at (n : N) (l : list N) : n <= len l ->
  l = takeN n l ++ dropN n l /\ len (takeN n l) = n.
Proof. intros H. split; [symmetry; apply takeN_dropN|rewrite len_takeN; lia]. Qed.

Lemma run_parse_from fuel : forall bytes c0, (length bytes < fuel)%nat ->
  (let '(r, o) := feed (mkR (RHdr []) c0) bytes in o ++ eof r) = parse_f fuel bytes.
Proof.
  induction fuel as [|fuel IH]; intros bytes c0 Hf; [lia|].
  cbn [Frame.parse_f].
  destruct (N.ltb_spec (len bytes) 8) as [Hs|Hl].
  - rewrite feed_hdr_partial by (rewrite len_nil; lia). reflexivity.
  - assert (Hl' : (8 <= length bytes)%nat) by (unfold len in Hl; lia).
    rewrite <- (firstn_skipn 8 bytes) at 1.
    set (hdr := firstn 8 bytes). set (rest := skipn 8 bytes).
    assert (Lh : len hdr = 8) by (unfold hdr, len; rewrite firstn_length; lia).
    assert (Lr : (length rest < fuel)%nat) by (unfold rest; rewrite skipn_length; lia).
    assert (W0 : wf (mkR (RHdr []) c0)) by (unfold wf; cbv beta iota delta [r_st]; rewrite len_nil; lia).
    rewrite feed_app by assumption.
    rewrite feed_hdr_complete by (rewrite ?len_nil; lia).
    unfold after_header. cbn [app].
    destruct (checked_frame_length (de hdr) max) as [e|] eqn:C.
    + rewrite feed_dead by reflexivity. reflexivity.
    + destruct (de hdr =? 0) eqn:Z.
      * apply N.eqb_eq in Z. rewrite Z.
        destruct (N.ltb_spec (len rest) 0); [lia|].
        rewrite takeN_0, dropN_0.
        destruct (valid []).
        -- specialize (IH rest (c0 + len hdr) Lr).
           destruct (feed (mkR (RHdr []) (c0 + len hdr)) rest) as [r2 o2]. rewrite <- IH. reflexivity.
        -- rewrite feed_dead by reflexivity. reflexivity.
      * apply N.eqb_neq in Z. set (n := de hdr) in *.
        destruct (N.ltb_spec (len rest) n) as [Hi|Hc].
        -- rewrite feed_body_partial by (rewrite len_nil; lia). reflexivity.
        -- destruct (split_at n rest Hc) as [Es Lp].
           rewrite Es at 1.
           assert (W1 : wf (mkR (RBody n []) (c0 + len hdr))) by (unfold wf; cbv beta iota delta [r_st]; rewrite len_nil; lia).
           rewrite feed_app by assumption.
           rewrite feed_body_complete by (rewrite ?len_nil; lia).
           unfold after_body. cbn [app].
           destruct (valid (takeN n rest)).
           ++ assert (Ld : (length (dropN n rest) < fuel)%nat).
              { pose proof (len_dropN n rest) as X. unfold len in X. lia. }
              specialize (IH (dropN n rest) (c0 + len hdr + len (takeN n rest)) Ld).
              destruct (feed (mkR (RHdr []) (c0 + len hdr + len (takeN n rest))) (dropN n rest)) as [r2 o2].
              rewrite <- IH. reflexivity.
           ++ rewrite feed_dead by reflexivity. reflexivity.
Qed.

(* everything a session's reader produces, for any fragmentation, is the one-shot parse *)
Theorem run_refines_parse chunks : fst (run chunks) = parse (concat chunks).
Proof.
  rewrite (fragmentation_run (concat chunks) chunks eq_refl).
  unfold Frame.run, Frame.parse. cbn [Frame.feed_all].
  pose proof (run_parse_from (S (length (concat chunks))) (concat chunks) 0 (le_n _)) as H.
  unfold init. destruct (feed (mkR (RHdr []) 0) (concat chunks)) as [r o].
  rewrite app_nil_r. cbn [fst]. exact H.
Qed.

(* a stream of well-formed frames is decoded to exactly those payloads, in order,
   and the reader is ready for the next frame *)
Definition frame_ok (p : list N) : Prop :=
  len p <= max /\ len p <= ISIZE_MAX /\ len p < U64 /\ valid p = true.

Lemma feed_one_frame p c0 : frame_ok p ->
  feed (mkR (RHdr []) c0) (enc_frame p) = (mkR (RHdr []) (c0 + len (enc_frame p)), [FMsg p]).
Proof.
  intros (H1 & H2 & H3 & H4). unfold enc_frame.
  assert (W0 : wf (mkR (RHdr []) c0)) by (unfold wf; cbv beta iota delta [r_st]; rewrite len_nil; lia).
  rewrite feed_app by assumption.
  rewrite feed_hdr_complete by (rewrite ?len_nil, ?len_be; reflexivity).
  unfold after_header. cbn [app]. rewrite de_be by (rewrite <- U64_pow; assumption).
  unfold checked_frame_length.
  destruct (N.ltb_spec max (len p)); [lia|]. destruct (N.ltb_spec ISIZE_MAX (len p)); [lia|].
  rewrite len_app, len_be. change (N.of_nat 8) with 8.
  destruct (len p =? 0) eqn:Z.
  - apply N.eqb_eq in Z. apply len_zero in Z. subst p. rewrite H4.
    rewrite feed_nil, len_nil. cbn [app]. rewrite N.add_0_r. reflexivity.
  - apply N.eqb_neq in Z.
    rewrite feed_body_complete by (rewrite ?len_nil; lia).
    unfold after_body. cbn [app]. rewrite H4. rewrite N.add_assoc. reflexivity.
Qed.

Theorem valid_stream ps : forall c0, Forall frame_ok ps ->
  feed (mkR (RHdr []) c0) (concat (map enc_frame ps))
  = (mkR (RHdr []) (c0 + len (concat (map enc_frame ps))), map FMsg ps).
Proof.
  induction ps as [|p ps IH]; intros c0 H.
  - cbn [map concat]. rewrite feed_nil, len_nil, N.add_0_r. reflexivity.
  - inversion H as [|? ? Hp Hps]; subst. cbn [map concat].
    assert (W0 : wf (mkR (RHdr []) c0)) by (unfold wf; cbv beta iota delta [r_st]; rewrite len_nil; lia).
    rewrite feed_app by assumption. rewrite feed_one_frame by assumption.
    rewrite IH by assumption. rewrite len_app, N.add_assoc. reflexivity.
Qed.

Theorem valid_stream_fragmented ps chunks : Forall frame_ok ps ->
  concat chunks = concat (map enc_frame ps) ->
  feed_all init chunks = (mkR (RHdr []) (len (concat chunks)), map FMsg ps).
Proof.
  intros H E. rewrite (fragmentation _ _ E). unfold init. rewrite valid_stream by assumption.
  rewrite E. reflexivity.
Qed.

(* a truncated last frame (stream ends inside a header or a payload) ends the session
   with an error after the complete frames have been delivered *)
Theorem truncated_stream ps p k chunks : Forall frame_ok ps -> frame_ok p ->
  (k < length (enc_frame p))%nat -> (0 < k)%nat ->
  concat chunks = concat (map enc_frame ps) ++ firstn k (enc_frame p) ->
  fst (run chunks) = map FMsg ps ++ [FErr EEof].
Proof.
  intros Hps Hp Hk Hk0 E.
  rewrite (fragmentation_run _ _ E). unfold Frame.run. cbn [Frame.feed_all].
  rewrite feed_app by apply wf_init. unfold init. rewrite valid_stream by assumption.
  set (c1 := 0 + len (concat (map enc_frame ps))).
  assert (X : exists r, feed (mkR (RHdr []) c1) (firstn k (enc_frame p)) = (r, []) /\ r_st r <> RDead).
  { destruct Hp as (H1 & H2 & H3 & H4). unfold enc_frame in *.
    rewrite app_length, be_length in Hk.
    destruct (Nat.le_gt_cases k 7) as [Hs|Hl].
    - rewrite firstn_app. replace (k - length (be 8 (len p)))%nat with O by (rewrite be_length; lia).
      cbn [firstn]. rewrite app_nil_r.
      eexists. split; [apply feed_hdr_partial|cbn; discriminate].
      rewrite len_nil. unfold len. rewrite firstn_length, be_length. lia.
    - rewrite firstn_app, be_length. rewrite firstn_all2 by (rewrite be_length; lia).
      assert (W0 : wf (mkR (RHdr []) c1)) by (unfold wf; cbv beta iota delta [r_st]; rewrite len_nil; lia).
      rewrite feed_app by assumption.
      rewrite feed_hdr_complete by (rewrite ?len_nil, ?len_be; reflexivity).
      unfold after_header. cbn [app]. rewrite de_be by (rewrite <- U64_pow; assumption).
      unfold checked_frame_length.
      destruct (N.ltb_spec max (len p)); [lia|]. destruct (N.ltb_spec ISIZE_MAX (len p)); [lia|].
      assert (Z : len p =? 0 = false) by (apply N.eqb_neq; unfold len; lia). rewrite Z.
      eexists. split; [rewrite feed_body_partial; [reflexivity|]|cbn; discriminate].
      rewrite len_nil. unfold len. rewrite firstn_length. lia. }
  destruct X as (r & Er & Hr). rewrite Er. cbn [fst]. rewrite !app_nil_r.
  unfold eof. destruct (r_st r); try reflexivity. congruence.
Qed.

(* the executable oracle accepts every run of the model *)
Lemma fouts_eqb_refl o : fouts_eqb o o = true.
Proof.
  induction o as [|x o IH]; simpl; auto. rewrite IH, andb_true_r.
  destruct x as [p|e]; simpl; [apply list_eqb_refl|destruct e; reflexivity].
Qed.

Lemma parse_f_stops fuel : forall bytes, stops_at_error (parse_f fuel bytes) = true.
Proof.
  induction fuel as [|fuel IH]; intros bytes; [reflexivity|]. cbn [Frame.parse_f].
  destruct (len bytes <? 8); [reflexivity|].
  destruct (checked_frame_length _ max); [reflexivity|].
  destruct (len (skipn 8 bytes) <? _); [reflexivity|].
  destruct (valid _); [|reflexivity]. cbn [stops_at_error]. apply IH.
Qed.

Theorem stream_oracle_sound bytes splits :
  Forall (fun chunks => concat chunks = bytes) splits ->
  check_C19_stream max valid bytes (map run splits) = true.
Proof.
  intros H. unfold check_C19_stream. rewrite forallb_forall. intros a Ha.
  apply in_map_iff in Ha as (chunks & <- & Hin).
  rewrite Forall_forall in H. specialize (H chunks Hin).
  pose proof (run_refines_parse chunks) as R. rewrite H in R. rewrite R.
  rewrite fouts_eqb_refl. unfold Frame.parse at 1. rewrite parse_f_stops. cbn [andb].
  destruct (oversized_header max bytes) eqn:O; [|reflexivity].
  unfold oversized_header in O. apply andb_true_iff in O as [O1 O2].
  apply N.leb_le in O1. apply N.ltb_lt in O2.
  assert (L8 : length (firstn 8 bytes) = 8%nat) by (rewrite firstn_length; unfold len in O1; lia).
  assert (E : concat chunks = firstn 8 bytes ++ skipn 8 bytes) by (rewrite firstn_skipn; exact H).
  pose proof (frame_bound _ _ _ L8 O2 E) as FB.
  rewrite <- R. unfold Frame.run. rewrite FB. reflexivity.
Qed.

End ReaderProofs.
