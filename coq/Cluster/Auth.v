(* Model of ractor_cluster/src/node/auth.rs: the two handshake state machines
   ServerAuthenticationProcess and ClientAuthenticationProcess, transcribed
   constructor by constructor.  The digest function (hash.rs: SHA-256 of the
   big-endian challenge followed by the cookie) is a parameter [dg]; nothing is
   assumed about it.  The random challenge that the real code draws inside
   [start_challenge] / [next] is an explicit argument [rnd] of the step.
   Definitions only; proofs are in AuthProofs.v. *)
From Coq Require Import List NArith Bool.
Import ListNotations.
Local Open Scope N_scope.

Definition cookie := N.
Definition challenge := N.
Definition digest := N.

(* proto::AuthenticationMessage; [AEmpty] is `msg: None`.  Names and connection
   strings are abstract identifiers; node flags are not looked at by the code. *)
Inductive amsg :=
| AEmpty
| AName (name cs cid : N)
| AServerStatus (st : N)          (* 0 Ok 1 OkSimultaneous 2 NotOk 3 NotAllowed 4 Alive *)
| AClientStatus (b : bool)
| AServerChallenge (name cs : N) (ch : challenge)
| AClientChallenge (ch : challenge) (d : digest)
| AServerAck (d : digest).

Inductive sauth :=
| SWaitName                               (* WaitingOnPeerName *)
| SHaveName (name cs cid : N)             (* HavePeerName(NameMessage) *)
| SWaitClientStatus                       (* WaitingOnClientStatus *)
| SWaitReply (ch : challenge) (d : digest) (* WaitingOnClientChallengeReply(challenge, expected) *)
| SOk (d : digest)                        (* Ok(reply digest) *)
| SClose.

Inductive cauth :=
| CWaitStatus                             (* WaitingForServerStatus *)
| CWaitChallenge (st : N)                 (* WaitingForServerChallenge(status) *)
| CWaitAck (name cs : N) (sch : challenge) (reply : digest)
           (mych : challenge) (expect : digest)
                                          (* WaitingForServerChallengeAck(..) *)
| COk
| CClose.

Section Auth.
Variable dg : cookie -> challenge -> digest.

(* ServerAuthenticationProcess::start_challenge *)
Definition s_start_challenge (st : sauth) (ck : cookie) (rnd : challenge) : sauth :=
  match st with
  | SWaitClientStatus => SWaitReply rnd (dg ck rnd)
  | SHaveName _ _ _ => SWaitReply rnd (dg ck rnd)
  | _ => SClose
  end.

(* ServerAuthenticationProcess::next *)
Definition s_next (st : sauth) (m : amsg) (ck : cookie) (rnd : challenge) : sauth :=
  match m with
  | AName n cs cid =>
      match st with SWaitName => SHaveName n cs cid | _ => SClose end
  | AClientStatus b =>
      match st with
      | SWaitClientStatus => if b then s_start_challenge st ck rnd else SClose
      | _ => SClose
      end
  | AClientChallenge c2 d2 =>
      match st with
      | SWaitReply _ d => if N.eqb d d2 then SOk (dg ck c2) else SClose
      | _ => SClose
      end
  | _ => SClose
  end.

(* ClientAuthenticationProcess::next *)
Definition c_next (st : cauth) (m : amsg) (ck : cookie) (rnd : challenge) : cauth :=
  match m with
  | AServerStatus s =>
      match st with CWaitStatus => CWaitChallenge s | _ => CClose end
  | AServerChallenge n cs ch =>
      match st with
      | CWaitChallenge _ => CWaitAck n cs ch (dg ck ch) rnd (dg ck rnd)
      | _ => CClose
      end
  | AServerAck d =>
      match st with
      | CWaitAck _ _ _ _ _ e => if N.eqb e d then COk else CClose
      | _ => CClose
      end
  | _ => CClose
  end.

(* ---- what each state expects (the "in order" relation of the handshake) ---- *)

Definition s_expects (st : sauth) (m : amsg) : bool :=
  match st, m with
  | SWaitName, AName _ _ _ => true
  | SWaitClientStatus, AClientStatus true => true
  | SWaitReply _ d, AClientChallenge _ d2 => N.eqb d d2
  | _, _ => false
  end.

Definition c_expects (st : cauth) (m : amsg) : bool :=
  match st, m with
  | CWaitStatus, AServerStatus _ => true
  | CWaitChallenge _, AServerChallenge _ _ _ => true
  | CWaitAck _ _ _ _ _ e, AServerAck d => N.eqb e d
  | _, _ => false
  end.

(* ---- runs: the operations the owning session performs on the FSMs ---- *)

(* On the server side the session (node_session.rs, handle_auth) also calls
   start_challenge and may overwrite the state with WaitingOnClientStatus. *)
Inductive sop :=
| SMsg (m : amsg) (rnd : challenge)
| SStart (rnd : challenge)
| SForceWaitStatus.

Definition s_step (ck : cookie) (st : sauth) (o : sop) : sauth :=
  match o with
  | SMsg m rnd => s_next st m ck rnd
  | SStart rnd => s_start_challenge st ck rnd
  | SForceWaitStatus => match st with SHaveName _ _ _ => SWaitClientStatus | _ => st end
  end.

Definition s_run (ck : cookie) (st : sauth) (ops : list sop) : sauth :=
  fold_left (s_step ck) ops st.

Fixpoint s_trace (ck : cookie) (st : sauth) (ops : list sop) : list sauth :=
  match ops with
  | [] => []
  | o :: r => let st' := s_step ck st o in st' :: s_trace ck st' r
  end.

Definition c_step (ck : cookie) (st : cauth) (o : amsg * challenge) : cauth :=
  c_next st (fst o) ck (snd o).

Definition c_run (ck : cookie) (st : cauth) (ops : list (amsg * challenge)) : cauth :=
  fold_left (c_step ck) ops st.

Fixpoint c_trace (ck : cookie) (st : cauth) (ops : list (amsg * challenge)) : list cauth :=
  match ops with
  | [] => []
  | o :: r => let st' := c_step ck st o in st' :: c_trace ck st' r
  end.

(* ---- the FSM part of the property as an executable oracle on a trace of
   states (the model's or the implementation's) ---- *)

Definition s_is_close (s : sauth) : bool := match s with SClose => true | _ => false end.
Definition s_is_ok (s : sauth) : bool := match s with SOk _ => true | _ => false end.
Definition c_is_close (s : cauth) : bool := match s with CClose => true | _ => false end.
Definition c_is_ok (s : cauth) : bool := match s with COk => true | _ => false end.

(* one server step [prev --o--> next] respects the property:
   Close is absorbing; Ok is entered only from WaitReply(ch, e) with e = dg ck ch
   by a ClientChallenge carrying exactly e; a message that is not the expected
   one closes. *)
Definition s_step_ok (ck : cookie) (prev : sauth) (o : sop) (next : sauth) : bool :=
  (if s_is_close prev then s_is_close next else true)
  && (if s_is_ok next then
        match prev, o with
        | SWaitReply ch e, SMsg (AClientChallenge _ d2) _ => N.eqb e (dg ck ch) && N.eqb d2 (dg ck ch)
        | SOk _, SForceWaitStatus => true
        | _, _ => false
        end
      else true)
  && (match o with
      | SMsg m _ => if s_expects prev m then true else s_is_close next
      | _ => true
      end)
  && (match next with SWaitReply ch e => N.eqb e (dg ck ch) | _ => true end).

Fixpoint check_C17_server (ck : cookie) (prev : sauth) (ops : list sop) (tr : list sauth) : bool :=
  match ops, tr with
  | [], [] => true
  | o :: r, n :: tr' => s_step_ok ck prev o n && check_C17_server ck n r tr'
  | _, _ => false
  end.

Definition c_step_ok (ck : cookie) (prev : cauth) (o : amsg * challenge) (next : cauth) : bool :=
  (if c_is_close prev then c_is_close next else true)
  && (if c_is_ok next then
        match prev, fst o with
        | CWaitAck _ _ _ _ mych e, AServerAck d => N.eqb e (dg ck mych) && N.eqb d (dg ck mych)
        | _, _ => false
        end
      else true)
  && (if c_expects prev (fst o) then true else c_is_close next)
  && (match next with CWaitAck _ _ _ _ mych e => N.eqb e (dg ck mych) | _ => true end).

Fixpoint check_C17_client (ck : cookie) (prev : cauth) (ops : list (amsg * challenge)) (tr : list cauth) : bool :=
  match ops, tr with
  | [], [] => true
  | o :: r, n :: tr' => c_step_ok ck prev o n && check_C17_client ck n r tr'
  | _, _ => false
  end.

End Auth.

(* the random challenges drawn by this side during a run *)
Definition sop_rnd (o : sop) : list challenge :=
  match o with SMsg _ r => [r] | SStart r => [r] | SForceWaitStatus => [] end.
Definition s_drawn (ops : list sop) : list challenge := flat_map sop_rnd ops.
Definition c_drawn (ops : list (amsg * challenge)) : list challenge := map snd ops.

(* ---- the digest used when the model is evaluated next to the implementation:
   a free (injective) symbolic digest; the harness maps SHA-256 values to and
   from these codes.  Only used for evaluation, never in a theorem. ---- *)
Definition dg_sym (ck : cookie) (ch : challenge) : digest := 1 + ch + ck * 4294967296.

(* equality tests used to compare implementation answers inside Coq *)
Definition sauth_eqb (a b : sauth) : bool :=
  match a, b with
  | SWaitName, SWaitName => true
  | SHaveName n c i, SHaveName n' c' i' => N.eqb n n' && N.eqb c c' && N.eqb i i'
  | SWaitClientStatus, SWaitClientStatus => true
  | SWaitReply c d, SWaitReply c' d' => N.eqb c c' && N.eqb d d'
  | SOk d, SOk d' => N.eqb d d'
  | SClose, SClose => true
  | _, _ => false
  end.

Definition cauth_eqb (a b : cauth) : bool :=
  match a, b with
  | CWaitStatus, CWaitStatus => true
  | CWaitChallenge s, CWaitChallenge s' => N.eqb s s'
  | CWaitAck n c h r m e, CWaitAck n' c' h' r' m' e' =>
      N.eqb n n' && N.eqb c c' && N.eqb h h' && N.eqb r r' && N.eqb m m' && N.eqb e e'
  | COk, COk => true
  | CClose, CClose => true
  | _, _ => false
  end.

Fixpoint list_eqb {A} (eqb : A -> A -> bool) (a b : list A) : bool :=
  match a, b with
  | [], [] => true
  | x :: a', y :: b' => eqb x y && list_eqb eqb a' b'
  | _, _ => false
  end.
