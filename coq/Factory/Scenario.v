(* Scenario runner for the factory model: the harness' ops (eng_factory.rs) expanded into
   model labels under the scheduling policy of the deterministic engine (tokio current_thread,
   paused clock): after every op the system runs to quiescence -- the factory actor first takes
   everything it can (stop > supervision > messages), then idle workers take their next job or
   exit on a pending stop, then a stopping factory finalizes -- then a no-op message is sent to
   the factory (so that its `is_drained` check has run at every op boundary) and the system
   runs to quiescence again. The clock moves only in `t` and `hold` ops.
   Every run of the runner is `Model.run` over a label list (`labels_of`), so all theorems
   about `run` apply to it. Definitions only. *)
From Coq Require Import List NArith Bool.
From RV Require Import Factory.Model.
Import ListNotations.
Local Open Scope N_scope.

Inductive op :=
| ODispatch (id key : N) (ttl : option N) (port : bool)
| OComplete (wid : N) | OFail (wid : N) | OKill (wid : N)
| OResize (n : N) | OAdvance (s : N)
| OHold | ORelease (n : N)
| ODrain | OStop | OQuery
| OSetDisc (d : option (N * mode)) | OSetCount (n : N)
| OXStop (wid : N)       (* stop the newest live actor of worker wid from outside; its post_stop is held back *)
| OXGate (wid : N)       (* the newest live actor of worker wid gets a held-back post_stop, whoever stops it later (a shrink) *)
| OXRelease (wid : N)    (* let the held-back post_stop of worker wid's oldest closing actor return *)
| OSetHandler.           (* UpdateSettings(discard_handler): the model has one handler; only the message counts *)

(* `g w` / `f w` / `p w`: the running actor of worker w with the smallest actor id *)
Definition running_actor (w : world) (wid : N) : option N :=
  match find (fun e => (a_wid (snd e) =? wid) && a_alive (snd e)
                        && match a_run (snd e) with Some _ => true | None => false end) (actors w) with
  | Some e => Some (fst e)
  | None => None
  end.

(* `k w`: the live actor of worker w with the largest actor id *)
Definition newest_actor (w : world) (wid : N) : option N :=
  match find (fun e => (a_wid (snd e) =? wid) && a_alive (snd e)) (rev (actors w)) with
  | Some e => Some (fst e)
  | None => None
  end.

(* `xr w`: the oldest actor of worker w that sits in its held-back post_stop *)
Definition closing_actor (w : world) (wid : N) : option N :=
  find (fun a => match lookup a (actors w) with Some x => a_wid x =? wid | None => false end) (closing w).

Definition factory_can_step (w : world) : bool :=
  running_now w && negb (held w)
  && (stop_req w
      || match inbox_sup w with [] => false | _ => true end
      || match inbox_msg w with [] => false | _ => true end).

(* an actor that can take a job, or must exit on a pending stop *)
Definition actor_move (w : world) : option label :=
  match find (fun e => a_alive (snd e)
                       && match a_run (snd e) with Some _ => false | None => true end
                       && (a_stop (snd e) || match a_mb (snd e) with [] => false | _ => true end))
             (actors w) with
  | Some e => Some (if a_stop (snd e)
                    then (if memN (fst e) (gated w) then LWClose (fst e) else LWExit (fst e))
                    else LWStart (fst e))
  | None => None
  end.

Definition can_finalize (w : world) : bool :=
  match fstatus w with FStopping => all_workers_gone w | _ => false end.

Definition next_label (w : world) : option label :=
  if factory_can_step w then Some LFactory
  else match actor_move w with
       | Some l => Some l
       | None => if can_finalize w then Some LFinalize else None
       end.

(* labels taken until quiescence (reverse order accumulated in `acc`) *)
Fixpoint quiesce (c : config) (fuel : nat) (w : world) (acc : list label) : world * list label :=
  match fuel with
  | O => (w, acc)
  | S f => match next_label w with
           | Some l => quiesce c f (step c w l) (l :: acc)
           | None => (w, acc)
           end
  end.

Definition QFUEL : nat := 2000.

Definition do_labels (c : config) (ls : list label) (st : world * list label) : world * list label :=
  let '(w, acc) := st in
  quiesce c QFUEL (run c w ls) (rev ls ++ acc).

(* the labels an op stands for, given the state it is issued in; `armed` = the gated capacity
   controller will block the next Calculate *)
Definition op_labels (w : world) (o : op) : list label :=
  match o with
  | ODispatch id key ttl port => [LSend (SDispatch id key ttl port)]
  (* the worker's task goes on with its own loop before the factory's task gets to run: it takes its next
     mailbox item, or -- a stop is pending -- leaves the loop *)
  | OComplete wid => match running_actor w wid with
                     | Some a => [LWComplete a; LWStart a; if memN a (gated w) then LWClose a else LWExit a]
                     | None => [] end
  | OFail wid => match running_actor w wid with Some a => [LWDie a] | None => [] end
  | OKill wid => match newest_actor w wid with Some a => [LWDie a] | None => [] end
  | OResize n => [LSend (SResize n)]
  | OAdvance s => [LAdvance s; LCalc]
  | OHold => [LAdvance 1; LCalcHold]
  | ORelease n => [LRelease n]
  | ODrain => [LSend SDrain]
  | OStop => [LStop]
  | OQuery => []
  | OSetDisc d => [LSend (SSetDisc d)]
  | OSetCount n => [LSend (SSetCount n)]
  | OXStop wid => match newest_actor w wid with Some a => [LWStopExt a] | None => [] end
  | OXGate wid => match newest_actor w wid with Some a => [LWGate a] | None => [] end
  | OXRelease wid => match closing_actor w wid with Some a => [LWClosed a] | None => [] end
  | OSetHandler => [LSend SNop]
  end.

Definition run_op (c : config) (st : world * list label) (o : op) : world * list label :=
  let st := do_labels c (op_labels (fst st) o) st in
  (* `q`: the three calls are only issued to a running, unheld factory *)
  let st := match o with
            | OQuery => if running_now (fst st) && negb (held (fst st))
                        then do_labels c [LSend (SQuery 0); LSend (SQuery 1); LSend (SQuery 2)] st
                        else st
            | _ => st
            end in
  (* the no-op message that closes every op *)
  do_labels c [LSend SNop] st.

(* per-op event lists, oldest op first; events of one op in emission order *)
Definition run_op_rec (c : config) (acc : world * list label * list (list event)) (o : op)
  : world * list label * list (list event) :=
  let '(st, out) := acc in
  let n0 := length (evs (fst st)) in
  let st' := run_op c st o in
  let new := rev (firstn (length (evs (fst st')) - n0)%nat (evs (fst st'))) in
  (st', new :: out).

Definition run_ops (c : config) (st : world * list label) (os : list op)
  : world * list label * list (list event) :=
  let '(st', out) := fold_left (run_op_rec c) os (st, []) in (st', rev out).

Definition scenario_events (c : config) (n : N) (d : option (N * mode)) (rls : list bool) (os : list op)
  : list (list event) :=
  snd (run_ops c (init c n d rls, []) os).

Definition scenario_final (c : config) (n : N) (d : option (N * mode)) (rls : list bool) (os : list op) : world :=
  fst (fst (run_ops c (init c n d rls, []) os)).

(* the label list a scenario stands for *)
Definition labels_of (c : config) (n : N) (d : option (N * mode)) (rls : list bool) (os : list op) : list label :=
  rev (snd (fst (run_ops c (init c n d rls, []) os))).

(* finite-table user functions for concrete scenarios *)
Definition table_fun (tbl : list (N * N)) (dflt : N -> N) (k : N) : N :=
  match lookup k tbl with Some v => v | None => dflt k end.

(* hash_with_max is tabulated per (key, n) by the harness: entries ((n, key), value) *)
Fixpoint table2 (tbl : list (N * N * N)) (k n : N) : N :=
  match tbl with
  | [] => 0
  | (n', k', v) :: t => if (n' =? n) && (k' =? k) then v else table2 t k n
  end.

Definition mk_config_gen3 (f4 f8 f11 : bool) (r : router) (prio : bool) (htbl : list (N * N * N)) (ctbl : list (N * N)) : config :=
  mkCfg r prio (table2 htbl) (fun k _ => table_fun ctbl (fun k => k) k)
        (fun k => k mod 5) (fun k => negb (k mod 7 =? 6)) f4 f8 f11.
Definition mk_config_gen2 (f4 f8 : bool) := mk_config_gen3 f4 f8 true.
(* F4 switch only, later fixes on *)
Definition mk_config_gen (fixed : bool) := mk_config_gen2 fixed true.
(* the rules of the tree as it stands: F4 (700d6bc), F8 (aa3c2d4), F11 (36a533a) fixed *)
Definition mk_config := mk_config_gen3 true true true.
Definition mk_config_f8 := mk_config.
(* the rule before the F11 fix, kept for the refutation example *)
Definition mk_config_pre_f11 := mk_config_gen3 true true false.
(* the rule before the F8 fix, kept for the refutation example *)
Definition mk_config_pre_f8 := mk_config_gen2 true false.
