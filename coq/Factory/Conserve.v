(* C13 -- conservation of jobs in the factory model (proofs).
   Main result: for every label sequence, the multiset of job ids over all places
   {factory queue, worker queues, factory inbox, worker mailboxes, running slots, fates}
   equals the multiset of dispatched ids, which has no duplicates. *)
From Coq Require Import List NArith Bool Lia Permutation Arith.
From RV Require Import Factory.Model.
Import ListNotations.
Local Open Scope N_scope.

(* ------------------------------------------------------------------ counting *)
Definition cn (j : N) (l : list N) : nat := count_occ N.eq_dec l j.
Definition one (j : N) (x : job) : nat := if j_id x =? j then 1%nat else 0%nat.
Definition cj (j : N) (l : list job) : nat := cn j (map j_id l).

(* Two ways of counting, selected by [rw]:
   rw = true : every place a job can be in; the running slot counts, EStart does not, every
               fate counts                                                   (conservation);
   rw = false: the places of jobs that have NOT yet entered a handler, plus one for every
               EStart; fates of started jobs (EEnd, EDrop CDeath) do not count
               (so "never runs twice" is the same conservation argument).            *)
Definition fidw (rw : bool) (e : event) : list N :=
  match e with
  | EDisc i _ | ESendErr i => [i]
  | EStart i _ _ => if rw then [] else [i]
  | EEnd i _ _ => if rw then [i] else []
  | EDrop i (CDeath _) => if rw then [i] else []
  | EDrop i _ => [i]
  | _ => []
  end.
Definition not_death (c : cause) : bool := match c with CDeath _ => false | _ => true end.
Definition aj (rw : bool) (a : actor) : list job :=
  a_mb a ++ (if rw then match a_run a with Some x => [x] | None => [] end else []).
Definition ajs (rw : bool) (al : list (N * actor)) : list job := flat_map (fun e => aj rw (snd e)) al.

Section Weighted.
Variable rw : bool.
Definition cf (j : N) (out : list event) : nat := cn j (flat_map (fidw rw) out).

Lemma cn_nil j : cn j [] = 0%nat. Proof. reflexivity. Qed.
Lemma cn_cons j x l : cn j (x :: l) = ((if (x =? j)%N then 1 else 0) + cn j l)%nat.
Proof.
  unfold cn. simpl. destruct (N.eq_dec x j) as [e|n].
  - subst. rewrite N.eqb_refl. reflexivity.
  - apply N.eqb_neq in n. rewrite n. reflexivity.
Qed.
Lemma cn_single j x : cn j [x] = (if (x =? j)%N then 1 else 0)%nat.
Proof. rewrite cn_cons, cn_nil. lia. Qed.
Lemma cn_app j l1 l2 : cn j (l1 ++ l2) = (cn j l1 + cn j l2)%nat.
Proof. unfold cn. apply count_occ_app. Qed.

Lemma cj_nil j : cj j [] = 0%nat. Proof. reflexivity. Qed.
Lemma cj_cons j x l : cj j (x :: l) = (one j x + cj j l)%nat.
Proof. unfold cj, one. simpl. apply cn_cons. Qed.
Lemma cj_app j l1 l2 : cj j (l1 ++ l2) = (cj j l1 + cj j l2)%nat.
Proof. unfold cj. rewrite map_app. apply cn_app. Qed.
Lemma cj_one j x : cj j [x] = one j x.
Proof. rewrite cj_cons, cj_nil. lia. Qed.

Lemma cf_nil j : cf j [] = 0%nat. Proof. reflexivity. Qed.
Lemma cf_cons j e out : cf j (e :: out) = (cn j (fidw rw e) + cf j out)%nat.
Proof. unfold cf. simpl. apply cn_app. Qed.
Lemma cf_app j o1 o2 : cf j (o1 ++ o2) = (cf j o1 + cf j o2)%nat.
Proof. unfold cf. rewrite flat_map_app. apply cn_app. Qed.

Lemma cf_disc j x r out : cf j (EDisc (j_id x) r :: out) = (one j x + cf j out)%nat.
Proof. rewrite cf_cons. cbn [fidw]. rewrite cn_single. unfold one. lia. Qed.
Lemma cf_senderr j i out : cf j (ESendErr i :: out) = ((if (i =? j)%N then 1 else 0) + cf j out)%nat.
Proof. rewrite cf_cons. cbn [fidw]. rewrite cn_single. lia. Qed.
Lemma cf_drop j x c out : not_death c = true ->
  cf j (EDrop (j_id x) c :: out) = (one j x + cf j out)%nat.
Proof. intros H. rewrite cf_cons. destruct c; try discriminate; cbn [fidw]; rewrite cn_single; unfold one; lia. Qed.
Lemma cf_drop_death j x a out :
  cf j (EDrop (j_id x) (CDeath a) :: out) = ((if rw then one j x else 0) + cf j out)%nat.
Proof. rewrite cf_cons. cbn [fidw]. destruct rw; rewrite ?cn_single, ?cn_nil; unfold one; lia. Qed.
Lemma cf_end j x w a out : cf j (EEnd (j_id x) w a :: out) = ((if rw then one j x else 0) + cf j out)%nat.
Proof. rewrite cf_cons. cbn [fidw]. destruct rw; rewrite ?cn_single, ?cn_nil; unfold one; lia. Qed.
Lemma cf_start j x w a out : cf j (EStart (j_id x) w a :: out) = ((if rw then 0 else one j x) + cf j out)%nat.
Proof. rewrite cf_cons. cbn [fidw]. destruct rw; rewrite ?cn_single, ?cn_nil; unfold one; lia. Qed.
Lemma cf_accept j x out : cf j (accept_ev x out) = cf j out.
Proof. unfold accept_ev. destruct (j_port x); [rewrite cf_cons|]; reflexivity. Qed.
Lemma cf_reject j x out : cf j (reject_ev x out) = cf j out.
Proof. unfold reject_ev. destruct (j_port x); [rewrite cf_cons|]; reflexivity. Qed.
Lemma one_clear j x : one j (clear_port x) = one j x.
Proof. reflexivity. Qed.

Opaque cn.
Arguments cj : simpl never.
Arguments cf : simpl never.
Arguments one : simpl never.
Hint Rewrite cj_nil cj_cons cj_app cj_one cf_nil cf_app cf_disc cf_senderr cf_drop_death cf_end cf_start
  cf_accept cf_reject one_clear : cnt.
Ltac li := cbn beta iota in *; lia.
Ltac cnt := autorewrite with cnt in *; try li.

(* ------------------------------------------------------------------ queues *)
Lemma q_push_count j lvl x q : cj j (concat (q_push lvl x q)) = (cj j (concat q) + one j x)%nat.
Proof.
  revert lvl. induction q as [|l q IH]; intros lvl.
  - destruct lvl; simpl; cnt.
  - destruct lvl as [|n]; simpl.
    + cnt.
    + destruct q as [|l' q'].
      * simpl. cnt.
      * change (concat (l :: q_push n x (l' :: q'))) with (l ++ concat (q_push n x (l' :: q'))).
        rewrite cj_app, IH. change (concat (l :: l' :: q')) with (l ++ concat (l' :: q')).
        cnt.
Qed.

Lemma q_pop_count j q r q' : q_pop q = (r, q') ->
  cj j (concat q) = (match r with Some x => one j x | None => 0 end + cj j (concat q'))%nat.
Proof.
  revert r q'. induction q as [|l q IH]; intros r q' H; simpl in H.
  - inversion H; subst. reflexivity.
  - destruct l as [|x l].
    + destruct (q_pop q) as [r0 q0] eqn:E. inversion H; subst. simpl. apply IH. reflexivity.
    + inversion H; subst. simpl. cnt.
Qed.

Lemma q_pop_low_count j q r q' : q_pop_low q = (r, q') ->
  cj j (concat q) = (match r with Some x => one j x | None => 0 end + cj j (concat q'))%nat.
Proof.
  revert r q'. induction q as [|l q IH]; intros r q' H; simpl in H.
  - inversion H; subst. reflexivity.
  - destruct (q_pop_low q) as [[x|] q0] eqn:E.
    + inversion H; subst. simpl. rewrite !cj_app. rewrite (IH _ _ eq_refl). li.
    + destruct l as [|x l]; inversion H; subst; simpl; autorewrite with cnt;
        rewrite (IH _ _ eq_refl); simpl; li.
Qed.

Lemma q_peek_pop q x : q_peek q = Some x -> exists q', q_pop q = (Some x, q').
Proof.
  unfold q_peek. induction q as [|l q IH]; simpl; intros H; [discriminate|].
  destruct l as [|y l].
  - simpl in H. destruct (IH H) as [q' E]. rewrite E. eauto.
  - simpl in H. inversion H; subst. eauto.
Qed.

Lemma expired_events_count j t l out :
  (cj j (filter (fun x => negb (expired t x)) l) + cf j (expired_events t l out)
   = cj j l + cf j out)%nat.
Proof.
  revert out. induction l as [|x l IH]; intros out; simpl; [lia|].
  destruct (expired t x); simpl.
  - rewrite IH. cnt.
  - rewrite cj_cons. specialize (IH out). cnt.
Qed.

Lemma filter_concat {A} (f : A -> bool) (q : list (list A)) :
  concat (map (filter f) q) = filter f (concat q).
Proof.
  induction q as [|l q IH]; simpl; [reflexivity|].
  rewrite IH. symmetry. apply filter_app.
Qed.

Lemma q_remove_expired_count j t q out q' out' : q_remove_expired t q out = (q', out') ->
  (cj j (concat q') + cf j out' = cj j (concat q) + cf j out)%nat.
Proof.
  unfold q_remove_expired. intros H. inversion H; subst.
  rewrite filter_concat. apply expired_events_count.
Qed.

(* ------------------------------------------------------------------ association lists *)
Definition qjobs (e : N * wprops) : list job := w_queue (snd e).

Lemma pool_jobs_update j wid p p' pl : lookup wid pl = Some p ->
  (cj j (pool_jobs (update wid p' pl)) + cj j (w_queue p)
   = cj j (pool_jobs pl) + cj j (w_queue p'))%nat.
Proof.
  unfold pool_jobs. induction pl as [|[k v] pl IH]; simpl; intros H; [discriminate|].
  destruct (k =? wid).
  - inversion H; subst. simpl. cnt.
  - simpl. rewrite !cj_app. specialize (IH H). li.
Qed.

Lemma ajs_update j aid a a' al : lookup aid al = Some a ->
  (cj j (ajs rw (update aid a' al)) + cj j (aj rw a)
   = cj j (ajs rw al) + cj j (aj rw a'))%nat.
Proof.
  unfold ajs. induction al as [|[k v] al IH]; simpl; intros H; [discriminate|].
  destruct (k =? aid).
  - inversion H; subst. simpl. cnt.
  - simpl. rewrite !cj_app. specialize (IH H). li.
Qed.

Lemma pool_jobs_remove j wid p pl : lookup wid pl = Some p ->
  (cj j (pool_jobs (remove_key wid pl)) + cj j (w_queue p) = cj j (pool_jobs pl))%nat.
Proof.
  unfold pool_jobs. induction pl as [|[k v] pl IH]; simpl; intros H; [discriminate|].
  destruct (k =? wid).
  - inversion H; subst. cnt.
  - simpl. rewrite !cj_app. specialize (IH H). li.
Qed.

Lemma pool_jobs_insert_new j wid p pl : lookup wid pl = None ->
  cj j (pool_jobs (insert wid p pl)) = (cj j (pool_jobs pl) + cj j (w_queue p))%nat.
Proof.
  unfold pool_jobs. induction pl as [|[k v] pl IH]; simpl; intros H.
  - cnt.
  - rewrite N.eqb_sym in H. destruct (wid =? k) eqn:E; [discriminate|].
    destruct (wid <? k); simpl; rewrite ?cj_app.
    + simpl. li.
    + rewrite (IH H). li.
Qed.

Lemma ajs_app j l1 l2 :
  cj j (ajs rw (l1 ++ l2)) = (cj j (ajs rw l1) + cj j (ajs rw l2))%nat.
Proof. unfold ajs. rewrite flat_map_app. cnt. Qed.

Lemma ajs_new j a wid : cj j (ajs rw [(a, new_actor wid)]) = 0%nat.
Proof. unfold ajs, aj. simpl. destruct rw; reflexivity. Qed.

Lemma pool_jobs_map_dset j f pl :
  (forall p, w_queue (f p) = w_queue p) ->
  cj j (pool_jobs (map (fun e => (fst e, f (snd e))) pl)) = cj j (pool_jobs pl).
Proof.
  intros Hf. unfold pool_jobs. induction pl as [|[k v] pl IH]; simpl; [reflexivity|].
  rewrite !cj_app, IH, Hf. reflexivity.
Qed.

(* ------------------------------------------------------------------ worker level *)
Definition wc (j : N) (x : wctx) : nat :=
  let '(p, acts, out) := x in (cj j (w_queue p) + cj j (ajs rw acts) + cf j out)%nat.

Lemma next_non_expired_count j t q out r q' out' :
  next_non_expired t q out = (r, q', out') ->
  (cj j q + cf j out = match r with Some x => one j x | None => 0 end + cj j q' + cf j out')%nat.
Proof.
  revert out r q' out'. induction q as [|x q IH]; intros out r q' out' H; simpl in H.
  - inversion H; subst. reflexivity.
  - destruct (expired t x).
    + apply IH in H. rewrite <- H. cnt.
    + inversion H; subst. cnt.
Qed.

Lemma next_non_expired_length t q out r q' out' :
  next_non_expired t q out = (r, q', out') ->
  (length q' + match r with Some _ => 1 | None => 0 end <= length q)%nat.
Proof.
  revert out r q' out'. induction q as [|x q IH]; intros out r q' out' H; simpl in H.
  - inversion H; subst. simpl. li.
  - destruct (expired t x).
    + apply IH in H. simpl. li.
    + inversion H; subst. simpl. li.
Qed.

Lemma cast_job_count j acts aid x acts' : cast_job acts aid x = Some acts' ->
  cj j (ajs rw acts') = (cj j (ajs rw acts) + one j x)%nat.
Proof.
  unfold cast_job. destruct (lookup aid acts) as [a|] eqn:L; [|discriminate].
  destruct (a_alive a); [|discriminate]. intros H; inversion H; subst.
  pose proof (ajs_update j aid a (set_a_mb (a_mb a ++ [x]) a) acts L) as U.
  unfold aj in U. simpl in U. autorewrite with cnt in U. li.
Qed.

Lemma dispatch_job_count j x y : wc j (dispatch_job x y) = (wc j x + one j y)%nat.
Proof.
  destruct x as [[p acts] out]. unfold dispatch_job.
  destruct (cast_job acts (w_aid p) y) as [acts'|] eqn:C; simpl.
  - rewrite (cast_job_count j _ _ _ _ C). li.
  - cnt.
Qed.

Lemma dispatch_next_count j t x : wc j (dispatch_next t x) = wc j x.
Proof.
  destruct x as [[p acts] out]. unfold dispatch_next.
  destruct (next_non_expired t (w_queue p) out) as [[[y|] q'] out'] eqn:E;
    pose proof (next_non_expired_count j _ _ _ _ _ _ E) as H.
  - rewrite dispatch_job_count. simpl. li.
  - simpl. li.
Qed.

Lemma shed_oldest_count j fuel t limit q out q' out' :
  shed_oldest fuel t limit q out = (q', out') ->
  (cj j q' + cf j out' = cj j q + cf j out)%nat.
Proof.
  revert q out q' out'. induction fuel as [|f IH]; intros q out q' out' H; simpl in H.
  - inversion H; subst. reflexivity.
  - destruct (limit <? N.of_nat (length q)).
    + destruct (next_non_expired t q out) as [[[d|] q1] out1] eqn:E;
        pose proof (next_non_expired_count j _ _ _ _ _ _ E) as HN.
      * apply IH in H. rewrite H. cnt.
      * inversion H; subst. li.
    + inversion H; subst. reflexivity.
Qed.

Lemma shed_after_count j t x : wc j (shed_after t x) = wc j x.
Proof.
  destruct x as [[p acts] out]. unfold shed_after.
  destruct (w_dset p) as [[limit [|]]|]; try reflexivity.
  destruct (shed_oldest _ t limit (w_queue p) out) as [q' out'] eqn:E.
  apply (shed_oldest_count j) in E. simpl. li.
Qed.

Lemma enqueue_job_count j t x y : wc j (enqueue_job t x y) = (wc j x + one j y)%nat.
Proof.
  destruct x as [[p acts] out]. unfold enqueue_job.
  match goal with |- context [if ?b then _ else _] => destruct b end.
  - simpl. cnt.
  - rewrite shed_after_count. destruct (w_curr p) as [|k ks].
    + destruct (next_non_expired t (w_queue p) (accept_ev y out)) as [[[o|] q'] out'] eqn:E;
        pose proof (next_non_expired_count j _ _ _ _ _ _ E) as H;
        rewrite dispatch_job_count; simpl; autorewrite with cnt in *; li.
    + simpl. cnt.
Qed.

Lemma worker_complete_count j t x k : wc j (worker_complete t x k) = wc j x.
Proof.
  destruct x as [[p acts] out]. unfold worker_complete.
  destruct (memN k (w_curr p)); [|reflexivity].
  rewrite dispatch_next_count. reflexivity.
Qed.

Lemma replace_worker_count j t x a : wc j (replace_worker t x a) = wc j x.
Proof.
  destruct x as [[p acts] out]. unfold replace_worker.
  rewrite dispatch_next_count. reflexivity.
Qed.

(* ------------------------------------------------------------------ the world measure *)
Definition pc (j : N) (w : world) : nat :=
  (cj j (concat (fq w)) + cj j (pool_jobs (pool w)) + cj j (inbox_jobs (inbox_msg w))
   + cj j (ajs rw (actors w)) + cf j (evs w))%nat.

Lemma with_worker_count j wid f w d :
  (forall x, wc j (f x) = (wc j x + d)%nat) ->
  pc j (with_worker wid f w) = (pc j w + match lookup wid (pool w) with Some _ => d | None => 0 end)%nat.
Proof.
  intros Hf. unfold with_worker. destruct (lookup wid (pool w)) as [p|] eqn:L; [|lia].
  specialize (Hf (p, actors w, evs w)).
  destruct (f (p, actors w, evs w)) as [[p' acts'] out'].
  unfold pc. simpl in *.
  pose proof (pool_jobs_update j wid p p' (pool w) L). li.
Qed.

Lemma in_pool_lookup w wid : in_pool w wid = true -> exists p, lookup wid (pool w) = Some p.
Proof. unfold in_pool. destruct (lookup wid (pool w)); [eauto|discriminate]. Qed.

(* functions that do not touch any place *)
Definition same_places (w w' : world) : Prop :=
  fq w' = fq w /\ pool w' = pool w /\ inbox_msg w' = inbox_msg w /\ actors w' = actors w
  /\ evs w' = evs w.

Lemma same_places_pc j w w' : same_places w w' -> pc j w' = pc j w.
Proof. intros (A & B & C & D & E). unfold pc. rewrite A, B, C, D, E. reflexivity. Qed.

Lemma same_places_refl w : same_places w w.
Proof. repeat split. Qed.

Lemma same_places_trans w1 w2 w3 : same_places w1 w2 -> same_places w2 w3 -> same_places w1 w3.
Proof.
  intros (A & B & C & D & E) (A' & B' & C' & D' & E').
  repeat split; congruence.
Qed.

Lemma on_avail_same c wid b w : same_places w (on_avail c wid b w).
Proof.
  unfold on_avail. destruct (factory_queueing c); [|apply same_places_refl].
  destruct b; [destruct (memN wid (inq w))|]; repeat split.
Qed.

Lemma from_deque_same w r w' : from_deque w = (r, w') -> same_places w w'.
Proof.
  unfold from_deque. destruct (pop_avail (avail w) (inq w) (pool w)) as [[r0 av] iq].
  intros H; inversion H; subst. repeat split.
Qed.

Lemma choose_target_same c k hint w r w' : choose_target c k hint w = (r, w') -> same_places w w'.
Proof.
  unfold choose_target. intros H.
  destruct (c_router c).
  - destruct (find_worker _ (pool w)); [inversion H; subst; apply same_places_refl|].
    destruct (match hint with Some h => if in_pool w h then Some h else None | None => None end);
      [inversion H; subst; apply same_places_refl|].
    destruct (pool_size w =? 0); inversion H; subst; apply same_places_refl.
  - destruct hint as [h|]; [destruct (worker_available w h)|];
      try (inversion H; subst; apply same_places_refl); eapply from_deque_same; eauto.
  - match type of H with (if ?b then _ else _) = _ => destruct b end;
      [inversion H; subst; apply same_places_refl|].
    destruct (find_worker _ (pool w)); [inversion H; subst; apply same_places_refl|].
    destruct hint as [h|]; [destruct (worker_available w h)|];
      try (inversion H; subst; apply same_places_refl); eapply from_deque_same; eauto.
  - destruct (pool_size w =? 0); [inversion H; subst; apply same_places_refl|].
    match type of H with (if ?b then _ else _) = _ => destruct b end;
      inversion H; subst; repeat split.
  - destruct (pool_size w =? 0); inversion H; subst; apply same_places_refl.
Qed.

Lemma rl_check_same w b w' : rl_check w = (b, w') -> same_places w w'.
Proof.
  unfold rl_check. destruct (rl w); intros H; inversion H; subst; repeat split.
Qed.

(* route_message: the job in hand either reaches a worker or comes back unchanged *)
Lemma route_message_count j c x hint w r w' : route_message c x hint w = (r, w') ->
  match r with
  | Handled => pc j w' = (pc j w + one j x)%nat
  | Backlog y | RateLimited y => y = x /\ pc j w' = pc j w
  end.
Proof.
  unfold route_message. destruct (rl_check w) as [ok w0] eqn:R.
  apply rl_check_same in R. pose proof (same_places_pc j _ _ R) as P0.
  destruct ok; simpl.
  - destruct (choose_target c (j_key x) hint w0) as [tgt w1] eqn:C.
    apply choose_target_same in C. pose proof (same_places_pc j _ _ C) as P1.
    destruct tgt as [wid|].
    + destruct (in_pool w1 wid) eqn:I.
      * intros H; inversion H; subst.
        rewrite (with_worker_count j wid _ w1 (one j x)).
        -- destruct (in_pool_lookup _ _ I) as [p L]. rewrite L. li.
        -- intros y. apply enqueue_job_count.
      * intros H; inversion H; subst. split; [reflexivity|lia].
    + intros H; inversion H; subst. split; [reflexivity|lia].
  - intros H; inversion H; subst. split; [reflexivity|].
    destruct hint as [h|]; [|lia]. destruct (worker_available w0 h); [|lia].
    rewrite (same_places_pc j _ _ (on_avail_same c h true w0)). li.
Qed.

Lemma discard_count j r x w : pc j (discard r x w) = (pc j w + one j x)%nat.
Proof. unfold discard, emit, pc. simpl. cnt. Qed.
Lemma reject_count j x w : pc j (reject x w) = pc j w.
Proof. unfold reject, pc. simpl. cnt. Qed.
Lemma accept_count j x w : pc j (accept x w) = pc j w.
Proof. unfold accept, pc. simpl. cnt. Qed.

Lemma set_fq_count j q w : (pc j (set_fq q w) + cj j (concat (fq w)) = pc j w + cj j (concat q))%nat.
Proof. unfold pc. simpl. li. Qed.

Lemma drop_expired_head_count j fuel w : pc j (drop_expired_head fuel w) = pc j w.
Proof.
  revert w. induction fuel as [|f IH]; intros w; simpl; [reflexivity|].
  destruct (q_peek (fq w)) as [x|]; [|reflexivity].
  destruct (expired (now w) x); [|reflexivity].
  destruct (q_pop (fq w)) as [[y|] q'] eqn:E; [|reflexivity].
  rewrite IH, reject_count, discard_count.
  pose proof (q_pop_count j _ _ _ E). pose proof (set_fq_count j q' w). li.
Qed.

Lemma route_loop_count j c fuel hint w : pc j (route_loop c fuel hint w) = pc j w.
Proof.
  revert w. induction fuel as [|f IH]; intros w; simpl; [reflexivity|].
  destruct (q_peek (fq w)) as [x|]; [|reflexivity].
  destruct (choose_target c (j_key x) hint w) as [tgt w1] eqn:C.
  apply choose_target_same in C. pose proof (same_places_pc j _ _ C) as P1.
  destruct tgt as [wid|]; [|assumption].
  destruct (q_pop (fq w1)) as [[y|] q'] eqn:E; [|assumption].
  pose proof (q_pop_count j _ _ _ E) as HP. pose proof (set_fq_count j q' w1) as HS.
  destruct (route_message c y (Some wid) (set_fq q' w1)) as [r w2] eqn:RM.
  pose proof (route_message_count j _ _ _ _ _ _ RM) as HR.
  destruct r as [|z|z].
  - li.
  - destruct HR as [-> HR]. unfold emit, pc in *. simpl in *. rewrite cf_drop by reflexivity. li.
  - destruct HR as [-> HR]. rewrite IH, reject_count, discard_count. li.
Qed.

Lemma try_route_next_count j c hint w : pc j (try_route_next c hint w) = pc j w.
Proof. unfold try_route_next. rewrite route_loop_count, drop_expired_head_count. reflexivity. Qed.

Lemma shed_queue_count j fuel limit w : pc j (shed_queue fuel limit w) = pc j w.
Proof.
  revert w. induction fuel as [|f IH]; intros w; simpl; [reflexivity|].
  destruct (limit <? qlen (fq w)); [|reflexivity].
  destruct (q_pop_low (fq w)) as [[y|] q'] eqn:E; [|reflexivity].
  rewrite IH, discard_count.
  pose proof (q_pop_low_count j _ _ _ E). pose proof (set_fq_count j q' w). li.
Qed.

Lemma push_count j c x w :
  pc j (set_fq (q_push (level_of c (j_key x)) (clear_port x) (fq w)) (accept x w))
  = (pc j w + one j x)%nat.
Proof.
  unfold pc, accept. simpl. rewrite q_push_count. cnt.
Qed.

Lemma maybe_enqueue_count j c x w : pc j (maybe_enqueue c x w) = (pc j w + one j x)%nat.
Proof.
  unfold maybe_enqueue. destruct (dset w) as [[limit [|]]|].
  - match goal with |- context [if ?b then _ else _] => destruct b end.
    + rewrite reject_count, discard_count. reflexivity.
    + apply push_count.
  - rewrite shed_queue_count. apply push_count.
  - apply push_count.
Qed.

Lemma dispatch_count j c x w : pc j (dispatch c x w) = (pc j w + one j x)%nat.
Proof.
  unfold dispatch. destruct (expired (now w) x).
  - rewrite reject_count, discard_count. reflexivity.
  - destruct (drain w).
    + destruct (route_message c x None w) as [r w'] eqn:RM.
      pose proof (route_message_count j _ _ _ _ _ _ RM) as HR.
      destruct r as [|y|y].
      * assumption.
      * destruct HR as [-> HR]. rewrite maybe_enqueue_count. li.
      * destruct HR as [-> HR]. rewrite reject_count, discard_count. li.
    + rewrite reject_count, discard_count. reflexivity.
    + rewrite reject_count, discard_count. reflexivity.
Qed.

Lemma stop_actor_count j aid w : pc j (stop_actor aid w) = pc j w.
Proof.
  unfold stop_actor. destruct (lookup aid (actors w)) as [a|] eqn:L; [|reflexivity].
  destruct (a_alive a); [|reflexivity].
  unfold pc. simpl.
  pose proof (ajs_update j aid a (mkA (a_wid a) true (a_mb a) (a_run a) true) (actors w) L) as U.
  unfold aj in U. simpl in U. autorewrite with cnt in U. li.
Qed.

Lemma is_working_false_queue p : is_working p = false -> w_queue p = [].
Proof.
  unfold is_working, is_available. destruct (w_curr p); destruct (w_queue p); simpl; try discriminate; reflexivity.
Qed.

Lemma remove_worker_count j wid p w : lookup wid (pool w) = Some p -> w_queue p = [] ->
  pc j (set_pool (remove_key wid (pool w)) w) = pc j w.
Proof.
  intros L Q. unfold pc. simpl. pose proof (pool_jobs_remove j wid p (pool w) L). rewrite Q in H. cnt.
Qed.

Lemma worker_finished_count j c who k w : pc j (worker_finished c who k w) = pc j w.
Proof.
  unfold worker_finished.
  assert (T : forall w0, pc j (let w1 := try_route_next c (Some who) w0 in
                               if worker_available w1 who then on_avail c who true w1 else w1) = pc j w0).
  { intros w0. cbv zeta. destruct (worker_available _ who).
    - rewrite (same_places_pc j _ _ (on_avail_same c who true _)). apply try_route_next_count.
    - apply try_route_next_count. }
  destruct (lookup who (pool w)) as [p0|] eqn:L0; [|apply T].
  set (w1 := with_worker who (fun x => worker_complete (now w) x k) w).
  assert (P1 : pc j w1 = pc j w).
  { unfold w1. rewrite (with_worker_count j who _ w 0%nat).
    - destruct (lookup who (pool w)); li.
    - intros x. rewrite worker_complete_count. li. }
  destruct (lookup who (pool w1)) as [p|] eqn:L1; [|assumption].
  destruct (w_drain p).
  - destruct (is_working p) eqn:W; [assumption|].
    rewrite stop_actor_count.
    transitivity (pc j (set_pool (remove_key who (pool w1)) w1)).
    + unfold pc. reflexivity.
    + rewrite (remove_worker_count j who p w1 L1 (is_working_false_queue _ W)). assumption.
  - rewrite T. assumption.
Qed.

Lemma spawn_worker_count j c wid w : lookup wid (pool w) = None ->
  pc j (spawn_worker c wid w) = pc j w.
Proof.
  intros L. unfold spawn_worker.
  rewrite (same_places_pc j _ _ (on_avail_same c wid true _)).
  unfold pc. simpl. rewrite pool_jobs_insert_new by assumption.
  rewrite ajs_app, ajs_new. cnt.
Qed.

Lemma grow_pool_count j c n wid w : pc j (grow_pool c n wid w) = pc j w.
Proof.
  revert wid w. induction n as [|n IH]; intros wid w; simpl; [reflexivity|].
  rewrite IH. destruct (lookup wid (pool w)) as [p|] eqn:L.
  - assert (pc j (set_pool (update wid (set_w_drain false p) (pool w)) w) = pc j w) as H.
    { unfold pc. simpl. pose proof (pool_jobs_update j wid p (set_w_drain false p) (pool w) L) as U.
      simpl in U. li. }
    destruct (is_available p); [rewrite (same_places_pc j _ _ (on_avail_same c wid true _))|]; assumption.
  - apply spawn_worker_count. assumption.
Qed.

Lemma shrink_pool_count j c n wid w : pc j (shrink_pool c n wid w) = pc j w.
Proof.
  revert wid w. induction n as [|n IH]; intros wid w; simpl; [reflexivity|].
  rewrite IH. destruct (lookup wid (pool w)) as [p|] eqn:L; [|reflexivity].
  destruct (is_working p) eqn:W.
  - unfold pc. simpl. pose proof (pool_jobs_update j wid p (set_w_drain true p) (pool w) L) as U.
    simpl in U. li.
  - rewrite stop_actor_count.
    pose proof (on_avail_same c wid false w) as S.
    set (w0 := on_avail c wid false w) in *.
    assert (Hp : pool w0 = pool w) by (destruct S as (_ & Hp & _); exact Hp).
    assert (L0 : lookup wid (pool w0) = Some p) by (rewrite Hp; assumption).
    rewrite <- Hp.
    transitivity (pc j (set_pool (remove_key wid (pool w0)) w0)); [reflexivity|].
    rewrite (remove_worker_count j wid p w0 L0 (is_working_false_queue _ W)).
    apply same_places_pc. assumption.
Qed.

Lemma route_n_count j c n w : pc j (route_n c n w) = pc j w.
Proof.
  revert w. induction n as [|n IH]; intros w; simpl; [reflexivity|].
  destruct (q_peek (fq w)); [|reflexivity]. rewrite IH. apply try_route_next_count.
Qed.

Lemma route_all_count j c fuel w : pc j (route_all c fuel w) = pc j w.
Proof.
  revert w. induction fuel as [|f IH]; intros w; simpl; [reflexivity|].
  destruct (q_peek (fq w)); [|reflexivity].
  destruct (qlen (fq (try_route_next c None w)) <? qlen (fq w)); [rewrite IH|]; apply try_route_next_count.
Qed.

Lemma resize_pool_count j c n w : pc j (resize_pool c n w) = pc j w.
Proof.
  unfold resize_pool. destruct (n =? 0); [reflexivity|].
  destruct (pool_size w <? N.min 1000000 n).
  - assert (G : pc j (set_pool_size (N.min 1000000 n)
                       (grow_pool c (N.to_nat (N.min 1000000 n - pool_size w)) (pool_size w) w)) = pc j w).
    { transitivity (pc j (grow_pool c (N.to_nat (N.min 1000000 n - pool_size w)) (pool_size w) w));
        [reflexivity|apply grow_pool_count]. }
    cbv zeta.
    match goal with |- context [if ?b then _ else _] => destruct b end;
      [rewrite route_n_count|rewrite route_all_count]; exact G.
  - destruct (N.min 1000000 n <? pool_size w); [|reflexivity].
    transitivity (pc j (shrink_pool c (N.to_nat (pool_size w - N.min 1000000 n)) (N.min 1000000 n) w));
      [reflexivity|apply shrink_pool_count].
Qed.

Lemma worker_died_count j c who w : pc j (worker_died c who w) = pc j w.
Proof.
  unfold worker_died. destruct (lookup who (by_actor w)) as [wid|]; [|reflexivity].
  destruct (lookup wid (pool w)) as [p|] eqn:L; [|reflexivity].
  destruct (w_drain p && match w_queue p with [] => true | _ => false end) eqn:RT.
  { apply andb_prop in RT. destruct RT as [_ RT].
    assert (Q : w_queue p = []) by (destruct (w_queue p); [reflexivity|discriminate]).
    pose proof (on_avail_same c wid false w) as S.
    set (w0 := on_avail c wid false w) in *.
    assert (Hp : pool w0 = pool w) by (destruct S as (_ & Hp & _); exact Hp).
    assert (L0 : lookup wid (pool w0) = Some p) by (rewrite Hp; assumption).
    rewrite <- Hp.
    transitivity (pc j (set_pool (remove_key wid (pool w0)) w0)); [reflexivity|].
    rewrite (remove_worker_count j wid p w0 L0 Q). apply same_places_pc. assumption. }
  cbv zeta.
  set (w1 := set_actors (actors w ++ [(next_aid w, new_actor wid)]) (set_next_aid (next_aid w + 1) w)).
  assert (P1 : pc j w1 = pc j w).
  { unfold pc, w1. simpl. rewrite ajs_app, ajs_new. cnt. }
  set (w2 := with_worker wid (fun x => replace_worker (now w1) x (next_aid w)) w1).
  assert (P2 : pc j w2 = pc j w1).
  { unfold w2. rewrite (with_worker_count j wid _ w1 0%nat).
    - destruct (lookup wid (pool w1)); li.
    - intros x. rewrite replace_worker_count. li. }
  set (w3 := set_by_actor (remove_key who (by_actor w2) ++ [(next_aid w, wid)]) w2).
  assert (P3 : pc j w3 = pc j w2) by reflexivity.
  destruct (worker_available _ wid).
  - rewrite (same_places_pc j _ _ (on_avail_same c wid true _)), try_route_next_count. li.
  - rewrite try_route_next_count. li.
Qed.

Lemma update_discard_count j c d w : pc j (update_discard c d w) = pc j w.
Proof.
  unfold update_discard, pc. simpl.
  rewrite (pool_jobs_map_dset j (set_w_dset (worker_dset c d))); reflexivity.
Qed.

Lemma check_drained_same w : same_places w (check_drained w).
Proof.
  unfold check_drained. destruct (drain w); try apply same_places_refl.
  - destruct (all_free w && (qlen (fq w) =? 0)); repeat split.
  - repeat split.
Qed.

Lemma query_count j c k w : pc j (query c k w) = pc j w.
Proof.
  unfold query. destruct (k =? 0); [|destruct (k =? 1)]; unfold emit, pc; simpl; rewrite cf_cons; reflexivity.
Qed.

Definition msg_job (j : N) (m : fmsg) : nat := match m with MDispatch x => one j x | _ => 0%nat end.

Lemma handle_msg_count j c m w : pc j (handle_msg c m w) = (pc j w + msg_job j m)%nat.
Proof.
  unfold handle_msg. rewrite (same_places_pc j _ _ (check_drained_same _)).
  destruct m; simpl.
  - apply dispatch_count.
  - rewrite worker_finished_count. li.
  - rewrite resize_pool_count. li.
  - unfold pc. simpl. li.
  - rewrite update_discard_count. li.
  - rewrite resize_pool_count. li.
  - li.
  - rewrite query_count. li.
Qed.

Lemma calc_tail_count j c w : pc j (calc_tail c w) = pc j w.
Proof.
  unfold calc_tail. destruct (factory_queueing c); [|reflexivity].
  destruct (q_remove_expired (now w) (fq w) (evs w)) as [q' out'] eqn:E.
  apply (q_remove_expired_count j) in E. unfold pc. simpl. li.
Qed.

Lemma drain_queue_shutdown_count j fuel w : pc j (drain_queue_shutdown fuel w) = pc j w.
Proof.
  revert w. induction fuel as [|f IH]; intros w; simpl; [reflexivity|].
  destruct (q_pop (fq w)) as [[y|] q'] eqn:E; [|reflexivity].
  rewrite IH, discard_count.
  pose proof (q_pop_count j _ _ _ E). pose proof (set_fq_count j q' w). li.
Qed.

Lemma fold_stop_count j (l : list (N * wprops)) w :
  pc j (fold_left (fun w e => stop_actor (w_aid (snd e)) w) l w) = pc j w.
Proof.
  revert w. induction l as [|e l IH]; intros w; simpl; [reflexivity|].
  rewrite IH. apply stop_actor_count.
Qed.

Lemma shutdown_events_count j l out : cf j (shutdown_events l out) = (cj j l + cf j out)%nat.
Proof.
  unfold shutdown_events. revert out. induction l as [|x l IH]; intros out; simpl; [reflexivity|].
  rewrite IH. cnt.
Qed.

Lemma fold_shutdown_count j (pl : list (N * wprops)) out :
  cf j (fold_left (fun o e => shutdown_events (w_queue (snd e)) o) pl out)
  = (cj j (pool_jobs pl) + cf j out)%nat.
Proof.
  revert out. unfold pool_jobs. induction pl as [|e pl IH]; intros out; simpl; [reflexivity|].
  rewrite IH, shutdown_events_count. cnt.
Qed.

Lemma pool_jobs_cleared j (pl : list (N * wprops)) :
  cj j (pool_jobs (map (fun e => (fst e, set_w_queue [] (snd e))) pl)) = 0%nat.
Proof. unfold pool_jobs. induction pl as [|e pl IH]; simpl; [reflexivity|]. exact IH. Qed.

Lemma shutdown_worker_queues_count j w : pc j (shutdown_worker_queues w) = pc j w.
Proof.
  unfold shutdown_worker_queues, pc. simpl. rewrite fold_shutdown_count, pool_jobs_cleared. li.
Qed.

Lemma post_stop_count j c w : pc j (post_stop c w) = pc j w.
Proof.
  unfold post_stop.
  set (w1 := drain_queue_shutdown (S (length (concat (fq w)))) w).
  assert (P1 : pc j w1 = pc j w) by apply drain_queue_shutdown_count.
  set (w2 := if c_shutdown_worker_queues c then shutdown_worker_queues w1 else w1).
  assert (P2 : pc j w2 = pc j w1).
  { unfold w2. destruct (c_shutdown_worker_queues c); [apply shutdown_worker_queues_count|reflexivity]. }
  transitivity (pc j (fold_left (fun w e => stop_actor (w_aid (snd e)) w) (pool w2) w2)); [reflexivity|].
  rewrite fold_stop_count. li.
Qed.

Lemma inbox_jobs_cons j m l : cj j (inbox_jobs (m :: l)) = (msg_job j m + cj j (inbox_jobs l))%nat.
Proof. unfold inbox_jobs. simpl. rewrite cj_app. destruct m; simpl; cnt. Qed.

Lemma inbox_jobs_snoc j m l : cj j (inbox_jobs (l ++ [m])) = (cj j (inbox_jobs l) + msg_job j m)%nat.
Proof. unfold inbox_jobs. rewrite flat_map_app, cj_app. simpl. destruct m; simpl; cnt. Qed.

Lemma factory_step_count j c w : pc j (factory_step c w) = pc j w.
Proof.
  unfold factory_step. destruct (running_now w && negb (held w)); [|reflexivity].
  destruct (stop_req w); [apply post_stop_count|].
  destruct (inbox_sup w) as [|a rest].
  - destruct (inbox_msg w) as [|m rest] eqn:E; [reflexivity|].
    rewrite handle_msg_count. unfold pc at 1. simpl. unfold pc. rewrite E, inbox_jobs_cons. li.
  - rewrite worker_died_count. reflexivity.
Qed.

Lemma drop_jobs_count j c l out : not_death c = true ->
  cf j (drop_jobs c l out) = (cj j l + cf j out)%nat.
Proof.
  intros Hc. unfold drop_jobs. revert out. induction l as [|x l IH]; intros out; simpl; [reflexivity|].
  rewrite IH, cf_drop by assumption. cnt.
Qed.

Lemma actor_exit_count j aid cm w : not_death cm = true -> pc j (actor_exit aid cm w) = pc j w.
Proof.
  intros Hc. unfold actor_exit. destruct (lookup aid (actors w)) as [a|] eqn:L; [|reflexivity].
  pose proof (ajs_update j aid a (mkA (a_wid a) false [] None (a_stop a)) (actors w) L) as U.
  unfold aj in U. simpl in U.
  unfold pc. simpl.
  destruct (a_run a) as [x|]; rewrite ?cf_drop_death, drop_jobs_count by assumption;
    destruct rw; autorewrite with cnt in *; li.
Qed.

Lemma fold_drop_queues_count j (pl : list (N * wprops)) out :
  cf j (fold_left (fun o e => drop_jobs (CWorkerQueue (fst e)) (w_queue (snd e)) o) pl out)
  = (cj j (pool_jobs pl) + cf j out)%nat.
Proof.
  revert out. unfold pool_jobs. induction pl as [|e pl IH]; intros out; simpl; [reflexivity|].
  rewrite IH, drop_jobs_count by reflexivity. cnt.
Qed.

Lemma finalize_count j w : pc j (finalize w) = pc j w.
Proof.
  unfold finalize. destruct (fstatus w); try reflexivity.
  destruct (all_workers_gone w); [|reflexivity].
  unfold pc. simpl. rewrite drop_jobs_count, fold_drop_queues_count by reflexivity. unfold pool_jobs. simpl. cnt.
Qed.

Lemma w_start_count j aid w : pc j (w_start aid w) = pc j w.
Proof.
  unfold w_start. destruct (lookup aid (actors w)) as [a|] eqn:L; [|reflexivity].
  destruct (a_alive a) eqn:A; [|reflexivity]. destruct (a_run a) eqn:R; [reflexivity|].
  destruct (a_stop a); [reflexivity|]. destruct (a_mb a) as [|x mb] eqn:M; [reflexivity|].
  unfold emit, pc. simpl. rewrite cf_start.
  pose proof (ajs_update j aid a (mkA (a_wid a) true mb (Some x) false) (actors w) L) as U.
  unfold aj in U. simpl in U. rewrite R, M in U. destruct rw; autorewrite with cnt in U; li.
Qed.

Lemma w_complete_count j aid w : pc j (w_complete aid w) = pc j w.
Proof.
  unfold w_complete. destruct (lookup aid (actors w)) as [a|] eqn:L; [|reflexivity].
  destruct (a_alive a) eqn:A; [|reflexivity]. destruct (a_run a) as [x|] eqn:R; [|reflexivity].
  cbv zeta.
  pose proof (ajs_update j aid a (mkA (a_wid a) true (a_mb a) None (a_stop a)) (actors w) L) as U.
  unfold aj in U. simpl in U. rewrite R in U.
  match goal with |- context [if ?b then _ else _] => destruct b end;
    unfold emit, pc; simpl; rewrite ?inbox_jobs_snoc; simpl; rewrite cf_end;
    destruct rw; autorewrite with cnt in U; li.
Qed.

Lemma w_die_count j aid w : pc j (w_die aid w) = pc j w.
Proof.
  unfold w_die. destruct (lookup aid (actors w)) as [a|]; [|reflexivity].
  destruct (a_alive a); [apply actor_exit_count; reflexivity|reflexivity].
Qed.

Lemma w_exit_count j aid w : pc j (w_exit aid w) = pc j w.
Proof.
  unfold w_exit. destruct (lookup aid (actors w)) as [a|]; [|reflexivity].
  destruct (a_alive a); [|reflexivity]. destruct (a_stop a); [|reflexivity].
  destruct (a_run a); [reflexivity|apply actor_exit_count; reflexivity].
Qed.

Lemma w_close_count j aid w : pc j (w_close aid w) = pc j w.
Proof.
  unfold w_close. destruct (lookup aid (actors w)) as [a|]; [|reflexivity].
  destruct (a_alive a); [|reflexivity]. destruct (a_stop a); [|reflexivity].
  destruct (a_run a); [reflexivity|].
  transitivity (pc j (actor_exit aid (CStopExit aid) w)); [reflexivity|apply actor_exit_count; reflexivity].
Qed.

Lemma w_closed_count j aid w : pc j (w_closed aid w) = pc j w.
Proof.
  unfold w_closed. destruct (lookup aid (actors w)) as [a|]; [|reflexivity].
  destruct (memN aid (closing w) && negb (a_alive a)); reflexivity.
Qed.

(* sending: the only step that adds an id *)
Definition label_ids (l : label) : list N :=
  match l with LSend (SDispatch id _ _ _) => [id] | _ => [] end.

Lemma deliver_nonjob_count j m w : msg_job j m = 0%nat ->
  pc j (if running_now w then set_inbox_msg (inbox_msg w ++ [m]) w else w) = pc j w.
Proof.
  intros H. destruct (running_now w); [|reflexivity].
  unfold pc. simpl. rewrite inbox_jobs_snoc. li.
Qed.

Lemma send_msg_count j s w : pc j (send_msg s w) = (pc j w + cn j (label_ids (LSend s)))%nat.
Proof.
  unfold send_msg. destruct s as [id key ttl port| | | | | |]; simpl;
    try (rewrite deliver_nonjob_count by reflexivity; rewrite cn_nil; li).
  rewrite cn_cons, cn_nil.
  destruct (running_now w) eqn:R.
  - unfold pc. simpl. rewrite inbox_jobs_snoc. simpl. unfold one. simpl. li.
  - unfold emit, pc. simpl. rewrite cf_cons. simpl. rewrite cn_cons, cn_nil. li.
Qed.

Lemma step_count j c w l : pc j (step c w l) = (pc j w + cn j (label_ids l))%nat.
Proof.
  destruct l; simpl; rewrite ?cn_nil, ?Nat.add_0_r.
  - apply send_msg_count.
  - destruct (fstatus w); reflexivity.
  - apply factory_step_count.
  - destruct (running_now w && negb (held w)); reflexivity.
  - destruct (held w); [|reflexivity].
    rewrite (same_places_pc j _ _ (check_drained_same _)), calc_tail_count.
    match goal with |- context [if ?b then _ else _] => destruct b end; [reflexivity|].
    rewrite resize_pool_count. reflexivity.
  - destruct (running_now w && negb (held w)); [|reflexivity].
    rewrite (same_places_pc j _ _ (check_drained_same _)), calc_tail_count. reflexivity.
  - reflexivity.
  - apply w_start_count.
  - apply w_complete_count.
  - apply w_die_count.
  - apply w_exit_count.
  - transitivity (pc j (stop_actor a w)); [reflexivity|apply stop_actor_count].
  - reflexivity.
  - apply w_close_count.
  - apply w_closed_count.
  - apply finalize_count.
Qed.

Definition sent_ids (ls : list label) : list N := flat_map label_ids ls.

Lemma run_count j c ls w : pc j (run c w ls) = (pc j w + cn j (sent_ids ls))%nat.
Proof.
  unfold run, sent_ids. revert w. induction ls as [|l ls IH]; intros w; simpl.
  - rewrite cn_nil. li.
  - rewrite IH, step_count, cn_app. li.
Qed.

Lemma lookup_insert {A} k k' (v : A) pl :
  lookup k' (insert k v pl) = if k =? k' then Some v else lookup k' pl.
Proof.
  induction pl as [|[k0 v0] pl IH]; simpl.
  - reflexivity.
  - destruct (k =? k0) eqn:E0.
    + apply N.eqb_eq in E0. subst k0. simpl. destruct (k =? k'); reflexivity.
    + destruct (k <? k0); simpl.
      * destruct (k =? k'); reflexivity.
      * rewrite IH. destruct (k0 =? k') eqn:E1; [|reflexivity].
        apply N.eqb_eq in E1. subst k'. rewrite E0. reflexivity.
Qed.

Lemma spawn_worker_pool c wid w :
  exists p, pool (spawn_worker c wid w) = insert wid p (pool w).
Proof.
  unfold spawn_worker. eexists.
  destruct (on_avail_same c wid true
    (set_by_actor (by_actor w ++ [(next_aid w, wid)])
      (set_pool (insert wid (mkW (next_aid w) [] [] false (worker_dset c (dset w))) (pool w))
        (set_actors (actors w ++ [(next_aid w, new_actor wid)]) (set_next_aid (next_aid w + 1) w)))))
    as (_ & Hp & _).
  rewrite Hp. reflexivity.
Qed.

Lemma spawn_initial_count j c n wid w :
  (forall k p, lookup k (pool w) = Some p -> k < wid) ->
  pc j (spawn_initial c n wid w) = pc j w.
Proof.
  revert wid w. induction n as [|n IH]; intros wid w H; simpl; [reflexivity|].
  rewrite IH.
  - apply spawn_worker_count. destruct (lookup wid (pool w)) as [p|] eqn:L; [|reflexivity].
    apply H in L. lia.
  - intros k p. destruct (spawn_worker_pool c wid w) as [p0 ->]. rewrite lookup_insert.
    destruct (wid =? k) eqn:E.
    + apply N.eqb_eq in E. subst. lia.
    + intros L. apply H in L. lia.
Qed.

Lemma concat_repeat_nil {A} n : concat (repeat (@nil A) n) = [].
Proof. induction n; simpl; auto. Qed.

Lemma init_count j c n d rls : pc j (init c n d rls) = 0%nat.
Proof.
  unfold init.
  transitivity (pc j (spawn_initial c (N.to_nat n) 0 (set_fq (empty_queue c) (init0 d rls)))); [reflexivity|].
  rewrite spawn_initial_count.
  - unfold pc, init0, empty_queue. simpl. rewrite concat_repeat_nil. reflexivity.
  - simpl. intros k p H. discriminate.
Qed.

Lemma run_init_count j c n d rls ls :
  pc j (run c (init c n d rls) ls) = cn j (sent_ids ls).
Proof. rewrite run_count, init_count. reflexivity. Qed.

End Weighted.

(* ------------------------------------------------------------------ the theorems *)
Transparent cn.

Lemma fidw_true e : fidw true e = fate_id e.
Proof. destruct e; try reflexivity. destruct c; reflexivity. Qed.

Lemma places_count j w : cn j (places w) = pc true j w.
Proof.
  unfold places, live_jobs, pc, cj, cf, fated_ids, actors_jobs, ajs, actor_jobs, aj.
  rewrite !map_app, !cn_app.
  rewrite (flat_map_ext _ _ fidw_true). lia.
Qed.

(* every job is in exactly one place: the ids over all places are the dispatched ids *)
Theorem places_permutation : forall c n d rls ls,
  Permutation (places (run c (init c n d rls) ls)) (sent_ids ls).
Proof.
  intros. apply (Permutation_count_occ N.eq_dec). intros j.
  change (cn j (places (run c (init c n d rls) ls)) = cn j (sent_ids ls)).
  rewrite places_count. apply run_init_count.
Qed.

Theorem places_nodup : forall c n d rls ls,
  NoDup (sent_ids ls) -> NoDup (places (run c (init c n d rls) ls)).
Proof.
  intros. eapply Permutation_NoDup; [|eassumption].
  apply Permutation_sym, places_permutation.
Qed.

(* never runs twice *)
Definition started_ids (w : world) : list N :=
  flat_map (fun e => match e with EStart j _ _ => [j] | _ => [] end) (evs w).

Lemma started_le_cf j out :
  (cn j (flat_map (fun e => match e with EStart i _ _ => [i] | _ => [] end) out) <= cf false j out)%nat.
Proof.
  unfold cf. induction out as [|e out IH]; simpl; [lia|].
  rewrite !cn_app. destruct e; simpl; try lia.
Qed.

Theorem started_nodup : forall c n d rls ls,
  NoDup (sent_ids ls) -> NoDup (started_ids (run c (init c n d rls) ls)).
Proof.
  intros c n d rls ls H. apply (NoDup_count_occ N.eq_dec). intros j.
  pose proof (run_init_count false j c n d rls ls) as E.
  pose proof (started_le_cf j (evs (run c (init c n d rls) ls))) as L.
  rewrite (NoDup_count_occ N.eq_dec) in H. specialize (H j).
  unfold pc in E. unfold started_ids. unfold cn in *. lia.
Qed.

(* ------------------------------------------------------------------ single fate *)
Lemma fated_split j out :
  cn j (flat_map fate_id out)
  = (cn j (flat_map (fun e => match e with EEnd i _ _ => [i] | _ => [] end) out)
     + cn j (flat_map (fun e => match e with EDisc i _ => [i] | _ => [] end) out)
     + cn j (flat_map (fun e => match e with EDrop i _ => [i] | _ => [] end) out)
     + cn j (flat_map (fun e => match e with ESendErr i => [i] | _ => [] end) out))%nat.
Proof.
  induction out as [|e out IH]; [reflexivity|].
  cbn [flat_map]. rewrite !cn_app, IH. destruct e; simpl; lia.
Qed.

Theorem single_fate : forall c n d rls ls,
  NoDup (sent_ids ls) ->
  let w := run c (init c n d rls) ls in
  NoDup (handled_ids w ++ discarded_ids w ++ lost_ids w ++ unsent_ids w).
Proof.
  intros c n d rls ls H w. apply (NoDup_count_occ N.eq_dec). intros j.
  pose proof (places_nodup c n d rls ls H) as P. rewrite (NoDup_count_occ N.eq_dec) in P.
  specialize (P j). fold w in P.
  unfold places in P. rewrite count_occ_app in P.
  pose proof (fated_split j (evs w)) as S. unfold cn in S. unfold fated_ids in P.
  rewrite !count_occ_app. unfold handled_ids, discarded_ids, lost_ids, unsent_ids. lia.
Qed.

(* a job that has met its fate is nowhere else *)
Theorem fated_not_live : forall c n d rls ls j,
  NoDup (sent_ids ls) ->
  let w := run c (init c n d rls) ls in
  In j (fated_ids w) -> ~ In j (map j_id (live_jobs w)).
Proof.
  intros c n d rls ls j H w F L.
  pose proof (places_nodup c n d rls ls H) as P. fold w in P. unfold places in P.
  assert (Q : forall l1 l2 : list N, NoDup (l1 ++ l2) -> forall x, In x l1 -> ~ In x l2).
  { induction l1 as [|y l1 IH]; simpl; intros l2 ND x I; [contradiction|].
    inversion ND; subst. destruct I as [->|I].
    - intros I2. apply H2. apply in_or_app. right. assumption.
    - apply IH; assumption. }
  exact (Q _ _ P j L F).
Qed.

(* every id in any place was dispatched, and every dispatched id is somewhere *)
Theorem no_job_invented_or_leaked : forall c n d rls ls j,
  let w := run c (init c n d rls) ls in
  In j (places w) <-> In j (sent_ids ls).
Proof.
  intros. split; intros I.
  - eapply Permutation_in; [apply places_permutation|exact I].
  - eapply Permutation_in; [apply Permutation_sym, places_permutation|exact I].
Qed.

(* ------------------------------------------------------------------ replacement inherits *)
Lemma next_non_expired_split t q out r q' out' :
  next_non_expired t q out = (r, q', out') ->
  exists pre, forallb (expired t) pre = true
              /\ q = pre ++ match r with Some x => [x] | None => [] end ++ q'
              /\ match r with Some x => expired t x = false | None => q' = [] end.
Proof.
  revert out r q' out'. induction q as [|x q IH]; intros out r q' out' H; simpl in H.
  - inversion H; subst. exists []. repeat split.
  - destruct (expired t x) eqn:E.
    + apply IH in H. destruct H as (pre & A & B & C).
      exists (x :: pre). simpl. rewrite E, A. subst q. repeat split; assumption.
    + inversion H; subst. exists []. repeat split. assumption.
Qed.

Lemma lookup_update_same {A} k (v v0 : A) l : lookup k l = Some v0 -> lookup k (update k v l) = Some v.
Proof.
  induction l as [|[k' v'] l IH]; simpl; [discriminate|].
  destruct (k' =? k) eqn:E; simpl; rewrite E; auto.
Qed.

(* after a worker death the replacement keeps the predecessor's queue: expired jobs at its head
   are discarded (TTL), the first live one is handed to the new actor, the rest stays queued *)
Theorem replacement_inherits : forall t p acts out a' wid p' acts' out',
  lookup a' acts = Some (new_actor wid) ->
  replace_worker t (p, acts, out) a' = (p', acts', out') ->
  exists pre mb,
    forallb (expired t) pre = true
    /\ w_queue p = pre ++ mb ++ w_queue p'
    /\ w_aid p' = a'
    /\ lookup a' acts' = Some (set_a_mb mb (new_actor wid))
    /\ w_curr p' = map j_key mb
    /\ (length mb <= 1)%nat.
Proof.
  intros t p acts out a' wid p' acts' out' L H. unfold replace_worker, dispatch_next in H. simpl in H.
  destruct (next_non_expired t (w_queue p) out) as [[[x|] q1] out1] eqn:E;
    destruct (next_non_expired_split _ _ _ _ _ _ E) as (pre & A & B & C).
  - unfold dispatch_job, cast_job in H. simpl in H. rewrite L in H. simpl in H.
    inversion H; subst. exists pre, [x]. simpl. repeat split; try assumption; try lia.
    eapply lookup_update_same; eassumption.
  - inversion H; subst. exists pre, []. simpl. repeat split; try assumption; try lia.
Qed.

(* ------------------------------------------------------------------ stopping *)
Lemma q_pop_none q q' : q_pop q = (None, q') -> concat q = [].
Proof.
  revert q'. induction q as [|l q IH]; intros q' H; simpl in H; [reflexivity|].
  destruct l as [|x l]; [|discriminate].
  destruct (q_pop q) as [r q0] eqn:E. inversion H; subst. simpl. eapply IH. reflexivity.
Qed.

Lemma q_pop_some_length q x q' : q_pop q = (Some x, q') -> length (concat q) = S (length (concat q')).
Proof.
  revert q'. induction q as [|l q IH]; intros q' H; simpl in H; [discriminate|].
  destruct l as [|y l].
  - destruct (q_pop q) as [r q0] eqn:E. inversion H; subst. simpl. eapply IH. reflexivity.
  - inversion H; subst. simpl. reflexivity.
Qed.

Lemma drain_queue_shutdown_empties fuel w :
  (length (concat (fq w)) < fuel)%nat -> concat (fq (drain_queue_shutdown fuel w)) = [].
Proof.
  revert w. induction fuel as [|f IH]; intros w H; [lia|]. simpl.
  destruct (q_pop (fq w)) as [[y|] q'] eqn:E.
  - apply IH. unfold discard, emit. simpl. apply q_pop_some_length in E. lia.
  - eapply q_pop_none. eassumption.
Qed.

Lemma drain_queue_shutdown_pool fuel w : pool (drain_queue_shutdown fuel w) = pool w.
Proof.
  revert w. induction fuel as [|f IH]; intros w; simpl; [reflexivity|].
  destruct (q_pop (fq w)) as [[y|] q']; [|reflexivity]. rewrite IH. reflexivity.
Qed.

Lemma stop_actor_frame a w :
  fq (stop_actor a w) = fq w /\ pool (stop_actor a w) = pool w /\ fstatus (stop_actor a w) = fstatus w.
Proof.
  unfold stop_actor. destruct (lookup a (actors w)) as [x|]; [|auto].
  destruct (a_alive x); auto.
Qed.

Lemma fold_stop_frame (l : list (N * wprops)) w :
  let w' := fold_left (fun w e => stop_actor (w_aid (snd e)) w) l w in
  fq w' = fq w /\ pool w' = pool w.
Proof.
  revert w. induction l as [|e l IH]; intros w; simpl; [auto|].
  destruct (IH (stop_actor (w_aid (snd e)) w)) as [A B].
  destruct (stop_actor_frame (w_aid (snd e)) w) as (C & D & _).
  split; congruence.
Qed.

Lemma pool_jobs_cleared_nil (pl : list (N * wprops)) :
  pool_jobs (map (fun e => (fst e, set_w_queue [] (snd e))) pl) = [].
Proof. unfold pool_jobs. induction pl as [|e pl IH]; simpl; [reflexivity|]. exact IH. Qed.

Theorem post_stop_clears : forall c w,
  c_shutdown_worker_queues c = true ->
  concat (fq (post_stop c w)) = [] /\ pool_jobs (pool (post_stop c w)) = []
  /\ fstatus (post_stop c w) = FStopping.
Proof.
  intros c w Hc. unfold post_stop. rewrite Hc.
  set (w1 := drain_queue_shutdown (S (length (concat (fq w)))) w).
  set (w2 := shutdown_worker_queues w1).
  destruct (fold_stop_frame (pool w2) w2) as [A B]. cbv zeta in A, B.
  split; [|split; [|reflexivity]].
  - change (concat (fq (fold_left (fun w e => stop_actor (w_aid (snd e)) w) (pool w2) w2)) = []).
    rewrite A. unfold w2, shutdown_worker_queues. simpl. unfold w1.
    apply drain_queue_shutdown_empties. lia.
  - change (pool_jobs (pool (fold_left (fun w e => stop_actor (w_aid (snd e)) w) (pool w2) w2)) = []).
    rewrite B. unfold w2, shutdown_worker_queues. simpl. apply pool_jobs_cleared_nil.
Qed.

Theorem finalize_empties : forall w,
  fstatus w = FStopping -> all_workers_gone w = true ->
  fstatus (finalize w) = FStopped /\ pool (finalize w) = [] /\ inbox_msg (finalize w) = [].
Proof.
  intros w S G. unfold finalize. rewrite S, G. simpl. auto.
Qed.
