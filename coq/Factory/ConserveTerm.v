(* C13 -- the terminal theorem in its global form: in every reachable state in which the factory
   has stopped, no job is left in any queue, inbox, mailbox or handler; hence every dispatched
   job has exactly one fate. For every label sequence (stale completions included). *)
From Coq Require Import List NArith Bool Lia Permutation.
From RV Require Import Factory.Model Factory.Conserve Factory.RouteUniq Factory.RouteCouple.
Import ListNotations.
Local Open Scope N_scope.

(* what factory-side functions never do to the worker actors: touch a dead one, or put a job into a
   handler (running slot) *)
Definition dead_same (acts acts' : list (N * actor)) : Prop :=
  forall x act', In (x, act') acts' ->
    (a_alive act' = false -> In (x, act') acts)
    /\ (forall j, a_run act' = Some j -> exists act, In (x, act) acts /\ a_run act = Some j).

Lemma lookup_In0 {A} k (v : A) l : lookup k l = Some v -> In (k, v) l.
Proof.
  induction l as [|[k' v'] l IH]; simpl; [discriminate|].
  destruct (k' =? k) eqn:E; [apply N.eqb_eq in E; intros H; inversion H; subst; auto|auto].
Qed.

Lemma In_update {A} k (v : A) l e : In e (update k v l) -> e = (k, v) \/ In e l.
Proof.
  induction l as [|[k' v'] l IH]; simpl; [tauto|]. destruct (k' =? k) eqn:E; simpl.
  - apply N.eqb_eq in E. subst. intuition.
  - intuition.
Qed.

(* what a factory-side function may do, as far as this theorem is concerned *)
Definition TF (w w' : world) : Prop :=
  fstatus w' = fstatus w /\ held w' = held w /\ dead_same (actors w) (actors w').

Lemma dead_same_refl a : dead_same a a.
Proof. intros x act' L. split; [auto|]. intros j R. eauto. Qed.
Lemma dead_same_trans a b c : dead_same a b -> dead_same b c -> dead_same a c.
Proof.
  intros H1 H2 x act' L. destruct (H2 x act' L) as [D2 R2]. split.
  - intros D. destruct (H1 x act' (D2 D)) as [D1 _]. auto.
  - intros j R. destruct (R2 j R) as (act & La & Ra). destruct (H1 x act La) as [_ R1]. eauto.
Qed.
Lemma TF_refl w : TF w w. Proof. (split; [|split]; try reflexivity). apply dead_same_refl. Qed.
Lemma TF_trans a b c : TF a b -> TF b c -> TF a c.
Proof. intros (A1 & A2 & A3) (B1 & B2 & B3). (split; [|split]); try congruence. eapply dead_same_trans; eassumption. Qed.
Ltac tfr := first [apply TF_refl | ((split; [|split]; try reflexivity); simpl; try reflexivity; apply dead_same_refl)].

Lemma same_places_TF' w w' : same_places w w' -> fstatus w' = fstatus w -> held w' = held w -> TF w w'.
Proof. intros (_ & _ & _ & A & _) F H. (split; [|split]); try assumption. rewrite A. apply dead_same_refl. Qed.

Lemma on_avail_TF c wid b w : TF w (on_avail c wid b w).
Proof. unfold on_avail. destruct (factory_queueing c); [|tfr]. destruct b; [destruct (memN wid (inq w))|]; tfr. Qed.

Lemma choose_target_TF c k hint w r w' : choose_target c k hint w = (r, w') -> TF w w'.
Proof.
  intros H. pose proof (choose_target_sameX _ _ _ _ _ _ H) as (_ & A & _ & _ & _ & _ & F).
  (split; [|split]); [exact F| |rewrite A; apply dead_same_refl].
  unfold choose_target in H. destruct (c_router c).
  - destruct (find_worker _ (pool w)); [inversion H; reflexivity|].
    destruct (match hint with Some h => if in_pool w h then Some h else None | None => None end); [inversion H; reflexivity|].
    destruct (pool_size w =? 0); inversion H; reflexivity.
  - unfold from_deque in H. destruct (pop_avail (avail w) (inq w) (pool w)) as [[r0 av] iq].
    destruct hint as [h|]; [destruct (worker_available w h)|]; inversion H; reflexivity.
  - unfold from_deque in H. destruct (pop_avail (avail w) (inq w) (pool w)) as [[r0 av] iq].
    match type of H with (if ?b then _ else _) = _ => destruct b end; [inversion H; reflexivity|].
    destruct (find_worker _ (pool w)); [inversion H; reflexivity|].
    destruct hint as [h|]; [destruct (worker_available w h)|]; inversion H; reflexivity.
  - destruct (pool_size w =? 0); [inversion H; reflexivity|].
    match type of H with (if ?b then _ else _) = _ => destruct b end; inversion H; reflexivity.
  - destruct (pool_size w =? 0); inversion H; reflexivity.
Qed.

Lemma rl_check_TF w b w' : rl_check w = (b, w') -> TF w w'.
Proof. unfold rl_check. destruct (rl w); intros H; inversion H; subst; tfr. Qed.

(* worker level: dead actors are never touched *)
Lemma cast_job_dead acts aid j acts' : cast_job acts aid j = Some acts' -> dead_same acts acts'.
Proof.
  unfold cast_job. destruct (lookup aid acts) as [a|] eqn:L; [|discriminate].
  destruct (a_alive a) eqn:A; [|discriminate]. intros H; inversion H; subst.
  intros x act' Lx. apply In_update in Lx. destruct Lx as [E|Lx]; [|split; [auto|intros j0 R; eauto]].
  inversion E; subst. simpl. split; [congruence|]. intros j0 R. exists a. split; [apply lookup_In0; exact L|exact R].
Qed.

Definition wacts (x : wctx) : list (N * actor) := snd (fst x).

Lemma dispatch_job_dead x j : dead_same (wacts x) (wacts (dispatch_job x j)).
Proof.
  destruct x as [[p acts] out]. unfold dispatch_job. destruct (cast_job acts (w_aid p) j) eqn:C; simpl.
  - eapply cast_job_dead. eassumption.
  - apply dead_same_refl.
Qed.

Lemma dispatch_next_dead t x : dead_same (wacts x) (wacts (dispatch_next t x)).
Proof.
  destruct x as [[p acts] out]. unfold dispatch_next.
  destruct (next_non_expired t (w_queue p) out) as [[[y|] q'] out'].
  - apply (dispatch_job_dead (set_w_queue q' p, acts, out') y).
  - apply dead_same_refl.
Qed.

Lemma shed_after_dead t x : wacts (shed_after t x) = wacts x.
Proof.
  destruct x as [[p acts] out]. unfold shed_after.
  destruct (w_dset p) as [[limit [|]]|]; try reflexivity.
  destruct (shed_oldest _ t limit (w_queue p) out). reflexivity.
Qed.

Lemma enqueue_job_dead t x j : dead_same (wacts x) (wacts (enqueue_job t x j)).
Proof.
  destruct x as [[p acts] out]. unfold enqueue_job.
  match goal with |- context [if ?b then _ else _] => destruct b end; [apply dead_same_refl|].
  rewrite shed_after_dead.
  destruct (w_curr p).
  - destruct (next_non_expired t (w_queue p) (accept_ev j out)) as [[[o|] q'] out'].
    + apply (dispatch_job_dead (set_w_queue (q' ++ [clear_port j]) p, acts, out') o).
    + apply (dispatch_job_dead (set_w_queue q' p, acts, out') (clear_port j)).
  - apply dead_same_refl.
Qed.

Lemma worker_complete_dead t x k : dead_same (wacts x) (wacts (worker_complete t x k)).
Proof.
  destruct x as [[p acts] out]. unfold worker_complete. destruct (memN k (w_curr p)); [|apply dead_same_refl].
  apply (dispatch_next_dead t (set_w_curr (removeN k (w_curr p)) p, acts, out)).
Qed.

Lemma replace_worker_dead t x a : dead_same (wacts x) (wacts (replace_worker t x a)).
Proof.
  destruct x as [[p acts] out]. unfold replace_worker.
  apply (dispatch_next_dead t (set_w_aid a (set_w_curr [] p), acts, out)).
Qed.

Lemma with_worker_TF wid f w : (forall x, dead_same (wacts x) (wacts (f x))) -> TF w (with_worker wid f w).
Proof.
  intros Hf. unfold with_worker. destruct (lookup wid (pool w)) as [p|]; [|tfr].
  specialize (Hf (p, actors w, evs w)). destruct (f (p, actors w, evs w)) as [[p' acts'] out'].
  (split; [|split]; try reflexivity). exact Hf.
Qed.

Lemma route_message_TF c x hint w r w' : route_message c x hint w = (r, w') -> TF w w'.
Proof.
  unfold route_message. destruct (rl_check w) as [ok w0] eqn:R. apply rl_check_TF in R.
  intros H. eapply TF_trans; [exact R|]. destruct ok; simpl in H.
  - destruct (choose_target c (j_key x) hint w0) as [tgt w1] eqn:C. apply choose_target_TF in C.
    eapply TF_trans; [exact C|].
    destruct tgt as [wid|]; [destruct (in_pool w1 wid)|]; inversion H; subst; try tfr.
    apply with_worker_TF. intros y. apply enqueue_job_dead.
  - inversion H; subst. destruct hint as [h|]; [|tfr]. destruct (worker_available w0 h); [apply on_avail_TF|tfr].
Qed.

Lemma drop_expired_head_TF fuel w : TF w (drop_expired_head fuel w).
Proof.
  revert w. induction fuel as [|f IH]; intros w; simpl; [tfr|].
  destruct (q_peek (fq w)) as [x|]; [|tfr]. destruct (expired (now w) x); [|tfr].
  destruct (q_pop (fq w)) as [[y|] q']; [|tfr]. eapply TF_trans; [|apply IH]. tfr.
Qed.

Lemma route_loop_TF c fuel hint w : TF w (route_loop c fuel hint w).
Proof.
  revert w. induction fuel as [|f IH]; intros w; simpl; [tfr|].
  destruct (q_peek (fq w)) as [x|]; [|tfr].
  destruct (choose_target c (j_key x) hint w) as [tgt w1] eqn:C. apply choose_target_TF in C.
  eapply TF_trans; [exact C|]. destruct tgt as [wid|]; [|tfr].
  destruct (q_pop (fq w1)) as [[y|] q']; [|tfr].
  destruct (route_message c y (Some wid) (set_fq q' w1)) as [r w2] eqn:RM.
  apply route_message_TF in RM. assert (RM' : TF w1 w2) by exact RM.
  destruct r as [|z|z]; [exact RM'| |].
  - eapply TF_trans; [exact RM'|]. tfr.
  - eapply TF_trans; [exact RM'|]. eapply TF_trans; [|apply IH]. tfr.
Qed.

Lemma try_route_next_TF c hint w : TF w (try_route_next c hint w).
Proof. unfold try_route_next. eapply TF_trans; [apply drop_expired_head_TF|apply route_loop_TF]. Qed.

Lemma shed_queue_TF fuel limit w : TF w (shed_queue fuel limit w).
Proof.
  revert w. induction fuel as [|f IH]; intros w; simpl; [tfr|].
  destruct (limit <? qlen (fq w)); [|tfr]. destruct (q_pop_low (fq w)) as [[y|] q']; [|tfr].
  eapply TF_trans; [|apply IH]. tfr.
Qed.

Lemma maybe_enqueue_TF c x w : TF w (maybe_enqueue c x w).
Proof.
  unfold maybe_enqueue. destruct (dset w) as [[limit [|]]|].
  - match goal with |- context [if ?b then _ else _] => destruct b end; tfr.
  - eapply TF_trans; [|apply shed_queue_TF]. tfr.
  - tfr.
Qed.

Lemma dispatch_TF c x w : TF w (dispatch c x w).
Proof.
  unfold dispatch. destruct (expired (now w) x); [tfr|]. destruct (drain w); try tfr.
  destruct (route_message c x None w) as [r w'] eqn:RM. apply route_message_TF in RM.
  destruct r as [|y|y]; [exact RM| |].
  - eapply TF_trans; [exact RM|apply maybe_enqueue_TF].
  - eapply TF_trans; [exact RM|]. tfr.
Qed.

Lemma stop_actor_TF a w : TF w (stop_actor a w).
Proof.
  unfold stop_actor. destruct (lookup a (actors w)) as [x|] eqn:L; [|tfr].
  destruct (a_alive x) eqn:A; [|tfr]. (split; [|split]; try reflexivity). simpl.
  intros y act' Ly. apply In_update in Ly. destruct Ly as [E|Ly]; [|split; [auto|intros j0 R; eauto]].
  inversion E; subst. simpl. split; [discriminate|]. intros j0 R. exists x. split; [apply lookup_In0; exact L|exact R].
Qed.

Lemma avail_tail_TF c who w :
  TF w (let w1 := try_route_next c (Some who) w in
        if worker_available w1 who then on_avail c who true w1 else w1).
Proof.
  cbv zeta. destruct (worker_available _ who).
  - eapply TF_trans; [apply try_route_next_TF|apply on_avail_TF].
  - apply try_route_next_TF.
Qed.

Lemma worker_finished_TF c who k w : TF w (worker_finished c who k w).
Proof.
  unfold worker_finished. destruct (lookup who (pool w)); [|apply avail_tail_TF].
  set (w1 := with_worker who (fun x => worker_complete (now w) x k) w).
  assert (E1 : TF w w1) by (apply with_worker_TF; intros y; apply worker_complete_dead).
  destruct (lookup who (pool w1)) as [p|]; [|exact E1].
  destruct (w_drain p).
  - destruct (is_working p); [exact E1|]. eapply TF_trans; [exact E1|]. eapply TF_trans; [|apply stop_actor_TF]. tfr.
  - eapply TF_trans; [exact E1|apply avail_tail_TF].
Qed.

Lemma new_actor_dead acts aid wid : dead_same acts (acts ++ [(aid, new_actor wid)]).
Proof.
  intros x act' L. apply in_app_iff in L. destruct L as [L|[E|[]]]; [split; [auto|intros j0 R; eauto]|].
  inversion E; subst. simpl. split; discriminate.
Qed.

Lemma spawn_worker_TF c wid w : TF w (spawn_worker c wid w).
Proof.
  unfold spawn_worker. eapply TF_trans; [|apply on_avail_TF]. (split; [|split]; try reflexivity). simpl. apply new_actor_dead.
Qed.

Lemma grow_pool_TF c n wid w : TF w (grow_pool c n wid w).
Proof.
  revert wid w. induction n as [|n IH]; intros wid w; simpl; [tfr|].
  eapply TF_trans; [|apply IH]. destruct (lookup wid (pool w)) as [p|].
  - destruct (is_available p); [eapply TF_trans; [|apply on_avail_TF]|]; tfr.
  - apply spawn_worker_TF.
Qed.

Lemma shrink_pool_TF c n wid w : TF w (shrink_pool c n wid w).
Proof.
  revert wid w. induction n as [|n IH]; intros wid w; simpl; [tfr|].
  eapply TF_trans; [|apply IH]. destruct (lookup wid (pool w)) as [p|]; [|tfr].
  destruct (is_working p); [tfr|].
  eapply TF_trans; [|apply stop_actor_TF]. eapply TF_trans; [apply (on_avail_TF c wid false)|]. tfr.
Qed.

Lemma route_n_TF c n w : TF w (route_n c n w).
Proof.
  revert w. induction n as [|n IH]; intros w; simpl; [tfr|].
  destruct (q_peek (fq w)); [|tfr]. eapply TF_trans; [apply try_route_next_TF|apply IH].
Qed.

Lemma route_all_TF c fuel w : TF w (route_all c fuel w).
Proof.
  revert w. induction fuel as [|f IH]; intros w; simpl; [tfr|].
  destruct (q_peek (fq w)); [|tfr].
  destruct (qlen (fq (try_route_next c None w)) <? qlen (fq w));
    [eapply TF_trans; [apply try_route_next_TF|apply IH]|apply try_route_next_TF].
Qed.

Lemma resize_pool_TF c n w : TF w (resize_pool c n w).
Proof.
  unfold resize_pool. destruct (n =? 0); [tfr|].
  destruct (pool_size w <? N.min 1000000 n).
  - cbv zeta.
    assert (G : TF w (set_pool_size (N.min 1000000 n) (grow_pool c (N.to_nat (N.min 1000000 n - pool_size w)) (pool_size w) w)))
      by apply (grow_pool_TF c _ (pool_size w) w).
    match goal with |- context [if ?b then _ else _] => destruct b end;
      (eapply TF_trans; [exact G|]); [apply route_n_TF|apply route_all_TF].
  - destruct (N.min 1000000 n <? pool_size w); [|tfr]. apply (shrink_pool_TF c _ (N.min 1000000 n) w).
Qed.

Lemma worker_died_TF c who w : TF w (worker_died c who w).
Proof.
  unfold worker_died. destruct (lookup who (by_actor w)) as [wid|]; [|tfr].
  destruct (lookup wid (pool w)) as [p|]; [|tfr].
  destruct (w_drain p && match w_queue p with [] => true | _ => false end).
  - eapply TF_trans; [apply (on_avail_TF c wid false)|]. tfr.
  - cbv zeta.
    set (w1 := set_actors (actors w ++ [(next_aid w, new_actor wid)]) (set_next_aid (next_aid w + 1) w)).
    assert (E1 : TF w w1) by ((split; [|split]; try reflexivity); simpl; apply new_actor_dead).
    set (w2 := with_worker wid (fun x => replace_worker (now w1) x (next_aid w)) w1).
    assert (E2 : TF w1 w2) by (apply (with_worker_TF wid _ w1); intros y; apply replace_worker_dead).
    set (w3 := set_by_actor (remove_key who (by_actor w2) ++ [(next_aid w, wid)]) w2).
    assert (E3 : TF w w3) by (eapply TF_trans; [exact E1|exact E2]).
    destruct (worker_available _ wid).
    + eapply TF_trans; [exact E3|]. eapply TF_trans; [apply try_route_next_TF|apply on_avail_TF].
    + eapply TF_trans; [exact E3|apply try_route_next_TF].
Qed.

Lemma check_drained_TF' w : fstatus (check_drained w) = fstatus w /\ held (check_drained w) = held w
                           /\ actors (check_drained w) = actors w /\ fq (check_drained w) = fq w.
Proof.
  unfold check_drained. destruct (drain w); auto.
  destruct (all_free w && (qlen (fq w) =? 0)); auto.
Qed.

Lemma handle_msg_TF c m w : TF w (handle_msg c m w).
Proof.
  unfold handle_msg.
  match goal with |- TF w (check_drained ?ww) =>
    destruct (check_drained_TF' ww) as (F & H & A & _);
    assert (G : TF w ww); [|destruct G as (G1 & G2 & G3); (split; [|split]); [congruence|congruence|rewrite A; exact G3]]
  end.
  destruct m; try tfr.
  - apply dispatch_TF.
  - apply worker_finished_TF.
  - apply resize_pool_TF.
  - apply resize_pool_TF.
  - unfold query. destruct (kind =? 0); [|destruct (kind =? 1)]; tfr.
Qed.

(* ------------------------------------------------------------------ the invariant *)
Definition all_dead (w : world) : Prop := forall aid act, In (aid, act) (actors w) -> a_alive act = false.

Lemma lookup_In {A} k (v : A) l : lookup k l = Some v -> In (k, v) l.
Proof.
  induction l as [|[k' v'] l IH]; simpl; [discriminate|].
  destruct (k' =? k) eqn:E; [apply N.eqb_eq in E; intros H; inversion H; subst; auto|auto].
Qed.

Record T (w : world) : Prop := mkT {
  t_dead : forall aid act, In (aid, act) (actors w) -> a_alive act = false -> actor_jobs act = [];
  t_stop : running_now w = false -> concat (fq w) = [] /\ held w = false;
  t_end : fstatus w = FStopped -> pool w = [] /\ inbox_msg w = [] /\ all_dead w
}.

Lemma TF_T_running w w' : TF w w' -> running_now w = true -> T w -> T w'.
Proof.
  intros (F & H & D) R [T1 T2 T3].
  assert (R' : running_now w' = true) by (unfold running_now in *; rewrite F; exact R).
  constructor.
  - intros aid act L A. eapply T1; [apply (proj1 (D aid act L)); exact A|exact A].
  - intros N0. congruence.
  - intros E. unfold running_now in R'. rewrite E in R'. discriminate.
Qed.

Lemma drain_queue_shutdown_frame fuel w :
  let w' := drain_queue_shutdown fuel w in
  actors w' = actors w /\ held w' = held w /\ fstatus w' = fstatus w.
Proof.
  revert w. induction fuel as [|f IH]; intros w; simpl; [auto|].
  destruct (q_pop (fq w)) as [[y|] q']; [|auto].
  destruct (IH (discard RShutdown y (set_fq q' w))) as (A & B & C). auto.
Qed.

Lemma fold_stop_TF (l : list (N * wprops)) w : TF w (fold_left (fun w e => stop_actor (w_aid (snd e)) w) l w).
Proof.
  revert w. induction l as [|e l IH]; intros w; simpl; [tfr|]. eapply TF_trans; [apply stop_actor_TF|apply IH].
Qed.

Lemma post_stop_T c w : T w -> running_now w = true -> held w = false -> T (post_stop c w).
Proof.
  intros [T1 T2 T3] R H. unfold post_stop.
  set (w1 := drain_queue_shutdown (S (length (concat (fq w)))) w).
  destruct (drain_queue_shutdown_frame (S (length (concat (fq w)))) w) as (A1 & H1 & F1). fold w1 in A1, H1, F1.
  assert (Q1 : concat (fq w1) = []) by (apply drain_queue_shutdown_empties; lia).
  set (w2 := if c_shutdown_worker_queues c then shutdown_worker_queues w1 else w1).
  assert (E2 : actors w2 = actors w1 /\ held w2 = held w1 /\ fq w2 = fq w1).
  { unfold w2. destruct (c_shutdown_worker_queues c); auto. }
  destruct E2 as (A2 & H2 & Q2).
  set (w3 := fold_left (fun w e => stop_actor (w_aid (snd e)) w) (pool w2) w2).
  destruct (fold_stop_TF (pool w2) w2) as (F3 & H3 & D3). fold w3 in F3, H3, D3.
  destruct (fold_stop_frame (pool w2) w2) as [Q3 _]. cbv zeta in Q3. fold w3 in Q3.
  constructor; simpl.
  - intros aid act L A. eapply T1; [|exact A]. rewrite <- A1, <- A2. apply (proj1 (D3 aid act L)); exact A.
  - intros _. split; [rewrite Q3, Q2; exact Q1|congruence].
  - discriminate.
Qed.

Lemma factory_step_T c w : T w -> T (factory_step c w).
Proof.
  intros H. unfold factory_step. destruct (running_now w && negb (held w)) eqn:G; [|exact H].
  apply andb_prop in G. destruct G as [R HE]. apply negb_true_iff in HE.
  destruct (stop_req w); [apply post_stop_T; assumption|].
  destruct (inbox_sup w) as [|a rest].
  - destruct (inbox_msg w) as [|m rest]; [exact H|].
    apply (TF_T_running (set_inbox_msg rest w)); [apply handle_msg_TF|exact R|].
    destruct H as [T1 T2 T3]. constructor; simpl; auto.
    all: try (intros E; unfold running_now in R; rewrite E in R; discriminate).
  - apply (TF_T_running (set_inbox_sup rest w)); [apply worker_died_TF|exact R|].
    destruct H as [T1 T2 T3]. constructor; simpl; auto.
    all: try (intros E; unfold running_now in R; rewrite E in R; discriminate).
Qed.

(* a worker-side rewrite of one live actor *)
Lemma actor_rewrite_T w a x x' msgs' sup' :
  T w -> lookup a (actors w) = Some x -> a_alive x = true ->
  (a_alive x' = false -> actor_jobs x' = []) ->
  (running_now w = false -> msgs' = inbox_msg w) ->
  T (set_inbox_sup sup' (set_inbox_msg msgs' (set_actors (update a x' (actors w)) w))).
Proof.
  intros [T1 T2 T3] L A D M.
  constructor; simpl.
  - intros aid act La Al. apply In_update in La. destruct La as [E|La].
    + inversion E; subst. auto.
    + eauto.
  - exact T2.
  - intros E. destruct (T3 E) as (P & I & AD). exfalso. specialize (AD a x (lookup_In _ _ _ L)). congruence.
Qed.

Lemma set_held_T b w : running_now w = true -> T w -> T (set_held b w).
Proof.
  intros R [T1 T2 T3]. constructor; simpl; auto.
  - intros N0. unfold running_now in *. simpl in N0. congruence.
Qed.

Lemma calc_tail_TF c w : TF w (calc_tail c w).
Proof.
  unfold calc_tail. destruct (factory_queueing c); [|tfr].
  destruct (q_remove_expired (now w) (fq w) (evs w)). tfr.
Qed.

Lemma check_drained_TF w : TF w (check_drained w).
Proof. destruct (check_drained_TF' w) as (F & H & A & _). (split; [|split]); auto. rewrite A. apply dead_same_refl. Qed.

Lemma w_noop_all_dead w a x : T w -> lookup a (actors w) = Some x -> a_alive x = true -> fstatus w <> FStopped.
Proof. intros H L A E. destruct (t_end _ H E) as (_ & _ & AD). specialize (AD a x (lookup_In _ _ _ L)). congruence. Qed.

Lemma actor_exit_T a cm w : T w -> (forall x, lookup a (actors w) = Some x -> a_alive x = true) -> T (actor_exit a cm w).
Proof.
  intros H AL. unfold actor_exit. destruct (lookup a (actors w)) as [x|] eqn:L; [|exact H].
  pose proof (actor_rewrite_T w a x (mkA (a_wid x) false [] None (a_stop x)) (inbox_msg w) (inbox_sup w ++ [a]) H L (AL x eq_refl)) as Q.
  assert (Q' : T (set_inbox_sup (inbox_sup w ++ [a]) (set_inbox_msg (inbox_msg w) (set_actors (update a (mkA (a_wid x) false [] None (a_stop x)) (actors w)) w))))
    by (apply Q; auto).
  destruct Q' as [T1 T2 T3]. constructor; simpl in *; auto.
Qed.

Lemma step_T c w l : T w -> T (step c w l).
Proof.
  intros H. destruct l; simpl.
  - (* send *)
    unfold send_msg.
    assert (D : forall m, T (if running_now w then set_inbox_msg (inbox_msg w ++ [m]) w else w)).
    { intros m. destruct (running_now w) eqn:R; [|exact H]. destruct H as [T1 T2 T3].
      constructor; simpl; auto. intros E. unfold running_now in R. rewrite E in R. discriminate. }
    destruct s; try apply D.
    pose proof (D (MDispatch (mkJob id key ttl (now w) port))) as D1.
    destruct (running_now w); [exact D1|]. destruct H as [T1 T2 T3]. constructor; simpl; auto.
  - destruct (fstatus w) eqn:F; try exact H. destruct H as [T1 T2 T3].
    constructor; simpl; auto.
  - apply factory_step_T. exact H.
  - destruct (running_now w && negb (held w)) eqn:G; [|exact H].
    apply andb_prop in G. destruct G as [R _]. apply set_held_T; assumption.
  - (* release *)
    destruct (held w) eqn:HE; [|exact H].
    assert (R : running_now w = true).
    { destruct (running_now w) eqn:R; [reflexivity|]. destruct (t_stop _ H R) as [_ HF]. congruence. }
    pose proof (set_held_T false w R H) as H0.
    apply (TF_T_running (set_held false w)); [|exact R|exact H0].
    eapply TF_trans; [|apply check_drained_TF]. eapply TF_trans; [|apply calc_tail_TF].
    match goal with |- context [if ?b then _ else _] => destruct b end; [tfr|apply resize_pool_TF].
  - destruct (running_now w && negb (held w)) eqn:G; [|exact H].
    apply andb_prop in G. destruct G as [R _].
    apply (TF_T_running w); [|exact R|exact H].
    eapply TF_trans; [|apply check_drained_TF]. apply calc_tail_TF.
  - destruct H as [T1 T2 T3]. constructor; simpl; auto.
  - (* worker takes a job *)
    unfold w_start. destruct (lookup a (actors w)) as [x|] eqn:L; [|exact H].
    destruct (a_alive x) eqn:A; [|exact H]. destruct (a_run x); [exact H|].
    destruct (a_stop x); [exact H|]. destruct (a_mb x) as [|j mb]; [exact H|].
    pose proof (actor_rewrite_T w a x (mkA (a_wid x) true mb (Some j) false) (inbox_msg w) (inbox_sup w) H L A) as Q.
    assert (Q' : T (set_inbox_sup (inbox_sup w) (set_inbox_msg (inbox_msg w) (set_actors (update a (mkA (a_wid x) true mb (Some j) false) (actors w)) w))))
      by (apply Q; auto; simpl; discriminate).
    destruct Q' as [T1 T2 T3]. constructor; simpl in *; auto.
  - unfold w_complete. destruct (lookup a (actors w)) as [x|] eqn:L; [|exact H].
    destruct (a_alive x) eqn:A; [|exact H]. destruct (a_run x) as [j|]; [|exact H]. cbv zeta.
    set (x' := mkA (a_wid x) true (a_mb x) None (a_stop x)).
    change (running_now (emit (EEnd (j_id j) (a_wid x) a) (set_actors (update a x' (actors w)) w))) with (running_now w).
    destruct (running_now w) eqn:R.
    + pose proof (actor_rewrite_T w a x x' (inbox_msg w ++ [MFinished (a_wid x) (j_key j) a]) (inbox_sup w) H L A) as Q.
      assert (Q' : T (set_inbox_sup (inbox_sup w) (set_inbox_msg (inbox_msg w ++ [MFinished (a_wid x) (j_key j) a]) (set_actors (update a x' (actors w)) w))))
        by (apply Q; auto; [simpl; discriminate|intros N0; congruence]).
      destruct Q' as [T1 T2 T3]. constructor; simpl in *; auto.
    + pose proof (actor_rewrite_T w a x x' (inbox_msg w) (inbox_sup w) H L A) as Q.
      assert (Q' : T (set_inbox_sup (inbox_sup w) (set_inbox_msg (inbox_msg w) (set_actors (update a x' (actors w)) w))))
        by (apply Q; auto; simpl; discriminate).
      destruct Q' as [T1 T2 T3]. constructor; simpl in *; auto.
  - unfold w_die. destruct (lookup a (actors w)) as [x|] eqn:L; [|exact H].
    destruct (a_alive x) eqn:A; [|exact H]. apply actor_exit_T; [exact H|]. intros y Ly. congruence.
  - unfold w_exit. destruct (lookup a (actors w)) as [x|] eqn:L; [|exact H].
    destruct (a_alive x) eqn:A; [|exact H]. destruct (a_stop x); [|exact H]. destruct (a_run x); [exact H|].
    apply actor_exit_T; [exact H|]. intros y Ly. congruence.
  - (* external stop *)
    assert (G : T (stop_actor a w)).
    { unfold stop_actor. destruct (lookup a (actors w)) as [x|] eqn:L; [|exact H].
      destruct (a_alive x) eqn:A; [|exact H].
      pose proof (actor_rewrite_T w a x (mkA (a_wid x) true (a_mb x) (a_run x) true) (inbox_msg w) (inbox_sup w) H L A) as Q.
      assert (Q' : T (set_inbox_sup (inbox_sup w) (set_inbox_msg (inbox_msg w) (set_actors (update a (mkA (a_wid x) true (a_mb x) (a_run x) true) (actors w)) w))))
        by (apply Q; auto; simpl; discriminate).
      destruct Q' as [T1 T2 T3]. constructor; simpl in *; auto. }
    destruct G as [T1 T2 T3]. constructor; simpl in *; auto.
  - (* the ghost gate mark *)
    destruct H as [T1 T2 T3]. constructor; simpl in *; auto.
  - unfold w_close. destruct (lookup a (actors w)) as [x|] eqn:L; [|exact H].
    destruct (a_alive x) eqn:A; [|exact H]. destruct (a_stop x); [|exact H]. destruct (a_run x); [exact H|].
    assert (G : T (actor_exit a (CStopExit a) w)) by (apply actor_exit_T; [exact H|]; intros y Ly; congruence).
    destruct G as [T1 T2 T3]. constructor; simpl in *; auto.
  - unfold w_closed. destruct (lookup a (actors w)) as [x|]; [|exact H].
    destruct (memN a (closing w) && negb (a_alive x)); [|exact H].
    destruct H as [T1 T2 T3]. constructor; simpl in *; auto.
  - (* finalize *)
    unfold finalize. destruct (fstatus w) eqn:F; try exact H.
    destruct (all_workers_gone w) eqn:G; [|exact H].
    assert (R : running_now w = false) by (unfold running_now; rewrite F; reflexivity).
    destruct H as [T1 T2 T3]. destruct (T2 R) as [Q Hh].
    constructor; simpl; auto.
    intros _. repeat split.
    unfold all_dead. simpl. intros aid act I.
    unfold all_workers_gone in G. apply andb_prop in G. destruct G as [G _]. rewrite forallb_forall in G.
    specialize (G _ I). simpl in G. destruct (a_alive act); [discriminate|reflexivity].
Qed.

Lemma spawn_initial_TF c m wid w : TF w (spawn_initial c m wid w).
Proof.
  revert wid w. induction m as [|m IH]; intros wid w; simpl; [tfr|].
  eapply TF_trans; [apply spawn_worker_TF|apply IH].
Qed.

Lemma init_T c n d rls : T (init c n d rls).
Proof.
  unfold init.
  set (w0 := set_fq (empty_queue c) (init0 d rls)).
  assert (T0 : T w0).
  { constructor; simpl; try discriminate. intros aid act []. }
  pose proof (TF_T_running w0 _ (spawn_initial_TF c (N.to_nat n) 0 w0) eq_refl T0) as [T1 T2 T3].
  constructor; simpl; auto.
Qed.

Theorem terminal_invariant : forall c n d rls ls, T (run c (init c n d rls) ls).
Proof.
  intros c n d rls ls. unfold run. generalize (init_T c n d rls). generalize (init c n d rls).
  induction ls as [|l ls IH]; intros w H; simpl; [exact H|]. apply IH, step_T. exact H.
Qed.

(* once the factory has stopped nothing is left anywhere ... *)
Theorem terminal_no_live_job : forall c n d rls ls,
  let w := run c (init c n d rls) ls in
  fstatus w = FStopped -> live_jobs w = [].
Proof.
  intros c n d rls ls w F. pose proof (terminal_invariant c n d rls ls) as [T1 T2 T3]. fold w in T1, T2, T3.
  assert (R : running_now w = false) by (unfold running_now; rewrite F; reflexivity).
  destruct (T2 R) as [Q _]. destruct (T3 F) as (P & I & AD).
  unfold live_jobs. rewrite Q, P, I. simpl.
  assert (J : forall aid act, In (aid, act) (actors w) -> actor_jobs act = []) by (intros; eauto).
  unfold actors_jobs. clear -J. induction (actors w) as [|[k v] l IH]; [reflexivity|].
  simpl. rewrite (J k v) by (left; reflexivity). simpl. apply IH. intros aid act I. apply (J aid act). right. exact I.
Qed.

(* ... hence every dispatched job has met exactly one fate *)
Theorem terminal_every_job_fated : forall c n d rls ls,
  let w := run c (init c n d rls) ls in
  fstatus w = FStopped -> Permutation (fated_ids w) (sent_ids ls).
Proof.
  intros c n d rls ls w F. pose proof (places_permutation c n d rls ls) as P. fold w in P.
  unfold places in P. pose proof (terminal_no_live_job c n d rls ls F) as E. fold w in E. rewrite E in P. exact P.
Qed.
