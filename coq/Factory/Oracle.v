(* Executable oracles for C13 and C14, evaluated on the IMPLEMENTATION's event log (per op,
   chronological inside an op) together with the scenario that produced it. They return the
   list of anomalies (empty = the property holds on this history); lib/c13.py, lib/c14.py map
   anomalies to VIOLATION or, when a recorded signature matches, to a known finding.
   Definitions only. *)
From Coq Require Import List NArith Bool.
From RV Require Import Factory.Model Factory.Scenario.
Import ListNotations.
Local Open Scope N_scope.

Inductive anomaly :=
(* C13 *)
| ATwoStarts (j : N)                 (* a job entered a worker's handler twice *)
| ATwoFates (j : N)                  (* two of: handled / discarded / dropped / send error *)
| AEndNoStart (j : N)
| ARetNoDisc (j : N)                 (* returned to the submitter without the discard handler being told *)
| AAccAndRet (j : N)                 (* both accepted and returned *)
| AUnknownJob (j : N)                (* an event about a job that was never dispatched *)
| ASilentLoss (j : N) (opi : N)      (* dropped while not in progress on a worker dying in this op *)
| AActiveOver (opi active inprog : N) (* settled point: more workers counted as working than workers really running a
                                        job -- a job waits at a worker that runs nothing (e.g. a replacement that was
                                        not given its predecessor's queue); judged only where the model's own run is clean *)
| AQueuedWhileFree (opi depth free : N) (* settled point, any router, no discard limit: `depth` accepted jobs wait in
                                        the factory queue while `free` workers are idle, alive and not draining -- they have
                                        no fate and nothing is going to give them one; judged only where the model's own run
                                        has no such point at the same op (sticky routing and a rate limit can hold a job back
                                        legitimately) *)
| AShedKeyRunning (j k opi : N)      (* sticky queuer: job j was load-shed while its key k was being processed -- a job of a key
                                        in progress is parked at that worker, whose private queue has no limit under a
                                        factory-queueing router; only a job still in the FACTORY queue can be shed (the queue at its
                                        limit). Judged only where the model's own run does not shed j in the same situation *)
(* C14 *)
| AAffinity (k w1 w2 : N) (opi : N)  (* key k in progress on two workers at once *)
| AOrder (k j1 j2 : N)               (* key-persistent: j2 dispatched after j1 but started before it *)
| ATwoAtOnce (w : N) (opi : N)       (* worker w runs two jobs at once *)
| AOutsidePool (j w : N)             (* custom routing started a job on a worker outside every pool size in effect *)
| ASpread (opi : N)                  (* round robin: n consecutive dispatches to an idle pool of n hit a worker twice *)
| AIdleBacklog (opi : N)             (* queuer: factory queue non-empty while a worker is free; sticky queuer: the same, judged
                                        only where the model's own run has no such point at the same op (a queued job whose
                                        key is being processed waits for that worker, whoever else is idle) *)
| AActiveUnder (opi active inprog : N). (* fewer active workers reported than workers really running a job *)

Record prog := mkP { p_j : N; p_w : N; p_a : N; p_k : N }.   (* a job in progress *)

Definition key_of (os : list op) (j : N) : option N :=
  match find (fun o => match o with ODispatch id _ _ _ => id =? j | _ => false end) os with
  | Some (ODispatch _ k _ _) => Some k
  | _ => None
  end.

Definition ev_job (e : event) : option N :=
  match e with
  | EAcc j | ERet j | EStart j _ _ | EEnd j _ _ | EDisc j _ | EDrop j _ | ESendErr j => Some j
  | _ => None
  end.

Definition count_ev (f : event -> bool) (l : list event) : nat := length (filter f l).

Definition is_start j e := match e with EStart j' _ _ => j' =? j | _ => false end.
Definition is_end j e := match e with EEnd j' _ _ => j' =? j | _ => false end.
Definition is_disc j e := match e with EDisc j' _ => j' =? j | _ => false end.
Definition is_drop j e := match e with EDrop j' _ => j' =? j | _ => false end.
Definition is_senderr j e := match e with ESendErr j' => j' =? j | _ => false end.
Definition is_acc j e := match e with EAcc j' => j' =? j | _ => false end.
Definition is_ret j e := match e with ERet j' => j' =? j | _ => false end.

Fixpoint dedup (l : list N) : list N :=
  match l with [] => [] | x :: l' => if memN x l' then dedup l' else x :: dedup l' end.

(* ---- per-job clauses of C13 *)
(* the four clauses that need nothing but the log (proved never to fire on a model history:
   Factory/OracleSound.v) *)
Definition job_core (flat : list event) (j : N) : list anomaly :=
  let n f := count_ev (f j) flat in
  (if Nat.ltb 1 (n is_start) then [ATwoStarts j] else [])
  ++ (if Nat.ltb 1 (n is_end + n is_disc + n is_drop + n is_senderr)%nat then [ATwoFates j] else [])
  ++ (if Nat.ltb 0 (n is_end) && Nat.eqb 0 (n is_start) then [AEndNoStart j] else [])
  ++ (if Nat.ltb 0 (n is_ret) && Nat.eqb 0 (n is_disc) then [ARetNoDisc j] else []).

Definition job_anomalies (os : list op) (flat : list event) (j : N) : list anomaly :=
  let n f := count_ev (f j) flat in
  (match key_of os j with None => [AUnknownJob j] | Some _ => [] end)
  ++ job_core flat j
  ++ (if Nat.ltb 0 (n is_ret) && Nat.ltb 0 (n is_acc) then [AAccAndRet j] else []).

(* ---- the scan: jobs in progress, op by op *)
Definition dying_wid (o : op) : option N :=
  match o with OFail w | OKill w => Some w | _ => None end.

Definition factory_queueing_r (r : router) : bool :=
  match r with RQueuer | RSticky => true | _ => false end.
Definition affine (r : router) : bool :=
  match r with RKeyPersistent | RSticky => true | _ => false end.

Definition scan_event (r : router) (os : list op) (o : op) (opi : N)
           (st : list prog * list anomaly) (e : event) : list prog * list anomaly :=
  let '(inp, an) := st in
  match e with
  | EStart j w a =>
      let k := match key_of os j with Some k => k | None => 0 end in
      let an1 := match find (fun p => p_w p =? w) inp with
                 | Some _ => [ATwoAtOnce w opi] | None => [] end in
      let an2 := if affine r then
                   match find (fun p => (p_k p =? k) && negb (p_w p =? w)) inp with
                   | Some p => [AAffinity k (p_w p) w opi] | None => [] end
                 else [] in
      (mkP j w a k :: inp, an ++ an1 ++ an2)
  | EEnd j _ _ => (filter (fun p => negb (p_j p =? j)) inp, an)
  | EDrop j _ =>
      let legit := match find (fun p => p_j p =? j) inp, dying_wid o with
                   | Some p, Some w => p_w p =? w
                   | _, _ => false
                   end in
      (filter (fun p => negb (p_j p =? j)) inp, if legit then an else an ++ [ASilentLoss j opi])
  | EDisc j RLoadshed =>
      let k := match key_of os j with Some k => k | None => 0 end in
      (inp, match r with
            | RSticky => if existsb (fun p => p_k p =? k) inp then an ++ [AShedKeyRunning j k opi] else an
            | _ => an
            end)
  | _ => (inp, an)
  end.

Definition q_value (f : event -> option N) (evs : list event) : option N :=
  match flat_map (fun e => match f e with Some v => [v] | None => [] end) evs with
  | v :: _ => Some v | [] => None end.

(* checks at a `q` op; `nolimit` = no discard limit was ever configured in this scenario *)
Definition scan_query (r : router) (nolimit : bool) (opi : N) (inp : list prog) (evs : list event)
  : list anomaly :=
  let depth := q_value (fun e => match e with EQDepth n => Some n | _ => None end) evs in
  let active := q_value (fun e => match e with EQActive n => Some n | _ => None end) evs in
  let cap := q_value (fun e => match e with EQCap n => Some n | _ => None end) evs in
  (match depth, cap with
   | Some d, Some c =>
       (* every router: a job in the factory queue next to a free worker (worker-queueing routers use the
          factory queue only while the pool is empty). With sticky routing a queued job whose key is being
          processed must wait for that worker, whoever else is idle: lib/c13.py, lib/c14.py apply these --
          plain queuer routing excepted -- only where the model's own run of the scenario is free of them at
          the same op *)
       if nolimit && (0 <? d) && (0 <? c)
       then [AIdleBacklog opi; AQueuedWhileFree opi d c] else []
   | _, _ => [] end)
  ++ (match active with
      | Some a => let n := N.of_nat (length (dedup (map p_w inp))) in
                  (if a <? n then [AActiveUnder opi a n] else [])
                  ++ (if n <? a then [AActiveOver opi a n] else [])
      | None => [] end).

Fixpoint scan_ops (r : router) (nolimit : bool) (all : list op) (os : list op) (evs : list (list event))
         (opi : N) (st : list prog * list anomaly) : list prog * list anomaly :=
  match os, evs with
  | o :: os', es :: evs' =>
      let st := fold_left (scan_event r all o opi) es st in
      let st := match o with
                | OQuery => (fst st, snd st ++ scan_query r nolimit opi (fst st) es)
                | _ => st
                end in
      scan_ops r nolimit all os' evs' (opi + 1) st
  | _, _ => st
  end.

Definition no_limit (d : option (N * mode)) (os : list op) : bool :=
  match d with Some _ => false | None => true end
  && forallb (fun o => match o with OSetDisc _ => false | _ => true end) os.

(* ---- key order (key-persistent): start order of one key follows dispatch order *)
Definition dispatch_index (os : list op) (j : N) : nat :=
  (fix go (l : list op) (i : nat) : nat :=
     match l with
     | [] => i
     | ODispatch id _ _ _ :: l' => if id =? j then i else go l' (S i)
     | _ :: l' => go l' (S i)
     end) os O.

Fixpoint order_anomalies (os : list op) (starts : list (N * N)) (* (jid, key), chronological *)
  : list anomaly :=
  match starts with
  | [] => []
  | (j1, k1) :: rest =>
      flat_map (fun jk => let '(j2, k2) := jk in
                          if (k1 =? k2) && Nat.ltb (dispatch_index os j2) (dispatch_index os j1)
                          then [AOrder k1 j2 j1] else []) rest
      ++ order_anomalies os rest
  end.

(* ---- custom routing: the worker is hash mod n for a pool size n that was requested so far *)
Definition sizes_upto (n0 : N) (os : list op) : list N :=
  n0 :: flat_map (fun o => match o with
                           | OResize n | OSetCount n | ORelease n => if n =? 0 then [] else [N.min 1000000 n]
                           | _ => [] end) os.

Definition custom_anomalies (c : config) (n0 : N) (os : list op) (evs : list (list event)) : list anomaly :=
  let sizes := sizes_upto n0 os in
  flat_map (fun e => match e with
                     | EStart j w _ =>
                         match key_of os j with
                         | Some k => if existsb (fun n => negb (n =? 0) && (custom_target c k n =? w)) sizes
                                     then [] else [AOutsidePool j w]
                         | None => []
                         end
                     | _ => [] end) (concat evs).

(* ---- round robin: when a scenario opens with n dispatch ops on its idle initial pool of n
   workers and none of them is discarded (ttl, load shedding, rate limit), the n jobs are
   spread over all n workers, i.e. each starts at once, on n distinct workers *)
Fixpoint first_dispatches (n : nat) (os : list op) (evs : list (list event)) : option (list event) :=
  match n with
  | O => Some []
  | S n' =>
      match os, evs with
      | ODispatch _ _ _ _ :: os', es :: evs' =>
          match first_dispatches n' os' evs' with Some l => Some (es ++ l) | None => None end
      | _, _ => None
      end
  end.

Definition nodupb (l : list N) : bool := Nat.eqb (length (dedup l)) (length l).

Definition spread_anomalies (r : router) (n0 : N) (os : list op) (evs : list (list event)) : list anomaly :=
  match r with
  | RRoundRobin =>
      match first_dispatches (N.to_nat n0) os evs with
      | Some es =>
          if existsb (fun e => match e with EDisc _ _ | ERet _ => true | _ => false end) es then []
          else
            let ws := flat_map (fun e => match e with EStart _ w _ => [w] | _ => [] end) es in
            if nodupb ws && Nat.eqb (length ws) (N.to_nat n0) then [] else [ASpread 0]
      | None => []
      end
  | _ => []
  end.

(* ---- the two oracles *)
Definition jobs_mentioned (os : list op) (flat : list event) : list N :=
  dedup (flat_map (fun o => match o with ODispatch id _ _ _ => [id] | _ => [] end) os
         ++ flat_map (fun e => match ev_job e with Some j => [j] | None => [] end) flat).

Definition is_c13 (a : anomaly) : bool :=
  match a with
  | ATwoStarts _ | ATwoFates _ | AEndNoStart _ | ARetNoDisc _ | AAccAndRet _ | AUnknownJob _ | ASilentLoss _ _
  | AActiveOver _ _ _ | AQueuedWhileFree _ _ _ | AShedKeyRunning _ _ _ => true
  | _ => false
  end.

Definition scan_all (c : config) (d : option (N * mode)) (os : list op) (evs : list (list event)) : list anomaly :=
  snd (scan_ops (c_router c) (no_limit d os) os os evs 0 ([], [])).

Definition check_C13 (c : config) (n0 : N) (d : option (N * mode)) (os : list op) (evs : list (list event))
  : list anomaly :=
  let flat := concat evs in
  flat_map (job_anomalies os flat) (jobs_mentioned os flat)
  ++ filter is_c13 (scan_all c d os evs).

Definition starts_of (os : list op) (flat : list event) : list (N * N) :=
  flat_map (fun e => match e with
                     | EStart j _ _ => match key_of os j with Some k => [(j, k)] | None => [] end
                     | _ => [] end) flat.

Definition check_C14 (c : config) (n0 : N) (d : option (N * mode)) (os : list op) (evs : list (list event))
  : list anomaly :=
  filter (fun a => negb (is_c13 a)) (scan_all c d os evs)
  ++ (match c_router c with RKeyPersistent => order_anomalies os (starts_of os (concat evs)) | _ => [] end)
  ++ (match c_router c with RCustom => custom_anomalies c n0 os evs | _ => [] end)
  ++ spread_anomalies (c_router c) n0 os evs.

(* ---- stale completions, read off a log: worker w's actor a ended a job of key k while the
   factory was held, and a died before the factory was released: the factory then processes
   WorkerDied(a) (supervision first) and only afterwards Finished(w,k) of the dead a. *)
Fixpoint stale_scan (os : list op) (evs : list (list event)) (held : bool)
         (pending : list (N * N))       (* (w, j): j ended on w's actor while held, not yet released *)
         (acc : list (N * N)) : list (N * N) :=
  match os, evs with
  | o :: os', es :: evs' =>
      let ended := flat_map (fun e => match e with EEnd j w _ => [(w, j)] | _ => [] end) es in
      let acc1 := match dying_wid o with
                  | Some w => if held then acc ++ filter (fun x => fst x =? w) pending else acc
                  | None => acc
                  end in
      let held1 := match o with OHold => true | ORelease _ => false | _ => held end in
      stale_scan os' evs' held1 (if held && held1 then pending ++ ended else []) acc1
  | _, _ => acc
  end.

(* (worker, id of the job whose completion message will arrive stale) *)
Definition stale_completions (os : list op) (evs : list (list event)) : list (N * N) :=
  stale_scan os evs false [] [].
