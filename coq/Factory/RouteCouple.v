(* C14 -- coupling between the factory's bookkeeping and what the worker actors really hold,
   for histories WITHOUT stale completions; consequence: affinity of key-persistent routing.

   A completion message is stale when the factory processes Finished(w,k) although its sender
   (ghost field of MFinished) is no longer the actor behind worker w's slot. Over label
   sequences in which that never happens (run_ok) the invariant Inv below holds: for every
   pool slot the jobs in its actor's mailbox and handler, plus its completions still in flight,
   are exactly curr_jobs; actors that are not behind a slot hold nothing. *)
From Coq Require Import List NArith Bool Lia Permutation.
From RV Require Import Factory.Model Factory.Conserve Factory.RoutePool Factory.RouteUniq.
Import ListNotations.
Local Open Scope N_scope.

Definition inflight (a : N) (msgs : list fmsg) : list N :=
  flat_map (fun m => match m with MFinished _ k s => if s =? a then [k] else [] | _ => [] end) msgs.
Definition akeys (act : actor) : list N := map j_key (actor_jobs act).

Definition slot_ok (w : world) (wid : N) (p : wprops) : Prop :=
  exists act, lookup (w_aid p) (actors w) = Some act /\ a_wid act = wid
    /\ incl (akeys act) (w_curr p)
    /\ (running_now w = true -> a_alive act = true ->
        Permutation (akeys act ++ inflight (w_aid p) (inbox_msg w)) (w_curr p)).

Definition msg_ok (w : world) (m : fmsg) : Prop :=
  match m with
  | MFinished who _ s => exists act, lookup s (actors w) = Some act /\ a_wid act = who
  | _ => True
  end.

(* exc = a slot whose coupling is temporarily suspended (its completion message has just been
   taken from the inbox and not yet applied) *)
Record InvX (exc : option N) (w : world) : Prop := mkInv {
  i_slot : forall wid p, lookup wid (pool w) = Some p -> exc <> Some wid -> slot_ok w wid p;
  i_actor : forall aid act, lookup aid (actors w) = Some act -> actor_jobs act <> [] ->
      a_alive act = true /\ exists p, lookup (a_wid act) (pool w) = Some p /\ w_aid p = aid;
  i_fresh_a : forall aid act, lookup aid (actors w) = Some act -> aid < next_aid w;
  i_msg : forall m, In m (inbox_msg w) -> msg_ok w m;
  i_sup : forall a, In a (inbox_sup w) -> exists act, lookup a (actors w) = Some act /\ a_alive act = false;
  i_by : forall who wid, lookup who (by_actor w) = Some wid -> exists p, lookup wid (pool w) = Some p /\ w_aid p = who;
  i_by_nodup : NoDup (map fst (by_actor w));
  i_by_fresh : forall who wid, lookup who (by_actor w) = Some wid -> who < next_aid w;
  i_pool_nodup : NoDup (map fst (pool w));
  i_slot_actor : forall wid p, lookup wid (pool w) = Some p ->
      exists act, lookup (w_aid p) (actors w) = Some act /\ a_wid act = wid;
  i_one : forall aid act, lookup aid (actors w) = Some act -> (length (actor_jobs act) <= 1)%nat
}.
Definition Inv := InvX None.

(* the components Inv talks about *)
Definition sameX (w w' : world) : Prop :=
  pool w' = pool w /\ actors w' = actors w /\ inbox_msg w' = inbox_msg w /\ inbox_sup w' = inbox_sup w
  /\ by_actor w' = by_actor w /\ next_aid w' = next_aid w /\ fstatus w' = fstatus w.

Lemma sameX_refl w : sameX w w. Proof. repeat split. Qed.
Lemma sameX_trans a b c : sameX a b -> sameX b c -> sameX a c.
Proof. intros (A1&A2&A3&A4&A5&A6&A7) (B1&B2&B3&B4&B5&B6&B7). repeat split; congruence. Qed.

Lemma sameX_Inv exc w w' : sameX w w' -> InvX exc w -> InvX exc w'.
Proof.
  intros (A1&A2&A3&A4&A5&A6&A7) [H1 H2 H3 H4 H5 H6 H7 H8 H9 H10 H11].
  assert (R : running_now w' = running_now w) by (unfold running_now; rewrite A7; reflexivity).
  constructor.
  - intros wid p L E. rewrite A1 in L. destruct (H1 wid p L E) as (act & La & Wa & I & P).
    exists act. rewrite A2, A3, R. auto.
  - intros aid act L J. rewrite A2 in L. rewrite A1. auto.
  - rewrite A2, A6. assumption.
  - intros m Im. rewrite A3 in Im. specialize (H4 m Im). destruct m; simpl in *; try tauto; rewrite ?A2; auto.
  - rewrite A2, A4. assumption.
  - rewrite A1, A5. assumption.
  - rewrite A5. assumption.
  - rewrite A5, A6. assumption.
  - rewrite A1. assumption.
  - rewrite A1, A2. assumption.
  - rewrite A2. assumption.
Qed.

Ltac sx := repeat split.

Lemma on_avail_sameX c wid b w : sameX w (on_avail c wid b w).
Proof.
  unfold on_avail. destruct (factory_queueing c); [|apply sameX_refl].
  destruct b; [destruct (memN wid (inq w))|]; sx.
Qed.

Lemma from_deque_sameX w r w' : from_deque w = (r, w') -> sameX w w'.
Proof.
  unfold from_deque. destruct (pop_avail (avail w) (inq w) (pool w)) as [[r0 av] iq].
  intros H; inversion H; subst. sx.
Qed.

Lemma choose_target_sameX c k hint w r w' : choose_target c k hint w = (r, w') -> sameX w w'.
Proof.
  unfold choose_target. intros H.
  destruct (c_router c).
  - destruct (find_worker _ (pool w)); [inversion H; subst; apply sameX_refl|].
    destruct (match hint with Some h => if in_pool w h then Some h else None | None => None end);
      [inversion H; subst; apply sameX_refl|].
    destruct (pool_size w =? 0); inversion H; subst; apply sameX_refl.
  - destruct hint as [h|]; [destruct (worker_available w h)|];
      try (inversion H; subst; apply sameX_refl); eapply from_deque_sameX; eauto.
  - match type of H with (if ?b then _ else _) = _ => destruct b end;
      [inversion H; subst; apply sameX_refl|].
    destruct (find_worker _ (pool w)); [inversion H; subst; apply sameX_refl|].
    destruct hint as [h|]; [destruct (worker_available w h)|];
      try (inversion H; subst; apply sameX_refl); eapply from_deque_sameX; eauto.
  - destruct (pool_size w =? 0); [inversion H; subst; apply sameX_refl|].
    match type of H with (if ?b then _ else _) = _ => destruct b end;
      inversion H; subst; sx.
  - destruct (pool_size w =? 0); inversion H; subst; apply sameX_refl.
Qed.

Lemma rl_check_sameX w b w' : rl_check w = (b, w') -> sameX w w'.
Proof. unfold rl_check. destruct (rl w); intros H; inversion H; subst; sx. Qed.

Lemma discard_sameX r x w : sameX w (discard r x w). Proof. sx. Qed.
Lemma reject_sameX x w : sameX w (reject x w). Proof. sx. Qed.
Lemma accept_sameX x w : sameX w (accept x w). Proof. sx. Qed.
Lemma emit_sameX e w : sameX w (emit e w). Proof. sx. Qed.
Lemma set_fq_sameX q w : sameX w (set_fq q w). Proof. sx. Qed.

Lemma drop_expired_head_sameX fuel w : sameX w (drop_expired_head fuel w).
Proof.
  revert w. induction fuel as [|f IH]; intros w; simpl; [apply sameX_refl|].
  destruct (q_peek (fq w)) as [x|]; [|apply sameX_refl].
  destruct (expired (now w) x); [|apply sameX_refl].
  destruct (q_pop (fq w)) as [[y|] q']; [|apply sameX_refl].
  eapply sameX_trans; [|apply IH]. sx.
Qed.

Lemma shed_queue_sameX fuel limit w : sameX w (shed_queue fuel limit w).
Proof.
  revert w. induction fuel as [|f IH]; intros w; simpl; [apply sameX_refl|].
  destruct (limit <? qlen (fq w)); [|apply sameX_refl].
  destruct (q_pop_low (fq w)) as [[y|] q']; [|apply sameX_refl].
  eapply sameX_trans; [|apply IH]. sx.
Qed.

Lemma maybe_enqueue_sameX c x w : sameX w (maybe_enqueue c x w).
Proof.
  unfold maybe_enqueue. destruct (dset w) as [[limit [|]]|].
  - match goal with |- context [if ?b then _ else _] => destruct b end; sx.
  - eapply sameX_trans; [|apply shed_queue_sameX]. sx.
  - sx.
Qed.

Lemma check_drained_sameX w : sameX w (check_drained w).
Proof.
  unfold check_drained. destruct (drain w); try apply sameX_refl.
  - destruct (all_free w && (qlen (fq w) =? 0)); sx.
  - sx.
Qed.

Lemma calc_tail_sameX c w : sameX w (calc_tail c w).
Proof.
  unfold calc_tail. destruct (factory_queueing c); [|apply sameX_refl].
  destruct (q_remove_expired (now w) (fq w) (evs w)). sx.
Qed.

Lemma query_sameX c k w : sameX w (query c k w).
Proof. unfold query. destruct (k =? 0); [|destruct (k =? 1)]; sx. Qed.

Lemma drain_queue_shutdown_sameX fuel w : sameX w (drain_queue_shutdown fuel w).
Proof.
  revert w. induction fuel as [|f IH]; intros w; simpl; [apply sameX_refl|].
  destruct (q_pop (fq w)) as [[y|] q']; [|apply sameX_refl].
  eapply sameX_trans; [|apply IH]. sx.
Qed.

(* ------------------------------------------------------------------ worker level *)
(* slot_ok with the in-flight completions and the running flag as parameters *)
Definition sok (run : bool) (infl : list N) (wid : N) (p : wprops) (acts : list (N * actor)) : Prop :=
  exists act, lookup (w_aid p) acts = Some act /\ a_wid act = wid
    /\ incl (akeys act) (w_curr p)
    /\ (run = true -> a_alive act = true -> Permutation (akeys act ++ infl) (w_curr p)).

(* the only thing a worker-level operation does to the actors: at most one cast to actor aid *)
Definition cast_rel (aid : N) (acts acts' : list (N * actor)) : Prop :=
  acts' = acts \/
  exists act j, lookup aid acts = Some act /\ a_alive act = true /\ actor_jobs act = []
                /\ acts' = update aid (set_a_mb (a_mb act ++ [j]) act) acts.

Lemma akeys_mb act j : akeys (set_a_mb (a_mb act ++ [j]) act) = map j_key (a_mb act) ++ [j_key j] ++ map j_key (match a_run act with Some x => [x] | None => [] end).
Proof. unfold akeys, actor_jobs. simpl. rewrite !map_app. simpl. rewrite <- app_assoc. reflexivity. Qed.

Lemma incl_nil_eq {A} (l : list A) : incl l [] -> l = [].
Proof. destruct l as [|x l]; [reflexivity|]. intros H. destruct (H x). left. reflexivity. Qed.

Lemma dispatch_job_sok run infl wid p acts out j :
  w_curr p = [] -> sok run infl wid p acts ->
  let '(p', acts', _) := dispatch_job (p, acts, out) j in
  sok run infl wid p' acts' /\ cast_rel (w_aid p) acts acts' /\ w_aid p' = w_aid p.
Proof.
  intros E (act & L & W & I & P). unfold dispatch_job, cast_job. rewrite L.
  rewrite E in I. apply incl_nil_eq in I.
  destruct (a_alive act) eqn:A.
  - split; [|split; [right; exists act, j; repeat split; auto; unfold akeys in I; destruct (actor_jobs act); [reflexivity|discriminate]|reflexivity]].
    exists (set_a_mb (a_mb act ++ [j]) act). simpl.
    split; [eapply lookup_update_same; eassumption|]. split; [assumption|].
    assert (K : akeys (set_a_mb (a_mb act ++ [j]) act) = [j_key j]).
    { rewrite akeys_mb. unfold akeys, actor_jobs in I. rewrite map_app in I.
      apply app_eq_nil in I. destruct I as [I1 I2]. rewrite I1, I2. reflexivity. }
    rewrite K, E. simpl. split; [apply incl_refl|].
    intros R _. specialize (P R eq_refl). rewrite I, E in P. simpl in P.
    apply Permutation_sym, Permutation_nil in P. rewrite P. simpl. apply Permutation_refl.
  - split; [|split; [left; reflexivity|reflexivity]].
    exists act. simpl. rewrite E. repeat split; try assumption.
    + rewrite I. apply incl_refl.
    + intros _ F. congruence.
Qed.

Lemma dispatch_next_sok run infl wid t p acts out :
  w_curr p = [] -> sok run infl wid p acts ->
  let '(p', acts', _) := dispatch_next t (p, acts, out) in
  sok run infl wid p' acts' /\ cast_rel (w_aid p) acts acts' /\ w_aid p' = w_aid p.
Proof.
  intros E S. unfold dispatch_next.
  destruct (next_non_expired t (w_queue p) out) as [[[x|] q'] out'].
  - apply (dispatch_job_sok run infl wid (set_w_queue q' p) acts out' x); assumption.
  - split; [|split; [left; reflexivity|reflexivity]]. exact S.
Qed.

Lemma sok_queue run infl wid p acts q : sok run infl wid p acts -> sok run infl wid (set_w_queue q p) acts.
Proof. exact (fun H => H). Qed.

Lemma shed_after_sok run infl wid t aid0 acts0 x :
  (let '(p, acts, _) := x in sok run infl wid p acts /\ cast_rel aid0 acts0 acts /\ w_aid p = aid0) ->
  let '(p', acts', _) := shed_after t x in
  sok run infl wid p' acts' /\ cast_rel aid0 acts0 acts' /\ w_aid p' = aid0.
Proof.
  destruct x as [[p acts] out]. unfold shed_after. intros H.
  destruct (w_dset p) as [[limit [|]]|]; try exact H.
  destruct (shed_oldest _ t limit (w_queue p) out). exact H.
Qed.

Lemma enqueue_job_sok run infl wid t p acts out j :
  sok run infl wid p acts ->
  let '(p', acts', _) := enqueue_job t (p, acts, out) j in
  sok run infl wid p' acts' /\ cast_rel (w_aid p) acts acts' /\ w_aid p' = w_aid p.
Proof.
  intros S. unfold enqueue_job.
  match goal with |- context [if ?b then _ else _] => destruct b end;
    [split; [exact S|split; [left; reflexivity|reflexivity]]|].
  apply (shed_after_sok run infl wid t (w_aid p) acts).
  destruct (w_curr p) as [|c0 cs] eqn:E.
  - destruct (next_non_expired t (w_queue p) (accept_ev j out)) as [[[o|] q'] out'].
    + apply (dispatch_job_sok run infl wid (set_w_queue (q' ++ [clear_port j]) p) acts out' o); assumption.
    + apply (dispatch_job_sok run infl wid (set_w_queue q' p) acts out' (clear_port j)); assumption.
  - split; [exact S|split; [left; reflexivity|reflexivity]].
Qed.

Lemma replace_worker_sok run wid t p acts out a :
  lookup a acts = Some (new_actor wid) ->
  let '(p', acts', _) := replace_worker t (p, acts, out) a in
  sok run [] wid p' acts' /\ cast_rel a acts acts' /\ w_aid p' = a.
Proof.
  intros L. unfold replace_worker.
  apply (dispatch_next_sok run [] wid t (set_w_aid a (set_w_curr [] p)) acts out); [reflexivity|].
  exists (new_actor wid). simpl. repeat split; try assumption.
  - apply incl_refl.
  - intros _ _. apply Permutation_refl.
Qed.

Lemma removeN_notin k l : ~ In k l -> removeN k l = l.
Proof.
  induction l as [|y l IH]; simpl; intros H; [reflexivity|].
  destruct (k =? y) eqn:E; [apply N.eqb_eq in E; subst; exfalso; apply H; auto|].
  f_equal. apply IH. intuition.
Qed.

(* a completion that is NOT stale: the message just taken from the inbox was sent by the slot's
   actor; `infl` are that actor's other completions still in the inbox *)
Lemma worker_complete_sok run infl wid t p acts out k :
  (length (w_curr p) <= 1)%nat ->
  (exists act, lookup (w_aid p) acts = Some act /\ a_wid act = wid
     /\ incl (akeys act) (w_curr p) /\ (a_alive act = false -> akeys act = [])
     /\ (run = true -> a_alive act = true -> Permutation (akeys act ++ k :: infl) (w_curr p))) ->
  run = true ->
  let '(p', acts', _) := worker_complete t (p, acts, out) k in
  sok run infl wid p' acts' /\ cast_rel (w_aid p) acts acts' /\ w_aid p' = w_aid p.
Proof.
  intros Len (act & L & W & I & D & P) R. unfold worker_complete.
  destruct (a_alive act) eqn:A.
  - specialize (P R eq_refl).
    assert (Hl : (length (akeys act ++ k :: infl) <= 1)%nat) by (rewrite (Permutation_length P); exact Len).
    rewrite app_length in Hl. simpl in Hl.
    assert (Ak : akeys act = []) by (destruct (akeys act); [reflexivity|simpl in Hl; lia]).
    assert (In0 : infl = []) by (destruct infl; [reflexivity|simpl in Hl; lia]).
    rewrite Ak, In0 in P. simpl in P.
    assert (C : w_curr p = [k]) by (apply Permutation_length_1_inv; exact P).
    assert (M : memN k (w_curr p) = true) by (rewrite C; simpl; rewrite N.eqb_refl; reflexivity).
    assert (RN : removeN k (w_curr p) = []) by (rewrite C; simpl; rewrite N.eqb_refl; reflexivity).
    rewrite M.
    apply (dispatch_next_sok run infl wid t (set_w_curr (removeN k (w_curr p)) p) acts out); [exact RN|].
    exists act. simpl. rewrite RN, Ak, In0. repeat split; try assumption.
    + apply incl_refl.
    + intros _ _. apply Permutation_refl.
  - specialize (D eq_refl).
    destruct (memN k (w_curr p)) eqn:M.
    + assert (RN : removeN k (w_curr p) = []) by (apply removeN_single; assumption).
      apply (dispatch_next_sok run infl wid t (set_w_curr (removeN k (w_curr p)) p) acts out); [exact RN|].
      exists act. simpl. rewrite RN, D. repeat split; try assumption.
      * apply incl_refl.
      * intros _ F. congruence.
    + split; [|split; [left; reflexivity|reflexivity]].
      exists act. repeat split; try assumption. intros _ F. congruence.
Qed.

(* ------------------------------------------------------------------ lifting to the world *)
Lemma cast_rel_lookup aid acts acts' x : cast_rel aid acts acts' ->
  lookup x acts' = lookup x acts \/
  (x = aid /\ exists act j, lookup x acts = Some act /\ a_alive act = true /\ actor_jobs act = []
                            /\ lookup x acts' = Some (set_a_mb (a_mb act ++ [j]) act)).
Proof.
  intros [->|(act & j & L & A & JE & ->)]; [left; reflexivity|].
  rewrite lookup_update. destruct (x =? aid) eqn:E; [|left; reflexivity].
  apply N.eqb_eq in E. subst x. rewrite L. right. split; [reflexivity|]. exists act, j. auto.
Qed.

Lemma cast_rel_wid aid acts acts' x act' : cast_rel aid acts acts' -> lookup x acts' = Some act' ->
  exists act, lookup x acts = Some act /\ a_wid act = a_wid act' /\ a_alive act = a_alive act'
              /\ (actor_jobs act' = [] -> actor_jobs act = []).
Proof.
  intros CR L. destruct (cast_rel_lookup _ _ _ x CR) as [E|(_ & act & j & La & A & JE & Lb)].
  - rewrite E in L. exists act'. auto.
  - rewrite Lb in L. inversion L; subst act'. exists act. simpl. repeat split; auto.
Qed.

(* slot wid is rewritten to p' (possibly behind a new actor), at most one cast goes to its actor,
   by_actor becomes by' *)
Lemma lift_gen exc w wid p p' acts' out' by' :
  InvX exc w -> (exc = None \/ exc = Some wid) ->
  lookup wid (pool w) = Some p ->
  sok (running_now w) (inflight (w_aid p') (inbox_msg w)) wid p' acts' ->
  cast_rel (w_aid p') (actors w) acts' ->
  (w_aid p' = w_aid p \/ (forall act, lookup (w_aid p) (actors w) = Some act -> actor_jobs act = [])) ->
  NoDup (map fst by') -> (forall who wid2, lookup who by' = Some wid2 -> who < next_aid w) ->
  (forall who wid2, lookup who by' = Some wid2 -> exists p2, lookup wid2 (update wid p' (pool w)) = Some p2 /\ w_aid p2 = who) ->
  Inv (set_by_actor by' (set_pool (update wid p' (pool w)) (set_actors acts' (set_evs out' w)))).
Proof.
  intros [H1 H2 H3 H4 H5 H6 H7 H8 H9 H10 H11] EX L S CR AID BN BF BY.
  destruct S as (actS & LaS & WaS & IS & PS).
  destruct (cast_rel_wid _ _ _ _ _ CR LaS) as (actS0 & LaS0 & WaS0 & _).
  assert (OTHER : forall wid2 p2, lookup wid2 (pool w) = Some p2 -> wid2 <> wid ->
                                  lookup (w_aid p2) acts' = lookup (w_aid p2) (actors w)).
  { intros wid2 p2 L2 NE. destruct (cast_rel_lookup _ _ _ (w_aid p2) CR) as [E|(E & _)]; [exact E|].
    exfalso. destruct (H10 wid2 p2 L2) as (act2 & La2 & Wa2). rewrite E in La2. congruence. }
  constructor; unfold slot_ok, running_now in *; simpl.
  - intros wid2 p2 L2 _. rewrite lookup_update, L in L2.
    destruct (wid2 =? wid) eqn:E.
    + apply N.eqb_eq in E. subst wid2. inversion L2; subst p2. exists actS. auto.
    + apply N.eqb_neq in E.
      assert (EXC : exc <> Some wid2) by (destruct EX as [->| ->]; congruence).
      destruct (H1 wid2 p2 L2 EXC) as (act & La & Wa & I & P).
      exists act. rewrite (OTHER wid2 p2 L2 E). auto.
  - intros aid act' La' J.
    destruct (cast_rel_wid _ _ _ _ _ CR La') as (act & La & Wa & Al & Jb).
    destruct (N.eq_dec aid (w_aid p')) as [->|NE].
    + rewrite LaS in La'. inversion La'; subst act'. split.
      * destruct (cast_rel_lookup _ _ _ (w_aid p') CR) as [E|(_ & a1 & j & L1 & A1 & JE1 & Lb)].
        -- rewrite E in LaS. destruct (H2 _ _ LaS J) as [A _]. exact A.
        -- rewrite Lb in LaS. inversion LaS; subst. exact A1.
      * exists p'. rewrite WaS, lookup_update, L, N.eqb_refl. auto.
    + assert (E : lookup aid acts' = lookup aid (actors w)).
      { destruct (cast_rel_lookup _ _ _ aid CR) as [E|(E & _)]; [exact E|congruence]. }
      rewrite E in La'. destruct (H2 aid act' La' J) as (A & q & Lq & Aq). split; [exact A|].
      rewrite lookup_update, L. destruct (a_wid act' =? wid) eqn:E2; [|eauto].
      apply N.eqb_eq in E2. rewrite E2 in Lq. rewrite L in Lq. inversion Lq; subst q.
      destruct AID as [AID|AID]; [congruence|]. exfalso. apply J. apply AID. rewrite Aq. exact La'.
  - intros aid act' La'. destruct (cast_rel_wid _ _ _ _ _ CR La') as (act & La & _). eauto.
  - intros m Im. specialize (H4 m Im). destruct m; simpl in *; try tauto.
    destruct H4 as (act & La & Wa).
    destruct (cast_rel_lookup _ _ _ sender CR) as [E|(_ & act1 & j & La1 & _ & _ & Lb)].
    + exists act. rewrite E. auto.
    + rewrite La in La1. inversion La1; subst act1. eexists. split; [exact Lb|exact Wa].
  - intros a Ia. destruct (H5 a Ia) as (act & La & D).
    destruct (cast_rel_lookup _ _ _ a CR) as [E|(_ & act1 & j & La1 & A1 & _ & _)].
    + exists act. rewrite E. auto.
    + rewrite La in La1. inversion La1; subst. congruence.
  - exact BY.
  - exact BN.
  - exact BF.
  - rewrite keys_update. assumption.
  - intros wid2 p2 L2. rewrite lookup_update, L in L2.
    destruct (wid2 =? wid) eqn:E.
    + apply N.eqb_eq in E. subst wid2. inversion L2; subst p2. exists actS. auto.
    + apply N.eqb_neq in E. destruct (H10 wid2 p2 L2) as (act & La & Wa).
      exists act. rewrite (OTHER wid2 p2 L2 E). auto.
  - intros aid act' La'. destruct (cast_rel_lookup _ _ _ aid CR) as [E|(_ & act & j & La & A & JE & Lb)].
    + rewrite E in La'. eauto.
    + rewrite Lb in La'. inversion La'; subst act'. unfold actor_jobs in *. simpl.
      apply app_eq_nil in JE. destruct JE as [M R]. rewrite M, R. simpl. lia.
Qed.

Lemma lift_slot exc w wid p p' acts' out' :
  InvX exc w -> (exc = None \/ exc = Some wid) ->
  lookup wid (pool w) = Some p ->
  sok (running_now w) (inflight (w_aid p) (inbox_msg w)) wid p' acts' ->
  cast_rel (w_aid p) (actors w) acts' -> w_aid p' = w_aid p ->
  Inv (set_pool (update wid p' (pool w)) (set_actors acts' (set_evs out' w))).
Proof.
  intros H EX L S CR AID.
  change (Inv (set_by_actor (by_actor w) (set_pool (update wid p' (pool w)) (set_actors acts' (set_evs out' w))))).
  eapply lift_gen; try eassumption.
  - rewrite AID. exact S.
  - rewrite AID. exact CR.
  - left. exact AID.
  - exact (i_by_nodup _ _ H).
  - exact (i_by_fresh _ _ H).
  - intros who wid2 Lb. destruct (i_by _ _ H who wid2 Lb) as (q & Lq & Aq).
    rewrite lookup_update, L. destruct (wid2 =? wid) eqn:E.
    + apply N.eqb_eq in E. subst wid2. rewrite L in Lq. inversion Lq; subst q. exists p'. split; [reflexivity|congruence].
    + eauto.
Qed.

(* ------------------------------------------------------------------ factory functions *)
Lemma with_worker_enqueue_Inv t wid j w :
  Inv w -> Inv (with_worker wid (fun x => enqueue_job t x j) w).
Proof.
  intros H. unfold with_worker. destruct (lookup wid (pool w)) as [p|] eqn:L; [|exact H].
  pose proof (i_slot _ _ H wid p L ltac:(discriminate)) as S.
  pose proof (enqueue_job_sok (running_now w) (inflight (w_aid p) (inbox_msg w)) wid t p (actors w) (evs w) j S) as E.
  destruct (enqueue_job t (p, actors w, evs w) j) as [[p' acts'] out'].
  destruct E as (S' & CR & AID).
  eapply lift_slot; eauto.
Qed.

Lemma route_message_Inv c x hint w r w' : route_message c x hint w = (r, w') -> Inv w -> Inv w'.
Proof.
  unfold route_message. destruct (rl_check w) as [ok w0] eqn:R. apply rl_check_sameX in R.
  intros H I. apply (sameX_Inv _ _ _ R) in I.
  destruct ok; simpl in H.
  - destruct (choose_target c (j_key x) hint w0) as [tgt w1] eqn:C. apply choose_target_sameX in C.
    apply (sameX_Inv _ _ _ C) in I.
    destruct tgt as [wid|]; [destruct (in_pool w1 wid)|]; inversion H; subst; try assumption.
    apply with_worker_enqueue_Inv. assumption.
  - inversion H; subst. destruct hint as [h|]; [|assumption].
    destruct (worker_available w0 h); [|assumption].
    eapply sameX_Inv; [apply on_avail_sameX|assumption].
Qed.

Lemma route_loop_Inv c fuel hint w : Inv w -> Inv (route_loop c fuel hint w).
Proof.
  revert w. induction fuel as [|f IH]; intros w H; simpl; [assumption|].
  destruct (q_peek (fq w)) as [x|]; [|assumption].
  destruct (choose_target c (j_key x) hint w) as [tgt w1] eqn:C. apply choose_target_sameX in C.
  apply (sameX_Inv _ _ _ C) in H.
  destruct tgt as [wid|]; [|assumption].
  destruct (q_pop (fq w1)) as [[y|] q']; [|assumption].
  destruct (route_message c y (Some wid) (set_fq q' w1)) as [r w2] eqn:RM.
  apply route_message_Inv in RM; [|eapply sameX_Inv; [apply set_fq_sameX|assumption]].
  destruct r; [assumption| |].
  - eapply sameX_Inv; [apply emit_sameX|assumption].
  - apply IH. eapply sameX_Inv; [apply reject_sameX|]. eapply sameX_Inv; [apply discard_sameX|assumption].
Qed.

Lemma try_route_next_Inv c hint w : Inv w -> Inv (try_route_next c hint w).
Proof.
  intros H. unfold try_route_next. apply route_loop_Inv.
  eapply sameX_Inv; [apply drop_expired_head_sameX|assumption].
Qed.

Lemma dispatch_Inv c x w : Inv w -> Inv (dispatch c x w).
Proof.
  intros H. unfold dispatch. destruct (expired (now w) x).
  { eapply sameX_Inv; [apply reject_sameX|]. eapply sameX_Inv; [apply discard_sameX|assumption]. }
  destruct (drain w);
    try (eapply sameX_Inv; [apply reject_sameX|]; eapply sameX_Inv; [apply discard_sameX|assumption]).
  destruct (route_message c x None w) as [r w'] eqn:RM.
  apply route_message_Inv in RM; [|assumption].
  destruct r; [assumption| |].
  - eapply sameX_Inv; [apply maybe_enqueue_sameX|assumption].
  - eapply sameX_Inv; [apply reject_sameX|]. eapply sameX_Inv; [apply discard_sameX|assumption].
Qed.

Lemma route_n_Inv c n w : Inv w -> Inv (route_n c n w).
Proof.
  revert w. induction n as [|n IH]; intros w H; simpl; [assumption|].
  destruct (q_peek (fq w)); [|assumption]. apply IH, try_route_next_Inv. assumption.
Qed.

Lemma route_all_Inv c fuel w : Inv w -> Inv (route_all c fuel w).
Proof.
  revert w. induction fuel as [|f IH]; intros w H; simpl; [assumption|].
  destruct (q_peek (fq w)); [|assumption].
  destruct (qlen (fq (try_route_next c None w)) <? qlen (fq w)); [apply IH|]; apply try_route_next_Inv; assumption.
Qed.

Lemma avail_tail_Inv c who w :
  Inv w -> Inv (let w1 := try_route_next c (Some who) w in
                if worker_available w1 who then on_avail c who true w1 else w1).
Proof.
  intros H. cbv zeta. destruct (worker_available _ who).
  - eapply sameX_Inv; [apply on_avail_sameX|]. apply try_route_next_Inv. assumption.
  - apply try_route_next_Inv. assumption.
Qed.

(* ------------------------------------------------------------------ worker-side steps *)
(* actor aid is rewritten to act'; msgs' / sup' are the new inboxes *)
Lemma actor_change_Inv exc w aid act act' msgs' sup' :
  InvX exc w -> lookup aid (actors w) = Some act -> a_wid act' = a_wid act ->
  (a_alive act' = true -> a_alive act = true) ->
  (actor_jobs act' <> [] -> actor_jobs act <> [] /\ a_alive act' = true) ->
  incl (akeys act') (akeys act) ->
  (running_now w = true -> a_alive act' = true ->
   Permutation (akeys act' ++ inflight aid msgs') (akeys act ++ inflight aid (inbox_msg w))) ->
  (forall x, x <> aid -> inflight x msgs' = inflight x (inbox_msg w)) ->
  (forall m, In m msgs' -> In m (inbox_msg w) \/ exists k, m = MFinished (a_wid act) k aid) ->
  (forall a, In a sup' -> In a (inbox_sup w) \/ (a = aid /\ a_alive act' = false)) ->
  (length (actor_jobs act') <= length (actor_jobs act))%nat ->
  InvX exc (set_inbox_sup sup' (set_inbox_msg msgs' (set_actors (update aid act' (actors w)) w))).
Proof.
  intros [H1 H2 H3 H4 H5 H6 H7 H8 H9 H10 H11] L W A J I P O M SU LE.
  assert (LK : forall x, lookup x (update aid act' (actors w)) = if x =? aid then Some act' else lookup x (actors w)).
  { intros x. rewrite lookup_update, L. reflexivity. }
  constructor; unfold slot_ok, running_now in *; simpl.
  - intros wid p Lp E. destruct (H1 wid p Lp E) as (a0 & La & Wa & Ia & Pa).
    rewrite LK. destruct (w_aid p =? aid) eqn:EA.
    + apply N.eqb_eq in EA. rewrite EA in *. rewrite L in La. inversion La; subst a0.
      exists act'. repeat split; try congruence.
      * intros x Hx. apply Ia, I. exact Hx.
      * intros R Al. eapply Permutation_trans; [apply P; assumption|]. apply Pa; auto.
    + apply N.eqb_neq in EA. exists a0. rewrite (O _ EA). auto.
  - intros x a' La' Ja. rewrite LK in La'. destruct (x =? aid) eqn:EA.
    + apply N.eqb_eq in EA. subst x. inversion La'; subst a'. destruct (J Ja) as [Jo Al].
      split; [exact Al|]. rewrite W. exact (proj2 (H2 aid act L Jo)).
    + eauto.
  - intros x a' La'. rewrite LK in La'. destruct (x =? aid) eqn:EA; [|eauto].
    apply N.eqb_eq in EA. subst x. eauto.
  - intros m Im. destruct (M m Im) as [Io|(k & ->)].
    + specialize (H4 m Io). destruct m; simpl in *; try tauto.
      destruct H4 as (a0 & La & Wa). rewrite LK. destruct (sender =? aid) eqn:EA.
      * apply N.eqb_eq in EA. subst sender. rewrite L in La. inversion La; subst. eexists. split; [reflexivity|congruence].
      * eauto.
    + simpl. rewrite LK, N.eqb_refl. eexists. split; [reflexivity|exact W].
  - intros a Ia. rewrite LK. destruct (SU a Ia) as [Io|(-> & D)].
    + destruct (H5 a Io) as (a0 & La & D). destruct (a =? aid) eqn:EA.
      * apply N.eqb_eq in EA. subst a. rewrite L in La. inversion La; subst a0.
        exists act'. split; [reflexivity|]. destruct (a_alive act') eqn:Al; [|reflexivity].
        specialize (A eq_refl). congruence.
      * eauto.
    + rewrite N.eqb_refl. eauto.
  - assumption.
  - assumption.
  - assumption.
  - assumption.
  - intros wid p Lp. destruct (H10 wid p Lp) as (a0 & La & Wa). rewrite LK.
    destruct (w_aid p =? aid) eqn:EA; [|eauto].
    apply N.eqb_eq in EA. rewrite EA in La. rewrite L in La. inversion La; subst a0.
    exists act'. split; [reflexivity|congruence].
  - intros x a' La'. rewrite LK in La'. destruct (x =? aid) eqn:EA; [|eauto].
    inversion La'; subst a'. specialize (H11 aid act L). lia.
Qed.

Lemma stop_actor_Inv exc a w : InvX exc w -> InvX exc (stop_actor a w).
Proof.
  intros H. unfold stop_actor. destruct (lookup a (actors w)) as [x|] eqn:L; [|exact H].
  destruct (a_alive x) eqn:A; [|exact H].
  pose proof (actor_change_Inv exc w a x (mkA (a_wid x) true (a_mb x) (a_run x) true) (inbox_msg w) (inbox_sup w) H L) as Q.
  apply Q; clear Q; simpl; auto.
  all: try solve [intros J; split; [exact J|reflexivity]].
  all: try solve [apply incl_refl].
  all: try solve [unfold actor_jobs; simpl; lia].
Qed.

Lemma w_start_Inv exc a w : InvX exc w -> InvX exc (w_start a w).
Proof.
  intros H. unfold w_start. destruct (lookup a (actors w)) as [x|] eqn:L; [|exact H].
  destruct (a_alive x) eqn:A; [|exact H]. destruct (a_run x) eqn:R; [exact H|].
  destruct (a_stop x) eqn:S; [exact H|]. destruct (a_mb x) as [|j mb] eqn:M; [exact H|].
  eapply sameX_Inv; [apply emit_sameX|].
  pose proof (actor_change_Inv exc w a x (mkA (a_wid x) true mb (Some j) false) (inbox_msg w) (inbox_sup w) H L) as Q.
  assert (K : Permutation (akeys (mkA (a_wid x) true mb (Some j) false)) (akeys x)).
  { unfold akeys, actor_jobs. simpl. rewrite R, M. simpl. rewrite app_nil_r, map_app. simpl.
    apply Permutation_sym, Permutation_cons_append. }
  apply Q; clear Q; simpl; auto.
  all: try solve [intros _; split; [|reflexivity]; unfold actor_jobs; rewrite M; discriminate].
  all: try solve [intros k Ik; eapply Permutation_in; [exact K|exact Ik]].
  all: try solve [intros _ _; apply Permutation_app_tail; exact K].
  all: try solve [unfold actor_jobs; simpl; rewrite R, M; simpl; rewrite !app_length; simpl; lia].
Qed.

Lemma inflight_app a l1 l2 : inflight a (l1 ++ l2) = inflight a l1 ++ inflight a l2.
Proof. unfold inflight. apply flat_map_app. Qed.

Lemma w_complete_Inv exc a w : InvX exc w -> InvX exc (w_complete a w).
Proof.
  intros H. unfold w_complete. destruct (lookup a (actors w)) as [x|] eqn:L; [|exact H].
  destruct (a_alive x) eqn:A; [|exact H]. destruct (a_run x) as [j|] eqn:R; [|exact H].
  cbv zeta.
  set (x' := mkA (a_wid x) true (a_mb x) None (a_stop x)).
  assert (AK : akeys x = akeys x' ++ [j_key j]).
  { unfold akeys, actor_jobs, x'. simpl. rewrite R, app_nil_r, map_app. reflexivity. }
  assert (RN : running_now (emit (EEnd (j_id j) (a_wid x) a) (set_actors (update a x' (actors w)) w)) = running_now w) by reflexivity.
  rewrite RN. destruct (running_now w) eqn:RW.
  - pose proof (actor_change_Inv exc w a x x' (inbox_msg w ++ [MFinished (a_wid x) (j_key j) a]) (inbox_sup w) H L) as Q.
    eapply sameX_Inv; [|apply Q; clear Q; simpl; auto].
    all: try solve [sx].
    all: try solve [intros J; split; [|reflexivity]; unfold actor_jobs in *; rewrite R; destruct (a_mb x); simpl; discriminate].
    all: try solve [rewrite AK; apply incl_appl, incl_refl].
    all: try solve [intros _ _; rewrite inflight_app; simpl; rewrite N.eqb_refl; simpl; rewrite AK;
                    rewrite <- !app_assoc; apply Permutation_app_head; apply Permutation_app_comm].
    all: try solve [intros y NE; rewrite inflight_app; simpl; apply N.eqb_neq in NE; rewrite N.eqb_sym in NE; rewrite NE;
                    simpl; apply app_nil_r].
    all: try solve [intros m Im; apply in_app_iff in Im; destruct Im as [Im|[<-|[]]]; [left; exact Im|right; eauto]].
    all: try solve [unfold actor_jobs; simpl; rewrite R; rewrite !app_length; simpl; lia].
  - pose proof (actor_change_Inv exc w a x x' (inbox_msg w) (inbox_sup w) H L) as Q.
    eapply sameX_Inv; [|apply Q; clear Q; simpl; auto].
    all: try solve [sx].
    all: try solve [intros J; split; [|reflexivity]; unfold actor_jobs in *; rewrite R; destruct (a_mb x); simpl; discriminate].
    all: try solve [rewrite AK; apply incl_appl, incl_refl].
    all: try solve [intros F; discriminate].
    all: try solve [intros F; rewrite RW in F; discriminate].
    all: try solve [unfold actor_jobs; simpl; rewrite R; rewrite !app_length; simpl; lia].
Qed.

Lemma actor_exit_Inv exc a cm w : InvX exc w -> InvX exc (actor_exit a cm w).
Proof.
  intros H. unfold actor_exit. destruct (lookup a (actors w)) as [x|] eqn:L; [|exact H].
  pose proof (actor_change_Inv exc w a x (mkA (a_wid x) false [] None (a_stop x)) (inbox_msg w) (inbox_sup w ++ [a]) H L) as Q.
  eapply sameX_Inv; [|apply Q; clear Q; simpl; auto].
  all: try solve [sx].
  all: try solve [intros F; discriminate].
  all: try solve [intros J; exfalso; apply J; reflexivity].
  all: try solve [intros k []].
  all: try solve [intros _ F; discriminate].
  all: try solve [intros y Iy; apply in_app_iff in Iy; destruct Iy as [Iy|[<-|[]]]; auto].
  all: try solve [simpl; lia].
Qed.

(* ------------------------------------------------------------------ structural changes of the pool *)
Lemma slot_frame_Inv w wid p f :
  Inv w -> lookup wid (pool w) = Some p -> w_aid (f p) = w_aid p -> w_curr (f p) = w_curr p ->
  Inv (set_pool (update wid (f p) (pool w)) w).
Proof.
  intros H L A C.
  pose proof (lift_slot None w wid p (f p) (actors w) (evs w) H (or_introl eq_refl) L) as Q.
  eapply sameX_Inv; [|apply Q].
  - sx.
  - destruct (i_slot _ _ H wid p L ltac:(discriminate)) as (act & La & Wa & I & P).
    exists act. rewrite A, C. auto.
  - left. reflexivity.
  - exact A.
Qed.

Lemma pool_map_Inv w f :
  (forall p, w_aid (f p) = w_aid p /\ w_curr (f p) = w_curr p) -> Inv w ->
  Inv (set_pool (map (fun e => (fst e, f (snd e))) (pool w)) w).
Proof.
  intros Hf [H1 H2 H3 H4 H5 H6 H7 H8 H9 H10 H11].
  constructor; unfold slot_ok, running_now in *; simpl; try assumption.
  - intros wid p L _. rewrite lookup_map in L. destruct (lookup wid (pool w)) as [q|] eqn:E; [|discriminate].
    inversion L; subst p. destruct (Hf q) as [A C]. rewrite A, C. apply (H1 wid q E). discriminate.
  - intros aid act La J. destruct (H2 aid act La J) as (A & q & Lq & Aq). split; [exact A|].
    exists (f q). rewrite lookup_map, Lq. simpl. split; [reflexivity|]. rewrite (proj1 (Hf q)). exact Aq.
  - intros who wid Lb. destruct (H6 who wid Lb) as (q & Lq & Aq). exists (f q).
    rewrite lookup_map, Lq. simpl. split; [reflexivity|]. rewrite (proj1 (Hf q)). exact Aq.
  - rewrite keys_map. assumption.
  - intros wid p L. rewrite lookup_map in L. destruct (lookup wid (pool w)) as [q|] eqn:E; [|discriminate].
    inversion L; subst p. rewrite (proj1 (Hf q)). eauto.
Qed.

(* a slot whose actor holds nothing leaves the pool *)
Lemma remove_slot_Inv w wid p by' :
  Inv w -> lookup wid (pool w) = Some p ->
  (forall act, lookup (w_aid p) (actors w) = Some act -> actor_jobs act = []) ->
  NoDup (map fst by') ->
  (forall who wid2, lookup who by' = Some wid2 -> lookup who (by_actor w) = Some wid2 /\ wid2 <> wid) ->
  Inv (set_by_actor by' (set_pool (remove_key wid (pool w)) w)).
Proof.
  intros [H1 H2 H3 H4 H5 H6 H7 H8 H9 H10 H11] L JL BN BS.
  constructor; unfold slot_ok, running_now in *; simpl; try assumption.
  - intros wid2 p2 L2 _. rewrite lookup_remove in L2 by assumption.
    destruct (wid2 =? wid); [discriminate|]. apply H1; [assumption|discriminate].
  - intros aid act La J. destruct (H2 aid act La J) as (A & q & Lq & Aq). split; [exact A|].
    exists q. rewrite lookup_remove by assumption. destruct (a_wid act =? wid) eqn:E; [|auto].
    exfalso. apply N.eqb_eq in E. rewrite E in Lq. rewrite L in Lq. inversion Lq; subst q.
    apply J. apply JL. rewrite Aq. exact La.
  - intros who wid2 Lb. destruct (BS who wid2 Lb) as [Lo NE]. destruct (H6 who wid2 Lo) as (q & Lq & Aq).
    exists q. rewrite lookup_remove by assumption. apply N.eqb_neq in NE. rewrite NE. auto.
  - intros who wid2 Lb. eapply H8. apply BS. eassumption.
  - apply NoDup_remove_key. assumption.
  - intros wid2 p2 L2. rewrite lookup_remove in L2 by assumption.
    destruct (wid2 =? wid); [discriminate|]. eauto.
Qed.

Lemma lookup_remove_sub {A} (l : list (N * A)) k who v : NoDup (map fst l) ->
  lookup who (remove_key k l) = Some v -> lookup who l = Some v.
Proof. intros ND. rewrite lookup_remove by assumption. destruct (who =? k); [discriminate|auto]. Qed.

Lemma idle_slot_jobless w wid p : Inv w -> lookup wid (pool w) = Some p -> w_curr p = [] ->
  forall act, lookup (w_aid p) (actors w) = Some act -> actor_jobs act = [].
Proof.
  intros H L C act La. destruct (i_slot _ _ H wid p L ltac:(discriminate)) as (a0 & La0 & _ & I & _).
  rewrite La in La0. inversion La0; subst a0. rewrite C in I. apply incl_nil_eq in I.
  unfold akeys in I. destruct (actor_jobs act); [reflexivity|discriminate].
Qed.

Lemma is_working_false_curr p : is_working p = false -> w_curr p = [].
Proof. unfold is_working, is_available. destruct (w_curr p); destruct (w_queue p); simpl; try discriminate; reflexivity. Qed.

Lemma lookup_app_new {A} (l : list (N * A)) k v x :
  lookup x (l ++ [(k, v)]) = match lookup x l with Some y => Some y | None => if k =? x then Some v else None end.
Proof.
  induction l as [|[k' v'] l IH]; simpl; [reflexivity|]. destruct (k' =? x); [reflexivity|exact IH].
Qed.

Lemma keys_app_new {A} (l : list (N * A)) k v : map fst (l ++ [(k, v)]) = map fst l ++ [k].
Proof. rewrite map_app. reflexivity. Qed.

Lemma NoDup_snoc (l : list N) k : NoDup l -> ~ In k l -> NoDup (l ++ [k]).
Proof.
  induction l as [|x l IH]; simpl; intros ND NI; [repeat constructor; auto|].
  inversion ND; subst. constructor.
  - intros I. apply in_app_iff in I. destruct I as [I|[I|[]]]; [auto|subst; apply NI; auto].
  - apply IH; [assumption|]. intros I. apply NI. auto.
Qed.

(* a new actor for slot wid: appended, jobless, not yet behind any slot *)
Lemma new_actor_Inv exc w wid :
  InvX exc w -> InvX exc (set_actors (actors w ++ [(next_aid w, new_actor wid)]) (set_next_aid (next_aid w + 1) w)).
Proof.
  intros [H1 H2 H3 H4 H5 H6 H7 H8 H9 H10 H11].
  assert (NEW : lookup (next_aid w) (actors w) = None).
  { destruct (lookup (next_aid w) (actors w)) eqn:E; [|reflexivity]. apply H3 in E. lia. }
  assert (LK : forall x act, lookup x (actors w) = Some act -> lookup x (actors w ++ [(next_aid w, new_actor wid)]) = Some act).
  { intros x act La. rewrite lookup_app_new, La. reflexivity. }
  constructor; unfold slot_ok, running_now in *; simpl.
  - intros wid2 p L E. destruct (H1 wid2 p L E) as (act & La & R). exists act. split; [apply LK; exact La|exact R].
  - intros aid act La J. rewrite lookup_app_new in La. destruct (lookup aid (actors w)) as [a0|] eqn:E.
    + inversion La; subst a0. eauto.
    + destruct (next_aid w =? aid); [|discriminate]. inversion La; subst act. exfalso. apply J. reflexivity.
  - intros aid act La. rewrite lookup_app_new in La. destruct (lookup aid (actors w)) as [a0|] eqn:E.
    + apply H3 in E. lia.
    + destruct (next_aid w =? aid) eqn:E2; [|discriminate]. apply N.eqb_eq in E2. lia.
  - intros m Im. specialize (H4 m Im). destruct m; simpl in *; try tauto.
    destruct H4 as (act & La & Wa). exists act. split; [apply LK; exact La|exact Wa].
  - intros a Ia. destruct (H5 a Ia) as (act & La & D). exists act. split; [apply LK; exact La|exact D].
  - assumption.
  - assumption.
  - intros who wid2 Lb. apply H8 in Lb. lia.
  - assumption.
  - intros wid2 p L. destruct (H10 wid2 p L) as (act & La & Wa). exists act. split; [apply LK; exact La|exact Wa].
  - intros aid act La. rewrite lookup_app_new in La. destruct (lookup aid (actors w)) as [a0|] eqn:E.
    + inversion La; subst a0. eauto.
    + destruct (next_aid w =? aid); [|discriminate]. inversion La; subst act. simpl. lia.
Qed.

Lemma inflight_fresh w a : Inv w -> lookup a (actors w) = None -> inflight a (inbox_msg w) = [].
Proof.
  intros H N0. pose proof (i_msg _ _ H) as M. unfold inflight.
  induction (inbox_msg w) as [|m l IH]; [reflexivity|]. simpl.
  rewrite IH by (intros x Ix; apply M; right; exact Ix).
  pose proof (M m (or_introl eq_refl)) as Mm. destruct m; simpl in *; try reflexivity.
  destruct (sender =? a) eqn:E; [|reflexivity]. apply N.eqb_eq in E. subst sender.
  destruct Mm as (act & La & _). congruence.
Qed.

Lemma spawn_worker_Inv c wid w : Inv w -> lookup wid (pool w) = None -> Inv (spawn_worker c wid w).
Proof.
  intros H LN. unfold spawn_worker. eapply sameX_Inv; [apply on_avail_sameX|].
  assert (NEW : lookup (next_aid w) (actors w) = None).
  { destruct (lookup (next_aid w) (actors w)) eqn:E; [|reflexivity]. apply (i_fresh_a _ _ H) in E. lia. }
  pose proof (inflight_fresh w (next_aid w) H NEW) as IF.
  pose proof (new_actor_Inv None w wid H) as H1.
  destruct H1 as [H1 H2 H3 H4 H5 H6 H7 H8 H9 H10 H11]. simpl in *.
  assert (LA : lookup (next_aid w) (actors w ++ [(next_aid w, new_actor wid)]) = Some (new_actor wid)).
  { rewrite lookup_app_new, NEW, N.eqb_refl. reflexivity. }
  assert (NOSLOT : forall wid2 p2, lookup wid2 (pool w) = Some p2 -> w_aid p2 <> next_aid w).
  { intros wid2 p2 L2 E. destruct (i_slot_actor _ _ H wid2 p2 L2) as (act & La & _). rewrite E in La. congruence. }
  constructor; unfold slot_ok, running_now in *; simpl.
  - intros wid2 p2 L2 _. rewrite lookup_insert in L2. destruct (wid =? wid2) eqn:E.
    + apply N.eqb_eq in E. subst wid2. inversion L2; subst p2. simpl.
      exists (new_actor wid). rewrite LA, IF. simpl. repeat split; try apply incl_refl. intros _ _. apply Permutation_refl.
    + apply H1; [exact L2|discriminate].
  - intros aid act La J. destruct (H2 aid act La J) as (A & q & Lq & Aq). split; [exact A|].
    exists q. rewrite lookup_insert. destruct (wid =? a_wid act) eqn:E; [|auto].
    apply N.eqb_eq in E. rewrite <- E in Lq. congruence.
  - exact H3.
  - exact H4.
  - exact H5.
  - intros who wid2 Lb. rewrite lookup_app_new in Lb.
    destruct (lookup who (by_actor w)) as [wx|] eqn:EB.
    + inversion Lb; subst wx. destruct (i_by _ _ H who wid2 EB) as (q & Lq & Aq).
      exists q. rewrite lookup_insert. destruct (wid =? wid2) eqn:E; [|auto].
      apply N.eqb_eq in E. subst wid2. congruence.
    + destruct (next_aid w =? who) eqn:E2; [|discriminate]. apply N.eqb_eq in E2. subst who.
      inversion Lb; subst wid2. eexists. rewrite lookup_insert, N.eqb_refl. split; reflexivity.
  - rewrite keys_app_new. apply NoDup_snoc; [exact (i_by_nodup _ _ H)|].
    intros I. apply lookup_None_notin in I; [exact I|].
    destruct (lookup (next_aid w) (by_actor w)) eqn:E; [|reflexivity]. apply (i_by_fresh _ _ H) in E. lia.
  - intros who wid2 Lb. rewrite lookup_app_new in Lb. destruct (lookup who (by_actor w)) eqn:EB.
    + apply (i_by_fresh _ _ H) in EB. lia.
    + destruct (next_aid w =? who) eqn:E2; [|discriminate]. apply N.eqb_eq in E2. lia.
  - apply NoDup_insert_new; [exact LN|exact (i_pool_nodup _ _ H)].
  - intros wid2 p2 L2. rewrite lookup_insert in L2. destruct (wid =? wid2) eqn:E.
    + apply N.eqb_eq in E. subst wid2. inversion L2; subst p2. simpl. exists (new_actor wid). auto.
    + apply H10. exact L2.
  - exact H11.
Qed.

(* ------------------------------------------------------------------ the remaining factory functions *)
Lemma drop_slot_Inv (c : config) w wid p :
  Inv w -> lookup wid (pool w) = Some p -> w_curr p = [] ->
  Inv (stop_actor (w_aid p) (set_by_actor (remove_key (w_aid p) (by_actor w)) (set_pool (remove_key wid (pool w)) w))).
Proof.
  intros H L C. apply stop_actor_Inv.
  apply (remove_slot_Inv w wid p); try assumption.
  - eapply idle_slot_jobless; eassumption.
  - apply NoDup_remove_key. exact (i_by_nodup _ _ H).
  - intros who wid2 Lb. pose proof (i_by_nodup _ _ H) as ND.
    rewrite lookup_remove in Lb by assumption. destruct (who =? w_aid p) eqn:E; [discriminate|].
    split; [exact Lb|]. intros ->. destruct (i_by _ _ H who wid Lb) as (q & Lq & Aq).
    rewrite L in Lq. inversion Lq; subst q. apply N.eqb_neq in E. congruence.
Qed.

Lemma grow_pool_Inv c n wid w : Inv w -> Inv (grow_pool c n wid w).
Proof.
  revert wid w. induction n as [|n IH]; intros wid w H; simpl; [assumption|].
  apply IH. destruct (lookup wid (pool w)) as [p|] eqn:L.
  - assert (Inv (set_pool (update wid (set_w_drain false p) (pool w)) w)) as H'
      by (apply (slot_frame_Inv w wid p (set_w_drain false)); auto).
    destruct (is_available p); [eapply sameX_Inv; [apply on_avail_sameX|]|]; assumption.
  - apply spawn_worker_Inv; assumption.
Qed.

Lemma shrink_pool_Inv c n wid w : Inv w -> Inv (shrink_pool c n wid w).
Proof.
  revert wid w. induction n as [|n IH]; intros wid w H; simpl; [assumption|].
  apply IH. destruct (lookup wid (pool w)) as [p|] eqn:L; [|assumption].
  destruct (is_working p) eqn:W.
  - apply (slot_frame_Inv w wid p (set_w_drain true)); auto.
  - pose proof (on_avail_sameX c wid false w) as S.
    pose proof (sameX_Inv _ _ _ S H) as H0.
    set (w0 := on_avail c wid false w) in *.
    destruct S as (Sp & _ & _ & _ & Sb & _).
    assert (L0 : lookup wid (pool w0) = Some p) by (rewrite Sp; exact L).
    rewrite <- Sp, <- Sb.
    apply (drop_slot_Inv c w0 wid p H0 L0). apply is_working_false_curr. exact W.
Qed.

Lemma resize_pool_Inv c n w : Inv w -> Inv (resize_pool c n w).
Proof.
  intros H. unfold resize_pool. destruct (n =? 0); [assumption|].
  destruct (pool_size w <? N.min 1000000 n).
  - assert (Inv (set_pool_size (N.min 1000000 n)
                  (grow_pool c (N.to_nat (N.min 1000000 n - pool_size w)) (pool_size w) w))) as G.
    { eapply sameX_Inv; [|apply grow_pool_Inv; exact H]. sx. }
    cbv zeta.
    match goal with |- context [if ?b then _ else _] => destruct b end;
      [apply route_n_Inv|apply route_all_Inv]; exact G.
  - destruct (N.min 1000000 n <? pool_size w); [|assumption].
    eapply sameX_Inv; [|apply shrink_pool_Inv; exact H]. sx.
Qed.

(* a completion that is not stale: the head message was sent by the actor behind slot `who` *)
Lemma worker_finished_Inv c who k sender rest w :
  Inv w -> inbox_msg w = MFinished who k sender :: rest -> running_now w = true ->
  (forall wid p, lookup wid (pool w) = Some p -> (length (w_curr p) <= 1)%nat) ->
  (forall p, lookup who (pool w) = Some p -> w_aid p = sender) ->
  Inv (worker_finished c who k (set_inbox_msg rest w)).
Proof.
  intros H EM RUN LEN NS.
  (* popping the message suspends the coupling of slot `who` only *)
  assert (HX : InvX (Some who) (set_inbox_msg rest w)).
  { destruct H as [H1 H2 H3 H4 H5 H6 H7 H8 H9 H10 H11].
    constructor; unfold slot_ok, running_now in *; simpl; try assumption.
    - intros wid p L E. destruct (H1 wid p L ltac:(discriminate)) as (act & La & Wa & I & P).
      exists act. repeat split; try assumption. intros R A. specialize (P R A).
      rewrite EM in P. simpl in P. destruct (sender =? w_aid p) eqn:ES; [|exact P].
      exfalso. apply N.eqb_eq in ES. subst sender.
      assert (M : msg_ok w (MFinished who k (w_aid p))) by (apply H4; rewrite EM; left; reflexivity).
      destruct M as (a2 & La2 & Wa2). rewrite La in La2. inversion La2; subst a2.
      apply E. congruence.
    - intros m Im. apply H4. rewrite EM. right. exact Im. }
  unfold worker_finished. cbn [pool set_inbox_msg].
  destruct (lookup who (pool w)) as [p0|] eqn:L0.
  2:{ assert (HI : Inv (set_inbox_msg rest w)).
      { destruct HX as [H1 H2 H3 H4 H5 H6 H7 H8 H9 H10 H11]. constructor; try assumption.
        intros wid p L _. apply H1; [exact L|]. intros E. inversion E; subst. simpl in L. congruence. }
      apply avail_tail_Inv. exact HI. }
  set (w0 := set_inbox_msg rest w) in *.
  assert (H1 : Inv (with_worker who (fun x => worker_complete (now w0) x k) w0)).
  { unfold with_worker. change (pool w0) with (pool w). rewrite L0.
    destruct (i_slot _ _ H who p0 L0 ltac:(discriminate)) as (act & La & Wa & I & P).
    pose proof (worker_complete_sok (running_now w0) (inflight (w_aid p0) (inbox_msg w0)) who (now w0) p0 (actors w0) (evs w0) k
                  (LEN who p0 L0)) as WC.
    assert (PRE : exists act, lookup (w_aid p0) (actors w0) = Some act /\ a_wid act = who
              /\ incl (akeys act) (w_curr p0) /\ (a_alive act = false -> akeys act = [])
              /\ (running_now w0 = true -> a_alive act = true ->
                  Permutation (akeys act ++ k :: inflight (w_aid p0) (inbox_msg w0)) (w_curr p0))).
    { exists act. repeat split; try assumption.
      - intros D. unfold akeys. destruct (actor_jobs act) eqn:J; [reflexivity|].
        destruct (i_actor _ _ H (w_aid p0) act La) as [A _]; [rewrite J; discriminate|congruence].
      - intros R A. specialize (P RUN A). rewrite EM in P. simpl in P.
        pose proof (NS p0 eq_refl) as E0. rewrite <- E0 in P. rewrite N.eqb_refl in P. exact P. }
    specialize (WC PRE RUN).
    destruct (worker_complete (now w0) (p0, actors w0, evs w0) k) as [[p' acts'] out'].
    destruct WC as (S' & CR & AID).
    eapply (lift_slot (Some who) w0 who p0); eauto. }
  set (w1 := with_worker who (fun x => worker_complete (now w0) x k) w0) in *.
  destruct (lookup who (pool w1)) as [p|] eqn:L1; [|exact H1].
  destruct (w_drain p).
  - destruct (is_working p) eqn:W; [exact H1|].
    apply (drop_slot_Inv c w1 who p H1 L1). apply is_working_false_curr. exact W.
  - apply avail_tail_Inv. exact H1.
Qed.

Lemma pop_sup_Inv w a rest : Inv w -> inbox_sup w = a :: rest -> Inv (set_inbox_sup rest w).
Proof.
  intros [H1 H2 H3 H4 H5 H6 H7 H8 H9 H10 H11] E. constructor; try assumption.
  simpl. intros x Ix. apply H5. rewrite E. right. exact Ix.
Qed.

Lemma dead_jobless w a act : Inv w -> lookup a (actors w) = Some act -> a_alive act = false -> actor_jobs act = [].
Proof.
  intros H L D. destruct (actor_jobs act) eqn:J; [reflexivity|].
  destruct (i_actor _ _ H a act L) as [A _]; [rewrite J; discriminate|congruence].
Qed.

Lemma with_worker_by wid f w : by_actor (with_worker wid f w) = by_actor w.
Proof.
  unfold with_worker. destruct (lookup wid (pool w)); [|reflexivity].
  destruct (f (w0, actors w, evs w)) as [[p' acts'] out']. reflexivity.
Qed.

Lemma worker_died_Inv c who w :
  Inv w -> (exists act, lookup who (actors w) = Some act /\ a_alive act = false) ->
  Inv (worker_died c who w).
Proof.
  intros H (actd & Ld & Dd). unfold worker_died.
  destruct (lookup who (by_actor w)) as [wid|] eqn:LB; [|exact H].
  destruct (lookup wid (pool w)) as [p|] eqn:L; [|exact H].
  destruct (i_by _ _ H who wid LB) as (q & Lq & Aq). rewrite L in Lq. inversion Lq; subst q.
  assert (JL : forall act, lookup (w_aid p) (actors w) = Some act -> actor_jobs act = []).
  { intros act La. rewrite Aq in La. rewrite Ld in La. inversion La; subst act. eapply dead_jobless; eassumption. }
  pose proof (i_by_nodup _ _ H) as BND.
  destruct (w_drain p && match w_queue p with [] => true | _ => false end).
  - pose proof (on_avail_sameX c wid false w) as S.
    pose proof (sameX_Inv _ _ _ S H) as H0.
    set (w0 := on_avail c wid false w) in *.
    destruct S as (Sp & Sa & _ & _ & Sb & _).
    rewrite <- Sp, <- Sb.
    apply (remove_slot_Inv w0 wid p); try assumption.
    + rewrite Sp. exact L.
    + rewrite Sa. exact JL.
    + rewrite Sb. apply NoDup_remove_key. exact BND.
    + rewrite Sb. intros x wid2 Lb. rewrite lookup_remove in Lb by assumption.
      destruct (x =? who) eqn:E; [discriminate|]. split; [exact Lb|]. intros ->.
      destruct (i_by _ _ H x wid Lb) as (q2 & Lq2 & Aq2). rewrite L in Lq2. inversion Lq2; subst q2.
      apply N.eqb_neq in E. congruence.
  - cbv zeta.
    set (new := next_aid w).
    set (w1 := set_actors (actors w ++ [(new, new_actor wid)]) (set_next_aid (new + 1) w)).
    pose proof (new_actor_Inv None w wid H) as H1. fold new in H1. fold w1 in H1.
    assert (NEW : lookup new (actors w) = None).
    { destruct (lookup new (actors w)) eqn:E; [|reflexivity]. apply (i_fresh_a _ _ H) in E. unfold new in E. lia. }
    assert (LA : lookup new (actors w1) = Some (new_actor wid)).
    { unfold w1. simpl. rewrite lookup_app_new, NEW, N.eqb_refl. reflexivity. }
    assert (IF : inflight new (inbox_msg w1) = []) by (apply (inflight_fresh w new H NEW)).
    (* the replacement itself, together with the by_actor update *)
    assert (H3 : Inv (set_by_actor (remove_key who (by_actor w) ++ [(new, wid)])
                      (with_worker wid (fun x => replace_worker (now w1) x new) w1))).
    { unfold with_worker. change (pool w1) with (pool w). rewrite L.
      pose proof (replace_worker_sok (running_now w1) wid (now w1) p (actors w1) (evs w1) new LA) as RW.
      destruct (replace_worker (now w1) (p, actors w1, evs w1) new) as [[p' acts'] out'].
      destruct RW as (S' & CR & AID).
      apply (lift_gen None w1 wid p p' acts' out'); try assumption; auto.
      - rewrite AID, IF. exact S'.
      - rewrite AID. exact CR.
      - right. intros act La. apply JL. unfold w1 in La. simpl in La. rewrite lookup_app_new in La.
        destruct (lookup (w_aid p) (actors w)) eqn:E; [exact La|].
        destruct (i_slot_actor _ _ H wid p L) as (a0 & La0 & _). congruence.
      - rewrite keys_app_new. apply NoDup_snoc; [apply NoDup_remove_key; exact BND|].
        intros I. apply keys_remove_incl in I. apply lookup_None_notin in I; [exact I|].
        destruct (lookup new (by_actor w)) eqn:E; [|reflexivity]. apply (i_by_fresh _ _ H) in E. unfold new in E. lia.
      - intros x wid2 Lb. unfold w1. simpl. rewrite lookup_app_new in Lb.
        destruct (lookup x (remove_key who (by_actor w))) eqn:E.
        + apply lookup_remove_sub in E; [|exact BND]. apply (i_by_fresh _ _ H) in E. lia.
        + destruct (new =? x) eqn:E2; [|discriminate]. apply N.eqb_eq in E2. subst x. unfold new. lia.
      - intros x wid2 Lb. change (pool w1) with (pool w). rewrite lookup_app_new in Lb.
        destruct (lookup x (remove_key who (by_actor w))) eqn:E.
        + inversion Lb; subst n. rewrite lookup_remove in E by assumption.
          destruct (x =? who) eqn:EX; [discriminate|].
          destruct (i_by _ _ H x wid2 E) as (q2 & Lq2 & Aq2).
          rewrite lookup_update, L. destruct (wid2 =? wid) eqn:EW; [|eauto].
          apply N.eqb_eq in EW. subst wid2. rewrite L in Lq2. inversion Lq2; subst q2.
          apply N.eqb_neq in EX. congruence.
        + destruct (new =? x) eqn:E2; [|discriminate]. apply N.eqb_eq in E2. subst x.
          inversion Lb; subst wid2. exists p'. rewrite lookup_update, L, N.eqb_refl. auto. }
    rewrite with_worker_by. change (by_actor w1) with (by_actor w).
    match goal with |- context [worker_available ?ww wid] => destruct (worker_available ww wid) end.
    + eapply sameX_Inv; [apply on_avail_sameX|]. apply try_route_next_Inv. exact H3.
    + apply try_route_next_Inv. exact H3.
Qed.

Lemma update_discard_Inv c d w : Inv w -> Inv (update_discard c d w).
Proof.
  intros H. unfold update_discard.
  eapply sameX_Inv; [|apply (pool_map_Inv w (set_w_dset (worker_dset c d))); [auto|exact H]]. sx.
Qed.

Lemma shutdown_worker_queues_Inv w : Inv w -> Inv (shutdown_worker_queues w).
Proof.
  intros H. unfold shutdown_worker_queues.
  eapply sameX_Inv; [|apply (pool_map_Inv w (set_w_queue [])); [auto|exact H]]. sx.
Qed.

Lemma fold_stop_Inv (l : list (N * wprops)) w :
  Inv w -> Inv (fold_left (fun w e => stop_actor (w_aid (snd e)) w) l w).
Proof.
  revert w. induction l as [|e l IH]; intros w H; simpl; [assumption|].
  apply IH, stop_actor_Inv. assumption.
Qed.

(* once the factory is no longer running, the exact coupling is not required any more *)
Lemma stopping_Inv w : Inv w -> Inv (set_fstatus FStopping w).
Proof.
  intros [H1 H2 H3 H4 H5 H6 H7 H8 H9 H10 H11]. constructor; try assumption.
  intros wid p L E. destruct (H1 wid p L E) as (act & La & Wa & I & _).
  exists act. repeat split; try assumption. simpl. intros F. discriminate.
Qed.

Lemma post_stop_Inv c w : Inv w -> Inv (post_stop c w).
Proof.
  intros H. unfold post_stop. apply stopping_Inv.
  set (w1 := drain_queue_shutdown (S (length (concat (fq w)))) w).
  assert (H1 : Inv w1) by (eapply sameX_Inv; [apply drain_queue_shutdown_sameX|exact H]).
  set (w2 := if c_shutdown_worker_queues c then shutdown_worker_queues w1 else w1).
  assert (H2 : Inv w2) by (unfold w2; destruct (c_shutdown_worker_queues c); [apply shutdown_worker_queues_Inv|]; exact H1).
  apply fold_stop_Inv. exact H2.
Qed.

Lemma finalize_Inv w : Inv w -> Inv (finalize w).
Proof.
  intros H. unfold finalize. destruct (fstatus w); try exact H.
  destruct (all_workers_gone w) eqn:G; [|exact H].
  destruct H as [H1 H2 H3 H4 H5 H6 H7 H8 H9 H10 H11].
  assert (DEAD : forall aid act, lookup aid (actors w) = Some act -> a_alive act = false).
  { unfold all_workers_gone in G. apply andb_prop in G. destruct G as [G _].
    rewrite forallb_forall in G. intros aid act La.
    assert (I : In (aid, act) (actors w)).
    { clear -La. induction (actors w) as [|[k v] l IH]; simpl in *; [discriminate|].
      destruct (k =? aid) eqn:E; [apply N.eqb_eq in E; inversion La; subst; auto|auto]. }
    specialize (G _ I). simpl in G. destruct (a_alive act); [discriminate|reflexivity]. }
  constructor; simpl; try assumption.
  - intros wid p L. discriminate.
  - intros aid act La J. destruct (H2 aid act La J) as (A & _). rewrite (DEAD aid act La) in A. discriminate.
  - intros m [].
  - intros a [].
  - intros who wid Lb. discriminate.
  - constructor.
  - intros who wid Lb. discriminate.
  - constructor.
  - intros wid p L. discriminate.
Qed.

(* ------------------------------------------------------------------ histories without stale completions *)
(* the factory is about to take a Finished(who,k) whose sender is not the actor behind slot who *)
Definition stale_head (w : world) : Prop :=
  running_now w = true /\ held w = false /\ stop_req w = false /\ inbox_sup w = [] /\
  exists who k sender rest p, inbox_msg w = MFinished who k sender :: rest
                              /\ lookup who (pool w) = Some p /\ w_aid p <> sender.

Fixpoint run_ok (c : config) (w : world) (ls : list label) : Prop :=
  match ls with
  | [] => True
  | l :: ls' => (l = LFactory -> ~ stale_head w) /\ run_ok c (step c w l) ls'
  end.

Definition LEN (w : world) : Prop :=
  forall wid p, lookup wid (pool w) = Some p -> (length (w_curr p) <= 1)%nat.

Lemma pop_msg_Inv w m rest : Inv w -> inbox_msg w = m :: rest ->
  (match m with MFinished _ _ _ => False | _ => True end) -> Inv (set_inbox_msg rest w).
Proof.
  intros [H1 H2 H3 H4 H5 H6 H7 H8 H9 H10 H11] E NF.
  constructor; unfold slot_ok, running_now in *; simpl; try assumption.
  - intros wid p L EX. destruct (H1 wid p L EX) as (act & La & Wa & I & P).
    exists act. repeat split; try assumption. intros R A. specialize (P R A). rewrite E in P.
    destruct m; simpl in P; try exact P. contradiction.
  - intros x Ix. apply H4. rewrite E. right. exact Ix.
Qed.

Lemma handle_msg_Inv c m rest w :
  Inv w -> LEN w -> inbox_msg w = m :: rest -> running_now w = true ->
  (forall who k sender p, m = MFinished who k sender -> lookup who (pool w) = Some p -> w_aid p = sender) ->
  Inv (handle_msg c m (set_inbox_msg rest w)).
Proof.
  intros H LN E RUN NS. unfold handle_msg.
  eapply sameX_Inv; [apply check_drained_sameX|].
  destruct m.
  - apply dispatch_Inv. eapply pop_msg_Inv; eauto. exact I.
  - eapply worker_finished_Inv; eauto.
  - apply resize_pool_Inv. eapply pop_msg_Inv; eauto. exact I.
  - eapply sameX_Inv; [|eapply pop_msg_Inv; eauto; exact I]. sx.
  - apply update_discard_Inv. eapply pop_msg_Inv; eauto. exact I.
  - apply resize_pool_Inv. eapply pop_msg_Inv; eauto. exact I.
  - eapply pop_msg_Inv; eauto. exact I.
  - eapply sameX_Inv; [apply query_sameX|]. eapply pop_msg_Inv; eauto. exact I.
Qed.

Lemma factory_step_Inv c w : Inv w -> LEN w -> ~ stale_head w -> Inv (factory_step c w).
Proof.
  intros H LN NS. unfold factory_step.
  destruct (running_now w && negb (held w)) eqn:G; [|exact H].
  apply andb_prop in G. destruct G as [RUN HELD]. apply negb_true_iff in HELD.
  destruct (stop_req w) eqn:SR; [apply post_stop_Inv; exact H|].
  destruct (inbox_sup w) as [|a rest] eqn:ES.
  - destruct (inbox_msg w) as [|m rest] eqn:EM; [exact H|].
    eapply handle_msg_Inv; eauto.
    intros who k sender p -> L. destruct (N.eq_dec (w_aid p) sender) as [E|NE]; [exact E|].
    exfalso. apply NS. repeat split; try assumption. exists who, k, sender, rest, p. auto.
  - apply worker_died_Inv.
    + eapply pop_sup_Inv; eauto.
    + simpl. apply (i_sup _ _ H). rewrite ES. left. reflexivity.
Qed.

Lemma send_msg_Inv s w : Inv w -> Inv (send_msg s w).
Proof.
  intros H. unfold send_msg.
  assert (D : forall m, (match m with MFinished _ _ _ => False | _ => True end) ->
                        Inv (if running_now w then set_inbox_msg (inbox_msg w ++ [m]) w else w)).
  { intros m NF. destruct (running_now w); [|exact H].
    destruct H as [H1 H2 H3 H4 H5 H6 H7 H8 H9 H10 H11].
    constructor; unfold slot_ok, running_now in *; simpl; try assumption.
    - intros wid p L EX. destruct (H1 wid p L EX) as (act & La & Wa & I & P).
      exists act. repeat split; try assumption. intros R A. rewrite inflight_app.
      destruct m; simpl in *; try (rewrite app_nil_r; auto); contradiction.
    - intros x Ix. apply in_app_iff in Ix. destruct Ix as [Ix|[<-|[]]]; [exact (H4 x Ix)|].
      destruct m; simpl in *; auto; contradiction. }
  destruct s; try (apply D; exact I).
  pose proof (D (MDispatch (mkJob id key ttl (now w) port)) I) as D1.
  destruct (running_now w) eqn:R.
  - exact D1.
  - eapply sameX_Inv; [apply emit_sameX|exact H].
Qed.

Lemma set_sup_Inv w sup :
  Inv w -> (forall a, In a sup -> In a (inbox_sup w) \/ exists act, lookup a (actors w) = Some act /\ a_alive act = false) ->
  Inv (set_inbox_sup sup w).
Proof.
  intros [H1 H2 H3 H4 H5 H6 H7 H8 H9 H10 H11] S. constructor; try assumption.
  simpl. intros a Ia. destruct (S a Ia) as [Io|D]; [apply H5; exact Io|exact D].
Qed.

Lemma step_Inv c w l : Inv w -> LEN w -> (l = LFactory -> ~ stale_head w) -> Inv (step c w l).
Proof.
  intros H LN NS. destruct l; simpl.
  - apply send_msg_Inv. exact H.
  - destruct (fstatus w); try exact H. eapply sameX_Inv; [|exact H]. sx.
  - apply factory_step_Inv; auto.
  - destruct (running_now w && negb (held w)); [|exact H]. eapply sameX_Inv; [|exact H]. sx.
  - destruct (held w); [|exact H].
    eapply sameX_Inv; [apply check_drained_sameX|]. eapply sameX_Inv; [apply calc_tail_sameX|].
    match goal with |- context [if ?b then _ else _] => destruct b end.
    + eapply sameX_Inv; [|exact H]. sx.
    + apply resize_pool_Inv. eapply sameX_Inv; [|exact H]. sx.
  - destruct (running_now w && negb (held w)); [|exact H].
    eapply sameX_Inv; [apply check_drained_sameX|]. eapply sameX_Inv; [apply calc_tail_sameX|]. exact H.
  - eapply sameX_Inv; [|exact H]. sx.
  - apply w_start_Inv. exact H.
  - apply w_complete_Inv. exact H.
  - unfold w_die. destruct (lookup a (actors w)) as [x|]; [|exact H].
    destruct (a_alive x); [apply actor_exit_Inv|]; exact H.
  - unfold w_exit. destruct (lookup a (actors w)) as [x|]; [|exact H].
    destruct (a_alive x), (a_stop x), (a_run x); try exact H. apply actor_exit_Inv. exact H.
  - eapply sameX_Inv; [|apply stop_actor_Inv; exact H]. sx.
  - eapply sameX_Inv; [|exact H]. sx.
  - unfold w_close. destruct (lookup a (actors w)) as [x|]; [|exact H].
    destruct (a_alive x), (a_stop x), (a_run x); try exact H.
    pose proof (actor_exit_Inv None a (CStopExit a) w H) as H1.
    eapply sameX_Inv; [|apply (set_sup_Inv (actor_exit a (CStopExit a) w) (inbox_sup w) H1)].
    + sx.
    + intros y Iy. left. unfold actor_exit. destruct (lookup a (actors w)); [simpl; apply in_or_app; auto|exact Iy].
  - unfold w_closed. destruct (lookup a (actors w)) as [x|] eqn:L; [|exact H].
    destruct (memN a (closing w) && negb (a_alive x)) eqn:G; [|exact H].
    apply andb_prop in G. destruct G as [_ D]. apply negb_true_iff in D.
    eapply sameX_Inv; [|apply (set_sup_Inv w (inbox_sup w ++ [a]) H)].
    + sx.
    + intros y Iy. apply in_app_iff in Iy. destruct Iy as [Iy|[<-|[]]]; [auto|right; eauto].
  - apply finalize_Inv. exact H.
Qed.

Lemma spawn_initial_Inv c n wid w :
  (forall k p, lookup k (pool w) = Some p -> k < wid) -> Inv w -> Inv (spawn_initial c n wid w).
Proof.
  revert wid w. induction n as [|n IH]; intros wid w F H; simpl; [assumption|].
  apply IH.
  - intros k p. destruct (spawn_worker_pool c wid w) as [p0 ->]. rewrite lookup_insert.
    destruct (wid =? k) eqn:E.
    + apply N.eqb_eq in E. subst. lia.
    + intros L. apply F in L. lia.
  - apply spawn_worker_Inv; [assumption|].
    destruct (lookup wid (pool w)) as [p|] eqn:L; [|reflexivity]. apply F in L. lia.
Qed.

Lemma init_Inv c n d rls : Inv (init c n d rls).
Proof.
  unfold init. eapply sameX_Inv; [|apply (spawn_initial_Inv c (N.to_nat n) 0 (set_fq (empty_queue c) (init0 d rls)))].
  - sx.
  - simpl. intros k p E. discriminate.
  - constructor; simpl; try (intros; discriminate); try constructor; try (intros ? []).
Qed.

Theorem coupling_invariant : forall c n d rls ls,
  run_ok c (init c n d rls) ls -> Inv (run c (init c n d rls) ls).
Proof.
  intros c n d rls ls.
  assert (G : forall pre ls, Inv (run c (init c n d rls) pre) -> run_ok c (run c (init c n d rls) pre) ls ->
                             Inv (run c (run c (init c n d rls) pre) ls)).
  { intros pre ls0. revert pre. induction ls0 as [|l ls0 IH]; intros pre H OK; [exact H|].
    destruct OK as [NS OK]. simpl.
    assert (E : step c (run c (init c n d rls) pre) l = run c (init c n d rls) (pre ++ [l])).
    { unfold run. rewrite fold_left_app. reflexivity. }
    rewrite E in *. apply IH; [|exact OK].
    rewrite <- E. apply step_Inv; [exact H| |exact NS].
    intros wid p L. eapply one_at_a_time_factory_side. exact L. }
  intros OK. apply (G [] ls); [apply init_Inv|exact OK].
Qed.

(* ------------------------------------------------------------------ affinity *)
(* whatever a worker actor holds (mailbox or handler) is recorded in curr_jobs of its slot *)
Lemma held_job_is_pending c n d rls ls a x j :
  run_ok c (init c n d rls) ls ->
  let w := run c (init c n d rls) ls in
  lookup a (actors w) = Some x -> In j (actor_jobs x) ->
  exists p, lookup (a_wid x) (pool w) = Some p /\ w_aid p = a /\ has_pending p (j_key j) = true.
Proof.
  intros OK w L I. pose proof (coupling_invariant c n d rls ls OK) as H. fold w in H.
  assert (J : actor_jobs x <> []) by (intros E; rewrite E in I; exact I).
  destruct (i_actor _ _ H a x L J) as (_ & p & Lp & Ap).
  exists p. repeat split; try assumption.
  destruct (i_slot _ _ H (a_wid x) p Lp ltac:(discriminate)) as (x' & Lx & _ & Inc & _).
  rewrite Ap, L in Lx. inversion Lx; subst x'.
  apply has_pending_pk. unfold pk. apply in_or_app. left. apply Inc. unfold akeys. apply in_map. exact I.
Qed.

(* key-persistent routing, histories without stale completions: two jobs of one key are never
   held (in progress or handed over) by actors of two different workers *)
Theorem kp_affinity : forall c n d rls ls a1 a2 x1 x2 j1 j2,
  c_router c = RKeyPersistent ->
  run_ok c (init c n d rls) ls ->
  let w := run c (init c n d rls) ls in
  lookup a1 (actors w) = Some x1 -> lookup a2 (actors w) = Some x2 ->
  In j1 (actor_jobs x1) -> In j2 (actor_jobs x2) -> j_key j1 = j_key j2 ->
  a_wid x1 = a_wid x2.
Proof.
  intros c n d rls ls a1 a2 x1 x2 j1 j2 R OK w L1 L2 I1 I2 K.
  destruct (held_job_is_pending c n d rls ls a1 x1 j1 OK L1 I1) as (p1 & Lp1 & _ & P1).
  destruct (held_job_is_pending c n d rls ls a2 x2 j2 OK L2 I2) as (p2 & Lp2 & _ & P2).
  rewrite K in P1. eapply (kp_one_owner c n d rls ls (j_key j2)); eassumption.
Qed.


(* the same for every router that keeps a key with the worker that has it pending: key-persistent and,
   since fix 36a533a, sticky queuer -- in particular through the exit window of a worker (stopped,
   post_stop running, not yet replaced), where the pre-fix sticky rule put one key on two workers *)
Theorem owner_affinity : forall c n d rls ls a1 a2 x1 x2 j1 j2,
  owner_router c ->
  run_ok c (init c n d rls) ls ->
  let w := run c (init c n d rls) ls in
  lookup a1 (actors w) = Some x1 -> lookup a2 (actors w) = Some x2 ->
  In j1 (actor_jobs x1) -> In j2 (actor_jobs x2) -> j_key j1 = j_key j2 ->
  a_wid x1 = a_wid x2.
Proof.
  intros c n d rls ls a1 a2 x1 x2 j1 j2 R OK w L1 L2 I1 I2 K.
  destruct (held_job_is_pending c n d rls ls a1 x1 j1 OK L1 I1) as (p1 & Lp1 & _ & P1).
  destruct (held_job_is_pending c n d rls ls a2 x2 j2 OK L2 I2) as (p2 & Lp2 & _ & P2).
  rewrite K in P1. eapply (one_owner c n d rls ls (j_key j2)); eassumption.
Qed.

(* ------------------------------------------------------------------ a decidable form of the hypothesis *)
Definition stale_headb (w : world) : bool :=
  running_now w && negb (held w) && negb (stop_req w)
  && (match inbox_sup w with [] => true | _ => false end)
  && match inbox_msg w with
     | MFinished who _ s :: _ =>
         match lookup who (pool w) with Some p => negb (w_aid p =? s) | None => false end
     | _ => false
     end.

Lemma stale_head_b w : stale_head w -> stale_headb w = true.
Proof.
  intros (R & Hh & S & Sup & who & k & s & rest & p & E & L & NE).
  unfold stale_headb. rewrite R, Hh, S, Sup, E, L. simpl.
  apply negb_true_iff. apply N.eqb_neq. exact NE.
Qed.

Fixpoint run_okb (c : config) (w : world) (ls : list label) : bool :=
  match ls with
  | [] => true
  | l :: ls' => (match l with LFactory => negb (stale_headb w) | _ => true end) && run_okb c (step c w l) ls'
  end.

Lemma run_okb_ok c ls : forall w, run_okb c w ls = true -> run_ok c w ls.
Proof.
  induction ls as [|l ls IH]; intros w H; simpl in *; [exact I|].
  apply andb_prop in H. destruct H as [H1 H2]. split; [|apply IH; exact H2].
  intros -> S. apply stale_head_b in S. rewrite S in H1. discriminate.
Qed.

(* ------------------------------------------------------------------ one job per worker, one loss per death *)
Theorem real_one_at_a_time : forall c n d rls ls a x,
  run_ok c (init c n d rls) ls ->
  lookup a (actors (run c (init c n d rls) ls)) = Some x -> (length (actor_jobs x) <= 1)%nat.
Proof.
  intros c n d rls ls a x OK L. exact (i_one _ _ (coupling_invariant c n d rls ls OK) a x L).
Qed.

Lemma lost_drop_jobs cm l out :
  length (flat_map (fun e => match e with EDrop j _ => [j] | _ => [] end) (drop_jobs cm l out))
  = (length l + length (flat_map (fun e => match e with EDrop j _ => [j] | _ => [] end) out))%nat.
Proof.
  unfold drop_jobs. revert out. induction l as [|x l IH]; intros out; simpl; [reflexivity|].
  rewrite IH. simpl. lia.
Qed.

Lemma lost_actor_exit a cm w x : lookup a (actors w) = Some x ->
  length (lost_ids (actor_exit a cm w)) = (length (lost_ids w) + length (actor_jobs x))%nat.
Proof.
  intros L. unfold actor_exit, lost_ids. rewrite L. simpl.
  unfold actor_jobs. rewrite app_length.
  destruct (a_run x); simpl; rewrite lost_drop_jobs; simpl; lia.
Qed.

(* without stale completions a worker death loses at most one job *)
Theorem one_per_death : forall c n d rls ls a,
  run_ok c (init c n d rls) ls ->
  let w := run c (init c n d rls) ls in
  (length (lost_ids (step c w (LWDie a))) <= length (lost_ids w) + 1)%nat.
Proof.
  intros c n d rls ls a OK w. simpl. unfold w_die.
  destruct (lookup a (actors w)) as [x|] eqn:L; [|lia].
  destruct (a_alive x); [|lia].
  rewrite (lost_actor_exit a (CMailbox a) w x L).
  pose proof (real_one_at_a_time c n d rls ls a x OK L). lia.
Qed.
