(* C14 -- key order, slot level: the pipeline of a worker slot (mailbox of the actor behind it,
   then message_queue) is FIFO. Every worker-level operation of the factory only removes jobs
   from it or appends the new job at its end; a replacement starts from the predecessor's queue
   in the same order. Together with C14_key_persistent_one_owner (all pending jobs of a key sit
   in ONE slot) and the coupling invariant (what an actor holds belongs to the slot it stands
   behind) this is the mechanism behind "jobs of one key are handled in submission order". *)
From Coq Require Import List NArith Bool Lia.
From RV Require Import Factory.Model Factory.Conserve Factory.RouteUniq.
Import ListNotations.
Local Open Scope N_scope.

Inductive Subseq {A} : list A -> list A -> Prop :=
| ss_nil : forall l, Subseq [] l
| ss_skip : forall x l1 l2, Subseq l1 l2 -> Subseq l1 (x :: l2)
| ss_take : forall x l1 l2, Subseq l1 l2 -> Subseq (x :: l1) (x :: l2).

Lemma Subseq_refl {A} (l : list A) : Subseq l l.
Proof. induction l; [constructor|apply ss_take; assumption]. Qed.

Lemma Subseq_app_pre {A} (pre l1 l2 : list A) : Subseq l1 l2 -> Subseq l1 (pre ++ l2).
Proof. induction pre; simpl; auto. intros. apply ss_skip. auto. Qed.

Lemma Subseq_app_head {A} (h l1 l2 : list A) : Subseq l1 l2 -> Subseq (h ++ l1) (h ++ l2).
Proof. induction h; simpl; auto. intros. apply ss_take. auto. Qed.

Lemma Subseq_trans {A} (a b c : list A) : Subseq a b -> Subseq b c -> Subseq a c.
Proof.
  intros H1 H2. revert a H1. induction H2; intros a H1.
  - inversion H1; subst. constructor.
  - apply ss_skip. auto.
  - inversion H1; subst; [constructor|apply ss_skip; auto|apply ss_take; auto].
Qed.

Lemma Subseq_app_tail {A} (t l1 l2 : list A) : Subseq l1 l2 -> Subseq (l1 ++ t) (l2 ++ t).
Proof. induction 1; simpl; [apply Subseq_app_pre, Subseq_refl|apply ss_skip; auto|apply ss_take; auto]. Qed.

Definition mb_of (acts : list (N * actor)) (aid : N) : list job :=
  match lookup aid acts with Some a => a_mb a | None => [] end.

(* ids along the pipeline of a slot *)
Definition pipe (x : wctx) : list N :=
  let '(p, acts, _) := x in map j_id (mb_of acts (w_aid p) ++ w_queue p).

Lemma next_non_expired_subseq t q out r q' out' :
  next_non_expired t q out = (r, q', out') ->
  Subseq (map j_id (match r with Some x => [x] | None => [] end ++ q')) (map j_id q).
Proof.
  revert out r q' out'. induction q as [|x q IH]; intros out r q' out' H; simpl in H.
  - inversion H; subst. constructor.
  - destruct (expired t x).
    + simpl. apply ss_skip. eapply IH. eassumption.
    + inversion H; subst. apply Subseq_refl.
Qed.

(* handing job x over: it moves from the head of the queue to the end of the mailbox, or stays at
   the head of the queue when the actor's ports are closed -- the pipeline is the same list *)
Lemma dispatch_job_pipe p acts out x :
  pipe (dispatch_job (p, acts, out) x) = map j_id (mb_of acts (w_aid p)) ++ j_id x :: map j_id (w_queue p).
Proof.
  unfold dispatch_job, cast_job, pipe, mb_of.
  destruct (lookup (w_aid p) acts) as [a|] eqn:L.
  - destruct (a_alive a); simpl.
    + rewrite (lookup_update_same _ _ a _ L). simpl. rewrite !map_app. simpl. rewrite <- app_assoc. reflexivity.
    + rewrite L. rewrite map_app. reflexivity.
  - simpl. rewrite L. reflexivity.
Qed.

Lemma dispatch_next_pipe t p acts out : Subseq (pipe (dispatch_next t (p, acts, out))) (pipe (p, acts, out)).
Proof.
  unfold dispatch_next.
  destruct (next_non_expired t (w_queue p) out) as [[[x|] q'] out'] eqn:E;
    apply next_non_expired_subseq in E.
  - rewrite dispatch_job_pipe. simpl. unfold pipe. rewrite map_app. apply Subseq_app_head. exact E.
  - unfold pipe. simpl. rewrite !map_app. apply Subseq_app_head. exact E.
Qed.

Lemma shed_oldest_subseq fuel t limit q out q' out' :
  shed_oldest fuel t limit q out = (q', out') -> Subseq (map j_id q') (map j_id q).
Proof.
  revert q out q' out'. induction fuel as [|f IH]; intros q out q' out' H; simpl in H.
  - inversion H; subst. apply Subseq_refl.
  - destruct (limit <? N.of_nat (length q)); [|inversion H; subst; apply Subseq_refl].
    destruct (next_non_expired t q out) as [[[d|] q1] out1] eqn:E; apply next_non_expired_subseq in E.
    + apply IH in H. eapply Subseq_trans; [exact H|]. simpl in E.
      eapply Subseq_trans; [|exact E]. apply ss_skip. apply Subseq_refl.
    + inversion H; subst. exact E.
Qed.

Lemma shed_after_pipe t x : Subseq (pipe (shed_after t x)) (pipe x).
Proof.
  destruct x as [[p acts] out]. unfold shed_after.
  destruct (w_dset p) as [[limit [|]]|]; try apply Subseq_refl.
  destruct (shed_oldest _ t limit (w_queue p) out) as [q' out'] eqn:E. apply shed_oldest_subseq in E.
  unfold pipe. simpl.
  rewrite (map_app j_id (mb_of acts (w_aid p)) q'), (map_app j_id (mb_of acts (w_aid p)) (w_queue p)).
  apply Subseq_app_head. exact E.
Qed.

(* (a) a new job enters at the END of the pipeline (or is shed); nothing is reordered *)
Theorem enqueue_job_fifo : forall t p acts out j,
  Subseq (pipe (enqueue_job t (p, acts, out) j)) (pipe (p, acts, out) ++ [j_id j]).
Proof.
  intros t p acts out j. unfold enqueue_job.
  match goal with |- context [if ?b then _ else _] => destruct b end.
  - unfold pipe. rewrite <- (app_nil_r (map j_id _)) at 1. apply Subseq_app_head. constructor.
  - eapply Subseq_trans; [apply shed_after_pipe|].
    destruct (w_curr p).
    + destruct (next_non_expired t (w_queue p) (accept_ev j out)) as [[[o|] q'] out'] eqn:E.
      * apply next_non_expired_subseq in E. rewrite dispatch_job_pipe. simpl. unfold pipe.
        rewrite !map_app, <- app_assoc. apply Subseq_app_head.
        simpl. apply (Subseq_app_tail [j_id j]) in E. simpl in E. exact E.
      * destruct (next_non_expired_split _ _ _ _ _ _ E) as (pre & _ & _ & Q). subst q'.
        rewrite dispatch_job_pipe. simpl. unfold pipe.
        rewrite !map_app, <- app_assoc. apply Subseq_app_head. simpl.
        apply Subseq_app_pre. apply Subseq_refl.
    + unfold pipe. simpl. rewrite !map_app. simpl. rewrite <- app_assoc. apply Subseq_refl.
Qed.

(* (b) a completion only advances the pipeline *)
Theorem worker_complete_fifo : forall t p acts out k,
  Subseq (pipe (worker_complete t (p, acts, out) k)) (pipe (p, acts, out)).
Proof.
  intros t p acts out k. unfold worker_complete. destruct (memN k (w_curr p)); [|apply Subseq_refl].
  apply (dispatch_next_pipe t (set_w_curr (removeN k (w_curr p)) p) acts out).
Qed.

(* (c) the replacement of a dead worker (a fresh actor with an empty mailbox) continues with the
   predecessor's QUEUE in the same order; what the dead actor held in its mailbox is gone *)
Theorem replace_worker_fifo : forall t p acts out a,
  mb_of acts a = [] ->
  Subseq (pipe (replace_worker t (p, acts, out) a)) (map j_id (w_queue p)).
Proof.
  intros t p acts out a M. unfold replace_worker.
  eapply Subseq_trans; [apply (dispatch_next_pipe t (set_w_aid a (set_w_curr [] p)) acts out)|].
  unfold pipe. simpl. rewrite M. apply Subseq_refl.
Qed.
