(* Factory model for C13/C14 (definitions only; proofs in Conserve*.v / Route*.v).

   A pure, executable transcription of ractor/src/factory:
     FactoryState / handle / handle_supervisor_evt / post_stop      (factoryimpl.rs)
     WorkerProperties: enqueue_job, dispatch_job, worker_complete,
                       replace_worker, get_next_non_expired_job      (worker.rs)
     the five routers' choose_target_worker / route_message,
     on_worker_availability_change, RateLimitedRouter                (routing.rs, ratelim.rs)
     DefaultQueue / PriorityQueue                                    (queues.rs)
     accept / reject / is_expired                                    (job.rs), DiscardReason (discard.rs)
   PLUS the worker actors' side (per spawned actor a mailbox and a running slot), the factory
   actor's two inboxes (supervision outranks messages; a stop request outranks both) and a
   "held" flag for the factory sitting inside its capacity controller.

   User code is data: hash functions, priority manager, rate-limiter answers.
   `pending_key_counts` is represented by its specification (a key is pending iff it occurs in
   message_queue or curr_jobs); everything else is transcribed statement by statement. *)
From Coq Require Import List NArith Bool.
Import ListNotations.
Local Open Scope N_scope.

Inductive router := RKeyPersistent | RQueuer | RSticky | RRoundRobin | RCustom.
Inductive mode := Newest | Oldest.
Inductive reason := RTtl | RLoadshed | RShutdown | RRate.
Inductive dstate := NotDraining | Draining | Drained.
Inductive fstat := FRunning | FStopping | FStopped.

(* why a job payload was dropped without being handled or discarded *)
Inductive cause :=
| CDeath (a : N)        (* in the running slot of actor a when it was killed, failed or panicked *)
| CMailbox (a : N)      (* handed to actor a but not yet taken by its handler when a died *)
| CStopExit (a : N)     (* left in the mailbox of actor a when it exited on a graceful stop *)
| CWorkerQueue (w : N)  (* waiting in worker w's message_queue when the factory state was dropped *)
| CInbox                (* a Dispatch message still in the factory's inbox when the factory exited *)
| CBacklog.             (* the `RouteResult::Backlog` panic branch of try_route_next_active_job *)

Record job := mkJob { j_id : N; j_key : N; j_ttl : option N; j_born : N; j_port : bool }.

Inductive event :=
| EAcc (j : N) | ERet (j : N)
| EStart (j w a : N) | EEnd (j w a : N)
| EDisc (j : N) (r : reason)
| EDrop (j : N) (c : cause)
| ESendErr (j : N)
| EQDepth (n : N) | EQActive (n : N) | EQCap (n : N).

(* user code and opaque library functions *)
Record config := mkCfg {
  c_router : router;
  c_prio : bool;                 (* PriorityQueue (5 levels) instead of DefaultQueue *)
  c_hash : N -> N -> N;          (* hash::hash_with_max key n   (DefaultHasher is opaque) *)
  c_custom : N -> N -> N;        (* CustomHashFunction::hash key n, arbitrary *)
  c_prio_of : N -> N;            (* PriorityManager::get_priority, as an index *)
  c_discardable : N -> bool;     (* PriorityManager::is_discardable *)
  c_shutdown_worker_queues : bool;
  c_flush_backlog : bool;
  c_sticky_pending : bool }.
    (* true = the code after `fix: report jobs queued on workers to the discard handler when the
       factory stops` (F4); false = the rule before it, kept for the refutation witness.
       c_sticky_pending: true = sticky routing keeps a key with the worker that has it PENDING (queue or in
       flight; fix 36a533a, F11); false = only with the worker that has it in flight, the rule before it.
       c_flush_backlog: true = a growing pool of a worker-queueing router hands the WHOLE factory-queue
       backlog to the workers (F8 fix); false = at most pool_size jobs, the rule before it *)

(* factory-side bookkeeping of one worker slot (WorkerProperties) *)
Record wprops := mkW {
  w_aid : N;                     (* the actor currently behind this slot *)
  w_queue : list job;            (* message_queue *)
  w_curr : list N;               (* keys of curr_jobs *)
  w_drain : bool;                (* is_draining *)
  w_dset : option (N * mode) }.  (* WorkerDiscardSettings *)

(* a worker actor *)
Record actor := mkA {
  a_wid : N;
  a_alive : bool;                (* its ports are open *)
  a_mb : list job;               (* mailbox: Dispatch messages not yet taken *)
  a_run : option job;            (* the job its handler is executing *)
  a_stop : bool }.               (* a graceful stop was requested *)

Inductive fmsg :=
| MDispatch (j : job)
| MFinished (w k : N) (sender : N)   (* sender = GHOST: the actor that sent it; the factory ignores it *)
| MResize (n : N)
| MDrain
| MSetDisc (d : option (N * mode))
| MSetCount (n : N)
| MNop                             (* any message without effect, e.g. WorkerPong of an unknown worker *)
| MQuery (kind : N).               (* 0 GetQueueDepth, 1 GetNumActiveWorkers, else GetAvailableCapacity *)

Record world := mkWorld {
  pool_size : N;
  pool : list (N * wprops);
  by_actor : list (N * N);
  fq : list (list job);
  dset : option (N * mode);
  drain : dstate;
  rr_last : N;
  avail : list N;
  inq : list N;
  rl : list bool;
  next_aid : N;
  fstatus : fstat;
  stop_req : bool;
  held : bool;
  inbox_sup : list N;
  inbox_msg : list fmsg;
  actors : list (N * actor);
  now : N;
  evs : list event;
  closing : list N;   (* actors whose ports are closed (Stopping) while their post_stop still runs: not yet reported *)
  gated : list N }.   (* GHOST: actors the driver stops with a held-back post_stop *)

Definition set_pool_size (x : N) (w : world) : world :=
  mkWorld x (pool w) (by_actor w) (fq w) (dset w) (drain w) (rr_last w) (avail w) (inq w) (rl w) (next_aid w) (fstatus w) (stop_req w) (held w) (inbox_sup w) (inbox_msg w) (actors w) (now w) (evs w) (closing w) (gated w).
Definition set_pool (x : list (N * wprops)) (w : world) : world :=
  mkWorld (pool_size w) x (by_actor w) (fq w) (dset w) (drain w) (rr_last w) (avail w) (inq w) (rl w) (next_aid w) (fstatus w) (stop_req w) (held w) (inbox_sup w) (inbox_msg w) (actors w) (now w) (evs w) (closing w) (gated w).
Definition set_by_actor (x : list (N * N)) (w : world) : world :=
  mkWorld (pool_size w) (pool w) x (fq w) (dset w) (drain w) (rr_last w) (avail w) (inq w) (rl w) (next_aid w) (fstatus w) (stop_req w) (held w) (inbox_sup w) (inbox_msg w) (actors w) (now w) (evs w) (closing w) (gated w).
Definition set_fq (x : list (list job)) (w : world) : world :=
  mkWorld (pool_size w) (pool w) (by_actor w) x (dset w) (drain w) (rr_last w) (avail w) (inq w) (rl w) (next_aid w) (fstatus w) (stop_req w) (held w) (inbox_sup w) (inbox_msg w) (actors w) (now w) (evs w) (closing w) (gated w).
Definition set_dset (x : option (N * mode)) (w : world) : world :=
  mkWorld (pool_size w) (pool w) (by_actor w) (fq w) x (drain w) (rr_last w) (avail w) (inq w) (rl w) (next_aid w) (fstatus w) (stop_req w) (held w) (inbox_sup w) (inbox_msg w) (actors w) (now w) (evs w) (closing w) (gated w).
Definition set_drain (x : dstate) (w : world) : world :=
  mkWorld (pool_size w) (pool w) (by_actor w) (fq w) (dset w) x (rr_last w) (avail w) (inq w) (rl w) (next_aid w) (fstatus w) (stop_req w) (held w) (inbox_sup w) (inbox_msg w) (actors w) (now w) (evs w) (closing w) (gated w).
Definition set_rr_last (x : N) (w : world) : world :=
  mkWorld (pool_size w) (pool w) (by_actor w) (fq w) (dset w) (drain w) x (avail w) (inq w) (rl w) (next_aid w) (fstatus w) (stop_req w) (held w) (inbox_sup w) (inbox_msg w) (actors w) (now w) (evs w) (closing w) (gated w).
Definition set_avail (x : list N) (w : world) : world :=
  mkWorld (pool_size w) (pool w) (by_actor w) (fq w) (dset w) (drain w) (rr_last w) x (inq w) (rl w) (next_aid w) (fstatus w) (stop_req w) (held w) (inbox_sup w) (inbox_msg w) (actors w) (now w) (evs w) (closing w) (gated w).
Definition set_inq (x : list N) (w : world) : world :=
  mkWorld (pool_size w) (pool w) (by_actor w) (fq w) (dset w) (drain w) (rr_last w) (avail w) x (rl w) (next_aid w) (fstatus w) (stop_req w) (held w) (inbox_sup w) (inbox_msg w) (actors w) (now w) (evs w) (closing w) (gated w).
Definition set_rl (x : list bool) (w : world) : world :=
  mkWorld (pool_size w) (pool w) (by_actor w) (fq w) (dset w) (drain w) (rr_last w) (avail w) (inq w) x (next_aid w) (fstatus w) (stop_req w) (held w) (inbox_sup w) (inbox_msg w) (actors w) (now w) (evs w) (closing w) (gated w).
Definition set_next_aid (x : N) (w : world) : world :=
  mkWorld (pool_size w) (pool w) (by_actor w) (fq w) (dset w) (drain w) (rr_last w) (avail w) (inq w) (rl w) x (fstatus w) (stop_req w) (held w) (inbox_sup w) (inbox_msg w) (actors w) (now w) (evs w) (closing w) (gated w).
Definition set_fstatus (x : fstat) (w : world) : world :=
  mkWorld (pool_size w) (pool w) (by_actor w) (fq w) (dset w) (drain w) (rr_last w) (avail w) (inq w) (rl w) (next_aid w) x (stop_req w) (held w) (inbox_sup w) (inbox_msg w) (actors w) (now w) (evs w) (closing w) (gated w).
Definition set_stop_req (x : bool) (w : world) : world :=
  mkWorld (pool_size w) (pool w) (by_actor w) (fq w) (dset w) (drain w) (rr_last w) (avail w) (inq w) (rl w) (next_aid w) (fstatus w) x (held w) (inbox_sup w) (inbox_msg w) (actors w) (now w) (evs w) (closing w) (gated w).
Definition set_held (x : bool) (w : world) : world :=
  mkWorld (pool_size w) (pool w) (by_actor w) (fq w) (dset w) (drain w) (rr_last w) (avail w) (inq w) (rl w) (next_aid w) (fstatus w) (stop_req w) x (inbox_sup w) (inbox_msg w) (actors w) (now w) (evs w) (closing w) (gated w).
Definition set_inbox_sup (x : list N) (w : world) : world :=
  mkWorld (pool_size w) (pool w) (by_actor w) (fq w) (dset w) (drain w) (rr_last w) (avail w) (inq w) (rl w) (next_aid w) (fstatus w) (stop_req w) (held w) x (inbox_msg w) (actors w) (now w) (evs w) (closing w) (gated w).
Definition set_inbox_msg (x : list fmsg) (w : world) : world :=
  mkWorld (pool_size w) (pool w) (by_actor w) (fq w) (dset w) (drain w) (rr_last w) (avail w) (inq w) (rl w) (next_aid w) (fstatus w) (stop_req w) (held w) (inbox_sup w) x (actors w) (now w) (evs w) (closing w) (gated w).
Definition set_actors (x : list (N * actor)) (w : world) : world :=
  mkWorld (pool_size w) (pool w) (by_actor w) (fq w) (dset w) (drain w) (rr_last w) (avail w) (inq w) (rl w) (next_aid w) (fstatus w) (stop_req w) (held w) (inbox_sup w) (inbox_msg w) x (now w) (evs w) (closing w) (gated w).
Definition set_now (x : N) (w : world) : world :=
  mkWorld (pool_size w) (pool w) (by_actor w) (fq w) (dset w) (drain w) (rr_last w) (avail w) (inq w) (rl w) (next_aid w) (fstatus w) (stop_req w) (held w) (inbox_sup w) (inbox_msg w) (actors w) x (evs w) (closing w) (gated w).
Definition set_evs (x : list event) (w : world) : world :=
  mkWorld (pool_size w) (pool w) (by_actor w) (fq w) (dset w) (drain w) (rr_last w) (avail w) (inq w) (rl w) (next_aid w) (fstatus w) (stop_req w) (held w) (inbox_sup w) (inbox_msg w) (actors w) (now w) x (closing w) (gated w).

Definition set_closing (x : list N) (w : world) : world :=
  mkWorld (pool_size w) (pool w) (by_actor w) (fq w) (dset w) (drain w) (rr_last w) (avail w) (inq w) (rl w) (next_aid w) (fstatus w) (stop_req w) (held w) (inbox_sup w) (inbox_msg w) (actors w) (now w) (evs w) x (gated w).
Definition set_gated (x : list N) (w : world) : world :=
  mkWorld (pool_size w) (pool w) (by_actor w) (fq w) (dset w) (drain w) (rr_last w) (avail w) (inq w) (rl w) (next_aid w) (fstatus w) (stop_req w) (held w) (inbox_sup w) (inbox_msg w) (actors w) (now w) (evs w) (closing w) x.

Definition emit (e : event) (w : world) : world := set_evs (e :: evs w) w.

(* ------------------------------------------------------------------ association lists *)
Fixpoint lookup {A} (k : N) (l : list (N * A)) : option A :=
  match l with
  | [] => None
  | (k', v) :: l' => if k' =? k then Some v else lookup k l'
  end.

Fixpoint update {A} (k : N) (v : A) (l : list (N * A)) : list (N * A) :=
  match l with
  | [] => []
  | (k', v') :: l' => if k' =? k then (k', v) :: l' else (k', v') :: update k v l'
  end.

Fixpoint remove_key {A} (k : N) (l : list (N * A)) : list (N * A) :=
  match l with
  | [] => []
  | (k', v') :: l' => if k' =? k then l' else (k', v') :: remove_key k l'
  end.

(* insert keeping the list ordered by key (HashMap: order is unobservable; fixed here) *)
Fixpoint insert {A} (k : N) (v : A) (l : list (N * A)) : list (N * A) :=
  match l with
  | [] => [(k, v)]
  | (k', v') :: l' =>
      if k =? k' then (k, v) :: l'
      else if k <? k' then (k, v) :: (k', v') :: l'
      else (k', v') :: insert k v l'
  end.

Definition memN (x : N) (l : list N) : bool := existsb (N.eqb x) l.
Fixpoint removeN (x : N) (l : list N) : list N :=
  match l with [] => [] | y :: l' => if x =? y then removeN x l' else y :: removeN x l' end.
Definition addN (x : N) (l : list N) : list N := if memN x l then l else x :: l.

(* ------------------------------------------------------------------ job.rs *)
Definition expired (t : N) (j : job) : bool :=
  match j_ttl j with Some ttl => ttl <? t - j_born j | None => false end.

Definition clear_port (j : job) : job := mkJob (j_id j) (j_key j) (j_ttl j) (j_born j) false.

(* Job::accept / Job::reject as outputs; `accept` takes the port, so a later reject is silent *)
Definition accept_ev (j : job) (out : list event) : list event :=
  if j_port j then EAcc (j_id j) :: out else out.
Definition reject_ev (j : job) (out : list event) : list event :=
  if j_port j then ERet (j_id j) :: out else out.

(* ------------------------------------------------------------------ queues.rs *)
Definition qlevels (c : config) : nat := if c_prio c then 5%nat else 1%nat.
Definition empty_queue (c : config) : list (list job) := repeat [] (qlevels c).
Definition level_of (c : config) (k : N) : nat :=
  if c_prio c then N.to_nat (N.min (c_prio_of c k) 4) else 0%nat.
Definition q_discardable (c : config) (k : N) : bool :=
  if c_prio c then c_discardable c k else true.

Definition qlen (q : list (list job)) : N := N.of_nat (length (concat q)).

Fixpoint q_push (lvl : nat) (j : job) (q : list (list job)) : list (list job) :=
  match q with
  | [] => [[j]]                              (* not reached: lvl < length q *)
  | l :: q' => match lvl with
               | O => (l ++ [j]) :: q'
               | S n => match q' with [] => [l ++ [j]] | _ => l :: q_push n j q' end
               end
  end.

Fixpoint q_pop (q : list (list job)) : option job * list (list job) :=
  match q with
  | [] => (None, [])
  | [] :: q' => let '(r, q'') := q_pop q' in (r, [] :: q'')
  | (j :: l) :: q' => (Some j, l :: q')
  end.

Definition q_peek (q : list (list job)) : option job := hd_error (concat q).

(* discard_oldest: first job of the last non-empty level *)
Fixpoint q_pop_low (q : list (list job)) : option job * list (list job) :=
  match q with
  | [] => (None, [])
  | l :: q' =>
      match q_pop_low q' with
      | (Some j, q'') => (Some j, l :: q'')
      | (None, q'') => match l with
                       | [] => (None, [] :: q'')
                       | j :: l' => (Some j, l' :: q'')
                       end
      end
  end.

Fixpoint expired_events (t : N) (l : list job) (out : list event) : list event :=
  match l with
  | [] => out
  | j :: l' => expired_events t l' (if expired t j then EDisc (j_id j) RTtl :: out else out)
  end.

Definition q_remove_expired (t : N) (q : list (list job)) (out : list event)
  : list (list job) * list event :=
  (map (filter (fun j => negb (expired t j))) q, expired_events t (concat q) out).

(* ------------------------------------------------------------------ worker.rs *)
Definition is_available (p : wprops) : bool :=
  match w_curr p, w_queue p with [], [] => true | _, _ => false end.
Definition is_working (p : wprops) : bool := negb (is_available p).
Definition has_pending (p : wprops) (k : N) : bool :=
  memN k (w_curr p) || existsb (fun j => j_key j =? k) (w_queue p).
Definition is_processing (p : wprops) (k : N) : bool := memN k (w_curr p).

Definition set_w_queue (q : list job) (p : wprops) := mkW (w_aid p) q (w_curr p) (w_drain p) (w_dset p).
Definition set_w_curr (c : list N) (p : wprops) := mkW (w_aid p) (w_queue p) c (w_drain p) (w_dset p).
Definition set_w_drain (b : bool) (p : wprops) := mkW (w_aid p) (w_queue p) (w_curr p) b (w_dset p).
Definition set_w_dset (d : option (N * mode)) (p : wprops) := mkW (w_aid p) (w_queue p) (w_curr p) (w_drain p) d.
Definition set_w_aid (a : N) (p : wprops) := mkW a (w_queue p) (w_curr p) (w_drain p) (w_dset p).

Definition set_a_mb (m : list job) (a : actor) := mkA (a_wid a) (a_alive a) m (a_run a) (a_stop a).

(* the state the worker-level operations touch: the slot, all actors, the output *)
Definition wctx := (wprops * list (N * actor) * list event)%type.

(* get_next_non_expired_job *)
Fixpoint next_non_expired (t : N) (q : list job) (out : list event)
  : option job * list job * list event :=
  match q with
  | [] => (None, [], out)
  | j :: q' => if expired t j then next_non_expired t q' (EDisc (j_id j) RTtl :: out)
               else (Some j, q', out)
  end.

(* ActorRef::cast to a worker actor: fails when its ports are closed *)
Definition cast_job (acts : list (N * actor)) (aid : N) (j : job) : option (list (N * actor)) :=
  match lookup aid acts with
  | Some a => if a_alive a then Some (update aid (set_a_mb (a_mb a ++ [j]) a) acts) else None
  | None => None
  end.

(* dispatch_job: on a closed worker the job goes back to the head of the queue *)
Definition dispatch_job (x : wctx) (j : job) : wctx :=
  let '(p, acts, out) := x in
  match cast_job acts (w_aid p) j with
  | Some acts' => (set_w_curr (addN (j_key j) (w_curr p)) p, acts', out)
  | None => (set_w_queue (j :: w_queue p) p, acts, out)
  end.

Definition dispatch_next (t : N) (x : wctx) : wctx :=
  let '(p, acts, out) := x in
  match next_non_expired t (w_queue p) out with
  | (Some j, q', out') => dispatch_job (set_w_queue q' p, acts, out') j
  | (None, q', out') => (set_w_queue q' p, acts, out')
  end.

Fixpoint shed_oldest (fuel : nat) (t limit : N) (q : list job) (out : list event)
  : list job * list event :=
  match fuel with
  | O => (q, out)
  | S f =>
      if limit <? N.of_nat (length q) then
        match next_non_expired t q out with
        | (Some d, q', out') => shed_oldest f t limit q' (EDisc (j_id d) RLoadshed :: out')
        | (None, q', out') => (q', out')
        end
      else (q, out)
  end.

(* the tail of enqueue_job: with DiscardMode::Oldest the queue is held to the limit -- also after a
   hand-over that failed because the worker actor is stopping (fix acf308c) *)
Definition shed_after (t : N) (x : wctx) : wctx :=
  let '(p, acts, out) := x in
  match w_dset p with
  | Some (limit, Oldest) =>
      let '(q', out') := shed_oldest (S (length (w_queue p))) t limit (w_queue p) out in
      (set_w_queue q' p, acts, out')
  | _ => x
  end.

Definition enqueue_job (t : N) (x : wctx) (j : job) : wctx :=
  let '(p, acts, out) := x in
  let shed_newest :=
    match w_dset p with
    | Some (limit, Newest) => negb (is_available p) && (limit <=? N.of_nat (length (w_queue p)))
    | _ => false
    end in
  if shed_newest then (p, acts, reject_ev j (EDisc (j_id j) RLoadshed :: out))
  else
    let out := accept_ev j out in
    let j := clear_port j in
    shed_after t
      match w_curr p with
      | [] =>
          match next_non_expired t (w_queue p) out with
          | (Some older, q', out') => dispatch_job (set_w_queue (q' ++ [j]) p, acts, out') older
          | (None, q', out') => dispatch_job (set_w_queue q' p, acts, out') j
          end
      | _ :: _ => (set_w_queue (w_queue p ++ [j]) p, acts, out)
      end.

(* worker_complete: only a key found in curr_jobs advances the queue *)
Definition worker_complete (t : N) (x : wctx) (k : N) : wctx :=
  let '(p, acts, out) := x in
  if memN k (w_curr p) then dispatch_next t (set_w_curr (removeN k (w_curr p)) p, acts, out)
  else x.

(* replace_worker: in-flight bookkeeping is abandoned, the queue is kept *)
Definition replace_worker (t : N) (x : wctx) (new_aid : N) : wctx :=
  let '(p, acts, out) := x in
  dispatch_next t (set_w_aid new_aid (set_w_curr [] p), acts, out).

(* lifting to the world *)
Definition with_worker (wid : N) (f : wctx -> wctx) (w : world) : world :=
  match lookup wid (pool w) with
  | Some p =>
      let '(p', acts', out') := f (p, actors w, evs w) in
      set_pool (update wid p' (pool w)) (set_actors acts' (set_evs out' w))
  | None => w
  end.

(* ------------------------------------------------------------------ routing.rs *)
Definition factory_queueing (c : config) : bool :=
  match c_router c with RQueuer | RSticky => true | _ => false end.

Definition on_avail (c : config) (wid : N) (available : bool) (w : world) : world :=
  if factory_queueing c then
    if available then
      if memN wid (inq w) then w
      else set_inq (wid :: inq w) (set_avail (avail w ++ [wid]) w)
    else set_inq (removeN wid (inq w)) w
  else w.

Definition worker_available (w : world) (wid : N) : bool :=
  match lookup wid (pool w) with Some p => is_available p | None => false end.

(* pop the available-workers deque, skipping stale entries *)
Fixpoint pop_avail (av inq : list N) (pl : list (N * wprops)) : option N * list N * list N :=
  match av with
  | [] => (None, [], inq)
  | wid :: av' =>
      let inq' := removeN wid inq in
      match lookup wid pl with
      | Some p => if is_available p then (Some wid, av', inq') else pop_avail av' inq' pl
      | None => pop_avail av' inq' pl
      end
  end.

Definition from_deque (w : world) : option N * world :=
  let '(r, av', inq') := pop_avail (avail w) (inq w) (pool w) in
  (r, set_avail av' (set_inq inq' w)).

Definition find_worker (f : wprops -> bool) (pl : list (N * wprops)) : option N :=
  match find (fun e => f (snd e)) pl with Some e => Some (fst e) | None => None end.

Definition in_pool (w : world) (wid : N) : bool :=
  match lookup wid (pool w) with Some _ => true | None => false end.

Definition custom_target (c : config) (k n : N) : N := (c_custom c k n) mod n.

Definition choose_target (c : config) (k : N) (hint : option N) (w : world) : option N * world :=
  match c_router c with
  | RKeyPersistent =>
      match find_worker (fun p => has_pending p k) (pool w) with
      | Some wid => (Some wid, w)
      | None =>
          match (match hint with
                 | Some h => if in_pool w h then Some h else None
                 | None => None
                 end) with
          | Some h => (Some h, w)
          | None =>
              if pool_size w =? 0 then (None, w)
              else let t := c_hash c k (pool_size w) in
                   (if in_pool w t then Some t else None, w)
          end
      end
  | RQueuer =>
      match hint with
      | Some h => if worker_available w h then (Some h, w) else from_deque w
      | None => from_deque w
      end
  | RSticky =>
      let with_key p := if c_sticky_pending c then has_pending p k else is_processing p k in
      let hinted_processing :=
        match hint with
        | Some h => match lookup h (pool w) with Some p => with_key p | None => false end
        | None => false
        end in
      if hinted_processing then (hint, w)
      else
        match find_worker with_key (pool w) with
        | Some wid => (Some wid, w)
        | None =>
            match hint with
            | Some h => if worker_available w h then (Some h, w) else from_deque w
            | None => from_deque w
            end
        end
  | RRoundRobin =>
      if pool_size w =? 0 then (None, w)
      else
        let hinted := match hint with Some h => worker_available w h | None => false end in
        if hinted then (hint, w)
        else
          let key := if pool_size w <=? rr_last w + 1 then 0 else rr_last w + 1 in
          (if in_pool w key then Some key else None, set_rr_last key w)
  | RCustom =>
      if pool_size w =? 0 then (None, w)
      else let t := custom_target c k (pool_size w) in
           (if in_pool w t then Some t else None, w)
  end.

Inductive route_result := Handled | Backlog (j : job) | RateLimited (j : job).

(* the scripted RateLimiter::check; an exhausted (or absent) script lets in *)
Definition rl_check (w : world) : bool * world :=
  match rl w with [] => (true, w) | b :: r => (b, set_rl r w) end.

(* RateLimitedRouter::route_message around <router>::route_message *)
Definition route_message (c : config) (j : job) (hint : option N) (w : world) : route_result * world :=
  let '(ok, w) := rl_check w in
  if negb ok then
    let w := match hint with
             | Some h => if worker_available w h then on_avail c h true w else w
             | None => w
             end in
    (RateLimited j, w)
  else
    let '(tgt, w) := choose_target c (j_key j) hint w in
    match tgt with
    | Some wid =>
        if in_pool w wid then
          (Handled, with_worker wid (fun x => enqueue_job (now w) x j) w)
        else (Backlog j, w)
    | None => (Backlog j, w)
    end.

(* ------------------------------------------------------------------ factoryimpl.rs *)
Definition discard (r : reason) (j : job) (w : world) : world := emit (EDisc (j_id j) r) w.
Definition reject (j : job) (w : world) : world := set_evs (reject_ev j (evs w)) w.
Definition accept (j : job) (w : world) : world := set_evs (accept_ev j (evs w)) w.

(* first loop of try_route_next_active_job: expired jobs at the head *)
Fixpoint drop_expired_head (fuel : nat) (w : world) : world :=
  match fuel with
  | O => w
  | S f =>
      match q_peek (fq w) with
      | Some j =>
          if expired (now w) j then
            match q_pop (fq w) with
            | (Some j', q') => drop_expired_head f (reject j' (discard RTtl j' (set_fq q' w)))
            | (None, _) => w
            end
          else w
      | None => w
      end
  end.

(* second loop *)
Fixpoint route_loop (c : config) (fuel : nat) (hint : option N) (w : world) : world :=
  match fuel with
  | O => w
  | S f =>
      match q_peek (fq w) with
      | None => w
      | Some j =>
          let '(tgt, w1) := choose_target c (j_key j) hint w in
          match tgt with
          | None => w1
          | Some wid =>
              match q_pop (fq w1) with
              | (Some j', q') =>
                  match route_message c j' (Some wid) (set_fq q' w1) with
                  | (Handled, w2) => w2
                  | (RateLimited j'', w2) => route_loop c f hint (reject j'' (discard RRate j'' w2))
                  | (Backlog j'', w2) => emit (EDrop (j_id j'') CBacklog) w2   (* panic branch *)
                  end
              | (None, _) => w1
              end
          end
      end
  end.

Definition try_route_next (c : config) (hint : option N) (w : world) : world :=
  let w := drop_expired_head (S (length (concat (fq w)))) w in
  route_loop c (S (length (concat (fq w)))) hint w.

Fixpoint shed_queue (fuel : nat) (limit : N) (w : world) : world :=
  match fuel with
  | O => w
  | S f =>
      if limit <? qlen (fq w) then
        match q_pop_low (fq w) with
        | (Some j, q') => shed_queue f limit (discard RLoadshed j (set_fq q' w))
        | (None, _) => w
        end
      else w
  end.

Definition maybe_enqueue (c : config) (j : job) (w : world) : world :=
  let push j w := set_fq (q_push (level_of c (j_key j)) (clear_port j) (fq w)) (accept j w) in
  match dset w with
  | Some (limit, Newest) =>
      if q_discardable c (j_key j) && (limit <=? qlen (fq w))
      then reject j (discard RLoadshed j w)
      else push j w
  | Some (limit, Oldest) =>
      let w := push j w in
      shed_queue (S (length (concat (fq w)))) limit w
  | None => push j w
  end.

Definition dispatch (c : config) (j : job) (w : world) : world :=
  if expired (now w) j then reject j (discard RTtl j w)
  else
    match drain w with
    | NotDraining =>
        match route_message c j None w with
        | (Handled, w) => w
        | (RateLimited j, w) => reject j (discard RRate j w)
        | (Backlog j, w) => maybe_enqueue c j w
        end
    | _ => reject j (discard RShutdown j w)
    end.

(* a graceful stop reaches a worker actor: an idle actor exits at once (the stop port outranks
   the mailbox), a busy one after its current handler *)
Definition drop_jobs (c : cause) (l : list job) (out : list event) : list event :=
  fold_left (fun o j => EDrop (j_id j) c :: o) l out.

Definition actor_exit (aid : N) (cm : cause) (w : world) : world :=
  match lookup aid (actors w) with
  | Some a =>
      let out := drop_jobs cm (a_mb a) (evs w) in
      let out := match a_run a with Some j => EDrop (j_id j) (CDeath aid) :: out | None => out end in
      set_actors (update aid (mkA (a_wid a) false [] None (a_stop a)) (actors w))
        (set_inbox_sup (inbox_sup w ++ [aid]) (set_evs out w))
  | None => w
  end.

Definition stop_actor (aid : N) (w : world) : world :=
  match lookup aid (actors w) with
  | Some a =>
      if a_alive a then
        set_actors (update aid (mkA (a_wid a) true (a_mb a) (a_run a) true) (actors w)) w
      else w
  | None => w
  end.

Definition worker_finished (c : config) (who k : N) (w : world) : world :=
  match lookup who (pool w) with
  | Some _ =>
      let w := with_worker who (fun x => worker_complete (now w) x k) w in
      match lookup who (pool w) with
      | Some p =>
          if w_drain p then
            if is_working p then w
            else (* should_drop_worker *)
              stop_actor (w_aid p)
                (set_by_actor (remove_key (w_aid p) (by_actor w)) (set_pool (remove_key who (pool w)) w))
          else
            let w := try_route_next c (Some who) w in
            if worker_available w who then on_avail c who true w else w
      | None => w
      end
  | None =>
      let w := try_route_next c (Some who) w in
      if worker_available w who then on_avail c who true w else w
  end.

Definition new_actor (wid : N) : actor := mkA wid true [] None false.

Definition worker_dset (c : config) (d : option (N * mode)) : option (N * mode) :=
  if factory_queueing c then None else d.

Definition spawn_worker (c : config) (wid : N) (w : world) : world :=
  let aid := next_aid w in
  on_avail c wid true
    (set_by_actor (by_actor w ++ [(aid, wid)])
      (set_pool (insert wid (mkW aid [] [] false (worker_dset c (dset w))) (pool w))
        (set_actors (actors w ++ [(aid, new_actor wid)])
          (set_next_aid (aid + 1) w)))).

Fixpoint grow_pool (c : config) (n : nat) (wid : N) (w : world) : world :=
  match n with
  | O => w
  | S n' =>
      let w :=
        match lookup wid (pool w) with
        | Some p =>
            let w := set_pool (update wid (set_w_drain false p) (pool w)) w in
            if is_available p then on_avail c wid true w else w
        | None => spawn_worker c wid w
        end in
      grow_pool c n' (wid + 1) w
  end.

Fixpoint shrink_pool (c : config) (n : nat) (wid : N) (w : world) : world :=
  match n with
  | O => w
  | S n' =>
      let w :=
        match lookup wid (pool w) with
        | Some p =>
            if is_working p then set_pool (update wid (set_w_drain true p) (pool w)) w
            else
              stop_actor (w_aid p)
                (set_by_actor (remove_key (w_aid p) (by_actor w))
                  (set_pool (remove_key wid (pool w)) (on_avail c wid false w)))
        | None => w
        end in
      shrink_pool c n' (wid + 1) w
  end.

Fixpoint route_n (c : config) (n : nat) (w : world) : world :=
  match n with
  | O => w
  | S n' => match q_peek (fq w) with
            | None => w
            | Some _ => route_n c n' (try_route_next c None w)
            end
  end.

(* grow branch for worker-queueing routers after the F8 fix: route until nothing moves *)
Fixpoint route_all (c : config) (fuel : nat) (w : world) : world :=
  match fuel with
  | O => w
  | S f => match q_peek (fq w) with
           | None => w
           | Some _ =>
               let w' := try_route_next c None w in
               if qlen (fq w') <? qlen (fq w) then route_all c f w' else w'
           end
  end.

Definition resize_pool (c : config) (requested : N) (w : world) : world :=
  if requested =? 0 then w
  else
    let cur := pool_size w in
    let nw := N.min 1000000 requested in
    if cur <? nw then
      let w := set_pool_size nw (grow_pool c (N.to_nat (nw - cur)) cur w) in
      if factory_queueing c || negb (c_flush_backlog c) then route_n c (N.to_nat nw) w
      else route_all c (S (length (concat (fq w)))) w
    else if nw <? cur then
      set_pool_size nw (shrink_pool c (N.to_nat (cur - nw)) nw w)
    else w.

(* handle_supervisor_evt for ActorTerminated / ActorFailed of actor `who`.
   A worker that dies while draining with nothing queued is retired instead of replaced
   (retire_dead_draining_worker). *)
Definition worker_died (c : config) (who : N) (w : world) : world :=
  match lookup who (by_actor w) with
  | Some wid =>
      match lookup wid (pool w) with
      | Some p =>
          if w_drain p && match w_queue p with [] => true | _ => false end then
            set_by_actor (remove_key who (by_actor w))
              (set_pool (remove_key wid (pool w)) (on_avail c wid false w))
          else
          let aid := next_aid w in
          let w := set_actors (actors w ++ [(aid, new_actor wid)]) (set_next_aid (aid + 1) w) in
          let w := with_worker wid (fun x => replace_worker (now w) x aid) w in
          let w := set_by_actor (remove_key who (by_actor w) ++ [(aid, wid)]) w in
          let w := try_route_next c (Some wid) w in
          if worker_available w wid then on_avail c wid true w else w
      | None => w
      end
  | None => w
  end.

Definition update_discard (c : config) (d : option (N * mode)) (w : world) : world :=
  set_dset d (set_pool (map (fun e => (fst e, set_w_dset (worker_dset c d) (snd e))) (pool w)) w).

Definition all_free (w : world) : bool := forallb (fun e => is_available (snd e)) (pool w).

(* is_drained, evaluated after every handled message *)
Definition check_drained (w : world) : world :=
  match drain w with
  | Draining =>
      if all_free w && (qlen (fq w) =? 0) then set_stop_req true (set_drain Drained w) else w
  | Drained => set_stop_req true w
  | NotDraining => w
  end.

Definition query (c : config) (kind : N) (w : world) : world :=
  let active := N.of_nat (length (filter (fun e => is_working (snd e)) (pool w))) in
  let free := N.of_nat (length (filter (fun e => negb (w_drain (snd e)) && is_available (snd e)) (pool w))) in
  let cap :=
    match dset w with
    | Some (limit, _) =>
        free + (if factory_queueing c then limit - qlen (fq w)
                else fold_left (fun s e => if w_drain (snd e) then s
                                           else s + (limit - N.of_nat (length (w_queue (snd e)))))
                               (pool w) 0)
    | None => free
    end in
  if kind =? 0 then emit (EQDepth (qlen (fq w))) w
  else if kind =? 1 then emit (EQActive active) w
  else emit (EQCap cap) w.

Definition handle_msg (c : config) (m : fmsg) (w : world) : world :=
  let w :=
    match m with
    | MDispatch j => dispatch c j w
    | MFinished who k _ => worker_finished c who k w
    | MResize n => resize_pool c n w
    | MDrain => set_drain Draining w
    | MSetDisc d => update_discard c d w
    | MSetCount n => resize_pool c n w
    | MQuery kind => query c kind w
    | MNop => w
    end in
  check_drained w.

(* the tail of calculate_metrics *)
Definition calc_tail (c : config) (w : world) : world :=
  if factory_queueing c then
    let '(q', out') := q_remove_expired (now w) (fq w) (evs w) in
    set_fq q' (set_evs out' w)
  else w.

Fixpoint drain_queue_shutdown (fuel : nat) (w : world) : world :=
  match fuel with
  | O => w
  | S f => match q_pop (fq w) with
           | (Some j, q') => drain_queue_shutdown f (discard RShutdown j (set_fq q' w))
           | (None, _) => w
           end
  end.

(* discard_queued_jobs_on_shutdown for every pool worker *)
Definition shutdown_events (l : list job) (out : list event) : list event :=
  fold_left (fun o j => EDisc (j_id j) RShutdown :: o) l out.

Definition shutdown_worker_queues (w : world) : world :=
  let out := fold_left (fun o e => shutdown_events (w_queue (snd e)) o) (pool w) (evs w) in
  set_pool (map (fun e => (fst e, set_w_queue [] (snd e))) (pool w)) (set_evs out w).

(* post_stop up to the point where it waits for the workers *)
Definition post_stop (c : config) (w : world) : world :=
  let w := drain_queue_shutdown (S (length (concat (fq w)))) w in
  let w := if c_shutdown_worker_queues c then shutdown_worker_queues w else w in
  let w := fold_left (fun w e => stop_actor (w_aid (snd e)) w) (pool w) w in
  set_fstatus FStopping w.

(* ------------------------------------------------------------------ labels *)
Inductive send :=
| SDispatch (id key : N) (ttl : option N) (port : bool)
| SResize (n : N) | SDrain | SSetDisc (d : option (N * mode)) | SSetCount (n : N) | SQuery (kind : N) | SNop.

Inductive label :=
| LSend (s : send)          (* somebody casts a message to the factory *)
| LStop                     (* factory.stop() *)
| LFactory                  (* the factory actor takes its next item: stop > supervision > message *)
| LCalcHold                 (* Calculate starts and the capacity controller blocks *)
| LRelease (n : N)          (* the controller returns n (0 = unchanged); Calculate finishes *)
| LCalc                     (* a Calculate with a controller that answers at once *)
| LAdvance (dt : N)
| LWStart (a : N)           (* actor a takes the next Dispatch from its mailbox *)
| LWComplete (a : N)        (* its handler returns Ok(key) *)
| LWDie (a : N)             (* killed, or its handler failed / panicked *)
| LWExit (a : N)            (* a stop-requested actor that runs nothing exits *)
| LWStopExt (a : N)         (* somebody outside the factory stops worker actor a gracefully; its post_stop will be slow *)
| LWGate (a : N)            (* GHOST: from now on actor a's post_stop is slow (held back by the driver), whoever stops it *)
| LWClose (a : N)           (* such an actor leaves its loop: status Stopping, ports closed, post_stop running, supervisor not yet told *)
| LWClosed (a : N)          (* its post_stop returns: the supervisor is told *)
| LFinalize.                (* all workers gone: post_stop returns, the factory state is dropped *)

Definition running_now (w : world) : bool :=
  match fstatus w with FRunning => true | _ => false end.

(* ActorCell::send_message refuses as soon as the target's status is Stopping (set when its
   processing loop ends, i.e. before post_stop) *)
Definition send_msg (s : send) (w : world) : world :=
  let deliver m w := if running_now w then set_inbox_msg (inbox_msg w ++ [m]) w else w in
  match s with
  | SDispatch id key ttl port =>
      if running_now w then deliver (MDispatch (mkJob id key ttl (now w) port)) w
      else emit (ESendErr id) w
  | SResize n => deliver (MResize n) w
  | SDrain => deliver MDrain w
  | SSetDisc d => deliver (MSetDisc d) w
  | SSetCount n => deliver (MSetCount n) w
  | SQuery k => deliver (MQuery k) w
  | SNop => deliver MNop w
  end.

Definition factory_step (c : config) (w : world) : world :=
  if running_now w && negb (held w) then
    if stop_req w then post_stop c w
    else
      match inbox_sup w with
      | a :: rest => worker_died c a (set_inbox_sup rest w)
      | [] =>
          match inbox_msg w with
          | m :: rest => handle_msg c m (set_inbox_msg rest w)
          | [] => w
          end
      end
  else w.

Definition all_workers_gone (w : world) : bool :=
  forallb (fun e => negb (a_alive (snd e))) (actors w)
  && match closing w with [] => true | _ => false end.

Definition inbox_jobs (l : list fmsg) : list job :=
  flat_map (fun m => match m with MDispatch j => [j] | _ => [] end) l.

Definition finalize (w : world) : world :=
  match fstatus w with
  | FStopping =>
      if all_workers_gone w then
        let out := fold_left (fun o e => drop_jobs (CWorkerQueue (fst e)) (w_queue (snd e)) o) (pool w) (evs w) in
        let out := drop_jobs CInbox (inbox_jobs (inbox_msg w)) out in
        set_fstatus FStopped (set_by_actor [] (set_inbox_msg [] (set_inbox_sup [] (set_pool [] (set_evs out w)))))
      else w
  | _ => w
  end.

Definition w_start (aid : N) (w : world) : world :=
  match lookup aid (actors w) with
  | Some a =>
      match a_alive a, a_run a, a_stop a, a_mb a with
      | true, None, false, j :: mb =>
          emit (EStart (j_id j) (a_wid a) aid)
            (set_actors (update aid (mkA (a_wid a) true mb (Some j) false) (actors w)) w)
      | _, _, _, _ => w
      end
  | None => w
  end.

Definition w_complete (aid : N) (w : world) : world :=
  match lookup aid (actors w) with
  | Some a =>
      match a_alive a, a_run a with
      | true, Some j =>
          let w := emit (EEnd (j_id j) (a_wid a) aid)
                     (set_actors (update aid (mkA (a_wid a) true (a_mb a) None (a_stop a)) (actors w)) w) in
          (* the Finished cast: refused once the factory is stopping *)
          if running_now w then set_inbox_msg (inbox_msg w ++ [MFinished (a_wid a) (j_key j) aid]) w
          else w
      | _, _ => w
      end
  | None => w
  end.

Definition w_die (aid : N) (w : world) : world :=
  match lookup aid (actors w) with
  | Some a => if a_alive a then actor_exit aid (CMailbox aid) w else w
  | None => w
  end.

Definition w_exit (aid : N) (w : world) : world :=
  match lookup aid (actors w) with
  | Some a =>
      match a_alive a, a_stop a, a_run a with
      | true, true, None => actor_exit aid (CStopExit aid) w
      | _, _, _ => w
      end
  | None => w
  end.

(* the exiting-worker window: like w_exit, but the supervision event is held back *)
Definition w_close (aid : N) (w : world) : world :=
  match lookup aid (actors w) with
  | Some a =>
      match a_alive a, a_stop a, a_run a with
      | true, true, None =>
          let w' := actor_exit aid (CStopExit aid) w in
          set_closing (closing w ++ [aid]) (set_inbox_sup (inbox_sup w) w')
      | _, _, _ => w
      end
  | None => w
  end.

Definition w_closed (aid : N) (w : world) : world :=
  match lookup aid (actors w) with
  | Some a =>
      if memN aid (closing w) && negb (a_alive a)
      then set_closing (removeN aid (closing w)) (set_inbox_sup (inbox_sup w ++ [aid]) w)
      else w
  | None => w
  end.

Definition step (c : config) (w : world) (l : label) : world :=
  match l with
  | LSend s => send_msg s w
  | LStop => match fstatus w with FRunning => set_stop_req true w | _ => w end
  | LFactory => factory_step c w
  | LCalcHold => if running_now w && negb (held w) then set_held true w else w
  | LRelease n =>
      if held w then
        let w := set_held false w in
        let w := if (n =? 0) || (n =? pool_size w) then w else resize_pool c n w in
        check_drained (calc_tail c w)
      else w
  | LCalc => if running_now w && negb (held w) then check_drained (calc_tail c w) else w
  | LAdvance dt => set_now (now w + dt) w
  | LWStart a => w_start a w
  | LWComplete a => w_complete a w
  | LWDie a => w_die a w
  | LWExit a => w_exit a w
  | LWStopExt a => set_gated (addN a (gated w)) (stop_actor a w)
  | LWGate a => set_gated (addN a (gated w)) w
  | LWClose a => w_close a w
  | LWClosed a => w_closed a w
  | LFinalize => finalize w
  end.

Definition run (c : config) (w : world) (ls : list label) : world := fold_left (step c) ls w.

Definition init0 (d : option (N * mode)) (rls : list bool) : world :=
  mkWorld 0 [] [] [] d NotDraining 0 [] [] rls 0 FRunning false false [] [] [] 0 [] [] [].

Fixpoint spawn_initial (c : config) (n : nat) (wid : N) (w : world) : world :=
  match n with O => w | S n' => spawn_initial c n' (wid + 1) (spawn_worker c wid w) end.

(* Factory::pre_start *)
Definition init (c : config) (n : N) (d : option (N * mode)) (rls : list bool) : world :=
  set_pool_size n (spawn_initial c (N.to_nat n) 0 (set_fq (empty_queue c) (init0 d rls))).

(* ------------------------------------------------------------------ places *)
Definition pool_jobs (pl : list (N * wprops)) : list job := flat_map (fun e => w_queue (snd e)) pl.
Definition actor_jobs (a : actor) : list job :=
  a_mb a ++ match a_run a with Some j => [j] | None => [] end.
Definition actors_jobs (al : list (N * actor)) : list job := flat_map (fun e => actor_jobs (snd e)) al.

Definition live_jobs (w : world) : list job :=
  concat (fq w) ++ pool_jobs (pool w) ++ inbox_jobs (inbox_msg w) ++ actors_jobs (actors w).

Definition fate_id (e : event) : list N :=
  match e with
  | EEnd j _ _ => [j] | EDisc j _ => [j] | EDrop j _ => [j] | ESendErr j => [j]
  | _ => []
  end.
Definition handled_ids (w : world) : list N :=
  flat_map (fun e => match e with EEnd j _ _ => [j] | _ => [] end) (evs w).
Definition discarded_ids (w : world) : list N :=
  flat_map (fun e => match e with EDisc j _ => [j] | _ => [] end) (evs w).
Definition lost_ids (w : world) : list N :=
  flat_map (fun e => match e with EDrop j _ => [j] | _ => [] end) (evs w).
Definition unsent_ids (w : world) : list N :=
  flat_map (fun e => match e with ESendErr j => [j] | _ => [] end) (evs w).
Definition returned_ids (w : world) : list N :=
  flat_map (fun e => match e with ERet j => [j] | _ => [] end) (evs w).
Definition fated_ids (w : world) : list N := flat_map fate_id (evs w).

(* every place a job id can be in *)
Definition places (w : world) : list N := map j_id (live_jobs w) ++ fated_ids w.
