(* Soundness of the per-job clauses of the executable oracle check_C13 on model histories:
   for EVERY label sequence with distinct job ids the model's own event log never triggers
   ATwoStarts, ATwoFates, AEndNoStart or ARetNoDisc. *)
From Coq Require Import List NArith Bool Lia Permutation Arith PeanoNat.
From RV Require Import Factory.Model Factory.Scenario Factory.Oracle Factory.Conserve Factory.ConserveRet
  Factory.ConserveTerm.
Import ListNotations.
Local Open Scope N_scope.

Definition started_in (i : N) (out : list event) : Prop := exists w a, In (EStart i w a) out.

(* every job in a handler has its EStart in the log; every EEnd has its EStart *)
Record RS (w : world) : Prop := mkRS {
  rs_run : forall x act j, In (x, act) (actors w) -> a_run act = Some j -> started_in (j_id j) (evs w);
  rs_end : forall i w' a', In (EEnd i w' a') (evs w) -> started_in i (evs w)
}.

Definition run_same (acts acts' : list (N * actor)) : Prop :=
  forall x act' j, In (x, act') acts' -> a_run act' = Some j -> exists act, In (x, act) acts /\ a_run act = Some j.

Lemma dead_same_run a b : dead_same a b -> run_same a b.
Proof. intros H x act' j I R. exact (proj2 (H x act' I) j R). Qed.

Lemma ext_In out out' e : ext out out' -> In e out -> In e out'.
Proof. intros (new & -> & _) I. apply in_or_app. auto. Qed.

Lemma ext_started out out' i : ext out out' -> started_in i out -> started_in i out'.
Proof. intros E (w & a & I). exists w, a. eapply ext_In; eassumption. Qed.

(* a step that neither starts nor ends a job: actors keep their running slots, the log only grows
   by events that are not EEnd *)
Lemma RS_frame w w' :
  run_same (actors w) (actors w') -> ext (evs w) (evs w') ->
  (forall i a b, In (EEnd i a b) (evs w') -> In (EEnd i a b) (evs w)) ->
  RS w -> RS w'.
Proof.
  intros A E NE [R1 R2]. constructor.
  - intros x act j I R. destruct (A x act j I R) as (act0 & I0 & R0).
    eapply ext_started; [exact E|]. eapply R1; eassumption.
  - intros i a b I. eapply ext_started; [exact E|]. eapply R2. eapply NE. exact I.
Qed.

Lemma run_same_refl a : run_same a a.
Proof. intros x act j I R. eauto. Qed.

Lemma TF_run w w' : TF w w' -> run_same (actors w) (actors w').
Proof. intros (_ & _ & D). apply dead_same_run. exact D. Qed.

Lemma post_stop_run c w : run_same (actors w) (actors (post_stop c w)).
Proof.
  unfold post_stop.
  set (w1 := drain_queue_shutdown (S (length (concat (fq w)))) w).
  destruct (drain_queue_shutdown_frame (S (length (concat (fq w)))) w) as (A1 & _ & _). fold w1 in A1.
  set (w2 := if c_shutdown_worker_queues c then shutdown_worker_queues w1 else w1).
  assert (A2 : actors w2 = actors w1) by (unfold w2; destruct (c_shutdown_worker_queues c); reflexivity).
  pose proof (TF_run _ _ (fold_stop_TF (pool w2) w2)) as R. simpl. rewrite A2, A1 in R. exact R.
Qed.

Lemma factory_step_run c w : run_same (actors w) (actors (factory_step c w)).
Proof.
  unfold factory_step. destruct (running_now w && negb (held w)); [|apply run_same_refl].
  destruct (stop_req w); [apply post_stop_run|].
  destruct (inbox_sup w) as [|a rest].
  - destruct (inbox_msg w) as [|m rest]; [apply run_same_refl|].
    apply (TF_run (set_inbox_msg rest w)). apply handle_msg_TF.
  - apply (TF_run (set_inbox_sup rest w)). apply worker_died_TF.
Qed.

Lemma update_run_none a x' acts : a_run x' = None -> run_same acts (update a x' acts).
Proof.
  intros N0 y act j I R. apply In_update in I. destruct I as [E|I]; [|eauto].
  inversion E; subst. congruence.
Qed.

Lemma actor_exit_run a cm w : run_same (actors w) (actors (actor_exit a cm w)).
Proof.
  unfold actor_exit. destruct (lookup a (actors w)) as [x|]; [|apply run_same_refl].
  simpl. apply update_run_none. reflexivity.
Qed.

(* every step except "a handler starts" and "a handler returns" *)
Lemma step_other_run c w l : (forall a, l <> LWStart a) -> (forall a, l <> LWComplete a) ->
  run_same (actors w) (actors (step c w l)).
Proof.
  intros NS NC. destruct l; simpl; try apply run_same_refl.
  - unfold send_msg. destruct s; try (destruct (running_now w); apply run_same_refl).
  - destruct (fstatus w); apply run_same_refl.
  - apply factory_step_run.
  - destruct (running_now w && negb (held w)); apply run_same_refl.
  - destruct (held w); [|apply run_same_refl].
    apply (TF_run (set_held false w)).
    eapply TF_trans; [|apply check_drained_TF]. eapply TF_trans; [|apply calc_tail_TF].
    match goal with |- context [if ?b then _ else _] => destruct b end; [apply TF_refl|apply resize_pool_TF].
  - destruct (running_now w && negb (held w)); [|apply run_same_refl].
    apply TF_run. eapply TF_trans; [|apply check_drained_TF]. apply calc_tail_TF.
  - exfalso. eapply NS. reflexivity.
  - exfalso. eapply NC. reflexivity.
  - unfold w_die. destruct (lookup a (actors w)) as [x|]; [|apply run_same_refl].
    destruct (a_alive x); [apply actor_exit_run|apply run_same_refl].
  - unfold w_exit. destruct (lookup a (actors w)) as [x|]; [|apply run_same_refl].
    destruct (a_alive x), (a_stop x), (a_run x); try apply run_same_refl. apply actor_exit_run.
  - apply (TF_run w). apply stop_actor_TF.
  - unfold w_close. destruct (lookup a (actors w)) as [x|]; [|apply run_same_refl].
    destruct (a_alive x), (a_stop x), (a_run x); try apply run_same_refl.
    apply (actor_exit_run a (CStopExit a) w).
  - unfold w_closed. destruct (lookup a (actors w)) as [x|]; [|apply run_same_refl].
    destruct (memN a (closing w) && negb (a_alive x)); apply run_same_refl.
  - unfold finalize. destruct (fstatus w); try apply run_same_refl.
    destruct (all_workers_gone w); apply run_same_refl.
Qed.

Lemma step_RS c w l : RS w -> RS (step c w l).
Proof.
  intros H.
  assert (OTHER : (forall a, l <> LWStart a) -> (forall a, l <> LWComplete a) -> RS (step c w l)).
  { intros NS NC. pose proof (step_EX c w l NC) as X. destruct (step_EX c w l NC) as (new & E & _ & NE).
    apply (RS_frame w); [apply step_other_run; assumption|exact X| |exact H].
    - intros i a b I. rewrite E in I. apply in_app_iff in I. destruct I as [I|I]; [exfalso; eapply NE; exact I|exact I]. }
  destruct l; try (apply OTHER; intros ? E; discriminate E).
  - (* a handler starts *)
    simpl. unfold w_start. destruct (lookup a (actors w)) as [x|] eqn:L; [|exact H].
    destruct (a_alive x); [|exact H]. destruct (a_run x) eqn:R; [exact H|].
    destruct (a_stop x); [exact H|]. destruct (a_mb x) as [|j mb]; [exact H|].
    destruct H as [R1 R2]. constructor; unfold emit; simpl.
    + intros y act j0 I Rj. apply In_update in I. destruct I as [E|I].
      * inversion E; subst. simpl in Rj. inversion Rj; subst. exists (a_wid x), a. left. reflexivity.
      * destruct (R1 y act j0 I Rj) as (w' & a' & Is). exists w', a'. right. exact Is.
    + intros i w' a' [E|I]; [discriminate|]. destruct (R2 i w' a' I) as (w2 & a2 & Is). exists w2, a2. right. exact Is.
  - (* a handler returns *)
    simpl. unfold w_complete. destruct (lookup a (actors w)) as [x|] eqn:L; [|exact H].
    destruct (a_alive x); [|exact H]. destruct (a_run x) as [j|] eqn:R; [|exact H]. cbv zeta.
    destruct H as [R1 R2].
    assert (SJ : started_in (j_id j) (evs w)) by (eapply R1; [apply lookup_In0; exact L|exact R]).
    assert (G : RS (emit (EEnd (j_id j) (a_wid x) a)
                         (set_actors (update a (mkA (a_wid x) true (a_mb x) None (a_stop x)) (actors w)) w))).
    { constructor; unfold emit; simpl.
      - intros y act j0 I Rj. apply In_update in I. destruct I as [E|I]; [inversion E; subst; discriminate|].
        destruct (R1 y act j0 I Rj) as (w' & a' & Is). exists w', a'. right. exact Is.
      - intros i w' a' [E|I].
        + inversion E; subst. destruct SJ as (w2 & a2 & Is). exists w2, a2. right. exact Is.
        + destruct (R2 i w' a' I) as (w2 & a2 & Is). exists w2, a2. right. exact Is. }
    match goal with |- context [if ?b then _ else _] => destruct b end; [|exact G].
    destruct G as [G1 G2]. constructor; simpl; assumption.
Qed.

Lemma init_RS c n d rls : RS (init c n d rls).
Proof.
  constructor.
  - intros x act j I R. exfalso.
    (* every initial actor is a fresh one *)
    assert (G : forall m wid w, (forall y a0, In (y, a0) (actors w) -> a_run a0 = None) ->
                forall y a0, In (y, a0) (actors (spawn_initial c m wid w)) -> a_run a0 = None).
    { induction m as [|m IH]; intros wid w Hw; simpl; [exact Hw|]. apply IH.
      intros y a0 Iy. unfold spawn_worker in Iy.
      destruct (on_avail_same c wid true
        (set_by_actor (by_actor w ++ [(next_aid w, wid)])
          (set_pool (insert wid (mkW (next_aid w) [] [] false (worker_dset c (dset w))) (pool w))
            (set_actors (actors w ++ [(next_aid w, new_actor wid)]) (set_next_aid (next_aid w + 1) w)))))
        as (_ & _ & _ & Ac & _).
      rewrite Ac in Iy. simpl in Iy. apply in_app_iff in Iy. destruct Iy as [Iy|[E|[]]]; [eauto|].
      inversion E; subst. reflexivity. }
    unfold init in I. simpl in I.
    rewrite (G (N.to_nat n) 0 (set_fq (empty_queue c) (init0 d rls)) (fun y a0 (F : In (y, a0) []) => match F with end) x act I) in R.
    discriminate.
  - rewrite init_evs. intros i w' a' [].
Qed.

Theorem end_has_start : forall c n d rls ls i w' a',
  In (EEnd i w' a') (evs (run c (init c n d rls) ls)) -> started_in i (evs (run c (init c n d rls) ls)).
Proof.
  intros c n d rls ls.
  assert (G : forall ls w, RS w -> RS (run c w ls)).
  { induction ls0 as [|l ls0 IH]; intros w H; simpl; [exact H|]. apply IH, step_RS. exact H. }
  exact (rs_end _ (G ls _ (init_RS c n d rls))).
Qed.

(* ------------------------------------------------------------------ the per-job clauses *)
Lemma count_ev_perm f l l' : Permutation l l' -> count_ev f l = count_ev f l'.
Proof.
  unfold count_ev. induction 1; simpl; auto.
  - destruct (f x); simpl; congruence.
  - destruct (f x), (f y); reflexivity.
  - congruence.
Qed.

Lemma count_ev_pos f l : (0 < count_ev f l)%nat -> exists e, In e l /\ f e = true.
Proof.
  unfold count_ev. induction l as [|e l IH]; simpl; [lia|].
  destruct (f e) eqn:E; [eauto|]. intros H. destruct (IH H) as (e' & I & F). eauto.
Qed.

Lemma count_ev_in f l e : In e l -> f e = true -> (0 < count_ev f l)%nat.
Proof.
  unfold count_ev. induction l as [|x l IH]; simpl; [tauto|].
  intros [->|I] F; [rewrite F; simpl; lia|]. destruct (f x); simpl; [lia|auto].
Qed.

Lemma count_start_occ j out :
  count_ev (is_start j) out
  = count_occ N.eq_dec (flat_map (fun e => match e with EStart i _ _ => [i] | _ => [] end) out) j.
Proof.
  unfold count_ev. induction out as [|e out IH]; [reflexivity|].
  simpl. rewrite count_occ_app, <- IH. destruct e; simpl; try reflexivity.
  destruct (N.eq_dec j0 j) as [->|NE]; [rewrite N.eqb_refl; reflexivity|].
  apply N.eqb_neq in NE. rewrite NE. reflexivity.
Qed.

Lemma count_fates_occ j out :
  (count_ev (is_end j) out + count_ev (is_disc j) out + count_ev (is_drop j) out + count_ev (is_senderr j) out)%nat
  = count_occ N.eq_dec (flat_map fate_id out) j.
Proof.
  unfold count_ev. induction out as [|e out IH]; [reflexivity|].
  simpl. rewrite count_occ_app, <- IH.
  destruct e; simpl; try lia;
    (destruct (N.eq_dec j0 j) as [->|NE]; [rewrite N.eqb_refl; simpl; lia|apply N.eqb_neq in NE; rewrite NE; simpl; lia]).
Qed.

(* SOUNDNESS of the per-job clauses: on the event log of any model run with distinct job ids, in
   any order of presentation, none of ATwoStarts, ATwoFates, AEndNoStart, ARetNoDisc fires *)
Theorem job_core_sound : forall c n d rls ls flat j,
  NoDup (sent_ids ls) ->
  Permutation flat (evs (run c (init c n d rls) ls)) ->
  job_core flat j = [].
Proof.
  intros c n d rls ls flat j ND P. set (w := run c (init c n d rls) ls) in *.
  unfold job_core. rewrite !(count_ev_perm _ _ _ P).
  (* one start *)
  pose proof (started_nodup c n d rls ls ND) as S. fold w in S.
  rewrite (NoDup_count_occ N.eq_dec) in S. specialize (S j). unfold started_ids in S.
  rewrite <- count_start_occ in S.
  (* one fate *)
  pose proof (places_nodup c n d rls ls ND) as PL. fold w in PL.
  rewrite (NoDup_count_occ N.eq_dec) in PL. specialize (PL j). unfold places in PL.
  rewrite count_occ_app in PL. unfold fated_ids in PL. rewrite <- count_fates_occ in PL.
  replace (Nat.ltb 1 (count_ev (is_start j) (evs w))) with false by (symmetry; apply Nat.ltb_ge; lia).
  replace (Nat.ltb 1 (count_ev (is_end j) (evs w) + count_ev (is_disc j) (evs w) + count_ev (is_drop j) (evs w)
                      + count_ev (is_senderr j) (evs w))) with false by (symmetry; apply Nat.ltb_ge; lia).
  (* an end has a start *)
  assert (E1 : Nat.ltb 0 (count_ev (is_end j) (evs w)) && Nat.eqb 0 (count_ev (is_start j) (evs w)) = false).
  { destruct (Nat.ltb 0 (count_ev (is_end j) (evs w))) eqn:L; [|reflexivity]. simpl.
    apply Nat.ltb_lt in L. apply count_ev_pos in L. destruct L as (e & I & F).
    destruct e; simpl in F; try discriminate. apply N.eqb_eq in F. subst j0.
    destruct (end_has_start c n d rls ls j w0 a I) as (w1 & a1 & I1).
    assert (F1 : is_start j (EStart j w1 a1) = true) by (simpl; apply N.eqb_refl).
    pose proof (count_ev_in (is_start j) (evs w) (EStart j w1 a1) I1 F1) as Q.
    destruct (count_ev (is_start j) (evs w)); [lia|reflexivity]. }
  rewrite E1.
  (* a return has a discard *)
  assert (E2 : Nat.ltb 0 (count_ev (is_ret j) (evs w)) && Nat.eqb 0 (count_ev (is_disc j) (evs w)) = false).
  { destruct (Nat.ltb 0 (count_ev (is_ret j) (evs w))) eqn:L; [|reflexivity]. simpl.
    apply Nat.ltb_lt in L. apply count_ev_pos in L. destruct L as (e & I & F).
    destruct e; simpl in F; try discriminate. apply N.eqb_eq in F. subst j0.
    destruct (returned_is_discarded c n d rls ls j I) as (r & I1).
    assert (F1 : is_disc j (EDisc j r) = true) by (simpl; apply N.eqb_refl).
    pose proof (count_ev_in (is_disc j) (evs w) (EDisc j r) I1 F1) as Q.
    destruct (count_ev (is_disc j) (evs w)); [lia|reflexivity]. }
  rewrite E2. reflexivity.
Qed.

(* ------------------------------------------------------------------ from label lists to scenarios *)
Lemma step_grows c w l : exists new, evs (step c w l) = new ++ evs w.
Proof.
  assert (K : forall l0, (forall a, l0 <> LWComplete a) -> exists new, evs (step c w l0) = new ++ evs w).
  { intros l0 NC. destruct (step_EX c w l0 NC) as (new & E & _). eauto. }
  destruct l; try (apply K; intros ? E; discriminate E).
  simpl. match goal with |- context [w_complete ?q w] => destruct (w_complete_evs q w) as [E|(i & x & y & E)] end;
    rewrite E; [exists []; reflexivity|eexists [_]; reflexivity].
Qed.

Lemma run_grows c ls : forall w, exists new, evs (run c w ls) = new ++ evs w.
Proof.
  induction ls as [|l ls IH]; intros w; [exists []; reflexivity|].
  destruct (IH (step c w l)) as (n1 & E1). destruct (step_grows c w l) as (n2 & E2).
  exists (n1 ++ n2). change (run c w (l :: ls)) with (run c (step c w l) ls). rewrite E1, E2. apply app_assoc.
Qed.

(* the runner's state: the world reached by the labels accumulated so far *)
Definition st_ok (c : config) (w0 : world) (st : world * list label) : Prop :=
  fst st = run c w0 (rev (snd st)).

Lemma quiesce_ok c w0 fuel : forall w acc, st_ok c w0 (w, acc) -> st_ok c w0 (quiesce c fuel w acc).
Proof.
  induction fuel as [|f IH]; intros w acc H; simpl; [exact H|].
  destruct (next_label w) as [l|]; [|exact H]. apply IH.
  unfold st_ok in *. simpl in *. rewrite H. unfold run. rewrite fold_left_app. reflexivity.
Qed.

Lemma do_labels_ok c w0 ls st : st_ok c w0 st -> st_ok c w0 (do_labels c ls st).
Proof.
  destruct st as [w acc]. intros H. unfold do_labels. apply quiesce_ok.
  unfold st_ok in *. simpl in *. rewrite H, rev_app_distr, rev_involutive.
  unfold run. rewrite fold_left_app. reflexivity.
Qed.

Lemma run_op_ok c w0 st o : st_ok c w0 st -> st_ok c w0 (run_op c st o).
Proof.
  intros H. unfold run_op. apply do_labels_ok.
  destruct o; try (apply do_labels_ok; exact H).
  match goal with |- context [if ?b then _ else _] => destruct b end; repeat apply do_labels_ok; exact H.
Qed.

Lemma st_grows c w0 st st' : st_ok c w0 st -> st_ok c w0 st' ->
  (exists more, rev (snd st') = rev (snd st) ++ more) -> exists new, evs (fst st') = new ++ evs (fst st).
Proof.
  unfold st_ok. intros H H' (more & E). rewrite H, H', E. unfold run. rewrite fold_left_app.
  apply (run_grows c more).
Qed.

Lemma quiesce_acc c fuel : forall w acc, exists more, rev (snd (quiesce c fuel w acc)) = rev acc ++ more.
Proof.
  induction fuel as [|f IH]; intros w acc; simpl; [exists []; symmetry; apply app_nil_r|].
  destruct (next_label w) as [l|]; [|exists []; symmetry; apply app_nil_r].
  destruct (IH (step c w l) (l :: acc)) as (m & E). exists (l :: m). rewrite E. simpl. rewrite <- app_assoc. reflexivity.
Qed.

Lemma do_labels_acc c ls st : exists more, rev (snd (do_labels c ls st)) = rev (snd st) ++ more.
Proof.
  destruct st as [w acc]. unfold do_labels.
  destruct (quiesce_acc c QFUEL (run c w ls) (rev ls ++ acc)) as (m & E).
  exists (ls ++ m). rewrite E. simpl. rewrite rev_app_distr, rev_involutive, <- app_assoc. reflexivity.
Qed.

Lemma acc_trans (a b c0 : list label) : (exists m, b = a ++ m) -> (exists m, c0 = b ++ m) -> exists m, c0 = a ++ m.
Proof. intros (m1 & ->) (m2 & ->). exists (m1 ++ m2). symmetry. apply app_assoc. Qed.

Lemma run_op_acc c st o : exists more, rev (snd (run_op c st o)) = rev (snd st) ++ more.
Proof.
  unfold run_op. eapply acc_trans; [|apply do_labels_acc].
  destruct o; try (eapply acc_trans; [|apply do_labels_acc]; exists []; symmetry; apply app_nil_r).
  eapply acc_trans; [apply do_labels_acc|].
  match goal with |- context [if ?b then _ else _] => destruct b end;
    [apply do_labels_acc|exists []; symmetry; apply app_nil_r].
Qed.

Lemma firstn_app_exact {A} (a b : list A) : firstn (length (a ++ b) - length b) (a ++ b) = a.
Proof.
  rewrite app_length. replace (length a + length b - length b)%nat with (length a) by lia.
  rewrite firstn_app, Nat.sub_diag, firstn_all. simpl. apply app_nil_r.
Qed.

(* the per-op event lists, put together again, are the log of the final world *)
Lemma fold_run_ops c w0 os : forall st out,
  st_ok c w0 st ->
  let '(st', out') := fold_left (run_op_rec c) os (st, out) in
  st_ok c w0 st' /\ exists new, evs (fst st') = new ++ evs (fst st) /\ concat (rev out') = concat (rev out) ++ rev new.
Proof.
  induction os as [|o os IH]; intros st out H; simpl.
  - split; [exact H|]. exists []. split; [reflexivity|]. symmetry. apply app_nil_r.
  - pose proof (run_op_ok c w0 st o H) as H1.
    destruct (st_grows c w0 st (run_op c st o) H H1 (run_op_acc c st o)) as (n1 & E1).
    specialize (IH (run_op c st o) (rev (firstn (length (evs (fst (run_op c st o))) - length (evs (fst st))) (evs (fst (run_op c st o)))) :: out) H1).
    destruct st as [w acc]. simpl in *.
    destruct (fold_left (run_op_rec c) os _) as [st' out'] eqn:F.
    destruct IH as (OK & n2 & E2 & C2). split; [exact OK|].
    exists (n2 ++ n1). split; [rewrite E2, E1; apply app_assoc|].
    rewrite C2. simpl. rewrite concat_app. simpl. rewrite app_nil_r.
    rewrite E1, firstn_app_exact, rev_app_distr, app_assoc. reflexivity.
Qed.

Theorem scenario_log : forall c n d rls os,
  concat (scenario_events c n d rls os) = rev (evs (scenario_final c n d rls os))
  /\ scenario_final c n d rls os = run c (init c n d rls) (labels_of c n d rls os).
Proof.
  intros c n d rls os. unfold scenario_events, scenario_final, labels_of, run_ops.
  pose proof (fold_run_ops c (init c n d rls) os (init c n d rls, []) [] eq_refl) as H.
  destruct (fold_left (run_op_rec c) os (init c n d rls, [], [])) as [st' out'].
  destruct H as (OK & new & E & C). split; [|exact OK].
  cbn [fst snd] in *. rewrite init_evs, app_nil_r in E. rewrite C. simpl. rewrite E. reflexivity.
Qed.

(* SOUNDNESS, scenario form: what lib/c13.py evaluates -- job_core on the concatenated per-op event
   lists of a scenario -- is empty on the model's own answer for every scenario with distinct ids *)
Theorem job_core_sound_scenario : forall c n d rls os j,
  NoDup (sent_ids (labels_of c n d rls os)) ->
  job_core (concat (scenario_events c n d rls os)) j = [].
Proof.
  intros c n d rls os j ND. destruct (scenario_log c n d rls os) as [E F].
  apply (job_core_sound c n d rls (labels_of c n d rls os)); [exact ND|].
  rewrite E, F. apply Permutation_sym, Permutation_rev.
Qed.
