(* C14 -- per-worker invariants of the factory's bookkeeping, for every label sequence.
   A predicate P on WorkerProperties that is established by a fresh worker, insensitive to the
   draining flag / discard settings, and preserved by enqueue_job, worker_complete and
   replace_worker holds for every pool worker of every reachable state.
   Instance: the factory never believes a worker to run more than one job (curr_jobs <= 1). *)
From Coq Require Import List NArith Bool Lia.
From RV Require Import Factory.Model Factory.Conserve.
Import ListNotations.
Local Open Scope N_scope.

Section PoolInvariant.
Variable P : wprops -> Prop.
Hypothesis P_fresh : forall a d, P (mkW a [] [] false d).
Hypothesis P_drain : forall b p, P p -> P (set_w_drain b p).
Hypothesis P_dset : forall d p, P p -> P (set_w_dset d p).
Hypothesis P_clear : forall p, P p -> P (set_w_queue [] p).
Hypothesis P_enqueue : forall t p acts out j, P p -> P (fst (fst (enqueue_job t (p, acts, out) j))).
Hypothesis P_complete : forall t p acts out k, P p -> P (fst (fst (worker_complete t (p, acts, out) k))).
Hypothesis P_replace : forall t p acts out a, P p -> P (fst (fst (replace_worker t (p, acts, out) a))).

Definition PI (w : world) : Prop := Forall (fun e => P (snd e)) (pool w).

Lemma Forall_update (k : N) v (l : list (N * wprops)) :
  Forall (fun e => P (snd e)) l -> P v -> Forall (fun e => P (snd e)) (update k v l).
Proof.
  induction l as [|[k' v'] l IH]; simpl; intros F H; [constructor|].
  inversion F; subst. destruct (k' =? k); constructor; auto.
Qed.

Lemma Forall_remove (k : N) (l : list (N * wprops)) :
  Forall (fun e => P (snd e)) l -> Forall (fun e => P (snd e)) (remove_key k l).
Proof.
  induction l as [|[k' v'] l IH]; simpl; intros F; [constructor|].
  inversion F; subst. destruct (k' =? k); [assumption|constructor; auto].
Qed.

Lemma Forall_insert (k : N) v (l : list (N * wprops)) :
  Forall (fun e => P (snd e)) l -> P v -> Forall (fun e => P (snd e)) (insert k v l).
Proof.
  induction l as [|[k' v'] l IH]; simpl; intros F H; [repeat constructor; assumption|].
  inversion F; subst. destruct (k =? k'); [constructor; auto|].
  destruct (k <? k'); constructor; auto.
Qed.

Lemma Forall_lookup (k : N) (l : list (N * wprops)) p :
  Forall (fun e => P (snd e)) l -> lookup k l = Some p -> P p.
Proof.
  induction l as [|[k' v'] l IH]; simpl; intros F H; [discriminate|].
  inversion F; subst. destruct (k' =? k); [inversion H; subst; assumption|auto].
Qed.

Lemma same_places_PI w w' : same_places w w' -> PI w -> PI w'.
Proof. intros (_ & Hp & _) H. unfold PI. rewrite Hp. exact H. Qed.

Lemma with_worker_PI wid f w :
  (forall p acts out, P p -> P (fst (fst (f (p, acts, out))))) -> PI w -> PI (with_worker wid f w).
Proof.
  intros Hf H. unfold with_worker. destruct (lookup wid (pool w)) as [p|] eqn:L; [|assumption].
  specialize (Hf p (actors w) (evs w) (Forall_lookup _ _ _ H L)).
  destruct (f (p, actors w, evs w)) as [[p' acts'] out']. unfold PI. simpl in *.
  apply Forall_update; assumption.
Qed.

(* frames: functions that leave the pool alone *)
Definition pool_same (f : world -> world) : Prop := forall w, pool (f w) = pool w.

Lemma route_message_PI c x hint w r w' : route_message c x hint w = (r, w') -> PI w -> PI w'.
Proof.
  unfold route_message. destruct (rl_check w) as [ok w0] eqn:R. apply rl_check_same in R.
  intros H I. apply (same_places_PI _ _ R) in I.
  destruct ok; simpl in H.
  - destruct (choose_target c (j_key x) hint w0) as [tgt w1] eqn:C. apply choose_target_same in C.
    apply (same_places_PI _ _ C) in I.
    destruct tgt as [wid|]; [destruct (in_pool w1 wid)|]; inversion H; subst; try assumption.
    apply with_worker_PI; [|assumption]. intros. apply P_enqueue. assumption.
  - inversion H; subst. destruct hint as [h|]; [|assumption].
    destruct (worker_available w0 h); [|assumption].
    eapply same_places_PI; [apply on_avail_same|assumption].
Qed.

Lemma evs_only_PI w out : PI w -> PI (set_evs out w).
Proof. exact (fun H => H). Qed.

Lemma discard_PI r x w : PI w -> PI (discard r x w). Proof. exact (fun H => H). Qed.
Lemma reject_PI x w : PI w -> PI (reject x w). Proof. exact (fun H => H). Qed.
Lemma accept_PI x w : PI w -> PI (accept x w). Proof. exact (fun H => H). Qed.
Lemma set_fq_PI q w : PI w -> PI (set_fq q w). Proof. exact (fun H => H). Qed.

Lemma drop_expired_head_PI fuel w : PI w -> PI (drop_expired_head fuel w).
Proof.
  revert w. induction fuel as [|f IH]; intros w H; simpl; [assumption|].
  destruct (q_peek (fq w)) as [x|]; [|assumption].
  destruct (expired (now w) x); [|assumption].
  destruct (q_pop (fq w)) as [[y|] q']; [|assumption]. apply IH. assumption.
Qed.

Lemma route_loop_PI c fuel hint w : PI w -> PI (route_loop c fuel hint w).
Proof.
  revert w. induction fuel as [|f IH]; intros w H; simpl; [assumption|].
  destruct (q_peek (fq w)) as [x|]; [|assumption].
  destruct (choose_target c (j_key x) hint w) as [tgt w1] eqn:C. apply choose_target_same in C.
  apply (same_places_PI _ _ C) in H.
  destruct tgt as [wid|]; [|assumption].
  destruct (q_pop (fq w1)) as [[y|] q']; [|assumption].
  destruct (route_message c y (Some wid) (set_fq q' w1)) as [r w2] eqn:RM.
  apply route_message_PI in RM; [|assumption].
  destruct r; [assumption|assumption|]. apply IH. assumption.
Qed.

Lemma try_route_next_PI c hint w : PI w -> PI (try_route_next c hint w).
Proof. intros H. unfold try_route_next. apply route_loop_PI, drop_expired_head_PI. assumption. Qed.

Lemma shed_queue_PI fuel limit w : PI w -> PI (shed_queue fuel limit w).
Proof.
  revert w. induction fuel as [|f IH]; intros w H; simpl; [assumption|].
  destruct (limit <? qlen (fq w)); [|assumption].
  destruct (q_pop_low (fq w)) as [[y|] q']; [|assumption]. apply IH. assumption.
Qed.

Lemma maybe_enqueue_PI c x w : PI w -> PI (maybe_enqueue c x w).
Proof.
  intros H. unfold maybe_enqueue. destruct (dset w) as [[limit [|]]|].
  - match goal with |- context [if ?b then _ else _] => destruct b end; assumption.
  - apply shed_queue_PI. assumption.
  - assumption.
Qed.

Lemma dispatch_PI c x w : PI w -> PI (dispatch c x w).
Proof.
  intros H. unfold dispatch. destruct (expired (now w) x); [assumption|].
  destruct (drain w); try assumption.
  destruct (route_message c x None w) as [r w'] eqn:RM.
  apply route_message_PI in RM; [|assumption].
  destruct r; [assumption|apply maybe_enqueue_PI; assumption|assumption].
Qed.

Lemma stop_actor_PI a w : PI w -> PI (stop_actor a w).
Proof.
  intros H. unfold stop_actor. destruct (lookup a (actors w)) as [x|]; [|assumption].
  destruct (a_alive x); assumption.
Qed.

Lemma avail_tail_PI c who w :
  PI w -> PI (let w1 := try_route_next c (Some who) w in
              if worker_available w1 who then on_avail c who true w1 else w1).
Proof.
  intros H. cbv zeta. destruct (worker_available _ who).
  - eapply same_places_PI; [apply on_avail_same|]. apply try_route_next_PI. assumption.
  - apply try_route_next_PI. assumption.
Qed.

Lemma worker_finished_PI c who k w : PI w -> PI (worker_finished c who k w).
Proof.
  intros H. unfold worker_finished.
  destruct (lookup who (pool w)) as [p0|]; [|apply avail_tail_PI; assumption].
  set (w1 := with_worker who (fun x => worker_complete (now w) x k) w).
  assert (H1 : PI w1). { apply with_worker_PI; [|assumption]. intros. apply P_complete. assumption. }
  destruct (lookup who (pool w1)) as [p|]; [|assumption].
  destruct (w_drain p).
  - destruct (is_working p); [assumption|]. apply stop_actor_PI. unfold PI. simpl.
    apply Forall_remove. assumption.
  - apply avail_tail_PI. assumption.
Qed.

Lemma spawn_worker_PI c wid w : PI w -> PI (spawn_worker c wid w).
Proof.
  intros H. unfold spawn_worker. eapply same_places_PI; [apply on_avail_same|].
  unfold PI. simpl. apply Forall_insert; [assumption|apply P_fresh].
Qed.

Lemma grow_pool_PI c n wid w : PI w -> PI (grow_pool c n wid w).
Proof.
  revert wid w. induction n as [|n IH]; intros wid w H; simpl; [assumption|].
  apply IH. destruct (lookup wid (pool w)) as [p|] eqn:L.
  - assert (PI (set_pool (update wid (set_w_drain false p) (pool w)) w)) as H'.
    { unfold PI. simpl. apply Forall_update; [assumption|]. apply P_drain. eapply Forall_lookup; eassumption. }
    destruct (is_available p); [eapply same_places_PI; [apply on_avail_same|]|]; assumption.
  - apply spawn_worker_PI. assumption.
Qed.

Lemma shrink_pool_PI c n wid w : PI w -> PI (shrink_pool c n wid w).
Proof.
  revert wid w. induction n as [|n IH]; intros wid w H; simpl; [assumption|].
  apply IH. destruct (lookup wid (pool w)) as [p|] eqn:L; [|assumption].
  destruct (is_working p).
  - unfold PI. simpl. apply Forall_update; [assumption|]. apply P_drain. eapply Forall_lookup; eassumption.
  - apply stop_actor_PI. unfold PI. simpl. apply Forall_remove. assumption.
Qed.

Lemma route_n_PI c n w : PI w -> PI (route_n c n w).
Proof.
  revert w. induction n as [|n IH]; intros w H; simpl; [assumption|].
  destruct (q_peek (fq w)); [|assumption]. apply IH, try_route_next_PI. assumption.
Qed.

Lemma route_all_PI c fuel w : PI w -> PI (route_all c fuel w).
Proof.
  revert w. induction fuel as [|f IH]; intros w H; simpl; [assumption|].
  destruct (q_peek (fq w)); [|assumption].
  destruct (qlen (fq (try_route_next c None w)) <? qlen (fq w)); [apply IH|]; apply try_route_next_PI; assumption.
Qed.

Lemma resize_pool_PI c n w : PI w -> PI (resize_pool c n w).
Proof.
  intros H. unfold resize_pool. destruct (n =? 0); [assumption|].
  destruct (pool_size w <? N.min 1000000 n).
  - assert (PI (set_pool_size (N.min 1000000 n)
                  (grow_pool c (N.to_nat (N.min 1000000 n - pool_size w)) (pool_size w) w))) as G.
    { assert (PI (grow_pool c (N.to_nat (N.min 1000000 n - pool_size w)) (pool_size w) w)) as G0
        by (apply grow_pool_PI; assumption).
      exact G0. }
    cbv zeta.
    match goal with |- context [if ?b then _ else _] => destruct b end;
      [apply route_n_PI|apply route_all_PI]; exact G.
  - destruct (N.min 1000000 n <? pool_size w); [|assumption].
    assert (PI (shrink_pool c (N.to_nat (pool_size w - N.min 1000000 n)) (N.min 1000000 n) w)) as G
      by (apply shrink_pool_PI; assumption).
    exact G.
Qed.

Lemma worker_died_PI c who w : PI w -> PI (worker_died c who w).
Proof.
  intros H. unfold worker_died. destruct (lookup who (by_actor w)) as [wid|]; [|assumption].
  destruct (lookup wid (pool w)) as [p|] eqn:L; [|assumption].
  destruct (w_drain p && match w_queue p with [] => true | _ => false end).
  - unfold PI. simpl. apply Forall_remove.
    destruct (on_avail_same c wid false w) as (_ & Hp & _). assumption.
  - cbv zeta.
    set (w1 := set_actors (actors w ++ [(next_aid w, new_actor wid)]) (set_next_aid (next_aid w + 1) w)).
    assert (H1 : PI w1) by exact H.
    set (w2 := with_worker wid (fun x => replace_worker (now w1) x (next_aid w)) w1).
    assert (H2 : PI w2). { apply with_worker_PI; [|assumption]. intros. apply P_replace. assumption. }
    set (w3 := set_by_actor (remove_key who (by_actor w2) ++ [(next_aid w, wid)]) w2).
    assert (H3 : PI w3) by exact H2.
    destruct (worker_available _ wid).
    + eapply same_places_PI; [apply on_avail_same|]. apply try_route_next_PI. assumption.
    + apply try_route_next_PI. assumption.
Qed.

Lemma update_discard_PI c d w : PI w -> PI (update_discard c d w).
Proof.
  intros H. unfold update_discard, PI. simpl. unfold PI in H.
  induction (pool w) as [|e l IH]; simpl; [constructor|].
  inversion H; subst. constructor; [apply P_dset; assumption|auto].
Qed.

Lemma check_drained_PI w : PI w -> PI (check_drained w).
Proof. intros H. eapply same_places_PI; [apply check_drained_same|assumption]. Qed.

Lemma query_PI c k w : PI w -> PI (query c k w).
Proof. intros H. unfold query. destruct (k =? 0); [|destruct (k =? 1)]; assumption. Qed.

Lemma handle_msg_PI c m w : PI w -> PI (handle_msg c m w).
Proof.
  intros H. unfold handle_msg. apply check_drained_PI. destruct m.
  - apply dispatch_PI. assumption.
  - apply worker_finished_PI. assumption.
  - apply resize_pool_PI. assumption.
  - assumption.
  - apply update_discard_PI. assumption.
  - apply resize_pool_PI. assumption.
  - assumption.
  - apply query_PI. assumption.
Qed.

Lemma calc_tail_PI c w : PI w -> PI (calc_tail c w).
Proof.
  intros H. unfold calc_tail. destruct (factory_queueing c); [|assumption].
  destruct (q_remove_expired (now w) (fq w) (evs w)). assumption.
Qed.

Lemma drain_queue_shutdown_PI fuel w : PI w -> PI (drain_queue_shutdown fuel w).
Proof.
  revert w. induction fuel as [|f IH]; intros w H; simpl; [assumption|].
  destruct (q_pop (fq w)) as [[y|] q']; [|assumption]. apply IH. assumption.
Qed.

Lemma fold_stop_PI (l : list (N * wprops)) w :
  PI w -> PI (fold_left (fun w e => stop_actor (w_aid (snd e)) w) l w).
Proof.
  revert w. induction l as [|e l IH]; intros w H; simpl; [assumption|].
  apply IH, stop_actor_PI. assumption.
Qed.

Lemma shutdown_worker_queues_PI w : PI w -> PI (shutdown_worker_queues w).
Proof.
  intros H. unfold shutdown_worker_queues, PI. simpl. unfold PI in H.
  induction (pool w) as [|e l IH]; simpl; [constructor|].
  inversion H; subst. constructor; [apply P_clear; assumption|auto].
Qed.

Lemma post_stop_PI c w : PI w -> PI (post_stop c w).
Proof.
  intros H. unfold post_stop.
  set (w1 := drain_queue_shutdown (S (length (concat (fq w)))) w).
  assert (H1 : PI w1) by (apply drain_queue_shutdown_PI; assumption).
  set (w2 := if c_shutdown_worker_queues c then shutdown_worker_queues w1 else w1).
  assert (H2 : PI w2).
  { unfold w2. destruct (c_shutdown_worker_queues c); [apply shutdown_worker_queues_PI|]; assumption. }
  assert (PI (fold_left (fun w e => stop_actor (w_aid (snd e)) w) (pool w2) w2)) as G
    by (apply fold_stop_PI; assumption).
  exact G.
Qed.

Lemma factory_step_PI c w : PI w -> PI (factory_step c w).
Proof.
  intros H. unfold factory_step. destruct (running_now w && negb (held w)); [|assumption].
  destruct (stop_req w); [apply post_stop_PI; assumption|].
  destruct (inbox_sup w) as [|a rest].
  - destruct (inbox_msg w) as [|m rest]; [assumption|]. apply handle_msg_PI. assumption.
  - apply worker_died_PI. assumption.
Qed.

Lemma actor_exit_PI a cm w : PI w -> PI (actor_exit a cm w).
Proof. intros H. unfold actor_exit. destruct (lookup a (actors w)); assumption. Qed.

Lemma step_PI c w l : PI w -> PI (step c w l).
Proof.
  intros H. destruct l; simpl.
  - unfold send_msg. destruct s; try (destruct (running_now w); assumption).
  - destruct (fstatus w); assumption.
  - apply factory_step_PI. assumption.
  - destruct (running_now w && negb (held w)); assumption.
  - destruct (held w); [|assumption]. apply check_drained_PI, calc_tail_PI.
    match goal with |- context [if ?b then _ else _] => destruct b end; [assumption|].
    apply resize_pool_PI. assumption.
  - destruct (running_now w && negb (held w)); [|assumption]. apply check_drained_PI, calc_tail_PI. assumption.
  - assumption.
  - unfold w_start. destruct (lookup a (actors w)) as [x|]; [|assumption].
    destruct (a_alive x), (a_run x), (a_stop x), (a_mb x); assumption.
  - unfold w_complete. destruct (lookup a (actors w)) as [x|]; [|assumption].
    destruct (a_alive x), (a_run x); try assumption. cbv zeta.
    match goal with |- context [if ?b then _ else _] => destruct b end; assumption.
  - unfold w_die. destruct (lookup a (actors w)) as [x|]; [|assumption].
    destruct (a_alive x); [apply actor_exit_PI|]; assumption.
  - unfold w_exit. destruct (lookup a (actors w)) as [x|]; [|assumption].
    destruct (a_alive x), (a_stop x), (a_run x); try assumption. apply actor_exit_PI. assumption.
  - apply stop_actor_PI. assumption.
  - assumption.
  - unfold w_close. destruct (lookup a (actors w)) as [x|]; [|assumption].
    destruct (a_alive x), (a_stop x), (a_run x); try assumption.
    assert (G : PI (actor_exit a (CStopExit a) w)) by (apply actor_exit_PI; assumption). exact G.
  - unfold w_closed. destruct (lookup a (actors w)) as [x|]; [|assumption].
    destruct (memN a (closing w) && negb (a_alive x)); assumption.
  - unfold finalize. destruct (fstatus w); try assumption.
    destruct (all_workers_gone w); [|assumption]. unfold PI. simpl. constructor.
Qed.

Lemma spawn_initial_PI c n wid w : PI w -> PI (spawn_initial c n wid w).
Proof.
  revert wid w. induction n as [|n IH]; intros wid w H; simpl; [assumption|].
  apply IH, spawn_worker_PI. assumption.
Qed.

Theorem pool_invariant : forall c n d rls ls, PI (run c (init c n d rls) ls).
Proof.
  intros c n d rls ls. unfold run.
  assert (H0 : PI (init c n d rls)).
  { unfold init.
    assert (PI (spawn_initial c (N.to_nat n) 0 (set_fq (empty_queue c) (init0 d rls)))) as G
      by (apply spawn_initial_PI; unfold PI; simpl; constructor).
    exact G. }
  revert H0. generalize (init c n d rls). induction ls as [|l ls IH]; intros w H; simpl; [assumption|].
  apply IH, step_PI. assumption.
Qed.

End PoolInvariant.

(* ------------------------------------------------------------------ instance: one job at a time *)
Definition curr_le1 (p : wprops) : Prop := (length (w_curr p) <= 1)%nat.

Lemma dispatch_job_curr p acts out j :
  w_curr p = [] -> curr_le1 (fst (fst (dispatch_job (p, acts, out) j))).
Proof.
  intros E. unfold dispatch_job, curr_le1. destruct (cast_job acts (w_aid p) j); simpl; rewrite E; simpl; lia.
Qed.

Lemma dispatch_next_curr t p acts out :
  w_curr p = [] -> curr_le1 (fst (fst (dispatch_next t (p, acts, out)))).
Proof.
  intros E. unfold dispatch_next.
  destruct (next_non_expired t (w_queue p) out) as [[[x|] q'] out'].
  - apply dispatch_job_curr. exact E.
  - unfold curr_le1. simpl. rewrite E. simpl. lia.
Qed.

Lemma shed_after_curr t x : curr_le1 (fst (fst x)) -> curr_le1 (fst (fst (shed_after t x))).
Proof.
  destruct x as [[p acts] out]. unfold shed_after. intros H.
  destruct (w_dset p) as [[limit [|]]|]; try exact H.
  destruct (shed_oldest _ t limit (w_queue p) out). exact H.
Qed.

Lemma enqueue_job_curr t p acts out j :
  curr_le1 p -> curr_le1 (fst (fst (enqueue_job t (p, acts, out) j))).
Proof.
  intros H. unfold enqueue_job.
  match goal with |- context [if ?b then _ else _] => destruct b end; [exact H|].
  apply shed_after_curr.
  destruct (w_curr p) as [|k ks] eqn:E.
  - destruct (next_non_expired t (w_queue p) (accept_ev j out)) as [[[o|] q'] out'];
      apply dispatch_job_curr; exact E.
  - unfold curr_le1 in *. simpl. rewrite E in *. exact H.
Qed.

Lemma removeN_single k l : (length l <= 1)%nat -> memN k l = true -> removeN k l = [].
Proof.
  destruct l as [|x [|y l]]; simpl; intros L M; try discriminate; [|lia].
  rewrite orb_false_r in M. rewrite M. reflexivity.
Qed.

Lemma worker_complete_curr t p acts out k :
  curr_le1 p -> curr_le1 (fst (fst (worker_complete t (p, acts, out) k))).
Proof.
  intros H. unfold worker_complete. destruct (memN k (w_curr p)) eqn:M; [|exact H].
  apply dispatch_next_curr. simpl. apply removeN_single; assumption.
Qed.

Lemma replace_worker_curr t p acts out a :
  curr_le1 p -> curr_le1 (fst (fst (replace_worker t (p, acts, out) a))).
Proof. intros _. unfold replace_worker. apply dispatch_next_curr. reflexivity. Qed.

(* in every reachable state, for every history (stale completions included), the factory
   records at most one running job per worker *)
Theorem one_at_a_time_factory_side : forall c n d rls ls wid p,
  lookup wid (pool (run c (init c n d rls) ls)) = Some p -> (length (w_curr p) <= 1)%nat.
Proof.
  intros c n d rls ls wid p L.
  pose proof (pool_invariant curr_le1) as PIv.
  assert (H : PI curr_le1 (run c (init c n d rls) ls)).
  { apply PIv.
    - intros. unfold curr_le1. simpl. lia.
    - intros b q Hq. exact Hq.
    - intros dd q Hq. exact Hq.
    - intros q Hq. exact Hq.
    - intros. apply enqueue_job_curr. assumption.
    - intros. apply worker_complete_curr. assumption.
    - intros. apply replace_worker_curr. assumption. }
  exact (Forall_lookup curr_le1 wid _ p H L).
Qed.

(* actor side: by construction a worker actor executes at most one job (a_run is an option);
   what is worth stating is that it only ever takes a job while its slot is empty *)
Theorem one_at_a_time_actor_side : forall a w x,
  lookup a (actors w) = Some x -> a_run x <> None -> w_start a w = w.
Proof.
  intros a w x L R. unfold w_start. rewrite L.
  destruct (a_alive x); [|reflexivity]. destruct (a_run x); [reflexivity|contradiction].
Qed.
