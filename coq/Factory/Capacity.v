(* Model of the capacity controls of ractor's factory (C15):
     factoryimpl.rs  dispatch / maybe_enqueue / try_route_next_active_job / worker_finished_job /
                     grow_pool / shrink_pool / resize_pool / is_drained / drain_requests /
                     post_start / post_stop / handle_supervisor_evt / the three query replies
     worker.rs       WorkerProperties::enqueue_job / worker_complete / replace_worker / is_available
     queues.rs       DefaultQueue and PriorityQueue (5 levels) as one arrival-ordered list
     routing.rs      QueuerRouting, RoundRobinRouting, CustomRouting (+ RateLimitedRouter around them)
     discard.rs      limit + mode; lifecycle.rs hook calls.
   Self-contained (shares nothing with the C13/C14 models).  What the factory actor processes is a
   label (`fop`); the model handles each label to completion, which is what the real system does
   between two quiescence barriers of the deterministic engine.  Not modelled: TTL expiry, the
   periodic Calculate / DoPings timers (scenarios stay below the first 100 ms tick), dead man's
   switch, dynamic discard controller, stale completions and sends to an actor that is already
   stopping (C13/C14 territory).  Definitions only; proofs are in CapacityProofs.v. *)
From Coq Require Import List NArith Bool.
From RV Require Import Ratelim.Model.
Import ListNotations.
Local Open Scope N_scope.

(* ---------- data ---------- *)

Record job := mkJob {
  jid : N;         (* unique id (the harness packs all four fields into the u64 job key) *)
  jrk : N;         (* what the custom hasher returns for this key *)
  jprio : N;       (* priority index handed to StandardPriority::from *)
  jdisc : bool     (* PriorityManager::is_discardable *)
}.

Inductive reason := Loadshed | Shutdown | RateLimited | TtlExpired.
Inductive hook := HStarted | HDraining | HStopped.
Inductive rkind := RQueuer | RRoundRobin | RCustom | RKeyPersistent | RSticky.
Inductive qkind := QDefault | QPrio.
Inductive dmode := Newest | Oldest.
Inductive dstate := NotDraining | Draining | Drained.

Record fcfg := mkFcfg {
  c_router : rkind;
  c_queue : qkind;
  c_discard : option (N * dmode);          (* DiscardSettings::Static { limit, mode } *)
  c_rate : option (cfg * option N);        (* RateLimitedRouter with a leaky bucket: config, initial *)
  c_n0 : N;                                (* num_initial_workers *)
  c_hash : list (N * list N);              (* hash_with_max(key, n) for n = 1, 2, ... per job key: the
                                              hash is data of the scenario (KeyPersistentRouting) *)
  c_scripts : list N * list N              (* what the WorkerCapacityController returns on successive
                                              Calculate ticks, and what the DynamicDiscardController
                                              returns on successive DoPings (a non-empty second list
                                              means the initial settings are DiscardSettings::Dynamic);
                                              an exhausted script returns the current value *)
}.

(* what can be observed *)
Inductive ev :=
| EAccept (id : N)                 (* the job's `accepted` port answered None *)
| EReject (id : N)                 (* ... answered Some(job) *)
| EDropped (id : N)                (* never answered: the factory was gone / stopped before handling it *)
| EDiscard (id : N) (r : reason)   (* DiscardHandler::discard *)
| EStart (id w inc : N)            (* worker slot w, incarnation inc, begins handling the job *)
| EEnd (id : N)                    (* the handler returned Ok *)
| ELost (id : N)                   (* the worker running the job was killed / failed *)
| EHook (h : hook)
| EQuery (depth avail active : option N) (live : list N)
| EStopped                         (* the factory actor has terminated *)
| EPanic.                          (* RouteResult::Backlog for a targeted worker: the code panics *)

Record worker := mkW {
  w_id : N;
  w_cur : option job;    (* curr_jobs (at most one job is ever dispatched to the actor) *)
  w_q : list job;        (* message_queue *)
  w_drain : bool;        (* is_draining *)
  w_inc : N;             (* how many actors have been built for this slot *)
  w_alive : bool         (* the slot's actor still accepts messages (false: it is stopping and the
                            factory has not yet handled its supervision event) *)
}.

Record rstate := mkR {
  r_avail : list N;      (* QueuerRouting::available_workers *)
  r_inq : list N;        (* indices whose worker_in_queue flag is set *)
  r_last : N             (* RoundRobinRouting::last_worker *)
}.

Record fstate := mkF {
  f_pool : list worker;
  f_size : N;                (* pool_size *)
  f_q : list job;            (* the factory queue in arrival order *)
  f_rs : rstate;
  f_bucket : option bucket;
  f_drain : dstate;
  f_stopped : bool;
  f_now : N;                 (* virtual clock, ns *)
  f_builds : list (N * N);   (* per slot: number of workers built so far *)
  f_discard : option (N * dmode);  (* discard_settings now in force (UpdateSettings can change them);
                                      the workers' copies are replaced together with it *)
  f_scripts : list N * list N   (* what is left of the two controller scripts *)
}.

(* ---------- small helpers ---------- *)

Definition len {A} (l : list A) : N := N.of_nat (length l).

Definition w_available (w : worker) : bool :=
  match w_cur w, w_q w with None, [] => true | _, _ => false end.
Definition w_working (w : worker) : bool := negb (w_available w).

Fixpoint find_w (p : list worker) (i : N) : option worker :=
  match p with
  | [] => None
  | w :: r => if w_id w =? i then Some w else find_w r i
  end.

Fixpoint upd_w (p : list worker) (x : worker) : list worker :=
  match p with
  | [] => []
  | w :: r => if w_id w =? w_id x then x :: r else w :: upd_w r x
  end.

(* HashMap::remove: the pool is a map, slot ids are unique *)
Definition remove_w (p : list worker) (i : N) : list worker :=
  filter (fun w => negb (w_id w =? i)) p.

Fixpoint mem (i : N) (l : list N) : bool :=
  match l with [] => false | x :: r => (x =? i) || mem i r end.

Fixpoint remove_n (i : N) (l : list N) : list N :=
  match l with [] => [] | x :: r => if x =? i then remove_n i r else x :: remove_n i r end.

Fixpoint assoc (i : N) (l : list (N * N)) : N :=
  match l with [] => 0 | (k, v) :: r => if k =? i then v else assoc i r end.

Fixpoint set_assoc (i v : N) (l : list (N * N)) : list (N * N) :=
  match l with
  | [] => [(i, v)]
  | (k, x) :: r => if k =? i then (k, v) :: r else (k, x) :: set_assoc i v r
  end.

Definition factory_queueing (c : fcfg) : bool :=
  match c_router c with RQueuer | RSticky => true | _ => false end.

(* the job key as the routers see it: everything but the id (the harness carries the id in the
   message, the key is (rk, prio, disc) packed) *)
Definition pk (j : job) : N := jrk j * 65536 + jprio j * 256 + (if jdisc j then 1 else 0).
Definition same_key (a b : job) : bool := pk a =? pk b.

Fixpoint assoc_l (i : N) (l : list (N * list N)) : list N :=
  match l with [] => [] | (k, v) :: r => if k =? i then v else assoc_l i r end.
(* hash_with_max(key, n) *)
Definition kp_hash (c : fcfg) (j : job) (n : N) : N :=
  nth (N.to_nat (n - 1)) (assoc_l (pk j) (c_hash c)) 0.

(* the workers' copy of the discard settings *)
Definition wsettings (c : fcfg) : option (N * dmode) :=
  if factory_queueing c then None else c_discard c.

(* ---------- the queue: DefaultQueue / PriorityQueue<_, _, StandardPriority, _, 5> ---------- *)

Definition prio_idx (j : job) : N := if jprio j <=? 4 then jprio j else 3.
Definition eff_prio (k : qkind) (j : job) : N :=
  match k with QDefault => 0 | QPrio => prio_idx j end.
Definition discardable (c : fcfg) (j : job) : bool :=
  match c_queue c with QDefault => true | QPrio => jdisc j end.

Fixpoint remove_first (p : job -> bool) (q : list job) : option (job * list job) :=
  match q with
  | [] => None
  | j :: r => if p j then Some (j, r)
              else match remove_first p r with
                   | Some (x, r') => Some (x, j :: r')
                   | None => None
                   end
  end.

Fixpoint min_prio (k : qkind) (q : list job) : option N :=
  match q with
  | [] => None
  | j :: r => match min_prio k r with
              | None => Some (eff_prio k j)
              | Some m => Some (N.min (eff_prio k j) m)
              end
  end.

Fixpoint max_prio (k : qkind) (q : list job) : option N :=
  match q with
  | [] => None
  | j :: r => match max_prio k r with
              | None => Some (eff_prio k j)
              | Some m => Some (N.max (eff_prio k j) m)
              end
  end.

(* Queue::pop_front: head of the highest non-empty priority *)
Definition pop_front (k : qkind) (q : list job) : option (job * list job) :=
  match min_prio k q with
  | None => None
  | Some m => remove_first (fun j => eff_prio k j =? m) q
  end.

(* Queue::discard_oldest: head of the lowest non-empty priority *)
Definition discard_oldest (k : qkind) (q : list job) : option (job * list job) :=
  match max_prio k q with
  | None => None
  | Some m => remove_first (fun j => eff_prio k j =? m) q
  end.

(* ---------- WorkerProperties ---------- *)

(* dispatch_job: the cast to the worker actor succeeds; the actor starts handling the job *)
Definition dispatch_job (w : worker) (j : job) : worker * list ev :=
  if w_alive w then
    (mkW (w_id w) (Some j) (w_q w) (w_drain w) (w_inc w) true, [EStart (jid j) (w_id w) (w_inc w)])
  else
    (* the cast fails (SendErr): the job goes back to the front of the queue *)
    (mkW (w_id w) (w_cur w) (j :: w_q w) (w_drain w) (w_inc w) false, []).

Definition set_q (w : worker) (q : list job) : worker :=
  mkW (w_id w) (w_cur w) q (w_drain w) (w_inc w) (w_alive w).
Definition set_cur (w : worker) (c : option job) : worker :=
  mkW (w_id w) c (w_q w) (w_drain w) (w_inc w) (w_alive w).
Definition set_drain (w : worker) (d : bool) : worker :=
  mkW (w_id w) (w_cur w) (w_q w) d (w_inc w) (w_alive w).
Definition set_alive (w : worker) (a : bool) : worker :=
  mkW (w_id w) (w_cur w) (w_q w) (w_drain w) (w_inc w) a.

Definition shed_events (l : list job) : list ev := map (fun j => EDiscard (jid j) Loadshed) l.

(* enqueue_job (with fix acf308c: no early return, the Oldest shedding runs after both branches) *)
Definition enqueue_job (c : fcfg) (w : worker) (j : job) : worker * list ev :=
  let shed_new :=
    match wsettings c with
    | Some (l, Newest) => negb (w_available w) && (l <=? len (w_q w))
    | _ => false
    end in
  if shed_new then (w, [EDiscard (jid j) Loadshed; EReject (jid j)])
  else
    let (w1, e1) :=
      match w_cur w with
      | None =>
        match w_q w with
        | older :: rest => dispatch_job (set_q w (rest ++ [j])) older
        | [] => dispatch_job w j
        end
      | Some _ => (set_q w (w_q w ++ [j]), [])
      end in
    match wsettings c with
    | Some (l, Oldest) =>
      let n := (length (w_q w1) - N.to_nat l)%nat in
      (set_q w1 (skipn n (w_q w1)), EAccept (jid j) :: e1 ++ shed_events (firstn n (w_q w1)))
    | _ => (w1, EAccept (jid j) :: e1)
    end.

(* worker_complete for the key of the job in curr_jobs: next queued job is dispatched *)
Definition worker_complete (w : worker) : worker * list ev :=
  match w_q w with
  | j :: r => dispatch_job (set_q (set_cur w None) r) j
  | [] => (set_cur w None, [])
  end.

(* ---------- routers ---------- *)

Definition avail_in (p : list worker) (i : N) : bool :=
  match find_w p i with Some w => w_available w | None => false end.
Definition in_pool (p : list worker) (i : N) : bool :=
  match find_w p i with Some _ => true | None => false end.

(* pop the available-workers deque, skipping stale entries *)
Fixpoint pop_avail (p : list worker) (av inq : list N) : option N * list N * list N :=
  match av with
  | [] => (None, [], inq)
  | i :: r => let inq' := remove_n i inq in
              if avail_in p i then (Some i, r, inq') else pop_avail p r inq'
  end.

Definition hint_avail (p : list worker) (hint : option N) : bool :=
  match hint with Some h => avail_in p h | None => false end.

(* is_processing_key / has_pending_key *)
Definition processing (w : worker) (j : job) : bool :=
  match w_cur w with Some x => same_key x j | None => false end.
Definition has_pending (w : worker) (j : job) : bool :=
  processing w j || existsb (fun x => same_key x j) (w_q w).

(* Router::choose_target_worker *)
Definition choose (c : fcfg) (rs : rstate) (j : job) (size : N) (hint : option N)
                  (p : list worker) : rstate * option N :=
  match c_router c with
  | RQueuer =>
    if hint_avail p hint then (rs, hint)
    else let '(r, av, inq) := pop_avail p (r_avail rs) (r_inq rs) in (mkR av inq (r_last rs), r)
  | RRoundRobin =>
    if size =? 0 then (rs, None)
    else if hint_avail p hint then (rs, hint)
    else let key := if size <=? r_last rs + 1 then 0 else r_last rs + 1 in
         (mkR (r_avail rs) (r_inq rs) key, if in_pool p key then Some key else None)
  | RCustom =>
    if size =? 0 then (rs, None)
    else let key := jrk j mod size in (rs, if in_pool p key then Some key else None)
  | RKeyPersistent =>
    match find (fun w => has_pending w j) p with
    | Some w => (rs, Some (w_id w))
    | None =>
      match (match hint with Some h => if in_pool p h then Some h else None | None => None end) with
      | Some h => (rs, Some h)
      | None => if size =? 0 then (rs, None)
                else let key := kp_hash c j size in (rs, if in_pool p key then Some key else None)
      end
    end
  | RSticky =>
    if (match hint with
        | Some h => match find_w p h with Some w => processing w j | None => false end
        | None => false end) then (rs, hint)
    else match find (fun w => processing w j) p with
         | Some w => (rs, Some (w_id w))
         | None =>
           if hint_avail p hint then (rs, hint)
           else let '(r, av, inq) := pop_avail p (r_avail rs) (r_inq rs) in (mkR av inq (r_last rs), r)
         end
  end.

(* Router::on_worker_availability_change *)
Definition on_change (c : fcfg) (rs : rstate) (i : N) (available : bool) : rstate :=
  match c_router c with
  | RQueuer | RSticky =>
    if available then
      if mem i (r_inq rs) then rs else mkR (r_avail rs ++ [i]) (i :: r_inq rs) (r_last rs)
    else mkR (r_avail rs) (remove_n i (r_inq rs)) (r_last rs)
  | _ => rs
  end.

Inductive rresult := Handled | Backlog | Limited.

Definition set_pool (s : fstate) (p : list worker) : fstate :=
  mkF p (f_size s) (f_q s) (f_rs s) (f_bucket s) (f_drain s) (f_stopped s) (f_now s) (f_builds s) (f_discard s) (f_scripts s).
Definition set_rs (s : fstate) (r : rstate) : fstate :=
  mkF (f_pool s) (f_size s) (f_q s) r (f_bucket s) (f_drain s) (f_stopped s) (f_now s) (f_builds s) (f_discard s) (f_scripts s).
Definition set_fq (s : fstate) (q : list job) : fstate :=
  mkF (f_pool s) (f_size s) q (f_rs s) (f_bucket s) (f_drain s) (f_stopped s) (f_now s) (f_builds s) (f_discard s) (f_scripts s).
Definition set_bucket (s : fstate) (b : option bucket) : fstate :=
  mkF (f_pool s) (f_size s) (f_q s) (f_rs s) b (f_drain s) (f_stopped s) (f_now s) (f_builds s) (f_discard s) (f_scripts s).
Definition set_size (s : fstate) (n : N) : fstate :=
  mkF (f_pool s) n (f_q s) (f_rs s) (f_bucket s) (f_drain s) (f_stopped s) (f_now s) (f_builds s) (f_discard s) (f_scripts s).
Definition set_dstate (s : fstate) (d : dstate) : fstate :=
  mkF (f_pool s) (f_size s) (f_q s) (f_rs s) (f_bucket s) d (f_stopped s) (f_now s) (f_builds s) (f_discard s) (f_scripts s).
Definition set_now (s : fstate) (t : N) : fstate :=
  mkF (f_pool s) (f_size s) (f_q s) (f_rs s) (f_bucket s) (f_drain s) (f_stopped s) t (f_builds s) (f_discard s) (f_scripts s).
Definition set_builds (s : fstate) (b : list (N * N)) : fstate :=
  mkF (f_pool s) (f_size s) (f_q s) (f_rs s) (f_bucket s) (f_drain s) (f_stopped s) (f_now s) b (f_discard s) (f_scripts s).
Definition set_discard (s : fstate) (d : option (N * dmode)) : fstate :=
  mkF (f_pool s) (f_size s) (f_q s) (f_rs s) (f_bucket s) (f_drain s) (f_stopped s) (f_now s) (f_builds s) d (f_scripts s).
Definition set_scripts (s : fstate) (x : list N * list N) : fstate :=
  mkF (f_pool s) (f_size s) (f_q s) (f_rs s) (f_bucket s) (f_drain s) (f_stopped s) (f_now s) (f_builds s) (f_discard s) x.

(* the inner router's route_message *)
Definition route_inner (c : fcfg) (s : fstate) (j : job) (hint : option N) : fstate * rresult * list ev :=
  let (rs', tgt) := choose c (f_rs s) j (f_size s) hint (f_pool s) in
  let s1 := set_rs s rs' in
  match tgt with
  | Some i =>
    match find_w (f_pool s1) i with
    | Some w => let (w', e) := enqueue_job c w j in (set_pool s1 (upd_w (f_pool s1) w'), Handled, e)
    | None => (s1, Backlog, [])
    end
  | None => (s1, Backlog, [])
  end.

(* RateLimitedRouter::route_message (or the bare router when no limiter is configured) *)
Definition route (c : fcfg) (s : fstate) (j : job) (hint : option N) : fstate * rresult * list ev :=
  match c_rate c, f_bucket s with
  | Some (rc, _), Some b =>
    let (b', ok) := check rc b (f_now s) in
    let s1 := set_bucket s (Some b') in
    if ok then
      let '(s2, r, e) := route_inner c s1 j hint in
      match r with
      | Handled => (set_bucket s2 (option_map bump (f_bucket s2)), Handled, e)
      | _ => (s2, r, e)
      end
    else
      let s2 := match hint with
                | Some h => if avail_in (f_pool s1) h then set_rs s1 (on_change c (f_rs s1) h true) else s1
                | None => s1
                end in
      (s2, Limited, [])
  | _, _ => route_inner c s j hint
  end.

(* ---------- FactoryState ---------- *)

(* Oldest mode: discard_oldest until the queue is within the limit *)
Fixpoint shed_fq (k : qkind) (l : N) (fuel : nat) (q : list job) : list job * list ev :=
  match fuel with
  | O => (q, [])
  | S f =>
    if l <? len q then
      match discard_oldest k q with
      | Some (x, q') => let (q'', e) := shed_fq k l f q' in (q'', EDiscard (jid x) Loadshed :: e)
      | None => (q, [])
      end
    else (q, [])
  end.

Definition maybe_enqueue (c : fcfg) (q : list job) (j : job) : list job * list ev :=
  match c_discard c with
  | Some (l, Newest) =>
    if discardable c j && (l <=? len q) then (q, [EDiscard (jid j) Loadshed; EReject (jid j)])
    else (q ++ [j], [EAccept (jid j)])
  | Some (l, Oldest) =>
    let q1 := q ++ [j] in
    let (q2, e) := shed_fq (c_queue c) l (length q1) q1 in (q2, EAccept (jid j) :: e)
  | None => (q ++ [j], [EAccept (jid j)])
  end.

(* a job taken from the factory queue has already been answered (`accepted` port consumed):
   the accept()/reject() calls on its way to a worker are silent *)
Definition answered (id : N) (e : ev) : bool :=
  match e with EAccept i => negb (i =? id) | EReject i => negb (i =? id) | _ => true end.

(* try_route_next_active_job; EPanic = the Backlog panic *)
Fixpoint try_route (c : fcfg) (fuel : nat) (s : fstate) (hint : option N) : fstate * list ev :=
  match fuel with
  | O => (s, [])
  | S f =>
    match pop_front (c_queue c) (f_q s) with
    | None => (s, [])
    | Some (j, q') =>
      let (rs', tgt) := choose c (f_rs s) j (f_size s) hint (f_pool s) in
      let s1 := set_rs s rs' in
      match tgt with
      | None => (s1, [])
      | Some i =>
        let '(s2, r, e0) := route c (set_fq s1 q') j (Some i) in
        let e := filter (answered (jid j)) e0 in
        match r with
        | Handled => (s2, e)
        | Limited => let (s3, e') := try_route c f s2 hint in
                     (s3, e ++ EDiscard (jid j) RateLimited :: e')
        | Backlog => (s2, e ++ [EPanic])
        end
      end
    end
  end.

Definition try_route_next (c : fcfg) (s : fstate) (hint : option N) : fstate * list ev :=
  try_route c (S (length (f_q s))) s hint.

Definition mark_available (c : fcfg) (s : fstate) (i : N) : fstate :=
  if avail_in (f_pool s) i then set_rs s (on_change c (f_rs s) i true) else s.

(* FactoryState::dispatch *)
Definition dispatch (c : fcfg) (s : fstate) (j : job) : fstate * list ev :=
  match f_drain s with
  | NotDraining =>
    let '(s1, r, e) := route c s j None in
    match r with
    | Handled => (s1, e)
    | Limited => (s1, e ++ [EDiscard (jid j) RateLimited; EReject (jid j)])
    | Backlog => let (q', e') := maybe_enqueue c (f_q s1) j in (set_fq s1 q', e ++ e')
    end
  | _ => (s, [EDiscard (jid j) Shutdown; EReject (jid j)])
  end.

(* worker_finished_job(who, key of the job in curr_jobs) *)
Definition worker_finished (c : fcfg) (s : fstate) (i : N) : fstate * list ev :=
  match find_w (f_pool s) i with
  | None => (s, [])
  | Some w =>
    let (w', e) := worker_complete w in
    let s1 := set_pool s (upd_w (f_pool s) w') in
    if w_drain w' then
      if w_working w' then (s1, e) else (set_pool s1 (remove_w (f_pool s1) i), e)
    else
      let (s2, e') := try_route_next c s1 (Some i) in
      (mark_available c s2 i, e ++ e')
  end.

(* a new worker actor for slot i *)
Definition build (s : fstate) (i : N) : fstate * N :=
  let n := assoc i (f_builds s) + 1 in (set_builds s (set_assoc i n (f_builds s)), n).

(* handle_supervisor_evt for the worker of slot i: retire (F7) or replace_worker, re-dispatch, re-route *)
Definition worker_died (c : fcfg) (s : fstate) (i : N) : fstate * list ev :=
  match find_w (f_pool s) i with
  | None => (s, [])
  | Some w =>
    let lost := match w_cur w with Some j => [ELost (jid j)] | None => [] end in
    (* retire_dead_draining_worker (fix F7): a draining slot with nothing queued is retired *)
    if w_drain w && (match w_q w with [] => true | _ => false end) then
      (set_pool (set_rs s (on_change c (f_rs s) i false)) (remove_w (f_pool s) i), lost)
    else
    let (s0, inc) := build s i in
    let w0 := mkW (w_id w) None (w_q w) (w_drain w) inc true in
    let (w1, e) := match w_q w0 with
                   | j :: r => dispatch_job (set_q w0 r) j
                   | [] => (w0, [])
                   end in
    let s1 := set_pool s0 (upd_w (f_pool s0) w1) in
    let (s2, e') := try_route_next c s1 (Some i) in
    (mark_available c s2 i, lost ++ e ++ e')
  end.

(* grow_pool *)
Fixpoint grow (c : fcfg) (s : fstate) (from : N) (count : nat) : fstate :=
  match count with
  | O => s
  | S k =>
    let s' :=
      match find_w (f_pool s) from with
      | Some w =>
        let s1 := set_pool s (upd_w (f_pool s) (set_drain w false)) in
        mark_available c s1 from
      | None =>
        let (s0, inc) := build s from in
        let s1 := set_pool s0 (f_pool s0 ++ [mkW from None [] false inc true]) in
        set_rs s1 (on_change c (f_rs s1) from true)
      end in
    grow c s' (from + 1) k
  end.

(* shrink_pool *)
Fixpoint shrink (c : fcfg) (s : fstate) (from : N) (count : nat) : fstate :=
  match count with
  | O => s
  | S k =>
    let s' :=
      match find_w (f_pool s) from with
      | Some w =>
        if w_working w then set_pool s (upd_w (f_pool s) (set_drain w true))
        else set_pool (set_rs s (on_change c (f_rs s) from false)) (remove_w (f_pool s) from)
      | None => s
      end in
    shrink c s' (from + 1) k
  end.

Fixpoint route_queued (c : fcfg) (s : fstate) (times : nat) : fstate * list ev :=
  match times with
  | O => (s, [])
  | S k =>
    match f_q s with
    | [] => (s, [])
    | _ => let (s1, e) := try_route_next c s None in
           let (s2, e') := route_queued c s1 k in (s2, e ++ e')
    end
  end.

(* grow branch for worker-queueing routers (fix aa3c2d4): hand the whole backlog over, in
   order, until the queue is empty or nothing more can be routed *)
Fixpoint route_backlog (c : fcfg) (s : fstate) (fuel : nat) : fstate * list ev :=
  match fuel with
  | O => (s, [])
  | S k =>
    match f_q s with
    | [] => (s, [])
    | _ => let (s1, e) := try_route_next c s None in
           if len (f_q s) <=? len (f_q s1) then (s1, e)
           else let (s2, e') := route_backlog c s1 k in (s2, e ++ e')
    end
  end.

Definition pool_max : N := 1000000.

(* resize_pool *)
Definition resize (c : fcfg) (s : fstate) (requested : N) : fstate * list ev :=
  if requested =? 0 then (s, [])
  else
    let cur := f_size s in
    let n := N.min pool_max requested in
    if cur <? n then
      let s1 := set_size (grow c s cur (N.to_nat (n - cur))) n in
      if factory_queueing c then route_queued c s1 (N.to_nat n)
      else route_backlog c s1 (length (f_q s1))
    else if n <? cur then (set_size (shrink c s n (N.to_nat (cur - n))) n, [])
    else (s, [])
  .

(* is_drained + the stop that follows it; post_stop: Shutdown discards for what is still queued,
   workers stopped, stopped hook *)
Definition all_available (p : list worker) : bool := forallb w_available p.

Definition stop_factory (s : fstate) : fstate * list ev :=
  (mkF [] (f_size s) [] (f_rs s) (f_bucket s) (f_drain s) true (f_now s) (f_builds s) (f_discard s) (f_scripts s),
   map (fun j => EDiscard (jid j) Shutdown) (f_q s ++ flat_map w_q (f_pool s))
   ++ [EHook HStopped; EStopped]).

Definition after_message (s : fstate) : fstate * list ev :=
  match f_drain s with
  | Draining =>
    if all_available (f_pool s) && (len (f_q s) =? 0) then stop_factory (set_dstate s Drained)
    else (s, [])
  | Drained => stop_factory s
  | NotDraining => (s, [])
  end.

(* the three query messages *)
Definition sat_sub (a b : N) : N := a - b.

Definition q_avail (c : fcfg) (s : fstate) : N :=
  let free := len (filter (fun w => negb (w_drain w) && w_available w) (f_pool s)) in
  match c_discard c with
  | Some (l, _) =>
    let qc := if factory_queueing c then sat_sub l (len (f_q s))
              else fold_left (fun a w => a + sat_sub l (len (w_q w)))
                             (filter (fun w => negb (w_drain w)) (f_pool s)) 0 in
    free + qc
  | None => free
  end.

Definition q_active (s : fstate) : N := len (filter w_working (f_pool s)).

Fixpoint insert_sorted (x : N) (l : list N) : list N :=
  match l with [] => [x] | y :: r => if x <=? y then x :: l else y :: insert_sorted x r end.
Definition sort_n (l : list N) : list N := fold_right insert_sorted [] l.
Definition live (s : fstate) : list N := sort_n (map w_id (filter w_alive (f_pool s))).

(* ---------- labels ---------- *)

Inductive fop :=
| FDispatch (j : job)
| FFinishW (w : N)      (* the job running on slot w completes; Finished(w, key) is processed *)
| FFinishAll            (* every job running now completes; Finished messages in slot order *)
| FFailW (w : N)        (* the handler of the job running on slot w returns Err *)
| FKill (w : N)         (* the actor of slot w is killed *)
| FResize (n : N)       (* AdjustWorkerPool(n) *)
| FDrain                (* DrainRequests *)
| FAdv (dt : N)         (* the virtual clock advances *)
| FSettle               (* quiescence barrier (costs settle_ns of virtual time) *)
| FQuery                (* GetQueueDepth, GetAvailableCapacity, GetNumActiveWorkers + live workers *)
| FStopW (w : N)        (* user code stops the idle actor of slot w; its post_stop is slow *)
| FOpenStop (w : N)     (* that actor finishes stopping: the factory gets the supervision event *)
| FUpdate (d : option (N * dmode))    (* UpdateSettings { discard_settings: None | Static/Dynamic { limit, mode } } *)
| FNudge                (* any other message that changes nothing the model carries (UpdateSettings of the
                           lifecycle hooks, ...): only the is_drained check that follows every message *)
| FTick.                (* the virtual clock jumps over the next DoPings deadline (10 s): the factory
                           processes one Calculate (capacity controller -> resize_pool) and one DoPings
                           (dynamic discard controller -> new limit; workers are pinged) *)

(* a message handled by the running factory, followed by the is_drained check *)
Definition with_after (r : fstate * list ev) : fstate * list ev :=
  let (s, e) := r in
  let (s', e') := after_message s in (s', e ++ e').

Definition settle_ns : N := 1000000.

(* the job slot i is running completes (if it is running one) *)
Definition finish_w (c : fcfg) (s : fstate) (i : N) (only : option N) : fstate * list ev :=
  if f_stopped s then (s, [])
  else match find_w (f_pool s) i with
       | Some w =>
         match w_cur w with
         | Some j =>
           if match only with Some id => jid j =? id | None => true end then
             let (s', e) := with_after (worker_finished c s i) in (s', EEnd (jid j) :: e)
           else (s, [])
         | None => (s, [])
         end
       | None => (s, [])
       end.

(* the (slot, job) pairs running at this moment, in slot order *)
Definition busy_snapshot (s : fstate) : list (N * N) :=
  flat_map (fun i => match find_w (f_pool s) i with
                     | Some w => match w_cur w with Some j => [(i, jid j)] | None => [] end
                     | None => []
                     end) (live s).

Fixpoint finish_list (c : fcfg) (s : fstate) (l : list (N * N)) : fstate * list ev :=
  match l with
  | [] => (s, [])
  | (i, id) :: r => let (s1, e) := finish_w c s i (Some id) in
                    let (s2, e') := finish_list c s1 r in (s2, e ++ e')
  end.

Definition tick_ns : N := 10005000000.

(* FactoryMessage::Calculate: the capacity controller may ask for another pool size *)
Definition tick_calc (c : fcfg) (s : fstate) : fstate * list ev :=
  match fst (f_scripts s) with
  | n :: rest =>
    let s' := set_scripts s (rest, snd (f_scripts s)) in
    if n =? f_size s' then (s', []) else resize c s' n
  | [] => (s, [])
  end.

(* FactoryMessage::DoPings: a Dynamic limit is recomputed (mode kept); the workers are pinged, and
   their pongs refresh their copy of the limit *)
Definition tick_ping (s : fstate) : fstate * list ev :=
  match snd (f_scripts s), f_discard s with
  | l :: rest, Some (_, m) => (set_discard (set_scripts s (fst (f_scripts s), rest)) (Some (l, m)), [])
  | _, _ => (s, [])
  end.

(* one label, under the discard settings `c_discard c` *)
Definition step0 (c : fcfg) (s : fstate) (o : fop) : fstate * list ev :=
  match o with
  | FNudge => if f_stopped s then (s, []) else with_after (s, [])
  | FTick =>
    let s0 := set_now s (f_now s + tick_ns) in
    if f_stopped s then (s0, [])
    else
      let (s1, e1) := with_after (tick_calc c s0) in
      if f_stopped s1 then (s1, e1)
      else let (s2, e2) := with_after (tick_ping s1) in (s2, e1 ++ e2)
  | FUpdate d =>
    (* update_settings: the factory's settings and every existing worker's copy are replaced;
       nothing is shed at this moment (no retroactive shedding) *)
    if f_stopped s then (s, [])
    else with_after (set_discard (set_scripts s (fst (f_scripts s), [])) d, [])
  | FAdv dt => (set_now s (f_now s + dt), [])
  | FSettle => (set_now s (f_now s + settle_ns), [])
  | FDispatch j => if f_stopped s then (s, [EDropped (jid j)]) else with_after (dispatch c s j)
  | FFinishW i => finish_w c s i None
  | FFinishAll => finish_list c s (busy_snapshot s)
  | FFailW i =>
    if f_stopped s then (s, [])
    else match find_w (f_pool s) i with
         | Some w => match w_cur w with Some _ => worker_died c s i | None => (s, []) end
         | None => (s, [])
         end
  | FKill i => if f_stopped s then (s, []) else worker_died c s i
  | FResize n => if f_stopped s then (s, []) else with_after (resize c s n)
  | FDrain =>
    if f_stopped s then (s, [])
    else with_after (set_dstate s Draining, [EHook HDraining])
  | FStopW i =>
    if f_stopped s then (s, [])
    else match find_w (f_pool s) i with
         | Some w => if w_alive w && (match w_cur w with None => true | Some _ => false end)
                     then (set_pool s (upd_w (f_pool s) (set_alive w false)), []) else (s, [])
         | None => (s, [])
         end
  | FOpenStop i =>
    if f_stopped s then (s, [])
    else match find_w (f_pool s) i with
         | Some w => if w_alive w then (s, []) else worker_died c s i
         | None => (s, [])
         end
  | FQuery =>
    if f_stopped s then (s, [EQuery None None None []])
    else
      let d := Some (len (f_q s)) in
      let (s1, e1) := after_message s in
      if f_stopped s1 then (s1, e1 ++ [EQuery d None None []])
      else (s1, [EQuery d (Some (q_avail c s1)) (Some (q_active s1)) (live s1)])
  end.

(* The discard settings are part of the state (f_discard): a label is handled under the settings
   in force when it is processed.  The workers' copies (WorkerDiscardSettings) are not a separate
   field: update_settings replaces all of them together with the factory's, and new workers take
   the factory's current settings, so they always agree with f_discard. *)
Definition with_discard (c : fcfg) (d : option (N * dmode)) : fcfg :=
  mkFcfg (c_router c) (c_queue c) d (c_rate c) (c_n0 c) (c_hash c) (c_scripts c).
Definition cfg_now (c : fcfg) (s : fstate) : fcfg := with_discard c (f_discard s).

Definition step (c : fcfg) (s : fstate) (o : fop) : fstate * list ev := step0 (cfg_now c s) s o.

(* pre_start + post_start *)
Definition init (c : fcfg) (t0 : N) : fstate * list ev :=
  let s0 := mkF [] 0 [] (mkR [] [] 0)
                (match c_rate c with Some (rc, i) => Some (new rc i t0) | None => None end)
                NotDraining false t0 [] (c_discard c) (c_scripts c) in
  (set_size (grow c s0 0 (N.to_nat (c_n0 c))) (c_n0 c), [EHook HStarted]).

Fixpoint run_from (c : fcfg) (s : fstate) (ops : list fop) : list (list ev) :=
  match ops with
  | [] => []
  | o :: r => let (s', e) := step c s o in e :: run_from c s' r
  end.

(* what the harness prints: the events of start-up, then the events of every op *)
Definition factory_run (c : fcfg) (ops : list fop) : list (list ev) :=
  let (s, e) := init c 0 in e :: run_from c s ops.

Fixpoint state_after (c : fcfg) (s : fstate) (ops : list fop) : fstate :=
  match ops with [] => s | o :: r => state_after c (fst (step c s o)) r end.

(* ====================================================================================== *)
(* The executable oracle: C15's factory clauses evaluated on an OBSERVED trace.
   An observation is the list of settle windows: the operations issued in the window and the
   events seen before its barrier returned.  Every clause only uses what was observed (it never
   consults the model), and only demands what the property states:
     discard_once      each job is handed to the discard handler at most once
     queue_bound       after every window the discardable jobs known to be waiting (accepted, and
                       later seen starting / being discarded) number at most L -- in the factory
                       queue for factory-queueing routers, per worker slot otherwise
     shed_identity     Newest: a load-shed job was never accepted (unless a worker-queueing router
                       started with an empty pool); Oldest: it had been accepted,
                       and (factory queue, one arrival in the window) it is older / of lower
                       priority than everything still waiting
     reject_reported   a rejected job was reported once, as Shutdown after DrainRequests, else as
                       Loadshed (needs a limit) or RateLimited (needs a limiter)
     rate_window       jobs started since creation <= initial balance + refill * (t/interval + 1)
     drain_refuses     no job dispatched after DrainRequests is accepted
     drain_finishes_then_stops  the factory is not seen stopped while an accepted job has no
                       final event; once all have one and a message was processed, it has stopped
     hooks_order       started first and once; stopped last and at most once; draining between,
                       at most once per request; a stop after draining has all three
     resize_converges  when nothing is pending and the factory answers a query, the live workers
                       are exactly slots 0..n-1 for the last non-zero requested size n *)

Definition window := (list fop * list ev)%type.

Definition evs_of (ws : list window) : list ev := concat (map snd ws).
Definition ops_of (ws : list window) : list fop := concat (map fst ws).

Definition is_accept (id : N) (e : ev) : bool := match e with EAccept i => i =? id | _ => false end.
Definition is_reject (id : N) (e : ev) : bool := match e with EReject i => i =? id | _ => false end.
Definition is_start (id : N) (e : ev) : bool := match e with EStart i _ _ => i =? id | _ => false end.
Definition is_start_on (id w : N) (e : ev) : bool :=
  match e with EStart i x _ => (i =? id) && (x =? w) | _ => false end.
Definition is_discard (id : N) (e : ev) : bool := match e with EDiscard i _ => i =? id | _ => false end.
Definition is_terminal (id : N) (e : ev) : bool :=
  match e with EEnd i => i =? id | ELost i => i =? id | EDiscard i _ => i =? id | _ => false end.
Definition is_stopped (e : ev) : bool := match e with EStopped => true | _ => false end.

Definition reason_eqb (a b : reason) : bool :=
  match a, b with
  | Loadshed, Loadshed | Shutdown, Shutdown | RateLimited, RateLimited | TtlExpired, TtlExpired => true
  | _, _ => false
  end.

Definition discard_ids (evs : list ev) : list N :=
  flat_map (fun e => match e with EDiscard i _ => [i] | _ => [] end) evs.
Definition shed_ids (evs : list ev) : list N :=
  flat_map (fun e => match e with EDiscard i Loadshed => [i] | _ => [] end) evs.
Definition start_slots (evs : list ev) : list N :=
  flat_map (fun e => match e with EStart _ w _ => [w] | _ => [] end) evs.
Definition started_ids (evs : list ev) : list N :=
  flat_map (fun e => match e with EStart i _ _ => [i] | _ => [] end) evs.
Definition hooks_of (evs : list ev) : list hook :=
  flat_map (fun e => match e with EHook h => [h] | _ => [] end) evs.
Definition jobs_of (ops : list fop) : list job :=
  flat_map (fun o => match o with FDispatch j => [j] | _ => [] end) ops.

Fixpoint nodup_b (l : list N) : bool :=
  match l with [] => true | x :: r => negb (mem x r) && nodup_b r end.
Fixpoint dedup (l : list N) : list N :=
  match l with [] => [] | x :: r => if mem x r then dedup r else x :: dedup r end.

Fixpoint reason_of (id : N) (evs : list ev) : option reason :=
  match evs with
  | [] => None
  | EDiscard i r :: t => if i =? id then Some r else reason_of id t
  | _ :: t => reason_of id t
  end.

Fixpoint after_drain_ids (ops : list fop) (seen : bool) : list N :=
  match ops with
  | [] => []
  | FDrain :: r => after_drain_ids r true
  | FDispatch j :: r => if seen then jid j :: after_drain_ids r seen else after_drain_ids r seen
  | _ :: r => after_drain_ids r seen
  end.

Definition has_drain (ops : list fop) : bool :=
  existsb (fun o => match o with FDrain => true | _ => false end) ops.
Definition has_query (ops : list fop) : bool :=
  existsb (fun o => match o with FQuery => true | _ => false end) ops.
Definition count_dispatch (ops : list fop) : nat := length (jobs_of ops).

(* accepted, neither started nor discarded so far *)
Definition waiting_now (c : fcfg) (jobs : list job) (pre : list ev) : list job :=
  filter (fun j => existsb (is_accept (jid j)) pre
                   && negb (existsb (is_start (jid j)) pre)
                   && negb (existsb (is_discard (jid j)) pre)) jobs.

Definition all_terminal (jobs : list job) (pre : list ev) : bool :=
  forallb (fun j => negb (existsb (is_accept (jid j)) pre) || existsb (is_terminal (jid j)) pre) jobs.

Definition ck_discard_once (ws : list window) : bool := nodup_b (discard_ids (evs_of ws)).

(* the settings that the labels of one window install, if any: an UpdateSettings label (which also
   replaces a scripted Dynamic controller), or a tick whose DoPings recomputes a Dynamic limit
   from the script; returns the last change and what is left of the script *)
Fixpoint win_update (cur : option (N * dmode)) (dyn : list N) (ops : list fop)
                    (acc : option (option (N * dmode))) : option (option (N * dmode)) * list N :=
  match ops with
  | [] => (acc, dyn)
  | FUpdate d :: r => win_update d [] r (Some d)
  | FTick :: r =>
    match dyn, cur with
    | l :: rest, Some (_, m) => win_update (Some (l, m)) rest r (Some (Some (l, m)))
    | _, _ => win_update cur dyn r acc
    end
  | _ :: r => win_update cur dyn r acc
  end.

(* Runtime updates: `cur` = settings in force, `base` = everything observed up to the window of
   the last update.  ractor does not shed retroactively, so a lowered limit may find more than L
   jobs waiting; what the new limit governs is what arrives afterwards: among the jobs ACCEPTED
   AFTER the update at most L are ever waiting in one queue (Newest: each was accepted into a
   queue shorter than L; Oldest: the queue is cut to L at every arrival).  Windows that contain
   an update are not judged. *)
Fixpoint qb_scan (c : fcfg) (cur : option (N * dmode)) (dyn : list N) (base : list ev) (jobs : list job)
                 (slots : list N) (pre : list ev) (ws : list window) : bool :=
  match ws with
  | [] => true
  | w :: r =>
    let pre' := pre ++ snd w in
    let post := evs_of r in
    match win_update cur dyn (fst w) None with
    | (Some d, dyn') => qb_scan c d dyn' pre' jobs slots pre' r
    | (None, _) =>
      (match cur with
       | None => true
       | Some (L, _) =>
         let waiting := filter (fun j => discardable c j && negb (existsb (is_accept (jid j)) base))
                               (waiting_now c jobs pre') in
         if factory_queueing c then
           len (filter (fun j => existsb (is_start (jid j)) post || existsb (is_discard (jid j)) post) waiting) <=? L
         else if 0 <? c_n0 c then
           forallb (fun x => len (filter (fun j => existsb (is_start_on (jid j) x) post) waiting) <=? L) slots
         else true
       end)
      && qb_scan c cur dyn base jobs slots pre' r
    end
  end.

(* StickyQueuerRouting is factory-queueing, but a job whose key is being processed waits in that
   worker's own queue, to which (by design, see FactoryArguments::discard_settings) the limit does
   not apply; from outside the two kinds of waiting jobs cannot be told apart, so for this router
   the clause uses what the factory itself reports: GetQueueDepth <= L whenever every job is
   discardable (default queue), as long as no runtime update has happened *)
Fixpoint sticky_scan (c : fcfg) (cur : option (N * dmode)) (dyn : list N) (ws : list window) : bool :=
  match ws with
  | [] => true
  | w :: r =>
    match win_update cur dyn (fst w) None with
    | (Some _, _) => true
    | (None, _) =>
      forallb (fun e => match e, cur with
                        | EQuery (Some d) _ _ _, Some (L, _) =>
                          match c_queue c with QDefault => d <=? L | QPrio => true end
                        | _, _ => true
                        end) (snd w)
      && sticky_scan c cur dyn r
    end
  end.

Definition ck_queue_bound (c : fcfg) (ws : list window) : bool :=
  match c_router c with
  | RSticky => sticky_scan c (c_discard c) (snd (c_scripts c)) ws
  | _ => qb_scan c (c_discard c) (snd (c_scripts c)) [] (jobs_of (ops_of ws)) (dedup (start_slots (evs_of ws))) [] ws
  end.

Fixpoint pos_of (id : N) (jobs : list job) : N :=
  match jobs with [] => 0 | j :: r => if jid j =? id then 0 else 1 + pos_of id r end.
Fixpoint job_of (id : N) (jobs : list job) : option job :=
  match jobs with [] => None | j :: r => if jid j =? id then Some j else job_of id r end.

(* x (being shed) is of lower priority than j, or of the same priority and older *)
Definition shed_before (c : fcfg) (jobs : list job) (x j : job) : bool :=
  (eff_prio (c_queue c) j <? eff_prio (c_queue c) x)
  || ((eff_prio (c_queue c) j =? eff_prio (c_queue c) x) && (pos_of (jid x) jobs <? pos_of (jid j) jobs)).

(* which job is shed, judged window by window under the mode in force (windows containing an
   update are not judged) *)
Fixpoint si_scan (c : fcfg) (cur : option (N * dmode)) (dyn : list N) (all : list ev) (jobs : list job)
                 (pre : list ev) (ws : list window) : bool :=
  match ws with
  | [] => true
  | w :: r =>
    let pre' := pre ++ snd w in
    let post := evs_of r in
    match win_update cur dyn (fst w) None with
    | (Some d, dyn') => si_scan c d dyn' all jobs pre' r
    | (None, _) =>
      (match cur with
       | None => true
       | Some (_, Newest) =>
         (* with a worker-queueing router and an initially empty pool, accepted jobs backlogged in
            the factory queue are later moved to a worker's queue, where each is the newest
            arrival and may be shed: only then can a shed job have been accepted before *)
         if factory_queueing c || (0 <? c_n0 c)
         then forallb (fun id => negb (existsb (is_accept id) all)) (shed_ids (snd w)) else true
       | Some (_, Oldest) =>
         forallb (fun id => existsb (is_accept id) all) (shed_ids (snd w))
         && (match c_router c with
             | RQueuer =>
               if Nat.eqb (count_dispatch (fst w)) 1 then
                 let still := filter (fun j => existsb (is_start (jid j)) post || existsb (is_discard (jid j)) post)
                                     (waiting_now c jobs pre') in
                 forallb (fun id => match job_of id jobs with
                                    | Some x => forallb (shed_before c jobs x) still
                                    | None => true
                                    end) (shed_ids (snd w))
               else true
             | _ => true
             end)
       end)
      && si_scan c cur dyn all jobs pre' r
    end
  end.

Definition ck_shed_identity (c : fcfg) (ws : list window) : bool :=
  si_scan c (c_discard c) (snd (c_scripts c)) (evs_of ws) (jobs_of (ops_of ws)) [] ws.

Definition ck_reject_reported (c : fcfg) (ws : list window) : bool :=
  let evs := evs_of ws in
  let after := after_drain_ids (ops_of ws) false in
  forallb (fun j =>
    if existsb (is_reject (jid j)) evs then
      match reason_of (jid j) evs with
      | None => false
      | Some r =>
        if mem (jid j) after then reason_eqb r Shutdown
        else (reason_eqb r Loadshed
              && (match c_discard c with Some _ => true | None => false end
                  || existsb (fun o => match o with FUpdate (Some _) => true | _ => false end) (ops_of ws)))
             || (reason_eqb r RateLimited && match c_rate c with Some _ => true | None => false end)
      end
    else true) (jobs_of (ops_of ws)).

Fixpoint time_after (t : N) (ops : list fop) : N :=
  match ops with
  | [] => t
  | FAdv dt :: r => time_after (t + dt) r
  | FSettle :: r => time_after (t + settle_ns) r
  | FTick :: r => time_after (t + tick_ns) r
  | _ :: r => time_after t r
  end.

(* instant at which the last non-settle op of the window was issued *)
Fixpoint time_before_settle (t : N) (ops : list fop) : N :=
  match ops with
  | [] => t
  | FAdv dt :: r => time_before_settle (t + dt) r
  | FSettle :: r => time_before_settle t r
  | FTick :: r => time_before_settle (t + tick_ns) r
  | _ :: r => time_before_settle t r
  end.

Fixpoint rw_scan (rc : cfg) (b0 : N) (t : N) (pre : list ev) (ws : list window) : bool :=
  match ws with
  | [] => true
  | w :: r =>
    let pre' := pre ++ snd w in
    let tk := time_before_settle t (fst w) in
    (len (dedup (started_ids pre')) <=? b0 + refill rc * (tk / interval rc + 1))
    && rw_scan rc b0 (time_after t (fst w)) pre' r
  end.

Definition ck_rate_window (c : fcfg) (ws : list window) : bool :=
  match c_rate c with
  | Some (rc, init) =>
    if interval rc =? 0 then true
    else rw_scan rc (balance (new rc init 0)) 0 [] ws
  | None => true
  end.

Definition ck_drain_refuses (ws : list window) : bool :=
  let evs := evs_of ws in
  forallb (fun id => negb (existsb (is_accept id) evs)) (after_drain_ids (ops_of ws) false).

Fixpoint stop_scan (jobs : list job) (pre : list ev) (ws : list window) : bool :=
  match ws with
  | [] => true
  | w :: r =>
    let pre' := pre ++ snd w in
    (if existsb is_stopped (snd w) then all_terminal jobs pre' else true)
    && stop_scan jobs pre' r
  end.

Definition ck_drain_stops (ws : list window) : bool :=
  let jobs := jobs_of (ops_of ws) in
  stop_scan jobs [] ws
  && match rev ws with
     | [] => true
     | lastw :: before =>
       if has_drain (ops_of (rev before)) && has_query (fst lastw)
          && all_terminal jobs (evs_of (rev before))
       then existsb is_stopped (evs_of ws) else true
     end.

Definition hook_eqb (a b : hook) : bool :=
  match a, b with
  | HStarted, HStarted | HDraining, HDraining | HStopped, HStopped => true
  | _, _ => false
  end.
Definition count_hook (h : hook) (l : list hook) : nat := length (filter (hook_eqb h) l).

Definition ck_hooks (ws : list window) : bool :=
  let evs := evs_of ws in
  let hs := hooks_of evs in
  match evs with EHook HStarted :: _ => true | _ => false end
  && Nat.eqb (count_hook HStarted hs) 1
  && Nat.leb (count_hook HStopped hs) 1
  && Nat.leb (count_hook HDraining hs)
             (length (filter (fun o => match o with FDrain => true | _ => false end) (ops_of ws)))
  && match rev hs with
     | HStopped :: _ => true
     | _ => Nat.eqb (count_hook HStopped hs) 0
     end
  && (if existsb is_stopped evs
      then Nat.eqb (count_hook HStopped hs) 1 && Nat.leb 1 (count_hook HDraining hs) else true).

Fixpoint seq_n (n : nat) (from : N) : list N :=
  match n with O => [] | S k => from :: seq_n k (from + 1) end.

Fixpoint list_eqb (a b : list N) : bool :=
  match a, b with
  | [], [] => true
  | x :: r, y :: s => (x =? y) && list_eqb r s
  | _, _ => false
  end.

(* requested size after the ops that precede the first query of the window *)
Fixpoint target_until_query (n : N) (ops : list fop) : N :=
  match ops with
  | [] => n
  | FQuery :: _ => n
  | FResize k :: r => target_until_query (if k =? 0 then n else N.min pool_max k) r
  | _ :: r => target_until_query n r
  end.
Fixpoint target_after (n : N) (ops : list fop) : N :=
  match ops with
  | [] => n
  | FResize k :: r => target_after (if k =? 0 then n else N.min pool_max k) r
  | _ :: r => target_after n r
  end.

(* the same with the capacity controller's script: every tick consumes one entry (0 = no change) *)
Definition ctl_next (n : N) (scr : list N) : N * list N :=
  match scr with
  | k :: r => (if k =? 0 then n else N.min pool_max k, r)
  | [] => (n, [])
  end.
Fixpoint target_until_query_s (n : N) (scr : list N) (ops : list fop) : N :=
  match ops with
  | [] => n
  | FQuery :: _ => n
  | FResize k :: r => target_until_query_s (if k =? 0 then n else N.min pool_max k) scr r
  | FTick :: r => let (n', scr') := ctl_next n scr in target_until_query_s n' scr' r
  | _ :: r => target_until_query_s n scr r
  end.
Fixpoint target_after_s (n : N) (scr : list N) (ops : list fop) : N * list N :=
  match ops with
  | [] => (n, scr)
  | FResize k :: r => target_after_s (if k =? 0 then n else N.min pool_max k) scr r
  | FTick :: r => let (n', scr') := ctl_next n scr in target_after_s n' scr' r
  | _ :: r => target_after_s n scr r
  end.

Fixpoint rc_scan (jobs : list job) (n : N) (scr : list N) (pre : list ev) (ws : list window) : bool :=
  match ws with
  | [] => true
  | w :: r =>
    let pre' := pre ++ snd w in
    let n1 := target_until_query_s n scr (fst w) in
    (if Nat.eqb (length (filter (fun o => match o with FQuery => true | _ => false end) (fst w))) 1
        && all_terminal jobs pre && all_terminal jobs pre'
     then forallb (fun e => match e with
                            | EQuery (Some _) (Some _) (Some _) lv => list_eqb lv (seq_n (N.to_nat n1) 0)
                            | _ => true
                            end) (snd w)
     else true)
    && (let (n', scr') := target_after_s n scr (fst w) in rc_scan jobs n' scr' pre' r)
  end.

Definition ck_resize (c : fcfg) (ws : list window) : bool :=
  rc_scan (jobs_of (ops_of ws)) (c_n0 c) (fst (c_scripts c)) [] ws.

(* a job that was accepted is never thrown away as Shutdown: after DrainRequests every previously
   accepted job finishes (the scenarios never stop the factory in any other way) *)
Definition ck_accepted_finish (ws : list window) : bool :=
  let evs := evs_of ws in
  forallb (fun e => match e with
                    | EDiscard id Shutdown => negb (existsb (is_accept id) evs)
                    | _ => true
                    end) evs.

Definition check_C15_factory_clauses (c : fcfg) (ws : list window) : list bool :=
  [ck_discard_once ws; ck_queue_bound c ws; ck_shed_identity c ws; ck_reject_reported c ws;
   ck_rate_window c ws; ck_drain_refuses ws; ck_drain_stops ws; ck_hooks ws; ck_resize c ws;
   ck_accepted_finish ws].

Definition check_C15_factory (c : fcfg) (ws : list window) : bool :=
  forallb (fun b => b) (check_C15_factory_clauses c ws).

(* the model's own run in the same shape (for the soundness statement and the examples) *)
Fixpoint windows_from (c : fcfg) (s : fstate) (cur_ops : list fop) (cur_evs : list ev)
                      (ops : list fop) : list window :=
  match ops with
  | [] => match cur_ops, cur_evs with [], [] => [] | _, _ => [(cur_ops, cur_evs)] end
  | o :: r =>
    let (s', e) := step c s o in
    match o with
    | FSettle => (cur_ops ++ [o], cur_evs ++ e) :: windows_from c s' [] [] r
    | _ => windows_from c s' (cur_ops ++ [o]) (cur_evs ++ e) r
    end
  end.

Definition model_windows (c : fcfg) (ops : list fop) : list window :=
  let (s, e) := init c 0 in windows_from c s [] e ops.
