(* C14 -- invariants of the factory's pool bookkeeping as a whole (relations BETWEEN workers),
   for every label sequence. A predicate Q on the pool that survives: flag / settings updates,
   emptying queues, removing a worker, inserting a fresh one at an unused id, any per-worker
   update that only shrinks the worker's set of pending keys, and enqueueing a job at the worker
   that choose_target selected -- holds in every reachable state.
   Instance: key-persistent routing never has one key pending at two workers (factory-side
   affinity), stale completions included. *)
From Coq Require Import List NArith Bool Lia.
From RV Require Import Factory.Model Factory.Conserve.
Import ListNotations.
Local Open Scope N_scope.

(* ------------------------------------------------------------------ pending keys of a worker *)
Definition pk (p : wprops) : list N := w_curr p ++ map j_key (w_queue p).

Lemma memN_In x l : memN x l = true <-> In x l.
Proof.
  unfold memN. rewrite existsb_exists. split.
  - intros (y & I & E). apply N.eqb_eq in E. subst. assumption.
  - intros I. exists x. split; [assumption|apply N.eqb_refl].
Qed.

Lemma has_pending_pk p k : has_pending p k = true <-> In k (pk p).
Proof.
  unfold has_pending, pk. rewrite orb_true_iff, memN_In, in_app_iff, existsb_exists, in_map_iff.
  split; intros [H|H]; auto; right.
  - destruct H as (x & I & E). apply N.eqb_eq in E. eauto.
  - destruct H as (x & E & I). exists x. split; [assumption|]. apply N.eqb_eq. assumption.
Qed.

Lemma In_removeN x k l : In x (removeN k l) -> In x l.
Proof.
  induction l as [|y l IH]; simpl; [auto|]. destruct (k =? y); simpl; intuition.
Qed.

Lemma In_addN x k l : In x (addN k l) -> x = k \/ In x l.
Proof. unfold addN. destruct (memN k l); simpl; intuition. Qed.

Lemma next_non_expired_keys t q out r q' out' :
  next_non_expired t q out = (r, q', out') ->
  incl (match r with Some x => [j_key x] | None => [] end ++ map j_key q') (map j_key q).
Proof.
  revert out r q' out'. induction q as [|x q IH]; intros out r q' out' H; simpl in H.
  - inversion H; subst. simpl. apply incl_refl.
  - destruct (expired t x).
    + apply IH in H. simpl. apply incl_tl. assumption.
    + inversion H; subst. simpl. apply incl_refl.
Qed.

Lemma dispatch_job_keys p acts out j :
  incl (pk (fst (fst (dispatch_job (p, acts, out) j)))) (j_key j :: pk p).
Proof.
  unfold dispatch_job, pk. destruct (cast_job acts (w_aid p) j); simpl; intros x I.
  - apply in_app_iff in I. destruct I as [I|I].
    + apply In_addN in I. destruct I as [->|I]; [left; reflexivity|right; apply in_or_app; auto].
    + right. apply in_or_app. auto.
  - apply in_app_iff in I. destruct I as [I|I]; [right; apply in_or_app; auto|].
    simpl in I. destruct I as [<-|I]; [left; reflexivity|right; apply in_or_app; auto].
Qed.

Lemma dispatch_next_keys t p acts out :
  incl (pk (fst (fst (dispatch_next t (p, acts, out))))) (pk p).
Proof.
  unfold dispatch_next.
  destruct (next_non_expired t (w_queue p) out) as [[[x|] q'] out'] eqn:E;
    apply next_non_expired_keys in E.
  - intros k I. apply dispatch_job_keys in I. unfold pk in *. simpl in *.
    destruct I as [<-|I].
    + apply in_or_app. right. apply E. left. reflexivity.
    + apply in_app_iff in I. apply in_or_app. destruct I as [I|I]; [auto|]. right. apply E. right. assumption.
  - unfold pk. simpl. intros k I. apply in_app_iff in I. apply in_or_app.
    destruct I as [I|I]; [auto|]. right. apply E. assumption.
Qed.

Lemma shed_oldest_keys fuel t limit q out q' out' :
  shed_oldest fuel t limit q out = (q', out') -> incl (map j_key q') (map j_key q).
Proof.
  revert q out q' out'. induction fuel as [|f IH]; intros q out q' out' H; simpl in H.
  - inversion H; subst. apply incl_refl.
  - destruct (limit <? N.of_nat (length q)); [|inversion H; subst; apply incl_refl].
    destruct (next_non_expired t q out) as [[[d|] q1] out1] eqn:E; apply next_non_expired_keys in E.
    + apply IH in H. intros k I. apply E. right. apply H. assumption.
    + inversion H; subst. intros k I. apply E. assumption.
Qed.

Lemma shed_after_keys t x : incl (pk (fst (fst (shed_after t x)))) (pk (fst (fst x))).
Proof.
  destruct x as [[p acts] out]. unfold shed_after.
  destruct (w_dset p) as [[limit [|]]|]; try apply incl_refl.
  destruct (shed_oldest _ t limit (w_queue p) out) as [q' out'] eqn:E. apply shed_oldest_keys in E.
  unfold pk. simpl. intros k I. apply in_app_iff in I. apply in_or_app. destruct I as [I|I]; [auto|right; apply E; assumption].
Qed.

Lemma enqueue_job_keys t p acts out j :
  incl (pk (fst (fst (enqueue_job t (p, acts, out) j)))) (j_key j :: pk p).
Proof.
  unfold enqueue_job.
  match goal with |- context [if ?b then _ else _] => destruct b end; [apply incl_tl, incl_refl|].
  eapply incl_tran; [apply shed_after_keys|].
  destruct (w_curr p) as [|c0 cs] eqn:EC.
  - destruct (next_non_expired t (w_queue p) (accept_ev j out)) as [[[o|] q'] out'] eqn:E;
      apply next_non_expired_keys in E; intros k I; apply dispatch_job_keys in I;
      unfold pk in *; simpl in *; rewrite EC in *; simpl in *.
    + destruct I as [<-|I]; [right; apply E; left; reflexivity|].
      rewrite map_app in I. apply in_app_iff in I. destruct I as [I|I].
      * right. apply E. right. assumption.
      * simpl in I. destruct I as [<-|[]]. left. reflexivity.
    + destruct I as [<-|I]; [left; reflexivity|]. right. apply E. assumption.
  - unfold pk. simpl. intros k I. rewrite map_app in I. simpl in I.
    repeat (apply in_app_iff in I; destruct I as [I|I]).
    + right. apply in_or_app. auto.
    + right. apply in_or_app. auto.
    + simpl in I. destruct I as [<-|[]]. left. reflexivity.
Qed.

Lemma worker_complete_keys t p acts out k :
  incl (pk (fst (fst (worker_complete t (p, acts, out) k)))) (pk p).
Proof.
  unfold worker_complete. destruct (memN k (w_curr p)); [|apply incl_refl].
  intros x I. apply dispatch_next_keys in I. unfold pk in *. simpl in *.
  apply in_app_iff in I. apply in_or_app. destruct I as [I|I]; [left; eapply In_removeN; eassumption|auto].
Qed.

Lemma replace_worker_keys t p acts out a :
  incl (pk (fst (fst (replace_worker t (p, acts, out) a)))) (pk p).
Proof.
  unfold replace_worker. intros x I. apply dispatch_next_keys in I. unfold pk in *. simpl in *.
  apply in_or_app. right. assumption.
Qed.

Section PoolRelation.
Variable c : config.
Variable Q : list (N * wprops) -> Prop.
Hypothesis Q_nil : Q [].
Hypothesis Q_shrink : forall pl wid p p',
  Q pl -> lookup wid pl = Some p -> incl (pk p') (pk p) -> Q (update wid p' pl).
Hypothesis Q_map : forall pl f,
  (forall p, pk (f p) = pk p \/ pk (f p) = w_curr p) -> Q pl -> Q (map (fun e => (fst e, f (snd e))) pl).
Hypothesis Q_remove : forall pl wid, Q pl -> Q (remove_key wid pl).
Hypothesis Q_insert : forall pl wid a d, Q pl -> lookup wid pl = None -> Q (insert wid (mkW a [] [] false d) pl).
Hypothesis Q_enqueue : forall w k hint wid w1 p p',
  Q (pool w) -> choose_target c k hint w = (Some wid, w1) -> lookup wid (pool w) = Some p ->
  incl (pk p') (k :: pk p) -> Q (update wid p' (pool w)).

Definition QI (w : world) : Prop := Q (pool w).

Lemma same_places_QI w w' : same_places w w' -> QI w -> QI w'.
Proof. intros (_ & Hp & _) H. unfold QI. rewrite Hp. exact H. Qed.

Lemma with_worker_QI wid f w :
  (forall p acts out, incl (pk (fst (fst (f (p, acts, out))))) (pk p)) -> QI w -> QI (with_worker wid f w).
Proof.
  intros Hf H. unfold with_worker. destruct (lookup wid (pool w)) as [p|] eqn:L; [|assumption].
  specialize (Hf p (actors w) (evs w)).
  destruct (f (p, actors w, evs w)) as [[p' acts'] out']. unfold QI. simpl in *.
  eapply Q_shrink; eassumption.
Qed.

Lemma route_message_QI x hint w r w' : route_message c x hint w = (r, w') -> QI w -> QI w'.
Proof.
  unfold route_message. destruct (rl_check w) as [ok w0] eqn:R. apply rl_check_same in R.
  intros H I. apply (same_places_QI _ _ R) in I.
  destruct ok; simpl in H.
  - destruct (choose_target c (j_key x) hint w0) as [tgt w1] eqn:C.
    pose proof (choose_target_same _ _ _ _ _ _ C) as S.
    destruct tgt as [wid|]; [destruct (in_pool w1 wid) eqn:IP|]; inversion H; subst;
      try (eapply same_places_QI; eassumption).
    unfold with_worker. destruct (lookup wid (pool w1)) as [p|] eqn:L;
      [|eapply same_places_QI; eassumption].
    pose proof (enqueue_job_keys (now w1) p (actors w1) (evs w1) x) as K.
    destruct (enqueue_job (now w1) (p, actors w1, evs w1) x) as [[p' acts'] out']. unfold QI. simpl in *.
    destruct S as (_ & Hp & _). rewrite Hp in *.
    eapply Q_enqueue; eassumption.
  - inversion H; subst. destruct hint as [h|]; [|assumption].
    destruct (worker_available w0 h); [|assumption].
    eapply same_places_QI; [apply on_avail_same|assumption].
Qed.

Lemma evs_only_QI w out : QI w -> QI (set_evs out w).
Proof. exact (fun H => H). Qed.

Lemma discard_QI r x w : QI w -> QI (discard r x w). Proof. exact (fun H => H). Qed.
Lemma reject_QI x w : QI w -> QI (reject x w). Proof. exact (fun H => H). Qed.
Lemma accept_QI x w : QI w -> QI (accept x w). Proof. exact (fun H => H). Qed.
Lemma set_fq_QI q w : QI w -> QI (set_fq q w). Proof. exact (fun H => H). Qed.

Lemma drop_expired_head_QI fuel w : QI w -> QI (drop_expired_head fuel w).
Proof.
  revert w. induction fuel as [|f IH]; intros w H; simpl; [assumption|].
  destruct (q_peek (fq w)) as [x|]; [|assumption].
  destruct (expired (now w) x); [|assumption].
  destruct (q_pop (fq w)) as [[y|] q']; [|assumption]. apply IH. assumption.
Qed.

Lemma route_loop_QI fuel hint w : QI w -> QI (route_loop c fuel hint w).
Proof.
  revert w. induction fuel as [|f IH]; intros w H; simpl; [assumption|].
  destruct (q_peek (fq w)) as [x|]; [|assumption].
  destruct (choose_target c (j_key x) hint w) as [tgt w1] eqn:C. apply choose_target_same in C.
  apply (same_places_QI _ _ C) in H.
  destruct tgt as [wid|]; [|assumption].
  destruct (q_pop (fq w1)) as [[y|] q']; [|assumption].
  destruct (route_message c y (Some wid) (set_fq q' w1)) as [r w2] eqn:RM.
  apply route_message_QI in RM; [|assumption].
  destruct r; [assumption|assumption|]. apply IH. assumption.
Qed.

Lemma try_route_next_QI hint w : QI w -> QI (try_route_next c hint w).
Proof. intros H. unfold try_route_next. apply route_loop_QI, drop_expired_head_QI. assumption. Qed.

Lemma shed_queue_QI fuel limit w : QI w -> QI (shed_queue fuel limit w).
Proof.
  revert w. induction fuel as [|f IH]; intros w H; simpl; [assumption|].
  destruct (limit <? qlen (fq w)); [|assumption].
  destruct (q_pop_low (fq w)) as [[y|] q']; [|assumption]. apply IH. assumption.
Qed.

Lemma maybe_enqueue_QI x w : QI w -> QI (maybe_enqueue c x w).
Proof.
  intros H. unfold maybe_enqueue. destruct (dset w) as [[limit [|]]|].
  - match goal with |- context [if ?b then _ else _] => destruct b end; assumption.
  - apply shed_queue_QI. assumption.
  - assumption.
Qed.

Lemma dispatch_QI x w : QI w -> QI (dispatch c x w).
Proof.
  intros H. unfold dispatch. destruct (expired (now w) x); [assumption|].
  destruct (drain w); try assumption.
  destruct (route_message c x None w) as [r w'] eqn:RM.
  apply route_message_QI in RM; [|assumption].
  destruct r; [assumption|apply maybe_enqueue_QI; assumption|assumption].
Qed.

Lemma stop_actor_QI a w : QI w -> QI (stop_actor a w).
Proof.
  intros H. unfold stop_actor. destruct (lookup a (actors w)) as [x|]; [|assumption].
  destruct (a_alive x); assumption.
Qed.

Lemma avail_tail_QI who w :
  QI w -> QI (let w1 := try_route_next c (Some who) w in
              if worker_available w1 who then on_avail c who true w1 else w1).
Proof.
  intros H. cbv zeta. destruct (worker_available _ who).
  - eapply same_places_QI; [apply on_avail_same|]. apply try_route_next_QI. assumption.
  - apply try_route_next_QI. assumption.
Qed.

Lemma worker_finished_QI who k w : QI w -> QI (worker_finished c who k w).
Proof.
  intros H. unfold worker_finished.
  destruct (lookup who (pool w)) as [p0|]; [|apply avail_tail_QI; assumption].
  set (w1 := with_worker who (fun x => worker_complete (now w) x k) w).
  assert (H1 : QI w1). { apply with_worker_QI; [|assumption]. intros. apply worker_complete_keys. }
  destruct (lookup who (pool w1)) as [p|]; [|assumption].
  destruct (w_drain p).
  - destruct (is_working p); [assumption|]. apply stop_actor_QI. unfold QI. simpl.
    apply Q_remove. assumption.
  - apply avail_tail_QI. assumption.
Qed.

Lemma spawn_worker_QI wid w : lookup wid (pool w) = None -> QI w -> QI (spawn_worker c wid w).
Proof.
  intros L H. unfold spawn_worker. eapply same_places_QI; [apply on_avail_same|].
  unfold QI. simpl. apply Q_insert; assumption.
Qed.

Lemma grow_pool_QI n wid w : QI w -> QI (grow_pool c n wid w).
Proof.
  revert wid w. induction n as [|n IH]; intros wid w H; simpl; [assumption|].
  apply IH. destruct (lookup wid (pool w)) as [p|] eqn:L.
  - assert (QI (set_pool (update wid (set_w_drain false p) (pool w)) w)) as H'.
    { unfold QI. simpl. eapply Q_shrink; [eassumption|eassumption|apply incl_refl]. }
    destruct (is_available p); [eapply same_places_QI; [apply on_avail_same|]|]; assumption.
  - apply spawn_worker_QI; assumption.
Qed.

Lemma shrink_pool_QI n wid w : QI w -> QI (shrink_pool c n wid w).
Proof.
  revert wid w. induction n as [|n IH]; intros wid w H; simpl; [assumption|].
  apply IH. destruct (lookup wid (pool w)) as [p|] eqn:L; [|assumption].
  destruct (is_working p).
  - unfold QI. simpl. eapply Q_shrink; [eassumption|eassumption|apply incl_refl].
  - apply stop_actor_QI. unfold QI. simpl. apply Q_remove. assumption.
Qed.

Lemma route_n_QI n w : QI w -> QI (route_n c n w).
Proof.
  revert w. induction n as [|n IH]; intros w H; simpl; [assumption|].
  destruct (q_peek (fq w)); [|assumption]. apply IH, try_route_next_QI. assumption.
Qed.

Lemma route_all_QI fuel w : QI w -> QI (route_all c fuel w).
Proof.
  revert w. induction fuel as [|f IH]; intros w H; simpl; [assumption|].
  destruct (q_peek (fq w)); [|assumption].
  destruct (qlen (fq (try_route_next c None w)) <? qlen (fq w)); [apply IH|]; apply try_route_next_QI; assumption.
Qed.

Lemma resize_pool_QI n w : QI w -> QI (resize_pool c n w).
Proof.
  intros H. unfold resize_pool. destruct (n =? 0); [assumption|].
  destruct (pool_size w <? N.min 1000000 n).
  - assert (QI (set_pool_size (N.min 1000000 n)
                  (grow_pool c (N.to_nat (N.min 1000000 n - pool_size w)) (pool_size w) w))) as G.
    { assert (QI (grow_pool c (N.to_nat (N.min 1000000 n - pool_size w)) (pool_size w) w)) as G0
        by (apply grow_pool_QI; assumption).
      exact G0. }
    cbv zeta.
    match goal with |- context [if ?b then _ else _] => destruct b end;
      [apply route_n_QI|apply route_all_QI]; exact G.
  - destruct (N.min 1000000 n <? pool_size w); [|assumption].
    assert (QI (shrink_pool c (N.to_nat (pool_size w - N.min 1000000 n)) (N.min 1000000 n) w)) as G
      by (apply shrink_pool_QI; assumption).
    exact G.
Qed.

Lemma worker_died_QI who w : QI w -> QI (worker_died c who w).
Proof.
  intros H. unfold worker_died. destruct (lookup who (by_actor w)) as [wid|]; [|assumption].
  destruct (lookup wid (pool w)) as [p|] eqn:L; [|assumption].
  destruct (w_drain p && match w_queue p with [] => true | _ => false end).
  - unfold QI. simpl. apply Q_remove. exact H.
  - cbv zeta.
    set (w1 := set_actors (actors w ++ [(next_aid w, new_actor wid)]) (set_next_aid (next_aid w + 1) w)).
    assert (H1 : QI w1) by exact H.
    set (w2 := with_worker wid (fun x => replace_worker (now w1) x (next_aid w)) w1).
    assert (H2 : QI w2). { apply with_worker_QI; [|assumption]. intros. apply replace_worker_keys. }
    set (w3 := set_by_actor (remove_key who (by_actor w2) ++ [(next_aid w, wid)]) w2).
    assert (H3 : QI w3) by exact H2.
    destruct (worker_available _ wid).
    + eapply same_places_QI; [apply on_avail_same|]. apply try_route_next_QI. assumption.
    + apply try_route_next_QI. assumption.
Qed.

Lemma update_discard_QI d w : QI w -> QI (update_discard c d w).
Proof.
  intros H. unfold update_discard, QI. simpl. apply Q_map; [|exact H]. intros p. left. reflexivity.
Qed.

Lemma check_drained_QI w : QI w -> QI (check_drained w).
Proof. intros H. eapply same_places_QI; [apply check_drained_same|assumption]. Qed.

Lemma query_QI k w : QI w -> QI (query c k w).
Proof. intros H. unfold query. destruct (k =? 0); [|destruct (k =? 1)]; assumption. Qed.

Lemma handle_msg_QI m w : QI w -> QI (handle_msg c m w).
Proof.
  intros H. unfold handle_msg. apply check_drained_QI. destruct m.
  - apply dispatch_QI. assumption.
  - apply worker_finished_QI. assumption.
  - apply resize_pool_QI. assumption.
  - assumption.
  - apply update_discard_QI. assumption.
  - apply resize_pool_QI. assumption.
  - assumption.
  - apply query_QI. assumption.
Qed.

Lemma calc_tail_QI w : QI w -> QI (calc_tail c w).
Proof.
  intros H. unfold calc_tail. destruct (factory_queueing c); [|assumption].
  destruct (q_remove_expired (now w) (fq w) (evs w)). assumption.
Qed.

Lemma drain_queue_shutdown_QI fuel w : QI w -> QI (drain_queue_shutdown fuel w).
Proof.
  revert w. induction fuel as [|f IH]; intros w H; simpl; [assumption|].
  destruct (q_pop (fq w)) as [[y|] q']; [|assumption]. apply IH. assumption.
Qed.

Lemma fold_stop_QI (l : list (N * wprops)) w :
  QI w -> QI (fold_left (fun w e => stop_actor (w_aid (snd e)) w) l w).
Proof.
  revert w. induction l as [|e l IH]; intros w H; simpl; [assumption|].
  apply IH, stop_actor_QI. assumption.
Qed.

Lemma shutdown_worker_queues_QI w : QI w -> QI (shutdown_worker_queues w).
Proof.
  intros H. unfold shutdown_worker_queues, QI. simpl. apply Q_map; [|exact H].
  intros p. right. unfold pk. simpl. apply app_nil_r.
Qed.

Lemma post_stop_QI w : QI w -> QI (post_stop c w).
Proof.
  intros H. unfold post_stop.
  set (w1 := drain_queue_shutdown (S (length (concat (fq w)))) w).
  assert (H1 : QI w1) by (apply drain_queue_shutdown_QI; assumption).
  set (w2 := if c_shutdown_worker_queues c then shutdown_worker_queues w1 else w1).
  assert (H2 : QI w2).
  { unfold w2. destruct (c_shutdown_worker_queues c); [apply shutdown_worker_queues_QI|]; assumption. }
  assert (QI (fold_left (fun w e => stop_actor (w_aid (snd e)) w) (pool w2) w2)) as G
    by (apply fold_stop_QI; assumption).
  exact G.
Qed.

Lemma factory_step_QI w : QI w -> QI (factory_step c w).
Proof.
  intros H. unfold factory_step. destruct (running_now w && negb (held w)); [|assumption].
  destruct (stop_req w); [apply post_stop_QI; assumption|].
  destruct (inbox_sup w) as [|a rest].
  - destruct (inbox_msg w) as [|m rest]; [assumption|]. apply handle_msg_QI. assumption.
  - apply worker_died_QI. assumption.
Qed.

Lemma actor_exit_QI a cm w : QI w -> QI (actor_exit a cm w).
Proof. intros H. unfold actor_exit. destruct (lookup a (actors w)); assumption. Qed.

Lemma step_QI w l : QI w -> QI (step c w l).
Proof.
  intros H. destruct l; simpl.
  - unfold send_msg. destruct s; try (destruct (running_now w); assumption).
  - destruct (fstatus w); assumption.
  - apply factory_step_QI. assumption.
  - destruct (running_now w && negb (held w)); assumption.
  - destruct (held w); [|assumption]. apply check_drained_QI, calc_tail_QI.
    match goal with |- context [if ?b then _ else _] => destruct b end; [assumption|].
    apply resize_pool_QI. assumption.
  - destruct (running_now w && negb (held w)); [|assumption]. apply check_drained_QI, calc_tail_QI. assumption.
  - assumption.
  - unfold w_start. destruct (lookup a (actors w)) as [x|]; [|assumption].
    destruct (a_alive x), (a_run x), (a_stop x), (a_mb x); assumption.
  - unfold w_complete. destruct (lookup a (actors w)) as [x|]; [|assumption].
    destruct (a_alive x), (a_run x); try assumption. cbv zeta.
    match goal with |- context [if ?b then _ else _] => destruct b end; assumption.
  - unfold w_die. destruct (lookup a (actors w)) as [x|]; [|assumption].
    destruct (a_alive x); [apply actor_exit_QI|]; assumption.
  - unfold w_exit. destruct (lookup a (actors w)) as [x|]; [|assumption].
    destruct (a_alive x), (a_stop x), (a_run x); try assumption. apply actor_exit_QI. assumption.
  - apply stop_actor_QI. assumption.
  - assumption.
  - unfold w_close. destruct (lookup a (actors w)) as [x|]; [|assumption].
    destruct (a_alive x), (a_stop x), (a_run x); try assumption.
    assert (G : QI (actor_exit a (CStopExit a) w)) by (apply actor_exit_QI; assumption). exact G.
  - unfold w_closed. destruct (lookup a (actors w)) as [x|]; [|assumption].
    destruct (memN a (closing w) && negb (a_alive x)); assumption.
  - unfold finalize. destruct (fstatus w); try assumption.
    destruct (all_workers_gone w); [|assumption]. unfold QI. simpl. exact Q_nil.
Qed.

Lemma spawn_initial_QI n wid w :
  (forall k p, lookup k (pool w) = Some p -> k < wid) -> QI w -> QI (spawn_initial c n wid w).
Proof.
  revert wid w. induction n as [|n IH]; intros wid w F H; simpl; [assumption|].
  apply IH.
  - intros k p. destruct (spawn_worker_pool c wid w) as [p0 ->]. rewrite lookup_insert.
    destruct (wid =? k) eqn:E.
    + apply N.eqb_eq in E. subst. lia.
    + intros L. apply F in L. lia.
  - apply spawn_worker_QI; [|assumption].
    destruct (lookup wid (pool w)) as [p|] eqn:L; [|reflexivity]. apply F in L. lia.
Qed.

Theorem pool_relation_invariant : forall n d rls ls, QI (run c (init c n d rls) ls).
Proof.
  intros n d rls ls. unfold run.
  assert (H0 : QI (init c n d rls)).
  { unfold init.
    assert (QI (spawn_initial c (N.to_nat n) 0 (set_fq (empty_queue c) (init0 d rls)))) as G.
    { apply spawn_initial_QI; [simpl; intros k p E; discriminate|unfold QI; simpl; exact Q_nil]. }
    exact G. }
  revert H0. generalize (init c n d rls). induction ls as [|l ls IH]; intros w H; simpl; [assumption|].
  apply IH, step_QI. assumption.
Qed.


End PoolRelation.

(* ------------------------------------------------------------------ instance: key-persistent *)
Definition kp_unique (pl : list (N * wprops)) : Prop :=
  forall k w1 w2 p1 p2, lookup w1 pl = Some p1 -> lookup w2 pl = Some p2 ->
                        In k (pk p1) -> In k (pk p2) -> w1 = w2.

(* the routers that keep a key with the worker that has it pending: key-persistent, and sticky
   queuer since fix 36a533a *)
Definition owner_router (c : config) : Prop :=
  c_router c = RKeyPersistent \/ (c_router c = RSticky /\ c_sticky_pending c = true).

Definition Qkp (c : config) (pl : list (N * wprops)) : Prop :=
  NoDup (map fst pl) /\ (owner_router c -> kp_unique pl).

Lemma lookup_None_notin {A} k (l : list (N * A)) : lookup k l = None <-> ~ In k (map fst l).
Proof.
  induction l as [|[k' v] l IH]; simpl; [tauto|].
  destruct (k' =? k) eqn:E.
  - apply N.eqb_eq in E. subst. split; [discriminate|]. intros H. exfalso. apply H. auto.
  - apply N.eqb_neq in E. rewrite IH. tauto.
Qed.

Lemma keys_update {A} k (v : A) l : map fst (update k v l) = map fst l.
Proof.
  induction l as [|[k' v'] l IH]; simpl; [reflexivity|]. destruct (k' =? k); simpl; [|rewrite IH]; reflexivity.
Qed.

Lemma lookup_update {A} w k (v : A) l :
  lookup w (update k v l) = if w =? k then match lookup k l with Some _ => Some v | None => None end
                            else lookup w l.
Proof.
  induction l as [|[k' v'] l IH]; simpl.
  - destruct (w =? k); reflexivity.
  - destruct (k' =? k) eqn:E; simpl.
    + apply N.eqb_eq in E. subst k'. rewrite (N.eqb_sym k w). destruct (w =? k); reflexivity.
    + rewrite IH. destruct (k' =? w) eqn:E2; [|reflexivity].
      apply N.eqb_eq in E2. subst k'. rewrite E. reflexivity.
Qed.

Lemma keys_remove_incl {A} k (l : list (N * A)) x : In x (map fst (remove_key k l)) -> In x (map fst l).
Proof.
  induction l as [|[k' v'] l IH]; simpl; [auto|]. destruct (k' =? k); simpl; intuition.
Qed.

Lemma NoDup_remove_key {A} k (l : list (N * A)) : NoDup (map fst l) -> NoDup (map fst (remove_key k l)).
Proof.
  induction l as [|[k' v'] l IH]; simpl; intros H; [constructor|].
  inversion H; subst. destruct (k' =? k); simpl; [assumption|].
  constructor; [|auto]. intros I. apply H2. eapply keys_remove_incl. eassumption.
Qed.

Lemma lookup_remove {A} w k (l : list (N * A)) : NoDup (map fst l) ->
  lookup w (remove_key k l) = if w =? k then None else lookup w l.
Proof.
  induction l as [|[k' v'] l IH]; simpl; intros H.
  - destruct (w =? k); reflexivity.
  - inversion H; subst. destruct (k' =? k) eqn:E; simpl.
    + apply N.eqb_eq in E. subst k'. rewrite (N.eqb_sym k w). destruct (w =? k) eqn:E2; [|reflexivity].
      apply N.eqb_eq in E2. subst w. apply lookup_None_notin. assumption.
    + rewrite IH by assumption. destruct (k' =? w) eqn:E2; [|reflexivity].
      apply N.eqb_eq in E2. subst k'. rewrite E. reflexivity.
Qed.

Lemma keys_insert_new {A} k (v : A) l : lookup k l = None ->
  forall x, In x (map fst (insert k v l)) <-> x = k \/ In x (map fst l).
Proof.
  induction l as [|[k' v'] l IH]; simpl; intros H x; [intuition|].
  rewrite N.eqb_sym in H. destruct (k =? k') eqn:E; [discriminate|].
  destruct (k <? k'); simpl; [intuition|]. rewrite IH by assumption. intuition.
Qed.

Lemma NoDup_insert_new {A} k (v : A) l : lookup k l = None -> NoDup (map fst l) -> NoDup (map fst (insert k v l)).
Proof.
  induction l as [|[k' v'] l IH]; simpl; intros H ND; [repeat constructor; auto|].
  rewrite N.eqb_sym in H. destruct (k =? k') eqn:E; [discriminate|]. apply N.eqb_neq in E.
  inversion ND; subst.
  destruct (k <? k'); simpl.
  - constructor; [|assumption]. simpl. intros [I|I]; [congruence|].
    apply (proj1 (lookup_None_notin k l) H). assumption.
  - constructor; [|auto]. intros I. apply keys_insert_new in I; [|assumption]. destruct I as [I|I]; [congruence|auto].
Qed.

Lemma lookup_map {A B} (f : A -> B) w (l : list (N * A)) :
  lookup w (map (fun e => (fst e, f (snd e))) l) = option_map f (lookup w l).
Proof.
  induction l as [|[k' v'] l IH]; simpl; [reflexivity|]. destruct (k' =? w); [reflexivity|assumption].
Qed.

Lemma keys_map {A B} (f : A -> B) (l : list (N * A)) : map fst (map (fun e => (fst e, f (snd e))) l) = map fst l.
Proof. induction l as [|e l IH]; simpl; [|rewrite IH]; reflexivity. Qed.

Lemma find_worker_some f pl x : NoDup (map fst pl) -> find_worker f pl = Some x ->
  exists p, lookup x pl = Some p /\ f p = true.
Proof.
  unfold find_worker. induction pl as [|[k v] pl IH]; simpl; intros ND H; [discriminate|].
  inversion ND; subst. destruct (f v) eqn:E.
  - inversion H; subst. rewrite N.eqb_refl. eauto.
  - destruct (find (fun e => f (snd e)) pl) as [e|] eqn:F; [|discriminate].
    inversion H; subst. destruct (IH H3 eq_refl) as (p & L & Fp).
    exists p. split; [|assumption].
    destruct (k =? fst e) eqn:E2; [|assumption].
    apply N.eqb_eq in E2. subst k. exfalso. apply H2.
    apply find_some in F. destruct F as [I _]. apply in_map with (f := fst) in I. exact I.
Qed.

Lemma find_worker_none f pl x p : find_worker f pl = None -> lookup x pl = Some p -> f p = false.
Proof.
  unfold find_worker. induction pl as [|[k v] pl IH]; simpl; intros H L; [discriminate|].
  destruct (f v) eqn:E; [discriminate|].
  destruct (k =? x); [inversion L; subst; assumption|]. apply IH; assumption.
Qed.

(* choose_target of an owner router: a worker with the key pending wins *)
Lemma kp_target_owner c k hint w wid w1 x p :
  owner_router c -> NoDup (map fst (pool w)) -> kp_unique (pool w) ->
  choose_target c k hint w = (Some wid, w1) ->
  lookup x (pool w) = Some p -> In k (pk p) -> x = wid.
Proof.
  intros R ND U H L I. unfold choose_target in H. destruct R as [R|[R SP]]; rewrite R in H.
  - destruct (find_worker (fun p => has_pending p k) (pool w)) as [y|] eqn:F.
    + inversion H; subst. destruct (find_worker_some _ _ _ ND F) as (py & Ly & Hy).
      apply has_pending_pk in Hy. eapply U; eassumption.
    + apply (find_worker_none _ _ _ _ F) in L. apply has_pending_pk in I. congruence.
  - rewrite SP in H.
    match type of H with (if ?b then _ else _) = _ => destruct b eqn:HB end.
    + destruct hint as [h|]; [|discriminate]. inversion H; subst.
      destruct (lookup wid (pool w1)) as [ph|] eqn:Lh; [|discriminate].
      apply has_pending_pk in HB. eapply U; eassumption.
    + destruct (find_worker (fun p => has_pending p k) (pool w)) as [y|] eqn:F.
      * inversion H; subst. destruct (find_worker_some _ _ _ ND F) as (py & Ly & Hy).
        apply has_pending_pk in Hy. eapply U; eassumption.
      * apply (find_worker_none _ _ _ _ F) in L. apply has_pending_pk in I. congruence.
Qed.

Theorem kp_pool_invariant : forall c n d rls ls, Qkp c (pool (run c (init c n d rls) ls)).
Proof.
  intros c. apply (pool_relation_invariant c (Qkp c)).
  - split; [constructor|]. intros _ k w1 w2 p1 p2 L. discriminate.
  - (* shrink *)
    intros pl wid p p' [ND U] L Inc. split; [rewrite keys_update; assumption|].
    intros R k w1 w2 p1 p2 L1 L2 I1 I2. specialize (U R).
    rewrite lookup_update in L1, L2. rewrite L in L1, L2.
    destruct (w1 =? wid) eqn:E1; destruct (w2 =? wid) eqn:E2;
      rewrite ?N.eqb_eq in *; subst; try reflexivity.
    + inversion L1; subst. apply Inc in I1. eapply U; eassumption.
    + inversion L2; subst. apply Inc in I2. eapply U; eassumption.
    + eapply U; eassumption.
  - (* map *)
    intros pl f Hf [ND U]. split; [rewrite keys_map; assumption|].
    intros R k w1 w2 p1 p2 L1 L2 I1 I2. specialize (U R).
    rewrite lookup_map in L1, L2.
    destruct (lookup w1 pl) as [q1|] eqn:E1; [|discriminate].
    destruct (lookup w2 pl) as [q2|] eqn:E2; [|discriminate].
    simpl in L1, L2. inversion L1; inversion L2; subst.
    assert (S : forall q, In k (pk (f q)) -> In k (pk q)).
    { intros q I. destruct (Hf q) as [E|E]; rewrite E in I; [assumption|].
      unfold pk. apply in_or_app. auto. }
    eapply U; eauto.
  - (* remove *)
    intros pl wid [ND U]. split; [apply NoDup_remove_key; assumption|].
    intros R k w1 w2 p1 p2 L1 L2 I1 I2. specialize (U R).
    rewrite lookup_remove in L1, L2 by assumption.
    destruct (w1 =? wid); [discriminate|]. destruct (w2 =? wid); [discriminate|]. eapply U; eassumption.
  - (* insert fresh *)
    intros pl wid a d [ND U] L. split; [apply NoDup_insert_new; assumption|].
    intros R k w1 w2 p1 p2 L1 L2 I1 I2. specialize (U R).
    rewrite lookup_insert in L1, L2.
    destruct (wid =? w1) eqn:E1; [inversion L1; subst; simpl in I1; contradiction|].
    destruct (wid =? w2) eqn:E2; [inversion L2; subst; simpl in I2; contradiction|].
    eapply U; eassumption.
  - (* enqueue at the chosen worker *)
    intros w k hint wid w1 p p' [ND U] C L Inc. split; [rewrite keys_update; assumption|].
    intros R k0 x1 x2 p1 p2 L1 L2 I1 I2. specialize (U R).
    rewrite lookup_update in L1, L2. rewrite L in L1, L2.
    assert (own : forall x q, lookup x (pool w) = Some q -> In k (pk q) -> x = wid)
      by (intros; eapply kp_target_owner; eassumption).
    destruct (x1 =? wid) eqn:E1; destruct (x2 =? wid) eqn:E2;
      rewrite ?N.eqb_eq in *; subst; try reflexivity.
    + inversion L1; subst. apply Inc in I1. destruct I1 as [<-|I1].
      * symmetry. eapply own; eassumption.
      * eapply U; eassumption.
    + inversion L2; subst. apply Inc in I2. destruct I2 as [<-|I2].
      * eapply own; eassumption.
      * eapply U; eassumption.
    + eapply U; eassumption.
Qed.

(* factory-side affinity of key-persistent routing, for every history (stale completions included):
   a key is pending (queued or believed running) at no more than one worker *)
Theorem kp_one_owner : forall c n d rls ls k w1 w2 p1 p2,
  c_router c = RKeyPersistent ->
  let pl := pool (run c (init c n d rls) ls) in
  lookup w1 pl = Some p1 -> lookup w2 pl = Some p2 ->
  has_pending p1 k = true -> has_pending p2 k = true -> w1 = w2.
Proof.
  intros c n d rls ls k w1 w2 p1 p2 R pl L1 L2 H1 H2.
  destruct (kp_pool_invariant c n d rls ls) as [_ U].
  apply has_pending_pk in H1. apply has_pending_pk in H2. eapply (U (or_introl R)); eassumption.
Qed.

(* the same for every owner router, i.e. also for sticky-queuer routing since fix 36a533a *)
Theorem one_owner : forall c n d rls ls k w1 w2 p1 p2,
  owner_router c ->
  let pl := pool (run c (init c n d rls) ls) in
  lookup w1 pl = Some p1 -> lookup w2 pl = Some p2 ->
  has_pending p1 k = true -> has_pending p2 k = true -> w1 = w2.
Proof.
  intros c n d rls ls k w1 w2 p1 p2 R pl L1 L2 H1 H2.
  destruct (kp_pool_invariant c n d rls ls) as [_ U].
  apply has_pending_pk in H1. apply has_pending_pk in H2. eapply (U R); eassumption.
Qed.
