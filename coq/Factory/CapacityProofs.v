(* Proofs about the factory capacity model (Factory/Capacity.v). *)
From Coq Require Import List NArith Bool Lia Permutation Arith.
From RV Require Import Ratelim.Model Factory.Capacity.
Import ListNotations.
Local Open Scope N_scope.

(* ------------------------------------------------------------------ *)
(* lists, pools                                                        *)

Lemma len_app {A} (a b : list A) : len (a ++ b) = len a + len b.
Proof. unfold len. rewrite app_length. lia. Qed.

Lemma len_cons {A} (x : A) (l : list A) : len (x :: l) = len l + 1.
Proof. unfold len. cbn [length]. lia. Qed.

Lemma filter_len_le {A} (f : A -> bool) l : len (filter f l) <= len l.
Proof.
  unfold len. induction l as [|x t IH]; cbn [filter length]; [lia|].
  destruct (f x); cbn [length]; lia.
Qed.

Lemma Forall_upd_w (P : worker -> Prop) p x : Forall P p -> P x -> Forall P (upd_w p x).
Proof.
  intros Hp Hx. induction Hp as [|w r Hw Hr IH]; cbn [upd_w]; [constructor|].
  destruct (w_id w =? w_id x); constructor; assumption.
Qed.

Lemma Forall_remove_w (P : worker -> Prop) p i : Forall P p -> Forall P (remove_w p i).
Proof.
  intros Hp. unfold remove_w. rewrite Forall_forall in *. intros w Hw. apply filter_In in Hw. apply Hp, Hw.
Qed.

Lemma find_w_In p i w : find_w p i = Some w -> In w p /\ w_id w = i.
Proof.
  induction p as [|x r IH]; cbn [find_w]; [discriminate|].
  destruct (N.eqb_spec (w_id x) i) as [E|E]; intros H.
  - inversion H; subst. split; [left; reflexivity|reflexivity].
  - destruct (IH H) as [H1 H2]. split; [right; exact H1|exact H2].
Qed.

Lemma find_w_Forall (P : worker -> Prop) p i w : Forall P p -> find_w p i = Some w -> P w.
Proof. intros Hp Hf. apply find_w_In in Hf. rewrite Forall_forall in Hp. apply Hp, Hf. Qed.

(* ------------------------------------------------------------------ *)
(* the queue                                                            *)

Lemma remove_first_spec (p : job -> bool) q x q' :
  remove_first p q = Some (x, q') ->
  Permutation q (x :: q') /\ p x = true /\ length q = S (length q').
Proof.
  revert x q'. induction q as [|j r IH]; intros x q'; cbn [remove_first]; [discriminate|].
  destruct (p j) eqn:Ep.
  - intros H; inversion H; subst. split; [apply Permutation_refl|]. split; [exact Ep|reflexivity].
  - destruct (remove_first p r) as [[y r']|] eqn:E; [|discriminate].
    intros H; inversion H; subst. destruct (IH x r' eq_refl) as (Hp & Hx & Hl).
    split; [|split; [exact Hx|cbn [length]; lia]].
    eapply Permutation_trans; [apply perm_skip; exact Hp|apply perm_swap].
Qed.

Lemma remove_first_some (p : job -> bool) q :
  existsb p q = true -> exists x q', remove_first p q = Some (x, q').
Proof.
  induction q as [|j r IH]; cbn [existsb remove_first]; [discriminate|].
  destruct (p j); [intros _; eauto|]. cbn [orb]. intros H.
  destruct (IH H) as (x & q' & E). rewrite E. eauto.
Qed.

Lemma max_prio_attained k q m : max_prio k q = Some m -> existsb (fun j => eff_prio k j =? m) q = true.
Proof.
  revert m. induction q as [|j r IH]; intros m; cbn [max_prio existsb]; [discriminate|].
  destruct (max_prio k r) as [m'|] eqn:E.
  - intros H; inversion H; subst. destruct (N.max_spec (eff_prio k j) m') as [[Hlt ->]|[Hle ->]].
    + rewrite (IH m' eq_refl). apply orb_true_r.
    + rewrite N.eqb_refl. reflexivity.
  - intros H; inversion H; subst. rewrite N.eqb_refl. reflexivity.
Qed.

Lemma min_prio_attained k q m : min_prio k q = Some m -> existsb (fun j => eff_prio k j =? m) q = true.
Proof.
  revert m. induction q as [|j r IH]; intros m; cbn [min_prio existsb]; [discriminate|].
  destruct (min_prio k r) as [m'|] eqn:E.
  - intros H; inversion H; subst. destruct (N.min_spec (eff_prio k j) m') as [[Hlt ->]|[Hle ->]].
    + rewrite N.eqb_refl. reflexivity.
    + rewrite (IH m' eq_refl). apply orb_true_r.
  - intros H; inversion H; subst. rewrite N.eqb_refl. reflexivity.
Qed.

Lemma max_prio_none k q : max_prio k q = None -> q = [].
Proof. destruct q as [|j r]; [reflexivity|]. cbn [max_prio]. destruct (max_prio k r); discriminate. Qed.

Lemma discard_oldest_nonempty k q : q <> [] ->
  exists x q', discard_oldest k q = Some (x, q') /\ Permutation q (x :: q') /\ length q = S (length q').
Proof.
  intros Hq. unfold discard_oldest. destruct (max_prio k q) as [m|] eqn:E.
  - destruct (remove_first_some _ q (max_prio_attained k q m E)) as (x & q' & Er).
    exists x, q'. split; [exact Er|]. destruct (remove_first_spec _ _ _ _ Er) as (Hp & _ & Hl). split; assumption.
  - apply max_prio_none in E. contradiction.
Qed.

Lemma pop_front_spec k q x q' : pop_front k q = Some (x, q') ->
  Permutation q (x :: q') /\ length q = S (length q').
Proof.
  unfold pop_front. destruct (min_prio k q) as [m|]; [|discriminate].
  intros H. destruct (remove_first_spec _ _ _ _ H) as (Hp & _ & Hl). split; assumption.
Qed.

Lemma perm_filter_len (f : job -> bool) q q' : Permutation q q' -> len (filter f q) = len (filter f q').
Proof.
  intros H. unfold len. f_equal.
  induction H as [|x l l' _ IH|x y l|l l' l'' _ IH1 _ IH2]; cbn [filter].
  - reflexivity.
  - destruct (f x); cbn [length]; lia.
  - destruct (f x), (f y); reflexivity.
  - lia.
Qed.

(* ------------------------------------------------------------------ *)
(* enqueue_job = Newest check, then `enq_core`, then the Oldest shedding *)

Definition enq_core (w : worker) (j : job) : worker * list ev :=
  match w_cur w with
  | None =>
    match w_q w with
    | older :: rest => dispatch_job (set_q w (rest ++ [j])) older
    | [] => dispatch_job w j
    end
  | Some _ => (set_q w (w_q w ++ [j]), [])
  end.

Lemma enqueue_job_unfold c w j :
  enqueue_job c w j =
  if (match wsettings c with Some (l, Newest) => negb (w_available w) && (l <=? len (w_q w)) | _ => false end)
  then (w, [EDiscard (jid j) Loadshed; EReject (jid j)])
  else let (w1, e1) := enq_core w j in
       match wsettings c with
       | Some (l, Oldest) =>
         let n := (length (w_q w1) - N.to_nat l)%nat in
         (set_q w1 (skipn n (w_q w1)), EAccept (jid j) :: e1 ++ shed_events (firstn n (w_q w1)))
       | _ => (w1, EAccept (jid j) :: e1)
       end.
Proof. reflexivity. Qed.

Lemma enq_core_facts w j :
  let w1 := fst (enq_core w j) in
  w_id w1 = w_id w /\ w_drain w1 = w_drain w /\ w_alive w1 = w_alive w
  /\ (w_alive w = true -> w_cur w1 <> None)
  /\ len (w_q w1) <= len (w_q w) + 1
  /\ (w_alive w = true -> w_cur w = None -> len (w_q w1) = len (w_q w))
  /\ (w_cur w <> None -> len (w_q w1) = len (w_q w) + 1)
  /\ (w_q w1 <> [] \/ w_cur w1 <> None).
Proof.
  cbn zeta. unfold enq_core. destruct (w_cur w) as [cj|] eqn:Ec.
  - cbn [fst set_q w_id w_drain w_alive w_cur w_q]. rewrite Ec, len_app. unfold len at 2. cbn [length].
    repeat split; try congruence; try lia. right. discriminate.
  - destruct (w_q w) as [|older rest] eqn:Eq; unfold dispatch_job; cbn [set_q w_alive];
      destruct (w_alive w) eqn:Ea; cbn [fst w_id w_drain w_alive w_cur w_q set_q]; rewrite ?Eq;
      unfold len; cbn [length]; rewrite ?app_length; cbn [length];
      repeat split; try congruence; try lia; try discriminate;
      try (right; discriminate); try (left; discriminate).
Qed.

Lemma enq_core_events w j :
  snd (enq_core w j) = [] \/ exists a b d, snd (enq_core w j) = [EStart a b d].
Proof.
  unfold enq_core, dispatch_job. destruct (w_cur w); [left; reflexivity|].
  destruct (w_q w); cbn [set_q w_alive]; destruct (w_alive w); cbn [snd]; eauto.
Qed.

(* ------------------------------------------------------------------ *)
(* C15_queue_bound                                                      *)

Section QueueBound.
Variable c : fcfg.
Variable L : N.
Variable m : dmode.
Variable K : N.    (* what the queues may already hold when the settings come into force *)
Hypothesis Hd : c_discard c = Some (L, m).

Definition disc_count (q : list job) : N := len (filter (discardable c) q).
(* a worker's own queue is within the limit whenever the workers carry the limit *)
(* ... a stopping actor's queue (dispatch impossible until the supervision event is handled) may
   hold one job with limit 0 in Newest mode, see docs/notes *)
Definition dead_bound : N := match m with Oldest => L | Newest => N.max L 1 end.
Definition wbound (w : worker) : N := if w_alive w then L else dead_bound.
Definition wq_ok (w : worker) : Prop := factory_queueing c = false -> len (w_q w) <= N.max (wbound w) K.
Definition fq_ok (q : list job) : Prop := disc_count q <= N.max L K.
Definition QI (s : fstate) : Prop := fq_ok (f_q s) /\ Forall wq_ok (f_pool s).

Lemma wsettings_nfq : factory_queueing c = false -> wsettings c = Some (L, m).
Proof. unfold wsettings. intros ->. exact Hd. Qed.

Lemma skipn_len {A} (q : list A) : len (skipn (length q - N.to_nat L) q) <= L.
Proof. unfold len. rewrite skipn_length. lia. Qed.

Lemma L_le_dead : L <= dead_bound.
Proof. unfold dead_bound. destruct m; lia. Qed.

Lemma enqueue_job_ok w j : wq_ok w -> wq_ok (fst (enqueue_job c w j)).
Proof.
  intros Hw Hn. specialize (Hw Hn). rewrite enqueue_job_unfold. rewrite (wsettings_nfq Hn).
  pose proof (enq_core_facts w j) as (_ & _ & Ha & _ & Hle & Halive & Hbusy & _).
  destruct (enq_core w j) as [w1 e1]. cbn [fst] in *. unfold wbound, dead_bound in *.
  destruct m.
  - (* Newest *)
    destruct (negb (w_available w) && (L <=? len (w_q w))) eqn:Eshed; cbn [fst]; [exact Hw|].
    rewrite Ha.
    destruct (w_cur w) as [cj|] eqn:Ec.
    + assert (Hav : w_available w = false) by (unfold w_available; rewrite Ec; reflexivity).
      rewrite Hav in Eshed. cbn [negb andb] in Eshed. apply N.leb_gt in Eshed.
      rewrite (Hbusy ltac:(discriminate)). destruct (w_alive w); lia.
    + destruct (w_alive w) eqn:Eal.
      * rewrite (Halive eq_refl eq_refl). exact Hw.
      * destruct (w_q w) as [|older rest] eqn:Eq.
        -- unfold len in *. cbn [length] in *. lia.
        -- assert (Hav : w_available w = false) by (unfold w_available; rewrite Ec, Eq; reflexivity).
           rewrite Hav in Eshed. cbn [negb andb] in Eshed. apply N.leb_gt in Eshed. lia.
  - (* Oldest *)
    cbn [negb andb fst set_q w_q w_alive]. rewrite Ha.
    pose proof (skipn_len (w_q w1)). destruct (w_alive w); lia.
Qed.

Lemma enqueue_job_id w j : w_id (fst (enqueue_job c w j)) = w_id w.
Proof.
  rewrite enqueue_job_unfold.
  destruct (match wsettings c with Some (l, Newest) => _ | _ => false end); [reflexivity|].
  pose proof (enq_core_facts w j) as (Hid & _). destruct (enq_core w j) as [w1 e1]. cbn [fst] in Hid.
  destruct (wsettings c) as [[l [|]]|]; cbn [fst set_q w_id]; exact Hid.
Qed.

Lemma shed_fq_len k fuel : forall q, (length q <= fuel)%nat -> len (fst (shed_fq k L fuel q)) <= L.
Proof.
  induction fuel as [|f IH]; intros q Hf; cbn [shed_fq].
  - destruct q; [|cbn [length] in Hf; lia]. cbn [fst]. unfold len. cbn [length]. lia.
  - destruct (N.ltb_spec L (len q)) as [Hlt|Hge]; [|cbn [fst]; lia].
    assert (Hq : q <> []) by (intros ->; unfold len in Hlt; cbn [length] in Hlt; lia).
    destruct (discard_oldest_nonempty k q Hq) as (x & q' & -> & _ & Hl).
    specialize (IH q' ltac:(lia)). destruct (shed_fq k L f q') as [q'' e]. cbn [fst] in *. exact IH.
Qed.

(* what leaves the queue is exactly what is reported, each job once *)
Lemma shed_fq_conserve k fuel : forall q q' e, shed_fq k L fuel q = (q', e) ->
  exists shed, Permutation q (shed ++ q') /\ e = map (fun j => EDiscard (jid j) Loadshed) shed.
Proof.
  induction fuel as [|f IH]; intros q q' e; cbn [shed_fq].
  - intros H; inversion H; subst. exists []. split; [apply Permutation_refl|reflexivity].
  - destruct (L <? len q).
    2:{ intros H; inversion H; subst. exists []. split; [apply Permutation_refl|reflexivity]. }
    destruct (discard_oldest k q) as [[x q1]|] eqn:Ed.
    2:{ intros H; inversion H; subst. exists []. split; [apply Permutation_refl|reflexivity]. }
    destruct (shed_fq k L f q1) as [q2 e2] eqn:Es. intros H; inversion H; subst.
    destruct (IH q1 q' e2 Es) as (shed & Hp & ->).
    exists (x :: shed). split; [|reflexivity].
    unfold discard_oldest in Ed. destruct (max_prio k q); [|discriminate].
    destruct (remove_first_spec _ _ _ _ Ed) as (Hp1 & _ & _).
    eapply Permutation_trans; [exact Hp1|]. cbn [app]. apply perm_skip. exact Hp.
Qed.

Lemma disc_count_le q : disc_count q <= len q.
Proof. apply filter_len_le. Qed.

Lemma maybe_enqueue_ok q j : fq_ok q -> fq_ok (fst (maybe_enqueue c q j)).
Proof.
  unfold fq_ok, maybe_enqueue. rewrite Hd. intros Hq. destruct m.
  - destruct (discardable c j && (L <=? len q)) eqn:E; cbn [fst]; [exact Hq|].
    unfold disc_count. rewrite filter_app, len_app. cbn [filter].
    destruct (discardable c j) eqn:Edj.
    + cbn [andb] in E. apply N.leb_gt in E. pose proof (disc_count_le q). unfold disc_count in *.
      unfold len at 2. cbn [length]. lia.
    + unfold len at 2. cbn [length]. unfold disc_count in Hq. lia.
  - pose proof (shed_fq_len (c_queue c) (length (q ++ [j])) (q ++ [j]) (le_n _)) as H.
    destruct (shed_fq (c_queue c) L (length (q ++ [j])) (q ++ [j])) as [q2 e]. cbn [fst] in *.
    pose proof (disc_count_le q2). lia.
Qed.

(* the shed job's identity, by mode *)
Lemma maybe_enqueue_newest q j : m = Newest ->
  (fst (maybe_enqueue c q j) = q /\ snd (maybe_enqueue c q j) = [EDiscard (jid j) Loadshed; EReject (jid j)])
  \/ (fst (maybe_enqueue c q j) = q ++ [j] /\ snd (maybe_enqueue c q j) = [EAccept (jid j)]).
Proof.
  intros ->. unfold maybe_enqueue. rewrite Hd.
  destruct (discardable c j && (L <=? len q)); [left|right]; split; reflexivity.
Qed.

Lemma maybe_enqueue_oldest q j : m = Oldest ->
  exists shed, Permutation (q ++ [j]) (shed ++ fst (maybe_enqueue c q j))
    /\ snd (maybe_enqueue c q j) = EAccept (jid j) :: map (fun x => EDiscard (jid x) Loadshed) shed
    /\ len (fst (maybe_enqueue c q j)) <= L.
Proof.
  intros ->. unfold maybe_enqueue. rewrite Hd.
  pose proof (shed_fq_len (c_queue c) (length (q ++ [j])) (q ++ [j]) (le_n _)) as Hl.
  destruct (shed_fq (c_queue c) L (length (q ++ [j])) (q ++ [j])) as [q2 e] eqn:Es. cbn [fst snd] in *.
  destruct (shed_fq_conserve _ _ _ _ _ Es) as (shed & Hp & ->).
  exists shed. split; [exact Hp|]. split; [reflexivity|exact Hl].
Qed.

(* discard_oldest takes from the lowest priority level, and within it the oldest *)
Lemma remove_first_oldest (p : job -> bool) q x q' :
  remove_first p q = Some (x, q') -> exists a b, q = a ++ x :: b /\ q' = a ++ b /\ forallb (fun j => negb (p j)) a = true.
Proof.
  revert x q'. induction q as [|j r IH]; intros x q'; cbn [remove_first]; [discriminate|].
  destruct (p j) eqn:Ep.
  - intros H; inversion H; subst. exists [], q'. repeat split.
  - destruct (remove_first p r) as [[y r']|] eqn:E; [|discriminate].
    intros H; inversion H; subst. destruct (IH x r' eq_refl) as (a & b & -> & -> & Ha).
    exists (j :: a), b. repeat split. cbn [forallb]. rewrite Ep, Ha. reflexivity.
Qed.

Lemma max_prio_ub k q mx : max_prio k q = Some mx -> forall j, In j q -> eff_prio k j <= mx.
Proof.
  revert mx. induction q as [|x r IH]; intros mx; cbn [max_prio]; [discriminate|].
  destruct (max_prio k r) as [m'|] eqn:E; intros H j [->|Hj]; inversion H; subst.
  - lia.
  - specialize (IH m' eq_refl j Hj). lia.
  - lia.
  - apply max_prio_none in E. subst. contradiction.
Qed.

Lemma discard_oldest_identity k q x q' : discard_oldest k q = Some (x, q') ->
  (forall j, In j q -> eff_prio k j <= eff_prio k x)
  /\ exists a b, q = a ++ x :: b /\ q' = a ++ b /\ forall j, In j a -> eff_prio k j < eff_prio k x.
Proof.
  unfold discard_oldest. destruct (max_prio k q) as [mx|] eqn:E; [|discriminate]. intros H.
  destruct (remove_first_spec _ _ _ _ H) as (_ & Hx & _). apply N.eqb_eq in Hx.
  pose proof (max_prio_ub k q mx E) as Hub. split; [intros j Hj; rewrite Hx; apply Hub; exact Hj|].
  destruct (remove_first_oldest _ _ _ _ H) as (a & b & -> & -> & Ha).
  exists a, b. repeat split. intros j Hj. rewrite forallb_forall in Ha. specialize (Ha j Hj).
  apply negb_true_iff, N.eqb_neq in Ha. specialize (Hub j ltac:(apply in_or_app; left; exact Hj)). lia.
Qed.

(* ---- preservation of QI by every piece of the factory ---- *)

Lemma QI_pool s p : QI s -> Forall wq_ok p -> QI (set_pool s p).
Proof. intros [H1 _] H2. split; assumption. Qed.

Lemma route_inner_QI s j hint s' r e : route_inner c s j hint = (s', r, e) -> QI s -> QI s' /\ f_q s' = f_q s.
Proof.
  unfold route_inner. destruct (choose c (f_rs s) j (f_size s) hint (f_pool s)) as [rs' tgt].
  destruct tgt as [i|].
  2:{ intros H; inversion H; subst. intros HQ. split; [exact HQ|reflexivity]. }
  cbn [set_rs f_pool]. destruct (find_w (f_pool s) i) as [w|] eqn:Ef.
  2:{ intros H; inversion H; subst. intros HQ. split; [exact HQ|reflexivity]. }
  pose proof (enqueue_job_ok w j) as Hok. destruct (enqueue_job c w j) as [w' ev]. cbn [fst] in Hok.
  intros H; inversion H; subst. intros [H1 H2]. split; [|reflexivity].
  split; [exact H1|]. cbn [set_pool set_rs f_pool]. apply Forall_upd_w; [exact H2|].
  apply Hok. eapply find_w_Forall; eassumption.
Qed.

Lemma route_QI s j hint s' r e : route c s j hint = (s', r, e) -> QI s -> QI s' /\ f_q s' = f_q s.
Proof.
  unfold route. destruct (c_rate c) as [[rc ini]|]; [|apply route_inner_QI].
  destruct (f_bucket s) as [b|]; [|apply route_inner_QI].
  destruct (check rc b (f_now s)) as [b' ok]. destruct ok.
  - destruct (route_inner c (set_bucket s (Some b')) j hint) as [[s2 r2] e2] eqn:E.
    intros H HQ. apply route_inner_QI in E; [|exact HQ]. destruct E as [E1 E2].
    destruct r2; inversion H; subst; split; try assumption.
  - intros H; inversion H; subst. intros HQ. split; [|destruct hint as [h|]; [destruct (avail_in _ h)|]; reflexivity].
    destruct hint as [h|]; [destruct (avail_in _ h)|]; exact HQ.
Qed.

Lemma pop_fq_ok q x q' : pop_front (c_queue c) q = Some (x, q') -> fq_ok q -> fq_ok q'.
Proof.
  intros H Hq. destruct (pop_front_spec _ _ _ _ H) as [Hp _]. unfold fq_ok, disc_count in *.
  rewrite (perm_filter_len (discardable c) q (x :: q') Hp) in Hq. cbn [filter] in Hq.
  destruct (discardable c x); [rewrite len_cons in Hq|]; lia.
Qed.

Lemma try_route_QI fuel : forall s hint s' e, try_route c fuel s hint = (s', e) -> QI s -> QI s'.
Proof.
  induction fuel as [|f IH]; intros s hint s' e; cbn [try_route].
  { intros H; inversion H; subst. exact (fun x => x). }
  destruct (pop_front (c_queue c) (f_q s)) as [[j q']|] eqn:Ep.
  2:{ intros H; inversion H; subst. exact (fun x => x). }
  destruct (choose c (f_rs s) j (f_size s) hint (f_pool s)) as [rs' tgt].
  destruct tgt as [i|].
  2:{ intros H; inversion H; subst. exact (fun x => x). }
  destruct (route c (set_fq (set_rs s rs') q') j (Some i)) as [[s2 r] e0] eqn:Er.
  intros H HQ.
  assert (HQ1 : QI (set_fq (set_rs s rs') q')).
  { destruct HQ as [H1 H2]. split; [cbn [set_fq f_q]; eapply pop_fq_ok; eassumption|exact H2]. }
  apply route_QI in Er; [|exact HQ1]. destruct Er as [HQ2 _].
  destruct r.
  - inversion H; subst. exact HQ2.
  - inversion H; subst. exact HQ2.
  - destruct (try_route c f s2 hint) as [s3 e'] eqn:Et. inversion H; subst.
    eapply IH; eassumption.
Qed.

Lemma mark_available_QI s i : QI s -> QI (mark_available c s i).
Proof. unfold mark_available. destruct (avail_in (f_pool s) i); exact (fun x => x). Qed.

Lemma dispatch_QI s j s' e : dispatch c s j = (s', e) -> QI s -> QI s'.
Proof.
  unfold dispatch. destruct (f_drain s).
  2,3: intros H; inversion H; subst; exact (fun x => x).
  destruct (route c s j None) as [[s1 r] e1] eqn:Er. intros H HQ.
  apply route_QI in Er; [|exact HQ]. destruct Er as [[H1 H2] _].
  destruct r; inversion H; subst; try (split; assumption).
  pose proof (maybe_enqueue_ok (f_q s1) j H1) as Hm.
  destruct (maybe_enqueue c (f_q s1) j) as [q' e']. inversion H; subst. split; [exact Hm|exact H2].
Qed.

Lemma worker_complete_ok w : wq_ok w -> wq_ok (fst (worker_complete w)).
Proof.
  intros Hw Hn. specialize (Hw Hn). unfold worker_complete, wbound in *.
  destruct (w_q w) as [|j r] eqn:E; unfold dispatch_job; cbn [set_q set_cur w_alive];
    destruct (w_alive w) eqn:Ea; cbn [fst w_q w_alive set_q set_cur]; rewrite ?E, ?Ea;
    rewrite ?len_cons in *; try exact Hw; lia.
Qed.

Lemma worker_finished_QI s i s' e : worker_finished c s i = (s', e) -> QI s -> QI s'.
Proof.
  unfold worker_finished. destruct (find_w (f_pool s) i) as [w|] eqn:Ef.
  2:{ intros H; inversion H; subst. exact (fun x => x). }
  pose proof (worker_complete_ok w) as Hok. destruct (worker_complete w) as [w' e1]. cbn [fst] in Hok.
  intros H [H1 H2].
  assert (HQ1 : QI (set_pool s (upd_w (f_pool s) w'))).
  { split; [exact H1|]. apply Forall_upd_w; [exact H2|]. apply Hok. eapply find_w_Forall; eassumption. }
  destruct (w_drain w').
  - destruct (w_working w'); inversion H; subst; [exact HQ1|].
    destruct HQ1 as [A B]. split; [exact A|]. apply Forall_remove_w. exact B.
  - unfold try_route_next in H.
    destruct (try_route c _ (set_pool s (upd_w (f_pool s) w')) (Some i)) as [s2 e'] eqn:Et.
    inversion H; subst. apply mark_available_QI. eapply try_route_QI; eassumption.
Qed.

Lemma worker_died_QI s i s' e : worker_died c s i = (s', e) -> QI s -> QI s'.
Proof.
  unfold worker_died. destruct (find_w (f_pool s) i) as [w|] eqn:Ef.
  2:{ intros H; inversion H; subst. exact (fun x => x). }
  destruct (w_drain w && match w_q w with [] => true | _ => false end).
  { intros H [H1 H2]; inversion H; subst. split; [exact H1|].
    cbn [set_pool set_rs f_pool]. apply Forall_remove_w. exact H2. }
  unfold build. cbn [set_builds f_pool].
  intros H [H1 H2].
  pose proof (find_w_Forall _ _ _ _ H2 Ef) as Hw.
  set (w0 := mkW (w_id w) None (w_q w) (w_drain w) (assoc i (f_builds s) + 1) true) in *.
  assert (Hw1 : wq_ok (fst (match w_q w0 with j :: r => dispatch_job (set_q w0 r) j | [] => (w0, []) end))).
  { intros Hn. specialize (Hw Hn). pose proof L_le_dead as Hld. unfold wbound, dead_bound in *.
    unfold w0. cbn [w_q]. destruct (w_q w) as [|j r]; unfold dispatch_job; cbn [set_q fst w_q w_alive].
    - unfold len. cbn [length]. lia.
    - rewrite len_cons in Hw. destruct (w_alive w), m; lia. }
  destruct (match w_q w0 with j :: r => dispatch_job (set_q w0 r) j | [] => (w0, []) end) as [w1 e1].
  cbn [fst] in Hw1. unfold try_route_next in H.
  match type of H with context [try_route c ?f ?st (Some i)] => destruct (try_route c f st (Some i)) as [s2 e'] eqn:Et end.
  inversion H; subst. apply mark_available_QI. eapply try_route_QI; [eassumption|].
  split; [exact H1|]. cbn [set_pool set_builds f_pool]. apply Forall_upd_w; assumption.
Qed.

Lemma grow_QI n : forall s from, QI s -> QI (grow c s from n).
Proof.
  induction n as [|k IH]; intros s from HQ; cbn [grow]; [exact HQ|]. apply IH.
  destruct (find_w (f_pool s) from) as [w|] eqn:Ef.
  - apply mark_available_QI. destruct HQ as [H1 H2]. split; [exact H1|].
    cbn [set_pool f_pool]. apply Forall_upd_w; [exact H2|].
    pose proof (find_w_Forall _ _ _ _ H2 Ef) as Hw. exact Hw.
  - unfold build. destruct HQ as [H1 H2]. split; [exact H1|].
    cbn [set_rs set_pool set_builds f_pool]. apply Forall_app. split; [exact H2|].
    constructor; [|constructor]. intros _. unfold len. cbn [w_q length]. lia.
Qed.

Lemma shrink_QI n : forall s from, QI s -> QI (shrink c s from n).
Proof.
  induction n as [|k IH]; intros s from HQ; cbn [shrink]; [exact HQ|]. apply IH.
  destruct (find_w (f_pool s) from) as [w|] eqn:Ef; [|exact HQ].
  destruct HQ as [H1 H2]. destruct (w_working w).
  - split; [exact H1|]. cbn [set_pool f_pool]. apply Forall_upd_w; [exact H2|].
    exact (find_w_Forall _ _ _ _ H2 Ef).
  - split; [exact H1|]. cbn [set_pool set_rs f_pool]. apply Forall_remove_w. exact H2.
Qed.

Lemma route_queued_QI n : forall s s' e, route_queued c s n = (s', e) -> QI s -> QI s'.
Proof.
  induction n as [|k IH]; intros s s' e; cbn [route_queued].
  { intros H; inversion H; subst. exact (fun x => x). }
  destruct (f_q s) eqn:Eq.
  { intros H; inversion H; subst. exact (fun x => x). }
  unfold try_route_next. destruct (try_route c _ s None) as [s1 e1] eqn:Et.
  destruct (route_queued c s1 k) as [s2 e2] eqn:Er. intros H HQ. inversion H; subst.
  eapply IH; [eassumption|]. eapply try_route_QI; eassumption.
Qed.

Lemma route_backlog_QI n : forall s s' e, route_backlog c s n = (s', e) -> QI s -> QI s'.
Proof.
  induction n as [|k IH]; intros s s' e; cbn [route_backlog].
  { intros H; inversion H; subst. exact (fun x => x). }
  destruct (f_q s) eqn:Eq.
  { intros H; inversion H; subst. exact (fun x => x). }
  unfold try_route_next. destruct (try_route c _ s None) as [s1 e1] eqn:Et.
  destruct (len (j :: l) <=? len (f_q s1)).
  - intros H HQ. inversion H; subst. eapply try_route_QI; eassumption.
  - destruct (route_backlog c s1 k) as [s2 e2] eqn:Er. intros H HQ. inversion H; subst.
    eapply IH; [eassumption|]. eapply try_route_QI; eassumption.
Qed.

Lemma resize_QI s n s' e : resize c s n = (s', e) -> QI s -> QI s'.
Proof.
  unfold resize. destruct (n =? 0).
  { intros H; inversion H; subst. exact (fun x => x). }
  destruct (f_size s <? N.min pool_max n).
  - intros H HQ.
    assert (HG : QI (set_size (grow c s (f_size s) (N.to_nat (N.min pool_max n - f_size s))) (N.min pool_max n))).
    { pose proof (grow_QI (N.to_nat (N.min pool_max n - f_size s)) s (f_size s) HQ) as [A B]. split; assumption. }
    destruct (factory_queueing c); [eapply route_queued_QI|eapply route_backlog_QI]; eassumption.
  - destruct (N.min pool_max n <? f_size s); intros H HQ; inversion H; subst; [|exact HQ].
    pose proof (shrink_QI (N.to_nat (f_size s - N.min pool_max n)) s (N.min pool_max n) HQ) as [A B]. split; assumption.
Qed.


Lemma QI_nil s : QI (fst (stop_factory s)).
Proof. split; cbn; [unfold fq_ok, disc_count, len; cbn; lia|constructor]. Qed.

Lemma after_message_QI s s' e : after_message s = (s', e) -> QI s -> QI s'.
Proof.
  unfold after_message. destruct (f_drain s).
  - intros H; inversion H; subst. exact (fun x => x).
  - destruct (all_available (f_pool s) && (len (f_q s) =? 0)); intros H; inversion H; subst; [|exact (fun x => x)].
    intros _. apply (QI_nil (set_dstate s Drained)).
  - intros H; inversion H; subst. intros _. apply QI_nil.
Qed.

Lemma with_after_QI r s' e : with_after r = (s', e) -> QI (fst r) -> QI s'.
Proof.
  destruct r as [s0 e0]. unfold with_after. destruct (after_message s0) as [s1 e1] eqn:E.
  intros H; inversion H; subst. cbn [fst]. eapply after_message_QI; eassumption.
Qed.

Lemma finish_w_QI s i only s' e : finish_w c s i only = (s', e) -> QI s -> QI s'.
Proof.
  unfold finish_w. destruct (f_stopped s).
  { intros H; inversion H; subst. exact (fun x => x). }
  destruct (find_w (f_pool s) i) as [w|]; [|intros H; inversion H; subst; exact (fun x => x)].
  destruct (w_cur w) as [j|]; [|intros H; inversion H; subst; exact (fun x => x)].
  destruct (match only with Some id => jid j =? id | None => true end);
    [|intros H; inversion H; subst; exact (fun x => x)].
  destruct (with_after (worker_finished c s i)) as [s1 e1] eqn:E. intros H; inversion H; subst. intros HQ.
  eapply with_after_QI; [exact E|]. destruct (worker_finished c s i) as [s0 e0] eqn:Ew. cbn [fst].
  eapply worker_finished_QI; eassumption.
Qed.

Lemma finish_list_QI l : forall s s' e, finish_list c s l = (s', e) -> QI s -> QI s'.
Proof.
  induction l as [|[i id] r IH]; intros s s' e; cbn [finish_list].
  { intros H; inversion H; subst. exact (fun x => x). }
  destruct (finish_w c s i (Some id)) as [s1 e1] eqn:E1. destruct (finish_list c s1 r) as [s2 e2] eqn:E2.
  intros H HQ; inversion H; subst. eapply IH; [eassumption|]. eapply finish_w_QI; eassumption.
Qed.

Lemma tick_calc_QI s s' e : tick_calc c s = (s', e) -> QI s -> QI s'.
Proof.
  unfold tick_calc. destruct (fst (f_scripts s)) as [|n rest]; [intros H; inversion H; subst; exact (fun x => x)|].
  destruct (n =? f_size (set_scripts s (rest, snd (f_scripts s)))); [intros H; inversion H; subst; exact (fun x => x)|].
  intros H HQ. eapply resize_QI; [exact H|exact HQ].
Qed.

Lemma tick_ping_QI s : QI s -> QI (fst (tick_ping s)).
Proof.
  unfold tick_ping. destruct (snd (f_scripts s)) as [|l rest]; [exact (fun x => x)|].
  destruct (f_discard s) as [[l0 m0]|]; exact (fun x => x).
Qed.

Lemma step_QI0 s o : QI s -> QI (fst (step0 c s o)).
Proof.
  intros HQ. destruct o as [j|i| |i|i|n| |dt| | |i|i|d| |]; cbn [step0].
  11:{ destruct (f_stopped s); [exact HQ|]. destruct (find_w (f_pool s) i) as [w|] eqn:Ef; [|exact HQ].
       destruct (w_alive w && match w_cur w with None => true | Some _ => false end) eqn:Ec; [|exact HQ].
       cbn [fst]. destruct HQ as [H1 H2]. split; [exact H1|]. cbn [set_pool f_pool].
       apply Forall_upd_w; [exact H2|]. pose proof (find_w_Forall _ _ _ _ H2 Ef) as Hw.
       intros Hn. specialize (Hw Hn). apply andb_true_iff in Ec. destruct Ec as [Ea _].
       unfold wbound in *. cbn [set_alive w_q w_alive]. rewrite Ea in Hw. pose proof L_le_dead. lia. }
  11:{ destruct (f_stopped s); [exact HQ|]. destruct (find_w (f_pool s) i) as [w|]; [|exact HQ].
       destruct (w_alive w); [exact HQ|]. destruct (worker_died c s i) as [s' e] eqn:E. cbn [fst].
       eapply worker_died_QI; eassumption. }
  11:{ destruct (f_stopped s); [exact HQ|].
       destruct (with_after (set_discard (set_scripts s (fst (f_scripts s), [])) d, [])) as [s' e] eqn:E. cbn [fst].
       eapply with_after_QI; [exact E|]. exact HQ. }
  11:{ destruct (f_stopped s); [exact HQ|].
       destruct (with_after (s, @nil ev)) as [s' e] eqn:E. cbn [fst]. eapply with_after_QI; [exact E|]. exact HQ. }
  11:{ destruct (f_stopped s); [exact HQ|].
       assert (HQ0 : QI (set_now s (f_now s + tick_ns))) by exact HQ.
       destruct (tick_calc c (set_now s (f_now s + tick_ns))) as [sa ea] eqn:Ec.
       pose proof (tick_calc_QI _ _ _ Ec HQ0) as HQa.
       destruct (with_after (sa, ea)) as [s1 e1] eqn:E1.
       assert (HQ1 : QI s1) by (eapply with_after_QI; [exact E1|exact HQa]).
       destruct (f_stopped s1); [exact HQ1|].
       pose proof (tick_ping_QI s1 HQ1) as HQp. destruct (tick_ping s1) as [sp0 ep0] eqn:Ep. cbn [fst] in HQp.
       destruct (with_after (sp0, ep0)) as [s2 e2] eqn:E2. cbn [fst].
       eapply with_after_QI; [exact E2|exact HQp]. }
  - destruct (f_stopped s); [exact HQ|].
    destruct (with_after (dispatch c s j)) as [s' e] eqn:E. cbn [fst].
    eapply with_after_QI; [exact E|]. destruct (dispatch c s j) as [s0 e0] eqn:Ed. cbn [fst].
    eapply dispatch_QI; eassumption.
  - destruct (finish_w c s i None) as [s' e] eqn:E. cbn [fst]. eapply finish_w_QI; eassumption.
  - destruct (finish_list c s (busy_snapshot s)) as [s' e] eqn:E. cbn [fst]. eapply finish_list_QI; eassumption.
  - destruct (f_stopped s); [exact HQ|]. destruct (find_w (f_pool s) i) as [w|]; [|exact HQ].
    destruct (w_cur w); [|exact HQ]. destruct (worker_died c s i) as [s' e] eqn:E. cbn [fst].
    eapply worker_died_QI; eassumption.
  - destruct (f_stopped s); [exact HQ|]. destruct (worker_died c s i) as [s' e] eqn:E. cbn [fst].
    eapply worker_died_QI; eassumption.
  - destruct (f_stopped s); [exact HQ|].
    destruct (with_after (resize c s n)) as [s' e] eqn:E. cbn [fst].
    eapply with_after_QI; [exact E|]. destruct (resize c s n) as [s0 e0] eqn:Ed. cbn [fst].
    eapply resize_QI; eassumption.
  - destruct (f_stopped s); [exact HQ|].
    destruct (with_after (set_dstate s Draining, [EHook HDraining])) as [s' e] eqn:E. cbn [fst].
    eapply with_after_QI; [exact E|]. exact HQ.
  - exact HQ.
  - exact HQ.
  - destruct (f_stopped s); [exact HQ|]. destruct (after_message s) as [s1 e1] eqn:E.
    pose proof (after_message_QI _ _ _ E HQ). destruct (f_stopped s1); exact H.
Qed.

Lemma init_QI t0 : QI (fst (init c t0)).
Proof.
  unfold init. cbn [fst].
  match goal with |- QI (set_size (grow c ?s0 0 ?n) _) =>
    assert (H : QI s0) by (split; [unfold fq_ok, disc_count, len; cbn; lia|constructor]);
    pose proof (grow_QI n s0 0 H) as [A B] end.
  split; assumption.
Qed.

End QueueBound.

(* ---- the discard settings change only at an UpdateSettings label ---- *)

Lemma route_inner_disc c s j hint s' r e : route_inner c s j hint = (s', r, e) -> f_discard s' = f_discard s.
Proof.
  unfold route_inner. destruct (choose c (f_rs s) j (f_size s) hint (f_pool s)) as [rs' [i|]];
    [|intros H; inversion H; reflexivity].
  cbn [set_rs f_pool]. destruct (find_w (f_pool s) i) as [w|]; [|intros H; inversion H; reflexivity].
  destruct (enqueue_job c w j) as [w' ev]. intros H; inversion H; reflexivity.
Qed.

Lemma route_disc c s j hint s' r e : route c s j hint = (s', r, e) -> f_discard s' = f_discard s.
Proof.
  unfold route. destruct (c_rate c) as [[rc ini]|]; [|apply route_inner_disc].
  destruct (f_bucket s) as [b|]; [|apply route_inner_disc].
  destruct (check rc b (f_now s)) as [b' ok]. destruct ok.
  - destruct (route_inner c (set_bucket s (Some b')) j hint) as [[s2 r2] e2] eqn:E.
    apply route_inner_disc in E. intros H. destruct r2; inversion H; subst; exact E.
  - intros H; inversion H; subst. destruct hint as [h|]; [destruct (avail_in _ h)|]; reflexivity.
Qed.

Lemma try_route_disc c fuel : forall s hint s' e, try_route c fuel s hint = (s', e) -> f_discard s' = f_discard s.
Proof.
  induction fuel as [|f IH]; intros s hint s' e; cbn [try_route]; [intros H; inversion H; reflexivity|].
  destruct (pop_front (c_queue c) (f_q s)) as [[j q']|]; [|intros H; inversion H; reflexivity].
  destruct (choose c (f_rs s) j (f_size s) hint (f_pool s)) as [rs' [i|]]; [|intros H; inversion H; reflexivity].
  destruct (route c (set_fq (set_rs s rs') q') j (Some i)) as [[s2 r] e0] eqn:Er.
  apply route_disc in Er. cbn [set_fq set_rs f_discard] in Er. intros H. destruct r.
  - inversion H; subst. exact Er.
  - inversion H; subst. exact Er.
  - destruct (try_route c f s2 hint) as [s3 e'] eqn:Et. inversion H; subst.
    rewrite (IH _ _ _ _ Et). exact Er.
Qed.

Lemma mark_available_disc c s i : f_discard (mark_available c s i) = f_discard s.
Proof. unfold mark_available. destruct (avail_in (f_pool s) i); reflexivity. Qed.

Lemma dispatch_disc c s j s' e : dispatch c s j = (s', e) -> f_discard s' = f_discard s.
Proof.
  unfold dispatch. destruct (f_drain s); try (intros H; inversion H; reflexivity).
  destruct (route c s j None) as [[s1 r] e1] eqn:Er. apply route_disc in Er. intros H.
  destruct r; inversion H; subst; try exact Er.
  destruct (maybe_enqueue c (f_q s1) j) as [q' e']. inversion H; subst. exact Er.
Qed.

Lemma worker_finished_disc c s i s' e : worker_finished c s i = (s', e) -> f_discard s' = f_discard s.
Proof.
  unfold worker_finished. destruct (find_w (f_pool s) i) as [w|]; [|intros H; inversion H; reflexivity].
  destruct (worker_complete w) as [w' e1]. destruct (w_drain w').
  - destruct (w_working w'); intros H; inversion H; reflexivity.
  - unfold try_route_next.
    match goal with |- context [try_route c ?f ?st (Some i)] => destruct (try_route c f st (Some i)) as [s2 e'] eqn:Et end.
    intros H; inversion H; subst. rewrite mark_available_disc. apply try_route_disc in Et. exact Et.
Qed.

Lemma worker_died_disc c s i s' e : worker_died c s i = (s', e) -> f_discard s' = f_discard s.
Proof.
  unfold worker_died. destruct (find_w (f_pool s) i) as [w|]; [|intros H; inversion H; reflexivity].
  destruct (w_drain w && match w_q w with [] => true | _ => false end); [intros H; inversion H; reflexivity|].
  unfold build, try_route_next. cbn [set_builds f_pool].
  set (w0 := mkW (w_id w) None (w_q w) (w_drain w) (assoc i (f_builds s) + 1) true).
  destruct (match w_q w0 with j :: r => dispatch_job (set_q w0 r) j | [] => (w0, []) end) as [w1 e1].
  match goal with |- context [try_route c ?f ?st (Some i)] => destruct (try_route c f st (Some i)) as [s2 e'] eqn:Et end.
  intros H; inversion H; subst. rewrite mark_available_disc. apply try_route_disc in Et. exact Et.
Qed.

Lemma grow_disc c k : forall s from, f_discard (grow c s from k) = f_discard s.
Proof.
  induction k as [|k IH]; intros s from; cbn [grow]; [reflexivity|]. rewrite IH.
  destruct (find_w (f_pool s) from); [rewrite mark_available_disc|]; reflexivity.
Qed.

Lemma shrink_disc c k : forall s from, f_discard (shrink c s from k) = f_discard s.
Proof.
  induction k as [|k IH]; intros s from; cbn [shrink]; [reflexivity|]. rewrite IH.
  destruct (find_w (f_pool s) from) as [w|]; [destruct (w_working w)|]; reflexivity.
Qed.

Lemma route_queued_disc c n : forall s s' e, route_queued c s n = (s', e) -> f_discard s' = f_discard s.
Proof.
  induction n as [|k IH]; intros s s' e; cbn [route_queued]; [intros H; inversion H; reflexivity|].
  destruct (f_q s); [intros H; inversion H; reflexivity|].
  unfold try_route_next. destruct (try_route c _ s None) as [s1 e1] eqn:Et.
  destruct (route_queued c s1 k) as [s2 e2] eqn:Er. intros H. inversion H; subst.
  rewrite (IH _ _ _ Er). eapply try_route_disc; eassumption.
Qed.

Lemma route_backlog_disc c n : forall s s' e, route_backlog c s n = (s', e) -> f_discard s' = f_discard s.
Proof.
  induction n as [|k IH]; intros s s' e; cbn [route_backlog]; [intros H; inversion H; reflexivity|].
  destruct (f_q s) eqn:Eq; [intros H; inversion H; reflexivity|].
  unfold try_route_next. destruct (try_route c _ s None) as [s1 e1] eqn:Et.
  destruct (len (j :: l) <=? len (f_q s1)).
  - intros H. inversion H; subst. eapply try_route_disc; eassumption.
  - destruct (route_backlog c s1 k) as [s2 e2] eqn:Er. intros H. inversion H; subst.
    rewrite (IH _ _ _ Er). eapply try_route_disc; eassumption.
Qed.

Lemma resize_disc c s n s' e : resize c s n = (s', e) -> f_discard s' = f_discard s.
Proof.
  unfold resize. destruct (n =? 0); [intros H; inversion H; reflexivity|].
  destruct (f_size s <? N.min pool_max n).
  - intros H. assert (E : f_discard s' = f_discard (set_size (grow c s (f_size s) (N.to_nat (N.min pool_max n - f_size s))) (N.min pool_max n))).
    { destruct (factory_queueing c); [eapply route_queued_disc|eapply route_backlog_disc]; eassumption. }
    rewrite E. cbn [set_size f_discard]. apply grow_disc.
  - destruct (N.min pool_max n <? f_size s); intros H; inversion H; subst; [|reflexivity].
    cbn [set_size f_discard]. apply shrink_disc.
Qed.

Lemma after_message_disc s : f_discard (fst (after_message s)) = f_discard s.
Proof.
  unfold after_message. destruct (f_drain s); [reflexivity| |reflexivity].
  destruct (all_available (f_pool s) && (len (f_q s) =? 0)); reflexivity.
Qed.

Lemma with_after_disc r : f_discard (fst (with_after r)) = f_discard (fst r).
Proof.
  destruct r as [s0 e0]. unfold with_after. pose proof (after_message_disc s0) as H.
  destruct (after_message s0) as [s1 e1]. exact H.
Qed.

Lemma finish_w_disc c s i only : f_discard (fst (finish_w c s i only)) = f_discard s.
Proof.
  unfold finish_w. destruct (f_stopped s); [reflexivity|].
  destruct (find_w (f_pool s) i) as [w|]; [|reflexivity]. destruct (w_cur w) as [j|]; [|reflexivity].
  destruct (match only with Some id => jid j =? id | None => true end); [|reflexivity].
  destruct (worker_finished c s i) as [s0 e0] eqn:Ew. pose proof (with_after_disc (s0, e0)) as H.
  destruct (with_after (s0, e0)) as [s1 e1]. cbn [fst] in *. rewrite H. eapply worker_finished_disc; eassumption.
Qed.

Lemma finish_list_disc c l : forall s, f_discard (fst (finish_list c s l)) = f_discard s.
Proof.
  induction l as [|[i id] r IH]; intros s; cbn [finish_list]; [reflexivity|].
  pose proof (finish_w_disc c s i (Some id)) as H1. destruct (finish_w c s i (Some id)) as [s1 e1]. cbn [fst] in H1.
  specialize (IH s1). destruct (finish_list c s1 r) as [s2 e2]. cbn [fst] in *. congruence.
Qed.

(* labels that can change the discard settings in force: UpdateSettings, and a tick (Dynamic limit) *)
Definition is_update (o : fop) : bool := match o with FUpdate _ | FTick => true | _ => false end.

Lemma step0_disc c s o : is_update o = false -> f_discard (fst (step0 c s o)) = f_discard s.
Proof.
  intros Ho. destruct o as [j|i| |i|i|n| |dt| | |i|i|d| |]; cbn [step0]; try discriminate.
  - destruct (f_stopped s); [reflexivity|]. rewrite with_after_disc.
    destruct (dispatch c s j) as [s0 e0] eqn:E. cbn [fst]. eapply dispatch_disc; eassumption.
  - apply finish_w_disc.
  - apply finish_list_disc.
  - destruct (f_stopped s); [reflexivity|]. destruct (find_w (f_pool s) i) as [w|]; [|reflexivity].
    destruct (w_cur w); [|reflexivity]. destruct (worker_died c s i) as [s' e] eqn:E. cbn [fst].
    eapply worker_died_disc; eassumption.
  - destruct (f_stopped s); [reflexivity|]. destruct (worker_died c s i) as [s' e] eqn:E. cbn [fst].
    eapply worker_died_disc; eassumption.
  - destruct (f_stopped s); [reflexivity|]. rewrite with_after_disc.
    destruct (resize c s n) as [s0 e0] eqn:E. cbn [fst]. eapply resize_disc; eassumption.
  - destruct (f_stopped s); [reflexivity|]. rewrite with_after_disc. reflexivity.
  - reflexivity.
  - reflexivity.
  - destruct (f_stopped s); [reflexivity|]. pose proof (after_message_disc s) as H.
    destruct (after_message s) as [s1 e1]. cbn [fst] in H. destruct (f_stopped s1); exact H.
  - destruct (f_stopped s); [reflexivity|]. destruct (find_w (f_pool s) i) as [w|]; [|reflexivity].
    destruct (w_alive w && match w_cur w with None => true | Some _ => false end); reflexivity.
  - destruct (f_stopped s); [reflexivity|]. destruct (find_w (f_pool s) i) as [w|]; [|reflexivity].
    destruct (w_alive w); [reflexivity|]. destruct (worker_died c s i) as [s' e] eqn:E. cbn [fst].
    eapply worker_died_disc; eassumption.
  - destruct (f_stopped s); [reflexivity|]. rewrite with_after_disc. reflexivity.
Qed.

Lemma step_disc c s o : is_update o = false -> f_discard (fst (step c s o)) = f_discard s.
Proof. unfold step. apply step0_disc. Qed.

(* an UpdateSettings label installs the new settings and touches no queue (no retroactive
   shedding); it is the only label that changes them *)
Lemma step_update c s d :
  f_stopped s = false ->
  f_discard (fst (step c s (FUpdate d))) = d
  /\ (f_stopped (fst (step c s (FUpdate d))) = false ->
      f_q (fst (step c s (FUpdate d))) = f_q s /\ f_pool (fst (step c s (FUpdate d))) = f_pool s).
Proof.
  intros Hns. unfold step. cbn [step0]. rewrite Hns. unfold with_after.
  set (s0 := set_discard (set_scripts s (fst (f_scripts s), [])) d).
  assert (H0 : f_discard s0 = d /\ f_q s0 = f_q s /\ f_pool s0 = f_pool s /\ f_drain s0 = f_drain s)
    by (repeat split).
  destruct H0 as (A & B & C & D). clearbody s0.
  pose proof (after_message_disc s0) as Hd. unfold after_message in *. rewrite D in *.
  destruct (f_drain s).
  - cbn [fst] in *. split; [congruence|intros _; split; assumption].
  - destruct (all_available (f_pool s0) && (len (f_q s0) =? 0)).
    + unfold stop_factory in *. cbn [fst f_discard f_stopped set_dstate] in *. split; [congruence|discriminate].
    + cbn [fst] in *. split; [congruence|intros _; split; assumption].
  - unfold stop_factory in *. cbn [fst f_discard f_stopped] in *. split; [congruence|discriminate].
Qed.

Lemma step_QI c L m K s o :
  f_discard s = Some (L, m) -> QI c L m K s -> QI c L m K (fst (step c s o)).
Proof.
  intros Hd HQ. unfold step, cfg_now. rewrite Hd.
  exact (step_QI0 (with_discard c (Some (L, m))) L m K eq_refl s o HQ).
Qed.

Lemma state_after_QI c L m K ops : forall s,
  forallb (fun o => negb (is_update o)) ops = true ->
  f_discard s = Some (L, m) -> QI c L m K s ->
  QI c L m K (state_after c s ops) /\ f_discard (state_after c s ops) = Some (L, m).
Proof.
  induction ops as [|o r IH]; intros s Hno Hd HQ; cbn [state_after]; [split; assumption|].
  cbn [forallb] in Hno. apply andb_true_iff in Hno. destruct Hno as [Ho Hr]. apply negb_true_iff in Ho.
  apply IH; [exact Hr| |].
  - rewrite step_disc by exact Ho. exact Hd.
  - apply step_QI; assumption.
Qed.

(* Limits.  Settings (L, m) in force -- from the start or installed by an UpdateSettings label at
   any point of any history -- and every queue within max(L, K) at that moment (K = 0: within the
   limit; K > 0: what a lowered limit found in the queues, nothing is shed retroactively).  Then
   after EVERY further label sequence without another settings update (dispatch bursts,
   completions, failures, kills, stopping workers, resizes, drain, time): the factory queue holds
   at most max(L, K) discardable jobs, every living worker's own queue at most max(L, K) jobs when
   the router queues at the workers, and a worker whose actor is stopping at most max(L', K) with
   L' = L (Oldest) or max(L, 1) (Newest). *)
Theorem queue_bound_from c L m K s ops :
  forallb (fun o => negb (is_update o)) ops = true ->
  f_discard s = Some (L, m) -> QI c L m K s ->
  let s' := state_after c s ops in
  len (filter (discardable c) (f_q s')) <= N.max L K
  /\ (factory_queueing c = false -> forall w, In w (f_pool s') ->
      len (w_q w) <= N.max (if w_alive w then L else match m with Oldest => L | Newest => N.max L 1 end) K).
Proof.
  intros Hno Hd HQ s'. destruct (state_after_QI c L m K ops s Hno Hd HQ) as [[H1 H2] _].
  split; [exact H1|]. intros Hn w Hw. rewrite Forall_forall in H2. apply (H2 w Hw Hn).
Qed.

(* from the start, with the limit given at construction *)
Theorem queue_bound c L m ops :
  c_discard c = Some (L, m) -> forallb (fun o => negb (is_update o)) ops = true ->
  let s := state_after c (fst (init c 0)) ops in
  len (filter (discardable c) (f_q s)) <= L
  /\ (factory_queueing c = false -> forall w, In w (f_pool s) ->
      len (w_q w) <= (if w_alive w then L else match m with Oldest => L | Newest => N.max L 1 end)).
Proof.
  intros Hd Hno s.
  assert (Hi : f_discard (fst (init c 0)) = Some (L, m)).
  { unfold init. cbn [fst set_size f_discard]. rewrite grow_disc. exact Hd. }
  pose proof (queue_bound_from c L m 0 (fst (init c 0)) ops Hno Hi (init_QI c L m 0 0)) as [A B].
  rewrite N.max_0_r in A. split; [exact A|]. intros Hn w Hw. specialize (B Hn w Hw). rewrite N.max_0_r in B. exact B.
Qed.

(* ------------------------------------------------------------------ *)
(* C15_resize_converges                                                 *)

Lemma find_w_id p i w : find_w p i = Some w -> w_id w = i.
Proof. intros H. apply find_w_In in H. apply H. Qed.

Lemma find_upd_w p x i :
  find_w (upd_w p x) i =
  if w_id x =? i then (match find_w p i with Some _ => Some x | None => None end) else find_w p i.
Proof.
  induction p as [|w r IH]; cbn [upd_w find_w].
  - destruct (w_id x =? i); reflexivity.
  - destruct (N.eqb_spec (w_id w) (w_id x)) as [E|E]; cbn [find_w].
    + destruct (N.eqb_spec (w_id x) i) as [E2|E2].
      * rewrite E, E2, N.eqb_refl. reflexivity.
      * rewrite E. destruct (N.eqb_spec (w_id x) i); [contradiction|reflexivity].
    + destruct (N.eqb_spec (w_id w) i) as [E3|E3].
      * destruct (N.eqb_spec (w_id x) i) as [E2|E2]; [congruence|reflexivity].
      * exact IH.
Qed.

Lemma find_remove_w p i j : find_w (remove_w p i) j = if i =? j then None else find_w p j.
Proof.
  unfold remove_w. induction p as [|w r IH]; cbn [filter find_w].
  - destruct (i =? j); reflexivity.
  - destruct (N.eqb_spec (w_id w) i) as [E|E]; cbn [negb find_w].
    + rewrite IH. destruct (N.eqb_spec i j) as [E2|E2]; [reflexivity|].
      destruct (N.eqb_spec (w_id w) j); [congruence|reflexivity].
    + destruct (N.eqb_spec (w_id w) j) as [E3|E3].
      * destruct (N.eqb_spec i j); [congruence|reflexivity].
      * exact IH.
Qed.

Lemma find_app_new p x i :
  find_w (p ++ [x]) i = match find_w p i with Some w => Some w | None => if w_id x =? i then Some x else None end.
Proof.
  induction p as [|w r IH]; cbn [app find_w]; [reflexivity|].
  destruct (w_id w =? i); [reflexivity|exact IH].
Qed.

(* same slots, same draining / alive flags, busy living workers stay busy *)
Definition wle (w w' : worker) : Prop :=
  w_drain w' = w_drain w /\ w_alive w' = w_alive w
  /\ (w_alive w = true -> w_working w = true -> w_working w' = true).

Lemma wle_refl w : wle w w.
Proof. repeat split. exact (fun _ x => x). Qed.

Lemma wle_trans a b d : wle a b -> wle b d -> wle a d.
Proof.
  intros (A1 & A2 & A3) (B1 & B2 & B3). repeat split; try congruence.
  intros Ha Hw. apply B3; [congruence|]. apply A3; assumption.
Qed.

Definition ple (p p' : list worker) : Prop :=
  forall i, match find_w p i, find_w p' i with
            | Some w, Some w' => wle w w'
            | None, None => True
            | _, _ => False
            end.

Lemma ple_refl p : ple p p.
Proof. intros i. destruct (find_w p i); [apply wle_refl|exact I]. Qed.

Lemma ple_trans p q r : ple p q -> ple q r -> ple p r.
Proof.
  intros H1 H2 i. specialize (H1 i). specialize (H2 i).
  destruct (find_w p i), (find_w q i), (find_w r i); try contradiction; try exact I.
  eapply wle_trans; eassumption.
Qed.

Lemma ple_upd p i w x :
  find_w p i = Some w -> w_id x = i -> wle w x -> ple p (upd_w p x).
Proof.
  intros Hf Hid Hw j. rewrite find_upd_w. rewrite Hid.
  destruct (N.eqb_spec i j) as [E|E].
  - subst j. rewrite Hf. exact Hw.
  - destruct (find_w p j); [apply wle_refl|exact I].
Qed.

Lemma enqueue_job_shape c w j :
  let w' := fst (enqueue_job c w j) in w_id w' = w_id w /\ wle w w'.
Proof.
  cbn zeta. rewrite enqueue_job_unfold.
  destruct (match wsettings c with Some (l, Newest) => negb (w_available w) && (l <=? len (w_q w)) | _ => false end);
    [cbn [fst]; split; [reflexivity|apply wle_refl]|].
  pose proof (enq_core_facts w j) as (Hid & Hdr & Hal & Hcur & _). destruct (enq_core w j) as [w1 e1]. cbn [fst] in *.
  assert (Hw : forall q, w_alive w = true -> w_working (set_q w1 q) = true).
  { intros q Ha. specialize (Hcur Ha). unfold w_working, w_available. cbn [set_q w_cur].
    destruct (w_cur w1); [reflexivity|contradiction]. }
  assert (Hw1 : w_alive w = true -> w_working w1 = true).
  { intros Ha. specialize (Hcur Ha). unfold w_working, w_available. destruct (w_cur w1); [reflexivity|contradiction]. }
  destruct (wsettings c) as [[l [|]]|]; cbn [fst set_q w_id w_drain w_alive];
    (split; [exact Hid|]); repeat split; try assumption; intros Ha _; auto.
Qed.

Definition frame (s s' : fstate) : Prop :=
  f_size s' = f_size s /\ f_drain s' = f_drain s /\ f_stopped s' = f_stopped s /\ ple (f_pool s) (f_pool s').

Lemma frame_refl s : frame s s.
Proof. repeat split. apply ple_refl. Qed.

Ltac fr := solve [unfold frame; cbn; repeat split; try reflexivity; try apply ple_refl].

Lemma frame_trans a b d : frame a b -> frame b d -> frame a d.
Proof.
  intros (A1 & A2 & A3 & A4) (B1 & B2 & B3 & B4). repeat split; try congruence. eapply ple_trans; eassumption.
Qed.

Lemma route_inner_frame c s j hint s' r e : route_inner c s j hint = (s', r, e) -> frame s s'.
Proof.
  unfold route_inner. destruct (choose c (f_rs s) j (f_size s) hint (f_pool s)) as [rs' tgt].
  destruct tgt as [i|]; [|intros H; inversion H; subst; fr].
  cbn [set_rs f_pool]. destruct (find_w (f_pool s) i) as [w|] eqn:Ef;
    [|intros H; inversion H; subst; fr].
  pose proof (enqueue_job_shape c w j) as (A & B). destruct (enqueue_job c w j) as [w' ev]. cbn [fst] in *.
  intros H; inversion H; subst. repeat split. cbn [set_pool set_rs f_pool].
  eapply ple_upd; try eassumption. rewrite A. eapply find_w_id; eassumption.
Qed.

Lemma route_frame c s j hint s' r e : route c s j hint = (s', r, e) -> frame s s'.
Proof.
  unfold route. destruct (c_rate c) as [[rc ini]|]; [|apply route_inner_frame].
  destruct (f_bucket s) as [b|]; [|apply route_inner_frame].
  destruct (check rc b (f_now s)) as [b' ok]. destruct ok.
  - destruct (route_inner c (set_bucket s (Some b')) j hint) as [[s2 r2] e2] eqn:E.
    apply route_inner_frame in E. intros H.
    destruct r2; inversion H; subst; exact E.
  - intros H; inversion H; subst.
    destruct hint as [h|]; [destruct (avail_in _ h)|]; fr.
Qed.

Lemma try_route_frame c fuel : forall s hint s' e, try_route c fuel s hint = (s', e) -> frame s s'.
Proof.
  induction fuel as [|f IH]; intros s hint s' e; cbn [try_route].
  { intros H; inversion H; subst. fr. }
  destruct (pop_front (c_queue c) (f_q s)) as [[j q']|]; [|intros H; inversion H; subst; fr].
  destruct (choose c (f_rs s) j (f_size s) hint (f_pool s)) as [rs' tgt].
  destruct tgt as [i|]; [|intros H; inversion H; subst; fr].
  destruct (route c (set_fq (set_rs s rs') q') j (Some i)) as [[s2 r] e0] eqn:Er.
  apply route_frame in Er. intros H. destruct r.
  - inversion H; subst. exact Er.
  - inversion H; subst. exact Er.
  - destruct (try_route c f s2 hint) as [s3 e'] eqn:Et. inversion H; subst.
    eapply frame_trans; [exact Er|]. eapply IH; eassumption.
Qed.

Lemma mark_available_frame c s i : frame s (mark_available c s i).
Proof. unfold mark_available. destruct (avail_in (f_pool s) i); fr. Qed.

Lemma dispatch_frame c s j s' e : dispatch c s j = (s', e) -> frame s s'.
Proof.
  unfold dispatch. destruct (f_drain s); try (intros H; inversion H; subst; fr).
  destruct (route c s j None) as [[s1 r] e1] eqn:Er. apply route_frame in Er. intros H.
  destruct r; inversion H; subst; try exact Er.
  destruct (maybe_enqueue c (f_q s1) j) as [q' e']. inversion H; subst. exact Er.
Qed.

Lemma route_queued_frame c n : forall s s' e, route_queued c s n = (s', e) -> frame s s'.
Proof.
  induction n as [|k IH]; intros s s' e; cbn [route_queued].
  { intros H; inversion H; subst. fr. }
  destruct (f_q s); [intros H; inversion H; subst; fr|].
  unfold try_route_next. destruct (try_route c _ s None) as [s1 e1] eqn:Et.
  destruct (route_queued c s1 k) as [s2 e2] eqn:Er. intros H. inversion H; subst.
  eapply frame_trans; [eapply try_route_frame; eassumption|eapply IH; eassumption].
Qed.

Lemma route_backlog_frame c n : forall s s' e, route_backlog c s n = (s', e) -> frame s s'.
Proof.
  induction n as [|k IH]; intros s s' e; cbn [route_backlog].
  { intros H; inversion H; subst. fr. }
  destruct (f_q s) eqn:Eq; [intros H; inversion H; subst; fr|].
  unfold try_route_next. destruct (try_route c _ s None) as [s1 e1] eqn:Et.
  destruct (len (j :: l) <=? len (f_q s1)).
  - intros H. inversion H; subst. eapply try_route_frame; eassumption.
  - destruct (route_backlog c s1 k) as [s2 e2] eqn:Er. intros H. inversion H; subst.
    eapply frame_trans; [eapply try_route_frame; eassumption|eapply IH; eassumption].
Qed.

Lemma resize_grow_frame c s1 s' e (b : bool) k1 k2 :
  (if b then route_queued c s1 k1 else route_backlog c s1 k2) = (s', e) -> frame s1 s'.
Proof. destruct b; [apply route_queued_frame|apply route_backlog_frame]. Qed.

(* the pool is exactly what the last resize asked for, up to busy workers being retired *)
Definition shape_ok (p : list worker) (n : N) : Prop :=
  (forall i, i < n -> exists w, find_w p i = Some w /\ w_drain w = false)
  /\ (forall i w, n <= i -> find_w p i = Some w ->
      w_drain w = true /\ (w_alive w = true -> w_working w = true)).

Definition RI (s : fstate) : Prop := f_stopped s = true \/ shape_ok (f_pool s) (f_size s).

Lemma shape_ple p p' n : shape_ok p n -> ple p p' -> shape_ok p' n.
Proof.
  intros [A B] H. split.
  - intros i Hi. destruct (A i Hi) as (w & Hf & Hd). specialize (H i). rewrite Hf in H.
    destruct (find_w p' i) as [w'|]; [|contradiction]. exists w'. split; [reflexivity|]. destruct H as (H1 & _). congruence.
  - intros i w' Hi Hf. specialize (H i). rewrite Hf in H. destruct (find_w p i) as [w|] eqn:E; [|contradiction].
    destruct (B i w Hi E) as [B1 B2]. destruct H as (H1 & H2 & H3). split; [congruence|].
    intros Ha. apply H3; [congruence|]. apply B2. congruence.
Qed.

Lemma RI_frame s s' : RI s -> frame s s' -> RI s'.
Proof.
  intros [H|H] (A & _ & C & D); [left; congruence|right]. rewrite A. eapply shape_ple; eassumption.
Qed.

Lemma worker_complete_shape w :
  w_id (fst (worker_complete w)) = w_id w /\ w_drain (fst (worker_complete w)) = w_drain w.
Proof.
  unfold worker_complete, dispatch_job. destruct (w_q w); cbn [set_q set_cur w_alive];
    [|destruct (w_alive w)]; cbn; split; reflexivity.
Qed.

Lemma shape_upd_nondraining p n i w x :
  shape_ok p n -> find_w p i = Some w -> w_id x = i -> w_drain x = w_drain w -> w_drain w = false ->
  shape_ok (upd_w p x) n.
Proof.
  intros [A B] Hf Hid Hd Hnd. split.
  - intros k Hk. rewrite find_upd_w, Hid. destruct (N.eqb_spec i k) as [E|E].
    + subst k. rewrite Hf. exists x. split; [reflexivity|congruence].
    + apply A. exact Hk.
  - intros k y Hk. rewrite find_upd_w, Hid. destruct (N.eqb_spec i k) as [E|E].
    + subst k. destruct (B i w Hk Hf) as [B1 _]. congruence.
    + apply B. exact Hk.
Qed.

Lemma shape_draining_ge p n i w : shape_ok p n -> find_w p i = Some w -> w_drain w = true -> n <= i.
Proof.
  intros [A _] Hf Hd. destruct (N.lt_ge_cases i n) as [Hlt|Hge]; [|exact Hge].
  destruct (A i Hlt) as (w' & Hf' & Hd'). congruence.
Qed.

Lemma shape_remove_ge p n i : shape_ok p n -> n <= i -> shape_ok (remove_w p i) n.
Proof.
  intros [A B] Hi. split.
  - intros k Hk. rewrite find_remove_w. destruct (N.eqb_spec i k); [lia|]. apply A. exact Hk.
  - intros k y Hk. rewrite find_remove_w. destruct (N.eqb_spec i k); [discriminate|]. apply B. exact Hk.
Qed.

Lemma worker_finished_RI c s i s' e : worker_finished c s i = (s', e) -> f_stopped s = false -> RI s ->
  RI s' /\ f_size s' = f_size s /\ f_stopped s' = false.
Proof.
  intros H Hns [Hs|Hs]; [congruence|]. revert H. unfold worker_finished.
  destruct (find_w (f_pool s) i) as [w|] eqn:Ef.
  2:{ intros H; inversion H; subst. repeat split; [right; exact Hs|exact Hns]. }
  pose proof (worker_complete_shape w) as [Cid Cdr]. destruct (worker_complete w) as [w' e1]. cbn [fst] in *.
  pose proof (find_w_id _ _ _ Ef) as Hid.
  destruct (w_drain w') eqn:Edr.
  - assert (Hge : f_size s <= i) by (eapply shape_draining_ge; [exact Hs|exact Ef|congruence]).
    destruct (w_working w') eqn:Ew; intros H; inversion H; subst; cbn [set_pool f_size f_stopped f_pool].
    + repeat split; [right|exact Hns]. cbn [set_pool f_pool f_size]. destruct Hs as [A B]. split.
      * intros k Hk. rewrite find_upd_w, Cid. destruct (N.eqb_spec (w_id w) k); [lia|]. apply A. exact Hk.
      * intros k y Hk. rewrite find_upd_w, Cid. destruct (N.eqb_spec (w_id w) k) as [E|E].
        -- subst k. rewrite Ef. intros Hy. inversion Hy; subst. split; [assumption|intros _; assumption].
        -- apply B. exact Hk.
    + repeat split; [right|exact Hns]. cbn [set_pool f_pool f_size]. destruct Hs as [A B]. split.
      * intros k Hk. rewrite find_remove_w. destruct (N.eqb_spec (w_id w) k); [lia|].
        rewrite find_upd_w, Cid. destruct (N.eqb_spec (w_id w) k); [contradiction|]. apply A. exact Hk.
      * intros k y Hk. rewrite find_remove_w. destruct (N.eqb_spec (w_id w) k); [discriminate|].
        rewrite find_upd_w, Cid. destruct (N.eqb_spec (w_id w) k); [contradiction|]. apply B. exact Hk.
  - unfold try_route_next.
    match goal with |- context [try_route c ?f ?st (Some i)] => destruct (try_route c f st (Some i)) as [s2 e'] eqn:Et end.
    intros H; inversion H; subst. apply try_route_frame in Et.
    pose proof (frame_trans _ _ _ Et (mark_available_frame c s2 (w_id w))) as (F1 & F2 & F3 & F4).
    cbn [set_pool f_size f_stopped f_pool f_drain] in *.
    repeat split; [|exact F1|congruence]. right. rewrite F1. eapply shape_ple; [|exact F4].
    eapply shape_upd_nondraining; [exact Hs|exact Ef|exact Cid|congruence|congruence].
Qed.

Lemma shape_upd_busy_draining p n i w x :
  shape_ok p n -> find_w p i = Some w -> w_id x = i -> w_drain w = true ->
  w_drain x = true -> w_working x = true -> shape_ok (upd_w p x) n.
Proof.
  intros Hs Hf Hid Hd Hdx Hwx. pose proof (shape_draining_ge _ _ _ _ Hs Hf Hd) as Hge.
  destruct Hs as [A B]. split.
  - intros k Hk. rewrite find_upd_w, Hid. destruct (N.eqb_spec i k); [lia|]. apply A. exact Hk.
  - intros k y Hk. rewrite find_upd_w, Hid. destruct (N.eqb_spec i k) as [E|E].
    + subst k. rewrite Hf. intros Hy; inversion Hy; subst. split; [assumption|intros _; assumption].
    + apply B. exact Hk.
Qed.

Lemma worker_died_RI c s i s' e : worker_died c s i = (s', e) -> f_stopped s = false -> RI s ->
  RI s' /\ f_size s' = f_size s /\ f_stopped s' = false.
Proof.
  intros H Hns [Hs|Hs]; [congruence|]. revert H. unfold worker_died.
  destruct (find_w (f_pool s) i) as [w|] eqn:Ef.
  2:{ intros H; inversion H; subst. repeat split; [right; exact Hs|exact Hns]. }
  pose proof (find_w_id _ _ _ Ef) as Hid.
  destruct (w_drain w) eqn:Edr; cbn [andb].
  - destruct (w_q w) as [|qj qr] eqn:Eq.
    + intros H; inversion H; subst. cbn [set_pool set_rs f_size f_stopped f_pool].
      repeat split; [right|exact Hns]. apply shape_remove_ge; [exact Hs|].
      eapply shape_draining_ge; eassumption.
    + unfold build. cbn [set_builds f_pool w_q dispatch_job set_q w_alive].
      unfold try_route_next.
      match goal with |- context [try_route c ?f ?st (Some i)] => destruct (try_route c f st (Some i)) as [s2 e'] eqn:Et end.
      intros H; inversion H; subst. apply try_route_frame in Et.
      pose proof (frame_trans _ _ _ Et (mark_available_frame c s2 (w_id w))) as (F1 & F2 & F3 & F4).
      cbn [set_pool set_builds f_size f_stopped f_pool f_drain] in *.
      repeat split; [|exact F1|congruence]. right. rewrite F1. eapply shape_ple; [|exact F4].
      eapply shape_upd_busy_draining; [exact Hs|exact Ef|reflexivity|exact Edr|reflexivity|reflexivity].
  - unfold build. cbn [set_builds f_pool w_q].
    set (w0 := mkW (w_id w) None (w_q w) false (assoc i (f_builds s) + 1) true).
    assert (Hw1 : forall w1 e1, (match w_q w with j :: r => dispatch_job (set_q w0 r) j | [] => (w0, []) end) = (w1, e1) ->
                  w_id w1 = w_id w /\ w_drain w1 = false).
    { intros w1 e1. unfold w0. destruct (w_q w); cbn [dispatch_job set_q w_alive]; intros E; inversion E; subst; split; reflexivity. }
    destruct (match w_q w with j :: r => dispatch_job (set_q w0 r) j | [] => (w0, []) end) as [w1 e1] eqn:E1.
    destruct (Hw1 w1 e1 eq_refl) as [I1 D1]. unfold try_route_next.
    match goal with |- context [try_route c ?f ?st (Some i)] => destruct (try_route c f st (Some i)) as [s2 e'] eqn:Et end.
    intros H; inversion H; subst. apply try_route_frame in Et.
    pose proof (frame_trans _ _ _ Et (mark_available_frame c s2 (w_id w))) as (F1 & F2 & F3 & F4).
    cbn [set_pool set_builds f_size f_stopped f_pool f_drain] in *.
    repeat split; [|exact F1|congruence]. right. rewrite F1. eapply shape_ple; [|exact F4].
    eapply shape_upd_nondraining; [exact Hs|exact Ef|exact I1|congruence|exact Edr].
Qed.

(* grow: slot by slot the non-draining prefix gets longer *)
Lemma grow_shape c k : forall s from,
  shape_ok (f_pool s) from ->
  shape_ok (f_pool (grow c s from k)) (from + N.of_nat k)
  /\ f_size (grow c s from k) = f_size s /\ f_stopped (grow c s from k) = f_stopped s.
Proof.
  induction k as [|k IH]; intros s from Hs; cbn [grow].
  { rewrite N.add_0_r. split; [exact Hs|split; reflexivity]. }
  replace (from + N.of_nat (S k)) with ((from + 1) + N.of_nat k) by lia.
  destruct (find_w (f_pool s) from) as [w|] eqn:Ef.
  - match goal with |- context [grow c ?st (from + 1) k] => destruct (IH st (from + 1)) as (A1 & A2 & A3) end.
    + unfold mark_available. cbn [set_pool f_pool].
      assert (Hsh : shape_ok (upd_w (f_pool s) (set_drain w false)) (from + 1)).
      { destruct Hs as [A B]. pose proof (find_w_id _ _ _ Ef) as Hid. split.
        - intros i Hi. rewrite find_upd_w. cbn [set_drain w_id]. rewrite Hid.
          destruct (N.eqb_spec from i) as [E|E].
          + subst i. rewrite Ef. eexists. split; [reflexivity|reflexivity].
          + apply A. lia.
        - intros i y Hi. rewrite find_upd_w. cbn [set_drain w_id]. rewrite Hid.
          destruct (N.eqb_spec from i) as [E|E]; [lia|]. apply B. lia. }
      destruct (avail_in _ from); exact Hsh.
    + unfold mark_available in *. cbn [set_pool f_pool f_size f_stopped] in *.
      split; [exact A1|]. split.
      * rewrite A2. destruct (avail_in _ from); reflexivity.
      * rewrite A3. destruct (avail_in _ from); reflexivity.
  - unfold build. cbn [set_builds f_pool].
    match goal with |- context [grow c ?st (from + 1) k] => destruct (IH st (from + 1)) as (A1 & A2 & A3) end.
    + cbn [set_rs set_pool set_builds f_pool]. destruct Hs as [A B]. split.
      * intros i Hi. rewrite find_app_new. cbn [w_id].
        destruct (N.eqb_spec from i) as [E|E].
        -- subst i. rewrite Ef. eexists. split; reflexivity.
        -- destruct (A i ltac:(lia)) as (w & Hw & Hd). rewrite Hw. eauto.
      * intros i y Hi. rewrite find_app_new. cbn [w_id]. destruct (find_w (f_pool s) i) as [w|] eqn:Ei.
        -- intros Hy; inversion Hy; subst. apply (B i y ltac:(lia) Ei).
        -- destruct (N.eqb_spec from i); [lia|discriminate].
    + split; [exact A1|split; [rewrite A2; reflexivity|rewrite A3; reflexivity]].
Qed.

(* shrink: slots n..from-1 are retired or draining-and-busy, slots from..cur-1 still untouched *)
Definition shape3 (p : list worker) (n from cur : N) : Prop :=
  (forall i, (i < n \/ (from <= i /\ i < cur)) -> exists w, find_w p i = Some w /\ w_drain w = false)
  /\ (forall i w, ((n <= i /\ i < from) \/ cur <= i) -> find_w p i = Some w ->
      w_drain w = true /\ (w_alive w = true -> w_working w = true)).

Lemma shrink_shape c n cur k : forall s from,
  from + N.of_nat k = cur -> n <= from ->
  shape3 (f_pool s) n from cur ->
  shape3 (f_pool (shrink c s from k)) n cur cur
  /\ f_size (shrink c s from k) = f_size s /\ f_stopped (shrink c s from k) = f_stopped s.
Proof.
  induction k as [|k IH]; intros s from Hk Hn Hs; cbn [shrink].
  { assert (E : from = cur) by lia. rewrite E in Hs. split; [exact Hs|split; reflexivity]. }
  destruct Hs as [A B]. destruct (A from ltac:(lia)) as (w & Ef & Hd). rewrite Ef.
  pose proof (find_w_id _ _ _ Ef) as Hid.
  destruct (w_working w) eqn:Ew.
  - match goal with |- context [shrink c ?st (from + 1) k] => destruct (IH st (from + 1)) as (A1 & A2 & A3); [lia|lia| |] end.
    + cbn [set_pool f_pool]. split.
      * intros i Hi. rewrite find_upd_w. cbn [set_drain w_id]. rewrite Hid.
        destruct (N.eqb_spec from i); [lia|]. apply A. lia.
      * intros i y Hi. rewrite find_upd_w. cbn [set_drain w_id]. rewrite Hid.
        destruct (N.eqb_spec from i) as [E|E].
        -- subst i. rewrite Ef. intros Hy; inversion Hy; subst. cbn [set_drain w_drain]. split; [reflexivity|].
           intros _. unfold w_working, w_available in *. cbn [set_drain w_cur w_q]. exact Ew.
        -- apply B. lia.
    + split; [exact A1|split; [rewrite A2; reflexivity|rewrite A3; reflexivity]].
  - match goal with |- context [shrink c ?st (from + 1) k] => destruct (IH st (from + 1)) as (A1 & A2 & A3); [lia|lia| |] end.
    + cbn [set_pool set_rs f_pool]. split.
      * intros i Hi. rewrite find_remove_w. destruct (N.eqb_spec from i); [lia|]. apply A. lia.
      * intros i y Hi. rewrite find_remove_w. destruct (N.eqb_spec from i); [discriminate|]. apply B. lia.
    + split; [exact A1|split; [rewrite A2; reflexivity|rewrite A3; reflexivity]].
Qed.

Lemma resize_RI c s n s' e : resize c s n = (s', e) -> f_stopped s = false -> RI s ->
  RI s' /\ f_stopped s' = false /\ f_size s' = (if n =? 0 then f_size s else N.min pool_max n).
Proof.
  intros H Hns [Hs|Hs]; [congruence|]. revert H. unfold resize. destruct (n =? 0).
  { intros H; inversion H; subst. repeat split; [right; exact Hs|exact Hns]. }
  set (m := N.min pool_max n). destruct (N.ltb_spec (f_size s) m) as [Hlt|Hge].
  - intros H. destruct (grow_shape c (N.to_nat (m - f_size s)) s (f_size s) Hs) as (G1 & G2 & G3).
    replace (f_size s + N.of_nat (N.to_nat (m - f_size s))) with m in G1 by lia.
    apply resize_grow_frame in H. destruct H as (F1 & F2 & F3 & F4). cbn [set_size f_size f_stopped f_pool] in *.
    repeat split; [right|congruence|exact F1]. rewrite F1. eapply shape_ple; eassumption.
  - destruct (N.ltb_spec m (f_size s)) as [Hlt|Hge2]; intros H; inversion H; subst.
    + destruct (shrink_shape c m (f_size s) (N.to_nat (f_size s - m)) s m ltac:(lia) ltac:(lia)) as (G1 & G2 & G3).
      { destruct Hs as [A B]. split.
        - intros i Hi. apply A. lia.
        - intros i y Hi. apply B. lia. }
      cbn [set_size f_size f_stopped f_pool]. repeat split; [right|congruence].
      cbn [set_size f_size f_pool]. destruct G1 as [A B]. split.
      * intros i Hi. apply A. lia.
      * intros i y Hi. apply B. lia.
    + repeat split; [right; exact Hs|exact Hns|lia].
Qed.

Lemma after_message_RI s s' e : after_message s = (s', e) -> RI s ->
  RI s' /\ f_size s' = f_size s /\ (f_stopped s' = false -> f_stopped s = false).
Proof.
  unfold after_message. destruct (f_drain s).
  - intros H; inversion H; subst. repeat split; [assumption|exact (fun x => x)].
  - destruct (all_available (f_pool s) && (len (f_q s) =? 0)); intros H; inversion H; subst.
    + intros _. repeat split; [left; reflexivity|]. cbn. discriminate.
    + repeat split; [assumption|exact (fun x => x)].
  - intros H; inversion H; subst. intros _. repeat split; [left; reflexivity|]. cbn. discriminate.
Qed.

(* one label: invariant kept; if the factory is still alive afterwards it was alive before and
   the pool size is the requested one *)
Definition size_after (o : fop) (n : N) : N :=
  match o with FResize k => if k =? 0 then n else N.min pool_max k | _ => n end.

Lemma with_after_RI r s' e : with_after r = (s', e) -> RI (fst r) ->
  RI s' /\ f_size s' = f_size (fst r) /\ (f_stopped s' = false -> f_stopped (fst r) = false).
Proof.
  destruct r as [s0 e0]. unfold with_after. destruct (after_message s0) as [s1 e1] eqn:E.
  intros H; inversion H; subst. cbn [fst]. eapply after_message_RI; eassumption.
Qed.

Lemma finish_w_RI c s i only s' e : finish_w c s i only = (s', e) -> RI s ->
  RI s' /\ f_size s' = f_size s /\ (f_stopped s' = false -> f_stopped s = false).
Proof.
  unfold finish_w. destruct (f_stopped s) eqn:Hst.
  { intros H; inversion H; subst. intros HR. split; [exact HR|split; [reflexivity|congruence]]. }
  destruct (find_w (f_pool s) i) as [w|]; [|intros H; inversion H; subst; intros HR; (split; [exact HR|split; [reflexivity|auto]])].
  destruct (w_cur w) as [j|]; [|intros H; inversion H; subst; intros HR; (split; [exact HR|split; [reflexivity|auto]])].
  destruct (match only with Some id => jid j =? id | None => true end);
    [|intros H; inversion H; subst; intros HR; (split; [exact HR|split; [reflexivity|auto]])].
  destruct (with_after (worker_finished c s i)) as [s1 e1] eqn:E. intros H; inversion H; subst. intros HR.
  destruct (worker_finished c s i) as [s0 e0] eqn:Ew.
  destruct (worker_finished_RI _ _ _ _ _ Ew Hst HR) as (R1 & R2 & R3).
  destruct (with_after_RI _ _ _ E R1) as (Q1 & Q2 & Q3). cbn [fst] in *.
  split; [exact Q1|]. split; [congruence|intros _; reflexivity].
Qed.

Lemma finish_list_RI c l : forall s s' e, finish_list c s l = (s', e) -> RI s ->
  RI s' /\ f_size s' = f_size s /\ (f_stopped s' = false -> f_stopped s = false).
Proof.
  induction l as [|[i id] r IH]; intros s s' e; cbn [finish_list].
  { intros H; inversion H; subst. intros HR. split; [exact HR|split; [reflexivity|auto]]. }
  destruct (finish_w c s i (Some id)) as [s1 e1] eqn:E1. destruct (finish_list c s1 r) as [s2 e2] eqn:E2.
  intros H HR; inversion H; subst.
  destruct (finish_w_RI _ _ _ _ _ _ E1 HR) as (A1 & A2 & A3).
  destruct (IH _ _ _ E2 A1) as (B1 & B2 & B3). split; [exact B1|split; [congruence|auto]].
Qed.

Definition is_tick (o : fop) : bool := match o with FTick => true | _ => false end.

Lemma tick_calc_RI c s s' e : tick_calc c s = (s', e) -> f_stopped s = false -> RI s -> RI s' /\ f_stopped s' = false.
Proof.
  unfold tick_calc. destruct (fst (f_scripts s)) as [|n rest]; [intros H; inversion H; subst; auto|].
  destruct (n =? f_size (set_scripts s (rest, snd (f_scripts s)))); [intros H; inversion H; subst; auto|].
  intros H Hns HR. assert (HR' : RI (set_scripts s (rest, snd (f_scripts s)))) by exact HR.
  destruct (resize_RI _ _ _ _ _ H Hns HR') as (A & B & _). split; assumption.
Qed.

Lemma tick_ping_RI s : RI s -> RI (fst (tick_ping s)) /\ f_stopped (fst (tick_ping s)) = f_stopped s.
Proof.
  unfold tick_ping. destruct (snd (f_scripts s)) as [|l rest]; [auto|].
  destruct (f_discard s) as [[l0 m0]|]; auto.
Qed.

Lemma step_RI0 c s o : RI s ->
  let s' := fst (step0 c s o) in
  RI s' /\ (f_stopped s' = false ->
            f_stopped s = false /\ (is_tick o = false -> f_size s' = size_after o (f_size s))).
Proof.
  intros HR. cbn zeta. destruct o as [j|i| |i|i|n| |dt| | |i|i|d| |]; cbn [step0 size_after].
  11:{ destruct (f_stopped s) eqn:Hst; [cbn [fst]; split; [exact HR|congruence]|].
       destruct (find_w (f_pool s) i) as [w|] eqn:Ef; [|cbn [fst]; split; [exact HR|auto]].
       destruct (w_alive w && match w_cur w with None => true | Some _ => false end); [|cbn [fst]; split; [exact HR|auto]].
       cbn [fst set_pool f_stopped f_size]. split; [|auto]. destruct HR as [HR|[A B]]; [congruence|]. right.
       unfold shape_ok. cbn [set_pool f_pool f_size]. pose proof (find_w_id _ _ _ Ef) as Hid. split.
       - intros k Hk. rewrite find_upd_w. cbn [set_alive w_id]. rewrite Hid. destruct (N.eqb_spec i k) as [E|E].
         + subst k. rewrite Ef. destruct (A i Hk) as (w' & Hf' & Hd'). exists (set_alive w false). split; [reflexivity|].
           cbn [set_alive w_drain]. congruence.
         + apply A. exact Hk.
       - intros k y Hk. rewrite find_upd_w. cbn [set_alive w_id]. rewrite Hid. destruct (N.eqb_spec i k) as [E|E].
         + subst k. rewrite Ef. intros Hy; inversion Hy as [Hy']. cbn [set_alive w_drain w_alive].
           destruct (B i w Hk Ef) as [B1 _]. split; [exact B1|discriminate].
         + apply B. exact Hk. }
  11:{ destruct (f_stopped s) eqn:Hst; [cbn [fst]; split; [exact HR|congruence]|].
       destruct (find_w (f_pool s) i) as [w|]; [|cbn [fst]; split; [exact HR|auto]].
       destruct (w_alive w); [cbn [fst]; split; [exact HR|auto]|].
       destruct (worker_died c s i) as [s' e] eqn:E. cbn [fst].
       destruct (worker_died_RI _ _ _ _ _ E Hst HR) as (A1 & A2 & A3). split; [exact A1|auto]. }
  11:{ destruct (f_stopped s) eqn:Hst; [cbn [fst]; split; [exact HR|congruence]|].
       destruct (with_after (set_discard (set_scripts s (fst (f_scripts s), [])) d, [])) as [s' e] eqn:E. cbn [fst].
       assert (HR' : RI (fst (set_discard (set_scripts s (fst (f_scripts s), [])) d, @nil ev))) by exact HR.
       destruct (with_after_RI _ _ _ E HR') as (A1 & A2 & A3). cbn [fst set_discard f_size] in *.
       split; [exact A1|]. intros _. split; [reflexivity|intros _; exact A2]. }
  11:{ destruct (f_stopped s) eqn:Hst; [cbn [fst]; split; [exact HR|congruence]|].
       destruct (with_after (s, @nil ev)) as [s' e] eqn:E. cbn [fst].
       assert (HR' : RI (fst (s, @nil ev))) by exact HR.
       destruct (with_after_RI _ _ _ E HR') as (A1 & A2 & A3). cbn [fst] in *.
       split; [exact A1|]. intros _. split; [reflexivity|intros _; exact A2]. }
  11:{ destruct (f_stopped s) eqn:Hst; [cbn [fst set_now f_stopped]; split; [exact HR|congruence]|].
       assert (HR0 : RI (set_now s (f_now s + tick_ns))) by exact HR.
       assert (Hns0 : f_stopped (set_now s (f_now s + tick_ns)) = false) by exact Hst.
       destruct (tick_calc c (set_now s (f_now s + tick_ns))) as [sa ea] eqn:Ec.
       destruct (tick_calc_RI _ _ _ _ Ec Hns0 HR0) as [HRa _].
       destruct (with_after (sa, ea)) as [s1 e1] eqn:E1.
       assert (HRa' : RI (fst (sa, ea))) by exact HRa.
       destruct (with_after_RI _ _ _ E1 HRa') as (B1 & _ & _).
       destruct (f_stopped s1) eqn:Hs1; [cbn [fst]; split; [exact B1|congruence]|].
       destruct (tick_ping_RI s1 B1) as [HRp _]. destruct (tick_ping s1) as [sp0 ep0] eqn:Ep.
       destruct (with_after (sp0, ep0)) as [s2 e2] eqn:E2. cbn [fst] in *.
       assert (HRp' : RI (fst (sp0, ep0))) by exact HRp.
       destruct (with_after_RI _ _ _ E2 HRp') as (C1 & _ & _).
       split; [exact C1|]. intros _. split; [reflexivity|discriminate]. }
  - destruct (f_stopped s) eqn:Hst; [cbn [fst]; split; [exact HR|congruence]|].
    destruct (with_after (dispatch c s j)) as [s' e] eqn:E. cbn [fst].
    destruct (dispatch c s j) as [s0 e0] eqn:Ed. pose proof (dispatch_frame _ _ _ _ _ Ed) as Fr.
    destruct (with_after_RI _ _ _ E (RI_frame _ _ HR Fr)) as (A1 & A2 & A3). cbn [fst] in *.
    destruct Fr as (F1 & _). split; [exact A1|]. intros _. split; [reflexivity|intros _; congruence].
  - destruct (finish_w c s i None) as [s' e] eqn:E. cbn [fst].
    destruct (finish_w_RI _ _ _ _ _ _ E HR) as (A1 & A2 & A3). split; [exact A1|]. auto.
  - destruct (finish_list c s (busy_snapshot s)) as [s' e] eqn:E. cbn [fst].
    destruct (finish_list_RI _ _ _ _ _ E HR) as (A1 & A2 & A3). split; [exact A1|]. auto.
  - destruct (f_stopped s) eqn:Hst; [cbn [fst]; split; [exact HR|congruence]|].
    destruct (find_w (f_pool s) i) as [w|]; [|cbn [fst]; split; [exact HR|auto]].
    destruct (w_cur w); [|cbn [fst]; split; [exact HR|auto]].
    destruct (worker_died c s i) as [s' e] eqn:E. cbn [fst].
    destruct (worker_died_RI _ _ _ _ _ E Hst HR) as (A1 & A2 & A3). split; [exact A1|auto].
  - destruct (f_stopped s) eqn:Hst; [cbn [fst]; split; [exact HR|congruence]|].
    destruct (worker_died c s i) as [s' e] eqn:E. cbn [fst].
    destruct (worker_died_RI _ _ _ _ _ E Hst HR) as (A1 & A2 & A3). split; [exact A1|auto].
  - destruct (f_stopped s) eqn:Hst; [cbn [fst]; split; [exact HR|congruence]|].
    destruct (with_after (resize c s n)) as [s' e] eqn:E. cbn [fst].
    destruct (resize c s n) as [s0 e0] eqn:Ed.
    destruct (resize_RI _ _ _ _ _ Ed Hst HR) as (R1 & R2 & R3).
    destruct (with_after_RI _ _ _ E R1) as (A1 & A2 & A3). cbn [fst] in *.
    split; [exact A1|]. intros _. split; [reflexivity|intros _; congruence].
  - destruct (f_stopped s) eqn:Hst; [cbn [fst]; split; [exact HR|congruence]|].
    destruct (with_after (set_dstate s Draining, [EHook HDraining])) as [s' e] eqn:E. cbn [fst].
    assert (HR' : RI (fst (set_dstate s Draining, [EHook HDraining]))) by exact HR.
    destruct (with_after_RI _ _ _ E HR') as (A1 & A2 & A3). cbn [fst set_dstate f_size] in *.
    split; [exact A1|]. intros _. split; [reflexivity|intros _; exact A2].
  - cbn [fst]. split; [exact HR|auto].
  - cbn [fst]. split; [exact HR|auto].
  - destruct (f_stopped s) eqn:Hst; [cbn [fst]; split; [exact HR|congruence]|].
    destruct (after_message s) as [s1 e1] eqn:E.
    destruct (after_message_RI _ _ _ E HR) as (A1 & A2 & A3).
    destruct (f_stopped s1) eqn:Hs1; cbn [fst]; (split; [exact A1|]); [congruence|auto].
Qed.
Lemma step_RI c s o : RI s ->
  let s' := fst (step c s o) in
  RI s' /\ (f_stopped s' = false ->
            f_stopped s = false /\ (is_tick o = false -> f_size s' = size_after o (f_size s))).
Proof. unfold step. apply step_RI0. Qed.


Lemma init_RI c t0 : RI (fst (init c t0)) /\ f_stopped (fst (init c t0)) = false /\ f_size (fst (init c t0)) = c_n0 c.
Proof.
  unfold init. cbn [fst].
  match goal with |- context [grow c ?s0 0 ?k] =>
    assert (H0 : shape_ok (f_pool s0) 0) by (split; [intros i Hi; lia|intros i w _ Hf; discriminate]);
    destruct (grow_shape c k s0 0 H0) as (G1 & G2 & G3) end.
  rewrite N.add_0_l, N2Nat.id in G1. cbn [set_size f_pool f_size f_stopped] in *.
  split; [right; exact G1|]. split; [rewrite G3; reflexivity|reflexivity].
Qed.

Lemma state_after_RI c ops : forall s, RI s ->
  let s' := state_after c s ops in
  RI s' /\ (f_stopped s' = false -> f_stopped s = false
            /\ (forallb (fun o => negb (is_tick o)) ops = true -> f_size s' = target_after (f_size s) ops)).
Proof.
  induction ops as [|o r IH]; intros s HR; cbn [state_after target_after forallb].
  { split; [exact HR|auto]. }
  destruct (step_RI c s o HR) as [H1 H2]. destruct (IH _ H1) as [H3 H4]. split; [exact H3|].
  intros Hns. destruct (H4 Hns) as [H5 H6]. destruct (H2 H5) as [H7 H8]. split; [exact H7|].
  intros Hno. apply andb_true_iff in Hno. destruct Hno as [Ho Hr]. apply negb_true_iff in Ho.
  rewrite (H6 Hr), (H8 Ho). destruct o; cbn [size_after]; reflexivity.
Qed.

(* For every configuration and EVERY label sequence (resizes interleaved with dispatches, busy
   workers, completions, failures, kills, stopping workers, draining), if in the state reached the
   factory is alive, no worker is busy and no worker actor is stopping with its supervision event
   still pending, then the pool is exactly the slots 0..n-1 -- none of them draining --
   where n is the last non-zero requested size (requests of 0 ignored, capped at 1_000_000), or
   the initial size if there was none. *)
Theorem resize_converges c ops :
  let s := state_after c (fst (init c 0)) ops in
  f_stopped s = false -> all_available (f_pool s) = true -> forallb w_alive (f_pool s) = true ->
  (forallb (fun o => negb (is_tick o)) ops = true -> f_size s = target_after (c_n0 c) ops)
  /\ (forall i, (exists w, find_w (f_pool s) i = Some w) <-> i < f_size s)
  /\ (forall i w, find_w (f_pool s) i = Some w -> w_drain w = false).
Proof.
  intros s Hns Hidle Halive. destruct (init_RI c 0) as (I1 & I2 & I3).
  destruct (state_after_RI c ops _ I1) as [HR Hsz]. fold s in HR, Hsz.
  destruct (Hsz Hns) as [_ Hsize]. rewrite I3 in Hsize. split; [exact Hsize|].
  destruct HR as [HR|[A B]]; [congruence|].
  assert (Hno : forall i w, f_size s <= i -> find_w (f_pool s) i = Some w -> False).
  { intros i w Hi Hf. destruct (B i w Hi Hf) as [_ Hw]. apply find_w_In in Hf. destruct Hf as [Hin _].
    unfold all_available in Hidle. rewrite forallb_forall in Hidle, Halive. specialize (Hidle w Hin).
    specialize (Hw (Halive w Hin)). unfold w_working in Hw. rewrite Hidle in Hw. discriminate. }
  split.
  - intros i. split.
    + intros [w Hf]. destruct (N.lt_ge_cases i (f_size s)) as [Hlt|Hge]; [exact Hlt|]. exfalso. eapply Hno; eassumption.
    + intros Hi. destruct (A i Hi) as (w & Hf & _). eauto.
  - intros i w Hf. destruct (N.lt_ge_cases i (f_size s)) as [Hlt|Hge].
    + destruct (A i Hlt) as (w' & Hf' & Hd). congruence.
    + exfalso. eapply Hno; eassumption.
Qed.

(* ------------------------------------------------------------------ *)
(* C15_drain                                                            *)

Lemma grow_mode c k : forall s from, f_drain (grow c s from k) = f_drain s.
Proof.
  induction k as [|k IH]; intros s from; cbn [grow]; [reflexivity|]. rewrite IH.
  destruct (find_w (f_pool s) from); [unfold mark_available; cbn; destruct (avail_in _ from); reflexivity|reflexivity].
Qed.

Lemma shrink_mode c k : forall s from, f_drain (shrink c s from k) = f_drain s.
Proof.
  induction k as [|k IH]; intros s from; cbn [shrink]; [reflexivity|]. rewrite IH.
  destruct (find_w (f_pool s) from) as [w|]; [destruct (w_working w)|]; reflexivity.
Qed.

Lemma resize_mode c s n s' e : resize c s n = (s', e) -> f_drain s' = f_drain s.
Proof.
  unfold resize. destruct (n =? 0); [intros H; inversion H; reflexivity|].
  destruct (f_size s <? N.min pool_max n).
  - intros H. apply resize_grow_frame in H. destruct H as (_ & F2 & _). rewrite F2. cbn [set_size f_drain].
    apply grow_mode.
  - destruct (N.min pool_max n <? f_size s); intros H; inversion H; subst; [|reflexivity].
    cbn [set_size f_drain]. apply shrink_mode.
Qed.

Lemma worker_finished_mode c s i s' e : worker_finished c s i = (s', e) -> f_drain s' = f_drain s.
Proof.
  unfold worker_finished. destruct (find_w (f_pool s) i) as [w|]; [|intros H; inversion H; reflexivity].
  destruct (worker_complete w) as [w' e1]. destruct (w_drain w').
  - destruct (w_working w'); intros H; inversion H; reflexivity.
  - unfold try_route_next.
    match goal with |- context [try_route c ?f ?st (Some i)] => destruct (try_route c f st (Some i)) as [s2 e'] eqn:Et end.
    intros H; inversion H; subst. apply try_route_frame in Et. destruct Et as (_ & F2 & _).
    unfold mark_available. destruct (avail_in _ i); cbn [set_rs f_drain]; rewrite F2; reflexivity.
Qed.

Lemma worker_died_mode c s i s' e : worker_died c s i = (s', e) -> f_drain s' = f_drain s.
Proof.
  unfold worker_died. destruct (find_w (f_pool s) i) as [w|]; [|intros H; inversion H; reflexivity].
  destruct (w_drain w && match w_q w with [] => true | _ => false end); [intros H; inversion H; reflexivity|].
  unfold build, try_route_next. cbn [set_builds f_pool].
  match goal with |- context [dispatch_job ?a ?b] => idtac | _ => idtac end.
  destruct (match w_q (mkW (w_id w) None (w_q w) (w_drain w) (assoc i (f_builds s) + 1) true) with
            | j :: r => dispatch_job (set_q (mkW (w_id w) None (w_q w) (w_drain w) (assoc i (f_builds s) + 1) true) r) j
            | [] => (mkW (w_id w) None (w_q w) (w_drain w) (assoc i (f_builds s) + 1) true, [])
            end) as [w1 e1].
  match goal with |- context [try_route c ?f ?st (Some i)] => destruct (try_route c f st (Some i)) as [s2 e'] eqn:Et end.
  intros H; inversion H; subst. apply try_route_frame in Et. destruct Et as (_ & F2 & _).
  unfold mark_available. destruct (avail_in _ i); cbn [set_rs f_drain]; rewrite F2; reflexivity.
Qed.

(* draining has been requested (or the factory is already gone) *)
Definition closing (s : fstate) : Prop := f_drain s <> NotDraining \/ f_stopped s = true.

Lemma after_message_closing s s' e : after_message s = (s', e) -> closing s -> closing s'.
Proof.
  unfold after_message, closing. destruct (f_drain s) eqn:Ed.
  - intros H; inversion H; subst. rewrite Ed. exact (fun x => x).
  - destruct (all_available (f_pool s) && (len (f_q s) =? 0)); intros H; inversion H; subst; intros _.
    + right. reflexivity.
    + left. rewrite Ed. discriminate.
  - intros H; inversion H; subst. intros _. right. reflexivity.
Qed.

Lemma with_after_closing r s' e : with_after r = (s', e) -> closing (fst r) -> closing s'.
Proof.
  destruct r as [s0 e0]. unfold with_after. destruct (after_message s0) as [s1 e1] eqn:E.
  intros H; inversion H; subst. cbn [fst]. eapply after_message_closing; eassumption.
Qed.

Lemma closing_mode s s' : f_drain s' = f_drain s -> f_stopped s' = f_stopped s -> closing s -> closing s'.
Proof. unfold closing. intros -> ->. exact (fun x => x). Qed.

Lemma finish_w_closing c s i only s' e : finish_w c s i only = (s', e) -> closing s -> closing s'.
Proof.
  unfold finish_w. destruct (f_stopped s) eqn:Hst; [intros H; inversion H; subst; exact (fun x => x)|].
  destruct (find_w (f_pool s) i) as [w|]; [|intros H; inversion H; subst; exact (fun x => x)].
  destruct (w_cur w) as [j|]; [|intros H; inversion H; subst; exact (fun x => x)].
  destruct (match only with Some id => jid j =? id | None => true end); [|intros H; inversion H; subst; exact (fun x => x)].
  destruct (with_after (worker_finished c s i)) as [s1 e1] eqn:E. intros H; inversion H; subst. intros Hc.
  eapply with_after_closing; [exact E|]. destruct (worker_finished c s i) as [s0 e0] eqn:Ew. cbn [fst].
  destruct Hc as [Hc|Hc]; [|congruence]. left. rewrite (worker_finished_mode _ _ _ _ _ Ew). exact Hc.
Qed.

Lemma finish_list_closing c l : forall s s' e, finish_list c s l = (s', e) -> closing s -> closing s'.
Proof.
  induction l as [|[i id] r IH]; intros s s' e; cbn [finish_list].
  { intros H; inversion H; subst. exact (fun x => x). }
  destruct (finish_w c s i (Some id)) as [s1 e1] eqn:E1. destruct (finish_list c s1 r) as [s2 e2] eqn:E2.
  intros H Hc; inversion H; subst. eapply IH; [eassumption|]. eapply finish_w_closing; eassumption.
Qed.

Lemma tick_calc_mode c s s' e : tick_calc c s = (s', e) -> f_drain s' = f_drain s.
Proof.
  unfold tick_calc. destruct (fst (f_scripts s)) as [|n rest]; [intros H; inversion H; reflexivity|].
  destruct (n =? f_size (set_scripts s (rest, snd (f_scripts s)))); [intros H; inversion H; reflexivity|].
  intros H. apply resize_mode in H. exact H.
Qed.

Lemma tick_ping_mode s : f_drain (fst (tick_ping s)) = f_drain s /\ f_stopped (fst (tick_ping s)) = f_stopped s
  /\ snd (tick_ping s) = [].
Proof.
  unfold tick_ping. destruct (snd (f_scripts s)) as [|l rest]; [repeat split|].
  destruct (f_discard s) as [[l0 m0]|]; repeat split.
Qed.

Lemma step_closing0 c s o : closing s -> closing (fst (step0 c s o)).
Proof.
  intros Hc. destruct o as [j|i| |i|i|n| |dt| | |i|i|d| |]; cbn [step0].
  11:{ destruct (f_stopped s) eqn:Hst; [exact Hc|]. destruct (find_w (f_pool s) i) as [w|]; [|exact Hc].
       destruct (w_alive w && match w_cur w with None => true | Some _ => false end); exact Hc. }
  11:{ destruct (f_stopped s) eqn:Hst; [exact Hc|]. destruct (find_w (f_pool s) i) as [w|]; [|exact Hc].
       destruct (w_alive w); [exact Hc|]. destruct (worker_died c s i) as [s' e] eqn:E. cbn [fst].
       destruct Hc as [Hc|Hc]; [|congruence]. left. rewrite (worker_died_mode _ _ _ _ _ E). exact Hc. }
  11:{ destruct (f_stopped s) eqn:Hst; [exact Hc|].
       destruct (with_after (set_discard (set_scripts s (fst (f_scripts s), [])) d, [])) as [s' e] eqn:E. cbn [fst].
       eapply with_after_closing; [exact E|]. exact Hc. }
  11:{ destruct (f_stopped s) eqn:Hst; [exact Hc|].
       destruct (with_after (s, @nil ev)) as [s' e] eqn:E. cbn [fst]. eapply with_after_closing; [exact E|]. exact Hc. }
  11:{ destruct (f_stopped s) eqn:Hst; [right; exact Hst|].
       destruct Hc as [Hc|Hc]; [|congruence].
       destruct (tick_calc c (set_now s (f_now s + tick_ns))) as [sa ea] eqn:Ec.
       pose proof (tick_calc_mode _ _ _ _ Ec) as Hm. cbn [set_now f_drain] in Hm.
       destruct (with_after (sa, ea)) as [s1 e1] eqn:E1.
       assert (Hc1 : closing s1) by (eapply with_after_closing; [exact E1|]; left; cbn [fst]; congruence).
       destruct (f_stopped s1) eqn:Hs1; [exact Hc1|].
       destruct (tick_ping_mode s1) as (P1 & P2 & _). destruct (tick_ping s1) as [sp0 ep0] eqn:Ep. cbn [fst] in *.
       destruct (with_after (sp0, ep0)) as [s2 e2] eqn:E2. cbn [fst].
       eapply with_after_closing; [exact E2|]. cbn [fst]. eapply closing_mode; [exact P1|exact P2|exact Hc1]. }
  - destruct (f_stopped s) eqn:Hst; [exact Hc|].
    destruct (with_after (dispatch c s j)) as [s' e] eqn:E. cbn [fst].
    eapply with_after_closing; [exact E|]. destruct (dispatch c s j) as [s0 e0] eqn:Ed. cbn [fst].
    destruct (dispatch_frame _ _ _ _ _ Ed) as (_ & F2 & F3 & _). eapply closing_mode; eassumption.
  - destruct (finish_w c s i None) as [s' e] eqn:E. cbn [fst]. eapply finish_w_closing; eassumption.
  - destruct (finish_list c s (busy_snapshot s)) as [s' e] eqn:E. cbn [fst]. eapply finish_list_closing; eassumption.
  - destruct (f_stopped s) eqn:Hst; [exact Hc|]. destruct (find_w (f_pool s) i) as [w|]; [|exact Hc].
    destruct (w_cur w); [|exact Hc]. destruct (worker_died c s i) as [s' e] eqn:E. cbn [fst].
    destruct Hc as [Hc|Hc]; [|congruence]. left. rewrite (worker_died_mode _ _ _ _ _ E). exact Hc.
  - destruct (f_stopped s) eqn:Hst; [exact Hc|]. destruct (worker_died c s i) as [s' e] eqn:E. cbn [fst].
    destruct Hc as [Hc|Hc]; [|congruence]. left. rewrite (worker_died_mode _ _ _ _ _ E). exact Hc.
  - destruct (f_stopped s) eqn:Hst; [exact Hc|].
    destruct (with_after (resize c s n)) as [s' e] eqn:E. cbn [fst].
    eapply with_after_closing; [exact E|]. destruct (resize c s n) as [s0 e0] eqn:Ed. cbn [fst].
    destruct Hc as [Hc|Hc]; [|congruence]. left. rewrite (resize_mode _ _ _ _ _ Ed). exact Hc.
  - destruct (f_stopped s) eqn:Hst; [exact Hc|].
    destruct (with_after (set_dstate s Draining, [EHook HDraining])) as [s' e] eqn:E. cbn [fst].
    eapply with_after_closing; [exact E|]. left. cbn. discriminate.
  - exact Hc.
  - exact Hc.
  - destruct (f_stopped s) eqn:Hst; [exact Hc|]. destruct (after_message s) as [s1 e1] eqn:E.
    pose proof (after_message_closing _ _ _ E Hc). destruct (f_stopped s1); exact H.
Qed.
Lemma step_closing c s o : closing s -> closing (fst (step c s o)).
Proof. unfold step. apply step_closing0. Qed.


Lemma state_after_closing c ops : forall s, closing s -> closing (state_after c s ops).
Proof. induction ops as [|o r IH]; intros s Hc; cbn [state_after]; [exact Hc|]. apply IH, step_closing, Hc. Qed.

Definition is_accept_ev (e : ev) : bool := match e with EAccept _ => true | _ => false end.

Lemma stop_events_no_accept s : existsb is_accept_ev (snd (stop_factory s)) = false.
Proof.
  unfold stop_factory. cbn [snd]. rewrite existsb_app. cbn [existsb is_accept_ev orb].
  induction (f_q s ++ flat_map w_q (f_pool s)) as [|j r IH]; cbn [map existsb is_accept_ev orb]; [reflexivity|exact IH].
Qed.

(* once DrainRequests has been processed (or the factory is gone) a dispatch is never accepted:
   it is reported as Shutdown and rejected, or dropped with the dead factory's mailbox *)
Lemma drain_refuses_step0 c s j : closing s ->
  existsb is_accept_ev (snd (step0 c s (FDispatch j))) = false
  /\ (f_stopped s = true -> snd (step0 c s (FDispatch j)) = [EDropped (jid j)])
  /\ (f_stopped s = false ->
      exists rest, snd (step0 c s (FDispatch j)) = EDiscard (jid j) Shutdown :: EReject (jid j) :: rest).
Proof.
  intros Hc. cbn [step0]. destruct (f_stopped s) eqn:Hst.
  { cbn. repeat split; [discriminate]. }
  destruct Hc as [Hc|Hc]; [|congruence].
  unfold dispatch. destruct (f_drain s) eqn:Ed; [congruence| |];
    (unfold with_after; destruct (after_message s) as [s1 e1] eqn:Ea; cbn [snd];
     split; [|split; [discriminate|intros _; eexists; reflexivity]]; cbn [app existsb is_accept_ev orb];
     revert Ea; unfold after_message; rewrite Ed).
  - destruct (all_available (f_pool s) && (len (f_q s) =? 0)); intros H; inversion H; subst;
      [apply (stop_events_no_accept (set_dstate s Drained))|reflexivity].
  - intros H; inversion H; subst. apply stop_events_no_accept.
Qed.
Lemma drain_refuses_step c s j : closing s ->
  existsb is_accept_ev (snd (step c s (FDispatch j))) = false
  /\ (f_stopped s = true -> snd (step c s (FDispatch j)) = [EDropped (jid j)])
  /\ (f_stopped s = false ->
      exists rest, snd (step c s (FDispatch j)) = EDiscard (jid j) Shutdown :: EReject (jid j) :: rest).
Proof. unfold step. apply drain_refuses_step0. Qed.


(* the factory stops exactly when, after a processed message, every worker is available and the
   queue is empty; then the stopped hook runs and nothing is left to report *)
Lemma drain_stop_spec s : f_drain s = Draining ->
  if all_available (f_pool s) && (len (f_q s) =? 0)
  then f_stopped (fst (after_message s)) = true /\ snd (after_message s) = [EHook HStopped; EStopped]
  else after_message s = (s, []).
Proof.
  intros Hd. unfold after_message. rewrite Hd.
  destruct (all_available (f_pool s) && (len (f_q s) =? 0)) eqn:E; [|reflexivity].
  apply andb_true_iff in E. destruct E as [Ea E]. apply N.eqb_eq in E.
  unfold stop_factory. cbn [fst snd f_stopped set_dstate f_q f_pool].
  assert (Hq : flat_map w_q (f_pool s) = []).
  { unfold all_available in Ea. induction (f_pool s) as [|w r IH]; [reflexivity|]. cbn [forallb flat_map] in *.
    apply andb_true_iff in Ea. destruct Ea as [Ew Er]. rewrite (IH Er).
    unfold w_available in Ew. destruct (w_cur w), (w_q w); try discriminate; reflexivity. }
  rewrite Hq. destruct (f_q s); [split; reflexivity|unfold len in E; cbn [length] in E; lia].
Qed.

Lemma not_draining_never_stops s : f_drain s = NotDraining -> after_message s = (s, []).
Proof. intros Hd. unfold after_message. rewrite Hd. reflexivity. Qed.

(* whole histories: after a DrainRequests anywhere in the history, no later dispatch is accepted *)
Theorem drain_refuses c ops1 ops2 j :
  let s := state_after c (fst (step c (state_after c (fst (init c 0)) ops1) FDrain)) ops2 in
  existsb is_accept_ev (snd (step c s (FDispatch j))) = false.
Proof.
  intros s. apply drain_refuses_step. unfold s. apply state_after_closing.
  set (s1 := state_after c (fst (init c 0)) ops1). unfold step. cbn [step0].
  destruct (f_stopped s1) eqn:Hst; [right; exact Hst|].
  destruct (with_after (set_dstate s1 Draining, [EHook HDraining])) as [s' e] eqn:E. cbn [fst].
  eapply with_after_closing; [exact E|]. left. cbn. discriminate.
Qed.

(* a dispatch refused by the limiter is handed to the discard handler as RateLimited and rejected *)
Lemma rate_limited_reported c s j s1 e :
  f_drain s = NotDraining -> route c s j None = (s1, Limited, e) ->
  dispatch c s j = (s1, e ++ [EDiscard (jid j) RateLimited; EReject (jid j)]).
Proof. intros Hd Hr. unfold dispatch. rewrite Hd, Hr. reflexivity. Qed.

(* ... and the limiter refuses exactly when its refreshed balance is empty *)
Lemma route_limited_iff c rc ini b s j hint :
  c_rate c = Some (rc, ini) -> f_bucket s = Some b ->
  (snd (fst (route c s j hint)) = Limited <-> balance (refresh rc b (f_now s)) = 0).
Proof.
  intros Hc Hb. unfold route. rewrite Hc, Hb. unfold check.
  destruct (N.ltb_spec 0 (balance (refresh rc b (f_now s)))) as [Hpos|Hz].
  - destruct (route_inner c (set_bucket s (Some (refresh rc b (f_now s)))) j hint) as [[s2 r] e] eqn:E.
    assert (r <> Limited).
    { unfold route_inner in E. destruct (choose c _ j _ hint _) as [rs' [i|]]; [|inversion E; discriminate].
      destruct (find_w _ i); [destruct (enqueue_job c _ j)|]; inversion E; discriminate. }
    destruct r; cbn [fst snd]; split; intros; try lia; try discriminate; contradiction.
  - cbn [fst snd]. split; [intros _; lia|reflexivity].
Qed.

(* ------------------------------------------------------------------ *)
(* hooks: started, draining, stopped -- in this order, over whole runs   *)

Lemma hooks_app a b : hooks_of (a ++ b) = hooks_of a ++ hooks_of b.
Proof. unfold hooks_of. apply flat_map_app. Qed.

Lemma hooks_filter f e : hooks_of e = [] -> hooks_of (filter f e) = [].
Proof.
  unfold hooks_of. induction e as [|x r IH]; cbn [filter flat_map]; [reflexivity|].
  intros H. apply app_eq_nil in H. destruct H as [H1 H2]. destruct (f x); cbn [flat_map]; [rewrite H1|]; auto.
Qed.

Lemma hooks_shed l : hooks_of (shed_events l) = [].
Proof. unfold shed_events, hooks_of. induction l; cbn; auto. Qed.

Lemma enqueue_job_quiet c w j : hooks_of (snd (enqueue_job c w j)) = [].
Proof.
  rewrite enqueue_job_unfold.
  destruct (match wsettings c with Some (l, Newest) => negb (w_available w) && (l <=? len (w_q w)) | _ => false end);
    [reflexivity|].
  pose proof (enq_core_events w j) as He. destruct (enq_core w j) as [w1 e1]. cbn [snd] in He.
  assert (H1 : hooks_of e1 = []) by (destruct He as [->|(a & b & d & ->)]; reflexivity).
  destruct (wsettings c) as [[l [|]]|]; cbn [snd];
    change (EAccept (jid j) :: ?x) with ([EAccept (jid j)] ++ x); rewrite ?hooks_app, ?hooks_shed, ?H1; reflexivity.
Qed.

Lemma route_inner_quiet c s j hint s' r e : route_inner c s j hint = (s', r, e) -> hooks_of e = [].
Proof.
  unfold route_inner. destruct (choose c (f_rs s) j (f_size s) hint (f_pool s)) as [rs' [i|]];
    [|intros H; inversion H; reflexivity].
  cbn [set_rs f_pool]. destruct (find_w (f_pool s) i) as [w|]; [|intros H; inversion H; reflexivity].
  pose proof (enqueue_job_quiet c w j) as Hq. destruct (enqueue_job c w j) as [w' ev]. cbn [snd] in Hq.
  intros H; inversion H; subst. exact Hq.
Qed.

Lemma route_quiet c s j hint s' r e : route c s j hint = (s', r, e) -> hooks_of e = [].
Proof.
  unfold route. destruct (c_rate c) as [[rc ini]|]; [|apply route_inner_quiet].
  destruct (f_bucket s) as [b|]; [|apply route_inner_quiet].
  destruct (check rc b (f_now s)) as [b' ok]. destruct ok.
  - destruct (route_inner c (set_bucket s (Some b')) j hint) as [[s2 r2] e2] eqn:E.
    apply route_inner_quiet in E. intros H. destruct r2; inversion H; subst; exact E.
  - intros H; inversion H; reflexivity.
Qed.

Lemma try_route_quiet c fuel : forall s hint s' e, try_route c fuel s hint = (s', e) -> hooks_of e = [].
Proof.
  induction fuel as [|f IH]; intros s hint s' e; cbn [try_route]; [intros H; inversion H; reflexivity|].
  destruct (pop_front (c_queue c) (f_q s)) as [[j q']|]; [|intros H; inversion H; reflexivity].
  destruct (choose c (f_rs s) j (f_size s) hint (f_pool s)) as [rs' [i|]]; [|intros H; inversion H; reflexivity].
  destruct (route c (set_fq (set_rs s rs') q') j (Some i)) as [[s2 r] e0] eqn:Er.
  apply route_quiet in Er. pose proof (hooks_filter (answered (jid j)) e0 Er) as Hf. intros H. destruct r.
  - inversion H; subst. exact Hf.
  - inversion H; subst. rewrite hooks_app, Hf. reflexivity.
  - destruct (try_route c f s2 hint) as [s3 e'] eqn:Et. inversion H; subst.
    rewrite hooks_app, Hf. cbn [app]. change (hooks_of (EDiscard (jid j) RateLimited :: e')) with (hooks_of e').
    eapply IH; eassumption.
Qed.

Lemma shed_fq_quiet k l fuel : forall q, hooks_of (snd (shed_fq k l fuel q)) = [].
Proof.
  induction fuel as [|f IH]; intros q; cbn [shed_fq]; [reflexivity|].
  destruct (l <? len q); [|reflexivity]. destruct (discard_oldest k q) as [[x q']|]; [|reflexivity].
  specialize (IH q'). destruct (shed_fq k l f q') as [q'' e]. cbn [snd] in *. exact IH.
Qed.

Lemma maybe_enqueue_quiet c q j : hooks_of (snd (maybe_enqueue c q j)) = [].
Proof.
  unfold maybe_enqueue. destruct (c_discard c) as [[l [|]]|]; [| |reflexivity].
  - destruct (discardable c j && (l <=? len q)); reflexivity.
  - pose proof (shed_fq_quiet (c_queue c) l (length (q ++ [j])) (q ++ [j])) as H.
    destruct (shed_fq (c_queue c) l (length (q ++ [j])) (q ++ [j])) as [q2 e]. cbn [snd] in *. exact H.
Qed.

Lemma dispatch_quiet c s j s' e : dispatch c s j = (s', e) -> hooks_of e = [].
Proof.
  unfold dispatch. destruct (f_drain s); try (intros H; inversion H; reflexivity).
  destruct (route c s j None) as [[s1 r] e1] eqn:Er. apply route_quiet in Er. intros H.
  destruct r.
  - inversion H; subst. exact Er.
  - pose proof (maybe_enqueue_quiet c (f_q s1) j) as Hm. destruct (maybe_enqueue c (f_q s1) j) as [q' e'].
    inversion H; subst. rewrite hooks_app, Er. exact Hm.
  - inversion H; subst. rewrite hooks_app, Er. reflexivity.
Qed.

Lemma dispatch_job_quiet w j : hooks_of (snd (dispatch_job w j)) = [].
Proof. unfold dispatch_job. destruct (w_alive w); reflexivity. Qed.

Lemma worker_complete_quiet w : hooks_of (snd (worker_complete w)) = [].
Proof. unfold worker_complete. destruct (w_q w); [reflexivity|apply dispatch_job_quiet]. Qed.

Lemma worker_finished_quiet c s i s' e : worker_finished c s i = (s', e) ->
  hooks_of e = [] /\ f_stopped s' = f_stopped s.
Proof.
  unfold worker_finished. destruct (find_w (f_pool s) i) as [w|]; [|intros H; inversion H; split; reflexivity].
  pose proof (worker_complete_quiet w) as Hq. destruct (worker_complete w) as [w' e1]. cbn [snd] in Hq.
  destruct (w_drain w').
  - destruct (w_working w'); intros H; inversion H; subst; split; try exact Hq; reflexivity.
  - unfold try_route_next.
    match goal with |- context [try_route c ?f ?st (Some i)] => destruct (try_route c f st (Some i)) as [s2 e'] eqn:Et end.
    intros H; inversion H; subst. pose proof (try_route_quiet _ _ _ _ _ _ Et) as Hq2.
    apply try_route_frame in Et. destruct Et as (_ & _ & F3 & _).
    split; [rewrite hooks_app, Hq, Hq2; reflexivity|].
    unfold mark_available. destruct (avail_in _ i); cbn [set_rs f_stopped]; rewrite F3; reflexivity.
Qed.

Lemma worker_died_quiet c s i s' e : worker_died c s i = (s', e) ->
  hooks_of e = [] /\ f_stopped s' = f_stopped s.
Proof.
  unfold worker_died. destruct (find_w (f_pool s) i) as [w|]; [|intros H; inversion H; split; reflexivity].
  assert (Hl : hooks_of (match w_cur w with Some j => [ELost (jid j)] | None => [] end) = [])
    by (destruct (w_cur w); reflexivity).
  destruct (w_drain w && match w_q w with [] => true | _ => false end);
    [intros H; inversion H; subst; split; [exact Hl|reflexivity]|].
  unfold build, try_route_next. cbn [set_builds f_pool].
  set (w0 := mkW (w_id w) None (w_q w) (w_drain w) (assoc i (f_builds s) + 1) true).
  assert (H1 : hooks_of (snd (match w_q w0 with j :: r => dispatch_job (set_q w0 r) j | [] => (w0, []) end)) = [])
    by (destruct (w_q w0); reflexivity).
  destruct (match w_q w0 with j :: r => dispatch_job (set_q w0 r) j | [] => (w0, []) end) as [w1 e1]. cbn [snd] in H1.
  match goal with |- context [try_route c ?f ?st (Some i)] => destruct (try_route c f st (Some i)) as [s2 e'] eqn:Et end.
  intros H; inversion H; subst. pose proof (try_route_quiet _ _ _ _ _ _ Et) as Hq2.
  apply try_route_frame in Et. destruct Et as (_ & _ & F3 & _).
  split; [rewrite !hooks_app, Hl, H1, Hq2; reflexivity|].
  unfold mark_available. destruct (avail_in _ i); cbn [set_rs f_stopped]; rewrite F3; reflexivity.
Qed.

Lemma route_queued_quiet c n : forall s s' e, route_queued c s n = (s', e) -> hooks_of e = [].
Proof.
  induction n as [|k IH]; intros s s' e; cbn [route_queued]; [intros H; inversion H; reflexivity|].
  destruct (f_q s); [intros H; inversion H; reflexivity|].
  unfold try_route_next. destruct (try_route c _ s None) as [s1 e1] eqn:Et.
  destruct (route_queued c s1 k) as [s2 e2] eqn:Er. intros H. inversion H; subst.
  rewrite hooks_app, (try_route_quiet _ _ _ _ _ _ Et), (IH _ _ _ Er). reflexivity.
Qed.

Lemma route_backlog_quiet c n : forall s s' e, route_backlog c s n = (s', e) -> hooks_of e = [].
Proof.
  induction n as [|k IH]; intros s s' e; cbn [route_backlog]; [intros H; inversion H; reflexivity|].
  destruct (f_q s) eqn:Eq; [intros H; inversion H; reflexivity|].
  unfold try_route_next. destruct (try_route c _ s None) as [s1 e1] eqn:Et.
  destruct (len (j :: l) <=? len (f_q s1)).
  - intros H. inversion H; subst. eapply try_route_quiet; eassumption.
  - destruct (route_backlog c s1 k) as [s2 e2] eqn:Er. intros H. inversion H; subst.
    rewrite hooks_app, (try_route_quiet _ _ _ _ _ _ Et), (IH _ _ _ Er). reflexivity.
Qed.

Lemma grow_stopped c k : forall s from, f_stopped (grow c s from k) = f_stopped s.
Proof.
  induction k as [|k IH]; intros s from; cbn [grow]; [reflexivity|]. rewrite IH.
  destruct (find_w (f_pool s) from); [unfold mark_available; cbn; destruct (avail_in _ from); reflexivity|reflexivity].
Qed.

Lemma shrink_stopped c k : forall s from, f_stopped (shrink c s from k) = f_stopped s.
Proof.
  induction k as [|k IH]; intros s from; cbn [shrink]; [reflexivity|]. rewrite IH.
  destruct (find_w (f_pool s) from) as [w|]; [destruct (w_working w)|]; reflexivity.
Qed.

Lemma resize_quiet c s n s' e : resize c s n = (s', e) -> hooks_of e = [] /\ f_stopped s' = f_stopped s.
Proof.
  unfold resize. destruct (n =? 0); [intros H; inversion H; split; reflexivity|].
  destruct (f_size s <? N.min pool_max n).
  - intros H.
    assert (Hq : hooks_of e = []).
    { destruct (factory_queueing c); [eapply route_queued_quiet|eapply route_backlog_quiet]; eassumption. }
    apply resize_grow_frame in H. destruct H as (_ & _ & F3 & _). split; [exact Hq|].
    rewrite F3. cbn [set_size f_stopped]. apply grow_stopped.
  - destruct (N.min pool_max n <? f_size s); intros H; inversion H; subst; split; try reflexivity.
    cbn [set_size f_stopped]. apply shrink_stopped.
Qed.

Lemma stop_factory_hooks s : hooks_of (snd (stop_factory s)) = [HStopped] /\ f_stopped (fst (stop_factory s)) = true.
Proof.
  unfold stop_factory. cbn [fst snd f_stopped]. split; [|reflexivity]. rewrite hooks_app.
  replace (hooks_of (map (fun j => EDiscard (jid j) Shutdown) (f_q s ++ flat_map w_q (f_pool s)))) with (@nil hook); [reflexivity|].
  induction (f_q s ++ flat_map w_q (f_pool s)); cbn; auto.
Qed.

Definition stopped_hook (b : bool) : list hook := if b then [HStopped] else [].

Lemma after_message_hooks s : f_stopped s = false ->
  hooks_of (snd (after_message s)) = stopped_hook (f_stopped (fst (after_message s))).
Proof.
  intros Hns. unfold after_message. destruct (f_drain s).
  - cbn [fst snd]. rewrite Hns. reflexivity.
  - destruct (all_available (f_pool s) && (len (f_q s) =? 0)).
    + destruct (stop_factory_hooks (set_dstate s Drained)) as [H1 H2]. rewrite H1, H2. reflexivity.
    + cbn [fst snd]. rewrite Hns. reflexivity.
  - destruct (stop_factory_hooks s) as [H1 H2]. rewrite H1, H2. reflexivity.
Qed.

Lemma with_after_hooks r : f_stopped (fst r) = false -> hooks_of (snd r) = [] ->
  hooks_of (snd (with_after r)) = stopped_hook (f_stopped (fst (with_after r))).
Proof.
  destruct r as [s0 e0]. cbn [fst snd]. intros Hns Hq. unfold with_after.
  pose proof (after_message_hooks s0 Hns) as H. destruct (after_message s0) as [s1 e1]. cbn [fst snd] in *.
  rewrite hooks_app, Hq. exact H.
Qed.

Lemma finish_w_hooks c s i only : f_stopped s = false ->
  hooks_of (snd (finish_w c s i only)) = stopped_hook (f_stopped (fst (finish_w c s i only))).
Proof.
  intros Hns. unfold finish_w. rewrite Hns.
  destruct (find_w (f_pool s) i) as [w|]; [|cbn [fst snd]; rewrite Hns; reflexivity].
  destruct (w_cur w) as [j|]; [|cbn [fst snd]; rewrite Hns; reflexivity].
  destruct (match only with Some id => jid j =? id | None => true end); [|cbn [fst snd]; rewrite Hns; reflexivity].
  destruct (worker_finished c s i) as [s0 e0] eqn:Ew. destruct (worker_finished_quiet _ _ _ _ _ Ew) as [Hq Hs].
  pose proof (with_after_hooks (s0, e0)) as H. cbn [fst snd] in H. specialize (H ltac:(congruence) Hq).
  destruct (with_after (s0, e0)) as [s1 e1]. cbn [fst snd] in *. exact H.
Qed.

Definition drain_hook (o : fop) : list hook := match o with FDrain => [HDraining] | _ => [] end.

Lemma finish_list_hooks c l : forall s, f_stopped s = false ->
  hooks_of (snd (finish_list c s l)) = stopped_hook (f_stopped (fst (finish_list c s l))).
Proof.
  induction l as [|[i id] r IH]; intros s Hns; cbn [finish_list]; [cbn [fst snd]; rewrite Hns; reflexivity|].
  pose proof (finish_w_hooks c s i (Some id) Hns) as H1.
  destruct (finish_w c s i (Some id)) as [s1 e1] eqn:E1. cbn [fst snd] in H1.
  destruct (f_stopped s1) eqn:Hs1.
  - (* stopped in the middle: the rest does nothing *)
    assert (Hrest : forall l' , finish_list c s1 l' = (s1, [])).
    { induction l' as [|[i' id'] r' IH']; cbn [finish_list]; [reflexivity|].
      unfold finish_w. rewrite Hs1. rewrite IH'. reflexivity. }
    rewrite Hrest. cbn [fst snd]. rewrite app_nil_r, Hs1. exact H1.
  - specialize (IH s1 Hs1). destruct (finish_list c s1 r) as [s2 e2]. cbn [fst snd] in *.
    rewrite hooks_app, H1. exact IH.
Qed.

(* one label from a living factory: a draining hook iff the label is DrainRequests, then the
   stopped hook iff the factory stops in this step; a stopped factory runs no hook and stays stopped *)
Lemma tick_calc_quiet c s s' e : tick_calc c s = (s', e) ->
  hooks_of e = [] /\ f_stopped s' = f_stopped s.
Proof.
  unfold tick_calc. destruct (fst (f_scripts s)) as [|n rest]; [intros H; inversion H; split; reflexivity|].
  destruct (n =? f_size (set_scripts s (rest, snd (f_scripts s)))); [intros H; inversion H; split; reflexivity|].
  intros H. apply resize_quiet in H. exact H.
Qed.

Lemma step_hooks0 c s o :
  (f_stopped s = true -> hooks_of (snd (step0 c s o)) = [] /\ f_stopped (fst (step0 c s o)) = true)
  /\ (f_stopped s = false ->
      hooks_of (snd (step0 c s o)) = drain_hook o ++ stopped_hook (f_stopped (fst (step0 c s o)))).
Proof.
  split; intros Hst.
  - destruct o; cbn [step0]; unfold finish_w; try rewrite Hst; try (split; [reflexivity|exact Hst]).
    assert (Hrest : forall l', finish_list c s l' = (s, [])).
    { induction l' as [|[i' id'] r' IH']; cbn [finish_list]; [reflexivity|].
      unfold finish_w. rewrite Hst. rewrite IH'. reflexivity. }
    rewrite Hrest. split; [reflexivity|exact Hst].
  - destruct o as [j|i| |i|i|n| |dt| | |i|i|d| |]; cbn [step0 drain_hook app]; try rewrite Hst.
    11:{ destruct (find_w (f_pool s) i) as [w|]; [|cbn [fst snd]; rewrite Hst; reflexivity].
         destruct (w_alive w && match w_cur w with None => true | Some _ => false end);
           cbn [fst snd set_pool f_stopped]; rewrite Hst; reflexivity. }
    11:{ destruct (find_w (f_pool s) i) as [w|]; [|cbn [fst snd]; rewrite Hst; reflexivity].
         destruct (w_alive w); [cbn [fst snd]; rewrite Hst; reflexivity|].
         destruct (worker_died c s i) as [s' e] eqn:E. destruct (worker_died_quiet _ _ _ _ _ E) as [Hq Hs].
         cbn [fst snd]. rewrite Hq, Hs, Hst. reflexivity. }
    11:{ apply (with_after_hooks (set_discard (set_scripts s (fst (f_scripts s), [])) d, [])); [exact Hst|reflexivity]. }
    11:{ apply (with_after_hooks (s, [])); [exact Hst|reflexivity]. }
    11:{ destruct (tick_calc c (set_now s (f_now s + tick_ns))) as [sa ea] eqn:Ec.
         destruct (tick_calc_quiet _ _ _ _ Ec) as [Hq Hs]. cbn [set_now f_stopped] in Hs.
         pose proof (with_after_hooks (sa, ea)) as H1. cbn [fst snd] in H1. specialize (H1 ltac:(congruence) Hq).
         destruct (with_after (sa, ea)) as [s1 e1]. cbn [fst snd] in H1.
         destruct (f_stopped s1) eqn:Hs1; [cbn [fst snd]; rewrite Hs1; exact H1|].
         destruct (tick_ping_mode s1) as (_ & P2 & P3). destruct (tick_ping s1) as [sp0 ep0]. cbn [fst snd] in *. subst ep0.
         pose proof (with_after_hooks (sp0, [])) as H2. cbn [fst snd] in H2. specialize (H2 ltac:(congruence) eq_refl).
         destruct (with_after (sp0, [])) as [s2 e2]. cbn [fst snd] in *. rewrite hooks_app, H1, H2. reflexivity. }
    + destruct (dispatch c s j) as [s0 e0] eqn:Ed. pose proof (dispatch_quiet _ _ _ _ _ Ed) as Hq.
      destruct (dispatch_frame _ _ _ _ _ Ed) as (_ & _ & F3 & _).
      apply (with_after_hooks (s0, e0)); [cbn [fst]; congruence|exact Hq].
    + apply finish_w_hooks. exact Hst.
    + apply finish_list_hooks. exact Hst.
    + destruct (find_w (f_pool s) i) as [w|]; [|cbn [fst snd]; rewrite Hst; reflexivity].
      destruct (w_cur w); [|cbn [fst snd]; rewrite Hst; reflexivity].
      destruct (worker_died c s i) as [s' e] eqn:E. destruct (worker_died_quiet _ _ _ _ _ E) as [Hq Hs].
      cbn [fst snd]. rewrite Hq, Hs, Hst. reflexivity.
    + destruct (worker_died c s i) as [s' e] eqn:E. destruct (worker_died_quiet _ _ _ _ _ E) as [Hq Hs].
      cbn [fst snd]. rewrite Hq, Hs, Hst. reflexivity.
    + destruct (resize c s n) as [s0 e0] eqn:Ed. destruct (resize_quiet _ _ _ _ _ Ed) as [Hq Hs].
      apply (with_after_hooks (s0, e0)); [cbn [fst]; congruence|exact Hq].
    + unfold with_after. pose proof (after_message_hooks (set_dstate s Draining) Hst) as H.
      destruct (after_message (set_dstate s Draining)) as [s1 e1]. cbn [fst snd] in *.
      rewrite hooks_app, H. reflexivity.
    + cbn [fst snd set_now f_stopped]. rewrite Hst. reflexivity.
    + cbn [fst snd set_now f_stopped]. rewrite Hst. reflexivity.
    + pose proof (after_message_hooks s Hst) as H. destruct (after_message s) as [s1 e1]. cbn [fst snd] in H.
      destruct (f_stopped s1) eqn:Hs1; cbn [fst snd]; rewrite Hs1.
      * rewrite hooks_app, H. reflexivity.
      * reflexivity.
Qed.
Lemma step_hooks c s o :
  (f_stopped s = true -> hooks_of (snd (step c s o)) = [] /\ f_stopped (fst (step c s o)) = true)
  /\ (f_stopped s = false ->
      hooks_of (snd (step c s o)) = drain_hook o ++ stopped_hook (f_stopped (fst (step c s o)))).
Proof. unfold step. apply step_hooks0. Qed.


Definition count_drains (ops : list fop) : nat :=
  length (filter (fun o => match o with FDrain => true | _ => false end) ops).

Definition is_drain (o : fop) : bool := match o with FDrain => true | _ => false end.

(* DrainRequests labels that reach a living factory *)
Fixpoint drains_alive (c : fcfg) (s : fstate) (ops : list fop) : nat :=
  match ops with
  | [] => 0
  | o :: r => ((if negb (f_stopped s) && is_drain o then 1 else 0) + drains_alive c (fst (step c s o)) r)%nat
  end.

Lemma drains_alive_le c ops : forall s, (drains_alive c s ops <= count_drains ops)%nat.
Proof.
  unfold count_drains. induction ops as [|o r IH]; intros s; cbn [drains_alive filter length]; [apply Nat.le_refl|].
  specialize (IH (fst (step c s o))). destruct o; cbn [is_drain andb]; try rewrite andb_false_r; cbn [length]; try lia.
  destruct (negb (f_stopped s)); cbn [andb]; lia.
Qed.

Lemma run_from_hooks c ops : forall s,
  (f_stopped s = true -> hooks_of (concat (run_from c s ops)) = [] /\ f_stopped (state_after c s ops) = true)
  /\ (f_stopped s = false ->
      hooks_of (concat (run_from c s ops))
      = repeat HDraining (drains_alive c s ops) ++ stopped_hook (f_stopped (state_after c s ops))).
Proof.
  induction ops as [|o r IH]; intros s.
  { cbn [run_from concat state_after drains_alive repeat app]. split; intros Hst.
    - split; [reflexivity|exact Hst].
    - rewrite Hst. reflexivity. }
  cbn [run_from state_after drains_alive]. destruct (step_hooks c s o) as [S1 S2].
  destruct (step c s o) as [s1 e1] eqn:Es. cbn [fst snd concat] in *. destruct (IH s1) as [I1 I2].
  split; intros Hst.
  - destruct (S1 Hst) as [A B]. destruct (I1 B) as [C D]. rewrite hooks_app, A, C. split; [reflexivity|exact D].
  - specialize (S2 Hst). rewrite hooks_app, S2, Hst. cbn [negb andb]. destruct (f_stopped s1) eqn:Hs1.
    + destruct (I1 eq_refl) as [C D]. rewrite C, D. cbn [stopped_hook]. rewrite app_nil_r.
      assert (Hz : drains_alive c s1 r = 0%nat).
      { clear -Hs1. revert s1 Hs1. induction r as [|o' r' IH']; intros s1 Hs1; cbn [drains_alive]; [reflexivity|].
        rewrite Hs1. cbn [negb andb]. destruct (step_hooks c s1 o') as [S1 _]. destruct (S1 Hs1) as [_ B].
        rewrite (IH' _ B). reflexivity. }
      rewrite Hz, Nat.add_0_r. destruct o; cbn [is_drain drain_hook repeat app]; reflexivity.
    + rewrite (I2 eq_refl). cbn [stopped_hook]. rewrite app_nil_r.
      destruct o; cbn [is_drain drain_hook repeat app Nat.add]; reflexivity.
Qed.

(* a factory that is not draining does not stop on a label other than DrainRequests *)
Definition calm (s : fstate) : Prop := f_drain s = NotDraining /\ f_stopped s = false.

Lemma with_after_calm r : calm (fst r) -> calm (fst (with_after r)).
Proof.
  destruct r as [s0 e0]. cbn [fst]. intros [H1 H2]. unfold with_after.
  rewrite (not_draining_never_stops s0 H1). cbn [fst]. split; assumption.
Qed.

Lemma finish_w_calm c s i only : calm s -> calm (fst (finish_w c s i only)).
Proof.
  intros [H1 H2]. unfold finish_w. rewrite H2.
  destruct (find_w (f_pool s) i) as [w|]; [|split; assumption].
  destruct (w_cur w) as [j|]; [|split; assumption].
  destruct (match only with Some id => jid j =? id | None => true end); [|split; assumption].
  destruct (worker_finished c s i) as [s0 e0] eqn:Ew.
  pose proof (with_after_calm (s0, e0)) as H. cbn [fst] in H.
  destruct (with_after (s0, e0)) as [s1 e1]. cbn [fst] in *. apply H.
  split; [rewrite (worker_finished_mode _ _ _ _ _ Ew); exact H1|].
  destruct (worker_finished_quiet _ _ _ _ _ Ew) as [_ Hs]. congruence.
Qed.

Lemma finish_list_calm c l : forall s, calm s -> calm (fst (finish_list c s l)).
Proof.
  induction l as [|[i id] r IH]; intros s Hc; cbn [finish_list]; [exact Hc|].
  pose proof (finish_w_calm c s i (Some id) Hc) as H1. destruct (finish_w c s i (Some id)) as [s1 e1]. cbn [fst] in H1.
  specialize (IH s1 H1). destruct (finish_list c s1 r) as [s2 e2]. exact IH.
Qed.

Lemma step_calm0 c s o : is_drain o = false -> calm s -> calm (fst (step0 c s o)).
Proof.
  intros Ho Hc. pose proof Hc as [H1 H2]. destruct o as [j|i| |i|i|n| |dt| | |i|i|d| |]; cbn [step0]; try discriminate; try rewrite H2.
  10:{ destruct (find_w (f_pool s) i) as [w|]; [|exact Hc].
       destruct (w_alive w && match w_cur w with None => true | Some _ => false end); [|exact Hc].
       cbn [fst]. split; assumption. }
  10:{ destruct (find_w (f_pool s) i) as [w|]; [|exact Hc]. destruct (w_alive w); [exact Hc|].
       destruct (worker_died c s i) as [s' e] eqn:E. cbn [fst].
       destruct (worker_died_quiet _ _ _ _ _ E) as [_ Hs]. split; [rewrite (worker_died_mode _ _ _ _ _ E); exact H1|congruence]. }
  10:{ apply (with_after_calm (set_discard (set_scripts s (fst (f_scripts s), [])) d, [])). exact Hc. }
  10:{ apply (with_after_calm (s, [])). exact Hc. }
  10:{ destruct (tick_calc c (set_now s (f_now s + tick_ns))) as [sa ea] eqn:Ec.
       pose proof (tick_calc_mode _ _ _ _ Ec) as Hm. destruct (tick_calc_quiet _ _ _ _ Ec) as [_ Hs].
       cbn [set_now f_drain f_stopped] in Hm, Hs.
       pose proof (with_after_calm (sa, ea)) as C1. cbn [fst] in C1. specialize (C1 ltac:(split; congruence)).
       destruct (with_after (sa, ea)) as [s1 e1]. cbn [fst] in C1. destruct C1 as [D1 D2]. rewrite D2.
       destruct (tick_ping_mode s1) as (P1 & P2 & _). destruct (tick_ping s1) as [sp0 ep0]. cbn [fst] in *.
       pose proof (with_after_calm (sp0, ep0)) as C2. cbn [fst] in C2. specialize (C2 ltac:(split; congruence)).
       destruct (with_after (sp0, ep0)) as [s2 e2]. cbn [fst] in *. exact C2. }
  - destruct (dispatch c s j) as [s0 e0] eqn:Ed. apply (with_after_calm (s0, e0)). cbn [fst].
    destruct (dispatch_frame _ _ _ _ _ Ed) as (_ & F2 & F3 & _). split; congruence.
  - apply finish_w_calm. exact Hc.
  - apply finish_list_calm. exact Hc.
  - destruct (find_w (f_pool s) i) as [w|]; [|exact Hc]. destruct (w_cur w); [|exact Hc].
    destruct (worker_died c s i) as [s' e] eqn:E. cbn [fst].
    destruct (worker_died_quiet _ _ _ _ _ E) as [_ Hs]. split; [rewrite (worker_died_mode _ _ _ _ _ E); exact H1|congruence].
  - destruct (worker_died c s i) as [s' e] eqn:E. cbn [fst].
    destruct (worker_died_quiet _ _ _ _ _ E) as [_ Hs]. split; [rewrite (worker_died_mode _ _ _ _ _ E); exact H1|congruence].
  - destruct (resize c s n) as [s0 e0] eqn:Ed. apply (with_after_calm (s0, e0)). cbn [fst].
    destruct (resize_quiet _ _ _ _ _ Ed) as [_ Hs]. split; [rewrite (resize_mode _ _ _ _ _ Ed); exact H1|congruence].
  - exact Hc.
  - exact Hc.
  - rewrite (not_draining_never_stops s H1). cbn [fst]. rewrite H2. exact Hc.
Qed.
Lemma step_calm c s o : is_drain o = false -> calm s -> calm (fst (step c s o)).
Proof. unfold step. apply step_calm0. Qed.


Lemma stopped_needs_drain c ops : forall s, calm s ->
  f_stopped (state_after c s ops) = true -> (1 <= drains_alive c s ops)%nat.
Proof.
  induction ops as [|o r IH]; intros s Hc; cbn [state_after drains_alive].
  { destruct Hc as [_ H2]. congruence. }
  intros Hst. destruct (is_drain o) eqn:Ho.
  - destruct Hc as [_ H2]. rewrite H2. cbn [negb andb]. lia.
  - rewrite andb_false_r. cbn [Nat.add]. apply IH; [apply step_calm; assumption|exact Hst].
Qed.

Lemma init_calm c t0 : calm (fst (init c t0)) /\ snd (init c t0) = [EHook HStarted].
Proof.
  unfold init. cbn [fst snd]. split; [|reflexivity]. split.
  - cbn [set_size f_drain]. rewrite grow_mode. reflexivity.
  - cbn [set_size f_stopped]. rewrite grow_stopped. reflexivity.
Qed.

(* The hooks of EVERY run: started exactly once and first; then one draining hook per
   DrainRequests that reached the living factory (so exactly one for a single request); then, iff
   the factory has stopped, the stopped hook exactly once and last -- and a stop is always
   preceded by at least one draining hook. *)
Theorem hooks_order c ops :
  let s := state_after c (fst (init c 0)) ops in
  let k := drains_alive c (fst (init c 0)) ops in
  hooks_of (concat (factory_run c ops)) = HStarted :: repeat HDraining k ++ stopped_hook (f_stopped s)
  /\ (k <= count_drains ops)%nat
  /\ (f_stopped s = true -> (1 <= k)%nat).
Proof.
  cbn zeta. destruct (init_calm c 0) as [Hc He]. unfold factory_run.
  destruct (init c 0) as [s0 e0]. cbn [fst snd] in *. subst e0.
  destruct (run_from_hooks c ops s0) as [_ H2]. destruct Hc as [H1 Hns].
  split; [|split].
  - cbn [concat]. rewrite hooks_app. cbn [hooks_of flat_map app]. f_equal. apply H2. exact Hns.
  - apply drains_alive_le.
  - intros Hst. apply stopped_needs_drain; [split; assumption|exact Hst].
Qed.

(* ------------------------------------------------------------------ *)
(* answers, hooks and the stop event of every step (towards oracle soundness) *)

Definition special (x : ev) : bool :=
  match x with EAccept _ | EReject _ | EDropped _ | EStopped | EHook _ => true | _ => false end.
Definition sp (e : list ev) : list ev := filter special e.

Lemma sp_app a b : sp (a ++ b) = sp a ++ sp b.
Proof. apply filter_app. Qed.

Lemma sp_shed l : sp (shed_events l) = [].
Proof. unfold sp, shed_events. induction l; cbn; auto. Qed.

Definition answer_of (id : N) (l : list ev) : Prop := l = [EAccept id] \/ l = [EReject id].

Lemma sp_filter_answered id e : answer_of id (sp e) \/ sp e = [] -> sp (filter (answered id) e) = [].
Proof.
  intros H. unfold sp in *.
  assert (E : filter special (filter (answered id) e) = filter (answered id) (filter special e)).
  { clear H. induction e as [|x r IH]; cbn [filter]; [reflexivity|].
    destruct (answered id x) eqn:Ea, (special x) eqn:Es; cbn [filter]; rewrite ?Ea, ?Es; rewrite IH; reflexivity. }
  rewrite E. unfold answer_of in H. destruct H as [[H|H]|H]; rewrite H; cbn [filter answered];
    rewrite ?N.eqb_refl; reflexivity.
Qed.

Lemma enqueue_job_sp c w j : answer_of (jid j) (sp (snd (enqueue_job c w j))).
Proof.
  rewrite enqueue_job_unfold.
  destruct (match wsettings c with Some (l, Newest) => negb (w_available w) && (l <=? len (w_q w)) | _ => false end);
    [right; reflexivity|].
  left. pose proof (enq_core_events w j) as He. destruct (enq_core w j) as [w1 e1]. cbn [snd] in He.
  assert (H1 : sp e1 = []) by (destruct He as [->|(a & b & d & ->)]; reflexivity).
  destruct (wsettings c) as [[l [|]]|]; cbn [snd];
    change (EAccept (jid j) :: ?x) with ([EAccept (jid j)] ++ x); rewrite ?sp_app, ?sp_shed, ?H1; reflexivity.
Qed.

Lemma route_inner_sp c s j hint s' r e : route_inner c s j hint = (s', r, e) ->
  (r = Handled /\ answer_of (jid j) (sp e)) \/ (r = Backlog /\ e = []).
Proof.
  unfold route_inner. destruct (choose c (f_rs s) j (f_size s) hint (f_pool s)) as [rs' [i|]];
    [|intros H; inversion H; right; split; reflexivity].
  cbn [set_rs f_pool]. destruct (find_w (f_pool s) i) as [w|]; [|intros H; inversion H; right; split; reflexivity].
  pose proof (enqueue_job_sp c w j) as Hq. destruct (enqueue_job c w j) as [w' ev]. cbn [snd] in Hq.
  intros H; inversion H; subst. left. split; [reflexivity|exact Hq].
Qed.

Lemma route_sp c s j hint s' r e : route c s j hint = (s', r, e) ->
  (r = Handled /\ answer_of (jid j) (sp e)) \/ (r <> Handled /\ e = []).
Proof.
  assert (G : forall s0 s1 r1 e1, route_inner c s0 j hint = (s1, r1, e1) ->
              (r1 = Handled /\ answer_of (jid j) (sp e1)) \/ (r1 <> Handled /\ e1 = [])).
  { intros s0 s1 r1 e1 H. destruct (route_inner_sp _ _ _ _ _ _ _ H) as [[A B]|[A B]]; [left; split; assumption|].
    right. split; [rewrite A; discriminate|exact B]. }
  unfold route. destruct (c_rate c) as [[rc ini]|]; [|apply G].
  destruct (f_bucket s) as [b|]; [|apply G].
  destruct (check rc b (f_now s)) as [b' ok]. destruct ok.
  - destruct (route_inner c (set_bucket s (Some b')) j hint) as [[s2 r2] e2] eqn:E.
    apply G in E. intros H. destruct r2; inversion H; subst; exact E.
  - intros H; inversion H. right. split; [discriminate|reflexivity].
Qed.

Lemma try_route_sp c fuel : forall s hint s' e, try_route c fuel s hint = (s', e) -> sp e = [].
Proof.
  induction fuel as [|f IH]; intros s hint s' e; cbn [try_route]; [intros H; inversion H; reflexivity|].
  destruct (pop_front (c_queue c) (f_q s)) as [[j q']|]; [|intros H; inversion H; reflexivity].
  destruct (choose c (f_rs s) j (f_size s) hint (f_pool s)) as [rs' [i|]]; [|intros H; inversion H; reflexivity].
  destruct (route c (set_fq (set_rs s rs') q') j (Some i)) as [[s2 r] e0] eqn:Er.
  assert (Hf : sp (filter (answered (jid j)) e0) = []).
  { apply sp_filter_answered. destruct (route_sp _ _ _ _ _ _ _ Er) as [[_ A]|[_ A]]; [left; exact A|right; rewrite A; reflexivity]. }
  intros H. destruct r.
  - inversion H; subst. exact Hf.
  - inversion H; subst. rewrite sp_app, Hf. reflexivity.
  - destruct (try_route c f s2 hint) as [s3 e'] eqn:Et. inversion H; subst.
    rewrite sp_app, Hf. cbn [app]. change (sp (EDiscard (jid j) RateLimited :: e')) with (sp e').
    eapply IH; eassumption.
Qed.

Lemma shed_fq_sp k l fuel : forall q, sp (snd (shed_fq k l fuel q)) = [].
Proof.
  induction fuel as [|f IH]; intros q; cbn [shed_fq]; [reflexivity|].
  destruct (l <? len q); [|reflexivity]. destruct (discard_oldest k q) as [[x q']|]; [|reflexivity].
  specialize (IH q'). destruct (shed_fq k l f q') as [q'' e]. cbn [snd] in *. exact IH.
Qed.

Lemma maybe_enqueue_sp c q j : answer_of (jid j) (sp (snd (maybe_enqueue c q j))).
Proof.
  unfold maybe_enqueue. destruct (c_discard c) as [[l [|]]|]; [| |left; reflexivity].
  - destruct (discardable c j && (l <=? len q)); [right|left]; reflexivity.
  - pose proof (shed_fq_sp (c_queue c) l (length (q ++ [j])) (q ++ [j])) as H.
    destruct (shed_fq (c_queue c) l (length (q ++ [j])) (q ++ [j])) as [q2 e]. cbn [snd] in *.
    left. change (sp ([EAccept (jid j)] ++ e) = [EAccept (jid j)]). rewrite sp_app, H. reflexivity.
Qed.

(* a dispatch handled by the living factory is answered exactly once, and with its own id *)
Lemma dispatch_sp c s j s' e : dispatch c s j = (s', e) -> answer_of (jid j) (sp e).
Proof.
  unfold dispatch. destruct (f_drain s); try (intros H; inversion H; right; reflexivity).
  destruct (route c s j None) as [[s1 r] e1] eqn:Er. intros H.
  destruct (route_sp _ _ _ _ _ _ _ Er) as [[A B]|[A B]].
  - subst r. inversion H; subst. exact B.
  - subst e1. destruct r; [contradiction| |].
    + pose proof (maybe_enqueue_sp c (f_q s1) j) as Hm. destruct (maybe_enqueue c (f_q s1) j) as [q' e'].
      inversion H; subst. exact Hm.
    + inversion H; subst. right. reflexivity.
Qed.

Lemma worker_finished_sp c s i s' e : worker_finished c s i = (s', e) -> sp e = [].
Proof.
  unfold worker_finished. destruct (find_w (f_pool s) i) as [w|]; [|intros H; inversion H; reflexivity].
  assert (Hq : sp (snd (worker_complete w)) = [])
    by (unfold worker_complete, dispatch_job; destruct (w_q w); [reflexivity|];
        cbn [set_q set_cur w_alive]; destruct (w_alive w); reflexivity).
  destruct (worker_complete w) as [w' e1]. cbn [snd] in Hq. destruct (w_drain w').
  - destruct (w_working w'); intros H; inversion H; subst; exact Hq.
  - unfold try_route_next.
    match goal with |- context [try_route c ?f ?st (Some i)] => destruct (try_route c f st (Some i)) as [s2 e'] eqn:Et end.
    intros H; inversion H; subst. rewrite sp_app, Hq, (try_route_sp _ _ _ _ _ _ Et). reflexivity.
Qed.

Lemma worker_died_sp c s i s' e : worker_died c s i = (s', e) -> sp e = [].
Proof.
  unfold worker_died. destruct (find_w (f_pool s) i) as [w|]; [|intros H; inversion H; reflexivity].
  assert (Hl : sp (match w_cur w with Some j => [ELost (jid j)] | None => [] end) = [])
    by (destruct (w_cur w); reflexivity).
  destruct (w_drain w && match w_q w with [] => true | _ => false end);
    [intros H; inversion H; subst; exact Hl|].
  unfold build, try_route_next. cbn [set_builds f_pool].
  set (w0 := mkW (w_id w) None (w_q w) (w_drain w) (assoc i (f_builds s) + 1) true).
  assert (H1 : sp (snd (match w_q w0 with j :: r => dispatch_job (set_q w0 r) j | [] => (w0, []) end)) = [])
    by (destruct (w_q w0); reflexivity).
  destruct (match w_q w0 with j :: r => dispatch_job (set_q w0 r) j | [] => (w0, []) end) as [w1 e1]. cbn [snd] in H1.
  match goal with |- context [try_route c ?f ?st (Some i)] => destruct (try_route c f st (Some i)) as [s2 e'] eqn:Et end.
  intros H; inversion H; subst. rewrite !sp_app, Hl, H1, (try_route_sp _ _ _ _ _ _ Et). reflexivity.
Qed.

Lemma route_queued_sp c n : forall s s' e, route_queued c s n = (s', e) -> sp e = [].
Proof.
  induction n as [|k IH]; intros s s' e; cbn [route_queued]; [intros H; inversion H; reflexivity|].
  destruct (f_q s); [intros H; inversion H; reflexivity|].
  unfold try_route_next. destruct (try_route c _ s None) as [s1 e1] eqn:Et.
  destruct (route_queued c s1 k) as [s2 e2] eqn:Er. intros H. inversion H; subst.
  rewrite sp_app, (try_route_sp _ _ _ _ _ _ Et), (IH _ _ _ Er). reflexivity.
Qed.

Lemma route_backlog_sp c n : forall s s' e, route_backlog c s n = (s', e) -> sp e = [].
Proof.
  induction n as [|k IH]; intros s s' e; cbn [route_backlog]; [intros H; inversion H; reflexivity|].
  destruct (f_q s) eqn:Eq; [intros H; inversion H; reflexivity|].
  unfold try_route_next. destruct (try_route c _ s None) as [s1 e1] eqn:Et.
  destruct (len (j :: l) <=? len (f_q s1)).
  - intros H. inversion H; subst. eapply try_route_sp; eassumption.
  - destruct (route_backlog c s1 k) as [s2 e2] eqn:Er. intros H. inversion H; subst.
    rewrite sp_app, (try_route_sp _ _ _ _ _ _ Et), (IH _ _ _ Er). reflexivity.
Qed.

Lemma resize_sp c s n s' e : resize c s n = (s', e) -> sp e = [].
Proof.
  unfold resize. destruct (n =? 0); [intros H; inversion H; reflexivity|].
  destruct (f_size s <? N.min pool_max n);
    [destruct (factory_queueing c); [apply route_queued_sp|apply route_backlog_sp]|].
  destruct (N.min pool_max n <? f_size s); intros H; inversion H; reflexivity.
Qed.

Definition stop_evs (b : bool) : list ev := if b then [EHook HStopped; EStopped] else [].

Lemma stop_factory_sp s : sp (snd (stop_factory s)) = stop_evs true.
Proof.
  unfold stop_factory. cbn [snd]. rewrite sp_app.
  replace (sp (map (fun j => EDiscard (jid j) Shutdown) (f_q s ++ flat_map w_q (f_pool s)))) with (@nil ev); [reflexivity|].
  induction (f_q s ++ flat_map w_q (f_pool s)); cbn; auto.
Qed.

Lemma after_message_sp s : f_stopped s = false ->
  sp (snd (after_message s)) = stop_evs (f_stopped (fst (after_message s))).
Proof.
  intros Hns. unfold after_message. destruct (f_drain s).
  - cbn [fst snd]. rewrite Hns. reflexivity.
  - destruct (all_available (f_pool s) && (len (f_q s) =? 0)).
    + rewrite stop_factory_sp. reflexivity.
    + cbn [fst snd]. rewrite Hns. reflexivity.
  - rewrite stop_factory_sp. reflexivity.
Qed.

Lemma with_after_sp r : f_stopped (fst r) = false ->
  sp (snd (with_after r)) = sp (snd r) ++ stop_evs (f_stopped (fst (with_after r))).
Proof.
  destruct r as [s0 e0]. cbn [fst snd]. intros Hns. unfold with_after.
  pose proof (after_message_sp s0 Hns) as H. destruct (after_message s0) as [s1 e1]. cbn [fst snd] in *.
  rewrite sp_app, H. reflexivity.
Qed.

Lemma finish_w_sp c s i only : f_stopped s = false ->
  sp (snd (finish_w c s i only)) = stop_evs (f_stopped (fst (finish_w c s i only))).
Proof.
  intros Hns. unfold finish_w. rewrite Hns.
  destruct (find_w (f_pool s) i) as [w|]; [|cbn [fst snd]; rewrite Hns; reflexivity].
  destruct (w_cur w) as [j|]; [|cbn [fst snd]; rewrite Hns; reflexivity].
  destruct (match only with Some id => jid j =? id | None => true end); [|cbn [fst snd]; rewrite Hns; reflexivity].
  destruct (worker_finished c s i) as [s0 e0] eqn:Ew. pose proof (worker_finished_sp _ _ _ _ _ Ew) as Hq.
  destruct (worker_finished_quiet _ _ _ _ _ Ew) as [_ Hs].
  pose proof (with_after_sp (s0, e0)) as H. cbn [fst snd] in H. specialize (H ltac:(congruence)).
  destruct (with_after (s0, e0)) as [s1 e1]. cbn [fst snd] in *.
  change (sp (EEnd (jid j) :: e1)) with (sp e1). rewrite H, Hq. reflexivity.
Qed.

Lemma finish_list_stopped c l : forall s, f_stopped s = true -> finish_list c s l = (s, []).
Proof.
  induction l as [|[i id] r IH]; intros s Hs; cbn [finish_list]; [reflexivity|].
  unfold finish_w. rewrite Hs. rewrite (IH s Hs). reflexivity.
Qed.

Lemma finish_list_sp c l : forall s, f_stopped s = false ->
  sp (snd (finish_list c s l)) = stop_evs (f_stopped (fst (finish_list c s l))).
Proof.
  induction l as [|[i id] r IH]; intros s Hns; cbn [finish_list]; [cbn [fst snd]; rewrite Hns; reflexivity|].
  pose proof (finish_w_sp c s i (Some id) Hns) as H1.
  destruct (finish_w c s i (Some id)) as [s1 e1] eqn:E1. cbn [fst snd] in H1.
  destruct (f_stopped s1) eqn:Hs1.
  - rewrite (finish_list_stopped c r s1 Hs1). cbn [fst snd]. rewrite app_nil_r, Hs1. exact H1.
  - specialize (IH s1 Hs1). destruct (finish_list c s1 r) as [s2 e2]. cbn [fst snd] in *.
    rewrite sp_app, H1. exact IH.
Qed.

(* the special events of one label from a living factory *)
Definition step_answer (o : fop) (l : list ev) : Prop :=
  match o with
  | FDispatch j => answer_of (jid j) l
  | FDrain => l = [EHook HDraining]
  | _ => l = []
  end.

Lemma tick_calc_sp c s s' e : tick_calc c s = (s', e) -> sp e = [].
Proof.
  unfold tick_calc. destruct (fst (f_scripts s)) as [|n rest]; [intros H; inversion H; reflexivity|].
  destruct (n =? f_size (set_scripts s (rest, snd (f_scripts s)))); [intros H; inversion H; reflexivity|].
  apply resize_sp.
Qed.

Lemma step_sp0 c s o :
  (f_stopped s = true ->
     sp (snd (step0 c s o)) = match o with FDispatch j => [EDropped (jid j)] | _ => [] end
     /\ f_stopped (fst (step0 c s o)) = true)
  /\ (f_stopped s = false ->
      exists l, step_answer o l /\ sp (snd (step0 c s o)) = l ++ stop_evs (f_stopped (fst (step0 c s o)))).
Proof.
  split; intros Hst.
  - destruct o; cbn [step0]; unfold finish_w; try rewrite Hst; try (split; [reflexivity|exact Hst]).
    rewrite (finish_list_stopped c _ s Hst). split; [reflexivity|exact Hst].
  - destruct o as [j|i| |i|i|n| |dt| | |i|i|d| |]; cbn [step0 step_answer]; try rewrite Hst.
    11:{ exists []. split; [reflexivity|].
         destruct (find_w (f_pool s) i) as [w|]; [|cbn [fst snd]; rewrite Hst; reflexivity].
         destruct (w_alive w && match w_cur w with None => true | Some _ => false end);
           cbn [fst snd set_pool f_stopped]; rewrite Hst; reflexivity. }
    11:{ exists []. split; [reflexivity|].
         destruct (find_w (f_pool s) i) as [w|]; [|cbn [fst snd]; rewrite Hst; reflexivity].
         destruct (w_alive w); [cbn [fst snd]; rewrite Hst; reflexivity|].
         destruct (worker_died c s i) as [s' e] eqn:E. destruct (worker_died_quiet _ _ _ _ _ E) as [_ Hs].
         cbn [fst snd]. rewrite (worker_died_sp _ _ _ _ _ E), Hs, Hst. reflexivity. }
    11:{ exists []. split; [reflexivity|].
         pose proof (with_after_sp (set_discard (set_scripts s (fst (f_scripts s), [])) d, [])) as H. cbn [fst snd] in H. rewrite H by exact Hst. reflexivity. }
    11:{ exists []. split; [reflexivity|].
         pose proof (with_after_sp (s, [])) as H. cbn [fst snd] in H. rewrite H by exact Hst. reflexivity. }
    11:{ exists []. split; [reflexivity|]. cbn [app].
         destruct (tick_calc c (set_now s (f_now s + tick_ns))) as [sa ea] eqn:Ec.
         pose proof (tick_calc_sp _ _ _ _ Ec) as Hq. destruct (tick_calc_quiet _ _ _ _ Ec) as [_ Hs].
         cbn [set_now f_stopped] in Hs.
         pose proof (with_after_sp (sa, ea)) as H1. cbn [fst snd] in H1. specialize (H1 ltac:(congruence)). rewrite Hq in H1.
         destruct (with_after (sa, ea)) as [s1 e1]. cbn [fst snd app] in H1.
         destruct (f_stopped s1) eqn:Hs1; [cbn [fst snd]; rewrite Hs1; exact H1|].
         destruct (tick_ping_mode s1) as (_ & P2 & P3). destruct (tick_ping s1) as [sp0 ep0]. cbn [fst snd] in *. subst ep0.
         pose proof (with_after_sp (sp0, [])) as H2. cbn [fst snd app] in H2. specialize (H2 ltac:(congruence)).
         destruct (with_after (sp0, [])) as [s2 e2]. cbn [fst snd] in *. rewrite sp_app, H1, H2. reflexivity. }
    + destruct (dispatch c s j) as [s0 e0] eqn:Ed. pose proof (dispatch_sp _ _ _ _ _ Ed) as Hq.
      destruct (dispatch_frame _ _ _ _ _ Ed) as (_ & _ & F3 & _).
      exists (sp e0). split; [exact Hq|]. apply (with_after_sp (s0, e0)). cbn [fst]. congruence.
    + exists []. split; [reflexivity|]. apply finish_w_sp. exact Hst.
    + exists []. split; [reflexivity|]. apply finish_list_sp. exact Hst.
    + exists []. split; [reflexivity|].
      destruct (find_w (f_pool s) i) as [w|]; [|cbn [fst snd]; rewrite Hst; reflexivity].
      destruct (w_cur w); [|cbn [fst snd]; rewrite Hst; reflexivity].
      destruct (worker_died c s i) as [s' e] eqn:E. destruct (worker_died_quiet _ _ _ _ _ E) as [_ Hs].
      cbn [fst snd]. rewrite (worker_died_sp _ _ _ _ _ E), Hs, Hst. reflexivity.
    + exists []. split; [reflexivity|].
      destruct (worker_died c s i) as [s' e] eqn:E. destruct (worker_died_quiet _ _ _ _ _ E) as [_ Hs].
      cbn [fst snd]. rewrite (worker_died_sp _ _ _ _ _ E), Hs, Hst. reflexivity.
    + exists []. split; [reflexivity|].
      destruct (resize c s n) as [s0 e0] eqn:Ed. destruct (resize_quiet _ _ _ _ _ Ed) as [_ Hs].
      pose proof (with_after_sp (s0, e0)) as H. cbn [fst snd] in H. rewrite H by congruence.
      rewrite (resize_sp _ _ _ _ _ Ed). reflexivity.
    + exists [EHook HDraining]. split; [reflexivity|].
      pose proof (with_after_sp (set_dstate s Draining, [EHook HDraining])) as H. cbn [fst snd] in H.
      rewrite H by exact Hst. reflexivity.
    + exists []. split; [reflexivity|]. cbn [fst snd set_now f_stopped]. rewrite Hst. reflexivity.
    + exists []. split; [reflexivity|]. cbn [fst snd set_now f_stopped]. rewrite Hst. reflexivity.
    + exists []. split; [reflexivity|].
      pose proof (after_message_sp s Hst) as H. destruct (after_message s) as [s1 e1]. cbn [fst snd] in H.
      destruct (f_stopped s1) eqn:Hs1; cbn [fst snd]; rewrite Hs1.
      * rewrite sp_app, H. reflexivity.
      * reflexivity.
Qed.
Lemma step_sp c s o :
  (f_stopped s = true ->
     sp (snd (step c s o)) = match o with FDispatch j => [EDropped (jid j)] | _ => [] end
     /\ f_stopped (fst (step c s o)) = true)
  /\ (f_stopped s = false ->
      exists l, step_answer o l /\ sp (snd (step c s o)) = l ++ stop_evs (f_stopped (fst (step c s o)))).
Proof. unfold step. apply step_sp0. Qed.


(* ------------------------------------------------------------------ *)
(* the oracle accepts the model's own runs: clauses hooks_order and drain_refuses *)

Lemma windows_from_flat c ops : forall s co ce,
  evs_of (windows_from c s co ce ops) = ce ++ concat (run_from c s ops)
  /\ ops_of (windows_from c s co ce ops) = co ++ ops.
Proof.
  unfold evs_of, ops_of. induction ops as [|o r IH]; intros s co ce; cbn [windows_from run_from concat].
  { destruct co, ce; cbn; rewrite ?app_nil_r; split; reflexivity. }
  destruct (step c s o) as [s' e] eqn:Es.
  destruct o; cbn [map concat fst snd];
    try (match goal with |- context [windows_from c s' (co ++ [?x]) (ce ++ e) r] =>
           destruct (IH s' (co ++ [x]) (ce ++ e)) as [A B]; rewrite A, B, <- !app_assoc; split; reflexivity end).
  destruct (IH s' [] []) as [A B]. rewrite A, B. cbn [app]. rewrite <- !app_assoc. split; reflexivity.
Qed.

Lemma model_windows_flat c ops :
  evs_of (model_windows c ops) = concat (factory_run c ops) /\ ops_of (model_windows c ops) = ops.
Proof.
  unfold model_windows, factory_run. destruct (init c 0) as [s e].
  destruct (windows_from_flat c ops s [] e) as [A B]. rewrite A, B. split; reflexivity.
Qed.

Lemma existsb_sp (f : ev -> bool) e : (forall x, f x = true -> special x = true) ->
  existsb f e = existsb f (sp e).
Proof.
  intros Hf. unfold sp. induction e as [|x r IH]; cbn [existsb filter]; [reflexivity|].
  destruct (special x) eqn:Es; cbn [existsb]; rewrite IH; [reflexivity|].
  destruct (f x) eqn:Ef; [rewrite (Hf x Ef) in Es; discriminate|reflexivity].
Qed.

Lemma stopped_special x : is_stopped x = true -> special x = true.
Proof. destruct x; cbn; congruence. Qed.
Lemma accept_special id x : is_accept id x = true -> special x = true.
Proof. destruct x; cbn; congruence. Qed.

Lemma step_answer_no_stop o l : step_answer o l -> existsb is_stopped l = false.
Proof. destruct o; cbn [step_answer]; try (intros ->; reflexivity). intros [->| ->]; reflexivity. Qed.

(* EStopped is only ever seen when the factory has stopped *)
Lemma run_stopped_event c ops : forall s,
  existsb is_stopped (concat (run_from c s ops)) = true -> f_stopped (state_after c s ops) = true.
Proof.
  induction ops as [|o r IH]; intros s; cbn [run_from concat state_after existsb]; [discriminate|].
  destruct (step_sp c s o) as [S1 S2]. destruct (step_hooks c s o) as [T1 _].
  destruct (step c s o) as [s1 e1] eqn:Es. cbn [fst snd concat] in *. rewrite existsb_app.
  intros H. apply orb_true_iff in H. destruct H as [H|H]; [|apply IH; exact H].
  rewrite (existsb_sp is_stopped e1 stopped_special) in H.
  assert (Hs1 : f_stopped s1 = true).
  { destruct (f_stopped s) eqn:Hst.
    - destruct (S1 eq_refl) as [A B]. exact B.
    - destruct (S2 eq_refl) as (l & Hl & E). rewrite E, existsb_app, (step_answer_no_stop _ _ Hl) in H.
      destruct (f_stopped s1); [reflexivity|discriminate]. }
  clear -Hs1. revert s1 Hs1. induction r as [|o' r' IH']; intros s1 Hs1; cbn [state_after]; [exact Hs1|].
  apply IH'. destruct (step_hooks c s1 o') as [T _]. apply T. exact Hs1.
Qed.

Lemma count_hook_app h a b : count_hook h (a ++ b) = (count_hook h a + count_hook h b)%nat.
Proof. unfold count_hook. rewrite filter_app, app_length. reflexivity. Qed.

Lemma count_hook_repeat h k : count_hook h (repeat HDraining k) = if hook_eqb h HDraining then k else 0%nat.
Proof.
  unfold count_hook. induction k as [|k IH]; cbn [repeat filter]; [destruct (hook_eqb h HDraining); reflexivity|].
  destruct (hook_eqb h HDraining) eqn:E; cbn [length]; rewrite IH; reflexivity.
Qed.

Lemma rev_repeat {A} (x : A) k : rev (repeat x k) = repeat x k.
Proof.
  induction k as [|k IH]; [reflexivity|]. cbn [repeat rev]. rewrite IH.
  clear IH. induction k as [|k IH]; [reflexivity|]. cbn [repeat app]. rewrite IH. reflexivity.
Qed.

Theorem oracle_hooks_sound c ops : ops <> [] -> ck_hooks (model_windows c ops) = true.
Proof.
  intros Hne. unfold ck_hooks. destruct (model_windows_flat c ops) as [Ee Eo]. rewrite Ee, Eo.
  destruct (hooks_order c ops) as (Hh & Hk & Hs). cbn zeta in *.
  set (k := drains_alive c (fst (init c 0)) ops) in *.
  set (b := f_stopped (state_after c (fst (init c 0)) ops)) in *.
  rewrite Hh.
  assert (Hfirst : exists rest, concat (factory_run c ops) = EHook HStarted :: rest).
  { unfold factory_run. destruct (init_calm c 0) as [_ He]. destruct (init c 0) as [s0 e0]. cbn [snd] in He. subst e0.
    cbn [concat app]. eauto. }
  destruct Hfirst as [rest Hf]. rewrite Hf.
  assert (Hst : existsb is_stopped (EHook HStarted :: rest) = true -> b = true).
  { rewrite <- Hf. unfold factory_run. destruct (init_calm c 0) as [_ He]. unfold b.
    destruct (init c 0) as [s0 e0]. cbn [fst snd] in *. subst e0. cbn [concat app existsb is_stopped orb].
    apply run_stopped_event. }
  change (HStarted :: repeat HDraining k ++ stopped_hook b) with ([HStarted] ++ repeat HDraining k ++ stopped_hook b).
  rewrite !count_hook_app, !count_hook_repeat. cbn [hook_eqb].
  repeat (apply andb_true_iff; split).
  - reflexivity.
  - destruct b; reflexivity.
  - destruct b; reflexivity.
  - apply Nat.leb_le. unfold count_drains in Hk. destruct b; cbn [stopped_hook count_hook filter hook_eqb length]; lia.
  - rewrite !rev_app_distr, rev_repeat. destruct b; cbn [stopped_hook rev app]; [reflexivity|].
    destruct k; reflexivity.
  - destruct (existsb is_stopped (EHook HStarted :: rest)) eqn:E; [|reflexivity].
    rewrite (Hst eq_refl) in *. specialize (Hs eq_refl). cbn [stopped_hook count_hook filter hook_eqb length].
    apply andb_true_iff. split; [reflexivity|]. apply Nat.leb_le. lia.
Qed.

(* accept events name jobs dispatched in the run *)
Lemma step_answer_accept o l id : step_answer o l -> existsb (is_accept id) l = true ->
  exists j, o = FDispatch j /\ jid j = id.
Proof.
  destruct o; cbn [step_answer]; try (intros ->; discriminate).
  intros [->| ->]; cbn [existsb is_accept orb]; [|discriminate].
  rewrite orb_false_r. intros E. apply N.eqb_eq in E. eauto.
Qed.

Lemma stop_evs_no_accept id b : existsb (is_accept id) (stop_evs b) = false.
Proof. destruct b; reflexivity. Qed.

Lemma step_accept c s o id : existsb (is_accept id) (snd (step c s o)) = true ->
  f_stopped s = false /\ exists j, o = FDispatch j /\ jid j = id.
Proof.
  rewrite (existsb_sp (is_accept id) _ (accept_special id)).
  destruct (step_sp c s o) as [S1 S2]. destruct (f_stopped s) eqn:Hst.
  - destruct (S1 eq_refl) as [A _]. rewrite A. destruct o; cbn; discriminate.
  - destruct (S2 eq_refl) as (l & Hl & E). rewrite E, existsb_app, stop_evs_no_accept, orb_false_r.
    intros H. split; [reflexivity|]. eapply step_answer_accept; eassumption.
Qed.

Lemma run_accept_ids c ops : forall s id,
  existsb (is_accept id) (concat (run_from c s ops)) = true -> In id (map jid (jobs_of ops)).
Proof.
  induction ops as [|o r IH]; intros s id; cbn [run_from concat existsb]; [discriminate|].
  pose proof (step_accept c s o id) as Ha. destruct (step c s o) as [s1 e1]. cbn [fst snd concat] in *.
  rewrite existsb_app. intros H. apply orb_true_iff in H. destruct H as [H|H].
  - destruct (Ha H) as (_ & j & -> & <-). cbn [jobs_of flat_map app map]. left. reflexivity.
  - specialize (IH s1 id H). unfold jobs_of in *. cbn [flat_map]. rewrite map_app. apply in_or_app. right. exact IH.
Qed.

Lemma after_drain_ids_sub ops : forall seen id, In id (after_drain_ids ops seen) -> In id (map jid (jobs_of ops)).
Proof.
  induction ops as [|o r IH]; intros seen id; cbn [after_drain_ids]; [contradiction|].
  unfold jobs_of in *. cbn [flat_map]. rewrite map_app.
  destruct o; cbn [map app]; try (intros H; apply (IH _ _ H)).
  destruct seen; [intros [->|H]; [left; reflexivity|right; apply (IH _ _ H)]|intros H; right; apply (IH _ _ H)].
Qed.

Lemma drain_closing0 c s : closing (fst (step0 c s FDrain)).
Proof.
  cbn [step0]. destruct (f_stopped s) eqn:Hst; [right; exact Hst|].
  destruct (with_after (set_dstate s Draining, [EHook HDraining])) as [s' e] eqn:E. cbn [fst].
  eapply with_after_closing; [exact E|]. left. cbn. discriminate.
Qed.
Lemma drain_closing c s : closing (fst (step c s FDrain)).
Proof. unfold step. apply drain_closing0. Qed.


Lemma NoDup_app_r {A} (a b : list A) : NoDup (a ++ b) -> NoDup b.
Proof. induction a as [|x a IH]; cbn [app]; [exact (fun h => h)|]. intros H. inversion H; subst. auto. Qed.

Lemma run_drain_refuses c ops : forall s seen,
  NoDup (map jid (jobs_of ops)) -> (seen = true -> closing s) ->
  forall id, In id (after_drain_ids ops seen) ->
  existsb (is_accept id) (concat (run_from c s ops)) = false.
Proof.
  induction ops as [|o r IH]; intros s seen Hnd Hcl id Hin; cbn [run_from concat]; [reflexivity|].
  pose proof (step_accept c s o id) as Ha. pose proof (step_closing c s o) as Hsc.
  destruct (step c s o) as [s1 e1] eqn:Es. cbn [fst snd concat] in *. rewrite existsb_app.
  assert (Hnd' : NoDup (map jid (jobs_of r))).
  { unfold jobs_of in *. cbn [flat_map] in Hnd. rewrite map_app in Hnd. apply NoDup_app_r in Hnd. exact Hnd. }
  destruct o as [j|i| |i|i|n| |dt| | |i|i|d| |]; cbn [after_drain_ids] in Hin;
    try (apply orb_false_iff; split;
         [destruct (existsb (is_accept id) e1) eqn:E; [destruct (Ha eq_refl) as (_ & j' & Hj & _); discriminate|reflexivity]
         |apply (IH s1 seen Hnd' (fun h => Hsc (Hcl h)) id Hin)]).
  - (* dispatch *)
    apply orb_false_iff. destruct seen.
    + pose proof (Hcl eq_refl) as Hc. split.
      * pose proof (drain_refuses_step c s j Hc) as (Hno & _). rewrite Es in Hno. cbn [snd] in Hno.
        destruct (existsb (is_accept id) e1) eqn:E; [|reflexivity].
        exfalso. clear -Hno E. induction e1 as [|x t IHt]; [discriminate|]. cbn [existsb] in *.
        apply orb_false_iff in Hno. destruct Hno as [H1 H2]. apply orb_true_iff in E. destruct E as [E|E]; [|auto].
        destruct x; cbn in *; congruence.
      * destruct Hin as [<-|Hin].
        -- destruct (existsb (is_accept (jid j)) (concat (run_from c s1 r))) eqn:E; [|reflexivity].
           exfalso. apply run_accept_ids in E. unfold jobs_of in Hnd. cbn [flat_map app map] in Hnd.
           inversion Hnd; subst. contradiction.
        -- apply (IH s1 true Hnd' (fun _ => Hsc Hc) id Hin).
    + split.
      * destruct (existsb (is_accept id) e1) eqn:E; [|reflexivity].
        destruct (Ha eq_refl) as (_ & j' & Hj & Hid). inversion Hj; subst j'.
        exfalso. apply after_drain_ids_sub in Hin. unfold jobs_of in Hnd. cbn [flat_map app map] in Hnd.
        inversion Hnd as [|? ? Hni _]; subst. apply Hni. exact Hin.
      * apply (IH s1 false Hnd' (fun h => ltac:(discriminate)) id Hin).
  - (* drain *)
    apply orb_false_iff. split.
    + destruct (existsb (is_accept id) e1) eqn:E; [destruct (Ha eq_refl) as (_ & j' & Hj & _); discriminate|reflexivity].
    + apply (IH s1 true Hnd'); [|exact Hin]. intros _. pose proof (drain_closing c s) as H. rewrite Es in H. exact H.
Qed.

Theorem oracle_drain_refuses_sound c ops :
  NoDup (map jid (jobs_of ops)) -> ck_drain_refuses (model_windows c ops) = true.
Proof.
  intros Hnd. unfold ck_drain_refuses. destruct (model_windows_flat c ops) as [Ee Eo]. rewrite Ee, Eo.
  apply forallb_forall. intros id Hin. apply negb_true_iff.
  unfold factory_run. destruct (init_calm c 0) as [_ He]. destruct (init c 0) as [s0 e0]. cbn [snd] in He. subst e0.
  cbn [concat app existsb is_accept orb].
  apply (run_drain_refuses c ops s0 false Hnd ltac:(discriminate) id Hin).
Qed.

(* Oldest mode catches up at once: whatever a worker's queue held before (e.g. under a larger
   limit that an UpdateSettings has just lowered), after the next enqueue it holds at most L *)
Lemma enqueue_oldest_catches_up c w j L :
  wsettings c = Some (L, Oldest) -> len (w_q (fst (enqueue_job c w j))) <= L.
Proof.
  intros Hs. rewrite enqueue_job_unfold, Hs. destruct (enq_core w j) as [w1 e1]. cbn [fst set_q w_q].
  unfold len. rewrite skipn_length. lia.
Qed.
