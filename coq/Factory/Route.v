(* C14 -- routing promises of the factory model (proofs). *)
From Coq Require Import List NArith Bool Lia Arith.
From RV Require Import Factory.Model.
Import ListNotations.
Local Open Scope N_scope.

(* ------------------------------------------------------------------ custom hashing *)
(* whatever the user's hash function returns, the chosen worker is inside the current pool *)
Lemma custom_in_pool : forall c k hint w wid w',
  c_router c = RCustom ->
  choose_target c k hint w = (Some wid, w') ->
  wid < pool_size w /\ in_pool w wid = true /\ w' = w.
Proof.
  intros c k hint w wid w' R H. unfold choose_target in H. rewrite R in H.
  destruct (pool_size w =? 0) eqn:Z; [discriminate|].
  apply N.eqb_neq in Z.
  destruct (in_pool w (custom_target c k (pool_size w))) eqn:I; inversion H; subst.
  repeat split; try assumption. unfold custom_target. apply N.mod_lt. assumption.
Qed.

Lemma custom_empty_pool : forall c k hint w,
  c_router c = RCustom -> pool_size w = 0 -> choose_target c k hint w = (None, w).
Proof.
  intros c k hint w R Z. unfold choose_target. rewrite R, Z. reflexivity.
Qed.

(* the same for the default hash of key-persistent routing, given only h k n < n *)
Lemma key_persistent_hash_in_pool : forall c k w wid w',
  c_router c = RKeyPersistent ->
  (forall k n, 0 < n -> c_hash c k n < n) ->
  find_worker (fun p => has_pending p k) (pool w) = None ->
  choose_target c k None w = (Some wid, w') ->
  wid < pool_size w.
Proof.
  intros c k w wid w' R Hh F H. unfold choose_target in H. rewrite R, F in H.
  destruct (pool_size w =? 0) eqn:Z; [discriminate|]. apply N.eqb_neq in Z.
  destruct (in_pool w (c_hash c k (pool_size w))); inversion H; subst.
  apply Hh. lia.
Qed.

(* ------------------------------------------------------------------ round robin *)
Definition rr_next (n last : N) : N := if n <=? last + 1 then 0 else last + 1.

(* k successive picks, no hint, starting from cursor `last` *)
Fixpoint rr_picks (n last : N) (k : nat) : list N :=
  match k with
  | O => []
  | S k' => rr_next n last :: rr_picks n (rr_next n last) k'
  end.

Lemma rr_choose : forall c k hint w,
  c_router c = RRoundRobin -> pool_size w <> 0 ->
  (match hint with Some h => worker_available w h | None => false end) = false ->
  let key := rr_next (pool_size w) (rr_last w) in
  choose_target c k hint w = (if in_pool w key then Some key else None, set_rr_last key w).
Proof.
  intros c k hint w R Z Hh. unfold choose_target. rewrite R.
  apply N.eqb_neq in Z. rewrite Z. rewrite Hh. reflexivity.
Qed.

(* closed form of the picks once the cursor is inside the pool *)
Definition wrap (n x : N) : N := if x <? n then x else x - n.

Lemma wrap_small n x : x < n -> wrap n x = x.
Proof. intros H. unfold wrap. apply N.ltb_lt in H. rewrite H. reflexivity. Qed.
Lemma wrap_big n x : n <= x -> wrap n x = x - n.
Proof. intros H. unfold wrap. apply N.ltb_ge in H. rewrite H. reflexivity. Qed.

Lemma rr_next_wrap n last : last < n -> rr_next n last = wrap n (last + 1).
Proof.
  intros H. unfold rr_next, wrap.
  destruct (n <=? last + 1) eqn:A; destruct (last + 1 <? n) eqn:B;
    rewrite ?N.leb_le, ?N.leb_gt, ?N.ltb_lt, ?N.ltb_ge in *; lia.
Qed.

Lemma rr_next_lt n last : 0 < n -> rr_next n last < n.
Proof.
  intros H. unfold rr_next. destruct (n <=? last + 1) eqn:A;
    rewrite ?N.leb_le, ?N.leb_gt in *; lia.
Qed.

Lemma rr_picks_closed n s k : s < n -> (k <= N.to_nat n)%nat ->
  rr_picks n s k = map (fun i => wrap n (s + 1 + N.of_nat i)) (seq 0 k).
Proof.
  revert s. induction k as [|k IH]; intros s Hs Hk; [reflexivity|].
  cbn [rr_picks]. rewrite rr_next_wrap by assumption.
  rewrite IH.
  - cbn [seq map]. f_equal.
    + f_equal. lia.
    + rewrite <- seq_shift, map_map. apply map_ext_in. intros i Hi. apply in_seq in Hi.
      destruct (N.lt_ge_cases (s + 1) n) as [A|A].
      * rewrite (wrap_small n (s + 1)) by assumption. f_equal. lia.
      * rewrite (wrap_big n (s + 1)) by assumption.
        assert (s + 1 = n) by lia.
        replace (s + 1 - n + 1 + N.of_nat i) with (1 + N.of_nat i) by lia.
        replace (s + 1 + N.of_nat (S i)) with (n + (1 + N.of_nat i)) by lia.
        assert (1 + N.of_nat i < n) by lia.
        rewrite wrap_small by assumption. rewrite wrap_big by lia. lia.
  - unfold wrap. destruct (s + 1 <? n) eqn:A; rewrite ?N.ltb_lt, ?N.ltb_ge in A; lia.
  - lia.
Qed.

Lemma wrap_inj n s i j : s < n -> N.of_nat i < n -> N.of_nat j < n ->
  wrap n (s + 1 + N.of_nat i) = wrap n (s + 1 + N.of_nat j) -> i = j.
Proof.
  unfold wrap. intros Hs Hi Hj.
  destruct (s + 1 + N.of_nat i <? n) eqn:A; destruct (s + 1 + N.of_nat j <? n) eqn:B;
    rewrite ?N.ltb_lt, ?N.ltb_ge in *; intros E; lia.
Qed.

Lemma NoDup_map_inj_in {A B} (f : A -> B) l :
  (forall x y, In x l -> In y l -> f x = f y -> x = y) -> NoDup l -> NoDup (map f l).
Proof.
  induction l as [|a l IH]; intros Hf ND; simpl; [constructor|].
  inversion ND; subst. constructor.
  - intros I. apply in_map_iff in I. destruct I as (y & E & Iy).
    assert (y = a) by (apply Hf; simpl; auto). subst. contradiction.
  - apply IH; [|assumption]. intros x y Ix Iy. apply Hf; simpl; auto.
Qed.

(* n consecutive picks on a pool of n visit n distinct slots, all inside the pool *)
Theorem round_robin_spread : forall n last,
  0 < n ->
  let picks := rr_picks n last (N.to_nat n) in
  NoDup picks /\ length picks = N.to_nat n /\ Forall (fun x => x < n) picks.
Proof.
  intros n last Hn picks.
  assert (L : forall k s, length (rr_picks n s k) = k) by (induction k; simpl; auto).
  assert (F : forall k s, Forall (fun x => x < n) (rr_picks n s k)).
  { induction k; simpl; intros; constructor; auto. apply rr_next_lt; assumption. }
  split; [|split; [apply L|apply F]].
  unfold picks. destruct (N.to_nat n) as [|k] eqn:E; [constructor|].
  cbn [rr_picks]. set (s := rr_next n last). assert (Hs : s < n) by (apply rr_next_lt; assumption).
  (* the first pick s, then k more picks from s: all are wrap n (s + i), i = 0..k *)
  assert (C : s :: rr_picks n s k = map (fun i => wrap n (s + N.of_nat i)) (seq 0 (S k))).
  { cbn [seq map]. f_equal.
    - unfold wrap. replace (s + N.of_nat 0) with s by lia.
      destruct (s <? n) eqn:A; rewrite ?N.ltb_lt, ?N.ltb_ge in A; lia.
    - rewrite rr_picks_closed by (try assumption; lia).
      rewrite <- seq_shift, map_map. apply map_ext. intros i. f_equal. lia. }
  rewrite C. apply NoDup_map_inj_in; [|apply seq_NoDup].
  intros x y Ix Iy Exy. apply in_seq in Ix. apply in_seq in Iy.
  unfold wrap in Exy.
  destruct (s + N.of_nat x <? n) eqn:A; destruct (s + N.of_nat y <? n) eqn:B;
    rewrite ?N.ltb_lt, ?N.ltb_ge in *; lia.
Qed.

(* ------------------------------------------------------------------ queuer: the deque *)
(* the idle-worker deque with lazy deletion never hands out a busy or removed worker, and
   gives up only when it holds no available worker *)
Lemma pop_avail_sound : forall av inq pl wid av' inq',
  pop_avail av inq pl = (Some wid, av', inq') ->
  exists p, lookup wid pl = Some p /\ is_available p = true /\ In wid av.
Proof.
  induction av as [|x av IH]; intros inq pl wid av' inq' H; simpl in H; [discriminate|].
  destruct (lookup x pl) as [p|] eqn:L.
  - destruct (is_available p) eqn:A.
    + inversion H; subst. exists p. simpl. auto.
    + apply IH in H. destruct H as (p' & ? & ? & ?). exists p'. simpl. auto.
  - apply IH in H. destruct H as (p' & ? & ? & ?). exists p'. simpl. auto.
Qed.

Lemma pop_avail_complete : forall av inq pl av' inq',
  pop_avail av inq pl = (None, av', inq') ->
  forall wid p, In wid av -> lookup wid pl = Some p -> is_available p = false.
Proof.
  induction av as [|x av IH]; intros inq pl av' inq' H wid p I L; simpl in *; [contradiction|].
  destruct (lookup x pl) as [px|] eqn:Lx.
  - destruct (is_available px) eqn:A; [discriminate|].
    destruct I as [->|I].
    + rewrite L in Lx. inversion Lx; subst. assumption.
    + eapply IH; eassumption.
  - destruct I as [->|I]; [congruence|]. eapply IH; eassumption.
Qed.

(* a worker chosen by queuer routing is idle: it runs one job at a time *)
Theorem queuer_target_idle : forall c k hint w wid w',
  c_router c = RQueuer ->
  choose_target c k hint w = (Some wid, w') ->
  worker_available w wid = true.
Proof.
  intros c k hint w wid w' R H. unfold choose_target in H. rewrite R in H.
  assert (D : forall r w1, from_deque w = (r, w1) -> r = Some wid -> worker_available w wid = true).
  { unfold from_deque. intros r w1 E ->.
    destruct (pop_avail (avail w) (inq w) (pool w)) as [[r0 av] iq] eqn:P. inversion E; subst.
    apply pop_avail_sound in P. destruct P as (p & L & A & _).
    unfold worker_available. rewrite L. assumption. }
  destruct hint as [h|].
  - destruct (worker_available w h) eqn:A.
    + inversion H; subst. assumption.
    + eapply D; [exact H|reflexivity].
  - eapply D; [exact H|reflexivity].
Qed.

(* when queuer routing finds no worker, no worker listed in the deque is idle *)
Theorem queuer_none_no_idle_listed : forall c k w w',
  c_router c = RQueuer ->
  choose_target c k None w = (None, w') ->
  forall wid, In wid (avail w) -> worker_available w wid = false.
Proof.
  intros c k w w' R H wid I. unfold choose_target in H. rewrite R in H.
  unfold from_deque in H.
  destruct (pop_avail (avail w) (inq w) (pool w)) as [[r0 av] iq] eqn:P. inversion H; subst.
  unfold worker_available. destruct (lookup wid (pool w)) as [p|] eqn:L; [|reflexivity].
  eapply pop_avail_complete; eassumption.
Qed.
