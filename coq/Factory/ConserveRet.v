(* C13 -- a job is returned to its submitter only together with a discard-handler call:
   every ERet j in the log is accompanied by an EDisc j r, for every label sequence. *)
From Coq Require Import List NArith Bool Lia.
From RV Require Import Factory.Model Factory.Conserve.
Import ListNotations.
Local Open Scope N_scope.

(* a batch of new events: a return comes with its discard, and no handler completion is among them *)
Definition closed (new : list event) : Prop :=
  (forall j, In (ERet j) new -> exists r, In (EDisc j r) new)
  /\ (forall i a b, ~ In (EEnd i a b) new).
Definition ev_quiet (e : event) : bool := match e with ERet _ | EEnd _ _ _ => false | _ => true end.
Definition ext (out out' : list event) : Prop := exists new, out' = new ++ out /\ closed new.

Lemma ext_refl out : ext out out.
Proof. exists []. split; [reflexivity|]. split; [intros j []|intros i a b []]. Qed.

Lemma ext_trans a b c : ext a b -> ext b c -> ext a c.
Proof.
  intros (n1 & -> & C1 & E1) (n2 & -> & C2 & E2). exists (n2 ++ n1). split; [apply app_assoc|]. split.
  - intros j I. apply in_app_iff in I. destruct I as [I|I].
    + destruct (C2 j I) as (r & Ir). exists r. apply in_or_app. auto.
    + destruct (C1 j I) as (r & Ir). exists r. apply in_or_app. auto.
  - intros i x y I. apply in_app_iff in I. destruct I as [I|I]; [eapply E2|eapply E1]; eassumption.
Qed.

Lemma ext_one e out : ev_quiet e = true -> ext out (e :: out).
Proof.
  intros H. exists [e]. split; [reflexivity|]. split.
  - intros j [E|[]]. subst e. discriminate.
  - intros i a b [E|[]]. subst e. discriminate.
Qed.

Lemma ext_eq out out' : out' = out -> ext out out'.
Proof. intros ->. apply ext_refl. Qed.

Lemma ext_accept x out : ext out (accept_ev x out).
Proof. unfold accept_ev. destruct (j_port x); [apply ext_one; reflexivity|apply ext_refl]. Qed.

Lemma ext_reject_disc x r out : ext out (reject_ev x (EDisc (j_id x) r :: out)).
Proof.
  unfold reject_ev. destruct (j_port x).
  - exists [ERet (j_id x); EDisc (j_id x) r]. split; [reflexivity|]. split.
    + intros j [E|[E|[]]]; [inversion E; subst; exists r; simpl; auto|discriminate].
    + intros i a b [E|[E|[]]]; discriminate.
  - apply ext_one. reflexivity.
Qed.

Definition EX (w w' : world) : Prop := ext (evs w) (evs w').
Lemma EX_refl w : EX w w. Proof. apply ext_refl. Qed.
Lemma EX_trans a b c : EX a b -> EX b c -> EX a c. Proof. apply ext_trans. Qed.
Ltac exr := first [apply ext_refl | unfold EX; simpl; apply ext_refl].
Lemma same_places_EX w w' : same_places w w' -> EX w w'.
Proof. intros (_ & _ & _ & _ & E). apply ext_eq. exact E. Qed.

(* ------------------------------------------------------------------ worker level *)
Lemma next_non_expired_ext t q out r q' out' : next_non_expired t q out = (r, q', out') -> ext out out'.
Proof.
  revert out r q' out'. induction q as [|x q IH]; intros out r q' out' H; simpl in H.
  - inversion H; subst. apply ext_refl.
  - destruct (expired t x).
    + eapply ext_trans; [|eapply IH; eassumption]. apply ext_one. reflexivity.
    + inversion H; subst. apply ext_refl.
Qed.

Definition wout (x : wctx) : list event := snd x.

Lemma dispatch_job_ext x j : wout (dispatch_job x j) = wout x.
Proof. destruct x as [[p acts] out]. unfold dispatch_job. destruct (cast_job acts (w_aid p) j); reflexivity. Qed.

Lemma dispatch_next_ext t x : ext (wout x) (wout (dispatch_next t x)).
Proof.
  destruct x as [[p acts] out]. unfold dispatch_next.
  destruct (next_non_expired t (w_queue p) out) as [[[y|] q'] out'] eqn:E; apply next_non_expired_ext in E.
  - rewrite dispatch_job_ext. exact E.
  - exact E.
Qed.

Lemma shed_oldest_ext fuel t limit q out q' out' : shed_oldest fuel t limit q out = (q', out') -> ext out out'.
Proof.
  revert q out q' out'. induction fuel as [|f IH]; intros q out q' out' H; simpl in H.
  - inversion H; subst. apply ext_refl.
  - destruct (limit <? N.of_nat (length q)); [|inversion H; subst; apply ext_refl].
    destruct (next_non_expired t q out) as [[[d|] q1] out1] eqn:E; apply next_non_expired_ext in E.
    + eapply ext_trans; [exact E|]. eapply ext_trans; [|eapply IH; eassumption]. apply ext_one. reflexivity.
    + inversion H; subst. exact E.
Qed.

Lemma shed_after_ext t x : ext (wout x) (wout (shed_after t x)).
Proof.
  destruct x as [[p acts] out]. unfold shed_after.
  destruct (w_dset p) as [[limit [|]]|]; try apply ext_refl.
  destruct (shed_oldest _ t limit (w_queue p) out) as [q' out'] eqn:E. apply shed_oldest_ext in E. exact E.
Qed.

Lemma enqueue_job_ext t x j : ext (wout x) (wout (enqueue_job t x j)).
Proof.
  destruct x as [[p acts] out]. unfold enqueue_job.
  match goal with |- context [if ?b then _ else _] => destruct b end; [apply ext_reject_disc|].
  eapply ext_trans; [|apply shed_after_ext].
  destruct (w_curr p).
  - destruct (next_non_expired t (w_queue p) (accept_ev j out)) as [[[o|] q'] out'] eqn:E;
      apply next_non_expired_ext in E; rewrite dispatch_job_ext;
      (eapply ext_trans; [apply ext_accept|exact E]).
  - apply ext_accept.
Qed.

Lemma worker_complete_ext t x k : ext (wout x) (wout (worker_complete t x k)).
Proof.
  destruct x as [[p acts] out]. unfold worker_complete. destruct (memN k (w_curr p)); [|apply ext_refl].
  apply (dispatch_next_ext t (set_w_curr (removeN k (w_curr p)) p, acts, out)).
Qed.

Lemma replace_worker_ext t x a : ext (wout x) (wout (replace_worker t x a)).
Proof.
  destruct x as [[p acts] out]. unfold replace_worker.
  apply (dispatch_next_ext t (set_w_aid a (set_w_curr [] p), acts, out)).
Qed.

Lemma with_worker_EX wid f w : (forall x, ext (wout x) (wout (f x))) -> EX w (with_worker wid f w).
Proof.
  intros Hf. unfold with_worker, EX. destruct (lookup wid (pool w)) as [p|]; [|apply ext_refl].
  specialize (Hf (p, actors w, evs w)). destruct (f (p, actors w, evs w)) as [[p' acts'] out']. exact Hf.
Qed.

(* ------------------------------------------------------------------ factory *)
Lemma reject_discard_EX r x w : EX w (reject x (discard r x w)).
Proof. unfold EX, reject, discard, emit. simpl. apply ext_reject_disc. Qed.
Lemma discard_EX r x w : EX w (discard r x w).
Proof. unfold EX, discard, emit. simpl. apply ext_one. reflexivity. Qed.
Lemma accept_EX x w : EX w (accept x w).
Proof. unfold EX, accept. simpl. apply ext_accept. Qed.

Lemma route_message_EX c x hint w r w' : route_message c x hint w = (r, w') -> EX w w'.
Proof.
  unfold route_message. destruct (rl_check w) as [ok w0] eqn:R. apply rl_check_same in R.
  intros H. eapply EX_trans; [apply same_places_EX; exact R|].
  destruct ok; simpl in H.
  - destruct (choose_target c (j_key x) hint w0) as [tgt w1] eqn:C. apply choose_target_same in C.
    eapply EX_trans; [apply same_places_EX; exact C|].
    destruct tgt as [wid|]; [destruct (in_pool w1 wid)|]; inversion H; subst; try exr.
    apply with_worker_EX. intros y. apply enqueue_job_ext.
  - inversion H; subst. destruct hint as [h|]; [|exr].
    destruct (worker_available w0 h); [|exr]. apply same_places_EX, on_avail_same.
Qed.

Lemma drop_expired_head_EX fuel w : EX w (drop_expired_head fuel w).
Proof.
  revert w. induction fuel as [|f IH]; intros w; simpl; [exr|].
  destruct (q_peek (fq w)) as [x|]; [|exr].
  destruct (expired (now w) x); [|exr].
  destruct (q_pop (fq w)) as [[y|] q']; [|exr].
  eapply EX_trans; [|apply IH]. apply (reject_discard_EX RTtl y (set_fq q' w)).
Qed.

Lemma route_loop_EX c fuel hint w : EX w (route_loop c fuel hint w).
Proof.
  revert w. induction fuel as [|f IH]; intros w; simpl; [exr|].
  destruct (q_peek (fq w)) as [x|]; [|exr].
  destruct (choose_target c (j_key x) hint w) as [tgt w1] eqn:C. apply choose_target_same in C.
  eapply EX_trans; [apply same_places_EX; exact C|].
  destruct tgt as [wid|]; [|exr].
  destruct (q_pop (fq w1)) as [[y|] q']; [|exr].
  destruct (route_message c y (Some wid) (set_fq q' w1)) as [r w2] eqn:RM.
  apply route_message_EX in RM. change (EX w1 w2) in RM.
  destruct r as [|z|z]; [exact RM| |].
  - eapply EX_trans; [exact RM|]. unfold EX, emit. simpl. apply ext_one. reflexivity.
  - eapply EX_trans; [exact RM|]. eapply EX_trans; [|apply IH]. apply reject_discard_EX.
Qed.

Lemma try_route_next_EX c hint w : EX w (try_route_next c hint w).
Proof. unfold try_route_next. eapply EX_trans; [apply drop_expired_head_EX|apply route_loop_EX]. Qed.

Lemma shed_queue_EX fuel limit w : EX w (shed_queue fuel limit w).
Proof.
  revert w. induction fuel as [|f IH]; intros w; simpl; [exr|].
  destruct (limit <? qlen (fq w)); [|exr].
  destruct (q_pop_low (fq w)) as [[y|] q']; [|exr].
  eapply EX_trans; [|apply IH]. apply (discard_EX RLoadshed y (set_fq q' w)).
Qed.

Lemma maybe_enqueue_EX c x w : EX w (maybe_enqueue c x w).
Proof.
  unfold maybe_enqueue. destruct (dset w) as [[limit [|]]|].
  - match goal with |- context [if ?b then _ else _] => destruct b end;
      [apply reject_discard_EX|apply (accept_EX x w)].
  - eapply EX_trans; [|apply shed_queue_EX]. apply (accept_EX x w).
  - apply (accept_EX x w).
Qed.

Lemma dispatch_EX c x w : EX w (dispatch c x w).
Proof.
  unfold dispatch. destruct (expired (now w) x); [apply reject_discard_EX|].
  destruct (drain w); try apply reject_discard_EX.
  destruct (route_message c x None w) as [r w'] eqn:RM.
  pose proof (route_message_count true 0 _ _ _ _ _ _ RM) as HR.
  apply route_message_EX in RM.
  destruct r as [|y|y]; [exact RM| |].
  - destruct HR as [-> _]. eapply EX_trans; [exact RM|apply maybe_enqueue_EX].
  - destruct HR as [-> _]. eapply EX_trans; [exact RM|apply reject_discard_EX].
Qed.

Lemma stop_actor_EX a w : EX w (stop_actor a w).
Proof.
  unfold stop_actor. destruct (lookup a (actors w)) as [x|]; [|exr].
  destruct (a_alive x); exr.
Qed.

Lemma avail_tail_EX c who w :
  EX w (let w1 := try_route_next c (Some who) w in
        if worker_available w1 who then on_avail c who true w1 else w1).
Proof.
  cbv zeta. destruct (worker_available _ who).
  - eapply EX_trans; [apply try_route_next_EX|apply same_places_EX, on_avail_same].
  - apply try_route_next_EX.
Qed.

Lemma worker_finished_EX c who k w : EX w (worker_finished c who k w).
Proof.
  unfold worker_finished. destruct (lookup who (pool w)); [|apply avail_tail_EX].
  set (w1 := with_worker who (fun x => worker_complete (now w) x k) w).
  assert (E1 : EX w w1) by (apply with_worker_EX; intros y; apply worker_complete_ext).
  destruct (lookup who (pool w1)) as [p|]; [|exact E1].
  destruct (w_drain p).
  - destruct (is_working p); [exact E1|]. eapply EX_trans; [exact E1|]. eapply EX_trans; [|apply stop_actor_EX]. exr.
  - eapply EX_trans; [exact E1|apply avail_tail_EX].
Qed.

Lemma spawn_worker_EX c wid w : EX w (spawn_worker c wid w).
Proof. unfold spawn_worker. eapply EX_trans; [|apply same_places_EX, on_avail_same]. exr. Qed.

Lemma grow_pool_EX c n wid w : EX w (grow_pool c n wid w).
Proof.
  revert wid w. induction n as [|n IH]; intros wid w; simpl; [exr|].
  eapply EX_trans; [|apply IH]. destruct (lookup wid (pool w)) as [p|].
  - destruct (is_available p); [eapply EX_trans; [|apply same_places_EX, on_avail_same]|]; exr.
  - apply spawn_worker_EX.
Qed.

Lemma shrink_pool_EX c n wid w : EX w (shrink_pool c n wid w).
Proof.
  revert wid w. induction n as [|n IH]; intros wid w; simpl; [exr|].
  eapply EX_trans; [|apply IH]. destruct (lookup wid (pool w)) as [p|]; [|exr].
  destruct (is_working p); [exr|].
  eapply EX_trans; [|apply stop_actor_EX].
  eapply EX_trans; [apply same_places_EX, (on_avail_same c wid false)|]. exr.
Qed.

Lemma route_n_EX c n w : EX w (route_n c n w).
Proof.
  revert w. induction n as [|n IH]; intros w; simpl; [exr|].
  destruct (q_peek (fq w)); [|exr]. eapply EX_trans; [apply try_route_next_EX|apply IH].
Qed.

Lemma route_all_EX c fuel w : EX w (route_all c fuel w).
Proof.
  revert w. induction fuel as [|f IH]; intros w; simpl; [exr|].
  destruct (q_peek (fq w)); [|exr].
  destruct (qlen (fq (try_route_next c None w)) <? qlen (fq w));
    [eapply EX_trans; [apply try_route_next_EX|apply IH]|apply try_route_next_EX].
Qed.

Lemma resize_pool_EX c n w : EX w (resize_pool c n w).
Proof.
  unfold resize_pool. destruct (n =? 0); [exr|].
  destruct (pool_size w <? N.min 1000000 n).
  - cbv zeta.
    assert (G : EX w (set_pool_size (N.min 1000000 n) (grow_pool c (N.to_nat (N.min 1000000 n - pool_size w)) (pool_size w) w)))
      by apply (grow_pool_EX c _ (pool_size w) w).
    match goal with |- context [if ?b then _ else _] => destruct b end;
      (eapply EX_trans; [exact G|]); [apply route_n_EX|apply route_all_EX].
  - destruct (N.min 1000000 n <? pool_size w); [|exr].
    apply (shrink_pool_EX c _ (N.min 1000000 n) w).
Qed.

Lemma worker_died_EX c who w : EX w (worker_died c who w).
Proof.
  unfold worker_died. destruct (lookup who (by_actor w)) as [wid|]; [|exr].
  destruct (lookup wid (pool w)) as [p|]; [|exr].
  destruct (w_drain p && match w_queue p with [] => true | _ => false end).
  - eapply EX_trans; [apply same_places_EX, (on_avail_same c wid false)|]. exr.
  - cbv zeta.
    set (w1 := set_actors (actors w ++ [(next_aid w, new_actor wid)]) (set_next_aid (next_aid w + 1) w)).
    set (w2 := with_worker wid (fun x => replace_worker (now w1) x (next_aid w)) w1).
    assert (E2 : EX w w2) by (apply (with_worker_EX wid _ w1); intros y; apply replace_worker_ext).
    set (w3 := set_by_actor (remove_key who (by_actor w2) ++ [(next_aid w, wid)]) w2).
    assert (E3 : EX w w3) by exact E2.
    destruct (worker_available _ wid).
    + eapply EX_trans; [exact E3|]. eapply EX_trans; [apply try_route_next_EX|apply same_places_EX, on_avail_same].
    + eapply EX_trans; [exact E3|apply try_route_next_EX].
Qed.

Lemma query_EX c k w : EX w (query c k w).
Proof. unfold query, EX, emit. destruct (k =? 0); [|destruct (k =? 1)]; simpl; apply ext_one; reflexivity. Qed.

Lemma handle_msg_EX c m w : EX w (handle_msg c m w).
Proof.
  unfold handle_msg. eapply EX_trans; [|apply same_places_EX, check_drained_same].
  destruct m.
  - apply dispatch_EX.
  - apply worker_finished_EX.
  - apply resize_pool_EX.
  - exr.
  - exr.
  - apply resize_pool_EX.
  - exr.
  - apply query_EX.
Qed.

Lemma expired_events_ext t l out : ext out (expired_events t l out).
Proof.
  revert out. induction l as [|x l IH]; intros out; simpl; [apply ext_refl|].
  eapply ext_trans; [|apply IH]. destruct (expired t x); [apply ext_one; reflexivity|apply ext_refl].
Qed.

Lemma calc_tail_EX c w : EX w (calc_tail c w).
Proof.
  unfold calc_tail. destruct (factory_queueing c); [|exr].
  unfold q_remove_expired, EX. simpl. apply expired_events_ext.
Qed.

Lemma drain_queue_shutdown_EX fuel w : EX w (drain_queue_shutdown fuel w).
Proof.
  revert w. induction fuel as [|f IH]; intros w; simpl; [exr|].
  destruct (q_pop (fq w)) as [[y|] q']; [|exr].
  eapply EX_trans; [|apply IH]. apply (discard_EX RShutdown y (set_fq q' w)).
Qed.

Lemma shutdown_events_ext l out : ext out (shutdown_events l out).
Proof.
  unfold shutdown_events. revert out. induction l as [|x l IH]; intros out; simpl; [apply ext_refl|].
  eapply ext_trans; [|apply IH]. apply ext_one. reflexivity.
Qed.

Lemma shutdown_worker_queues_EX w : EX w (shutdown_worker_queues w).
Proof.
  unfold shutdown_worker_queues, EX. simpl. generalize (evs w).
  induction (pool w) as [|e l IH]; intros out; simpl; [apply ext_refl|].
  eapply ext_trans; [|apply IH]. apply shutdown_events_ext.
Qed.

Lemma fold_stop_EX (l : list (N * wprops)) w : EX w (fold_left (fun w e => stop_actor (w_aid (snd e)) w) l w).
Proof.
  revert w. induction l as [|e l IH]; intros w; simpl; [exr|].
  eapply EX_trans; [apply stop_actor_EX|apply IH].
Qed.

Lemma post_stop_EX c w : EX w (post_stop c w).
Proof.
  unfold post_stop.
  set (w1 := drain_queue_shutdown (S (length (concat (fq w)))) w).
  set (w2 := if c_shutdown_worker_queues c then shutdown_worker_queues w1 else w1).
  assert (E1 : EX w w1) by apply drain_queue_shutdown_EX.
  assert (E2 : EX w1 w2) by (unfold w2; destruct (c_shutdown_worker_queues c); [apply shutdown_worker_queues_EX|exr]).
  eapply EX_trans; [exact E1|]. eapply EX_trans; [exact E2|]. apply (fold_stop_EX (pool w2) w2).
Qed.

Lemma factory_step_EX c w : EX w (factory_step c w).
Proof.
  unfold factory_step. destruct (running_now w && negb (held w)); [|exr].
  destruct (stop_req w); [apply post_stop_EX|].
  destruct (inbox_sup w) as [|a rest].
  - destruct (inbox_msg w) as [|m rest]; [exr|]. apply (handle_msg_EX c m (set_inbox_msg rest w)).
  - apply (worker_died_EX c a (set_inbox_sup rest w)).
Qed.

Lemma drop_jobs_ext cm l out : ext out (drop_jobs cm l out).
Proof.
  unfold drop_jobs. revert out. induction l as [|x l IH]; intros out; simpl; [apply ext_refl|].
  eapply ext_trans; [|apply IH]. apply ext_one. reflexivity.
Qed.

Lemma actor_exit_EX a cm w : EX w (actor_exit a cm w).
Proof.
  unfold actor_exit, EX. destruct (lookup a (actors w)) as [x|]; [|apply ext_refl]. simpl.
  destruct (a_run x); [eapply ext_trans; [apply drop_jobs_ext|apply ext_one; reflexivity]|apply drop_jobs_ext].
Qed.

Lemma finalize_EX w : EX w (finalize w).
Proof.
  unfold finalize. destruct (fstatus w); try exr.
  destruct (all_workers_gone w); [|exr]. unfold EX. simpl.
  eapply ext_trans; [|apply drop_jobs_ext]. generalize (evs w).
  induction (pool w) as [|e l IH]; intros out; simpl; [apply ext_refl|].
  eapply ext_trans; [|apply IH]. apply drop_jobs_ext.
Qed.

Lemma step_EX c w l : (forall a, l <> LWComplete a) -> EX w (step c w l).
Proof.
  intros NC. destruct l; simpl.
  - unfold send_msg. destruct s; try (destruct (running_now w); exr).
    destruct (running_now w); [exr|]. unfold EX, emit. simpl. apply ext_one. reflexivity.
  - destruct (fstatus w); exr.
  - apply factory_step_EX.
  - destruct (running_now w && negb (held w)); exr.
  - destruct (held w); [|exr].
    eapply EX_trans; [|apply same_places_EX, check_drained_same]. eapply EX_trans; [|apply calc_tail_EX].
    match goal with |- context [if ?b then _ else _] => destruct b end; [exr|].
    apply (resize_pool_EX c n (set_held false w)).
  - destruct (running_now w && negb (held w)); [|exr].
    eapply EX_trans; [|apply same_places_EX, check_drained_same]. apply calc_tail_EX.
  - exr.
  - unfold w_start. destruct (lookup a (actors w)) as [x|]; [|exr].
    destruct (a_alive x), (a_run x), (a_stop x), (a_mb x); try exr.
    unfold EX, emit. simpl. apply ext_one. reflexivity.
  - exfalso. eapply NC. reflexivity.
  - unfold w_die. destruct (lookup a (actors w)) as [x|]; [|exr].
    destruct (a_alive x); [apply actor_exit_EX|exr].
  - unfold w_exit. destruct (lookup a (actors w)) as [x|]; [|exr].
    destruct (a_alive x), (a_stop x), (a_run x); try exr. apply actor_exit_EX.
  - apply (stop_actor_EX a w).
  - exr.
  - unfold w_close. destruct (lookup a (actors w)) as [x|]; [|exr].
    destruct (a_alive x), (a_stop x), (a_run x); try exr. apply (actor_exit_EX a (CStopExit a) w).
  - unfold w_closed. destruct (lookup a (actors w)) as [x|]; [|exr].
    destruct (memN a (closing w) && negb (a_alive x)); exr.
  - apply finalize_EX.
Qed.

(* the one step that records a completion *)
Lemma w_complete_evs a w :
  evs (w_complete a w) = evs w \/ exists i x y, evs (w_complete a w) = EEnd i x y :: evs w.
Proof.
  unfold w_complete. destruct (lookup a (actors w)) as [x|]; [|auto].
  destruct (a_alive x); [|auto]. destruct (a_run x) as [j|]; [|auto]. cbv zeta.
  right. exists (j_id j), (a_wid x), a.
  match goal with |- context [if ?b then _ else _] => destruct b end; reflexivity.
Qed.

Lemma init_evs c n d rls : evs (init c n d rls) = [].
Proof.
  unfold init. simpl.
  assert (G : forall m wid w, evs w = [] -> evs (spawn_initial c m wid w) = []).
  { induction m as [|m IH]; intros wid w E; simpl; [exact E|]. apply IH.
    destruct (on_avail_same c wid true
      (set_by_actor (by_actor w ++ [(next_aid w, wid)])
        (set_pool (insert wid (mkW (next_aid w) [] [] false (worker_dset c (dset w))) (pool w))
          (set_actors (actors w ++ [(next_aid w, new_actor wid)]) (set_next_aid (next_aid w + 1) w)))))
      as (_ & _ & _ & _ & Ev).
    unfold spawn_worker. rewrite Ev. simpl. exact E. }
  apply G. reflexivity.
Qed.

Theorem returned_is_discarded : forall c n d rls ls j,
  In (ERet j) (evs (run c (init c n d rls) ls)) ->
  exists r, In (EDisc j r) (evs (run c (init c n d rls) ls)).
Proof.
  intros c n d rls ls.
  assert (G : forall ls w, (forall j, In (ERet j) (evs w) -> exists r, In (EDisc j r) (evs w)) ->
                           forall j, In (ERet j) (evs (run c w ls)) -> exists r, In (EDisc j r) (evs (run c w ls))).
  { induction ls0 as [|l ls0 IH]; intros w H; simpl; [exact H|]. apply IH.
    assert (K : forall l0, (forall a, l0 <> LWComplete a) ->
                forall j, In (ERet j) (evs (step c w l0)) -> exists r, In (EDisc j r) (evs (step c w l0))).
    { intros l0 NC. destruct (step_EX c w l0 NC) as (new & E & C & _).
      intros j I. rewrite E in *. apply in_app_iff in I. destruct I as [I|I].
      - destruct (C j I) as (r & Ir). exists r. apply in_or_app. auto.
      - destruct (H j I) as (r & Ir). exists r. apply in_or_app. auto. }
    destruct l; try (apply K; intros ? E; discriminate E).
    simpl. match goal with |- context [w_complete ?q w] => destruct (w_complete_evs q w) as [E|(i & x & y & E)] end;
      rewrite E; [exact H|].
    intros j [I|I]; [discriminate|]. destruct (H j I) as (r & Ir). exists r. right. exact Ir. }
  apply G. rewrite init_evs. intros j [].
Qed.
