(* C16 — proofs about the v2 port model V2.v, for both values of the
   allow_duplicate_subscription flag `ad` (the public port uses true): state invariant,
   per-subscription refinement to Sub1 with cap = None, theorems. *)
From Coq Require Import Permutation.
From Coq Require Import List NArith Bool Arith Lia.
From RV Require Import OutPort.Spec OutPort.SpecProofs OutPort.V2.
Import ListNotations.

Arguments tagged : simpl never.

Lemma skipn_skipn2 : forall A y x (l : list A), skipn x (skipn y l) = skipn (y + x) l.
Proof.
  induction y as [|y IH]; intros x l; cbn; [reflexivity|].
  destruct l; [destruct x; reflexivity|]. apply IH.
Qed.

Lemma skipn_nth_cons2 : forall A n (l : list A) x, nth_error l n = Some x -> skipn n l = x :: skipn (S n) l.
Proof.
  induction n as [|n IH]; intros l x H; destruct l; cbn in *; try discriminate.
  - inversion H; reflexivity.
  - apply IH. assumption.
Qed.

Lemma tagged_app2 : forall s l1 l2, tagged s (l1 ++ l2) = tagged s l1 ++ tagged s l2.
Proof. intros. unfold tagged. rewrite filter_app, map_app. reflexivity. Qed.
Lemma tagged_one_same2 : forall s r, tagged s [(s, r)] = [r].
Proof. intros. unfold tagged. cbn. rewrite N.eqb_refl. reflexivity. Qed.
Lemma tagged_one_other2 : forall s s' r, N.eqb s' s = false -> tagged s [(s', r)] = [].
Proof. intros. unfold tagged. cbn. rewrite H. reflexivity. Qed.
Lemma tagged_cons_same2 : forall s r q, tagged s ((s, r) :: q) = r :: tagged s q.
Proof. intros. unfold tagged. cbn. rewrite N.eqb_refl. reflexivity. Qed.
Lemma tagged_cons_other2 : forall s s' r q, N.eqb s' s = false -> tagged s ((s', r) :: q) = tagged s q.
Proof. intros. unfold tagged. cbn. rewrite H. reflexivity. Qed.
Lemma updf_same2 : forall A (f : N -> A) k v, updf f k v k = v.
Proof. intros. unfold updf. rewrite N.eqb_refl. reflexivity. Qed.
Lemma updf_other2 : forall A (f : N -> A) k v x, N.eqb x k = false -> updf f k v x = f x.
Proof. intros. unfold updf. rewrite H. reflexivity. Qed.

Section P.
  Variable C : Type.
  Variable cv : C -> N -> option N.
  Variable ad : bool.

  Notation state := (state C).
  Notation step := (step C cv ad).
  Notation run := (run C cv ad).
  Notation label := (label C).
  Notation cmd := (cmd C).
  Notation entry := (entry C).

  Lemma publish_nonblocking : forall (st : state) m, closed C st = false ->
    exists st', step st (LPublish m) = Some st'
      /\ queue C st' = queue C st ++ [Data m] /\ batch C st' = batch C st /\ dp C st' = dp C st
      /\ subscribers C st' = subscribers C st /\ actors C st' = actors C st.
  Proof.
    intros st m Hc. unfold V2.step. rewrite Hc. eexists. split; [reflexivity|]. cbn. repeat split; reflexivity.
  Qed.

  (* ---------- command lists ---------- *)
  Fixpoint set_ids (l : list cmd) : list N :=
    match l with
    | [] => []
    | Data _ :: t => set_ids t
    | SetSub s _ _ :: t => s :: set_ids t
    end.

  Lemma datas_app : forall (l1 l2 : list cmd), datas C (l1 ++ l2) = datas C l1 ++ datas C l2.
  Proof. induction l1 as [|[m|s a c] t IH]; intros l2; cbn; [reflexivity| |]; rewrite IH; reflexivity. Qed.

  Lemma set_ids_app : forall (l1 l2 : list cmd), set_ids (l1 ++ l2) = set_ids l1 ++ set_ids l2.
  Proof. induction l1 as [|[m|s a c] t IH]; intros l2; cbn; [reflexivity| |]; rewrite IH; reflexivity. Qed.

  Lemma after_set_none : forall s (l : list cmd), ~ In s (set_ids l) -> after_set C s l = None.
  Proof.
    intros s. induction l as [|[m|s' a c] t IH]; intros H; cbn in *; [reflexivity|auto|].
    destruct (N.eqb s' s) eqn:E.
    - apply N.eqb_eq in E. subst. exfalso. apply H. left. reflexivity.
    - apply IH. intros Hin. apply H. right. assumption.
  Qed.

  Lemma after_set_app_l : forall s (l1 l2 : list cmd) d, after_set C s l1 = Some d ->
    after_set C s (l1 ++ l2) = Some (d ++ datas C l2).
  Proof.
    intros s. induction l1 as [|[m|s' a c] t IH]; intros l2 d H; cbn in *; [discriminate|auto|].
    destruct (N.eqb s' s); [|auto]. inversion H; subst. rewrite datas_app. reflexivity.
  Qed.

  Lemma after_set_app_r : forall s (l1 l2 : list cmd), after_set C s l1 = None ->
    after_set C s (l1 ++ l2) = after_set C s l2.
  Proof.
    intros s. induction l1 as [|[m|s' a c] t IH]; intros l2 H; cbn in *; [reflexivity|auto|].
    destruct (N.eqb s' s); [discriminate|auto].
  Qed.

  Lemma after_set_data_prefix : forall s (l1 l2 : list cmd), set_ids l1 = [] ->
    after_set C s (l1 ++ l2) = after_set C s l2.
  Proof.
    intros s l1 l2 H. apply after_set_app_r. apply after_set_none. rewrite H. intros [].
  Qed.

  (* ---------- subscriber vectors ---------- *)
  Definition sids (l : list entry) : list N := map (e_sid C) l.

  Lemma index_of_none : forall s (l : list entry), ~ In s (sids l) -> index_of C s l = None.
  Proof.
    intros s. induction l as [|e t IH]; intros H; cbn in *; [reflexivity|].
    destruct (N.eqb (e_sid C e) s) eqn:E.
    - apply N.eqb_eq in E. exfalso. apply H. left. assumption.
    - rewrite IH; [reflexivity|]. intros Hin. apply H. right. assumption.
  Qed.

  Lemma index_of_some_in : forall s (l : list entry) i, index_of C s l = Some i -> In s (sids l).
  Proof.
    intros s. induction l as [|e t IH]; intros i H; cbn in *; [discriminate|].
    destruct (N.eqb (e_sid C e) s) eqn:E.
    - apply N.eqb_eq in E. left. assumption.
    - destruct (index_of C s t) eqn:E2; [|discriminate]. right. eapply IH. reflexivity.
  Qed.

  Lemma index_of_nth : forall s (l : list entry) i e, NoDup (sids l) ->
    nth_error l i = Some e -> e_sid C e = s -> index_of C s l = Some i.
  Proof.
    intros s. induction l as [|x t IH]; intros i e Hnd Hn Hs; [destruct i; discriminate|].
    cbn in Hnd. inversion Hnd as [|? ? Hnotin Hnd']; subst. destruct i as [|i]; cbn in *.
    - inversion Hn; subst. rewrite N.eqb_refl. reflexivity.
    - destruct (N.eqb (e_sid C x) (e_sid C e)) eqn:E.
      + apply N.eqb_eq in E. exfalso. apply Hnotin. rewrite E. unfold sids. apply in_map.
        eapply nth_error_In. eassumption.
      + rewrite (IH i e Hnd' Hn eq_refl). reflexivity.
  Qed.

  Lemma index_of_lt : forall s (l : list entry) i, index_of C s l = Some i -> i < length l.
  Proof.
    intros s. induction l as [|e t IH]; intros i H; cbn in *; [discriminate|].
    destruct (N.eqb (e_sid C e) s); [inversion H; lia|].
    destruct (index_of C s t) eqn:E; [|discriminate]. inversion H; subst. specialize (IH _ eq_refl). lia.
  Qed.

  Lemma index_of_app_one : forall s (l : list entry) e,
    index_of C s (l ++ [e]) =
    match index_of C s l with
    | Some i => Some i
    | None => if N.eqb (e_sid C e) s then Some (length l) else None
    end.
  Proof.
    intros s. induction l as [|x t IH]; intros e; cbn.
    - destruct (N.eqb (e_sid C e) s); reflexivity.
    - destruct (N.eqb (e_sid C x) s); [reflexivity|]. rewrite IH.
      destruct (index_of C s t); [reflexivity|]. destruct (N.eqb (e_sid C e) s); reflexivity.
  Qed.

  Lemma sids_remove_nth : forall n (l : list entry), sids (remove_nth n l) = remove_nth n (sids l).
  Proof. induction n as [|n IH]; intros [|x t]; cbn; try reflexivity. rewrite IH. reflexivity. Qed.

  Lemma remove_nth_sublist : forall A n (l : list A), sublist (remove_nth n l) l.
  Proof.
    induction n as [|n IH]; intros [|x t]; cbn.
    - apply sl_nil.
    - apply sl_skip. apply sublist_refl.
    - apply sl_nil.
    - apply sl_keep. apply IH.
  Qed.

  Lemma index_of_remove : forall s (l : list entry) si, NoDup (sids l) ->
    index_of C s (remove_nth si l) =
    match index_of C s l with
    | Some i => if Nat.eqb i si then None else if Nat.ltb i si then Some i else Some (pred i)
    | None => None
    end.
  Proof.
    intros s. induction l as [|x t IH]; intros si Hnd; [destruct si; reflexivity|].
    cbn in Hnd. inversion Hnd as [|? ? Hnotin Hnd']; subst.
    destruct si as [|si]; cbn [remove_nth index_of].
    - destruct (N.eqb (e_sid C x) s) eqn:E.
      + cbn. apply index_of_none. apply N.eqb_eq in E. rewrite <- E. assumption.
      + destruct (index_of C s t); reflexivity.
    - destruct (N.eqb (e_sid C x) s) eqn:E; [reflexivity|].
      rewrite (IH si Hnd'). destruct (index_of C s t) as [i|]; [|reflexivity].
      change (Nat.eqb (S i) (S si)) with (Nat.eqb i si).
      destruct (Nat.eqb i si) eqn:E1; [reflexivity|].
      destruct (Nat.ltb i si) eqn:E2.
      + assert (Nat.ltb (S i) (S si) = true) as -> by (apply Nat.ltb_lt; apply Nat.ltb_lt in E2; lia).
        reflexivity.
      + assert (Nat.ltb (S i) (S si) = false) as -> by (apply Nat.ltb_ge; apply Nat.ltb_ge in E2; lia).
        apply Nat.eqb_neq in E1. apply Nat.ltb_ge in E2. destruct i; [lia|reflexivity].
  Qed.

  (* ---------- segments ---------- *)
  Lemma seg_end_spec : forall (l : list cmd) from,
    let b := seg_end C l from in
    from <= b /\ b <= from + length l /\ set_ids (firstn (b - from) l) = [].
  Proof.
    induction l as [|[m|s a c] t IH]; intros from; cbn.
    - rewrite Nat.sub_diag. split; [lia|]. split; [lia|reflexivity].
    - destruct (IH (S from)) as (H1 & H2 & H3). split; [lia|]. split; [lia|].
      replace (seg_end C t (S from) - from) with (S (seg_end C t (S from) - S from)) by lia.
      cbn. exact H3.
    - rewrite Nat.sub_diag. split; [lia|]. split; [lia|reflexivity].
  Qed.

  Lemma seg_split : forall (bt : list cmd) a b, a <= b -> seg C bt a b ++ skipn b bt = skipn a bt.
  Proof.
    intros bt a b H. unfold seg. replace (skipn b bt) with (skipn (b - a) (skipn a bt)).
    - apply firstn_skipn.
    - rewrite skipn_skipn2. f_equal. lia.
  Qed.

  Lemma seg_empty : forall (bt : list cmd) a b, b <= a -> seg C bt a b = [].
  Proof. intros bt a b H. unfold seg. replace (b - a) with 0 by lia. reflexivity. Qed.

  Lemma seg_cons : forall (bt : list cmd) mi b x, nth_error bt mi = Some x -> mi < b ->
    seg C bt mi b = x :: seg C bt (S mi) b.
  Proof.
    intros bt mi b x H Hlt. unfold seg. rewrite (skipn_nth_cons2 _ _ _ _ H).
    replace (b - mi) with (S (b - S mi)) by lia. reflexivity.
  Qed.

  (* ---------- state invariant ---------- *)
  Definition ids (st : state) : list N :=
    sids (subscribers C st) ++ set_ids (batch_rest C st) ++ set_ids (queue C st).

  Record WInv (st : state) : Prop := mkW {
    w_nd : NoDup (ids st);
    w_e : forall e, In e (subscribers C st) -> decl C st (e_sid C e) = Some (e_actor C e, e_conv C e);
    w_c : forall s a c, In (SetSub s a c) (batch_rest C st ++ queue C st) -> decl C st s = Some (a, c);
    w_tag : forall a s r, In (s, r) (a_mbox (actors C st a) ++ a_got (actors C st a)) ->
              exists c, decl C st s = Some (a, c) }.

  Lemma winv_init : WInv (init C).
  Proof.
    constructor; cbn.
    - constructor.
    - intros e [].
    - intros s a c [].
    - intros a s r [].
  Qed.

  Lemma set_ids_in : forall s (l : list cmd), In s (set_ids l) -> exists a c, In (SetSub s a c) l.
  Proof.
    intros s. induction l as [|[m|s' a c] t IH]; intros H; cbn in *; [destruct H| |].
    - destruct (IH H) as (a & c & Hin). eauto.
    - destruct H as [->|H]; [eauto|]. destruct (IH H) as (a' & c' & Hin). eauto.
  Qed.

  Lemma in_ids_decl : forall (st : state) s, WInv st -> In s (ids st) -> decl C st s <> None.
  Proof.
    intros st s I H. unfold ids in H. apply in_app_or in H. destruct H as [H|H].
    - unfold sids in H. apply in_map_iff in H. destruct H as (e & <- & Hin).
      rewrite (w_e _ I e Hin). discriminate.
    - rewrite <- set_ids_app in H. destruct (set_ids_in _ _ H) as (a & c & Hin).
      rewrite (w_c _ I _ _ _ Hin). discriminate.
  Qed.

  Lemma NoDup_snoc2 : forall A (l : list A) x, NoDup l -> ~ In x l -> NoDup (l ++ [x]).
  Proof.
    induction l as [|y t IH]; intros x Hnd Hn; cbn.
    - constructor; [intros []|constructor].
    - inversion Hnd; subst. constructor.
      + intros Hin. apply in_app_or in Hin. destruct Hin as [Hin|[->|[]]]; [contradiction|].
        apply Hn. left. reflexivity.
      + apply IH; [assumption|]. intros Hin. apply Hn. right. assumption.
  Qed.

  (* a step that keeps subscribers, rest of batch, queue, decl; actors only shrink *)
  Lemma winv_frame : forall (st st' : state), WInv st ->
    subscribers C st' = subscribers C st -> batch_rest C st' = batch_rest C st ->
    queue C st' = queue C st -> decl C st' = decl C st ->
    (forall a it, In it (a_mbox (actors C st' a) ++ a_got (actors C st' a)) ->
                  In it (a_mbox (actors C st a) ++ a_got (actors C st a))) ->
    WInv st'.
  Proof.
    intros st st' I Hs Hb Hq Hd Ha. destruct I as [Ind Ie Ic It].
    constructor; unfold ids in *; rewrite ?Hs, ?Hb, ?Hq, ?Hd; auto.
    intros a s r Hin. apply (It a s r). apply Ha. assumption.
  Qed.

  Lemma skipn_all_nil : forall A n (l : list A), length l <= n -> skipn n l = [].
  Proof. intros. apply skipn_all2. assumption. Qed.

  Lemma replace_first_spec : forall e (l l' : list entry) r, replace_first C e l = Some (l', r) ->
    exists l1 x l2, l = l1 ++ x :: l2 /\ l' = l1 ++ e :: l2 /\ r = e_sid C x.
  Proof.
    intros e. induction l as [|y t IH]; intros l' r H; cbn in H; [discriminate|].
    destruct (N.eqb (e_actor C y) (e_actor C e)).
    - inversion H; subst. exists [], y, t. repeat split; reflexivity.
    - destruct (replace_first C e t) as [[t' r']|] eqn:E; [|discriminate]. inversion H; subst.
      destruct (IH _ _ eq_refl) as (l1 & x & l2 & -> & -> & ->).
      exists (y :: l1), x, l2. repeat split; reflexivity.
  Qed.

  Lemma winv_apply_append : forall (st : state) b s a c, WInv st ->
    dp C st = DApply b -> nth_error (batch C st) b = Some (SetSub s a c) ->
    WInv (mkSt C (queue C st) (batch C st) (DSeg (S b)) (subscribers C st ++ [mkEntry C s a c])
               (actors C st) (decl C st) (closed C st)).
  Proof.
    intros st b s a c I Dp Nb.
    pose proof (skipn_nth_cons2 _ _ _ _ Nb) as Hr.
    destruct I as [Ind Ie Ic It]. unfold ids, batch_rest in *. rewrite Dp in *. rewrite Hr in *.
    constructor; unfold ids, batch_rest; cbn; auto.
    + unfold sids. rewrite map_app. cbn. rewrite <- app_assoc. cbn. exact Ind.
    + intros e Hin. apply in_app_or in Hin. destruct Hin as [Hin|[<-|[]]]; [auto|].
      cbn. apply Ic. left. reflexivity.
    + intros s' a' c' Hin. apply Ic. right. exact Hin.
  Qed.

  Lemma winv_apply_replace : forall (st : state) b s a c l1 x l2, WInv st ->
    dp C st = DApply b -> nth_error (batch C st) b = Some (SetSub s a c) ->
    subscribers C st = l1 ++ x :: l2 ->
    WInv (mkSt C (queue C st) (batch C st) (DSeg (S b)) (l1 ++ mkEntry C s a c :: l2)
               (actors C st) (decl C st) (closed C st)).
  Proof.
    intros st b s a c l1 x l2 I Dp Nb Hs.
    pose proof (skipn_nth_cons2 _ _ _ _ Nb) as Hr.
    destruct I as [Ind Ie Ic It]. unfold ids, batch_rest in *. rewrite Dp in *. rewrite Hr, Hs in *.
    constructor; unfold ids, batch_rest; cbn; auto.
    + unfold sids in *. rewrite map_app in *. cbn in *. rewrite <- app_assoc in *. cbn in *.
      apply NoDup_remove_1 in Ind.
      eapply Permutation_NoDup; [|exact Ind].
      apply Permutation_app_head. apply Permutation_sym. apply Permutation_middle.
    + intros e Hin. apply in_app_or in Hin. destruct Hin as [Hin|[<-|Hin]].
      * apply Ie. apply in_or_app. left. exact Hin.
      * cbn. apply Ic. left. reflexivity.
      * apply Ie. apply in_or_app. right. right. exact Hin.
    + intros s' a' c' Hin. apply Ic. right. exact Hin.
  Qed.

  Lemma winv_step : forall (st st' : state) l, WInv st -> step st l = Some st' -> WInv st'.
  Proof.
    intros st st' l I H. destruct l; cbn [V2.step] in H.
    - (* LPublish *)
      destruct (closed C st); [discriminate|].
      inversion H; subst; clear H. destruct I as [Ind Ie Ic It].
      constructor; unfold ids in *; cbn; auto.
      + rewrite set_ids_app. cbn. rewrite app_nil_r. exact Ind.
      + intros s a c Hin. apply Ic. rewrite app_assoc in Hin. apply in_app_or in Hin.
        destruct Hin as [Hin|[Hin|[]]]; [assumption|discriminate].
    - (* LSubscribe *)
      destruct (closed C st); [discriminate|].
      destruct (decl C st s) eqn:D; [discriminate|]. inversion H; subst; clear H.
      assert (Hfresh : ~ In s (ids st)) by (intros Hin; exact (in_ids_decl st s I Hin D)).
      destruct I as [Ind Ie Ic It].
      constructor; unfold ids in *; cbn.
      + rewrite set_ids_app. cbn. rewrite !app_assoc. apply NoDup_snoc2; rewrite <- ?app_assoc; assumption.
      + intros e Hin. unfold updf. destruct (N.eqb (e_sid C e) s) eqn:E; [|auto].
        apply N.eqb_eq in E. rewrite <- E, (Ie e Hin) in D. discriminate.
      + intros s' a' c' Hin. rewrite app_assoc in Hin. apply in_app_or in Hin. unfold updf.
        destruct Hin as [Hin|[Hin|[]]].
        * destruct (N.eqb s' s) eqn:E; [|auto]. apply N.eqb_eq in E. subst s'.
          rewrite (Ic _ _ _ Hin) in D. discriminate.
        * inversion Hin; subst. rewrite N.eqb_refl. reflexivity.
      + intros a' s' r Hin. destruct (It a' s' r Hin) as (c' & Dc). exists c'. unfold updf.
        destruct (N.eqb s' s) eqn:E; [|assumption]. apply N.eqb_eq in E. subst s'. congruence.
    - (* LTake *)
      destruct (dp C st) eqn:Dp; try discriminate.
      match type of H with (if ?bb then _ else _) = _ => destruct bb; [|discriminate] end.
      inversion H; subst; clear H. destruct I as [Ind Ie Ic It].
      unfold ids, batch_rest in *. rewrite Dp in *. cbn in *.
      constructor; unfold ids, batch_rest; cbn; auto.
      + rewrite <- set_ids_app, firstn_skipn. exact Ind.
      + intros s a c Hin. apply Ic. rewrite firstn_skipn in Hin. exact Hin.
    - (* LCtl *)
      destruct (dp C st) as [|a|a b si|a b si mi|b] eqn:Dp; try discriminate.
      + destruct (Nat.ltb a (length (batch C st))) eqn:Lt.
        * pose proof (seg_end_spec (skipn a (batch C st)) a) as (S1 & S2 & S3).
          set (b := seg_end C (skipn a (batch C st)) a) in *.
          assert (Hr : skipn a (batch C st) = seg C (batch C st) a b ++ skipn b (batch C st))
            by (symmetry; apply seg_split; exact S1).
          assert (WInv (set_dp C st (DApply b)) /\ WInv (set_dp C st (DSub a b 0))) as [W1 W2].
          { destruct I as [Ind Ie Ic It]. unfold ids, batch_rest in *. rewrite Dp in *.
            split; constructor; unfold ids, batch_rest; cbn; auto.
            - rewrite Hr, set_ids_app in Ind. unfold seg in Ind. rewrite S3 in Ind. exact Ind.
            - intros s c0 c1 Hin. apply Ic. rewrite Hr, <- app_assoc. apply in_or_app. right. exact Hin.
            - rewrite Hr, set_ids_app in Ind. unfold seg in Ind. rewrite S3 in Ind. exact Ind.
            - intros s c0 c1 Hin. apply Ic. rewrite Hr, <- app_assoc. apply in_or_app. right. exact Hin. }
          destruct (Nat.ltb a b); inversion H; subst; assumption.
        * inversion H; subst; clear H. apply Nat.ltb_ge in Lt.
          destruct I as [Ind Ie Ic It]. unfold ids, batch_rest in *. rewrite Dp in *.
          rewrite (skipn_all_nil _ _ _ Lt) in *.
          constructor; unfold ids, batch_rest; cbn; auto.
      + destruct (Nat.ltb si (length (subscribers C st))); inversion H; subst; clear H;
          (eapply winv_frame; [exact I|reflexivity|unfold batch_rest; cbn; rewrite Dp; reflexivity|reflexivity|reflexivity|auto]).
      + destruct (Nat.ltb mi b); [discriminate|]. inversion H; subst; clear H.
        eapply winv_frame; [exact I|reflexivity|unfold batch_rest; cbn; rewrite Dp; reflexivity|reflexivity|reflexivity|auto].
      + destruct (Nat.eqb b (length (batch C st))) eqn:Eb; [|discriminate]. inversion H; subst; clear H.
        apply Nat.eqb_eq in Eb.
        destruct I as [Ind Ie Ic It]. unfold ids, batch_rest in *. rewrite Dp in *.
        rewrite Eb, skipn_all in *.
        constructor; unfold ids, batch_rest; cbn; auto.
    - (* LSend *)
      destruct (dp C st) as [|a|a b si|a b si mi|b] eqn:Dp; try discriminate.
      destruct (Nat.ltb mi b); [|discriminate].
      destruct (nth_error (subscribers C st) si) as [e|] eqn:Ne; [|discriminate].
      destruct (nth_error (batch C st) mi) as [[m|? ? ?]|]; try discriminate.
      destruct (N.eqb (e_sid C e) s) eqn:Es; [|discriminate]. apply N.eqb_eq in Es.
      assert (Hin_e : In e (subscribers C st)) by (eapply nth_error_In; eassumption).
      destruct (cv (e_conv C e) m) as [r|].
      + destruct (a_alive (actors C st (e_actor C e))) eqn:Al; inversion H; subst; clear H.
        * destruct I as [Ind Ie Ic It]. unfold ids, batch_rest in *. rewrite Dp in *.
          constructor; unfold ids, batch_rest; cbn; auto.
          intros a' s' r' Hin. unfold updf in Hin. destruct (N.eqb a' (e_actor C e)) eqn:Ea.
          -- apply N.eqb_eq in Ea. subst a'. cbn in Hin.
             apply in_app_or in Hin. destruct Hin as [Hin|Hin].
             ++ apply in_app_or in Hin. destruct Hin as [Hin|[Hin|[]]].
                ** apply (It _ s' r'). apply in_or_app. left. assumption.
                ** inversion Hin; subst. exists (e_conv C e). apply Ie. assumption.
             ++ apply (It _ s' r'). apply in_or_app. right. assumption.
          -- apply (It a' s' r'). assumption.
        * destruct I as [Ind Ie Ic It]. unfold ids, batch_rest in *. rewrite Dp in *.
          constructor; unfold ids, batch_rest; cbn; auto.
          -- eapply sublist_NoDup; [|exact Ind]. apply sublist_app; [|apply sublist_refl].
             unfold sids. apply sublist_map. apply remove_nth_sublist.
          -- intros e' Hin. apply Ie. eapply sublist_In; [apply remove_nth_sublist|exact Hin].
      + inversion H; subst; clear H.
        eapply winv_frame; [exact I|reflexivity|unfold batch_rest; cbn; rewrite Dp; reflexivity|reflexivity|reflexivity|auto].
    - (* LApply *)
      destruct (dp C st) as [|a|a b si|a b si mi|b] eqn:Dp; try discriminate.
      destruct (nth_error (batch C st) b) as [[m|s a c]|] eqn:Nb; try discriminate.
      unfold apply_subscriber in H. destruct ad.
      + destruct (oeqb r None); [|discriminate]. inversion H; subst; clear H.
        eapply winv_apply_append; eassumption.
      + destruct (replace_first C (mkEntry C s a c) (subscribers C st)) as [[l' r']|] eqn:Rf.
        * destruct (oeqb r (Some r')); [|discriminate]. inversion H; subst; clear H.
          destruct (replace_first_spec _ _ _ _ Rf) as (l1 & x & l2 & Hs & -> & _).
          eapply winv_apply_replace; eassumption.
        * destruct (oeqb r None); [|discriminate]. inversion H; subst; clear H.
          eapply winv_apply_append; eassumption.
    - (* LHandle *)
      destruct (a_alive (actors C st a)); [|discriminate].
      destruct (a_started (actors C st a)); [|discriminate]. cbn [andb] in H.
      destruct (a_mbox (actors C st a)) as [|[s' r] q] eqn:M; [discriminate|].
      destruct (N.eqb s' s); [|discriminate]. inversion H; subst; clear H.
      eapply winv_frame; [exact I|reflexivity|reflexivity|reflexivity|reflexivity|].
      intros a' it Hin. cbn in Hin. unfold updf in Hin. destruct (N.eqb a' a) eqn:Ea; [|assumption].
      apply N.eqb_eq in Ea. subst a'. cbn in Hin. rewrite M.
      apply in_app_or in Hin. destruct Hin as [Hin|Hin].
      + right. apply in_or_app. left. assumption.
      + apply in_app_or in Hin. destruct Hin as [Hin|[<-|[]]].
        * right. apply in_or_app. right. assumption.
        * left. reflexivity.
    - (* LStop *)
      destruct (a_alive (actors C st a)); [|discriminate]. inversion H; subst; clear H.
      eapply winv_frame; [exact I|reflexivity|reflexivity|reflexivity|reflexivity|].
      intros a' it Hin. cbn in Hin. unfold updf in Hin. destruct (N.eqb a' a) eqn:Ea; [|assumption].
      apply N.eqb_eq in Ea. subst a'. cbn in Hin. apply in_or_app. right. assumption.
    - (* LStart *)
      destruct (a_alive (actors C st a) && negb (a_started (actors C st a)))%bool; [|discriminate].
      inversion H; subst; clear H.
      eapply winv_frame; [exact I|reflexivity|reflexivity|reflexivity|reflexivity|].
      intros a' it Hin. cbn in Hin. unfold updf in Hin. destruct (N.eqb a' a) eqn:Ea; [|assumption].
      apply N.eqb_eq in Ea. subst a'. cbn in Hin. assumption.
    - (* LClose *)
      destruct (closed C st); [discriminate|]. inversion H; subst; clear H.
      eapply winv_frame; [exact I|reflexivity|reflexivity|reflexivity|reflexivity|auto].
  Qed.

  (* ---------- refinement ---------- *)
  Definition okfor (s a : N) (c : C) (st : state) (ls : list label) : Prop :=
    match decl C st s with
    | Some (a', c') => a' = a /\ c' = c
    | None => forall a' c', conv_of C s ls = Some (a', c') -> a' = a /\ c' = c
    end.

  Notation crun0 := (crun None).

  Lemma absv_eq : forall s a (st st' : state), decl C st' s = decl C st s ->
    backlog C st' s = backlog C st s -> actors C st' a = actors C st a ->
    absv C s a st' = absv C s a st.
  Proof. intros s a st st' Hd Hb Ha. unfold absv. rewrite Hd, Hb, Ha. reflexivity. Qed.

  Lemma backlog_eq : forall s (st st' : state),
    subscribers C st' = subscribers C st -> queue C st' = queue C st ->
    (forall i, index_of C s (subscribers C st) = Some i -> rem_batch C st' i = rem_batch C st i) ->
    after_set C s (batch_rest C st' ++ queue C st) = after_set C s (batch_rest C st ++ queue C st) ->
    backlog C st' s = backlog C st s.
  Proof.
    intros s st st' Hs Hq Hr Ha. unfold backlog. rewrite Hs, Hq.
    destruct (index_of C s (subscribers C st)) as [i|] eqn:E; [rewrite (Hr i eq_refl); reflexivity|].
    rewrite Ha. reflexivity.
  Qed.

  Lemma backlog_ctl : forall s (st st' : state), step st LCtl = Some st' -> backlog C st' s = backlog C st s.
  Proof.
    intros s st st' H. cbn [V2.step] in H.
    destruct (dp C st) as [|a|a b si|a b si mi|b] eqn:Dp; try discriminate.
    - destruct (Nat.ltb a (length (batch C st))) eqn:Lt.
      + pose proof (seg_end_spec (skipn a (batch C st)) a) as (S1 & S2 & S3).
        set (b := seg_end C (skipn a (batch C st)) a) in *.
        assert (Hr : skipn a (batch C st) = seg C (batch C st) a b ++ skipn b (batch C st))
          by (symmetry; apply seg_split; exact S1).
        destruct (Nat.ltb a b) eqn:Lab; inversion H; subst; clear H.
        * apply backlog_eq; try reflexivity.
          -- intros i _. unfold rem_batch. cbn [dp batch set_dp]. rewrite Dp. rewrite Hr, datas_app. reflexivity.
          -- unfold batch_rest. cbn [dp batch set_dp]. rewrite Dp, Hr, <- app_assoc.
             symmetry. apply after_set_data_prefix. exact S3.
        * apply Nat.ltb_ge in Lab. assert (b = a) by lia.
          apply backlog_eq; try reflexivity.
          -- intros i _. unfold rem_batch. cbn [dp batch set_dp]. rewrite Dp. congruence.
          -- unfold batch_rest. cbn [dp batch set_dp]. rewrite Dp. congruence.
      + inversion H; subst; clear H. apply Nat.ltb_ge in Lt.
        apply backlog_eq; try reflexivity.
        * intros i _. unfold rem_batch. cbn [dp batch set_dp]. rewrite Dp, (skipn_all_nil _ _ _ Lt). reflexivity.
        * unfold batch_rest. cbn [dp batch set_dp]. rewrite Dp, (skipn_all_nil _ _ _ Lt). reflexivity.
    - destruct (Nat.ltb si (length (subscribers C st))) eqn:Lt; inversion H; subst; clear H.
      + apply backlog_eq; try reflexivity.
        * intros i _. unfold rem_batch. cbn [dp batch set_dp]. rewrite Dp.
          destruct (Nat.ltb i si); [reflexivity|]. destruct (Nat.eqb i si); reflexivity.
        * unfold batch_rest. cbn [dp batch set_dp]. rewrite Dp. reflexivity.
      + apply Nat.ltb_ge in Lt. apply backlog_eq; try reflexivity.
        * intros i Hi. apply index_of_lt in Hi. unfold rem_batch. cbn [dp batch set_dp]. rewrite Dp.
          assert (Nat.ltb i si = true) as -> by (apply Nat.ltb_lt; lia). reflexivity.
        * unfold batch_rest. cbn [dp batch set_dp]. rewrite Dp. reflexivity.
    - destruct (Nat.ltb mi b) eqn:Lt; [discriminate|]. inversion H; subst; clear H.
      apply Nat.ltb_ge in Lt. apply backlog_eq; try reflexivity.
      + intros i _. unfold rem_batch. cbn [dp batch set_dp]. rewrite Dp.
        destruct (Nat.ltb i si) eqn:L1.
        * assert (Nat.ltb i (S si) = true) as -> by (apply Nat.ltb_lt; apply Nat.ltb_lt in L1; lia). reflexivity.
        * destruct (Nat.eqb i si) eqn:L2.
          -- apply Nat.eqb_eq in L2. subst i.
             assert (Nat.ltb si (S si) = true) as -> by (apply Nat.ltb_lt; lia).
             rewrite (seg_empty _ _ _ Lt). reflexivity.
          -- apply Nat.ltb_ge in L1. apply Nat.eqb_neq in L2.
             assert (Nat.ltb i (S si) = false) as -> by (apply Nat.ltb_ge; lia). reflexivity.
      + unfold batch_rest. cbn [dp batch set_dp]. rewrite Dp. reflexivity.
    - destruct (Nat.eqb b (length (batch C st))) eqn:Eb; [|discriminate]. inversion H; subst; clear H.
      apply Nat.eqb_eq in Eb. apply backlog_eq; try reflexivity.
      + intros i _. unfold rem_batch. cbn [dp batch set_dp]. rewrite Dp, Eb, skipn_all. reflexivity.
      + unfold batch_rest. cbn [dp batch set_dp]. rewrite Dp, Eb, skipn_all. reflexivity.
  Qed.

  Lemma not_in_ids : forall (st : state) s, WInv st -> decl C st s = None -> ~ In s (ids st).
  Proof. intros st s I D Hin. exact (in_ids_decl st s I Hin D). Qed.

  Definition has (s : N) (l : list entry) : bool :=
    match index_of C s l with Some _ => true | None => false end.

  Lemma has_in : forall s l, has s l = true <-> In s (sids l).
  Proof.
    intros s l. unfold has. destruct (index_of C s l) as [i|] eqn:E.
    - split; [intros _; eapply index_of_some_in; eassumption|reflexivity].
    - split; [discriminate|]. intros Hin. destruct (index_of C s l) eqn:E2; [discriminate|].
      exfalso. revert E2. clear E. induction l as [|e t IH]; [destruct Hin|].
      cbn in *. destruct (N.eqb (e_sid C e) s) eqn:Es; [discriminate|].
      destruct Hin as [Hin|Hin]; [apply N.eqb_neq in Es; contradiction|].
      destruct (index_of C s t); [discriminate|]. intros _. apply IH; auto.
  Qed.

  Lemma backlog_before_apply : forall (st : state) b s0 a0 c0 s,
    dp C st = DApply b -> nth_error (batch C st) b = Some (SetSub s0 a0 c0) ->
    backlog C st s =
    if has s (subscribers C st)
    then Some (datas C (skipn (S b) (batch C st)) ++ datas C (queue C st))
    else after_set C s (SetSub s0 a0 c0 :: skipn (S b) (batch C st) ++ queue C st).
  Proof.
    intros st b s0 a0 c0 s Dp Nb. pose proof (skipn_nth_cons2 _ _ _ _ Nb) as Hr.
    unfold backlog, has, rem_batch, batch_rest. rewrite Dp, Hr.
    destruct (index_of C s (subscribers C st)); [reflexivity|].
    cbn [app]. destruct (after_set C s (SetSub s0 a0 c0 :: skipn (S b) (batch C st) ++ queue C st)); reflexivity.
  Qed.

  Lemma backlog_after_apply : forall (st : state) b l' s,
    backlog C (mkSt C (queue C st) (batch C st) (DSeg (S b)) l' (actors C st) (decl C st) (closed C st)) s =
    if has s l'
    then Some (datas C (skipn (S b) (batch C st)) ++ datas C (queue C st))
    else after_set C s (skipn (S b) (batch C st) ++ queue C st).
  Proof.
    intros st b l' s. unfold backlog, has, rem_batch, batch_rest. cbn [subscribers queue dp batch].
    destruct (index_of C s l'); [reflexivity|].
    destruct (after_set C s (skipn (S b) (batch C st) ++ queue C st)); reflexivity.
  Qed.

  Lemma has_false : forall s l, ~ In s (sids l) -> has s l = false.
  Proof. intros s l H. destruct (has s l) eqn:E; [|reflexivity]. apply has_in in E. contradiction. Qed.
  Lemma has_true : forall s l, In s (sids l) -> has s l = true.
  Proof. intros s l H. apply has_in. exact H. Qed.

  Lemma sim_step : forall s a c (st st' : state) l t,
    WInv st -> okfor s a c st (l :: t) -> step st l = Some st' ->
    crun0 (cv c) (absv C s a st) (proj C s a l) = Some (absv C s a st') /\ okfor s a c st' t.
  Proof.
    intros s a c st st' l t I Ok H.
    destruct l as [m|s' a' c'|n| |s'|r|a' s'|a'|a'| ].
    - (* LPublish *)
      cbn [V2.step] in H. destruct (closed C st) eqn:Cl; [discriminate|].
      inversion H; subst; clear H. split; [|exact Ok].
      cbn [proj crun]. unfold absv. cbn [decl actors].
      destruct (decl C st s) as [[a0 c0]|]; [|reflexivity].
      assert (Hb : backlog C (mkSt C (queue C st ++ [Data m]) (batch C st) (dp C st) (subscribers C st) (actors C st) (decl C st) false) s
                   = option_map (fun b => b ++ [m]) (backlog C st s)).
      { unfold backlog, rem_batch, batch_rest. cbn [subscribers queue dp batch].
        destruct (index_of C s (subscribers C st)).
        - rewrite datas_app, app_assoc. reflexivity.
        - rewrite app_assoc. destruct (after_set C s (batch_rest C st ++ queue C st)) as [d|] eqn:E;
            unfold batch_rest in E; rewrite ?E.
          + rewrite (after_set_app_l _ _ [Data m] _ E). reflexivity.
          + rewrite (after_set_app_r _ _ [Data m] E). reflexivity. }
      rewrite Hb. destruct (backlog C st s); reflexivity.
    - (* LSubscribe *)
      cbn [V2.step] in H. destruct (closed C st) eqn:Cl; [discriminate|].
      destruct (decl C st s') eqn:D; [discriminate|]. inversion H; subst; clear H.
      cbn [proj]. destruct (N.eqb s' s) eqn:Es.
      + apply N.eqb_eq in Es. subst s'. unfold okfor in Ok. rewrite D in Ok. cbn in Ok. rewrite N.eqb_refl in Ok.
        destruct (Ok a' c' eq_refl) as [-> ->].
        pose proof (not_in_ids st s I D) as Hn. unfold ids in Hn.
        split.
        * cbn [crun]. unfold absv. rewrite D. cbn [decl actors]. rewrite updf_same2.
          unfold backlog. cbn [subscribers queue]. rewrite index_of_none.
          2:{ intros Hin. apply Hn. apply in_or_app. left. exact Hin. }
          assert (Hb : batch_rest C (mkSt C (queue C st ++ [SetSub s a c]) (batch C st) (dp C st) (subscribers C st)
                         (actors C st) (updf (decl C st) s (Some (a, c))) false) = batch_rest C st) by reflexivity.
          rewrite Hb, app_assoc, after_set_app_r.
          2:{ apply after_set_none. rewrite set_ids_app. intros Hin. apply Hn. apply in_or_app. right. exact Hin. }
          cbn. rewrite N.eqb_refl. reflexivity.
        * unfold okfor. cbn. rewrite updf_same2. split; reflexivity.
      + assert (Hne : N.eqb s s' = false) by (apply N.eqb_neq; apply N.eqb_neq in Es; congruence).
        split.
        * cbn [crun]. f_equal. symmetry. apply absv_eq; cbn [decl actors]; [apply updf_other2; exact Hne| |reflexivity].
          unfold backlog, rem_batch, batch_rest. cbn [subscribers queue dp batch].
          destruct (index_of C s (subscribers C st)).
          -- rewrite datas_app. cbn. rewrite app_nil_r. reflexivity.
          -- rewrite app_assoc. destruct (after_set C s (batch_rest C st ++ queue C st)) as [d|] eqn:E;
               unfold batch_rest in E; rewrite ?E.
             ++ rewrite (after_set_app_l _ _ [SetSub s' a' c'] _ E). cbn. rewrite app_nil_r. reflexivity.
             ++ rewrite (after_set_app_r _ _ [SetSub s' a' c'] E). cbn. rewrite Es. reflexivity.
        * unfold okfor in *. cbn. rewrite (updf_other2 _ _ _ _ _ Hne).
          destruct (decl C st s); [exact Ok|]. cbn in Ok. rewrite Es in Ok. exact Ok.
    - (* LTake *)
      cbn [V2.step] in H. destruct (dp C st) eqn:Dp; try discriminate.
      match type of H with (if ?bb then _ else _) = _ => destruct bb; [|discriminate] end.
      inversion H; subst; clear H. split; [|exact Ok].
      cbn [proj crun]. f_equal. symmetry. apply absv_eq; try reflexivity.
      unfold backlog, rem_batch, batch_rest. cbn [subscribers queue dp batch]. rewrite Dp.
      destruct (index_of C s (subscribers C st)).
      + cbn [skipn app]. rewrite <- datas_app, firstn_skipn. reflexivity.
      + cbn [skipn app]. rewrite firstn_skipn. reflexivity.
    - (* LCtl *)
      split.
      + cbn [proj crun]. f_equal. symmetry. apply absv_eq.
        * cbn [V2.step] in H. destruct (dp C st) as [|x|x y z|x y z w|x]; try discriminate;
            repeat match type of H with (if ?bb then _ else _) = _ => destruct bb end;
            try discriminate; inversion H; reflexivity.
        * apply backlog_ctl. exact H.
        * cbn [V2.step] in H. destruct (dp C st) as [|x|x y z|x y z w|x]; try discriminate;
            repeat match type of H with (if ?bb then _ else _) = _ => destruct bb end;
            try discriminate; inversion H; reflexivity.
      + assert (Hd : decl C st' = decl C st).
        { cbn [V2.step] in H. destruct (dp C st) as [|x|x y z|x y z w|x]; try discriminate;
            repeat match type of H with (if ?bb then _ else _) = _ => destruct bb end;
            try discriminate; inversion H; reflexivity. }
        unfold okfor in *. rewrite Hd. exact Ok.
    - (* LSend *)
      cbn [V2.step] in H.
      destruct (dp C st) as [|x|x y z|x b si mi|x] eqn:Dp; try discriminate.
      destruct (Nat.ltb mi b) eqn:Lt; [|discriminate]. apply Nat.ltb_lt in Lt.
      destruct (nth_error (subscribers C st) si) as [e|] eqn:Ne; [|discriminate].
      destruct (nth_error (batch C st) mi) as [[m|? ? ?]|] eqn:Nb; try discriminate.
      destruct (N.eqb (e_sid C e) s') eqn:Es'; [|discriminate]. apply N.eqb_eq in Es'.
      assert (Hin_e : In e (subscribers C st)) by (eapply nth_error_In; eassumption).
      pose proof (w_nd _ I) as Hnd. unfold ids in Hnd.
      assert (Hnds : NoDup (sids (subscribers C st))).
      { eapply sublist_NoDup; [apply sublist_app_r|exact Hnd]. }
      pose proof (index_of_nth s' _ si e Hnds Ne Es') as Hidx.
      pose proof (seg_cons (batch C st) mi b _ Nb Lt) as Hseg.
      cbn [proj]. destruct (N.eqb s' s) eqn:Es.
      + apply N.eqb_eq in Es. rewrite Es in *. clear Es. pose proof (w_e _ I e Hin_e) as De. rewrite Es' in De.
        pose proof Ok as Ok0. unfold okfor in Ok0. rewrite De in Ok0. destruct Ok0 as [Ha Hc].
        assert (A0 : absv C s a st = mkCore AIdle (m :: datas C (seg C (batch C st) (S mi) b) ++ datas C (skipn b (batch C st)) ++ datas C (queue C st))
                       (tagged s (a_mbox (actors C st a))) (tagged s (a_got (actors C st a))) (a_alive (actors C st a))).
        { unfold absv. rewrite De. unfold backlog. rewrite Hidx. unfold rem_batch. rewrite Dp.
          assert (Nat.ltb si si = false) as -> by (apply Nat.ltb_ge; lia). rewrite Nat.eqb_refl, Hseg.
          cbn [datas app]. rewrite <- app_assoc. reflexivity. }
        rewrite A0. cbn [crun cstep c_pc c_backlog c_mbox c_got c_alive lagging].
        subst c.
        destruct (cv (e_conv C e) m) as [r|] eqn:Cv.
        * rewrite Ha in H. destruct (a_alive (actors C st a)) eqn:Al; injection H as <-.
          -- split; [|unfold okfor in *; cbn [decl]; exact Ok].
             f_equal. unfold absv. cbn [decl actors]. rewrite De, updf_same2. cbn [a_mbox a_got a_alive].
             unfold backlog. cbn [subscribers queue]. rewrite Hidx. unfold rem_batch. cbn [dp batch].
             assert (Nat.ltb si si = false) as -> by (apply Nat.ltb_ge; lia). rewrite Nat.eqb_refl.
             rewrite tagged_app2, tagged_one_same2, <- app_assoc. reflexivity.
          -- split; [|unfold okfor in *; cbn [decl]; exact Ok].
             f_equal. unfold absv. cbn [decl actors]. rewrite De, Al.
             unfold backlog. cbn [subscribers queue]. rewrite (index_of_remove s _ si Hnds), Hidx, Nat.eqb_refl.
             assert (Hrest : batch_rest C (mkSt C (queue C st) (batch C st) (DSub x b si) (remove_nth si (subscribers C st)) (actors C st) (decl C st) (closed C st))
                             = batch_rest C st) by (unfold batch_rest; cbn [dp batch]; rewrite Dp; reflexivity).
             rewrite Hrest, after_set_none; [reflexivity|].
             rewrite set_ids_app. intros Hin.
             assert (Hs : In s (sids (subscribers C st))) by (rewrite <- Es'; unfold sids; apply in_map; exact Hin_e).
             clear - Hnd Hin Hs. induction (sids (subscribers C st)) as [|y l IH]; [destruct Hs|].
             cbn in Hnd. inversion Hnd; subst. destruct Hs as [->|Hs].
             ++ apply H1. apply in_or_app. right. exact Hin.
             ++ apply IH; assumption.
        * injection H as <-. split; [|unfold okfor in *; cbn [decl]; exact Ok].
          f_equal. unfold absv, set_dp. cbn [decl actors]. rewrite De.
          unfold backlog. cbn [subscribers queue]. rewrite Hidx. unfold rem_batch. cbn [dp batch].
          assert (Nat.ltb si si = false) as -> by (apply Nat.ltb_ge; lia). rewrite Nat.eqb_refl.
          rewrite <- app_assoc. reflexivity.
      + (* a send to another subscriber *)
        assert (Hne : s' <> s) by (apply N.eqb_neq; exact Es).
        assert (Hi : forall i, index_of C s (subscribers C st) = Some i -> i <> si).
        { intros i Hi ->. pose proof (index_of_some_in _ _ _ Hi) as Hs.
          rewrite (index_of_nth s' _ si e Hnds Ne Es') in Hidx.
          assert (index_of C s (subscribers C st) = index_of C s' (subscribers C st) -> False).
          { rewrite Hi, (index_of_nth s' _ si e Hnds Ne Es'). intros _.
            clear - Hi Ne Es' Hne. revert si Hi Ne. induction (subscribers C st) as [|y l IH]; intros si Hi Ne; [destruct si; discriminate|].
            cbn in Hi. destruct (N.eqb (e_sid C y) s) eqn:E.
            - inversion Hi; subst. cbn in Ne. inversion Ne; subst. apply N.eqb_eq in E. congruence.
            - destruct (index_of C s l) eqn:E2; [|discriminate]. inversion Hi; subst. cbn in Ne. eapply IH; eauto. }
          apply H0. rewrite Hi, (index_of_nth s' _ si e Hnds Ne Es'). reflexivity. }
        assert (Hsame : forall mi', backlog C (mkSt C (queue C st) (batch C st) (DMsg x b si mi') (subscribers C st) (actors C st) (decl C st) (closed C st)) s
                        = backlog C st s).
        { intros mi'. apply backlog_eq; try reflexivity.
          - intros i Hidx'. specialize (Hi i Hidx'). unfold rem_batch. cbn [dp batch]. rewrite Dp.
            destruct (Nat.ltb i si); [reflexivity|].
            assert (Nat.eqb i si = false) as -> by (apply Nat.eqb_neq; exact Hi). reflexivity.
          - unfold batch_rest. cbn [dp batch]. rewrite Dp. reflexivity. }
        destruct (cv (e_conv C e) m) as [r|] eqn:Cv.
        * destruct (a_alive (actors C st (e_actor C e))) eqn:Al; injection H as <-.
          -- split; [|unfold okfor in *; cbn [decl]; exact Ok].
             cbn [crun]. f_equal. unfold absv. cbn [decl].
             match goal with |- context [backlog C (mkSt C ?q ?bt ?d ?su ?ac ?de ?cl) s] =>
               assert (Hb : backlog C (mkSt C q bt d su ac de cl) s = backlog C st s) by (apply (Hsame (S mi))) end.
             rewrite Hb. cbn [actors]. unfold updf. destruct (N.eqb a (e_actor C e)) eqn:Ea; [|reflexivity].
             apply N.eqb_eq in Ea. subst a. cbn [a_mbox a_got a_alive].
             rewrite tagged_app2, (tagged_one_other2 _ _ _ Es), app_nil_r, Al.
             destruct (actors C st (e_actor C e)); reflexivity.
          -- split; [|unfold okfor in *; cbn [decl]; exact Ok].
             cbn [crun]. f_equal. symmetry. apply absv_eq; try reflexivity.
             unfold backlog. cbn [subscribers queue]. rewrite (index_of_remove s _ si Hnds).
             destruct (index_of C s (subscribers C st)) as [i|] eqn:Ei.
             ++ specialize (Hi i eq_refl). assert (Nat.eqb i si = false) as -> by (apply Nat.eqb_neq; exact Hi).
                unfold rem_batch. cbn [dp batch]. rewrite Dp.
                destruct (Nat.ltb i si) eqn:L1.
                ** rewrite L1. reflexivity.
                ** apply Nat.ltb_ge in L1.
                   assert (Nat.ltb (pred i) si = false) as -> by (apply Nat.ltb_ge; lia).
                   assert (Nat.eqb i si = false) as -> by (apply Nat.eqb_neq; exact Hi). reflexivity.
             ++ unfold batch_rest. cbn [dp batch]. rewrite Dp. reflexivity.
        * injection H as <-. split; [|unfold okfor in *; cbn [decl]; exact Ok].
          cbn [crun]. f_equal. symmetry. apply absv_eq; try reflexivity. apply Hsame.
    - (* LApply *)
      cbn [V2.step] in H.
      destruct (dp C st) as [|x|x y z|x y z w|b] eqn:Dp; try discriminate.
      destruct (nth_error (batch C st) b) as [[m|s0 a0 c0]|] eqn:Nb; try discriminate.
      pose proof (skipn_nth_cons2 _ _ _ _ Nb) as Hr.
      pose proof (w_nd _ I) as Hnd. unfold ids, batch_rest in Hnd. rewrite Dp, Hr in Hnd. cbn [set_ids] in Hnd.
      assert (Hs0 : ~ In s0 (sids (subscribers C st))).
      { intros Hin. clear - Hnd Hin. induction (sids (subscribers C st)) as [|y l IH]; [destruct Hin|].
        cbn in Hnd. inversion Hnd; subst. destruct Hin as [->|Hin].
        - apply H1. apply in_or_app. right. left. reflexivity.
        - apply IH; assumption. }
      assert (Happ : crun0 (cv c) (absv C s a st) [] =
                     Some (absv C s a (mkSt C (queue C st) (batch C st) (DSeg (S b))
                                         (subscribers C st ++ [mkEntry C s0 a0 c0]) (actors C st) (decl C st) (closed C st)))).
      { cbn [crun]. f_equal. symmetry. apply absv_eq; try reflexivity.
        rewrite (backlog_before_apply st b s0 a0 c0 s Dp Nb), backlog_after_apply.
        destruct (N.eqb s0 s) eqn:E0.
        - apply N.eqb_eq in E0. subst s0. rewrite (has_false _ _ Hs0), has_true.
          + cbn [after_set]. rewrite N.eqb_refl, datas_app. reflexivity.
          + unfold sids. rewrite map_app. apply in_or_app. right. left. reflexivity.
        - assert (Hh : has s (subscribers C st ++ [mkEntry C s0 a0 c0]) = has s (subscribers C st)).
          { unfold has. rewrite index_of_app_one. cbn [e_sid]. rewrite E0.
            destruct (index_of C s (subscribers C st)); reflexivity. }
          rewrite Hh. destruct (has s (subscribers C st)); [reflexivity|].
          cbn [after_set]. rewrite E0. reflexivity. }
      unfold apply_subscriber in H. destruct ad.
      + destruct r as [r|]; [discriminate|]. cbn in H. inversion H; subst; clear H.
        split; [|unfold okfor in *; cbn [decl]; exact Ok]. exact Happ.
      + destruct (replace_first C (mkEntry C s0 a0 c0) (subscribers C st)) as [[l' r']|] eqn:Rf.
        2:{ destruct r as [r|]; [discriminate|]. cbn in H. inversion H; subst; clear H.
            split; [|unfold okfor in *; cbn [decl]; exact Ok]. exact Happ. }
        destruct r as [r|]; [|discriminate]. cbn [oeqb] in H.
        destruct (N.eqb r r') eqn:Err; [|discriminate]. apply N.eqb_eq in Err. subst r'.
        inversion H; subst; clear H.
        split; [|unfold okfor in *; cbn [decl]; exact Ok].
        destruct (replace_first_spec _ _ _ _ Rf) as (l1 & x & l2 & Hs & -> & Hrx).
        assert (Hr_in : In r (sids (subscribers C st))).
        { rewrite Hs. unfold sids. rewrite map_app. apply in_or_app. right. left. symmetry. exact Hrx. }
        assert (Hne : r <> s0) by (intros ->; contradiction).
        assert (Hnds : NoDup (sids (subscribers C st))).
        { eapply sublist_NoDup; [apply sublist_app_r|exact Hnd]. }
        assert (Hr_rest : ~ In r (set_ids (skipn (S b) (batch C st) ++ queue C st))).
        { rewrite set_ids_app. intros Hin. clear - Hnd Hin Hr_in.
          induction (sids (subscribers C st)) as [|y l IH]; [destruct Hr_in|].
          cbn in Hnd. inversion Hnd; subst. destruct Hr_in as [->|Hr_in].
          - apply H1. apply in_or_app. right. right. exact Hin.
          - apply IH; assumption. }
        assert (Hsplit : sids (subscribers C st) = sids l1 ++ r :: sids l2).
        { rewrite Hs. unfold sids. rewrite map_app. cbn. rewrite Hrx. reflexivity. }
        assert (Hsplit' : sids (l1 ++ mkEntry C s0 a0 c0 :: l2) = sids l1 ++ s0 :: sids l2).
        { unfold sids. rewrite map_app. reflexivity. }
        rewrite Hsplit in Hnds. pose proof (NoDup_remove_2 _ _ _ Hnds) as Hr_not.
        cbn [proj oeqb].
        rewrite (backlog_before_apply st b s0 a0 c0 s Dp Nb) || idtac.
        destruct (N.eqb r s) eqn:Ers.
        * (* s is the replaced subscription: the port drops it *)
          apply N.eqb_eq in Ers. subst s.
          assert (Dr : decl C st r <> None).
          { apply (in_ids_decl st r I). unfold ids. apply in_or_app. left. exact Hr_in. }
          unfold absv at 1. destruct (decl C st r) as [pr|] eqn:Dd; [|congruence].
          rewrite (backlog_before_apply st b s0 a0 c0 r Dp Nb), (has_true _ _ Hr_in).
          cbn [crun cstep c_pc c_backlog c_mbox c_got c_alive].
          f_equal. unfold absv. cbn [decl actors]. rewrite Dd, backlog_after_apply, has_false.
          -- rewrite (after_set_none _ _ Hr_rest). reflexivity.
          -- rewrite Hsplit'. intros Hin. apply in_app_or in Hin. destruct Hin as [Hin|[Hin|Hin]].
             ++ apply Hr_not. apply in_or_app. left. exact Hin.
             ++ apply Hne. symmetry. exact Hin.
             ++ apply Hr_not. apply in_or_app. right. exact Hin.
        * cbn [crun]. f_equal. symmetry. apply absv_eq; try reflexivity.
          rewrite (backlog_before_apply st b s0 a0 c0 s Dp Nb), backlog_after_apply.
          destruct (N.eqb s0 s) eqn:E0.
          -- apply N.eqb_eq in E0. subst s0. rewrite (has_false _ _ Hs0), has_true.
             ++ cbn [after_set]. rewrite N.eqb_refl, datas_app. reflexivity.
             ++ rewrite Hsplit'. apply in_or_app. right. left. reflexivity.
          -- assert (Hh : has s (l1 ++ mkEntry C s0 a0 c0 :: l2) = has s (subscribers C st)).
             { apply N.eqb_neq in E0. apply N.eqb_neq in Ers.
               destruct (has s (subscribers C st)) eqn:Hb.
               - apply has_true. apply has_in in Hb. rewrite Hsplit in Hb. rewrite Hsplit'.
                 apply in_app_or in Hb. apply in_or_app. destruct Hb as [Hb|[Hb|Hb]]; [left; exact Hb|contradiction|right; right; exact Hb].
               - apply has_false. intros Hin. rewrite Hsplit' in Hin.
                 assert (In s (sids (subscribers C st))).
                 { rewrite Hsplit. apply in_app_or in Hin. apply in_or_app.
                   destruct Hin as [Hin|[Hin|Hin]]; [left; exact Hin|contradiction|right; right; exact Hin]. }
                 apply has_true in H. congruence. }
             rewrite Hh. destruct (has s (subscribers C st)); [reflexivity|].
             cbn [after_set]. rewrite E0. reflexivity.
    - (* LHandle *)
      cbn [V2.step] in H.
      destruct (a_alive (actors C st a')) eqn:Al; [|discriminate].
      destruct (a_started (actors C st a')) eqn:Sd; [|discriminate]. cbn [andb] in H.
      destruct (a_mbox (actors C st a')) as [|[s'' r] q] eqn:M; [discriminate|].
      destruct (N.eqb s'' s') eqn:Ess; [|discriminate]. apply N.eqb_eq in Ess. subst s''.
      inversion H; subst; clear H.
      split; [|unfold okfor in *; cbn [decl]; exact Ok].
      cbn [proj]. destruct (N.eqb s' s) eqn:Es.
      + apply N.eqb_eq in Es. subst s'.
        destruct (w_tag _ I a' s r) as (c1 & D1). { rewrite M. left. reflexivity. }
        unfold okfor in Ok. rewrite D1 in Ok. destruct Ok as [Ha _]. subst a'.
        cbn [crun]. unfold absv. cbn [decl actors]. rewrite D1, updf_same2. cbn [a_mbox a_got a_alive].
        assert (Hb : backlog C (mkSt C (queue C st) (batch C st) (dp C st) (subscribers C st)
                       (updf (actors C st) a (mkActor true true q (a_got (actors C st a) ++ [(s, r)]))) (decl C st) (closed C st)) s
                     = backlog C st s) by reflexivity.
        rewrite Hb, Al, M, tagged_cons_same2, tagged_app2, tagged_one_same2.
        destruct (backlog C st s); reflexivity.
      + cbn [crun]. f_equal. unfold absv. cbn [decl actors].
        assert (Hb : backlog C (mkSt C (queue C st) (batch C st) (dp C st) (subscribers C st)
                       (updf (actors C st) a' (mkActor true true q (a_got (actors C st a') ++ [(s', r)]))) (decl C st) (closed C st)) s
                     = backlog C st s) by reflexivity.
        rewrite Hb. unfold updf. destruct (N.eqb a a') eqn:Ea; [|reflexivity].
        apply N.eqb_eq in Ea. subst a'. cbn [a_mbox a_got a_alive].
        rewrite M, Al, (tagged_cons_other2 _ _ _ _ Es), tagged_app2, (tagged_one_other2 _ _ _ Es), app_nil_r.
        reflexivity.
    - (* LStop *)
      cbn [V2.step] in H.
      destruct (a_alive (actors C st a')) eqn:Al; [|discriminate]. inversion H; subst; clear H.
      split; [|unfold okfor in *; cbn [decl]; exact Ok].
      cbn [proj]. destruct (N.eqb a' a) eqn:Ea.
      + apply N.eqb_eq in Ea. subst a'. cbn [crun]. unfold absv. cbn [decl actors]. rewrite updf_same2.
        cbn [a_mbox a_got a_alive].
        assert (Hb : backlog C (mkSt C (queue C st) (batch C st) (dp C st) (subscribers C st)
                       (updf (actors C st) a (mkActor false (a_started (actors C st a)) [] (a_got (actors C st a)))) (decl C st) (closed C st)) s
                     = backlog C st s) by reflexivity.
        rewrite Hb, Al. destruct (decl C st s); [destruct (backlog C st s)|]; reflexivity.
      + cbn [crun]. f_equal. symmetry. apply absv_eq; try reflexivity.
        cbn [actors]. apply updf_other2. apply N.eqb_neq. apply N.eqb_neq in Ea. congruence.
    - (* LStart *)
      cbn [V2.step] in H.
      destruct (a_alive (actors C st a')) eqn:Al; [|discriminate].
      destruct (a_started (actors C st a')) eqn:Sd; [discriminate|]. cbn in H.
      inversion H; subst; clear H.
      split; [|unfold okfor in *; cbn [decl]; exact Ok].
      cbn [proj crun]. f_equal. unfold absv. cbn [decl actors].
      match goal with |- context [backlog C (mkSt C ?q ?bt ?d ?su ?ac ?de ?cl) s] =>
        assert (Hb : backlog C (mkSt C q bt d su ac de cl) s = backlog C st s) by reflexivity end.
      rewrite Hb. unfold updf. destruct (N.eqb a a') eqn:Ea; [|reflexivity].
      apply N.eqb_eq in Ea. subst a'. cbn [a_mbox a_got a_alive]. rewrite Al. reflexivity.
    - (* LClose *)
      cbn [V2.step] in H. destruct (closed C st); [discriminate|]. inversion H; subst; clear H.
      split; [|unfold okfor in *; cbn [decl]; exact Ok].
      cbn [proj crun]. f_equal.
  Qed.

  Lemma sim_run : forall s a c ls (st st' : state),
    WInv st -> okfor s a c st ls -> run st ls = Some st' ->
    crun0 (cv c) (absv C s a st) (projs C s a ls) = Some (absv C s a st') /\ WInv st'.
  Proof.
    intros s a c. induction ls as [|l t IH]; intros st st' I Ok H; cbn in H.
    - inversion H; subst. split; [reflexivity|assumption].
    - destruct (V2.step C cv ad st l) as [st1|] eqn:E; [|discriminate].
      destruct (sim_step s a c st st1 l t I Ok E) as [S1 Ok1].
      pose proof (winv_step _ _ _ I E) as I1.
      destruct (IH _ _ I1 Ok1 H) as [S2 I2]. split; [|assumption].
      unfold projs. cbn [flat_map]. rewrite crun_app, S1. exact S2.
  Qed.

  Theorem v2_refines : forall ls st s a c, run (init C) ls = Some st ->
    conv_of C s ls = Some (a, c) ->
    crun0 (cv c) ainit (projs C s a ls) = Some (absv C s a st).
  Proof.
    intros ls st s a c H Hc.
    change ainit with (absv C s a (init C)).
    apply (sim_run s a c ls (init C) st winv_init); [|exact H].
    unfold okfor. cbn. intros a' c' E. rewrite Hc in E. inversion E; subst. split; reflexivity.
  Qed.

  Lemma apubs_on_projs : forall s a ls, apubs_on (projs C s a ls) = pubs_on C ls.
  Proof.
    intros s a. induction ls as [|l t IH]; [reflexivity|].
    unfold projs in *. cbn [flat_map]. destruct l; cbn [proj pubs_on]; try exact IH.
    - cbn. rewrite IH. reflexivity.
    - destruct (N.eqb s0 s); cbn; exact IH.
    - destruct (N.eqb s0 s); cbn; exact IH.
    - destruct (oeqb r (Some s)); cbn; exact IH.
    - destruct (N.eqb s0 s); cbn; exact IH.
    - destruct (N.eqb a0 a); cbn; exact IH.
  Qed.

  Lemma apubs_projs : forall s a ls, apubs (projs C s a ls) = pubs_after C s ls.
  Proof.
    intros s a. induction ls as [|l t IH]; [reflexivity|].
    unfold projs in *. cbn [flat_map]. destruct l; cbn [proj pubs_after]; try exact IH.
    - destruct (N.eqb s0 s); cbn; [apply apubs_on_projs|exact IH].
    - destruct (N.eqb s0 s); cbn; exact IH.
    - destruct (oeqb r (Some s)); cbn; exact IH.
    - destruct (N.eqb s0 s); cbn; exact IH.
    - destruct (N.eqb a0 a); cbn; exact IH.
  Qed.

  Lemma received_absv : forall s a (st : state), received C st s a = c_got (absv C s a st).
  Proof.
    intros s a st. unfold received, absv.
    destruct (decl C st s); [destruct (backlog C st s)|]; reflexivity.
  Qed.

  (* v2: none skipped — received is a prefix of everything owed, and while the port still
     serves the subscription and its actor lives, received ++ mailbox ++ not yet dispatched
     is exactly everything owed *)
  Theorem v2_exact : forall ls st s a c, run (init C) ls = Some st ->
    conv_of C s ls = Some (a, c) ->
    prefix (received C st s a) (filter_map (cv c) (pubs_after C s ls))
    /\ (let x := absv C s a st in active x = true -> c_alive x = true ->
        c_got x ++ c_mbox x ++ filter_map (cv c) (held x ++ c_backlog x)
        = filter_map (cv c) (pubs_after C s ls)).
  Proof.
    intros ls st s a c H Hc. pose proof (v2_refines _ _ _ _ _ H Hc) as R.
    rewrite received_absv, <- (apubs_projs s a ls). split.
    - eapply sub1_nocap_prefix; [reflexivity|exact R].
    - intros x A Al. eapply sub1_nocap_exact; [reflexivity|exact R|exact A|exact Al].
  Qed.

  Theorem v2_inert : forall ls1 ls2 st1 st2 s a c,
    run (init C) ls1 = Some st1 -> run (init C) ls2 = Some st2 ->
    conv_of C s ls1 = Some (a, c) -> conv_of C s ls2 = Some (a, c) ->
    projs C s a ls1 = projs C s a ls2 ->
    absv C s a st1 = absv C s a st2.
  Proof.
    intros ls1 ls2 st1 st2 s a c H1 H2 C1 C2 P.
    pose proof (v2_refines _ _ _ _ _ H1 C1) as R1. pose proof (v2_refines _ _ _ _ _ H2 C2) as R2.
    rewrite P in R1. rewrite R1 in R2. inversion R2. reflexivity.
  Qed.
End P.
