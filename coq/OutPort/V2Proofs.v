(* C16 — proofs about the v2 port model V2.v (the public port: allow_dup = true). *)
From Coq Require Import List NArith Bool Arith Lia.
From RV Require Import OutPort.Spec OutPort.SpecProofs OutPort.V2.
Import ListNotations.

Section P.
  Variable C : Type.
  Variable cv : C -> N -> option N.

  Notation state := (state C).
  Notation step := (step C cv true).
  Notation run := (run C cv true).
  Notation label := (label C).

  Lemma publish_nonblocking : forall (st : state) m,
    exists st', step st (LPublish m) = Some st'
      /\ queue C st' = queue C st ++ [Data m] /\ batch C st' = batch C st /\ dp C st' = dp C st
      /\ subscribers C st' = subscribers C st /\ actors C st' = actors C st.
  Proof. intros st m. eexists. split; [reflexivity|]. cbn. repeat split; reflexivity. Qed.
End P.
