(* C16 — proofs about the default-port model V1.v. *)
From Coq Require Import List NArith Bool Arith Lia.
From RV Require Import OutPort.Spec OutPort.V1.
Import ListNotations.

Section P.
  Variable C : Type.
  Variable cv : C -> N -> option N.
  Variable cap : nat.

  Lemma publish_nonblocking : forall (st : state C) m,
    exists st', step C cv cap st (LPublish m) = Some st'
      /\ tasks C st' = tasks C st /\ actors C st' = actors C st
      /\ order C st' = order C st /\ handles C st' = handles C st /\ rxcnt C st' = rxcnt C st.
  Proof.
    intros st m. unfold step. destruct (Nat.eqb (rxcnt C st) 0).
    - exists st. repeat split; reflexivity.
    - eexists. split; [reflexivity|]. cbn. repeat split; reflexivity.
  Qed.
End P.
