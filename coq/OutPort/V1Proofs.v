(* C16 — proofs about the default-port model V1.v: state invariant, per-subscription
   refinement to Sub1 (labels of other subscriptions / actors erased), and the
   property theorems obtained through it. *)
From Coq Require Import List NArith Bool Arith Lia.
From RV Require Import OutPort.Spec OutPort.SpecProofs OutPort.V1.
Import ListNotations.

(* ---------- lists ---------- *)
Lemma skipn_skipn' : forall A y x (l : list A), skipn x (skipn y l) = skipn (y + x) l.
Proof.
  induction y as [|y IH]; intros x l; cbn; [reflexivity|].
  destruct l; [destruct x; reflexivity|]. apply IH.
Qed.

Lemma nth_error_skipn' : forall A d i (l : list A), nth_error (skipn d l) i = nth_error l (d + i).
Proof.
  induction d as [|d IH]; intros i l; cbn; [reflexivity|].
  destruct l; [destruct i; reflexivity|]. apply IH.
Qed.

Lemma skipn_nth_cons : forall A n (l : list A) x, nth_error l n = Some x -> skipn n l = x :: skipn (S n) l.
Proof.
  induction n as [|n IH]; intros l x H; destruct l; cbn in *; try discriminate.
  - inversion H; reflexivity.
  - apply IH. assumption.
Qed.

Lemma skipn_app_le : forall A n (l1 l2 : list A), n <= length l1 -> skipn n (l1 ++ l2) = skipn n l1 ++ l2.
Proof.
  intros. rewrite skipn_app. replace (n - length l1) with 0 by lia. reflexivity.
Qed.

Lemma tagged_app : forall s l1 l2, tagged s (l1 ++ l2) = tagged s l1 ++ tagged s l2.
Proof. intros. unfold tagged. rewrite filter_app, map_app. reflexivity. Qed.

Lemma tagged_one_same : forall s r, tagged s [(s, r)] = [r].
Proof. intros. unfold tagged. cbn. rewrite N.eqb_refl. reflexivity. Qed.

Lemma tagged_one_other : forall s s' r, N.eqb s' s = false -> tagged s [(s', r)] = [].
Proof. intros. unfold tagged. cbn. rewrite H. reflexivity. Qed.

Lemma tagged_cons_same : forall s r q, tagged s ((s, r) :: q) = r :: tagged s q.
Proof. intros. unfold tagged. cbn. rewrite N.eqb_refl. reflexivity. Qed.

Lemma tagged_cons_other : forall s s' r q, N.eqb s' s = false -> tagged s ((s', r) :: q) = tagged s q.
Proof. intros. unfold tagged. cbn. rewrite H. reflexivity. Qed.

Arguments tagged : simpl never.

Lemma updf_same : forall A (f : N -> A) k v, updf f k v k = v.
Proof. intros. unfold updf. rewrite N.eqb_refl. reflexivity. Qed.

Lemma updf_other : forall A (f : N -> A) k v x, N.eqb x k = false -> updf f k v x = f x.
Proof. intros. unfold updf. rewrite H. reflexivity. Qed.

Section P.
  Variable C : Type.
  Variable cv : C -> N -> option N.
  Variable cap : nat.

  Notation state := (state C).
  Notation step := (step C cv cap).
  Notation run := (run C cv cap).
  Notation label := (label C).

  Lemma publish_nonblocking : forall (st : state) m, closed C st = false ->
    exists st', step st (LPublish m) = Some st'
      /\ tasks C st' = tasks C st /\ actors C st' = actors C st
      /\ order C st' = order C st /\ handles C st' = handles C st /\ rxcnt C st' = rxcnt C st.
  Proof.
    intros st m Hc. unfold V1.step. rewrite Hc. destruct (Nat.eqb (rxcnt C st) 0).
    - exists st. repeat split; reflexivity.
    - eexists. split; [reflexivity|]. cbn. repeat split; reflexivity.
  Qed.

  Lemma run_app : forall l1 l2 (st : state),
    run st (l1 ++ l2) = match run st l1 with Some st' => run st' l2 | None => None end.
  Proof.
    induction l1 as [|l t IH]; intros l2 st; cbn; [reflexivity|].
    destruct (step st l); [apply IH|reflexivity].
  Qed.

  (* ---------- state invariant ---------- *)
  Definition live (tk : N -> option (sub C)) (s : N) : bool :=
    match tk s with
    | Some sb => match s_pc C sb with PDone => false | _ => true end
    | None => false
    end.

  Record VInv (st : state) : Prop := mkVInv {
    v_len : length (log C st) = tail C st;
    v_ring : ring C st = lastn cap (log C st);
    v_cur : forall s sb, tasks C st s = Some sb -> s_cursor C sb <= tail C st;
    v_tag : forall a s r, In (s, r) (a_mbox (actors C st a) ++ a_got (actors C st a)) ->
              exists sb, tasks C st s = Some sb /\ s_actor C sb = a;
    v_cnt : rxcnt C st = length (filter (live (tasks C st)) (order C st));
    v_ord : forall s sb, tasks C st s = Some sb -> In s (order C st);
    v_ord2 : forall s, In s (order C st) -> tasks C st s <> None;
    v_nd : NoDup (order C st) }.

  Lemma vinv_init : VInv (init C).
  Proof.
    constructor; cbn; auto; try discriminate.
    - intros a s r [].
    - constructor.
  Qed.

  Lemma filter_ext_in' : forall A (p q : A -> bool) l, (forall x, In x l -> p x = q x) -> filter p l = filter q l.
  Proof.
    induction l as [|x t IH]; intros H; cbn; [reflexivity|].
    rewrite (H x (or_introl eq_refl)), IH; [reflexivity|]. intros y Hy. apply H. right. assumption.
  Qed.

  Lemma live_upd_other : forall tk s v x, x <> s -> live (updf tk s v) x = live tk x.
  Proof.
    intros. unfold live. rewrite updf_other; [reflexivity|]. apply N.eqb_neq. assumption.
  Qed.

  (* updating a task without changing its liveness keeps the count *)
  Lemma count_same : forall tk s sb l, live tk s = live (updf tk s (Some sb)) s ->
    length (filter (live (updf tk s (Some sb))) l) = length (filter (live tk) l).
  Proof.
    intros tk s sb l H. f_equal. apply filter_ext_in'. intros x _.
    destruct (N.eq_dec x s) as [->|Hne]; [symmetry; exact H|apply live_upd_other; exact Hne].
  Qed.

  Lemma count_dead : forall tk s sb l, NoDup l -> In s l -> live tk s = true ->
    live (updf tk s (Some sb)) s = false ->
    S (length (filter (live (updf tk s (Some sb))) l)) = length (filter (live tk) l).
  Proof.
    intros tk s sb. induction l as [|x t IH]; intros Hnd Hin Hl Hd; [destruct Hin|].
    inversion Hnd as [|? ? Hnotin Hnd']; subst. cbn.
    destruct (N.eq_dec x s) as [->|Hne].
    - rewrite Hl, Hd. cbn. f_equal. f_equal. apply filter_ext_in'. intros y Hy.
      apply live_upd_other. intros ->. contradiction.
    - destruct Hin as [->|Hin]; [contradiction|].
      rewrite (live_upd_other tk s (Some sb) x Hne).
      destruct (live tk x); cbn; rewrite <- (IH Hnd' Hin Hl Hd); reflexivity.
  Qed.

  Lemma live_pos : forall (st : state) s, VInv st -> live (tasks C st) s = true -> rxcnt C st <> 0.
  Proof.
    intros st s I H. rewrite (v_cnt _ I).
    assert (Hin : In s (filter (live (tasks C st)) (order C st))).
    { apply filter_In. split; [|exact H]. unfold live in H.
      destruct (tasks C st s) as [sb|] eqn:E; [|discriminate]. eapply v_ord; eassumption. }
    destruct (filter (live (tasks C st)) (order C st)); [destruct Hin|cbn; lia].
  Qed.

  Lemma lastn_push : forall (l : list N) m, lastn cap (lastn cap l ++ [m]) = lastn cap (l ++ [m]).
  Proof.
    intros l m. unfold lastn. rewrite !app_length, skipn_length. cbn [length].
    destruct (Nat.le_gt_cases (length l) cap) as [Hle|Hgt].
    - replace (length l - cap) with 0 by lia. rewrite skipn_O.
      replace (length l - 0 + 1 - cap) with (length l + 1 - cap) by lia. reflexivity.
    - remember (length l - cap) as d eqn:Hd.
      replace (length l - d + 1 - cap) with 1 by lia.
      replace (length l + 1 - cap) with (d + 1) by lia.
      rewrite <- (skipn_skipn' _ d 1 (l ++ [m])).
      rewrite (skipn_app_le _ d l [m]) by lia. reflexivity.
  Qed.

  Lemma NoDup_snoc : forall A (l : list A) x, NoDup l -> ~ In x l -> NoDup (l ++ [x]).
  Proof.
    induction l as [|y t IH]; intros x Hnd Hn; cbn.
    - constructor; [intros []|constructor].
    - inversion Hnd; subst. constructor.
      + intros Hin. apply in_app_or in Hin. destruct Hin as [Hin|[->|[]]]; [contradiction|].
        apply Hn. left. reflexivity.
      + apply IH; [assumption|]. intros Hin. apply Hn. right. assumption.
  Qed.

  Lemma vinv_set_task : forall (st : state) s sb sb', VInv st ->
    tasks C st s = Some sb -> s_actor C sb' = s_actor C sb -> s_cursor C sb' <= tail C st ->
    s_pc C sb <> PDone -> s_pc C sb' <> PDone ->
    VInv (set_task C st s sb').
  Proof.
    intros st s sb sb' I E Ha Hc Hp Hp'. destruct I as [Il Ir Ic It In_ Io Io2 Ind].
    constructor; cbn; auto.
    - intros x sbx Ex. unfold updf in Ex. destruct (N.eqb x s); [inversion Ex; subst; assumption|eauto].
    - intros a x r Hin. destruct (It a x r Hin) as (sbx & Ex & Ax).
      unfold updf. destruct (N.eqb x s) eqn:Exs.
      + apply N.eqb_eq in Exs. subst x. rewrite E in Ex. inversion Ex; subst.
        exists sb'. split; [reflexivity|assumption].
      + exists sbx. split; assumption.
    - rewrite In_. symmetry. apply count_same. unfold live. rewrite updf_same, E.
      destruct (s_pc C sb); destruct (s_pc C sb'); congruence.
    - intros x sbx Ex. unfold updf in Ex. destruct (N.eqb x s) eqn:Exs; [|eauto].
      apply N.eqb_eq in Exs. subst x. eauto.
    - intros x Hin. unfold updf. destruct (N.eqb x s); [discriminate|auto].
  Qed.

  Lemma vinv_set_actor_sub : forall (st : state) a al sd mb gt, VInv st ->
    (forall it, In it (mb ++ gt) -> In it (a_mbox (actors C st a) ++ a_got (actors C st a))) ->
    VInv (set_actor C st a (mkActor al sd mb gt)).
  Proof.
    intros st a al sd mb gt I Hsub. destruct I as [Il Ir Ic It In_ Io Io2 Ind].
    constructor; cbn; auto.
    intros a' x r Hin. unfold updf in Hin. destruct (N.eqb a' a) eqn:Ea.
    - apply N.eqb_eq in Ea. subst a'. cbn in Hin. apply (It a x r). apply Hsub. assumption.
    - apply (It a' x r). assumption.
  Qed.

  Lemma vinv_set_actor_push : forall (st : state) s sb r, VInv st ->
    tasks C st s = Some sb ->
    VInv (set_actor C st (s_actor C sb)
            (mkActor true (a_started (actors C st (s_actor C sb))) (a_mbox (actors C st (s_actor C sb)) ++ [(s, r)])
                     (a_got (actors C st (s_actor C sb))))).
  Proof.
    intros st s sb r I E. destruct I as [Il Ir Ic It In_ Io Io2 Ind].
    constructor; cbn; auto.
    intros a' x r' Hin. unfold updf in Hin. destruct (N.eqb a' (s_actor C sb)) eqn:Ea.
    - apply N.eqb_eq in Ea. subst a'. cbn in Hin.
      apply in_app_or in Hin. destruct Hin as [Hin|Hin].
      + apply in_app_or in Hin. destruct Hin as [Hin|[Hin|[]]].
        * apply (It _ x r'). apply in_or_app. left. assumption.
        * inversion Hin; subst. exists sb. split; [assumption|reflexivity].
      + apply (It _ x r'). apply in_or_app. right. assumption.
    - apply (It a' x r'). assumption.
  Qed.

  Lemma vinv_step : forall (st st' : state) l, VInv st -> step st l = Some st' -> VInv st'.
  Proof.
    intros st st' l I H. destruct l; cbn in H.
    - (* LPublish *)
      destruct (closed C st); [discriminate|].
      destruct (Nat.eqb (rxcnt C st) 0); inversion H; subst; clear H; [assumption|].
      destruct I as [Il Ir Ic It In_ Io Io2 Ind]. constructor; cbn; auto.
      + rewrite app_length. cbn. lia.
      + unfold push. rewrite Ir. apply lastn_push.
      + intros s sb E. specialize (Ic s sb E). lia.
    - (* LSubscribe *)
      destruct (closed C st); [discriminate|].
      destruct (tasks C st s) eqn:E; [discriminate|]. inversion H; subst; clear H.
      destruct I as [Il Ir Ic It In_ Io Io2 Ind].
      assert (Hfresh : ~ In s (order C st)) by (intros Hin; exact (Io2 s Hin E)).
      constructor; cbn; auto.
      + intros x sbx Ex. unfold updf in Ex. destruct (N.eqb x s); [inversion Ex; subst; cbn; lia|eauto].
      + intros a' x r Hin. destruct (It a' x r Hin) as (sbx & Ex & Ax).
        unfold updf. destruct (N.eqb x s) eqn:Exs.
        * apply N.eqb_eq in Exs. subst x. congruence.
        * exists sbx. split; assumption.
      + rewrite filter_app, app_length. cbn. unfold live at 2. rewrite updf_same. cbn.
        rewrite In_. rewrite Nat.add_1_r. f_equal. f_equal. apply filter_ext_in'.
        intros x Hx. symmetry. apply live_upd_other. intros ->. contradiction.
      + intros x sbx Ex. unfold updf in Ex. apply in_or_app. destruct (N.eqb x s) eqn:Exs.
        * apply N.eqb_eq in Exs. subst x. right. left. reflexivity.
        * left. eauto.
      + intros x Hin. unfold updf. destruct (N.eqb x s) eqn:Exs; [discriminate|].
        apply in_app_or in Hin. destruct Hin as [Hin|[->|[]]]; [auto|].
        rewrite N.eqb_refl in Exs. discriminate.
      + apply NoDup_snoc; assumption.
    - (* LRecv *)
      destruct (tasks C st s) as [sb|] eqn:E; [|discriminate].
      destruct (s_pc C sb) eqn:P; try discriminate.
      destruct (Nat.eqb (tail C st - s_cursor C sb) 0) eqn:B; [discriminate|].
      apply Nat.eqb_neq in B.
      destruct (Nat.leb (tail C st - s_cursor C sb) cap).
      + destruct (nth_error (ring C st) (length (ring C st) - (tail C st - s_cursor C sb))); [|discriminate].
        inversion H; subst; clear H.
        eapply vinv_set_task; eauto; cbn; try congruence. lia.
      + inversion H; subst; clear H.
        eapply vinv_set_task; eauto; cbn; try congruence. lia.
    - (* LCast *)
      destruct (tasks C st s) as [sb|] eqn:E; [|discriminate].
      destruct (s_pc C sb) eqn:P; try discriminate.
      destruct (cv (s_conv C sb) m) as [r|].
      + destruct (a_alive (actors C st (s_actor C sb))) eqn:Al; inversion H; subst; clear H.
        * pose proof (v_cur _ I _ _ E) as Hc.
          assert (I1 : VInv (set_task C st s (mkSub C (s_actor C sb) (s_conv C sb) (s_cursor C sb) PRecv))).
          { eapply vinv_set_task; eauto; cbn; congruence. }
          pose proof (vinv_set_actor_push _ s (mkSub C (s_actor C sb) (s_conv C sb) (s_cursor C sb) PRecv) r I1) as I2.
          cbn in I2. rewrite updf_same in I2. specialize (I2 eq_refl). exact I2.
        * destruct I as [Il Ir Ic It In_ Io Io2 Ind]. constructor; cbn; auto.
          -- intros x sbx Ex. unfold updf in Ex. destruct (N.eqb x s); [inversion Ex; subst; cbn; eauto|eauto].
          -- intros a' x r' Hin. destruct (It a' x r' Hin) as (sbx & Ex & Ax).
             unfold updf. destruct (N.eqb x s) eqn:Exs.
             ++ apply N.eqb_eq in Exs. subst x. rewrite E in Ex. inversion Ex; subst.
                eexists. split; [reflexivity|reflexivity].
             ++ exists sbx. split; assumption.
          -- rewrite In_.
             rewrite <- (count_dead (tasks C st) s (mkSub C (s_actor C sb) (s_conv C sb) (s_cursor C sb) PDone) (order C st)); auto.
             ++ eauto.
             ++ unfold live. rewrite E, P. reflexivity.
             ++ unfold live. rewrite updf_same. reflexivity.
          -- intros x sbx Ex. unfold updf in Ex. destruct (N.eqb x s) eqn:Exs; [|eauto].
             apply N.eqb_eq in Exs. subst x. eauto.
          -- intros x Hin. unfold updf. destruct (N.eqb x s); [discriminate|auto].
      + inversion H; subst; clear H. pose proof (v_cur _ I _ _ E) as Hc.
        eapply vinv_set_task; eauto; cbn; congruence.
    - (* LHandle *)
      destruct (a_alive (actors C st a)); [|discriminate].
      destruct (a_started (actors C st a)); [|discriminate]. cbn [andb] in H.
      destruct (a_mbox (actors C st a)) as [|[s' r] q] eqn:M; [discriminate|].
      destruct (N.eqb s' s); [|discriminate]. inversion H; subst; clear H.
      apply vinv_set_actor_sub; [assumption|]. rewrite M. intros it Hin.
      apply in_app_or in Hin. destruct Hin as [Hin|Hin].
      + right. apply in_or_app. left. assumption.
      + apply in_app_or in Hin. destruct Hin as [Hin|[<-|[]]].
        * right. apply in_or_app. right. assumption.
        * left. reflexivity.
    - (* LStop *)
      destruct (a_alive (actors C st a)); [|discriminate]. inversion H; subst; clear H.
      apply vinv_set_actor_sub; [assumption|]. intros it Hin. apply in_or_app. right. assumption.
    - (* LStart *)
      destruct (a_alive (actors C st a) && negb (a_started (actors C st a)))%bool; [|discriminate].
      inversion H; subst; clear H.
      apply vinv_set_actor_sub; [assumption|]. intros it Hin. assumption.
    - (* LClose *)
      destruct (closed C st); [discriminate|]. inversion H; subst; clear H.
      destruct I as [Il Ir Ic It In_ Io Io2 Ind]. constructor; cbn; auto.
    - (* LEnd *)
      destruct (tasks C st s) as [sb|] eqn:E; [|discriminate].
      destruct (s_pc C sb) eqn:P; try discriminate.
      destruct (closed C st && Nat.eqb (tail C st - s_cursor C sb) 0)%bool; [|discriminate].
      inversion H; subst; clear H.
      destruct I as [Il Ir Ic It In_ Io Io2 Ind]. constructor; cbn; auto.
      + intros x sbx Ex. unfold updf in Ex. destruct (N.eqb x s); [inversion Ex; subst; cbn; eauto|eauto].
      + intros a' x r' Hin. destruct (It a' x r' Hin) as (sbx & Ex & Ax).
        unfold updf. destruct (N.eqb x s) eqn:Exs.
        * apply N.eqb_eq in Exs. subst x. rewrite E in Ex. inversion Ex; subst.
          eexists. split; [reflexivity|reflexivity].
        * exists sbx. split; assumption.
      + rewrite In_.
        rewrite <- (count_dead (tasks C st) s (mkSub C (s_actor C sb) (s_conv C sb) (s_cursor C sb) PDone) (order C st)); auto.
        * eauto.
        * unfold live. rewrite E, P. reflexivity.
        * unfold live. rewrite updf_same. reflexivity.
      + intros x sbx Ex. unfold updf in Ex. destruct (N.eqb x s) eqn:Exs; [|eauto].
        apply N.eqb_eq in Exs. subst x. eauto.
      + intros x Hin. unfold updf. destruct (N.eqb x s); [discriminate|auto].
  Qed.

  (* ---------- refinement: every subscription, seen alone, runs Sub1 ---------- *)
  Definition okfor (s a : N) (c : C) (st : state) (ls : list label) : Prop :=
    match tasks C st s with
    | Some sb => s_actor C sb = a /\ s_conv C sb = c
    | None => forall a' c', conv_of C s ls = Some (a', c') -> a' = a /\ c' = c
    end.

  Notation cstep1 := (cstep (Some cap)).
  Notation crun1 := (crun (Some cap)).

  Lemma absv_eq_tasks_actors : forall s a (st st' : state),
    tasks C st' s = tasks C st s -> actors C st' a = actors C st a -> log C st' = log C st ->
    absv C s a st' = absv C s a st.
  Proof. intros s a st st' Ht Ha Hl. unfold absv. rewrite Ht, Ha, Hl. reflexivity. Qed.

  Lemma sim_step : forall s a c (st st' : state) l t,
    VInv st -> okfor s a c st (l :: t) -> step st l = Some st' ->
    crun1 (cv c) (absv C s a st) (proj C s a l) = Some (absv C s a st') /\ okfor s a c st' t.
  Proof.
    intros s a c st st' l t I Ok H. destruct l as [m|s' a' c'|s'|s'|a' s'|a'|a'| |s']; cbn in H.
    - (* LPublish *)
      destruct (closed C st) eqn:Cl; [discriminate|].
      cbn [proj]. destruct (Nat.eqb (rxcnt C st) 0) eqn:R; inversion H; subst; clear H.
      + split; [|exact Ok]. apply Nat.eqb_eq in R. cbn. unfold absv.
        destruct (tasks C st' s) as [sb|] eqn:E; [|reflexivity].
        destruct (s_pc C sb) eqn:P; cbn; try reflexivity;
          (exfalso; apply (live_pos st' s I); [unfold live; rewrite E, P; reflexivity|exact R]).
      + split; [|exact Ok]. cbn. unfold absv. cbn.
        destruct (tasks C st s) as [sb|] eqn:E; [|reflexivity].
        pose proof (v_cur _ I _ _ E) as Hc. rewrite <- (v_len _ I) in Hc.
        destruct (s_pc C sb) eqn:P; cbn; try reflexivity; rewrite skipn_app_le by exact Hc; reflexivity.
    - (* LSubscribe *)
      destruct (closed C st) eqn:Cl; [discriminate|].
      destruct (tasks C st s') eqn:E; [discriminate|]. inversion H; subst; clear H.
      cbn [proj]. destruct (N.eqb s' s) eqn:Es.
      + apply N.eqb_eq in Es. subst s'. unfold okfor in Ok. rewrite E in Ok. cbn in Ok. rewrite N.eqb_refl in Ok.
        destruct (Ok a' c' eq_refl) as [-> ->]. split.
        * cbn. unfold absv. rewrite E. cbn. rewrite updf_same. cbn.
          rewrite <- (v_len _ I), skipn_all. reflexivity.
        * unfold okfor. cbn. rewrite updf_same. cbn. split; reflexivity.
      + split.
        * cbn. f_equal. symmetry. apply absv_eq_tasks_actors; cbn; auto.
          apply updf_other. apply N.eqb_neq. apply N.eqb_neq in Es. congruence.
        * unfold okfor in *. cbn. rewrite updf_other by (apply N.eqb_neq; apply N.eqb_neq in Es; congruence).
          destruct (tasks C st s); [exact Ok|]. cbn in Ok. rewrite Es in Ok. exact Ok.
    - (* LRecv *)
      destruct (tasks C st s') as [sb|] eqn:E; [|discriminate].
      destruct (s_pc C sb) eqn:P; try discriminate.
      destruct (Nat.eqb (tail C st - s_cursor C sb) 0) eqn:B; [discriminate|].
      apply Nat.eqb_neq in B.
      cbn [proj]. destruct (N.eqb s' s) eqn:Es.
      + apply N.eqb_eq in Es. subst s'.
        assert (Ok' : forall sb', s_actor C sb' = s_actor C sb -> s_conv C sb' = s_conv C sb ->
                      okfor s a c (set_task C st s sb') t).
        { intros sb' Ha Hc. unfold okfor in *. cbn. rewrite updf_same. rewrite E in Ok. rewrite Ha, Hc. exact Ok. }
        pose proof (v_cur _ I _ _ E) as Hc. pose proof (v_len _ I) as Hl.
        destruct (Nat.leb (tail C st - s_cursor C sb) cap) eqn:Le.
        * apply Nat.leb_le in Le.
          destruct (nth_error (ring C st) (length (ring C st) - (tail C st - s_cursor C sb))) as [m|] eqn:Nth; [|discriminate].
          inversion H; subst; clear H. split; [|apply Ok'; reflexivity].
          assert (Hm : nth_error (log C st) (s_cursor C sb) = Some m).
          { rewrite (v_ring _ I) in Nth. unfold lastn in Nth. rewrite skipn_length, nth_error_skipn' in Nth.
            rewrite <- Nth. f_equal. lia. }
          assert (Lg : lagging (Some cap) (m :: skipn (S (s_cursor C sb)) (log C st)) = false).
          { unfold lagging. cbn [length]. rewrite skipn_length. apply Nat.ltb_ge. lia. }
          assert (A0 : absv C s a st = mkCore AIdle (m :: skipn (S (s_cursor C sb)) (log C st))
                         (tagged s (a_mbox (actors C st a))) (tagged s (a_got (actors C st a)))
                         (a_alive (actors C st a))).
          { unfold absv. rewrite E, P, (skipn_nth_cons _ _ _ _ Hm). reflexivity. }
          rewrite A0. unfold absv, set_task. cbn [tasks actors log]. rewrite updf_same.
          cbn [s_pc s_cursor proj Spec.crun Spec.cstep c_pc c_backlog c_mbox c_got c_alive].
          rewrite Lg. reflexivity.
        * apply Nat.leb_gt in Le. inversion H; subst; clear H. split; [|apply Ok'; reflexivity].
          destruct (skipn (s_cursor C sb) (log C st)) as [|m b] eqn:Sk.
          { exfalso. assert (Hz : length (skipn (s_cursor C sb) (log C st)) = 0) by (rewrite Sk; reflexivity).
            rewrite skipn_length in Hz. lia. }
          assert (Lg : lagging (Some cap) (m :: b) = true).
          { rewrite <- Sk. unfold lagging. rewrite skipn_length. apply Nat.ltb_lt. lia. }
          assert (A0 : absv C s a st = mkCore AIdle (m :: b)
                         (tagged s (a_mbox (actors C st a))) (tagged s (a_got (actors C st a)))
                         (a_alive (actors C st a))).
          { unfold absv. rewrite E, P, Sk. reflexivity. }
          rewrite A0. unfold absv, set_task. cbn [tasks actors log]. rewrite updf_same.
          cbn [s_pc s_cursor proj Spec.crun Spec.cstep c_pc c_backlog c_mbox c_got c_alive].
          rewrite Lg. rewrite <- Sk. unfold keep, lastn. rewrite skipn_length, skipn_skipn'.
          do 3 f_equal. lia.
      + inversion H as [H']. clear H.
        assert (Hst' : tasks C st' s = tasks C st s /\ actors C st' a = actors C st a /\ log C st' = log C st).
        { destruct (Nat.leb (tail C st - s_cursor C sb) cap);
            [destruct (nth_error (ring C st) (length (ring C st) - (tail C st - s_cursor C sb))); [|discriminate]|];
            inversion H'; subst; cbn; (split; [|split; reflexivity]);
            apply updf_other; apply N.eqb_neq; apply N.eqb_neq in Es; congruence. }
        destruct Hst' as (Ht & Ha & Hlg). split.
        * cbn. f_equal. symmetry. apply absv_eq_tasks_actors; assumption.
        * unfold okfor in *. rewrite Ht. exact Ok.
    - (* LCast *)
      destruct (tasks C st s') as [sb|] eqn:E; [|discriminate].
      destruct (s_pc C sb) eqn:P; try discriminate.
      cbn [proj]. destruct (N.eqb s' s) eqn:Es.
      + apply N.eqb_eq in Es. subst s'.
        pose proof Ok as Ok0. unfold okfor in Ok0. rewrite E in Ok0. destruct Ok0 as [Ha Hcv].
        destruct (cv (s_conv C sb) m) as [r|] eqn:Cv.
        * destruct (a_alive (actors C st (s_actor C sb))) eqn:Al; inversion H; subst; clear H.
          -- split.
             ++ cbn. unfold absv. rewrite E, P. cbn. rewrite Cv, Al. rewrite !updf_same. cbn.
                rewrite tagged_app, tagged_one_same. reflexivity.
             ++ unfold okfor. cbn. rewrite updf_same. cbn. split; reflexivity.
          -- split.
             ++ cbn. unfold absv. rewrite E, P. cbn. rewrite Cv, Al. rewrite !updf_same. cbn. reflexivity.
             ++ unfold okfor. cbn. rewrite updf_same. cbn. split; reflexivity.
        * inversion H; subst; clear H. split.
          -- cbn. unfold absv. rewrite E, P. cbn. rewrite Cv. rewrite !updf_same. cbn. reflexivity.
          -- unfold okfor. cbn. rewrite updf_same. cbn. split; reflexivity.
      + assert (Hne : N.eqb s s' = false) by (apply N.eqb_neq; apply N.eqb_neq in Es; congruence).
        destruct (cv (s_conv C sb) m) as [r|] eqn:Cv.
        * destruct (a_alive (actors C st (s_actor C sb))) eqn:Al; inversion H; subst; clear H.
          -- split.
             ++ cbn. f_equal. unfold absv. cbn. rewrite (updf_other _ _ _ _ _ Hne).
                unfold updf. destruct (N.eqb a (s_actor C sb)) eqn:Ea.
                ** apply N.eqb_eq in Ea. subst a. cbn. rewrite tagged_app, (tagged_one_other _ _ _ Es), app_nil_r, Al.
                   destruct (actors C st (s_actor C sb)); reflexivity.
                ** reflexivity.
             ++ unfold okfor in *. cbn. rewrite (updf_other _ _ _ _ _ Hne). exact Ok.
          -- split.
             ++ cbn. f_equal. unfold absv. cbn. rewrite (updf_other _ _ _ _ _ Hne). reflexivity.
             ++ unfold okfor in *. cbn. rewrite (updf_other _ _ _ _ _ Hne). exact Ok.
        * inversion H; subst; clear H. split.
          -- cbn. f_equal. unfold absv. cbn. rewrite (updf_other _ _ _ _ _ Hne). reflexivity.
          -- unfold okfor in *. cbn. rewrite (updf_other _ _ _ _ _ Hne). exact Ok.
    - (* LHandle *)
      destruct (a_alive (actors C st a')) eqn:Al; [|discriminate].
      destruct (a_started (actors C st a')) eqn:Sd; [|discriminate]. cbn [andb] in H.
      destruct (a_mbox (actors C st a')) as [|[s'' r] q] eqn:M; [discriminate|].
      destruct (N.eqb s'' s') eqn:Ess; [|discriminate]. apply N.eqb_eq in Ess. subst s''.
      inversion H; subst; clear H.
      assert (Okt : okfor s a c (set_actor C st a' (mkActor true true q (a_got (actors C st a') ++ [(s', r)]))) t).
      { unfold okfor in *. cbn. exact Ok. }
      split; [|exact Okt]. cbn [proj]. destruct (N.eqb s' s) eqn:Es.
      + apply N.eqb_eq in Es. subst s'.
        destruct (v_tag _ I a' s r) as (sb & E & Hact). { rewrite M. left. reflexivity. }
        unfold okfor in Ok. rewrite E in Ok. destruct Ok as [Ha _]. rewrite Hact in Ha. subst a'.
        cbn. unfold absv. cbn. rewrite updf_same, E. cbn. rewrite Al, M, tagged_cons_same, tagged_app, tagged_one_same.
        reflexivity.
      + cbn. f_equal. unfold absv. cbn. unfold updf. destruct (N.eqb a a') eqn:Ea.
        * apply N.eqb_eq in Ea. subst a'. cbn. rewrite M, Al, (tagged_cons_other _ _ _ _ Es), tagged_app, (tagged_one_other _ _ _ Es), app_nil_r.
          reflexivity.
        * reflexivity.
    - (* LStop *)
      destruct (a_alive (actors C st a')) eqn:Al; [|discriminate]. inversion H; subst; clear H.
      split; [|unfold okfor in *; cbn; exact Ok].
      cbn [proj]. destruct (N.eqb a' a) eqn:Ea.
      + apply N.eqb_eq in Ea. subst a'. cbn. unfold absv. cbn. rewrite updf_same. cbn. rewrite Al.
        destruct (tasks C st s); reflexivity.
      + cbn. f_equal. unfold absv. cbn. rewrite updf_other; [reflexivity|].
        apply N.eqb_neq. apply N.eqb_neq in Ea. congruence.
    - (* LStart: a Starting actor becomes Running; nothing the subscription sees changes *)
      destruct (a_alive (actors C st a')) eqn:Al; [|discriminate].
      destruct (a_started (actors C st a')) eqn:Sd; [discriminate|]. cbn in H.
      inversion H; subst; clear H.
      split; [|unfold okfor in *; cbn; exact Ok].
      cbn. f_equal. unfold absv. cbn. unfold updf. destruct (N.eqb a a') eqn:Ea; [|reflexivity].
      apply N.eqb_eq in Ea. subst a'. cbn. rewrite Al. reflexivity.
    - (* LClose: nothing a subscription sees changes *)
      destruct (closed C st); [discriminate|]. inversion H; subst; clear H.
      split; [|unfold okfor in *; cbn; exact Ok]. cbn. f_equal.
    - (* LEnd: recv reports Closed, only with an empty backlog *)
      destruct (tasks C st s') as [sb|] eqn:E; [|discriminate].
      destruct (s_pc C sb) eqn:P; try discriminate.
      destruct (closed C st); [|discriminate]. cbn [andb] in H.
      destruct (Nat.eqb (tail C st - s_cursor C sb) 0) eqn:B; [|discriminate]. apply Nat.eqb_eq in B.
      inversion H; subst; clear H.
      cbn [proj]. destruct (N.eqb s' s) eqn:Es.
      + apply N.eqb_eq in Es. subst s'. split.
        * cbn. unfold absv. rewrite E, P. cbn. rewrite updf_same. cbn. reflexivity.
        * unfold okfor in *. cbn. rewrite updf_same. rewrite E in Ok. cbn. exact Ok.
      + assert (Hne : N.eqb s s' = false) by (apply N.eqb_neq; apply N.eqb_neq in Es; congruence).
        split.
        * cbn. f_equal. unfold absv. cbn. rewrite (updf_other _ _ _ _ _ Hne). reflexivity.
        * unfold okfor in *. cbn. rewrite (updf_other _ _ _ _ _ Hne). exact Ok.
  Qed.

  Lemma sim_run_gen : forall s a c ls suffix (st st' : state),
    VInv st -> okfor s a c st (ls ++ suffix) -> run st ls = Some st' ->
    crun1 (cv c) (absv C s a st) (projs C s a ls) = Some (absv C s a st') /\ VInv st'
    /\ okfor s a c st' suffix.
  Proof.
    intros s a c. induction ls as [|l t IH]; intros suffix st st' I Ok H; cbn in H.
    - inversion H; subst. split; [reflexivity|]. split; assumption.
    - destruct (step st l) as [st1|] eqn:E; [|discriminate].
      destruct (sim_step s a c st st1 l (t ++ suffix) I Ok E) as [S1 Ok1].
      pose proof (vinv_step _ _ _ I E) as I1.
      destruct (IH _ _ _ I1 Ok1 H) as (S2 & I2 & Ok2). split; [|split; assumption].
      unfold projs. cbn [flat_map]. rewrite crun_app, S1. exact S2.
  Qed.

  Lemma sim_run : forall s a c ls (st st' : state),
    VInv st -> okfor s a c st ls -> run st ls = Some st' ->
    crun1 (cv c) (absv C s a st) (projs C s a ls) = Some (absv C s a st') /\ VInv st'.
  Proof.
    intros s a c ls st st' I Ok H. rewrite <- (app_nil_r ls) in Ok.
    destruct (sim_run_gen s a c ls [] st st' I Ok H) as (S1 & I1 & _). split; assumption.
  Qed.

  Lemma absv_init : forall s a, absv C s a (init C) = ainit.
  Proof. reflexivity. Qed.

  Theorem v1_refines : forall ls st s a c, run (init C) ls = Some st ->
    conv_of C s ls = Some (a, c) ->
    crun1 (cv c) ainit (projs C s a ls) = Some (absv C s a st).
  Proof.
    intros ls st s a c H Hc. rewrite <- (absv_init s a).
    apply (sim_run s a c ls (init C) st vinv_init); [|exact H].
    unfold okfor. cbn. intros a' c' E. rewrite Hc in E. inversion E; subst. split; reflexivity.
  Qed.

  (* label-level vocabulary agrees with the abstract one *)
  Lemma apubs_on_projs : forall s a ls, apubs_on (projs C s a ls) = pubs_on C ls.
  Proof.
    intros s a. induction ls as [|l t IH]; [reflexivity|].
    unfold projs in *. cbn [flat_map]. destruct l; cbn [proj pubs_on].
    - cbn. rewrite IH. reflexivity.
    - destruct (N.eqb s0 s); cbn; exact IH.
    - destruct (N.eqb s0 s); cbn; exact IH.
    - destruct (N.eqb s0 s); cbn; exact IH.
    - destruct (N.eqb s0 s); cbn; exact IH.
    - destruct (N.eqb a0 a); cbn; exact IH.
    - cbn. exact IH.
    - cbn. exact IH.
    - destruct (N.eqb s0 s); cbn; exact IH.
  Qed.

  Lemma apubs_projs : forall s a ls, apubs (projs C s a ls) = pubs_after C s ls.
  Proof.
    intros s a. induction ls as [|l t IH]; [reflexivity|].
    unfold projs in *. cbn [flat_map]. destruct l; cbn [proj pubs_after].
    - cbn. exact IH.
    - destruct (N.eqb s0 s); cbn; [apply apubs_on_projs|exact IH].
    - destruct (N.eqb s0 s); cbn; exact IH.
    - destruct (N.eqb s0 s); cbn; exact IH.
    - destruct (N.eqb s0 s); cbn; exact IH.
    - destruct (N.eqb a0 a); cbn; exact IH.
    - cbn. exact IH.
    - cbn. exact IH.
    - destruct (N.eqb s0 s); cbn; exact IH.
  Qed.

  Lemma conv_of_task : forall ls (st st' : state) s a c, VInv st -> okfor s a c st ls ->
    run st ls = Some st' -> forall sb, tasks C st' s = Some sb -> s_actor C sb = a /\ s_conv C sb = c.
  Proof.
    induction ls as [|l t IH]; intros st st' s a c I Ok H sb E; cbn in H.
    - inversion H; subst. unfold okfor in Ok. rewrite E in Ok. exact Ok.
    - destruct (step st l) as [st1|] eqn:S1; [|discriminate].
      destruct (sim_step s a c st st1 l t I Ok S1) as [_ Ok1].
      exact (IH st1 st' s a c (vinv_step _ _ _ I S1) Ok1 H sb E).
  Qed.

  Lemma received_absv : forall ls st s a c, run (init C) ls = Some st -> conv_of C s ls = Some (a, c) ->
    received C st s = match tasks C st s with Some _ => c_got (absv C s a st) | None => [] end.
  Proof.
    intros ls st s a c H Hc. unfold received, absv.
    destruct (tasks C st s) as [sb|] eqn:E; [|reflexivity].
    assert (Ok : okfor s a c (init C) ls).
    { unfold okfor. cbn. intros a' c' E'. rewrite Hc in E'. inversion E'; subst. split; reflexivity. }
    destruct (conv_of_task ls _ _ s a c vinv_init Ok H sb E) as [-> _]. reflexivity.
  Qed.

  (* ---------- property theorems ---------- *)
  Theorem v1_subsequence : forall ls st s a c, run (init C) ls = Some st ->
    conv_of C s ls = Some (a, c) ->
    sublist (received C st s) (filter_map (cv c) (pubs_after C s ls)).
  Proof.
    intros ls st s a c H Hc. rewrite (received_absv ls st s a c H Hc).
    destruct (tasks C st s); [|apply sublist_nil_l].
    rewrite <- (apubs_projs s a ls).
    eapply sub1_subsequence. eapply v1_refines; eassumption.
  Qed.

  Theorem v1_inert : forall ls1 ls2 st1 st2 s a c,
    run (init C) ls1 = Some st1 -> run (init C) ls2 = Some st2 ->
    conv_of C s ls1 = Some (a, c) -> conv_of C s ls2 = Some (a, c) ->
    projs C s a ls1 = projs C s a ls2 ->
    absv C s a st1 = absv C s a st2.
  Proof.
    intros ls1 ls2 st1 st2 s a c H1 H2 C1 C2 P.
    pose proof (v1_refines _ _ _ _ _ H1 C1) as R1. pose proof (v1_refines _ _ _ _ _ H2 C2) as R2.
    rewrite P in R1. rewrite R1 in R2. inversion R2. reflexivity.
  Qed.

  Theorem v1_frame : forall ls l st st' s a c, run (init C) ls = Some st -> step st l = Some st' ->
    conv_of C s (ls ++ [l]) = Some (a, c) -> proj C s a l = [] ->
    absv C s a st' = absv C s a st.
  Proof.
    intros ls l st st' s a c H S1 Hc P.
    assert (Ok : okfor s a c (init C) (ls ++ [l])).
    { unfold okfor. cbn. intros a' c' E'. rewrite Hc in E'. inversion E'; subst. split; reflexivity. }
    destruct (sim_run_gen s a c ls [l] _ _ vinv_init Ok H) as (_ & I1 & Ok1).
    destruct (sim_step s a c st st' l [] I1 Ok1 S1) as [S2 _].
    rewrite P in S2. cbn in S2. inversion S2. reflexivity.
  Qed.

  (* ---------- lag bound ---------- *)
  Lemma backlog_len : forall s a (st : state), VInv st ->
    length (c_backlog (absv C s a st)) = behind C st s.
  Proof.
    intros s a st I. unfold absv, behind. destruct (tasks C st s) as [sb|]; [|reflexivity].
    destruct (s_pc C sb); cbn; try reflexivity; rewrite skipn_length, (v_len _ I); reflexivity.
  Qed.

  Lemma proj_short : forall s a (l : label), proj C s a l = [] \/ exists x, proj C s a l = [x].
  Proof.
    intros s a l. destruct l; cbn; eauto.
    - destruct (N.eqb s0 s); eauto.
    - destruct (N.eqb s0 s); eauto.
    - destruct (N.eqb s0 s); eauto.
    - destruct (N.eqb s0 s); eauto.
    - destruct (N.eqb a0 a); eauto.
    - destruct (N.eqb s0 s); eauto.
  Qed.

  Lemma always_sim : forall s a c ls suffix (st st' : state),
    VInv st -> okfor s a c st (ls ++ suffix) -> run st ls = Some st' ->
    never_behind C cv cap st s ls ->
    always (Some cap) (cv c) (fun x => length (c_backlog x) <= cap) (absv C s a st) (projs C s a ls).
  Proof.
    intros s a c. induction ls as [|l t IH]; intros suffix st st' I Ok H Nb; cbn in H.
    - cbn. split; [|exact Logic.I]. rewrite backlog_len by assumption. destruct Nb as [Nb _]. exact Nb.
    - destruct (step st l) as [st1|] eqn:E; [|discriminate].
      destruct Nb as [Nb0 Nb]. cbn in Nb. unfold V1.step in E. fold (step st l) in E.
      change (V1.step C cv cap st l) with (step st l) in Nb. rewrite E in Nb.
      destruct (sim_step s a c st st1 l (t ++ suffix) I Ok E) as [S1 Ok1].
      pose proof (vinv_step _ _ _ I E) as I1.
      specialize (IH suffix st1 st' I1 Ok1 H Nb).
      unfold projs. cbn [flat_map]. destruct (proj_short s a l) as [P|[x P]]; rewrite P in *.
      + cbn in S1. inversion S1 as [S1']. cbn [app]. rewrite S1'. exact IH.
      + cbn [app]. cbn in S1. cbn [always]. split; [rewrite backlog_len by assumption; exact Nb0|].
        destruct (cstep (Some cap) (cv c) (absv C s a st) x) as [c1|]; [|discriminate].
        inversion S1; subst. exact IH.
  Qed.

  Lemma conv_of_app : forall s ls1 ls2 a c, conv_of C s ls1 = Some (a, c) -> conv_of C s (ls1 ++ ls2) = Some (a, c).
  Proof.
    intros s. induction ls1 as [|l t IH]; intros ls2 a c H; [discriminate|].
    destruct l; cbn in *; auto. destruct (N.eqb s0 s); auto.
  Qed.

  Lemma okfor_init : forall s a c ls, conv_of C s ls = Some (a, c) -> okfor s a c (init C) ls.
  Proof.
    intros s a c ls Hc. unfold okfor. cbn. intros a' c' E'. rewrite Hc in E'. inversion E'; subst. split; reflexivity.
  Qed.

  Theorem v1_lag_bound : forall ls st s a c, run (init C) ls = Some st ->
    conv_of C s ls = Some (a, c) -> never_behind C cv cap (init C) s ls ->
    let x := absv C s a st in
    prefix (c_got x) (filter_map (cv c) (pubs_after C s ls))
    /\ (active x = true -> c_alive x = true ->
        c_got x ++ c_mbox x ++ filter_map (cv c) (held x ++ c_backlog x)
        = filter_map (cv c) (pubs_after C s ls)).
  Proof.
    intros ls st s a c H Hc Nb x. subst x. rewrite <- (apubs_projs s a ls).
    apply (sub1_nolag_prefix (Some cap) (cv c) cap); [reflexivity|eapply v1_refines; eassumption|].
    rewrite <- (absv_init s a).
    apply (always_sim s a c ls [] (init C) st vinv_init); [|assumption|assumption].
    rewrite app_nil_r. apply okfor_init. assumption.
  Qed.

  Theorem v1_after_lag : forall ls1 ls2 st1 st2 s a c,
    run (init C) ls1 = Some st1 -> run st1 ls2 = Some st2 ->
    conv_of C s ls1 = Some (a, c) -> never_behind C cv cap st1 s ls2 ->
    let x1 := absv C s a st1 in let x2 := absv C s a st2 in
    active x1 = true -> active x2 = true -> c_alive x2 = true ->
    c_got x2 ++ c_mbox x2 ++ filter_map (cv c) (held x2 ++ c_backlog x2)
    = c_got x1 ++ c_mbox x1 ++ filter_map (cv c) (held x1 ++ c_backlog x1 ++ pubs_on C ls2).
  Proof.
    intros ls1 ls2 st1 st2 s a c H1 H2 Hc Nb x1 x2 A1 A2 Al. subst x1 x2.
    rewrite <- (apubs_on_projs s a ls2).
    pose proof (okfor_init s a c (ls1 ++ ls2) (conv_of_app _ _ _ _ _ Hc)) as Ok.
    destruct (sim_run_gen s a c ls1 ls2 _ _ vinv_init Ok H1) as (S1 & I1 & Ok1).
    assert (Ok1' : okfor s a c st1 (ls2 ++ [])) by (rewrite app_nil_r; exact Ok1).
    destruct (sim_run_gen s a c ls2 [] _ _ I1 Ok1' H2) as (S2 & I2 & _).
    rewrite absv_init in S1.
    eapply (sub1_after_lag (Some cap) (cv c) cap); try eassumption; [reflexivity|].
    eapply always_sim; eassumption.
  Qed.

  (* ---------- dropping the port ---------- *)
  (* the forwarder can see Closed only when it has taken everything that was buffered *)
  Lemma end_needs_drained : forall (st st' : state) s, step st (LEnd s) = Some st' ->
    closed C st = true /\ behind C st s = 0.
  Proof.
    intros st st' s H. cbn in H. unfold behind.
    destruct (tasks C st s) as [sb|]; [|discriminate].
    destruct (s_pc C sb); try discriminate.
    destruct (closed C st); [|discriminate]. cbn [andb] in H.
    destruct (Nat.eqb (tail C st - s_cursor C sb) 0) eqn:B; [|discriminate].
    apply Nat.eqb_eq in B. split; [reflexivity|exact B].
  Qed.

  (* publisher publishes and drops the port: a subscriber that kept up (never more than cap
     behind) has been forwarded EVERYTHING published after its subscription by the time its
     forwarding task ends because of the drop *)
  Theorem v1_drop_drains : forall ls st st' s a c, run (init C) ls = Some st ->
    conv_of C s ls = Some (a, c) -> never_behind C cv cap (init C) s ls ->
    step st (LEnd s) = Some st' -> a_alive (actors C st a) = true ->
    let x := absv C s a st' in
    c_pc x = ADone /\ c_got x ++ c_mbox x = filter_map (cv c) (pubs_after C s ls).
  Proof.
    intros ls st st' s a c H Hc Nb HE Al x. subst x.
    destruct (v1_lag_bound ls st s a c H Hc Nb) as [_ Ex].
    pose proof (okfor_init s a c ls Hc) as Ok. rewrite <- (app_nil_r ls) in Ok.
    destruct (sim_run_gen s a c ls [] _ _ vinv_init Ok H) as (_ & I & _).
    cbn in HE. destruct (tasks C st s) as [sb|] eqn:E; [|discriminate].
    destruct (s_pc C sb) eqn:P; try discriminate.
    destruct (closed C st); [|discriminate]. cbn [andb] in HE.
    destruct (Nat.eqb (tail C st - s_cursor C sb) 0) eqn:B; [|discriminate].
    apply Nat.eqb_eq in B. inversion HE; subst; clear HE.
    pose proof (v_cur _ I _ _ E) as Hcur. pose proof (v_len _ I) as Hl.
    assert (Hb : skipn (s_cursor C sb) (log C st) = []) by (apply skipn_all2; lia).
    unfold absv in *. cbn [tasks actors log]. rewrite updf_same. rewrite E, P in Ex. cbn in Ex |- *.
    rewrite Hb in Ex. cbn in Ex. rewrite app_nil_r in Ex.
    split; [reflexivity|]. apply Ex; [reflexivity|exact Al].
  Qed.
End P.
