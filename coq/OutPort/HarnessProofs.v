(* C16 — the canonical scheduler of Harness.v only ever fires enabled labels: the label
   sequence it produces is a run of the model, so every theorem about runs applies to
   the executions that are compared with the implementation. *)
From Coq Require Import List NArith Bool Arith Lia.
From RV Require Import OutPort.Spec OutPort.Harness.
From RV Require OutPort.V1 OutPort.V2.
Import ListNotations.

Module P1.
  Import V1 X1.
  Definition good (cap : nat) (c : cfg) : Prop :=
    let '(_, st, acc) := c in run _ cv cap (init _) (rev acc) = Some st.

  Lemma run_snoc : forall cap ls (st st' st'' : X1.st) l,
    run _ cv cap st ls = Some st' -> step _ cv cap st' l = Some st'' ->
    run _ cv cap st (ls ++ [l]) = Some st''.
  Proof.
    intros cap. induction ls as [|x t IH]; intros st st' st'' l H S1; cbn in *.
    - inversion H; subst. rewrite S1. reflexivity.
    - destruct (step _ cv cap st x); [|discriminate]. eapply IH; eassumption.
  Qed.

  Lemma good_fire : forall cap c l, good cap c -> good cap (fire cap c l).
  Proof.
    intros cap [[h st] acc] l G. unfold fire. destruct (step _ cv cap st l) eqn:E; [|exact G].
    unfold good in *. cbn [rev]. eapply run_snoc; eassumption.
  Qed.

  Lemma good_settle1 : forall cap p fuel c, good cap c -> good cap (settle1 cap p fuel c).
  Proof.
    intros cap p. induction fuel as [|f IH]; intros [[h st] acc] G; cbn; [exact G|].
    destruct (choose p h st) as [[l h']|]; [|exact G].
    destruct (step _ cv cap st l) eqn:E; [|exact G].
    apply IH. unfold good in *. cbn [rev]. eapply run_snoc; eassumption.
  Qed.

  Lemma good_settle : forall cap p fuel c, good cap c -> good cap (settle cap p fuel c).
  Proof.
    intros cap p fuel c G. unfold settle. generalize fuel at 1. intros n.
    induction n as [|n IH]; cbn; [exact G|]. apply good_settle1. exact IH.
  Qed.

  Lemma good_set_h : forall cap c h, good cap c -> good cap (set_h c h).
  Proof. intros cap [[h0 st] acc] h G. exact G. Qed.

  Lemma good_do_op : forall cap p fuel c o, good cap c -> good cap (do_op cap p fuel c o).
  Proof.
    intros cap p fuel c o G. destruct o; cbn [do_op].
    - apply good_fire; assumption.
    - apply good_set_h. apply good_fire. assumption.
    - apply good_settle; assumption.
    - apply good_settle. apply good_fire. apply good_settle. assumption.
    - apply good_set_h. assumption.
    - apply good_set_h. assumption.
    - apply good_set_h. assumption.
    - apply good_settle. apply good_fire. assumption.
    - apply good_settle. apply good_fire. apply good_settle. assumption.
    - apply good_fire. assumption.
  Qed.

  Theorem exec_is_run : forall cap sc,
    let '(_, st, acc) := exec cap sc in run _ cv cap (init _) (rev acc) = Some st.
  Proof.
    intros cap sc. unfold exec.
    assert (G : good cap (h0, init cspec, [])) by reflexivity.
    revert G. generalize (h0, init cspec, @nil lab). generalize (nat_fuel (sc_ops sc)).
    induction (sc_ops sc) as [|o t IH]; intros fuel c G; cbn [fold_left].
    - exact G.
    - apply IH. apply good_do_op. assumption.
  Qed.
End P1.

Module P2.
  Import V2 X2.
  Definition good (ad : bool) (c : cfg) : Prop :=
    let '(_, st, acc) := c in run _ cv ad (init _) (rev acc) = Some st.

  Lemma run_snoc : forall ad ls (st st' st'' : X2.st) l,
    run _ cv ad st ls = Some st' -> step _ cv ad st' l = Some st'' ->
    run _ cv ad st (ls ++ [l]) = Some st''.
  Proof.
    intros ad. induction ls as [|x t IH]; intros st st' st'' l H S1; cbn in *.
    - inversion H; subst. rewrite S1. reflexivity.
    - destruct (step _ cv ad st x); [|discriminate]. eapply IH; eassumption.
  Qed.

  Lemma good_fire : forall ad c l, good ad c -> good ad (fire ad c l).
  Proof.
    intros ad [[h st] acc] l G. unfold fire. destruct (step _ cv ad st l) eqn:E; [|exact G].
    unfold good in *. cbn [rev]. eapply run_snoc; eassumption.
  Qed.

  Lemma good_settle1 : forall ad p fuel c, good ad c -> good ad (settle1 ad p fuel c).
  Proof.
    intros ad p. induction fuel as [|f IH]; intros [[h st] acc] G; cbn; [exact G|].
    destruct (choose ad p h st) as [[l h']|]; [|exact G].
    destruct (step _ cv ad st l) eqn:E; [|exact G].
    apply IH. unfold good in *. cbn [rev]. eapply run_snoc; eassumption.
  Qed.

  Lemma good_settle : forall ad p fuel c, good ad c -> good ad (settle ad p fuel c).
  Proof.
    intros ad p fuel c G. unfold settle. generalize fuel at 1. intros n.
    induction n as [|n IH]; cbn; [exact G|]. apply good_settle1. exact IH.
  Qed.

  Lemma good_set_h : forall ad c h, good ad c -> good ad (set_h c h).
  Proof. intros ad [[h0 st] acc] h G. exact G. Qed.

  Lemma good_do_op : forall ad p fuel c o, good ad c -> good ad (do_op ad p fuel c o).
  Proof.
    intros ad p fuel c o G. destruct o; cbn [do_op].
    - apply good_fire; assumption.
    - apply good_set_h. apply good_fire. assumption.
    - apply good_settle; assumption.
    - apply good_settle. apply good_fire. apply good_settle. assumption.
    - apply good_set_h. assumption.
    - apply good_set_h. assumption.
    - apply good_set_h. assumption.
    - apply good_settle. apply good_fire. assumption.
    - apply good_settle. apply good_fire. apply good_settle. assumption.
    - apply good_fire. assumption.
  Qed.

  Theorem exec_is_run : forall ad sc,
    let '(_, st, acc) := exec ad sc in run _ cv ad (init _) (rev acc) = Some st.
  Proof.
    intros ad sc. unfold exec.
    assert (G : good ad (h0, init cspec, [])) by reflexivity.
    revert G. generalize (h0, init cspec, @nil lab). generalize (nat_fuel (sc_ops sc)).
    induction (sc_ops sc) as [|o t IH]; intros fuel c G; cbn [fold_left].
    - exact G.
    - apply IH. apply good_do_op. assumption.
  Qed.
End P2.
