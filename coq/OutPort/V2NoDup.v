(* C16 — v2 port created with allow_duplicate_subscription = false (apply_subscriber's
   replacement branch): in EVERY reachable state the subscriber vector holds at most one
   subscription per receiving actor, so no publication can reach an actor through two
   subscriptions ("never twice" at the level of the actor); with the flag true (the public
   port) the statement is false (`two_subs_refuted`), which is why "never twice" is stated per
   subscription in C16_v2_exact.  Also: what apply_subscriber does to the vector, exactly. *)
From Coq Require Import List NArith Bool Arith Lia.
From RV Require Import OutPort.Spec OutPort.V2.
Import ListNotations.

Section ND.
  Variable C : Type.
  Variable cv : C -> N -> option N.

  Notation state := (state C).
  Notation entry := (entry C).
  Notation step := (step C cv false).
  Notation run := (run C cv false).

  Definition acts (l : list entry) : list N := map (e_actor C) l.

  Lemma acts_remove_nth : forall n (l : list entry), acts (remove_nth n l) = remove_nth n (acts l).
  Proof. induction n as [|n IH]; intros [|x t]; cbn; try reflexivity. f_equal. apply IH. Qed.

  Lemma remove_nth_in : forall A n (l : list A) x, In x (remove_nth n l) -> In x l.
  Proof.
    induction n as [|n IH]; intros [|y t] x H; cbn in *; try contradiction.
    - right; exact H.
    - destruct H as [H|H]; [left; exact H|right; apply IH; exact H].
  Qed.

  Lemma NoDup_remove_nth : forall A n (l : list A), NoDup l -> NoDup (remove_nth n l).
  Proof.
    induction n as [|n IH]; intros [|y t] H; cbn; try exact H.
    - inversion H; assumption.
    - inversion H as [|? ? Hn Ht]; subst. constructor; [|apply IH; exact Ht].
      intro Hin. apply Hn. eapply remove_nth_in; exact Hin.
  Qed.

  (* replacement keeps the vector of actors (same position, same actor, new id and converter) *)
  Lemma replace_first_acts : forall e (l l' : list entry) r,
    replace_first C e l = Some (l', r) -> acts l' = acts l.
  Proof.
    intros e; induction l as [|x t IH]; intros l' r H; cbn in H; [discriminate|].
    destruct (N.eqb (e_actor C x) (e_actor C e)) eqn:E.
    - inversion H; subst. cbn. apply N.eqb_eq in E. rewrite E. reflexivity.
    - destruct (replace_first C e t) as [[t' r']|] eqn:R; [|discriminate].
      inversion H; subst. cbn. f_equal. eapply IH; reflexivity.
  Qed.

  Lemma replace_first_none : forall e (l : list entry),
    replace_first C e l = None -> ~ In (e_actor C e) (acts l).
  Proof.
    intros e; induction l as [|x t IH]; intros H; cbn in *; [tauto|].
    destruct (N.eqb (e_actor C x) (e_actor C e)) eqn:E; [discriminate|].
    destruct (replace_first C e t) as [[t' r']|] eqn:R; [discriminate|].
    intros [Hx|Hin]; [apply N.eqb_neq in E; auto|apply IH; auto].
  Qed.

  Lemma replace_first_some : forall e (l : list entry),
    In (e_actor C e) (acts l) -> replace_first C e l <> None.
  Proof.
    intros e; induction l as [|x t IH]; intros Hin; cbn in *; [tauto|].
    destruct (N.eqb (e_actor C x) (e_actor C e)) eqn:E; [discriminate|].
    destruct Hin as [Hx|Hin]; [apply N.eqb_neq in E; congruence|].
    specialize (IH Hin). destruct (replace_first C e t) as [[t' r']|]; [discriminate|congruence].
  Qed.

  (* the replaced subscription is the one that actor held, the new one sits at its position,
     and nothing else moves *)
  Lemma replace_first_shape : forall e (l l' : list entry) r,
    replace_first C e l = Some (l', r) ->
    exists l1 x l2, l = l1 ++ x :: l2 /\ l' = l1 ++ e :: l2 /\ e_sid C x = r
                    /\ e_actor C x = e_actor C e /\ ~ In (e_actor C e) (acts l1).
  Proof.
    intros e; induction l as [|x t IH]; intros l' r H; cbn in H; [discriminate|].
    destruct (N.eqb (e_actor C x) (e_actor C e)) eqn:E.
    - inversion H; subst. exists [], x, t. apply N.eqb_eq in E. cbn. repeat split; auto.
    - destruct (replace_first C e t) as [[t' r']|] eqn:R; [|discriminate].
      inversion H; subst. destruct (IH _ _ eq_refl) as (l1 & y & l2 & -> & -> & Hr & Ha & Hn).
      exists (x :: l1), y, l2. cbn. repeat split; auto.
      intros [Hx|Hin]; [apply N.eqb_neq in E; auto|auto].
  Qed.

  Lemma NoDup_snoc : forall A (l : list A) x, NoDup l -> ~ In x l -> NoDup (l ++ [x]).
  Proof.
    induction l as [|y t IH]; intros x Hnd Hn; cbn.
    - constructor; [tauto|constructor].
    - inversion Hnd; subst. constructor.
      + rewrite in_app_iff. cbn. intros [H|[H|[]]]; [auto|subst; apply Hn; left; reflexivity].
      + apply IH; [assumption|]. intro H; apply Hn; right; exact H.
  Qed.

  Lemma apply_subscriber_nodup : forall (l l' : list entry) e r,
    apply_subscriber C false l e = (l', r) -> NoDup (acts l) -> NoDup (acts l').
  Proof.
    intros l l' e r H Hnd. unfold apply_subscriber in H.
    destruct (replace_first C e l) as [[l1 r1]|] eqn:R; inversion H; subst.
    - erewrite replace_first_acts; eauto.
    - unfold acts. rewrite map_app. cbn. apply NoDup_snoc; [exact Hnd|].
      apply replace_first_none; exact R.
  Qed.

  Ltac crack H :=
    repeat (match type of H with
            | (if ?c then _ else _) = _ => destruct c eqn:?
            | match ?x with _ => _ end = _ => destruct x eqn:?
            end; try discriminate).

  Lemma nodup_step : forall (st st' : state) l,
    NoDup (acts (subscribers C st)) -> step st l = Some st' -> NoDup (acts (subscribers C st')).
  Proof.
    intros st st' l Hnd H. destruct l; unfold V2.step in H.
    - (* LPublish *) crack H; inversion H; subst; exact Hnd.
    - (* LSubscribe *) crack H; inversion H; subst; exact Hnd.
    - (* LTake *) crack H; inversion H; subst; exact Hnd.
    - (* LCtl *) crack H; inversion H; subst; exact Hnd.
    - (* LSend *) crack H; inversion H; subst; cbn; try exact Hnd.
      rewrite acts_remove_nth. apply NoDup_remove_nth. exact Hnd.
    - (* LApply *)
      destruct (dp C st) as [|a|a b si|a b si mi|b]; try discriminate.
      destruct (nth_error (batch C st) b) as [[m|s a c]|]; try discriminate.
      destruct (apply_subscriber C false (subscribers C st) (mkEntry C s a c)) as [l' r'] eqn:A.
      destruct (oeqb r r'); [|discriminate]. inversion H; subst; cbn.
      eapply apply_subscriber_nodup; eauto.
    - (* LHandle *) crack H; inversion H; subst; exact Hnd.
    - (* LStop *) crack H; inversion H; subst; exact Hnd.
    - (* LStart *) crack H; inversion H; subst; exact Hnd.
    - (* LClose *) crack H; inversion H; subst; exact Hnd.
  Qed.

  Lemma nodup_run : forall ls (st st' : state),
    NoDup (acts (subscribers C st)) -> run st ls = Some st' -> NoDup (acts (subscribers C st')).
  Proof.
    induction ls as [|l t IH]; intros st st' Hnd H; cbn in H.
    - inversion H; subst; exact Hnd.
    - destruct (step st l) as [st1|] eqn:S; [|discriminate].
      eapply IH; [|exact H]. eapply nodup_step; eauto.
  Qed.

  (* every reachable state of a no-duplicate port: one subscription per actor at most *)
  Theorem v2_nodup_one_per_actor : forall ls st,
    run (init C) ls = Some st -> NoDup (map (e_actor C) (subscribers C st)).
  Proof. intros ls st H. eapply nodup_run; [|exact H]. cbn. constructor. Qed.

  (* two served subscriptions of one actor are the same vector slot *)
  Corollary v2_nodup_same_slot : forall ls st i j ei ej,
    run (init C) ls = Some st ->
    nth_error (subscribers C st) i = Some ei -> nth_error (subscribers C st) j = Some ej ->
    e_actor C ei = e_actor C ej -> i = j.
  Proof.
    intros ls st i j ei ej H Hi Hj Ha.
    pose proof (v2_nodup_one_per_actor _ _ H) as Hnd.
    eapply (proj1 (NoDup_nth_error _) Hnd).
    - apply nth_error_Some. rewrite (map_nth_error (e_actor C) _ _ Hi). discriminate.
    - rewrite (map_nth_error (e_actor C) _ _ Hi), (map_nth_error (e_actor C) _ _ Hj), Ha. reflexivity.
  Qed.

  (* apply_subscriber, exactly (flag false): either the actor held a subscription, which is
     replaced in place and reported, or the new entry is appended and nothing is reported *)
  Theorem apply_subscriber_false_spec : forall (l : list entry) e,
    (exists l1 x l2, l = l1 ++ x :: l2 /\ e_actor C x = e_actor C e /\ ~ In (e_actor C e) (acts l1)
       /\ apply_subscriber C false l e = (l1 ++ e :: l2, Some (e_sid C x)))
    \/ (~ In (e_actor C e) (acts l) /\ apply_subscriber C false l e = (l ++ [e], None)).
  Proof.
    intros l e. unfold apply_subscriber.
    destruct (replace_first C e l) as [[l' r]|] eqn:R.
    - left. destruct (replace_first_shape _ _ _ _ R) as (l1 & x & l2 & -> & -> & Hr & Ha & Hn).
      exists l1, x, l2. subst r. repeat split; auto.
    - right. split; [apply replace_first_none; exact R|reflexivity].
  Qed.
End ND.

(* with the flag true (public port) the per-actor statement is false: two subscriptions of
   actor 7 are both served *)
Example two_subs_refuted :
  exists ls st, V2.run unit (fun _ m => Some m) true (init unit) ls = Some st
                /\ ~ NoDup (map (e_actor unit) (subscribers unit st)).
Proof.
  exists [LSubscribe 0 7 tt; LSubscribe 1 7 tt; LTake 2;
          LCtl; LApply None; LCtl; LApply None].
  eexists. split; [vm_compute; reflexivity|].
  cbn. intro H. inversion H as [|? ? Hn ?]; subst. apply Hn. left; reflexivity.
Qed.

(* and the same labels on a no-duplicate port are not a run (the second apply must report the
   replacement of subscription 0), while with LApply (Some 0) they are, leaving one entry *)
Example nodup_replaces :
  V2.run unit (fun _ m => Some m) false (init unit)
    [LSubscribe 0 7 tt; LSubscribe 1 7 tt; LTake 2;
     LCtl; LApply None; LCtl; LApply None] = None
  /\ option_map (fun st => map (e_sid unit) (subscribers unit st))
       (V2.run unit (fun _ m => Some m) false (init unit)
          [LSubscribe 0 7 tt; LSubscribe 1 7 tt; LTake 2;
           LCtl; LApply None; LCtl; LApply (Some 0%N)]) = Some [1%N].
Proof. vm_compute. split; reflexivity. Qed.
