(* C16 — single-subscription specification automaton `Sub1` for output ports.

   One subscription of an output port, seen in isolation: the messages published
   since it subscribed and not yet taken by its forwarder (`c_backlog`), the
   forwarder's program counter, the part of the receiving actor's mailbox that
   stems from this subscription, what the actor's handler has received from it,
   and whether the actor is alive.  `cap = Some k` is the default port (tokio
   broadcast ring of k slots: a forwarder more than k behind skips to the oldest
   retained item), `cap = None` the v2 port (nothing is ever skipped).

   Both implementation models (V1.v, V2.v) are proved to refine this automaton
   per subscription, with every label that belongs to another subscription or
   another actor erased.  Definitions only; proofs in SpecProofs.v. *)
From Coq Require Import List NArith Bool Arith.
Import ListNotations.

(* ---------- list vocabulary ---------- *)
Fixpoint filter_map {A B} (f : A -> option B) (l : list A) : list B :=
  match l with
  | [] => []
  | x :: t => match f x with Some y => y :: filter_map f t | None => filter_map f t end
  end.

(* order-preserving sub-sequence: every element of l1 is matched by its own,
   strictly later position of l2 (so nothing of l2 is used twice) *)
Inductive sublist {A} : list A -> list A -> Prop :=
| sl_nil : sublist [] []
| sl_skip : forall x l1 l2, sublist l1 l2 -> sublist l1 (x :: l2)
| sl_keep : forall x l1 l2, sublist l1 l2 -> sublist (x :: l1) (x :: l2).

Definition prefix {A} (l1 l2 : list A) : Prop := exists r, l1 ++ r = l2.

Definition lastn {A} (n : nat) (l : list A) : list A := skipn (length l - n) l.

Fixpoint is_sublist (l1 l2 : list N) : bool :=
  match l2 with
  | [] => match l1 with [] => true | _ => false end
  | y :: t2 => match l1 with
               | [] => true
               | x :: t1 => if N.eqb x y then is_sublist t1 t2 else is_sublist l1 t2
               end
  end.

Fixpoint is_prefix (l1 l2 : list N) : bool :=
  match l1, l2 with
  | [], _ => true
  | x :: t1, y :: t2 => N.eqb x y && is_prefix t1 t2
  | _ :: _, [] => false
  end.

Fixpoint nodupb (l : list N) : bool :=
  match l with
  | [] => true
  | x :: t => negb (existsb (N.eqb x) t) && nodupb t
  end.

(* ---------- receiving actors (shared by V1.v and V2.v) ---------- *)
(* `a_alive`: the actor accepts messages (ractor: status < Draining, i.e. Unstarted, Starting,
   Running or Upgrading: `send_message` only rejects from Draining on).  `a_started`: it has
   reached Running; before that (pre_start / post_start still executing) everything cast to it
   is queued in the mailbox and handled once it runs. *)
Record actor := mkActor {
  a_alive : bool;
  a_started : bool;
  a_mbox : list (N * N);    (* (subscription, converted item), oldest first *)
  a_got : list (N * N) }.

Definition actor0 : actor := mkActor true false [] [].   (* every actor begins Starting *)

Definition tagged (s : N) (l : list (N * N)) : list N :=
  map snd (filter (fun x => N.eqb (fst x) s) l).

Definition updf {A} (f : N -> A) (k : N) (v : A) : N -> A :=
  fun x => if N.eqb x k then v else f x.

(* ---------- the automaton ---------- *)
Inductive apc := ANone            (* not subscribed yet *)
               | AIdle            (* forwarder waiting in recv *)
               | AHave (m : N)    (* forwarder holds m: converter + cast still to do *)
               | ADone.           (* forwarder gone (failed cast / replaced) *)

Record core := mkCore {
  c_pc : apc;
  c_backlog : list N;   (* published since subscription, not yet taken, oldest first *)
  c_mbox : list N;      (* converted items in the actor's mailbox (this subscription) *)
  c_got : list N;       (* converted items the actor's handler has received *)
  c_alive : bool }.

Inductive alabel :=
| APub (m : N)   (* the publisher publishes m *)
| ASub           (* this subscription is created *)
| ARecv          (* forwarder: recv completes (item, or Lagged skip-ahead) *)
| ACast          (* forwarder: converter + cast of the held item *)
| AHandle        (* actor: handler takes the next item of this subscription *)
| AStop          (* actor terminates; its mailbox is dropped *)
| ADrop.         (* the port drops this subscription (v2 replacement) *)

Definition ainit : core := mkCore ANone [] [] [] true.

Section Sub1.
  Variable cap : option nat.
  Variable conv : N -> option N.

  Definition lagging (b : list N) : bool :=
    match cap with None => false | Some k => Nat.ltb k (length b) end.
  Definition keep (b : list N) : list N :=
    match cap with None => b | Some k => lastn k b end.

  (* what a Lagged skips *)
  Definition dropped (b : list N) : list N := firstn (length b - length (keep b)) b.

  Definition cstep (c : core) (l : alabel) : option core :=
    match l with
    | APub m =>
        match c_pc c with
        | AIdle | AHave _ => Some (mkCore (c_pc c) (c_backlog c ++ [m]) (c_mbox c) (c_got c) (c_alive c))
        | _ => Some c
        end
    | ASub =>
        match c_pc c with
        | ANone => Some (mkCore AIdle [] (c_mbox c) (c_got c) (c_alive c))
        | _ => None
        end
    | ARecv =>
        match c_pc c, c_backlog c with
        | AIdle, m :: b =>
            if lagging (m :: b)
            then Some (mkCore AIdle (keep (m :: b)) (c_mbox c) (c_got c) (c_alive c))
            else Some (mkCore (AHave m) b (c_mbox c) (c_got c) (c_alive c))
        | _, _ => None
        end
    | ACast =>
        match c_pc c with
        | AHave m =>
            match conv m with
            | None => Some (mkCore AIdle (c_backlog c) (c_mbox c) (c_got c) (c_alive c))
            | Some r =>
                if c_alive c
                then Some (mkCore AIdle (c_backlog c) (c_mbox c ++ [r]) (c_got c) true)
                else Some (mkCore ADone [] (c_mbox c) (c_got c) false)
            end
        | _ => None
        end
    | AHandle =>
        if c_alive c then
          match c_mbox c with
          | r :: q => Some (mkCore (c_pc c) (c_backlog c) q (c_got c ++ [r]) true)
          | [] => None
          end
        else None
    | AStop =>
        if c_alive c then Some (mkCore (c_pc c) (c_backlog c) [] (c_got c) false) else None
    | ADrop =>
        match c_pc c with
        | AIdle | AHave _ => Some (mkCore ADone [] (c_mbox c) (c_got c) (c_alive c))
        | _ => None
        end
    end.

  Fixpoint crun (c : core) (ls : list alabel) : option core :=
    match ls with
    | [] => Some c
    | l :: t => match cstep c l with Some c' => crun c' t | None => None end
    end.

  (* ---------- history (ghost) of a run: never read by cstep ---------- *)
  Record ghost := mkGhost {
    g_pubs : list N;            (* everything published since the subscription *)
    g_hist : list (N * bool);   (* consumed from the backlog, in order: (m, true) taken, (m, false) skipped by a lag *)
    g_cast : list N;            (* items whose converter + cast has been executed *)
    g_lags : nat }.             (* number of Lagged skip-aheads *)

  Definition ginit : ghost := mkGhost [] [] [] 0.

  Definition gstep (c : core) (l : alabel) (g : ghost) : ghost :=
    match l with
    | APub m =>
        match c_pc c with
        | ANone => g
        | _ => mkGhost (g_pubs g ++ [m]) (g_hist g) (g_cast g) (g_lags g)
        end
    | ARecv =>
        match c_pc c, c_backlog c with
        | AIdle, m :: b =>
            if lagging (m :: b)
            then mkGhost (g_pubs g)
                         (g_hist g ++ map (fun x => (x, false)) (dropped (m :: b)))
                         (g_cast g) (S (g_lags g))
            else mkGhost (g_pubs g) (g_hist g ++ [(m, true)]) (g_cast g) (g_lags g)
        | _, _ => g
        end
    | ACast =>
        match c_pc c with
        | AHave m => mkGhost (g_pubs g) (g_hist g) (g_cast g ++ [m]) (g_lags g)
        | _ => g
        end
    | _ => g
    end.

  Fixpoint grun (c : core) (g : ghost) (ls : list alabel) : option (core * ghost) :=
    match ls with
    | [] => Some (c, g)
    | l :: t => match cstep c l with
                | Some c' => grun c' (gstep c l g) t
                | None => None
                end
    end.

  Definition taken (g : ghost) : list N := map fst (filter snd (g_hist g)).
  Definition missed (g : ghost) : list N := map fst (filter (fun x => negb (snd x)) (g_hist g)).
  Definition held (c : core) : list N := match c_pc c with AHave m => [m] | _ => [] end.
  Definition active (c : core) : bool :=
    match c_pc c with AIdle | AHave _ => true | _ => false end.

  (* every state visited by the run (including the first) satisfies P *)
  Fixpoint always (P : core -> Prop) (c : core) (ls : list alabel) : Prop :=
    P c /\ match ls with
           | [] => True
           | l :: t => match cstep c l with Some c' => always P c' t | None => True end
           end.
End Sub1.
Arguments dropped : simpl never.
Arguments keep : simpl never.

(* published messages of an abstract trace after the subscription label *)
Fixpoint apubs_on (ls : list alabel) : list N :=
  match ls with
  | [] => []
  | APub m :: t => m :: apubs_on t
  | _ :: t => apubs_on t
  end.
Fixpoint apubs (ls : list alabel) : list N :=
  match ls with
  | [] => []
  | ASub :: t => apubs_on t
  | _ :: t => apubs t
  end.
