(* C16 — model of the default output port (ractor/src/port/output.rs, mod v1).

   * the tokio broadcast channel, reduced to what the port uses: a tail position,
     the ring of the last `cap` items, the receiver count (`send` is skipped when it
     is 0), one cursor per receiver; `recv` at a cursor more than `cap` behind
     returns Lagged and moves the cursor to `tail - cap` (oldest retained item);
   * one forwarding task per subscription (OutputPortSubscription::new):
     loop { recv; converter; cast }, exits when the cast fails;
   * the subscription vector with pruning of finished tasks on subscribe;
   * receiving actors: alive flag, started flag (a Starting actor accepts and queues
     messages, its handler runs only once it is Running), FIFO mailbox, what the handler has received.
     Items are tagged with the subscription they came through.

   Every scheduler choice is a label.  `log` is ghost (all accepted publishes);
   no step reads it.  Positions are list lengths, hence `nat`; payloads and
   identifiers are `N`.  Definitions only; proofs in V1Proofs.v. *)
From Coq Require Import List NArith Bool Arith.
From RV Require Import OutPort.Spec.
Import ListNotations.

Inductive pc := PRecv | PHave (m : N) | PDone.

Section V1.
  Variable C : Type.                    (* converter descriptions *)
  Variable cv : C -> N -> option N.     (* the converter closure *)
  Variable cap : nat.                   (* ring size of the broadcast channel *)

  Record sub := mkSub {
    s_actor : N;
    s_conv : C;
    s_cursor : nat;
    s_pc : pc }.

  Record state := mkSt {
    tail : nat;                 (* broadcast: next position to be written *)
    ring : list N;              (* the last <= cap items, oldest first *)
    rxcnt : nat;                (* broadcast: live receivers *)
    tasks : N -> option sub;    (* forwarding tasks by subscription id *)
    order : list N;             (* subscription ids in creation order *)
    handles : list N;           (* OutputPort::subscriptions (pruned on subscribe) *)
    actors : N -> actor;
    log : list N;               (* ghost: every accepted publish *)
    closed : bool }.            (* every handle of the port has been dropped (Sender gone) *)

  Inductive label :=
  | LPublish (m : N)              (* OutputPort::send *)
  | LSubscribe (s a : N) (c : C)  (* OutputPort::subscribe; s is the fresh subscription id *)
  | LRecv (s : N)                 (* task s: port.recv() returns (item or Lagged) *)
  | LCast (s : N)                 (* task s: converter(msg) and receiver.cast *)
  | LHandle (a s : N)             (* actor a: handler takes the mailbox head, which came through s *)
  | LStop (a : N)                 (* actor a terminates (stop, kill, handler or pre_start error) *)
  | LStart (a : N)                (* actor a finishes pre_start/post_start: Starting -> Running *)
  | LClose                        (* the port (every handle of it) is dropped *)
  | LEnd (s : N).                 (* task s: recv returns Closed, the task ends *)

  Definition init : state :=
    mkSt 0 [] 0 (fun _ => None) [] [] (fun _ => actor0) [] false.

  Definition push (r : list N) (m : N) : list N := lastn cap (r ++ [m]).

  Definition is_dead (st : state) (s : N) : bool :=
    match tasks st s with
    | Some sb => match s_pc sb with PDone => true | _ => false end
    | None => true
    end.

  Definition set_task (st : state) (s : N) (sb : sub) : state :=
    mkSt (tail st) (ring st) (rxcnt st) (updf (tasks st) s (Some sb)) (order st)
         (handles st) (actors st) (log st) (closed st).

  Definition set_actor (st : state) (a : N) (x : actor) : state :=
    mkSt (tail st) (ring st) (rxcnt st) (tasks st) (order st)
         (handles st) (updf (actors st) a x) (log st) (closed st).

  Definition step (st : state) (l : label) : option state :=
    match l with
    | LPublish m =>
        (* if self.tx.receiver_count() > 0 { let _ = self.tx.send(Some(msg)); } *)
        if closed st then None             (* no handle left to call send on *)
        else if Nat.eqb (rxcnt st) 0 then Some st
        else Some (mkSt (S (tail st)) (push (ring st) m) (rxcnt st) (tasks st) (order st)
                        (handles st) (actors st) (log st ++ [m]) (closed st))
    | LSubscribe s a c =>
        if closed st then None else
        match tasks st s with
        | Some _ => None
        | None =>
            (* subs.retain(|sub| !sub.is_dead()); tx.subscribe(); spawn; subs.push *)
            Some (mkSt (tail st) (ring st) (S (rxcnt st))
                       (updf (tasks st) s (Some (mkSub a c (tail st) PRecv)))
                       (order st ++ [s])
                       (filter (fun h => negb (is_dead st h)) (handles st) ++ [s])
                       (actors st) (log st) (closed st))
        end
    | LRecv s =>
        match tasks st s with
        | Some sb =>
            match s_pc sb with
            | PRecv =>
                let behind := tail st - s_cursor sb in
                if Nat.eqb behind 0 then None                       (* empty: the task stays parked *)
                else if Nat.leb behind cap then
                  match nth_error (ring st) (length (ring st) - behind) with
                  | Some m => Some (set_task st s (mkSub (s_actor sb) (s_conv sb) (S (s_cursor sb)) (PHave m)))
                  | None => None
                  end
                else (* Err(Lagged(_)) => continue; cursor := oldest retained *)
                  Some (set_task st s (mkSub (s_actor sb) (s_conv sb) (tail st - cap) PRecv))
            | _ => None
            end
        | None => None
        end
    | LCast s =>
        match tasks st s with
        | Some sb =>
            match s_pc sb with
            | PHave m =>
                match cv (s_conv sb) m with
                | None => Some (set_task st s (mkSub (s_actor sb) (s_conv sb) (s_cursor sb) PRecv))
                | Some r =>
                    let x := actors st (s_actor sb) in
                    if a_alive x then
                      Some (set_actor
                              (set_task st s (mkSub (s_actor sb) (s_conv sb) (s_cursor sb) PRecv))
                              (s_actor sb) (mkActor true (a_started x) (a_mbox x ++ [(s, r)]) (a_got x)))
                    else (* cast failed: return; the Receiver is dropped *)
                      Some (mkSt (tail st) (ring st) (pred (rxcnt st))
                                 (updf (tasks st) s (Some (mkSub (s_actor sb) (s_conv sb) (s_cursor sb) PDone)))
                                 (order st) (handles st) (actors st) (log st) (closed st))
                end
            | _ => None
            end
        | None => None
        end
    | LHandle a s =>
        let x := actors st a in
        if a_alive x && a_started x then
          match a_mbox x with
          | (s', r) :: q =>
              if N.eqb s' s
              then Some (set_actor st a (mkActor true true q (a_got x ++ [(s', r)])))
              else None
          | [] => None
          end
        else None
    | LStop a =>
        let x := actors st a in
        if a_alive x then Some (set_actor st a (mkActor false (a_started x) [] (a_got x))) else None
    | LStart a =>
        let x := actors st a in
        if a_alive x && negb (a_started x)
        then Some (set_actor st a (mkActor true true (a_mbox x) (a_got x))) else None
    | LClose =>
        (* the last handle of the port is dropped: the broadcast Sender goes away *)
        if closed st then None
        else Some (mkSt (tail st) (ring st) (rxcnt st) (tasks st) (order st)
                        (handles st) (actors st) (log st) true)
    | LEnd s =>
        (* task s: port.recv() returns Err(Closed) — only once everything buffered has been
           taken (tokio reports Closed only at next == tail); the task returns *)
        match tasks st s with
        | Some sb =>
            match s_pc sb with
            | PRecv =>
                if closed st && Nat.eqb (tail st - s_cursor sb) 0
                then Some (mkSt (tail st) (ring st) (pred (rxcnt st))
                                (updf (tasks st) s (Some (mkSub (s_actor sb) (s_conv sb) (s_cursor sb) PDone)))
                                (order st) (handles st) (actors st) (log st) (closed st))
                else None
            | _ => None
            end
        | None => None
        end
    end.

  Fixpoint run (st : state) (ls : list label) : option state :=
    match ls with
    | [] => Some st
    | l :: t => match step st l with Some st' => run st' t | None => None end
    end.

  (* what the handler of the actor behind subscription s has received through s *)
  Definition received (st : state) (s : N) : list N :=
    match tasks st s with
    | Some sb => tagged s (a_got (actors st (s_actor sb)))
    | None => []
    end.

  (* how far the forwarder of s is behind the channel (accepted publishes it has not taken) *)
  Definition behind (st : state) (s : N) : nat :=
    match tasks st s with
    | Some sb => match s_pc sb with PDone => 0 | _ => tail st - s_cursor sb end
    | None => 0
    end.
  (* in every state visited by the run, s is at most `cap` behind *)
  Fixpoint never_behind (st : state) (s : N) (ls : list label) : Prop :=
    behind st s <= cap /\
    match ls with
    | [] => True
    | l :: t => match step st l with Some st' => never_behind st' s t | None => True end
    end.

  (* ---------- specification vocabulary over label sequences ---------- *)
  Fixpoint pubs_on (ls : list label) : list N :=
    match ls with
    | [] => []
    | LPublish m :: t => m :: pubs_on t
    | _ :: t => pubs_on t
    end.
  (* messages published after subscription s was created *)
  Fixpoint pubs_after (s : N) (ls : list label) : list N :=
    match ls with
    | [] => []
    | LSubscribe s' _ _ :: t => if N.eqb s' s then pubs_on t else pubs_after s t
    | _ :: t => pubs_after s t
    end.
  Fixpoint conv_of (s : N) (ls : list label) : option (N * C) :=
    match ls with
    | [] => None
    | LSubscribe s' a c :: t => if N.eqb s' s then Some (a, c) else conv_of s t
    | _ :: t => conv_of s t
    end.

  (* projection of a port label onto subscription s whose receiver is actor a:
     everything that belongs to other subscriptions or other actors is erased *)
  Definition proj (s a : N) (l : label) : list alabel :=
    match l with
    | LPublish m => [APub m]
    | LSubscribe s' _ _ => if N.eqb s' s then [ASub] else []
    | LRecv s' => if N.eqb s' s then [ARecv] else []
    | LCast s' => if N.eqb s' s then [ACast] else []
    | LHandle _ s' => if N.eqb s' s then [AHandle] else []
    | LStop a' => if N.eqb a' a then [AStop] else []
    | LStart _ => []
    | LClose => []
    | LEnd s' => if N.eqb s' s then [ADrop] else []
    end.
  Definition projs (s a : N) (ls : list label) : list alabel := flat_map (proj s a) ls.

  (* abstraction: the Sub1 state of subscription s (receiver a) inside a port state *)
  Definition absv (s a : N) (st : state) : core :=
    let x := actors st a in
    match tasks st s with
    | None => mkCore ANone [] (tagged s (a_mbox x)) (tagged s (a_got x)) (a_alive x)
    | Some sb =>
        mkCore (match s_pc sb with PRecv => AIdle | PHave m => AHave m | PDone => ADone end)
               (match s_pc sb with PDone => [] | _ => skipn (s_cursor sb) (log st) end)
               (tagged s (a_mbox x)) (tagged s (a_got x)) (a_alive x)
    end.
End V1.

Arguments LPublish {C}.
Arguments LSubscribe {C}.
Arguments LRecv {C}.
Arguments LCast {C}.
Arguments LHandle {C}.
Arguments LStop {C}.
Arguments LStart {C}.
Arguments LClose {C}.
Arguments LEnd {C}.
