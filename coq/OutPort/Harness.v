(* C16 — the scenario language shared with harness/src/bin/eng_outport.rs, the
   canonical scheduler that turns a scenario into a label sequence of V1 / V2
   (by construction a run of the model), and the executable oracle `check_C16`
   that is evaluated on the implementation's per-subscription sequences.
   Definitions only; proofs in HarnessProofs.v. *)
From Coq Require Import List NArith Bool Arith.
From RV Require Import OutPort.Spec.
From RV Require OutPort.V1 OutPort.V2.
Import ListNotations.
Local Open Scope N_scope.

(* converter closures used by the harness: Some (k*mul+add) when k mod m = r *)
Record cspec := mkC { k_mod : N; k_res : N; k_mul : N; k_add : N }.
Definition cv (c : cspec) (k : N) : option N :=
  if k_mod c =? 0 then None
  else if (k mod k_mod c) =? k_res c then Some (k * k_mul c + k_add c) else None.

(* driver operations, executed back to back on a paused single-threaded runtime;
   only OSettle / OKill let the other tasks run (to quiescence) *)
Inductive op :=
| OPub (m : N)
| OSub (a : N) (c : cspec)     (* subscription ids are 0,1,2,... in order *)
| OSettle
| OKill (a : N)                (* settle; kill actor a; settle *)
| OHold (a : N)                (* close a's gate: its handler waits for permits *)
| OGive (a : N) (n : nat)      (* n permits *)
| OOpen (a : N)                (* open the gate *)
| OStart (a : N)               (* a's parked pre_start returns Ok: a becomes Running; settle *)
| OFailStart (a : N)           (* settle; a's parked pre_start returns Err: a dies while Starting; settle *)
| ODrop.                       (* every handle of the port is dropped (no settle) *)

Record scen := mkScen {
  sc_poison : list (N * N);    (* (actor, item): the handler fails after receiving item *)
  sc_ops : list op }.

Record hst := mkH {
  h_gate : N -> option nat;    (* None = open *)
  h_dying : option N;          (* actor whose handler just failed *)
  h_nsub : N;
  h_actors : list N }.         (* receivers of the subscriptions made so far *)

Definition h0 : hst := mkH (fun _ => None) None 0 [].

Definition in_poison (p : list (N * N)) (a r : N) : bool :=
  existsb (fun x => (fst x =? a) && (snd x =? r)) p.

Definition gate_ok (h : hst) (a : N) : bool :=
  match h_gate h a with None => true | Some O => false | Some (S _) => true end.
Definition gate_use (h : hst) (a : N) : N -> option nat :=
  match h_gate h a with
  | Some (S k) => updf (h_gate h) a (Some k)
  | _ => h_gate h
  end.

(* first actor whose handler can take a message *)
Fixpoint pick_actor (actors : N -> actor) (h : hst) (l : list N) : option (N * N * N) :=
  match l with
  | [] => None
  | a :: t =>
      let x := actors a in
      if a_alive x && a_started x && gate_ok h a then
        match a_mbox x with
        | (s, r) :: _ => Some (a, s, r)
        | [] => pick_actor actors h t
        end
      else pick_actor actors h t
  end.

Definition after_handle (p : list (N * N)) (h : hst) (a r : N) : hst :=
  mkH (gate_use h a) (if in_poison p a r then Some a else None) (h_nsub h) (h_actors h).

(* a settle runs `fuel` rounds of at most `fuel` steps each (two levels keep the unary number small
   for bursts of thousands of publishes) *)
Definition nat_fuel (ops : list op) : nat := 4 * length ops + 64.

(* ------------------------------------------------------------------ V1 *)
Module X1.
  Import V1.
  Definition st := V1.state cspec.
  Definition lab := V1.label cspec.

  Fixpoint pick_cast (st : st) (l : list N) : option N :=
    match l with
    | [] => None
    | s :: t => match tasks _ st s with
                | Some sb => match s_pc _ sb with PHave _ => Some s | _ => pick_cast st t end
                | None => pick_cast st t
                end
    end.
  Fixpoint pick_recv (st : st) (l : list N) : option N :=
    match l with
    | [] => None
    | s :: t => match tasks _ st s with
                | Some sb => match s_pc _ sb with
                             | PRecv => if Nat.ltb (s_cursor _ sb) (tail _ st) then Some s else pick_recv st t
                             | _ => pick_recv st t
                             end
                | None => pick_recv st t
                end
    end.

  (* a parked forwarder of a dropped port: recv reports Closed *)
  Fixpoint pick_end (st : st) (l : list N) : option N :=
    match l with
    | [] => None
    | s :: t => match tasks _ st s with
                | Some sb => match s_pc _ sb with
                             | PRecv => if closed _ st && Nat.eqb (tail _ st - s_cursor _ sb) 0
                                        then Some s else pick_end st t
                             | _ => pick_end st t
                             end
                | None => pick_end st t
                end
    end.

  Definition choose (p : list (N * N)) (h : hst) (st : st) : option (lab * hst) :=
    match h_dying h with
    | Some a => Some (LStop a, mkH (h_gate h) None (h_nsub h) (h_actors h))
    | None =>
        match pick_cast st (order _ st) with
        | Some s => Some (LCast s, h)
        | None =>
            match pick_recv st (order _ st) with
            | Some s => Some (LRecv s, h)
            | None =>
                match pick_end st (order _ st) with
                | Some s => Some (LEnd s, h)
                | None =>
                    match pick_actor (actors _ st) h (h_actors h) with
                    | Some (a, s, r) => Some (LHandle a s, after_handle p h a r)
                    | None => None
                    end
                end
            end
        end
    end.

  Definition cfg := (hst * st * list lab)%type.   (* labels newest first *)

  Fixpoint settle1 (cap : nat) (p : list (N * N)) (fuel : nat) (c : cfg) : cfg :=
    match fuel with
    | O => c
    | S f =>
        let '(h, st, acc) := c in
        match choose p h st with
        | None => c
        | Some (l, h') =>
            match step _ cv cap st l with
            | Some st' => settle1 cap p f (h', st', l :: acc)
            | None => c
            end
        end
    end.

  Definition settle (cap : nat) (p : list (N * N)) (fuel : nat) (c : cfg) : cfg :=
    Nat.iter fuel (settle1 cap p fuel) c.

  Definition fire (cap : nat) (c : cfg) (l : lab) : cfg :=
    let '(h, st, acc) := c in
    match step _ cv cap st l with
    | Some st' => (h, st', l :: acc)
    | None => c
    end.

  Definition set_h (c : cfg) (h : hst) : cfg := let '(_, st, acc) := c in (h, st, acc).
  Definition get_h (c : cfg) : hst := let '(h, _, _) := c in h.

  Definition do_op (cap : nat) (p : list (N * N)) (fuel : nat) (c : cfg) (o : op) : cfg :=
    let h := get_h c in
    match o with
    | OPub m => fire cap c (LPublish m)
    | OSub a k =>
        set_h (fire cap c (LSubscribe (h_nsub h) a k))
              (mkH (h_gate h) (h_dying h) (h_nsub h + 1) (h_actors h ++ [a]))
    | OSettle => settle cap p fuel c
    | OKill a => settle cap p fuel (fire cap (settle cap p fuel c) (LStop a))
    | OHold a => set_h c (mkH (updf (h_gate h) a (Some O)) (h_dying h) (h_nsub h) (h_actors h))
    | OGive a n =>
        set_h c (mkH (match h_gate h a with
                      | Some k => updf (h_gate h) a (Some (k + n)%nat)
                      | None => h_gate h
                      end) (h_dying h) (h_nsub h) (h_actors h))
    | OOpen a => set_h c (mkH (updf (h_gate h) a None) (h_dying h) (h_nsub h) (h_actors h))
    | OStart a => settle cap p fuel (fire cap c (LStart a))
    | OFailStart a => settle cap p fuel (fire cap (settle cap p fuel c) (LStop a))
    | ODrop => fire cap c LClose
    end.

  Definition exec (cap : nat) (sc : scen) : cfg :=
    fold_left (do_op cap (sc_poison sc) (nat_fuel (sc_ops sc))) (sc_ops sc) (h0, init _, []).

  Definition trace (cap : nat) (sc : scen) : list lab := let '(_, _, acc) := exec cap sc in rev acc.

  (* converter invocations per subscription = number of LCast steps of its forwarder *)
  Definition conv_calls (cap : nat) (sc : scen) : list nat :=
    let '(h, _, acc) := exec cap sc in
    map (fun s => length (filter (fun l => match l with LCast s' => s' =? N.of_nat s | _ => false end) acc))
        (seq 0 (N.to_nat (h_nsub h))).

  Definition result (cap : nat) (sc : scen) : list (list N) :=
    let '(h, st, _) := exec cap sc in
    map (fun s => received _ st (N.of_nat s)) (seq 0 (N.to_nat (h_nsub h))).

  (* one execution, both views *)
  Definition both (cap : nat) (sc : scen) : list (list N) * list nat :=
    let '(h, st, acc) := exec cap sc in
    (map (fun s => received _ st (N.of_nat s)) (seq 0 (N.to_nat (h_nsub h))),
     map (fun s => length (filter (fun l => match l with LCast s' => s' =? N.of_nat s | _ => false end) acc))
         (seq 0 (N.to_nat (h_nsub h)))).
End X1.

(* ------------------------------------------------------------------ V2 *)
Module X2.
  Import V2.
  Definition st := V2.state cspec.
  Definition lab := V2.label cspec.

  Definition choose (ad : bool) (p : list (N * N)) (h : hst) (st : st) : option (lab * hst) :=
    match h_dying h with
    | Some a => Some (LStop a, mkH (h_gate h) None (h_nsub h) (h_actors h))
    | None =>
        match dp _ st with
        | DMsg _ b si mi =>
            if Nat.ltb mi b then
              match nth_error (subscribers _ st) si with
              | Some e => Some (LSend (e_sid _ e), h)
              | None => None
              end
            else Some (LCtl, h)
        | DApply b =>
            match nth_error (batch _ st) b with
            | Some (SetSub s a c) =>
                Some (LApply (snd (apply_subscriber _ ad (subscribers _ st) (mkEntry _ s a c))), h)
            | _ => Some (LCtl, h)
            end
        | DSeg _ | DSub _ _ _ => Some (LCtl, h)
        | DIdle =>
            match queue _ st with
            | _ :: _ => Some (LTake (Nat.min max_batch (length (queue _ st))), h)
            | [] =>
                match pick_actor (actors _ st) h (h_actors h) with
                | Some (a, s, r) => Some (LHandle a s, after_handle p h a r)
                | None => None
                end
            end
        end
    end.

  Definition cfg := (hst * st * list lab)%type.

  Fixpoint settle1 (ad : bool) (p : list (N * N)) (fuel : nat) (c : cfg) : cfg :=
    match fuel with
    | O => c
    | S f =>
        let '(h, st, acc) := c in
        match choose ad p h st with
        | None => c
        | Some (l, h') =>
            match step _ cv ad st l with
            | Some st' => settle1 ad p f (h', st', l :: acc)
            | None => c
            end
        end
    end.

  Definition settle (ad : bool) (p : list (N * N)) (fuel : nat) (c : cfg) : cfg :=
    Nat.iter fuel (settle1 ad p fuel) c.

  Definition fire (ad : bool) (c : cfg) (l : lab) : cfg :=
    let '(h, st, acc) := c in
    match step _ cv ad st l with
    | Some st' => (h, st', l :: acc)
    | None => c
    end.

  Definition set_h (c : cfg) (h : hst) : cfg := let '(_, st, acc) := c in (h, st, acc).
  Definition get_h (c : cfg) : hst := let '(h, _, _) := c in h.

  Definition do_op (ad : bool) (p : list (N * N)) (fuel : nat) (c : cfg) (o : op) : cfg :=
    let h := get_h c in
    match o with
    | OPub m => fire ad c (LPublish m)
    | OSub a k =>
        set_h (fire ad c (LSubscribe (h_nsub h) a k))
              (mkH (h_gate h) (h_dying h) (h_nsub h + 1) (h_actors h ++ [a]))
    | OSettle => settle ad p fuel c
    | OKill a => settle ad p fuel (fire ad (settle ad p fuel c) (LStop a))
    | OHold a => set_h c (mkH (updf (h_gate h) a (Some O)) (h_dying h) (h_nsub h) (h_actors h))
    | OGive a n =>
        set_h c (mkH (match h_gate h a with
                      | Some k => updf (h_gate h) a (Some (k + n)%nat)
                      | None => h_gate h
                      end) (h_dying h) (h_nsub h) (h_actors h))
    | OOpen a => set_h c (mkH (updf (h_gate h) a None) (h_dying h) (h_nsub h) (h_actors h))
    | OStart a => settle ad p fuel (fire ad c (LStart a))
    | OFailStart a => settle ad p fuel (fire ad (settle ad p fuel c) (LStop a))
    | ODrop => fire ad c LClose
    end.

  Definition exec (ad : bool) (sc : scen) : cfg :=
    fold_left (do_op ad (sc_poison sc) (nat_fuel (sc_ops sc))) (sc_ops sc) (h0, init _, []).

  Definition trace (ad : bool) (sc : scen) : list lab := let '(_, _, acc) := exec ad sc in rev acc.

  Fixpoint sub_actors (ops : list op) : list N :=
    match ops with
    | [] => []
    | OSub a _ :: t => a :: sub_actors t
    | _ :: t => sub_actors t
    end.

  (* converter invocations per subscription = number of sends the port task makes to it *)
  Definition conv_calls (ad : bool) (sc : scen) : list nat :=
    let '(h, _, acc) := exec ad sc in
    map (fun s => length (filter (fun l => match l with LSend s' => s' =? N.of_nat s | _ => false end) acc))
        (seq 0 (N.to_nat (h_nsub h))).

  Definition result (ad : bool) (sc : scen) : list (list N) :=
    let '(_, st, _) := exec ad sc in
    map (fun sa => received _ st (N.of_nat (fst sa)) (snd sa))
        (combine (seq 0 (length (sub_actors (sc_ops sc)))) (sub_actors (sc_ops sc))).
  Definition both (ad : bool) (sc : scen) : list (list N) * list nat :=
    let '(h, st, acc) := exec ad sc in
    (map (fun sa => received _ st (N.of_nat (fst sa)) (snd sa))
         (combine (seq 0 (length (sub_actors (sc_ops sc)))) (sub_actors (sc_ops sc))),
     map (fun s => length (filter (fun l => match l with LSend s' => s' =? N.of_nat s | _ => false end) acc))
         (seq 0 (N.to_nat (h_nsub h)))).
End X2.

(* ------------------------------------------------------------------ oracle *)
(* The property evaluated directly on a scenario and the per-subscription
   received sequences (of the implementation); independent of V1.v / V2.v. *)
Fixpoint pubs_ops (ops : list op) : list N :=
  match ops with
  | [] => []
  | OPub m :: t => m :: pubs_ops t
  | _ :: t => pubs_ops t
  end.

(* publishes per settle window: closed windows (oldest first) and the open rest *)
Fixpoint windows (ops : list op) (cur : list N) : list (list N) * list N :=
  match ops with
  | [] => ([], cur)
  | OPub m :: t => windows t (cur ++ [m])
  | OSettle :: t | OKill _ :: t | OStart _ :: t | OFailStart _ :: t =>
      let '(ws, r) := windows t [] in (cur :: ws, r)
  | _ :: t => windows t cur
  end.

Fixpoint gate_open_at_end (a : N) (ops : list op) (cur : bool) : bool :=
  match ops with
  | [] => cur
  | OHold a' :: t => gate_open_at_end a t (if a' =? a then false else cur)
  | OOpen a' :: t => gate_open_at_end a t (if a' =? a then true else cur)
  | _ :: t => gate_open_at_end a t cur
  end.

Definition killed (a : N) (ops : list op) : bool :=
  existsb (fun o => match o with OKill a' => a' =? a | _ => false end) ops.

Definition started (a : N) (ops : list op) : bool :=
  existsb (fun o => match o with OStart a' => a' =? a | _ => false end) ops
  && negb (existsb (fun o => match o with OFailStart a' => a' =? a | _ => false end) ops).

(* the operations up to and including the first stop of actor a (its pre-settle closes the
   last window before the stop); everything if a is never stopped *)
Fixpoint upto_kill (a : N) (ops : list op) : list op :=
  match ops with
  | [] => []
  | OKill a' :: t => if a' =? a then [OKill a'] else OKill a' :: upto_kill a t
  | o :: t => o :: upto_kill a t
  end.

(* until it is stopped (if ever), actor a reaches Running, is not poisoned, and its gate is open
   at that point: it must have handled everything delivered in the settle windows before *)
Definition kills (a : N) (ops : list op) : nat :=
  length (filter (fun o => match o with OKill a' => a' =? a | _ => false end) ops).

Definition clean (sc : scen) (a : N) (after : list op) : bool :=
  let ops := upto_kill a (sc_ops sc) in
  negb (existsb (fun x => fst x =? a) (sc_poison sc))
  && gate_open_at_end a ops true && started a ops
  && Nat.eqb (kills a (sc_ops sc)) (kills a after).     (* not already stopped when subscribed *)

(* allow_duplicate_subscription = false: a later subscription of the same actor replaces this
   one at its position in the command stream; what this one is owed ends there *)
Fixpoint upto_resub (a : N) (ops : list op) : list op :=
  match ops with
  | [] => []
  | OSub a' c :: t => if a' =? a then [] else OSub a' c :: upto_resub a t
  | o :: t => o :: upto_resub a t
  end.

Definition check_sub (v2 nd : bool) (cap : nat) (sc : scen) (a : N) (c : cspec)
           (after0 : list op) (got : list N) : bool :=
  let after := if nd then upto_resub a after0 else after0 in
  let all := filter_map (cv c) (pubs_ops after) in
  let '(ws, _) := windows (upto_kill a after) [] in
  let required :=
    flat_map (fun w => filter_map (cv c) (if v2 then w else lastn cap w)) ws in
  is_sublist got all                                   (* published after subscription, in order, each at most once *)
  && (if nodupb all then nodupb got else true)          (* never twice *)
  && (if v2 then is_prefix got all else true)           (* v2: none skipped *)
  && (if clean sc a after0 then is_sublist required got else true).   (* complete up to the ring size, until a is stopped *)

Fixpoint check_ops (v2 nd : bool) (cap : nat) (sc : scen) (ops : list op) (res : list (list N)) : bool :=
  match ops with
  | [] => match res with [] => true | _ => false end
  | OSub a c :: t =>
      match res with
      | got :: res' => check_sub v2 nd cap sc a c t got && check_ops v2 nd cap sc t res'
      | [] => false
      end
  | _ :: t => check_ops v2 nd cap sc t res
  end.

Definition check_C16 (v2 : bool) (cap : nat) (sc : scen) (res : list (list N)) : bool :=
  check_ops v2 false cap sc (sc_ops sc) res.

(* what the harness observed for a scenario: the per-subscription sequences, or that the driver
   never came back from a publish / subscribe call (watchdog).  Publishing never blocks
   (C16_v1_publish_nonblocking, C16_v2_publish_nonblocking): Blocked is always rejected. *)
Inductive obs := Done (res : list (list N)) | Blocked.
Definition check_C16_obs (v2 nd : bool) (cap : nat) (sc : scen) (o : obs) : bool :=
  match o with
  | Done res => check_ops v2 nd cap sc (sc_ops sc) res
  | Blocked => false
  end.

(* "A subscriber that has stopped is dropped": the inputs on which the converter of each
   subscription was invoked (observed by the harness closures).  They are a sub-sequence of what
   was published after the subscription, and after the receiver has been stopped (OKill a: settle,
   stop, settle) the converter runs on at most one further message that it maps to Some — the one
   whose failed cast / send ends the subscription.  (Only judged when all payloads are distinct.) *)
Fixpoint after_kill (a : N) (ops : list op) : list op :=
  match ops with
  | [] => []
  | OKill a' :: t => if a' =? a then t else after_kill a t
  | _ :: t => after_kill a t
  end.

Definition check_calls_sub (a : N) (c : cspec) (after : list op) (calls : list N) : bool :=
  let post := pubs_ops (after_kill a after) in
  is_sublist calls (pubs_ops after)
  && Nat.leb (length (filter (fun m => existsb (N.eqb m) post
                                        && match cv c m with Some _ => true | None => false end) calls)) 1.

Fixpoint check_calls_ops (ops : list op) (calls : list (list N)) : bool :=
  match ops with
  | [] => match calls with [] => true | _ => false end
  | OSub a c :: t =>
      match calls with
      | k :: calls' => check_calls_sub a c t k && check_calls_ops t calls'
      | [] => false
      end
  | _ :: t => check_calls_ops t calls
  end.

Definition check_C16_calls (sc : scen) (calls : list (list N)) : bool :=
  if nodupb (pubs_ops (sc_ops sc)) then check_calls_ops (sc_ops sc) calls else true.

(* v2 port created with allow_duplicate_subscription = false *)
Definition check_C16_nodup (cap : nat) (sc : scen) (res : list (list N)) : bool :=
  check_ops true true cap sc (sc_ops sc) res.

(* shorthand used by the generated cases: n consecutive publishes *)
Definition burst (from : N) (n : nat) : list op :=
  map (fun k => OPub (from + N.of_nat k)) (seq 0 n).
