(* C16 — model of the v2 output port (ractor/src/port/output.rs, mod v2::inner,
   feature output-port-v2).

   * `send`/`subscribe` append `Data` / `SetSubscriber` commands to an unbounded queue;
   * the port task: loop { recv_many(batch, clamp(len,1,32)); dispatch_batch };
   * `dispatch_batch` transcribed loop by loop as a small-step machine (`dpc`):
     segments of Data between SetSubscriber commands; for each subscriber (vector
     order) the whole segment is sent; a failed send removes the subscriber;
     then the SetSubscriber at the segment end is applied (`apply_subscriber`,
     with the allow_duplicate_subscription flag; the public port uses `true`);
   * receiving actors as in V1.

   Every scheduler choice is a label.  `decl` is ghost bookkeeping (receiver and
   converter of every subscription id used so far).  Definitions only; proofs in V2Proofs.v. *)
From Coq Require Import List NArith Bool Arith.
From RV Require Import OutPort.Spec.
Import ListNotations.

Definition max_batch : nat := 32.   (* MAX_BATCH_SIZE *)

Section V2.
  Variable C : Type.
  Variable cv : C -> N -> option N.
  Variable allow_dup : bool.        (* allow_duplicate_subscription *)

  Inductive cmd :=
  | Data (m : N)
  | SetSub (s a : N) (c : C).       (* SetSubscriber(Some(Filtering { actor_ref: a, filter: c })) *)

  (* program counter of the port task inside dispatch_batch *)
  Inductive dpc :=
  | DIdle                              (* in rx.recv_many *)
  | DSeg (start : nat)                 (* head of `while segment_start < batch.len()` *)
  | DSub (a b si : nat)                (* head of `while subscriber_index < subscribers.len()`, segment [a,b) *)
  | DMsg (a b si mi : nat)             (* head of `while message_index < segment_end` *)
  | DApply (b : nat).                  (* after the subscriber loop, at batch[b] *)

  Record entry := mkEntry { e_sid : N; e_actor : N; e_conv : C }.

  Record state := mkSt {
    queue : list cmd;
    batch : list cmd;
    dp : dpc;
    subscribers : list entry;
    actors : N -> actor;
    decl : N -> option (N * C);   (* ghost: receiver and converter of every subscription made *)
    closed : bool }.              (* every handle of the port has been dropped (mpsc Sender gone) *)

  Inductive label :=
  | LPublish (m : N)
  | LSubscribe (s a : N) (c : C)
  | LTake (n : nat)                 (* recv_many returns n commands *)
  | LCtl                            (* a control step of dispatch_batch (no send) *)
  | LSend (s : N)                   (* subscribers[subscriber_index].send(batch[message_index]); that subscriber is s *)
  | LApply (r : option N)           (* apply_subscriber; r = the subscription it replaces *)
  | LHandle (a s : N)
  | LStop (a : N)
  | LStart (a : N)                  (* Starting -> Running *)
  | LClose.                         (* the port (every handle) is dropped; the port task keeps
                                       receiving what is queued (recv_many returns 0 only when
                                       the queue is empty and all senders are gone) *)

  Definition init : state := mkSt [] [] DIdle [] (fun _ => actor0) (fun _ => None) false.

  Definition is_set (c : cmd) : bool := match c with SetSub _ _ _ => true | Data _ => false end.

  (* position of the first SetSubscriber at or after `from`, else batch.len() *)
  Fixpoint seg_end (b : list cmd) (from : nat) : nat :=
    match b with
    | [] => from
    | c :: t => if is_set c then from else seg_end t (S from)
    end.

  Definition set_dp (st : state) (d : dpc) : state :=
    mkSt (queue st) (batch st) d (subscribers st) (actors st) (decl st) (closed st).

  Fixpoint remove_nth {A} (n : nat) (l : list A) : list A :=
    match l, n with
    | [], _ => []
    | _ :: t, O => t
    | x :: t, S k => x :: remove_nth k t
    end.

  (* apply_subscriber: returns the new vector and the replaced subscription *)
  Fixpoint replace_first (e : entry) (l : list entry) : option (list entry * N) :=
    match l with
    | [] => None
    | x :: t =>
        if N.eqb (e_actor x) (e_actor e) then Some (e :: t, e_sid x)
        else match replace_first e t with
             | Some (t', r) => Some (x :: t', r)
             | None => None
             end
    end.
  Definition apply_subscriber (l : list entry) (e : entry) : list entry * option N :=
    if allow_dup then (l ++ [e], None)
    else match replace_first e l with
         | Some (l', r) => (l', Some r)
         | None => (l ++ [e], None)
         end.

  Definition oeqb (a b : option N) : bool :=
    match a, b with
    | Some x, Some y => N.eqb x y
    | None, None => true
    | _, _ => false
    end.

  Definition step (st : state) (l : label) : option state :=
    match l with
    | LPublish m =>
        if closed st then None else
        Some (mkSt (queue st ++ [Data m]) (batch st) (dp st) (subscribers st) (actors st) (decl st) (closed st))
    | LSubscribe s a c =>
        if closed st then None else
        match decl st s with
        | Some _ => None
        | None => Some (mkSt (queue st ++ [SetSub s a c]) (batch st) (dp st) (subscribers st)
                             (actors st) (updf (decl st) s (Some (a, c))) (closed st))
        end
    | LTake n =>
        match dp st with
        | DIdle =>
            if (Nat.leb 1 n && Nat.leb n max_batch && Nat.leb n (length (queue st)))%bool
            then Some (mkSt (skipn n (queue st)) (firstn n (queue st)) (DSeg 0)
                            (subscribers st) (actors st) (decl st) (closed st))
            else None
        | _ => None
        end
    | LCtl =>
        match dp st with
        | DIdle => None
        | DSeg a =>
            if Nat.ltb a (length (batch st)) then
              let b := seg_end (skipn a (batch st)) a in
              if Nat.ltb a b then Some (set_dp st (DSub a b 0)) else Some (set_dp st (DApply b))
            else (* batch.clear() *)
              Some (mkSt (queue st) [] DIdle (subscribers st) (actors st) (decl st) (closed st))
        | DSub a b si =>
            if Nat.ltb si (length (subscribers st))
            then Some (set_dp st (DMsg a b si a))
            else Some (set_dp st (DApply b))
        | DMsg a b si mi =>
            if Nat.ltb mi b then None                 (* a send is due: label LSend *)
            else Some (set_dp st (DSub a b (S si)))   (* retain_subscriber: subscriber_index += 1 *)
        | DApply b =>
            if Nat.eqb b (length (batch st))
            then Some (mkSt (queue st) [] DIdle (subscribers st) (actors st) (decl st) (closed st))
            else None                                 (* a SetSubscriber is due: label LApply *)
        end
    | LSend s =>
        match dp st with
        | DMsg a b si mi =>
            if Nat.ltb mi b then
              match nth_error (subscribers st) si, nth_error (batch st) mi with
              | Some e, Some (Data m) =>
                  if N.eqb (e_sid e) s then
                    match cv (e_conv e) m with
                    | None => Some (set_dp st (DMsg a b si (S mi)))
                    | Some r =>
                        let x := actors st (e_actor e) in
                        if a_alive x then
                          Some (mkSt (queue st) (batch st) (DMsg a b si (S mi)) (subscribers st)
                                     (updf (actors st) (e_actor e)
                                           (mkActor true (a_started x) (a_mbox x ++ [(s, r)]) (a_got x)))
                                     (decl st) (closed st))
                        else (* !sent: subscribers.remove(subscriber_index) *)
                          Some (mkSt (queue st) (batch st) (DSub a b si)
                                     (remove_nth si (subscribers st)) (actors st) (decl st) (closed st))
                    end
                  else None
              | _, _ => None
              end
            else None
        | _ => None
        end
    | LApply r =>
        match dp st with
        | DApply b =>
            match nth_error (batch st) b with
            | Some (SetSub s a c) =>
                let '(l', r') := apply_subscriber (subscribers st) (mkEntry s a c) in
                if oeqb r r'
                then Some (mkSt (queue st) (batch st) (DSeg (S b)) l' (actors st) (decl st) (closed st))
                else None
            | _ => None
            end
        | _ => None
        end
    | LHandle a s =>
        let x := actors st a in
        if a_alive x && a_started x then
          match a_mbox x with
          | (s', r) :: q =>
              if N.eqb s' s
              then Some (mkSt (queue st) (batch st) (dp st) (subscribers st)
                              (updf (actors st) a (mkActor true true q (a_got x ++ [(s', r)]))) (decl st) (closed st))
              else None
          | [] => None
          end
        else None
    | LStop a =>
        let x := actors st a in
        if a_alive x
        then Some (mkSt (queue st) (batch st) (dp st) (subscribers st)
                        (updf (actors st) a (mkActor false (a_started x) [] (a_got x))) (decl st) (closed st))
        else None
    | LStart a =>
        let x := actors st a in
        if a_alive x && negb (a_started x)
        then Some (mkSt (queue st) (batch st) (dp st) (subscribers st)
                        (updf (actors st) a (mkActor true true (a_mbox x) (a_got x))) (decl st) (closed st))
        else None
    | LClose =>
        if closed st then None
        else Some (mkSt (queue st) (batch st) (dp st) (subscribers st) (actors st) (decl st) true)
    end.

  Fixpoint run (st : state) (ls : list label) : option state :=
    match ls with
    | [] => Some st
    | l :: t => match step st l with Some st' => run st' t | None => None end
    end.

  Definition received (st : state) (s a : N) : list N := tagged s (a_got (actors st a)).

  (* ---------- specification vocabulary over label sequences ---------- *)
  Fixpoint pubs_on (ls : list label) : list N :=
    match ls with
    | [] => []
    | LPublish m :: t => m :: pubs_on t
    | _ :: t => pubs_on t
    end.
  Fixpoint pubs_after (s : N) (ls : list label) : list N :=
    match ls with
    | [] => []
    | LSubscribe s' _ _ :: t => if N.eqb s' s then pubs_on t else pubs_after s t
    | _ :: t => pubs_after s t
    end.
  Fixpoint conv_of (s : N) (ls : list label) : option (N * C) :=
    match ls with
    | [] => None
    | LSubscribe s' a c :: t => if N.eqb s' s then Some (a, c) else conv_of s t
    | _ :: t => conv_of s t
    end.

  (* one send = recv + converter + cast of the abstract forwarder, atomically *)
  Definition proj (s a : N) (l : label) : list alabel :=
    match l with
    | LPublish m => [APub m]
    | LSubscribe s' _ _ => if N.eqb s' s then [ASub] else []
    | LTake _ | LCtl => []
    | LSend s' => if N.eqb s' s then [ARecv; ACast] else []
    | LApply r => if oeqb r (Some s) then [ADrop] else []
    | LHandle _ s' => if N.eqb s' s then [AHandle] else []
    | LStop a' => if N.eqb a' a then [AStop] else []
    | LStart _ => []
    | LClose => []
    end.
  Definition projs (s a : N) (ls : list label) : list alabel := flat_map (proj s a) ls.

  (* ---------- abstraction ---------- *)
  Fixpoint datas (l : list cmd) : list N :=
    match l with
    | [] => []
    | Data m :: t => m :: datas t
    | SetSub _ _ _ :: t => datas t
    end.
  (* Data after the SetSubscriber of s, if it is in l *)
  Fixpoint after_set (s : N) (l : list cmd) : option (list N) :=
    match l with
    | [] => None
    | SetSub s' _ _ :: t => if N.eqb s' s then Some (datas t) else after_set s t
    | Data _ :: t => after_set s t
    end.
  Fixpoint index_of (s : N) (l : list entry) : option nat :=
    match l with
    | [] => None
    | e :: t => if N.eqb (e_sid e) s then Some 0
                else match index_of s t with Some i => Some (S i) | None => None end
    end.
  Definition seg (b : list cmd) (lo hi : nat) : list cmd := firstn (hi - lo) (skipn lo b).

  (* Data of the current batch still to be offered to the subscriber at index i *)
  Definition rem_batch (st : state) (i : nat) : list N :=
    match dp st with
    | DIdle => []
    | DSeg a => datas (skipn a (batch st))
    | DSub a b si =>
        (if Nat.ltb i si then [] else datas (seg (batch st) a b)) ++ datas (skipn b (batch st))
    | DMsg a b si mi =>
        (if Nat.ltb i si then []
         else if Nat.eqb i si then datas (seg (batch st) mi b)
         else datas (seg (batch st) a b)) ++ datas (skipn b (batch st))
    | DApply b => datas (skipn b (batch st))
    end.
  (* the not yet processed rest of the batch *)
  Definition batch_rest (st : state) : list cmd :=
    match dp st with
    | DIdle => []
    | DSeg a => skipn a (batch st)
    | DSub _ b _ | DMsg _ b _ _ | DApply b => skipn b (batch st)
    end.

  (* backlog of subscription s; None = the port no longer serves s *)
  Definition backlog (st : state) (s : N) : option (list N) :=
    match index_of s (subscribers st) with
    | Some i => Some (rem_batch st i ++ datas (queue st))
    | None =>
        match after_set s (batch_rest st ++ queue st) with
        | Some d => Some d
        | None => None
        end
    end.

  Definition absv (s a : N) (st : state) : core :=
    let x := actors st a in
    match decl st s with
    | Some _ =>
        match backlog st s with
        | Some b => mkCore AIdle b (tagged s (a_mbox x)) (tagged s (a_got x)) (a_alive x)
        | None => mkCore ADone [] (tagged s (a_mbox x)) (tagged s (a_got x)) (a_alive x)
        end
    | None => mkCore ANone [] (tagged s (a_mbox x)) (tagged s (a_got x)) (a_alive x)
    end.
End V2.

Arguments LPublish {C}.
Arguments LSubscribe {C}.
Arguments LTake {C}.
Arguments LCtl {C}.
Arguments LSend {C}.
Arguments LApply {C}.
Arguments LHandle {C}.
Arguments LStop {C}.
Arguments LStart {C}.
Arguments LClose {C}.
Arguments Data {C}.
Arguments SetSub {C}.
