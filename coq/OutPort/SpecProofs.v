(* C16 — proofs about the single-subscription automaton Sub1 (Spec.v). *)
From Coq Require Import List NArith Bool Arith Lia.
From RV Require Import OutPort.Spec.
Import ListNotations.

(* ---------- lists ---------- *)
Lemma filter_map_app : forall A B (f : A -> option B) l1 l2,
  filter_map f (l1 ++ l2) = filter_map f l1 ++ filter_map f l2.
Proof.
  induction l1 as [|x t IH]; intros l2; cbn; [reflexivity|].
  destruct (f x); cbn; rewrite IH; reflexivity.
Qed.

Lemma sublist_refl : forall A (l : list A), sublist l l.
Proof. induction l; [apply sl_nil|apply sl_keep; assumption]. Qed.

Lemma sublist_nil_l : forall A (l : list A), sublist [] l.
Proof. induction l; [apply sl_nil|apply sl_skip; assumption]. Qed.

Lemma sublist_trans : forall A (a b c : list A), sublist a b -> sublist b c -> sublist a c.
Proof.
  intros A a b c Hab Hbc. revert a Hab.
  induction Hbc as [|x l1 l2 H IH|x l1 l2 H IH]; intros a Hab.
  - assumption.
  - constructor. apply IH. assumption.
  - inversion Hab; subst.
    + apply sl_skip. apply IH. assumption.
    + apply sl_keep. apply IH. assumption.
Qed.

Lemma sublist_app_r : forall A (l r : list A), sublist l (l ++ r).
Proof. induction l; intros r; cbn; [apply sublist_nil_l|apply sl_keep; apply IHl]. Qed.

Lemma sublist_app_l : forall A (l r : list A), sublist r (l ++ r).
Proof. induction l; intros r; cbn; [apply sublist_refl|apply sl_skip; apply IHl]. Qed.

Lemma sublist_app : forall A (a b c d : list A), sublist a b -> sublist c d -> sublist (a ++ c) (b ++ d).
Proof.
  intros A a b c d H. induction H; intros Hcd; cbn.
  - assumption.
  - apply sl_skip. apply IHsublist. assumption.
  - apply sl_keep. apply IHsublist. assumption.
Qed.

Lemma prefix_sublist : forall A (a b : list A), prefix a b -> sublist a b.
Proof. intros A a b [r <-]. apply sublist_app_r. Qed.

Lemma sublist_filter_map : forall A B (f : A -> option B) l1 l2,
  sublist l1 l2 -> sublist (filter_map f l1) (filter_map f l2).
Proof.
  intros A B f l1 l2 H. induction H; cbn.
  - apply sl_nil.
  - destruct (f x); [apply sl_skip|]; assumption.
  - destruct (f x); [apply sl_keep|]; assumption.
Qed.

Lemma sublist_filter : forall A (p : A -> bool) l, sublist (filter p l) l.
Proof.
  induction l as [|x t IH]; cbn; [apply sl_nil|].
  destruct (p x); [apply sl_keep|apply sl_skip]; assumption.
Qed.

Lemma sublist_map : forall A B (f : A -> B) l1 l2, sublist l1 l2 -> sublist (map f l1) (map f l2).
Proof. intros A B f l1 l2 H. induction H; cbn; [apply sl_nil|apply sl_skip|apply sl_keep]; assumption. Qed.

Lemma sublist_length : forall A (a b : list A), sublist a b -> length a <= length b.
Proof. intros A a b H. induction H; cbn; lia. Qed.

Lemma sublist_In : forall A (a b : list A) x, sublist a b -> In x a -> In x b.
Proof.
  intros A a b x H. induction H; cbn; intros Hin; auto.
  destruct Hin; auto.
Qed.

Lemma sublist_NoDup : forall A (a b : list A), sublist a b -> NoDup b -> NoDup a.
Proof.
  intros A a b H. induction H; intros Hnd.
  - constructor.
  - inversion Hnd; subst. auto.
  - inversion Hnd; subst. constructor; auto.
    intros Hin. apply H2. eapply sublist_In; eauto.
Qed.

Lemma prefix_refl : forall A (l : list A), prefix l l.
Proof. intros A l. exists []. apply app_nil_r. Qed.

Lemma prefix_app_r : forall A (a b x : list A), prefix a b -> prefix a (b ++ x).
Proof. intros A a b x [r <-]. exists (r ++ x). rewrite app_assoc. reflexivity. Qed.

Lemma prefix_trans : forall A (a b c : list A), prefix a b -> prefix b c -> prefix a c.
Proof. intros A a b c [r <-] [r' <-]. exists (r ++ r'). rewrite app_assoc. reflexivity. Qed.

Lemma prefix_filter_map : forall A B (f : A -> option B) a b,
  prefix a b -> prefix (filter_map f a) (filter_map f b).
Proof. intros A B f a b [r <-]. exists (filter_map f r). rewrite filter_map_app. reflexivity. Qed.

Lemma map_fst_tag : forall (b : bool) (l : list N), map fst (map (fun x => (x, b)) l) = l.
Proof. induction l; cbn; congruence. Qed.

Lemma filter_snd_false : forall (l : list N),
  filter (@snd N bool) (map (fun x => (x, false)) l) = [].
Proof. induction l; cbn; auto. Qed.

Lemma lastn_split : forall A k (l : list A), firstn (length l - k) l ++ lastn k l = l.
Proof. intros. unfold lastn. apply firstn_skipn. Qed.

Lemma lastn_length : forall A k (l : list A), k <= length l -> length (lastn k l) = k.
Proof. intros. unfold lastn. rewrite skipn_length. lia. Qed.

Lemma is_sublist_sound : forall l2 l1, is_sublist l1 l2 = true -> sublist l1 l2.
Proof.
  induction l2 as [|y t2 IH]; intros l1 H; cbn in H.
  - destruct l1; [constructor|discriminate].
  - destruct l1 as [|x t1]; [apply sublist_nil_l|].
    destruct (N.eqb x y) eqn:E.
    + apply N.eqb_eq in E. subst. apply sl_keep. apply IH. assumption.
    + apply sl_skip. apply IH. assumption.
Qed.

(* the greedy matcher is complete *)
Lemma is_sublist_complete : forall l1 l2, sublist l1 l2 -> is_sublist l1 l2 = true.
Proof.
  assert (Hskip : forall l2 x l1, is_sublist (x :: l1) l2 = true -> is_sublist l1 l2 = true).
  { induction l2 as [|y t2 IH]; intros x l1 H; cbn in H; [discriminate|].
    cbn. destruct l1 as [|x' t1]; [reflexivity|].
    destruct (N.eqb x y).
    - destruct (N.eqb x' y); [|assumption].
      eapply IH. eassumption.
    - destruct (N.eqb x' y); [eapply IH; eapply IH; eassumption|eapply IH; eassumption]. }
  intros l1 l2 H. induction H; cbn.
  - reflexivity.
  - destruct l1 as [|y t1]; [reflexivity|].
    destruct (N.eqb y x); [|assumption].
    eapply Hskip. eassumption.
  - rewrite N.eqb_refl. assumption.
Qed.

Lemma is_prefix_sound : forall l1 l2, is_prefix l1 l2 = true -> prefix l1 l2.
Proof.
  induction l1 as [|x t1 IH]; intros l2 H.
  - exists l2. reflexivity.
  - destruct l2 as [|y t2]; cbn in H; [discriminate|].
    apply andb_true_iff in H. destruct H as [E H]. apply N.eqb_eq in E. subst.
    destruct (IH _ H) as [r <-]. exists r. reflexivity.
Qed.

Lemma is_prefix_complete : forall l1 r, is_prefix l1 (l1 ++ r) = true.
Proof. induction l1; intros r; cbn; [reflexivity|]. rewrite N.eqb_refl, IHl1. reflexivity. Qed.

(* ---------- the invariant ---------- *)
Section Sub1.
  Variable cap : option nat.
  Variable conv : N -> option N.

  Notation cstep := (cstep cap conv).
  Notation gstep := (gstep cap).
  Notation grun := (grun cap conv).
  Notation crun := (crun cap conv).

  Definition hist_all (g : ghost) : list N := map fst (g_hist g).

  Record Inv (c : core) (g : ghost) : Prop := mkInv {
    j_pre : prefix (hist_all g ++ c_backlog c) (g_pubs g);
    j_act : active c = true -> hist_all g ++ c_backlog c = g_pubs g;
    j_cast : exists x, taken g = g_cast g ++ x /\ (c_pc c <> ADone -> x = held c);
    j_got : exists rest, c_got c ++ rest = filter_map conv (g_cast g)
                         /\ (c_alive c = true -> rest = c_mbox c);
    j_lag : g_lags g = 0 -> taken g = hist_all g;
    j_none : c_pc c = ANone ->
             g_pubs g = [] /\ g_hist g = [] /\ g_cast g = [] /\ c_backlog c = []
             /\ c_mbox c = [] /\ c_got c = [];
    j_done : c_pc c = ADone -> c_backlog c = [];
    j_nocap : cap = None -> g_lags g = 0 }.

  Lemma inv_init : Inv ainit ginit.
  Proof.
    constructor; cbn; intros; try discriminate; auto.
    - exists []. reflexivity.
    - exists []. split; [reflexivity|]. intros _. reflexivity.
    - exists []. split; reflexivity.
    - repeat split; reflexivity.
  Qed.

  Lemma taken_app : forall h1 h2,
    map fst (filter (@snd N bool) (h1 ++ h2)) = map fst (filter snd h1) ++ map fst (filter snd h2).
  Proof. intros. rewrite filter_app, map_app. reflexivity. Qed.

  Lemma lag_split : forall k (bl : list N), cap = Some k -> Nat.ltb k (length bl) = true ->
    dropped cap bl ++ keep cap bl = bl.
  Proof.
    intros k bl Hc Hl. unfold dropped, keep. rewrite Hc. apply Nat.ltb_lt in Hl.
    rewrite lastn_length by lia.
    replace (firstn (length bl - k) bl ++ lastn k bl) with bl; [reflexivity|].
    symmetry. apply lastn_split.
  Qed.

  Lemma inv_step : forall c g l c', Inv c g -> cstep c l = Some c' -> Inv c' (gstep c l g).
  Proof.
    intros c g l c' I H. destruct I as [Jpre Jact Jcast Jgot Jlag Jnone Jdone Jnocap].
    destruct c as [pc bl mb got alive]. unfold hist_all, taken in *. cbn in *.
    destruct l; cbn in H.
    - (* APub *)
      destruct pc; inversion H; subst; clear H; cbn in *.
      + constructor; cbn; auto.
      + specialize (Jact eq_refl).
        constructor; cbn; auto; try discriminate.
        * rewrite app_assoc, Jact. apply prefix_refl.
        * intros _. rewrite app_assoc, Jact. reflexivity.
      + specialize (Jact eq_refl).
        constructor; cbn; auto; try discriminate.
        * rewrite app_assoc, Jact. apply prefix_refl.
        * intros _. rewrite app_assoc, Jact. reflexivity.
      + constructor; cbn; auto; try discriminate.
        apply prefix_app_r. assumption.
    - (* ASub *)
      destruct pc; inversion H; subst; clear H; cbn in *.
      destruct (Jnone eq_refl) as (P & Hh & Cc & B & M & G).
      constructor; cbn; auto; try discriminate.
      + rewrite P. unfold hist_all. rewrite Hh. apply prefix_refl.
      + intros _. rewrite P. unfold hist_all. rewrite Hh. reflexivity.
      + exists []. unfold taken. rewrite Hh, Cc. split; reflexivity.
    - (* ARecv *)
      destruct pc; try discriminate. destruct bl as [|m b]; [discriminate|].
      cbn [Spec.gstep c_pc c_backlog].
      specialize (Jact eq_refl).
      destruct (lagging cap (m :: b)) eqn:L; inversion H; subst; clear H; cbn in *.
      + (* Lagged *)
        unfold lagging in L. destruct cap as [k|] eqn:Hc; [|discriminate].
        pose proof (lag_split k (m :: b) Hc L) as Sp. rewrite Hc in Sp.
        assert (Hall : hist_all (mkGhost (g_pubs g)
                   (g_hist g ++ map (fun x => (x, false)) (dropped (Some k) (m :: b)))
                   (g_cast g) (S (g_lags g))) ++ keep (Some k) (m :: b) = g_pubs g).
        { unfold hist_all. cbn [g_hist]. rewrite map_app, map_fst_tag, <- app_assoc.
          rewrite Sp. exact Jact. }
        constructor; cbn [c_pc c_backlog c_mbox c_got c_alive g_pubs g_cast g_lags active]; auto; try discriminate.
        * rewrite Hall. apply prefix_refl.
        * unfold taken. cbn [g_hist]. rewrite taken_app, filter_snd_false. cbn. rewrite app_nil_r. exact Jcast.
        * intros Hn. congruence.
      + (* item *)
        assert (Hall : hist_all (mkGhost (g_pubs g) (g_hist g ++ [(m, true)]) (g_cast g) (g_lags g)) ++ b = g_pubs g).
        { unfold hist_all. cbn [g_hist]. rewrite map_app, <- app_assoc. exact Jact. }
        constructor; cbn [c_pc c_backlog c_mbox c_got c_alive g_pubs g_cast g_lags active]; auto; try discriminate.
        * rewrite Hall. apply prefix_refl.
        * destruct Jcast as (x & T & X). specialize (X ltac:(discriminate)). cbn in X. subst x.
          exists [m]. split; [|intros _; reflexivity].
          unfold taken in *. cbn [g_hist]. rewrite taken_app, T. cbn. rewrite app_nil_r. reflexivity.
        * intros L0. specialize (Jlag L0). unfold taken, hist_all in *. cbn [g_hist].
          rewrite taken_app, map_app, Jlag. reflexivity.
    - (* ACast *)
      destruct pc; try discriminate. cbn [Spec.gstep c_pc c_backlog].
      destruct Jcast as (x & T & X). specialize (X ltac:(discriminate)). cbn in X. subst x.
      destruct Jgot as (rest & Gr & Ar).
      destruct (conv m) as [r|] eqn:Cm.
      + destruct alive; inversion H; subst; clear H.
        * specialize (Ar eq_refl). subst rest.
          constructor; cbn [c_pc c_backlog c_mbox c_got c_alive g_pubs g_cast g_lags g_hist active hist_all taken] in *; auto; try discriminate.
          -- exists []. rewrite app_nil_r. split; [exact T|reflexivity].
          -- exists (mb ++ [r]). split; [|reflexivity].
             rewrite filter_map_app, <- Gr. cbn. rewrite Cm. rewrite app_assoc. reflexivity.
        * constructor; cbn [c_pc c_backlog c_mbox c_got c_alive g_pubs g_cast g_lags g_hist active hist_all taken] in *; auto; try discriminate.
          -- rewrite app_nil_r. specialize (Jact eq_refl). exists bl. exact Jact.
          -- exists []. rewrite app_nil_r. split; [exact T|reflexivity].
          -- exists (rest ++ [r]). split; [|discriminate].
             rewrite filter_map_app, <- Gr. cbn. rewrite Cm. rewrite app_assoc. reflexivity.
      + inversion H; subst; clear H.
        constructor; cbn [c_pc c_backlog c_mbox c_got c_alive g_pubs g_cast g_lags g_hist active hist_all taken] in *; auto; try discriminate.
        * exists []. rewrite app_nil_r. split; [exact T|reflexivity].
        * exists rest. split; [|exact Ar].
          rewrite filter_map_app, <- Gr. cbn. rewrite Cm. rewrite app_nil_r. reflexivity.
    - (* AHandle *)
      cbn [Spec.gstep].
      destruct alive; [|discriminate]. destruct mb as [|r q]; [discriminate|].
      inversion H; subst; clear H.
      destruct Jgot as (rest & Gr & Ar). specialize (Ar eq_refl). subst rest.
      constructor; cbn [c_pc c_backlog c_mbox c_got c_alive active] in *; auto.
      + exists q. split; [|reflexivity]. rewrite <- Gr, <- app_assoc. reflexivity.
      + intros Hn. destruct (Jnone Hn) as (_ & _ & _ & _ & M & _). discriminate.
    - (* AStop *)
      cbn [Spec.gstep].
      destruct alive; [|discriminate]. inversion H; subst; clear H.
      destruct Jgot as (rest & Gr & Ar).
      constructor; cbn [c_pc c_backlog c_mbox c_got c_alive active] in *; auto.
      + exists rest. split; [exact Gr|discriminate].
      + intros Hn. destruct (Jnone Hn) as (P & Hh & Cc & B & M & G). repeat split; auto.
    - (* ADrop *)
      cbn [Spec.gstep].
      destruct pc; inversion H; subst; clear H.
      + specialize (Jact eq_refl).
        constructor; cbn [c_pc c_backlog c_mbox c_got c_alive active] in *; auto; try discriminate.
        * rewrite app_nil_r. exists bl. exact Jact.
        * destruct Jcast as (x & T & X). exists x. split; [exact T|]. intros F. exfalso. apply F. reflexivity.
      + specialize (Jact eq_refl).
        constructor; cbn [c_pc c_backlog c_mbox c_got c_alive active] in *; auto; try discriminate.
        * rewrite app_nil_r. exists bl. exact Jact.
        * destruct Jcast as (x & T & X). exists x. split; [exact T|]. intros F. exfalso. apply F. reflexivity.
  Qed.

  Lemma inv_run : forall ls c g c' g', Inv c g -> grun c g ls = Some (c', g') -> Inv c' g'.
  Proof.
    induction ls as [|l t IH]; intros c g c' g' I H; cbn in H.
    - inversion H; subst. assumption.
    - destruct (cstep c l) as [c1|] eqn:E; [|discriminate].
      eapply IH; [|eassumption]. eapply inv_step; eassumption.
  Qed.

  Lemma grun_crun : forall ls c g, crun c ls = match grun c g ls with Some (c', _) => Some c' | None => None end.
  Proof.
    induction ls as [|l t IH]; intros c g; cbn; [reflexivity|].
    destruct (cstep c l); [apply IH|reflexivity].
  Qed.

  Lemma crun_grun : forall ls c g c', crun c ls = Some c' -> exists g', grun c g ls = Some (c', g').
  Proof.
    intros ls c g c' H. rewrite (grun_crun ls c g) in H.
    destruct (grun c g ls) as [[c1 g1]|]; [|discriminate]. inversion H; subst. eauto.
  Qed.

  Lemma grun_app : forall l1 l2 c g,
    grun c g (l1 ++ l2) = match grun c g l1 with Some (c', g') => grun c' g' l2 | None => None end.
  Proof.
    induction l1 as [|l t IH]; intros l2 c g; cbn; [reflexivity|].
    destruct (cstep c l); [apply IH|reflexivity].
  Qed.

  Lemma crun_app : forall l1 l2 c,
    crun c (l1 ++ l2) = match crun c l1 with Some c' => crun c' l2 | None => None end.
  Proof.
    induction l1 as [|l t IH]; intros l2 c; cbn; [reflexivity|].
    destruct (cstep c l); [apply IH|reflexivity].
  Qed.

  (* ---------- consequences of the invariant ---------- *)
  Lemma taken_sublist_hist : forall g, sublist (taken g) (hist_all g).
  Proof. intros g. unfold taken, hist_all. apply sublist_map. apply sublist_filter. Qed.

  (* order preserved, nothing twice, only items published after the subscription *)
  Lemma inv_subsequence : forall c g, Inv c g -> sublist (c_got c) (filter_map conv (g_pubs g)).
  Proof.
    intros c g I. destruct I as [Jpre _ Jcast Jgot _ _ _ _].
    destruct Jgot as (rest & Gr & _). destruct Jcast as (x & T & _).
    eapply sublist_trans; [apply (sublist_app_r _ (c_got c) rest)|]. rewrite Gr.
    apply sublist_filter_map.
    eapply sublist_trans; [apply (sublist_app_r _ (g_cast g) x)|]. rewrite <- T.
    eapply sublist_trans; [apply taken_sublist_hist|].
    eapply sublist_trans; [apply (sublist_app_r _ (hist_all g) (c_backlog c))|].
    apply prefix_sublist. assumption.
  Qed.

  (* no lag so far: nothing skipped *)
  Lemma inv_prefix : forall c g, Inv c g -> g_lags g = 0 -> prefix (c_got c) (filter_map conv (g_pubs g)).
  Proof.
    intros c g I L. destruct I as [Jpre _ Jcast Jgot Jlag _ _ _].
    destruct Jgot as (rest & Gr & _). destruct Jcast as (x & T & _).
    specialize (Jlag L).
    eapply prefix_trans; [exists rest; exact Gr|].
    apply prefix_filter_map.
    eapply prefix_trans; [exists x; symmetry; exact T|]. rewrite Jlag.
    eapply prefix_trans; [|exact Jpre]. exists (c_backlog c). reflexivity.
  Qed.

  Lemma inv_exact : forall c g, Inv c g -> g_lags g = 0 -> active c = true -> c_alive c = true ->
    c_got c ++ c_mbox c ++ filter_map conv (held c ++ c_backlog c) = filter_map conv (g_pubs g).
  Proof.
    intros c g I L A Al. destruct I as [_ Jact Jcast Jgot Jlag _ _ _].
    destruct Jgot as (rest & Gr & Ar). specialize (Ar Al). subst rest.
    destruct Jcast as (x & T & X).
    assert (x = held c) as ->. { apply X. unfold active in A. destruct (c_pc c); try discriminate; congruence. }
    rewrite <- (Jact A), <- (Jlag L), T, !filter_map_app, <- Gr, <- !app_assoc. reflexivity.
  Qed.

  (* at quiescence everything taken has been received *)
  Lemma inv_quiescent : forall c g, Inv c g -> c_pc c = AIdle -> c_alive c = true ->
    c_backlog c = [] -> c_mbox c = [] ->
    c_got c = filter_map conv (taken g) /\ taken g ++ missed g = taken g ++ missed g
    /\ hist_all g = g_pubs g.
  Proof.
    intros c g I P Al B M. destruct I as [_ Jact Jcast Jgot _ _ _ _].
    destruct Jgot as (rest & Gr & Ar). specialize (Ar Al). rewrite M in Ar. subst rest.
    destruct Jcast as (x & T & X). rewrite P in X. specialize (X ltac:(discriminate)).
    unfold held in X. rewrite P in X. subst x. rewrite !app_nil_r in *.
    split; [rewrite T; exact Gr|]. split; [reflexivity|].
    assert (A : active c = true) by (unfold active; rewrite P; reflexivity).
    specialize (Jact A). rewrite B, app_nil_r in Jact. exact Jact.
  Qed.

  Lemma nocap_nolag : forall c g, Inv c g -> cap = None -> g_lags g = 0.
  Proof. intros c g I. apply (j_nocap _ _ I). Qed.

  (* ---------- one step: how the history grows ---------- *)
  Lemma step_hist : forall c g l c', cstep c l = Some c' ->
    g_lags g <= g_lags (gstep c l g) /\
    exists h np, g_hist (gstep c l g) = g_hist g ++ h /\ g_pubs (gstep c l g) = g_pubs g ++ np
      /\ (g_lags (gstep c l g) = g_lags g -> forallb snd h = true).
  Proof.
    intros c g l c' H. destruct c as [pc bl mb got alive].
    destruct l; cbn in *.
    - destruct pc; cbn; (split; [lia|]).
      + exists [], []. rewrite !app_nil_r. auto.
      + exists [], [m]. rewrite !app_nil_r. auto.
      + exists [], [m]. rewrite !app_nil_r. auto.
      + exists [], [m]. rewrite !app_nil_r. auto.
    - split; [lia|]. exists [], []. rewrite !app_nil_r. auto.
    - destruct pc; try discriminate. destruct bl as [|m b]; [discriminate|].
      destruct (lagging cap (m :: b)); cbn.
      + split; [lia|]. exists (map (fun x => (x, false)) (dropped cap (m :: b))), []. rewrite app_nil_r. split; [reflexivity|]. split; [reflexivity|]. lia.
      + split; [lia|]. exists [(m, true)], []. rewrite app_nil_r. auto.
    - destruct pc; try discriminate. cbn. split; [lia|]. exists [], []. rewrite !app_nil_r. auto.
    - split; [lia|]. exists [], []. rewrite !app_nil_r. auto.
    - split; [lia|]. exists [], []. rewrite !app_nil_r. auto.
    - split; [lia|]. exists [], []. rewrite !app_nil_r. auto.
  Qed.

  Lemma run_hist : forall ls c g c' g', grun c g ls = Some (c', g') ->
    g_lags g <= g_lags g' /\
    exists h np, g_hist g' = g_hist g ++ h /\ g_pubs g' = g_pubs g ++ np
      /\ (g_lags g' = g_lags g -> forallb snd h = true).
  Proof.
    induction ls as [|l t IH]; intros c g c' g' H; cbn in H.
    - inversion H; subst. split; [lia|]. exists [], []. rewrite !app_nil_r. auto.
    - destruct (cstep c l) as [c1|] eqn:E; [|discriminate].
      destruct (step_hist c g l c1 E) as (L1 & h1 & np1 & H1 & P1 & F1).
      destruct (IH _ _ _ _ H) as (L2 & h2 & np2 & H2 & P2 & F2).
      split; [lia|]. exists (h1 ++ h2), (np1 ++ np2).
      rewrite H2, H1, P2, P1, <- !app_assoc. split; [reflexivity|]. split; [reflexivity|].
      intros L. rewrite forallb_app, F1, F2 by lia. reflexivity.
  Qed.

  (* From any point of a run on: as long as no (further) Lagged occurs, everything that
     was in the backlog and everything published later is taken, in order, none skipped. *)
  Lemma no_lag_complete : forall ls c g c' g', Inv c g -> grun c g ls = Some (c', g') ->
    active c = true -> active c' = true -> g_lags g' = g_lags g ->
    exists h np, g_hist g' = g_hist g ++ h /\ forallb snd h = true
      /\ g_pubs g' = g_pubs g ++ np
      /\ map fst h ++ c_backlog c' = c_backlog c ++ np.
  Proof.
    intros ls c g c' g' I H A A' L.
    pose proof (inv_run _ _ _ _ _ I H) as I'.
    destruct (run_hist _ _ _ _ _ H) as (_ & h & np & Hh & Hp & F).
    exists h, np. split; [exact Hh|]. split; [apply F; exact L|]. split; [exact Hp|].
    pose proof (j_act _ _ I A) as E. pose proof (j_act _ _ I' A') as E'.
    unfold hist_all in *. rewrite Hh, Hp, map_app, <- E, <- !app_assoc in E'.
    apply app_inv_head in E'. exact E'.
  Qed.

  (* a Lagged needs a backlog longer than the ring *)
  Lemma lag_needs_behind : forall k ls c g c' g', cap = Some k ->
    always cap conv (fun c => length (c_backlog c) <= k) c ls ->
    grun c g ls = Some (c', g') -> g_lags g' = g_lags g.
  Proof.
    intros k. induction ls as [|l t IH]; intros c g c' g' Hc Al H; cbn in H.
    - inversion H; subst. reflexivity.
    - destruct (cstep c l) as [c1|] eqn:E; [|discriminate].
      cbn in Al. destruct Al as [P Al]. rewrite E in Al.
      rewrite (IH _ _ _ _ Hc Al H).
      destruct c as [pc bl mb got alive]. destruct l; cbn in *; try reflexivity.
      + destruct pc; reflexivity.
      + destruct pc; try reflexivity. destruct bl as [|m b]; [reflexivity|].
        unfold lagging. rewrite Hc. cbn [length] in *.
        destruct (Nat.ltb k (S (length b))) eqn:Lt; [|reflexivity].
        apply Nat.ltb_lt in Lt. lia.
      + destruct pc; reflexivity.
  Qed.

  (* ---------- the published history is a function of the labels ---------- *)
  Lemma pc_not_none : forall c l c', cstep c l = Some c' -> c_pc c <> ANone -> c_pc c' <> ANone.
  Proof.
    intros c l c' H Hn. destruct c as [pc bl mb got alive]. cbn in *.
    destruct l; cbn in H.
    - destruct pc; inversion H; subst; cbn; congruence.
    - destruct pc; inversion H; subst; cbn; congruence.
    - destruct pc; try discriminate. destruct bl; [discriminate|].
      destruct (lagging cap (n :: bl)); inversion H; subst; cbn; congruence.
    - destruct pc; try discriminate. destruct (conv m); [destruct alive|]; inversion H; subst; cbn; congruence.
    - destruct alive; [|discriminate]. destruct mb; [discriminate|]. inversion H; subst; cbn; congruence.
    - destruct alive; [|discriminate]. inversion H; subst; cbn; congruence.
    - destruct pc; inversion H; subst; cbn; congruence.
  Qed.

  Lemma pubs_on_run : forall ls c g c' g', grun c g ls = Some (c', g') -> c_pc c <> ANone ->
    g_pubs g' = g_pubs g ++ apubs_on ls.
  Proof.
    induction ls as [|l t IH]; intros c g c' g' H Hn; cbn in H.
    - inversion H; subst. cbn. rewrite app_nil_r. reflexivity.
    - destruct (cstep c l) as [c1|] eqn:E; [|discriminate].
      rewrite (IH _ _ _ _ H (pc_not_none _ _ _ E Hn)).
      destruct l; cbn; try reflexivity.
      + destruct (c_pc c); [congruence| | |]; cbn; rewrite <- app_assoc; reflexivity.
      + destruct (c_pc c); try reflexivity. destruct (c_backlog c); try reflexivity.
        destruct (lagging cap (n :: l)); reflexivity.
      + destruct (c_pc c); reflexivity.
  Qed.

  Lemma pubs_run : forall ls c g c' g', grun c g ls = Some (c', g') -> c_pc c = ANone ->
    g_pubs g = [] -> g_pubs g' = apubs ls.
  Proof.
    induction ls as [|l t IH]; intros c g c' g' H Hn P; cbn in H.
    - inversion H; subst. exact P.
    - destruct (cstep c l) as [c1|] eqn:E; [|discriminate].
      destruct c as [pc bl mb got alive]. cbn in Hn. subst pc.
      destruct l; cbn in E; try discriminate.
      + inversion E; subst. cbn in H. eapply IH in H; eauto.
      + inversion E; subst. apply pubs_on_run in H; [|cbn; congruence].
        cbn in H. rewrite P in H. exact H.
      + destruct alive; [|discriminate]. destruct mb; [discriminate|]. inversion E; subst. cbn in H. eapply IH in H; eauto.
      + destruct alive; [|discriminate]. inversion E; subst. cbn in H. eapply IH in H; eauto.
  Qed.

  (* ---------- theorems over all runs from the initial state ---------- *)
  Theorem sub1_subsequence : forall ls c, crun ainit ls = Some c ->
    sublist (c_got c) (filter_map conv (apubs ls)).
  Proof.
    intros ls c H. destruct (crun_grun _ _ ginit _ H) as (g & G).
    rewrite <- (pubs_run _ _ _ _ _ G eq_refl eq_refl).
    apply inv_subsequence. eapply inv_run; [apply inv_init|eassumption].
  Qed.

  Theorem sub1_nocap_prefix : forall ls c, cap = None -> crun ainit ls = Some c ->
    prefix (c_got c) (filter_map conv (apubs ls)).
  Proof.
    intros ls c Hc H. destruct (crun_grun _ _ ginit _ H) as (g & G).
    rewrite <- (pubs_run _ _ _ _ _ G eq_refl eq_refl).
    pose proof (inv_run _ _ _ _ _ inv_init G) as I.
    apply inv_prefix; [exact I|]. eapply nocap_nolag; eassumption.
  Qed.

  Theorem sub1_nocap_exact : forall ls c, cap = None -> crun ainit ls = Some c ->
    active c = true -> c_alive c = true ->
    c_got c ++ c_mbox c ++ filter_map conv (held c ++ c_backlog c) = filter_map conv (apubs ls).
  Proof.
    intros ls c Hc H A Al. destruct (crun_grun _ _ ginit _ H) as (g & G).
    rewrite <- (pubs_run _ _ _ _ _ G eq_refl eq_refl).
    pose proof (inv_run _ _ _ _ _ inv_init G) as I.
    apply inv_exact; auto. eapply nocap_nolag; eassumption.
  Qed.

  (* ---------- lag bound ---------- *)
  Lemma alive_mono : forall c l c', cstep c l = Some c' -> c_alive c' = true -> c_alive c = true.
  Proof.
    intros c l c' H Al. destruct c as [pc bl mb got alive]. cbn in *.
    destruct l; cbn in H.
    - destruct pc; inversion H; subst; assumption.
    - destruct pc; inversion H; subst; assumption.
    - destruct pc; try discriminate. destruct bl; [discriminate|].
      destruct (lagging cap (n :: bl)); inversion H; subst; assumption.
    - destruct pc; try discriminate. destruct (conv m); [destruct alive|]; inversion H; subst; cbn in *; congruence.
    - destruct alive; [reflexivity|discriminate].
    - destruct alive; [reflexivity|discriminate].
    - destruct pc; inversion H; subst; assumption.
  Qed.

  Lemma alive_mono_run : forall ls c g c' g', grun c g ls = Some (c', g') -> c_alive c' = true -> c_alive c = true.
  Proof.
    induction ls as [|l t IH]; intros c g c' g' H Al; cbn in H.
    - inversion H; subst. assumption.
    - destruct (cstep c l) as [c1|] eqn:E; [|discriminate].
      eapply alive_mono; [eassumption|]. eapply IH; eassumption.
  Qed.

  Lemma active_held_taken : forall c g, Inv c g -> active c = true -> taken g = g_cast g ++ held c.
  Proof.
    intros c g I A. destruct (j_cast _ _ I) as (x & T & X). rewrite T. f_equal. apply X.
    unfold active in A. destruct (c_pc c); try discriminate; congruence.
  Qed.

  (* a segment of a run without Lagged: whatever was pending at its start and whatever is
     published during it is delivered in order or still pending at its end; nothing is lost *)
  Lemma no_lag_delivery : forall ls c g c' g', Inv c g -> grun c g ls = Some (c', g') ->
    active c = true -> active c' = true -> c_alive c' = true -> g_lags g' = g_lags g ->
    c_got c' ++ c_mbox c' ++ filter_map conv (held c' ++ c_backlog c')
    = c_got c ++ c_mbox c ++ filter_map conv (held c ++ c_backlog c ++ apubs_on ls).
  Proof.
    intros ls c g c' g' I H A A' Al' L.
    pose proof (inv_run _ _ _ _ _ I H) as I'.
    pose proof (alive_mono_run _ _ _ _ _ H Al') as Al.
    destruct (no_lag_complete _ _ _ _ _ I H A A' L) as (h & np & Hh & F & Hp & Hb).
    assert (Hnp : np = apubs_on ls).
    { pose proof (pubs_on_run _ _ _ _ _ H) as Q.
      assert (c_pc c <> ANone) as Hn by (unfold active in A; destruct (c_pc c); congruence).
      specialize (Q Hn). rewrite Hp in Q. apply app_inv_head in Q. exact Q. }
    subst np.
    destruct (j_got _ _ I) as (rest & Gr & Ar). specialize (Ar Al). subst rest.
    destruct (j_got _ _ I') as (rest' & Gr' & Ar'). specialize (Ar' Al'). subst rest'.
    pose proof (active_held_taken _ _ I A) as T. pose proof (active_held_taken _ _ I' A') as T'.
    assert (Tk : taken g' = taken g ++ map fst h).
    { unfold taken. rewrite Hh, filter_app, map_app. f_equal.
      clear - F. induction h as [|[x b] t IHh]; [reflexivity|]. cbn in F. apply andb_true_iff in F.
      destruct F as [F1 F2]. cbn in F1. subst b. cbn. rewrite IHh by assumption. reflexivity. }
    rewrite !app_assoc, Gr, Gr', <- !filter_map_app.
    f_equal. rewrite <- !app_assoc.
    rewrite (app_assoc (g_cast g')), <- T', Tk, (app_assoc (g_cast g)), <- T, <- !app_assoc, Hb. reflexivity.
  Qed.

  Theorem sub1_nolag_prefix : forall k ls c, cap = Some k -> crun ainit ls = Some c ->
    always cap conv (fun c => length (c_backlog c) <= k) ainit ls ->
    prefix (c_got c) (filter_map conv (apubs ls))
    /\ (active c = true -> c_alive c = true ->
        c_got c ++ c_mbox c ++ filter_map conv (held c ++ c_backlog c) = filter_map conv (apubs ls)).
  Proof.
    intros k ls c Hc H Al. destruct (crun_grun _ _ ginit _ H) as (g & G).
    rewrite <- (pubs_run _ _ _ _ _ G eq_refl eq_refl).
    pose proof (inv_run _ _ _ _ _ inv_init G) as I.
    pose proof (lag_needs_behind k _ _ _ _ _ Hc Al G) as L. cbn in L.
    split; [apply inv_prefix; assumption|]. intros A Alv. apply inv_exact; assumption.
  Qed.

  Theorem sub1_after_lag : forall k l1 l2 c1 c2, cap = Some k ->
    crun ainit l1 = Some c1 -> crun c1 l2 = Some c2 ->
    always cap conv (fun c => length (c_backlog c) <= k) c1 l2 ->
    active c1 = true -> active c2 = true -> c_alive c2 = true ->
    c_got c2 ++ c_mbox c2 ++ filter_map conv (held c2 ++ c_backlog c2)
    = c_got c1 ++ c_mbox c1 ++ filter_map conv (held c1 ++ c_backlog c1 ++ apubs_on l2).
  Proof.
    intros k l1 l2 c1 c2 Hc H1 H2 Al A1 A2 Alv.
    destruct (crun_grun _ _ ginit _ H1) as (g1 & G1).
    destruct (crun_grun _ _ g1 _ H2) as (g2 & G2).
    pose proof (inv_run _ _ _ _ _ inv_init G1) as I1.
    eapply no_lag_delivery; try eassumption.
    eapply lag_needs_behind; eassumption.
  Qed.
End Sub1.
