(* C16 — default (broadcast) port: the subscription vector `OutputPort::subscriptions` (model
   field `handles`, pruned by `subs.retain(|sub| !sub.is_dead())` on every subscribe).
   For every reachable state: the vector never loses a forwarding task that is still running
   (its live part is exactly the live part of everything ever subscribed, in creation order),
   and right after every subscribe it holds EXACTLY the live subscriptions — a stopped
   subscriber's subscription is gone from the vector by the next subscribe, a live one is
   never pruned. *)
From Coq Require Import List NArith Bool Arith Lia.
From RV Require Import OutPort.Spec OutPort.V1.
Import ListNotations.

Section H.
  Variable C : Type.
  Variable cv : C -> N -> option N.
  Variable cap : nat.

  Notation state := (state C).
  Notation step := (step C cv cap).
  Notation run := (run C cv cap).

  Definition alive (tk : N -> option (sub C)) (s : N) : bool :=
    match tk s with
    | Some sb => match s_pc C sb with PDone => false | _ => true end
    | None => false
    end.

  Lemma alive_is_dead : forall (st : state) s, negb (is_dead C st s) = alive (tasks C st) s.
  Proof. intros st s. unfold is_dead, alive. destruct (tasks C st s) as [sb|]; [destruct (s_pc C sb)|]; reflexivity. Qed.

  Record HInv (st : state) : Prop := mkHInv {
    h_live : filter (alive (tasks C st)) (handles C st) = filter (alive (tasks C st)) (order C st);
    h_known : forall s, In s (handles C st) \/ In s (order C st) -> tasks C st s <> None }.

  Lemma filter_ext_in2 : forall A (p q : A -> bool) l, (forall x, In x l -> p x = q x) -> filter p l = filter q l.
  Proof.
    induction l as [|x t IH]; intros H; cbn; [reflexivity|].
    rewrite (H x (or_introl eq_refl)), IH; [reflexivity|]. intros y Hy. apply H. right. assumption.
  Qed.

  Lemma alive_upd_other : forall tk s v x, x <> s -> alive (updf tk s v) x = alive tk x.
  Proof. intros tk s v x Hne. unfold alive, updf. apply N.eqb_neq in Hne. rewrite Hne. reflexivity. Qed.

  Lemma alive_upd_same : forall tk s sb, alive (updf tk s (Some sb)) s = match s_pc C sb with PDone => false | _ => true end.
  Proof. intros. unfold alive, updf. rewrite N.eqb_refl. reflexivity. Qed.

  (* a task update that keeps the task's liveness *)
  Lemma filter_keep : forall tk s sb l, alive (updf tk s (Some sb)) s = alive tk s ->
    filter (alive (updf tk s (Some sb))) l = filter (alive tk) l.
  Proof.
    intros tk s sb l H. apply filter_ext_in2. intros x _.
    destruct (N.eq_dec x s) as [->|Hne]; [exact H|apply alive_upd_other; exact Hne].
  Qed.

  (* a task update that ends the task removes exactly that id from the live part *)
  Lemma filter_end : forall tk s sb l, alive (updf tk s (Some sb)) s = false ->
    filter (alive (updf tk s (Some sb))) l = filter (fun x => negb (N.eqb x s)) (filter (alive tk) l).
  Proof.
    intros tk s sb l H. induction l as [|x t IH]; cbn; [reflexivity|].
    destruct (N.eq_dec x s) as [->|Hne].
    - rewrite H. destruct (alive tk s); cbn; [rewrite N.eqb_refl; cbn|]; exact IH.
    - rewrite (alive_upd_other tk s (Some sb) x Hne).
      destruct (alive tk x); cbn; [|exact IH].
      apply N.eqb_neq in Hne. rewrite Hne. cbn. f_equal. exact IH.
  Qed.

  Lemma hinv_keep : forall (st : state) s sb tl rg rc ac lg cl,
    HInv st -> tasks C st s <> None -> alive (updf (tasks C st) s (Some sb)) s = alive (tasks C st) s ->
    HInv (mkSt C tl rg rc (updf (tasks C st) s (Some sb)) (order C st) (handles C st) ac lg cl).
  Proof.
    intros st s sb tl rg rc ac lg cl [Hl Hk] Hs Ha. constructor; cbn.
    - rewrite !filter_keep by exact Ha. exact Hl.
    - intros x Hx. unfold updf. destruct (N.eqb x s); [discriminate|apply Hk; exact Hx].
  Qed.

  Lemma hinv_end : forall (st : state) s sb tl rg rc ac lg cl,
    HInv st -> alive (updf (tasks C st) s (Some sb)) s = false ->
    HInv (mkSt C tl rg rc (updf (tasks C st) s (Some sb)) (order C st) (handles C st) ac lg cl).
  Proof.
    intros st s sb tl rg rc ac lg cl [Hl Hk] Ha. constructor; cbn.
    - rewrite !(filter_end _ _ _ _ Ha). rewrite Hl. reflexivity.
    - intros x Hx. unfold updf. destruct (N.eqb x s); [discriminate|apply Hk; exact Hx].
  Qed.

  Lemma hinv_frame : forall (st : state) tl rg rc ac lg cl,
    HInv st -> HInv (mkSt C tl rg rc (tasks C st) (order C st) (handles C st) ac lg cl).
  Proof. intros st tl rg rc ac lg cl [Hl Hk]. constructor; cbn; assumption. Qed.

  Lemma filter_filter_same : forall A (p : A -> bool) l, filter p (filter p l) = filter p l.
  Proof.
    induction l as [|x t IH]; cbn; [reflexivity|].
    destruct (p x) eqn:E; cbn; [rewrite E, IH; reflexivity|exact IH].
  Qed.

  (* the subscribe step: prune, then push the new (live) subscription *)
  Lemma subscribe_exact : forall (st : state) s a c tl rg rc ac lg cl, HInv st -> tasks C st s = None ->
    let tk' := updf (tasks C st) s (Some (mkSub C a c (tail C st) PRecv)) in
    let hs' := filter (fun h => negb (is_dead C st h)) (handles C st) ++ [s] in
    HInv (mkSt C tl rg rc tk' (order C st ++ [s]) hs' ac lg cl)
    /\ hs' = filter (alive tk') (order C st ++ [s]).
  Proof.
    intros st s a c tl rg rc ac lg cl [Hl Hk] Hs tk' hs'.
    assert (Hfresh : forall x, In x (handles C st) \/ In x (order C st) -> x <> s).
    { intros x Hx ->. exact (Hk s Hx Hs). }
    assert (Ha : alive tk' s = true) by (unfold tk'; rewrite alive_upd_same; reflexivity).
    assert (Hh : filter (alive tk') (handles C st) = filter (alive (tasks C st)) (handles C st)).
    { apply filter_ext_in2. intros x Hx. apply alive_upd_other. apply Hfresh. left; exact Hx. }
    assert (Ho : filter (alive tk') (order C st) = filter (alive (tasks C st)) (order C st)).
    { apply filter_ext_in2. intros x Hx. apply alive_upd_other. apply Hfresh. right; exact Hx. }
    assert (Hp : filter (fun h => negb (is_dead C st h)) (handles C st) = filter (alive (tasks C st)) (handles C st)).
    { apply filter_ext_in2. intros x _. apply alive_is_dead. }
    assert (Hex : hs' = filter (alive tk') (order C st ++ [s])).
    { unfold hs'. rewrite filter_app. cbn. rewrite Ha, Ho, Hp, Hl. reflexivity. }
    split; [|exact Hex]. constructor; cbn.
    - rewrite Hex. apply filter_filter_same.
    - intros x Hx. unfold tk', updf. destruct (N.eqb x s) eqn:E; [discriminate|].
      apply Hk. unfold hs' in Hx. rewrite !in_app_iff in Hx. cbn in Hx. apply N.eqb_neq in E.
      destruct Hx as [[Hx|[Hx|[]]]|[Hx|[Hx|[]]]]; try congruence.
      + left. apply filter_In in Hx. tauto.
      + right. exact Hx.
  Qed.

  Ltac crack H :=
    repeat (match type of H with
            | (if ?c then _ else _) = _ => destruct c eqn:?
            | match ?x with _ => _ end = _ => destruct x eqn:?
            end; try discriminate).

  Lemma hinv_init : HInv (init C).
  Proof. constructor; cbn; [reflexivity|intros s [[]|[]]]. Qed.

  Lemma hinv_step : forall (st st' : state) l, HInv st -> step st l = Some st' -> HInv st'.
  Proof.
    intros st st' l I H. destruct l; unfold V1.step in H.
    - (* LPublish *) crack H; inversion H; subst; [exact I|apply hinv_frame; exact I].
    - (* LSubscribe *) crack H; inversion H; subst. eapply subscribe_exact; eauto.
    - (* LRecv *) crack H; inversion H; subst; unfold set_task;
        (apply hinv_keep; [exact I|congruence|
          rewrite alive_upd_same; unfold alive;
          match goal with E : tasks C st _ = Some _ |- _ => rewrite E end;
          match goal with E : s_pc C _ = _ |- _ => rewrite E end; reflexivity]).
    - (* LCast *) crack H; inversion H; subst; unfold set_actor, set_task; cbn;
        try (apply hinv_keep; [exact I|congruence|
          rewrite alive_upd_same; unfold alive;
          match goal with E : tasks C st _ = Some _ |- _ => rewrite E end;
          match goal with E : s_pc C _ = _ |- _ => rewrite E end; reflexivity]).
      apply hinv_end; [exact I|rewrite alive_upd_same; reflexivity].
    - (* LHandle *) crack H; inversion H; subst; unfold set_actor; apply hinv_frame; exact I.
    - (* LStop *) crack H; inversion H; subst; unfold set_actor; apply hinv_frame; exact I.
    - (* LStart *) crack H; inversion H; subst; unfold set_actor; apply hinv_frame; exact I.
    - (* LClose *) crack H; inversion H; subst; apply hinv_frame; exact I.
    - (* LEnd *) crack H; inversion H; subst.
      apply hinv_end; [exact I|rewrite alive_upd_same; reflexivity].
  Qed.

  Lemma hinv_run : forall ls (st st' : state), HInv st -> run st ls = Some st' -> HInv st'.
  Proof.
    induction ls as [|l t IH]; intros st st' I H; cbn in H.
    - inversion H; subst; exact I.
    - destruct (step st l) as [st1|] eqn:S; [|discriminate].
      eapply IH; [|exact H]. eapply hinv_step; eauto.
  Qed.

  (* every reachable state: no running forwarding task is ever missing from the vector *)
  Theorem v1_handles_keep_live : forall ls st, run (init C) ls = Some st ->
    filter (alive (tasks C st)) (handles C st) = filter (alive (tasks C st)) (order C st).
  Proof. intros ls st H. exact (h_live _ (hinv_run _ _ _ hinv_init H)). Qed.

  (* right after every subscribe: the vector is exactly the live subscriptions, creation order *)
  Theorem v1_subscribe_prunes_exactly : forall ls st st' s a c, run (init C) ls = Some st ->
    step st (LSubscribe s a c) = Some st' ->
    handles C st' = filter (alive (tasks C st')) (order C st')
    /\ (forall h, In h (handles C st') -> is_dead C st' h = false).
  Proof.
    intros ls st st' s a c Hr H.
    pose proof (hinv_run _ _ _ hinv_init Hr) as I.
    unfold V1.step in H. crack H. inversion H; subst; cbn.
    match goal with E : tasks C st s = None |- _ =>
      destruct (subscribe_exact st s a c (tail C st) (ring C st) (S (rxcnt C st)) (actors C st) (log C st) (closed C st) I E) as [_ Hex]
    end.
    cbn in Hex. split; [exact Hex|].
    intros h Hin. rewrite Hex in Hin. apply filter_In in Hin. destruct Hin as [_ Ha].
    unfold is_dead. cbn [tasks]. unfold alive in Ha.
    match type of Ha with match ?t with _ => _ end = _ => destruct t as [sb|] end;
      [destruct (s_pc C sb)|]; first [reflexivity|discriminate].
  Qed.
End H.

(* non-vacuity: subscription 0's receiver stops, its forwarding task ends on the failed cast,
   and the next subscribe prunes it: the vector is [1] while everything ever subscribed is [0;1];
   before that subscribe the dead subscription is still in the vector *)
Example prune_happens :
  option_map (fun st => (handles unit st, order unit st, is_dead unit st 0))
    (V1.run unit (fun _ m => Some m) 4 (init unit)
       [LSubscribe 0 7 tt; LPublish 5; LStop 7; LRecv 0; LCast 0; LSubscribe 1 8 tt])
  = Some ([1%N], [0%N; 1%N], true)
  /\ option_map (fun st => (handles unit st, is_dead unit st 0))
       (V1.run unit (fun _ m => Some m) 4 (init unit)
          [LSubscribe 0 7 tt; LPublish 5; LStop 7; LRecv 0; LCast 0])
     = Some ([0%N], true).
Proof. vm_compute. split; reflexivity. Qed.
