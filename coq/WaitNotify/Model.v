(* C06 — model of the shutdown-wait handshake of ractor:
     ActorProperties::wait / notify_stop_listener        (ractor/src/actor/actor_properties.rs)
     ActorCell::set_status                               (ractor/src/actor/actor_cell.rs)
     the exit path processing_loop tail + ActorLifecycleGuard::cleanup (ractor/src/actor.rs)
   over a model of tokio 1.53 `sync::Notify` (notify.rs: `notified()` captures the
   notify_waiters call counter; poll = lock-free fast path, then the locked section).

   Definitions only (total, computable); proofs are in WaitNotify/Proofs.v.

   Threads and labels.  The state has any number of *actor-side threads*, each running a
   straight-line program of lifecycle instructions (the real code has exactly one: the
   actor's task; the general theorems hold for any number, which is what "any number of
   concurrent set_status callers" means), and any number of *waiters*.  A label is one
   atomic step of one thread (one atomic operation / one mutex-protected section of the
   code); a label list is an arbitrary interleaving.  Disabled labels are no-ops. *)
From Coq Require Import List NArith Bool.
Import ListNotations.
Local Open Scope N_scope.

(* ---------- lifecycle status (ActorStatus, AtomicU8) ---------- *)
Inductive stat := Unstarted | Starting | Running | Upgrading | Draining | Stopping | Stopped.

Definition rank (x : stat) : N :=
  match x with
  | Unstarted => 0 | Starting => 1 | Running => 2 | Upgrading => 3
  | Draining => 4 | Stopping => 5 | Stopped => 6
  end.

(* AtomicU8::fetch_max *)
Definition smax (a b : stat) : stat := if rank a <? rank b then b else a.

Definition stat_eqb (a b : stat) : bool := rank a =? rank b.

(* ---------- actor-side programs ---------- *)
(* ISet x      ActorCell::set_status(x): fetch_max, then (elected by the previous value)
               the registry/pg cleanup block, then (elected) notify_waiters; notify_one
   IGate g     the task is parked (in a callback / in the message loop) until the harness
               or a caller opens gate g
   IPsEnter / IPsExit / IPsCancel   post_stop entered / returned (Ok, Err or caught panic) /
               dropped by a kill signal (run_with_signal)
   ITerminate  ActorCell::terminate(): signal and detach the children
   INotifySup  notify_supervisor(terminal event)
   IUnlink     unlink from the supervisor *)
Inductive instr :=
| ISet (x : stat) | IGate (g : N)
| IPsEnter | IPsExit | IPsCancel | ITerminate | INotifySup | IUnlink.

(* where a thread is inside ISet: SClean1..3 = the cleanup block (pid registry, name
   registry, process groups) with the flag "notify afterwards"; SNotify1 = about to call
   notify_waiters; SNotify2 = about to call notify_one *)
Inductive sub := SIdle | SClean1 (nf : bool) | SClean2 (nf : bool) | SClean3 (nf : bool)
               | SNotify1 | SNotify2.

Record athread := mkT { a_prog : list instr; a_sub : sub; a_hist : list instr }.

Definition a_done (t : athread) : bool :=
  match a_prog t, a_sub t with [], SIdle => true | _, _ => false end.

(* ---------- waiters ---------- *)
Inductive notif := NOne | NAll.

(* W0 -(notified(): capture calls)-> W1 seen -(load status)-> W2 seen
   -(poll: fast path)-> W2L seen -(poll: locked section)-> WWait seen None
   WWait seen (Some n): removed from the list and flagged by notify_one / notify_waiters
   WJoin: a task awaiting the actor's JoinHandle (completes when thread 0 has finished) *)
Inductive wpc :=
| W0 | W1 (seen : N) | W2 (seen : N) | W2L (seen : N) | WWait (seen : N) (fl : option notif)
| WDone | WTimedOut | WJoin | WJDone.

(* ---------- ghost observables of the exit ---------- *)
Record ghost := mkG {
  name_reg : bool;    (* registry::where_is(name) = this actor *)
  pid_reg : bool;     (* pid registry entry present *)
  pg_reg : bool;      (* process-group memberships present *)
  cleanups : N;       (* executions of the name-unregister step of the cleanup block *)
  ps_in : N;          (* post_stop entered *)
  ps_out : N;         (* post_stop left (returned or cancelled) *)
  n_term : N;         (* terminate() calls: children signalled and detached *)
  n_sup : N;          (* terminal supervision events enqueued *)
  n_unlink : N;       (* unlink from supervisor *)
  kids : list (stat * bool)  (* children linked at exit time: status when the parent exits,
                                and whether terminate() has sent them the kill signal *)
}.

Record st := mkSt {
  status : stat;
  calls : N;               (* Notify: number of notify_waiters calls *)
  permit : bool;           (* Notify: state NOTIFIED (one stored permit) *)
  queue : list nat;        (* Notify: waiter list, oldest first *)
  wpcs : list wpc;
  athreads : list athread;
  gates : list N;          (* opened gates *)
  gh : ghost
}.

Fixpoint upd {A} (l : list A) (i : nat) (x : A) : list A :=
  match l, i with
  | [], _ => []
  | _ :: t, O => x :: t
  | h :: t, S i => h :: upd t i x
  end.

Definition with_status (s : st) (x : stat) : st :=
  mkSt x (calls s) (permit s) (queue s) (wpcs s) (athreads s) (gates s) (gh s).
Definition with_calls (s : st) (c : N) : st :=
  mkSt (status s) c (permit s) (queue s) (wpcs s) (athreads s) (gates s) (gh s).
Definition with_permit (s : st) (p : bool) : st :=
  mkSt (status s) (calls s) p (queue s) (wpcs s) (athreads s) (gates s) (gh s).
Definition with_queue (s : st) (q : list nat) : st :=
  mkSt (status s) (calls s) (permit s) q (wpcs s) (athreads s) (gates s) (gh s).
Definition with_wpcs (s : st) (l : list wpc) : st :=
  mkSt (status s) (calls s) (permit s) (queue s) l (athreads s) (gates s) (gh s).
Definition with_athreads (s : st) (l : list athread) : st :=
  mkSt (status s) (calls s) (permit s) (queue s) (wpcs s) l (gates s) (gh s).
Definition with_gates (s : st) (l : list N) : st :=
  mkSt (status s) (calls s) (permit s) (queue s) (wpcs s) (athreads s) l (gh s).
Definition with_gh (s : st) (g : ghost) : st :=
  mkSt (status s) (calls s) (permit s) (queue s) (wpcs s) (athreads s) (gates s) g.

Definition set_thread (s : st) (i : nat) (t : athread) : st :=
  with_athreads s (upd (athreads s) i t).
Definition set_wpc (s : st) (w : nat) (p : wpc) : st :=
  with_wpcs s (upd (wpcs s) w p).

(* ---------- tokio Notify ---------- *)
Definition flag_pc (n : notif) (p : wpc) : wpc :=
  match p with WWait seen None => WWait seen (Some n) | _ => p end.

Definition flag_at (l : list wpc) (w : nat) (n : notif) : list wpc :=
  match nth_error l w with Some p => upd l w (flag_pc n p) | None => l end.

(* notify_waiters: one locked section: bump the call counter, unlink and flag everybody *)
Definition notify_waiters (s : st) : st :=
  with_queue (with_wpcs (with_calls s (calls s + 1)) (map (flag_pc NAll) (wpcs s))) [].

(* notify_one / notify_locked: no waiter -> store the permit; else unlink and flag the oldest *)
Definition notify_one (s : st) : st :=
  match queue s with
  | [] => with_permit s true
  | w :: r => with_queue (with_wpcs s (flag_at (wpcs s) w NOne)) r
  end.

Fixpoint remove_nat (w : nat) (l : list nat) : list nat :=
  match l with
  | [] => []
  | x :: t => if Nat.eqb x w then remove_nat w t else x :: remove_nat w t
  end.

(* ---------- one step of an actor-side thread ---------- *)
Definition pop (t : athread) : athread :=
  mkT (tl (a_prog t)) SIdle (a_hist t ++ firstn 1 (a_prog t)).
Definition at_sub (t : athread) (x : sub) : athread := mkT (a_prog t) x (a_hist t).

Definition mem_gate (g : N) (l : list N) : bool := existsb (N.eqb g) l.

Definition gh_pid (g : ghost) : ghost :=
  mkG (name_reg g) false (pg_reg g) (cleanups g) (ps_in g) (ps_out g) (n_term g) (n_sup g) (n_unlink g) (kids g).
Definition gh_name (g : ghost) : ghost :=
  mkG false (pid_reg g) (pg_reg g) (cleanups g + 1) (ps_in g) (ps_out g) (n_term g) (n_sup g) (n_unlink g) (kids g).
Definition gh_pg (g : ghost) : ghost :=
  mkG (name_reg g) (pid_reg g) false (cleanups g) (ps_in g) (ps_out g) (n_term g) (n_sup g) (n_unlink g) (kids g).
Definition signal_kid (k : stat * bool) : stat * bool := (fst k, snd k || (rank (fst k) <? 5)).
(* signalled, or on its own way out *)
Definition kid_ok (k : stat * bool) : bool := snd k || (5 <=? rank (fst k)).

Definition gh_instr (i : instr) (g : ghost) : ghost :=
  match i with
  | IPsEnter => mkG (name_reg g) (pid_reg g) (pg_reg g) (cleanups g) (ps_in g + 1) (ps_out g) (n_term g) (n_sup g) (n_unlink g) (kids g)
  | IPsExit | IPsCancel =>
      mkG (name_reg g) (pid_reg g) (pg_reg g) (cleanups g) (ps_in g) (ps_out g + 1) (n_term g) (n_sup g) (n_unlink g) (kids g)
  | ITerminate =>
      (* ActorCell::terminate: every child that is not yet Stopping/Stopped (Draining included) is
         sent the kill signal; all are detached *)
      mkG (name_reg g) (pid_reg g) (pg_reg g) (cleanups g) (ps_in g) (ps_out g) (n_term g + 1) (n_sup g) (n_unlink g)
          (map signal_kid (kids g))
  | INotifySup => mkG (name_reg g) (pid_reg g) (pg_reg g) (cleanups g) (ps_in g) (ps_out g) (n_term g) (n_sup g + 1) (n_unlink g) (kids g)
  | IUnlink => mkG (name_reg g) (pid_reg g) (pg_reg g) (cleanups g) (ps_in g) (ps_out g) (n_term g) (n_sup g) (n_unlink g + 1) (kids g)
  | ISet _ | IGate _ => g
  end.

Definition astep (s : st) (i : nat) : st :=
  match nth_error (athreads s) i with
  | None => s
  | Some t =>
    match a_sub t with
    | SIdle =>
      match a_prog t with
      | [] => s
      | ISet x :: _ =>
          (* fetch_max; the previous value elects the cleanup and the wake-up *)
          let prev := status s in
          let ec := (5 <=? rank x) && (rank prev <? 5) in
          let en := (rank x =? 6) && (rank prev <? 6) in
          let s1 := with_status s (smax prev x) in
          if ec then set_thread s1 i (at_sub t (SClean1 en))
          else if en then set_thread s1 i (at_sub t SNotify1)
          else set_thread s1 i (pop t)
      | IGate g :: _ => if mem_gate g (gates s) then set_thread s i (pop t) else s
      | ins :: _ => set_thread (with_gh s (gh_instr ins (gh s))) i (pop t)
      end
    | SClean1 nf => set_thread (with_gh s (gh_pid (gh s))) i (at_sub t (SClean2 nf))
    | SClean2 nf => set_thread (with_gh s (gh_name (gh s))) i (at_sub t (SClean3 nf))
    | SClean3 nf => set_thread (with_gh s (gh_pg (gh s))) i (if nf then at_sub t SNotify1 else pop t)
    | SNotify1 => set_thread (notify_waiters s) i (at_sub t SNotify2)
    | SNotify2 => set_thread (notify_one s) i (pop t)
    end
  end.

Definition thread0_done (s : st) : bool :=
  match athreads s with t :: _ => a_done t | [] => true end.

(* ---------- one step of a waiter: ActorProperties::wait ---------- *)
Definition poll_init (s : st) (w : nat) (seen : N) (locked : bool) : st :=
  if negb (calls s =? seen) then set_wpc s w WDone
  else if permit s then set_wpc (with_permit s false) w WDone
  else if locked then set_wpc (with_queue s (queue s ++ [w])) w (WWait seen None)
  else set_wpc s w (W2L seen).

Definition wstep (s : st) (w : nat) : st :=
  match nth_error (wpcs s) w with
  | None => s
  | Some p =>
    match p with
    | W0 => set_wpc s w (W1 (calls s))
    | W1 seen => if stat_eqb (status s) Stopped then set_wpc s w WDone else set_wpc s w (W2 seen)
    | W2 seen => poll_init s w seen false
    | W2L seen => poll_init s w seen true
    | WWait seen (Some _) => set_wpc s w WDone
    | WWait seen None =>
        if negb (calls s =? seen) then set_wpc (with_queue s (remove_nat w (queue s))) w WDone else s
    | WJoin => if thread0_done s then set_wpc s w WJDone else s
    | WDone | WTimedOut | WJDone => s
    end
  end.

(* the timeout of `timeout(d, wait())` fires while the waiter is parked: Drop for Notified *)
Definition tstep (s : st) (w : nat) : st :=
  match nth_error (wpcs s) w with
  | Some (WWait seen fl) =>
      let s1 := set_wpc (with_queue s (remove_nat w (queue s))) w WTimedOut in
      match fl with Some NOne => notify_one s1 | _ => s1 end
  | _ => s
  end.

(* ActorProperties::drain's status part: fetch_update(f < Stopping -> Draining) *)
Definition dstep (s : st) : st :=
  if rank (status s) <? 5 then with_status s Draining else s.

Inductive label := LA (i : nat) | LW (w : nat) | LT (w : nat) | LDrain | LOpen (g : N).

Definition step (s : st) (l : label) : st :=
  match l with
  | LA i => astep s i
  | LW w => wstep s w
  | LT w => tstep s w
  | LDrain => dstep s
  | LOpen g => with_gates s (g :: gates s)
  end.

Definition run (ls : list label) (s : st) : st := fold_left step ls s.

(* ---------- initial states ---------- *)
Definition gh0 : ghost := mkG true true true 0 0 0 0 0 0 [].

Definition init_thread (p : list instr) : athread := mkT p SIdle [].

(* `remote`: the actor has a remote ActorId (ActorRuntime::spawn_linked_remote): it never has a name
   or pid entry, but it can be a member / monitor of process groups like any other actor *)
Definition gh0k (ks : list stat) (remote : bool) : ghost :=
  mkG (negb remote) (negb remote) true 0 0 0 0 0 0 (map (fun x => (x, false)) ks).

(* `ks`: the statuses of the children linked to the actor when it exits *)
Definition mk_init_k (s0 : stat) (ws : list wpc) (progs : list (list instr)) (ks : list stat) (remote : bool) : st :=
  mkSt s0 0 false [] ws (map init_thread progs) [] (gh0k ks remote).

Definition mk_init (s0 : stat) (ws : list wpc) (progs : list (list instr)) : st :=
  mk_init_k s0 ws progs [] false.

Definition wpc_initial (p : wpc) : bool := match p with W0 | WJoin => true | _ => false end.

(* ---------- "cannot move" ---------- *)
Definition can_move (s : st) (p : wpc) : bool :=
  match p with
  | W0 | W1 _ | W2 _ | W2L _ | WWait _ (Some _) => true
  | WWait seen None => negb (calls s =? seen)
  | WJoin => thread0_done s
  | WDone | WTimedOut | WJDone => false
  end.

Definition terminal (p : wpc) : bool :=
  match p with WDone | WTimedOut | WJDone => true | _ => false end.

Definition threads_done (s : st) : bool := forallb a_done (athreads s).

(* ---------- what the code does on exit ---------- *)
(* The lifecycle-relevant actions of the actor's task, in code order, per exit cause.
   Gate 0 = the cause is delivered; gate 1 = the harness lets post_stop return;
   gate 2 = a kill signal arrives while post_stop is parked.
   `sup` = a supervisor is linked at exit time. *)
Inductive cause :=
| CStop          (* stop / drain marker / handler asked to exit: post_stop runs *)
| CKill          (* kill signal (idle or inside a handler): handle_signal terminates first *)
| CErr           (* handler / supervisor-event handler returned Err or panicked *)
| CStopKill      (* graceful exit, then a kill while post_stop is parked *)
| CPreStartFail  (* pre_start returned Err / panicked: the guard cleans up, no event *)
| CPostStartFail (* post_start failed *)
| CPreStartKill  (* kill signal while pre_start is running: handle_signal, then the guard, no event *)
| CPostStartKill (* kill signal while post_start is running *)
| CAbort         (* the actor's loop task is cancelled (JoinHandle::abort / runtime shutdown) before its
                    first poll, while idle or inside a handler: Drop for ActorLifecycleGuard *)
| CAbortPs       (* ... cancelled while post_stop is parked *)
| CStopUnwind    (* graceful exit of an UNSUPERVISED actor whose final State has a panicking destructor:
                    the terminal event is dropped inside cleanup() after terminate(), cleanup unwinds, and
                    Drop for ActorLifecycleGuard (still armed) runs the whole cleanup again *)
| CErrUnwind     (* same for a handler failure whose error value has a panicking destructor *).

Definition guard_cleanup (ev sup : bool) : list instr :=
  [ISet Stopping; ITerminate] ++ (if ev && sup then [INotifySup] else [])
  ++ (if sup then [IUnlink] else []) ++ [ISet Stopped].

Definition exit_prog (c : cause) (sup : bool) : list instr :=
  match c with
  | CStop => [IGate 0; ISet Stopping; IPsEnter; IGate 1; IPsExit] ++ guard_cleanup true sup
  | CKill => [IGate 0; ITerminate; ISet Stopping] ++ guard_cleanup true sup
  | CErr => [IGate 0; ISet Stopping] ++ guard_cleanup true sup
  | CStopKill => [IGate 0; ISet Stopping; IPsEnter; IGate 2; IPsCancel; ITerminate] ++ guard_cleanup true sup
  | CPreStartFail => [IGate 0] ++ guard_cleanup false false
  | CPostStartFail => [IGate 0] ++ guard_cleanup true sup
  | CPreStartKill => [IGate 0; ITerminate] ++ guard_cleanup false false
  | CPostStartKill => [IGate 0; ITerminate] ++ guard_cleanup true sup
  (* a cancelled task: the guard's Drop runs the cleanup; it reports the terminal event iff the
     actor had been marked running, which start() does BEFORE it creates the loop task — so every
     cancellation of the loop task is reported (a cancelled start task is CPreStartFail: no event) *)
  | CAbort => [IGate 0] ++ guard_cleanup true sup
  | CAbortPs => [IGate 0; ISet Stopping; IPsEnter; IGate 2; IPsCancel] ++ guard_cleanup true sup
  | CStopUnwind => [IGate 0; ISet Stopping; IPsEnter; IGate 1; IPsExit; ISet Stopping; ITerminate]
                   ++ guard_cleanup true false
  | CErrUnwind => [IGate 0; ISet Stopping; ISet Stopping; ITerminate] ++ guard_cleanup true false
  end.

(* ---------- snapshots and the executable property ---------- *)
(* what the harness snapshots when a waiter returns *)
Record snap := mkSnap {
  sn_status : stat;
  sn_name : bool;       (* where_is(name) still finds the actor *)
  sn_pid : bool;        (* where_is_pid(id) still finds the actor *)
  sn_pg : bool;         (* still a member of its process group *)
  sn_ps_active : bool;  (* post_stop entered and not yet left *)
  sn_ps_done : bool;    (* post_stop left at least once *)
  sn_children : bool;   (* terminate() has run: every child is detached and has been sent the kill
                           signal unless it was already Stopping/Stopped *)
  sn_sup : bool;        (* the supervisor has been sent the terminal event *)
}.

Definition snapshot (s : st) : snap :=
  let g := gh s in
  mkSnap (status s) (name_reg g) (pid_reg g) (pg_reg g)
         (negb (ps_in g =? ps_out g)) (0 <? ps_out g) ((0 <? n_term g) && forallb kid_ok (kids g)) (0 <? n_sup g).

(* expectations that depend on the scenario: was post_stop entered by the exit
   (want_ps), is there a supervisor that must have been told (want_sup) *)
Definition fully_stopped (want_ps want_sup : bool) (x : snap) : bool :=
  stat_eqb (sn_status x) Stopped && negb (sn_name x) && negb (sn_pid x) && negb (sn_pg x)
  && negb (sn_ps_active x) && implb want_ps (sn_ps_done x)
  && sn_children x && implb want_sup (sn_sup x).

(* OErr: a *_and_wait call whose send part failed (Err(Messaging)): it never waited and the
   property makes no claim about it; the model never produces it *)
Inductive outcome := ORet | OTimeout | OJoin | OPending | OErr.

Record obs := mkObs { o_w : nat; o_out : outcome; o_snap : snap }.

(* observed run: every label that completes a waiter emits (waiter, outcome, snapshot
   of the state in which it returns) *)
Definition obs_of (s s' : st) (l : label) : list obs :=
  match l with
  | LW w | LT w =>
      match nth_error (wpcs s) w, nth_error (wpcs s') w with
      | Some p, Some p' =>
          if terminal p then [] else
          match p' with
          | WDone => [mkObs w ORet (snapshot s')]
          | WJDone => [mkObs w OJoin (snapshot s')]
          | WTimedOut => [mkObs w OTimeout (snapshot s')]
          | _ => []
          end
      | _, _ => []
      end
  | _ => []
  end.

Fixpoint run_obs (ls : list label) (s : st) : list obs * st :=
  match ls with
  | [] => ([], s)
  | l :: r => let s' := step s l in
              let '(o, s'') := run_obs r s' in (obs_of s s' l ++ o, s'')
  end.

Fixpoint pending_from (k : nat) (l : list wpc) (x : snap) : list obs :=
  match l with
  | [] => []
  | p :: t => (if terminal p then [] else [mkObs k OPending x]) ++ pending_from (S k) t x
  end.

(* the full observation of a run: completions in order, then the waiters still pending *)
Definition observe (ls : list label) (s : st) : list obs :=
  let '(o, s') := run_obs ls s in o ++ pending_from 0 (wpcs s') (snapshot s').

Fixpoint nondecreasing (prev : N) (l : list obs) : bool :=
  match l with
  | [] => true
  | o :: t => (prev <=? rank (sn_status (o_snap o))) && nondecreasing (rank (sn_status (o_snap o))) t
  end.

(* check_C06: every Ok return (wait family or join handle) shows the fully stopped state;
   a timeout is reported as a timeout; observed statuses never decrease; and when the
   schedule was complete (exit finished, everybody run until blocked) nobody is pending. *)
Definition obs_ok (want_ps want_sup complete : bool) (o : obs) : bool :=
  match o_out o with
  | ORet | OJoin => fully_stopped want_ps want_sup (o_snap o)
  | OTimeout | OErr => true
  | OPending => negb complete
  end.

Definition check_C06 (want_ps want_sup complete : bool) (l : list obs) : bool :=
  forallb (obs_ok want_ps want_sup complete) l && nondecreasing 0 l.

(* expectations attached to a cause *)
Definition want_ps_of (c : cause) : bool :=
  match c with CStop | CStopKill | CAbortPs | CStopUnwind => true | _ => false end.
Definition want_sup_of (c : cause) (sup : bool) : bool :=
  match c with CPreStartFail | CPreStartKill | CStopUnwind | CErrUnwind => false | _ => sup end.

(* ---------- E1 schedules: everything runs until it blocks ---------- *)
Fixpoint repeat_l {A} (x : list A) (n : nat) : list A :=
  match n with O => [] | S k => x ++ repeat_l x k end.

Definition waiters_pass (started : list nat) : list label :=
  flat_map (fun w => repeat_l [LW w] 5) started.

(* one quiescence window: the actor task runs until it parks or finishes, then every
   started waiter runs until it blocks (twice: a timed-out waiter may pass a permit on).
   `eager` waiters are polled from inside their waker, i.e. on the exit thread in the middle
   of notify_waiters(): in the schedule they get a turn after every micro-step of the
   actor task (a poll without a wake-up is a no-op) *)
Definition settle (started eager : list nat) : list label :=
  repeat_l (LA 0%nat :: waiters_pass eager) 40 ++ waiters_pass started ++ waiters_pass started.

Inductive op :=
| OpStart (w : nat)      (* waiter task w is spawned and runs until it blocks *)
| OpStartEager (w : nat) (* same, but the waiter is re-polled synchronously by its waker *)
| OpOpen (g : N)         (* a gate is opened: the cause is delivered / post_stop released / kill *)
| OpDrain                (* drain()'s status part *)
| OpTimeout (w : nat)    (* the virtual clock passes waiter w's deadline *)
| OpSettle.

Fixpoint sched_go (started eager : list nat) (ops : list op) : list label :=
  match ops with
  | [] => []
  | OpStart w :: r => repeat_l [LW w] 5 ++ sched_go (started ++ [w]) eager r
  | OpStartEager w :: r => repeat_l [LW w] 5 ++ sched_go (started ++ [w]) (eager ++ [w]) r
  | OpOpen g :: r => LOpen g :: sched_go started eager r
  | OpDrain :: r => LDrain :: sched_go started eager r
  | OpTimeout w :: r => LT w :: sched_go started eager r
  | OpSettle :: r => settle started eager ++ sched_go started eager r
  end.

Definition sched (ops : list op) : list label := sched_go [] [] ops.

(* the status the driver reads after each operation (each operation is followed by a
   quiescence window in the harness; the generators put OpSettle there) *)
Fixpoint statuses_go (started eager : list nat) (ops : list op) (s : st) : list stat :=
  match ops with
  | [] => []
  | o :: r =>
      let s' := run (sched_go started eager [o]) s in
      let started' := match o with OpStart w | OpStartEager w => started ++ [w] | _ => started end in
      let eager' := match o with OpStartEager w => eager ++ [w] | _ => eager end in
      match o with
      | OpSettle => status s' :: statuses_go started' eager' r s'
      | _ => statuses_go started' eager' r s'
      end
  end.

Fixpoint mono_stats (prev : N) (l : list stat) : bool :=
  match l with
  | [] => true
  | x :: t => (prev <=? rank x) && mono_stats (rank x) t
  end.

(* a scenario of the E1 engine *)
Definition scenario_init_k (s0 : stat) (ws : list wpc) (c : cause) (sup : bool) (ks : list stat) (remote : bool) : st :=
  mk_init_k s0 ws [exit_prog c sup] ks remote.

Definition scenario_init (s0 : stat) (ws : list wpc) (c : cause) (sup : bool) : st :=
  scenario_init_k s0 ws c sup [] false.

Definition run_scenario (s0 : stat) (ws : list wpc) (c : cause) (sup : bool) (ks : list stat) (remote : bool) (ops : list op) : list obs :=
  observe (sched ops) (scenario_init_k s0 ws c sup ks remote).

Definition scenario_statuses (s0 : stat) (ws : list wpc) (c : cause) (sup : bool) (ks : list stat) (remote : bool) (ops : list op) : list stat :=
  statuses_go [] [] ops (scenario_init_k s0 ws c sup ks remote).

(* executions of the cleanup block (observed by the harness as the number of process-group
   Leave notifications for the actor) and what the property says about that number: never
   twice, and once by the time the actor is Stopped.  (That the code runs it already at
   Stopping is part of the model and of the compared view, not of the oracle.) *)
Definition scenario_cleanups (s0 : stat) (ws : list wpc) (c : cause) (sup : bool) (ks : list stat) (remote : bool) (ops : list op) : N :=
  cleanups (gh (run (sched ops) (scenario_init_k s0 ws c sup ks remote))).

Definition check_cleanup (n : N) (final : stat) : bool :=
  (n <=? 1) && (if rank final =? 6 then n =? 1 else true).

(* was the schedule maximal: the actor task has finished and the status is Stopped *)
Definition scenario_complete (s0 : stat) (ws : list wpc) (c : cause) (sup : bool) (ks : list stat) (remote : bool) (ops : list op) : bool :=
  let s := run (sched ops) (scenario_init_k s0 ws c sup ks remote) in
  threads_done s && stat_eqb (status s) Stopped.
