(* C06 — proofs about WaitNotify/Model.v.
   Part 1: the interleaving invariant (J1-J4 of DESIGN Appendix C, in counting form) for
           any number of actor-side threads running arbitrary programs and any number of
           waiters, under every label list;
   Part 2: program order for the single actor task (what "status = Stopped" implies);
   Part 3: the theorems quoted by Properties/C06.v. *)
From Coq Require Import List Arith NArith Bool Lia ZifyN ZifyBool.
From RV Require Import WaitNotify.Model.
Import ListNotations.
Local Open Scope N_scope.

(* ------------------------------------------------------------------ lists *)
Lemma nth_error_upd_eq {A} (l : list A) i x y :
  nth_error l i = Some y -> nth_error (upd l i x) i = Some x.
Proof. revert i; induction l as [|h t IH]; intros [|i] H; simpl in *; try discriminate; auto. Qed.

Lemma nth_error_upd_neq {A} (l : list A) i j x :
  i <> j -> nth_error (upd l i x) j = nth_error l j.
Proof.
  revert i j; induction l as [|h t IH]; intros [|i] [|j] H; simpl; auto; try congruence.
Qed.

Lemma Forall_upd {A} (P : A -> Prop) l i x :
  Forall P l -> P x -> Forall P (upd l i x).
Proof.
  intros H Hx; revert i; induction H as [|h t Hh Ht IH]; intros [|i]; simpl; auto.
Qed.

Lemma Forall_nth {A} (P : A -> Prop) l i x :
  Forall P l -> nth_error l i = Some x -> P x.
Proof. intros H E; rewrite Forall_forall in H; apply H; eapply nth_error_In; eauto. Qed.

Lemma Forall_imp {A} (P Q : A -> Prop) l :
  (forall x, P x -> Q x) -> Forall P l -> Forall Q l.
Proof. intros H F; induction F; constructor; auto. Qed.

Lemma Forall_map_self {A} (P Q : A -> Prop) (f : A -> A) l :
  (forall x, P x -> Q (f x)) -> Forall P l -> Forall Q (map f l).
Proof. intros H F; induction F; simpl; constructor; auto. Qed.

Fixpoint sumf {A} (f : A -> N) (l : list A) : N :=
  match l with [] => 0 | x :: t => f x + sumf f t end.

Lemma sumf_upd {A} (f : A -> N) l i p p' :
  nth_error l i = Some p -> sumf f (upd l i p') + f p = sumf f l + f p'.
Proof.
  revert i; induction l as [|h t IH]; intros [|i] H; simpl in *; try discriminate.
  - injection H as ->. lia.
  - specialize (IH _ H). lia.
Qed.

Lemma sumf_zero {A} (f : A -> N) l : (forall x, In x l -> f x = 0) -> sumf f l = 0.
Proof.
  induction l as [|h t IH]; simpl; intros H; auto.
  rewrite (H h), IH; auto.
Qed.

Lemma hd_upd_S {A} (l : list A) i x : hd_error (upd l (S i) x) = hd_error l.
Proof. destruct l; reflexivity. Qed.

(* ------------------------------------------------------------------ status *)
Lemma rank_inj x y : rank x = rank y -> x = y.
Proof. destruct x, y; simpl; intros H; try reflexivity; discriminate. Qed.

Lemma rank_le6 x : rank x <= 6.
Proof. destruct x; simpl; lia. Qed.

Lemma rank_smax a b : rank (smax a b) = N.max (rank a) (rank b).
Proof. unfold smax; destruct (rank a <? rank b) eqn:E; lia. Qed.

Lemma stat_eqb_eq a b : stat_eqb a b = true <-> a = b.
Proof.
  unfold stat_eqb; split; intros H.
  - apply rank_inj; lia.
  - subst; lia.
Qed.

Lemma stopped_rank x : x = Stopped <-> rank x = 6.
Proof. split; [intros ->; reflexivity | intros H; apply rank_inj; exact H]. Qed.

Definition b2n (b : bool) : N := if b then 1 else 0.

(* ------------------------------------------------------------------ Part 1 *)
(* threads that have been elected to wake the waiters and have not yet called notify_waiters *)
Definition pn (t : athread) : N :=
  match a_sub t with
  | SClean1 true | SClean2 true | SClean3 true | SNotify1 => 1
  | _ => 0
  end.

(* threads that have been elected to run the cleanup block and have not yet unregistered the name *)
Definition pcl (t : athread) : N :=
  match a_sub t with SClean1 _ | SClean2 _ => 1 | _ => 0 end.

Definition wok (s : st) (p : wpc) : Prop :=
  match p with
  | W1 seen => seen <= calls s
  | W2 seen | W2L seen => seen = 0
  | WWait seen None => seen = 0 /\ calls s = 0
  | WWait seen (Some _) => 1 <= calls s
  | WDone => status s = Stopped
  | WJDone => thread0_done s = true
  | _ => True
  end.

Record Inv (s : st) : Prop := mkInv {
  iK : calls s + sumf pn (athreads s) = b2n (stat_eqb (status s) Stopped);
  iC : cleanups (gh s) + sumf pcl (athreads s) = b2n (5 <=? rank (status s));
  iP : permit s = true -> 1 <= calls s;
  iN2 : Forall (fun t => a_sub t = SNotify2 -> 1 <= calls s) (athreads s);
  iW : Forall (wok s) (wpcs s)
}.

Ltac prj :=
  cbn [status calls permit queue wpcs athreads gates gh
       with_status with_calls with_permit with_queue with_wpcs with_athreads with_gates with_gh
       set_thread set_wpc notify_waiters
       a_prog a_sub a_hist at_sub pop
       name_reg pid_reg pg_reg cleanups ps_in ps_out n_term n_sup n_unlink kids
       gh_pid gh_name gh_pg] in *.

Lemma thread0_done_upd_S s l i t :
  athreads s = l -> forall s', athreads s' = upd l (S i) t -> thread0_done s' = thread0_done s.
Proof.
  intros E s' E'. unfold thread0_done. rewrite E, E'. destruct l; reflexivity.
Qed.

(* a finished thread does not move *)
Lemma astep_done s i t :
  nth_error (athreads s) i = Some t -> a_done t = true -> astep s i = s.
Proof.
  intros E D. unfold astep. rewrite E. unfold a_done in D.
  destruct (a_prog t), (a_sub t); try discriminate; reflexivity.
Qed.

(* thread0_done can only go from false to true under a thread update of a live thread *)
Lemma thread0_done_mono l i t t' :
  nth_error l i = Some t -> a_done t = false ->
  (match l with x :: _ => a_done x | [] => true end) = true ->
  (match upd l i t' with x :: _ => a_done x | [] => true end) = true.
Proof.
  destruct l as [|h r]; intros E D H; simpl; auto.
  destruct i; simpl in *; auto. injection E as ->. congruence.
Qed.

Lemma wok_frame s s' p :
  calls s' = calls s -> status s' = status s ->
  (thread0_done s = true -> thread0_done s' = true) ->
  wok s p -> wok s' p.
Proof.
  intros Ec Es Ed. unfold wok. rewrite Ec, Es.
  destruct p as [| | | |seen [n|]| | | |]; auto.
Qed.

Lemma wok_status s s' p :
  calls s' = calls s -> (status s = Stopped -> status s' = Stopped) ->
  (thread0_done s = true -> thread0_done s' = true) ->
  wok s p -> wok s' p.
Proof.
  intros Ec Es Ed. unfold wok. rewrite Ec.
  destruct p as [| | | |seen [n|]| | | |]; auto.
Qed.

Lemma init_inv s0 ws progs ks r :
  rank s0 < 5 -> Forall (fun p => wpc_initial p = true) ws -> Inv (mk_init_k s0 ws progs ks r).
Proof.
  intros Hs Hw. constructor; unfold mk_init_k, gh0k; prj.
  - rewrite sumf_zero.
    + assert (stat_eqb s0 Stopped = false) as ->; [|reflexivity].
      unfold stat_eqb. simpl. lia.
    + intros x Hx. apply in_map_iff in Hx as (p & <- & _). reflexivity.
  - rewrite sumf_zero.
    + assert ((5 <=? rank s0) = false) as -> by lia. reflexivity.
    + intros x Hx. apply in_map_iff in Hx as (p & <- & _). reflexivity.
  - discriminate.
  - apply Forall_forall. intros x Hx. apply in_map_iff in Hx as (p & <- & _). discriminate.
  - eapply Forall_imp; [|exact Hw]. intros p Hp. destruct p; try discriminate; exact I.
Qed.

Lemma td_upd s s' i t t' :
  nth_error (athreads s) i = Some t -> a_done t = false ->
  athreads s' = upd (athreads s) i t' ->
  thread0_done s = true -> thread0_done s' = true.
Proof.
  intros E D E' H. unfold thread0_done in *. rewrite E'.
  eapply thread0_done_mono; eauto.
Qed.

Lemma Inv_thread_frame s s' i t t' :
  Inv s -> nth_error (athreads s) i = Some t -> a_done t = false ->
  status s' = status s -> calls s' = calls s -> permit s' = permit s -> wpcs s' = wpcs s ->
  athreads s' = upd (athreads s) i t' -> cleanups (gh s') = cleanups (gh s) ->
  pn t' = pn t -> pcl t' = pcl t -> a_sub t' <> SNotify2 -> Inv s'.
Proof.
  intros [K C P N2 W] E D Es Ec Ep Ew Et Eg Hn Hc Hs.
  pose proof (sumf_upd pn _ _ _ t' E) as U1.
  pose proof (sumf_upd pcl _ _ _ t' E) as U2.
  constructor; rewrite ?Es, ?Ec, ?Ep, ?Ew, ?Et, ?Eg.
  - lia.
  - lia.
  - exact P.
  - apply Forall_upd; [exact N2 | intros X; contradiction].
  - eapply Forall_imp; [|exact W]. intros p. apply wok_frame; auto.
    eapply td_upd; [exact E | exact D | exact Et].
Qed.

Lemma a_done_false_prog t i r : a_prog t = i :: r -> a_done t = false.
Proof. unfold a_done; intros ->; reflexivity. Qed.
Lemma a_done_false_sub t : a_sub t <> SIdle -> a_done t = false.
Proof. unfold a_done; destruct (a_prog t), (a_sub t); auto; congruence. Qed.

Lemma Inv_astep s i : Inv s -> Inv (astep s i).
Proof.
  intros I. unfold astep.
  destruct (nth_error (athreads s) i) as [t|] eqn:E; [|exact I].
  destruct (a_sub t) eqn:Esub.
  - (* SIdle *)
    destruct (a_prog t) as [|ins rest] eqn:Eprog; [exact I|].
    assert (D : a_done t = false) by (eapply a_done_false_prog; eauto).
    assert (Hpn : pn t = 0) by (unfold pn; rewrite Esub; reflexivity).
    assert (Hpc : pcl t = 0) by (unfold pcl; rewrite Esub; reflexivity).
    destruct ins as [x|g| | | | | |].
    + (* ISet x : fetch_max *)
      destruct I as [K C P N2 W].
      pose proof (rank_le6 x) as Hx6. pose proof (rank_le6 (status s)) as Hs6.
      pose proof (rank_smax (status s) x) as Hmax.
      assert (Wfr : forall s', calls s' = calls s -> status s' = smax (status s) x ->
                 (thread0_done s = true -> thread0_done s' = true) ->
                 Forall (wok s') (wpcs s)).
      { intros s' Ec Es Ed. eapply Forall_imp; [|exact W]. intros p.
        apply wok_status; auto. rewrite Es. intros ->. apply rank_inj. rewrite rank_smax. simpl. lia. }
      destruct ((5 <=? rank x) && (rank (status s) <? 5)) eqn:Eec;
        [|destruct ((rank x =? 6) && (rank (status s) <? 6)) eqn:Een].
      * (* elected for cleanup *)
        set (t' := at_sub t (SClean1 ((rank x =? 6) && (rank (status s) <? 6)))).
        pose proof (sumf_upd pn _ _ _ t' E) as U1.
        pose proof (sumf_upd pcl _ _ _ t' E) as U2.
        assert (pcl t' = 1) as Hc' by reflexivity.
        assert (pn t' = b2n ((rank x =? 6) && (rank (status s) <? 6))) as Hn'.
        { unfold pn, t'; prj. destruct ((rank x =? 6) && (rank (status s) <? 6)); reflexivity. }
        constructor; prj.
        -- unfold stat_eqb in *. simpl (rank Stopped) in *.
           destruct (rank (status s) =? 6) eqn:E6; [lia|].
           destruct (rank x =? 6) eqn:Ex6; simpl in Hn'.
           ++ assert ((rank (status s) <? 6) = true) as R by lia. rewrite R in Hn'. simpl in Hn'.
              assert ((rank (smax (status s) x) =? 6) = true) as -> by lia.
              unfold b2n in *. lia.
           ++ assert ((rank (smax (status s) x) =? 6) = false) as -> by lia.
              unfold b2n in *. lia.
        -- assert ((5 <=? rank (smax (status s) x)) = true) as -> by lia.
           assert ((5 <=? rank (status s)) = false) as R by lia. rewrite R in C.
           unfold b2n in *. lia.
        -- exact P.
        -- apply Forall_upd; [exact N2|]. unfold t'; prj. discriminate.
        -- apply Wfr; prj; auto. eapply td_upd; [exact E | exact D | reflexivity].
      * (* elected for the wake-up only *)
        set (t' := at_sub t SNotify1).
        pose proof (sumf_upd pn _ _ _ t' E) as U1.
        pose proof (sumf_upd pcl _ _ _ t' E) as U2.
        assert (pcl t' = 0) as Hc' by reflexivity.
        assert (pn t' = 1) as Hn' by reflexivity.
        constructor; prj.
        -- unfold stat_eqb in *. simpl (rank Stopped) in *.
           assert ((rank (status s) =? 6) = false) as R by lia. rewrite R in K.
           assert ((rank (smax (status s) x) =? 6) = true) as -> by lia.
           unfold b2n in *. lia.
        -- assert ((5 <=? rank (smax (status s) x)) = true) as -> by lia.
           assert ((5 <=? rank (status s)) = true) as R by lia. rewrite R in C.
           unfold b2n in *. lia.
        -- exact P.
        -- apply Forall_upd; [exact N2|]. unfold t'; prj. discriminate.
        -- apply Wfr; prj; auto. eapply td_upd; [exact E | exact D | reflexivity].
      * (* not elected *)
        set (t' := pop t).
        pose proof (sumf_upd pn _ _ _ t' E) as U1.
        pose proof (sumf_upd pcl _ _ _ t' E) as U2.
        assert (pcl t' = 0) as Hc' by reflexivity.
        assert (pn t' = 0) as Hn' by reflexivity.
        constructor; prj.
        -- unfold stat_eqb in *. simpl (rank Stopped) in *.
           assert ((rank (smax (status s) x) =? 6) = (rank (status s) =? 6)) as -> by lia.
           lia.
        -- assert ((5 <=? rank (smax (status s) x)) = (5 <=? rank (status s))) as -> by lia.
           lia.
        -- exact P.
        -- apply Forall_upd; [exact N2|]. unfold t'; prj. discriminate.
        -- apply Wfr; prj; auto. eapply td_upd; [exact E | exact D | reflexivity].
    + (* IGate *)
      destruct (mem_gate g (gates s)); [|exact I].
      eapply (Inv_thread_frame s _ i t (pop t)); eauto; try reflexivity; prj; try discriminate;
        try (rewrite Hpn; reflexivity); try (rewrite Hpc; reflexivity).
    + eapply (Inv_thread_frame s _ i t (pop t)); eauto; try reflexivity; prj; try discriminate;
        try (rewrite Hpn; reflexivity); try (rewrite Hpc; reflexivity).
    + eapply (Inv_thread_frame s _ i t (pop t)); eauto; try reflexivity; prj; try discriminate;
        try (rewrite Hpn; reflexivity); try (rewrite Hpc; reflexivity).
    + eapply (Inv_thread_frame s _ i t (pop t)); eauto; try reflexivity; prj; try discriminate;
        try (rewrite Hpn; reflexivity); try (rewrite Hpc; reflexivity).
    + eapply (Inv_thread_frame s _ i t (pop t)); eauto; try reflexivity; prj; try discriminate;
        try (rewrite Hpn; reflexivity); try (rewrite Hpc; reflexivity).
    + eapply (Inv_thread_frame s _ i t (pop t)); eauto; try reflexivity; prj; try discriminate;
        try (rewrite Hpn; reflexivity); try (rewrite Hpc; reflexivity).
    + eapply (Inv_thread_frame s _ i t (pop t)); eauto; try reflexivity; prj; try discriminate;
        try (rewrite Hpn; reflexivity); try (rewrite Hpc; reflexivity).
  - (* SClean1 *)
    assert (D : a_done t = false) by (apply a_done_false_sub; congruence).
    eapply (Inv_thread_frame s _ i t (at_sub t (SClean2 nf))); eauto; try reflexivity; prj; try discriminate.
    + unfold pn; prj; rewrite Esub; reflexivity.
    + unfold pcl; prj; rewrite Esub; reflexivity.
  - (* SClean2: the name is unregistered *)
    assert (D : a_done t = false) by (apply a_done_false_sub; congruence).
    destruct I as [K C P N2 W].
    set (t' := at_sub t (SClean3 nf)).
    pose proof (sumf_upd pn _ _ _ t' E) as U1.
    pose proof (sumf_upd pcl _ _ _ t' E) as U2.
    assert (pcl t' = 0) as Hc' by reflexivity.
    assert (pcl t = 1) as Hc by (unfold pcl; rewrite Esub; reflexivity).
    assert (pn t' = pn t) as Hn' by (unfold pn, t'; prj; rewrite Esub; reflexivity).
    constructor; prj.
    + lia.
    + lia.
    + exact P.
    + apply Forall_upd; [exact N2|]. unfold t'; prj. discriminate.
    + eapply Forall_imp; [|exact W]. intros p. apply wok_frame; auto. prj.
      eapply td_upd; [exact E | exact D | reflexivity].
  - (* SClean3 *)
    assert (D : a_done t = false) by (apply a_done_false_sub; congruence).
    eapply (Inv_thread_frame s _ i t (if nf then at_sub t SNotify1 else pop t)); eauto;
      try reflexivity; prj; try discriminate.
    + unfold pn; rewrite Esub; destruct nf; reflexivity.
    + unfold pcl; rewrite Esub; destruct nf; reflexivity.
    + destruct nf; prj; discriminate.
  - (* SNotify1: notify_waiters *)
    assert (D : a_done t = false) by (apply a_done_false_sub; congruence).
    destruct I as [K C P N2 W].
    set (t' := at_sub t SNotify2).
    pose proof (sumf_upd pn _ _ _ t' E) as U1.
    pose proof (sumf_upd pcl _ _ _ t' E) as U2.
    assert (pn t = 1) as Hn by (unfold pn; rewrite Esub; reflexivity).
    assert (pn t' = 0) as Hn' by reflexivity.
    assert (pcl t' = pcl t) as Hc' by (unfold pcl, t'; prj; rewrite Esub; reflexivity).
    constructor; prj.
    + lia.
    + lia.
    + intros _. lia.
    + apply Forall_upd.
      * eapply Forall_imp; [|exact N2]. intros x _ _. lia.
      * intros _. lia.
    + eapply Forall_map_self; [|exact W]. intros p Hp.
      assert (Td : thread0_done s = true ->
              thread0_done (with_athreads (with_queue (with_wpcs (with_calls s (calls s + 1))
                 (map (flag_pc NAll) (wpcs s))) []) (upd (athreads s) i t')) = true).
      { eapply td_upd; [exact E | exact D | reflexivity]. }
      unfold wok in *. prj.
      destruct p as [|seen|seen|seen|seen [n|]| | | |]; simpl; auto; lia.
  - (* SNotify2: notify_one *)
    assert (D : a_done t = false) by (apply a_done_false_sub; congruence).
    pose proof (Forall_nth _ _ _ _ (iN2 _ I) E Esub) as Hc1.
    destruct I as [K C P N2 W].
    set (t' := pop t).
    assert (pn t = 0) as Hn by (unfold pn; rewrite Esub; reflexivity).
    assert (pn t' = 0) as Hn' by reflexivity.
    assert (pcl t = 0) as Hc by (unfold pcl; rewrite Esub; reflexivity).
    assert (pcl t' = 0) as Hc' by reflexivity.
    unfold notify_one. destruct (queue s) as [|w r] eqn:Eq.
    + pose proof (sumf_upd pn _ _ _ t' E) as U1.
      pose proof (sumf_upd pcl _ _ _ t' E) as U2.
      constructor; prj.
      * lia.
      * lia.
      * intros _; exact Hc1.
      * apply Forall_upd; [exact N2|]. unfold t'; prj; discriminate.
      * eapply Forall_imp; [|exact W]. intros p. apply wok_frame; auto. prj. eapply td_upd; [exact E | exact D | reflexivity].
    + pose proof (sumf_upd pn _ _ _ t' E) as U1.
      pose proof (sumf_upd pcl _ _ _ t' E) as U2.
      constructor; prj.
      * lia.
      * lia.
      * exact P.
      * apply Forall_upd; [exact N2|]. unfold t'; prj; discriminate.
      * assert (W' : Forall (wok (with_athreads (with_queue (with_wpcs s (flag_at (wpcs s) w NOne)) r)
                                   (upd (athreads s) i t'))) (wpcs s)).
        { eapply Forall_imp; [|exact W]. intros p. apply wok_frame; auto. prj. eapply td_upd; [exact E | exact D | reflexivity]. }
        unfold flag_at. destruct (nth_error (wpcs s) w) as [p|] eqn:Ew; [|exact W'].
        apply Forall_upd; [exact W'|].
        pose proof (Forall_nth _ _ _ _ W' Ew) as Hp.
        unfold wok in *; prj. destruct p as [|seen|seen|seen|seen [n|]| | | |]; simpl; auto.
Qed.

Lemma calls_pos_stopped s : Inv s -> 1 <= calls s -> status s = Stopped.
Proof.
  intros I H. pose proof (iK _ I) as K. apply stat_eqb_eq.
  destruct (stat_eqb (status s) Stopped); auto. unfold b2n in K. lia.
Qed.

Lemma not_stopped_calls0 s : Inv s -> status s <> Stopped -> calls s = 0.
Proof.
  intros I H. destruct (N.eq_dec (calls s) 0) as [|Hn]; auto.
  exfalso. apply H. apply calls_pos_stopped; auto. lia.
Qed.

Lemma Inv_wpc_frame s s' w p' :
  Inv s -> status s' = status s -> calls s' = calls s ->
  (permit s' = true -> permit s = true) ->
  athreads s' = athreads s -> gh s' = gh s ->
  wpcs s' = upd (wpcs s) w p' -> wok s p' -> Inv s'.
Proof.
  intros [K C P N2 W] Es Ec Ep Et Eg Ew Hp.
  assert (Td : thread0_done s' = thread0_done s) by (unfold thread0_done; rewrite Et; reflexivity).
  constructor; rewrite ?Es, ?Ec, ?Et, ?Eg, ?Ew; auto.
  apply Forall_upd.
  - eapply Forall_imp; [|exact W]. intros p. apply wok_frame; auto. rewrite Td; auto.
  - revert Hp. apply wok_frame; auto. rewrite Td; auto.
Qed.

Lemma Inv_notify_one s : Inv s -> 1 <= calls s -> Inv (notify_one s).
Proof.
  intros I Hc. unfold notify_one. destruct (queue s) as [|w r].
  - destruct I as [K C P N2 W]. constructor; prj; auto.
  - unfold flag_at. destruct (nth_error (wpcs s) w) as [p|] eqn:Ew.
    + eapply (Inv_wpc_frame s _ w (flag_pc NOne p)); eauto; try reflexivity.
      pose proof (Forall_nth _ _ _ _ (iW _ I) Ew) as Hp.
      unfold wok in *. destruct p as [|seen|seen|seen|seen [n|]| | | |]; simpl; auto.
    + destruct I as [K C P N2 W]. constructor; prj; auto.
Qed.

Lemma Inv_wstep s w : Inv s -> Inv (wstep s w).
Proof.
  intros I. unfold wstep.
  destruct (nth_error (wpcs s) w) as [p|] eqn:Ew; [|exact I].
  pose proof (Forall_nth _ _ _ _ (iW _ I) Ew) as Hp.
  assert (POLL : forall seen locked, seen = 0 -> Inv (poll_init s w seen locked)).
  { intros seen locked ->. unfold poll_init.
    destruct (negb (calls s =? 0)) eqn:E1.
    - eapply (Inv_wpc_frame s _ w WDone); eauto; try reflexivity.
      simpl. apply calls_pos_stopped; auto. lia.
    - destruct (permit s) eqn:E2.
      + eapply (Inv_wpc_frame s _ w WDone); eauto; try reflexivity; try (prj; discriminate).
        simpl. apply calls_pos_stopped; auto. apply (iP _ I); auto.
      + destruct locked.
        * eapply (Inv_wpc_frame s _ w (WWait 0 None)); eauto; try reflexivity.
          simpl. split; auto. lia.
        * eapply (Inv_wpc_frame s _ w (W2L 0)); eauto; reflexivity. }
  destruct p as [|seen|seen|seen|seen [n|]| | | |]; simpl in Hp; try exact I.
  - eapply (Inv_wpc_frame s _ w (W1 (calls s))); eauto; try reflexivity. simpl. lia.
  - destruct (stat_eqb (status s) Stopped) eqn:Es.
    + eapply (Inv_wpc_frame s _ w WDone); eauto; try reflexivity.
      simpl. apply stat_eqb_eq; auto.
    + eapply (Inv_wpc_frame s _ w (W2 seen)); eauto; try reflexivity.
      simpl. assert (calls s = 0); [|lia].
      apply not_stopped_calls0; auto. intros X. apply stat_eqb_eq in X. congruence.
  - apply POLL; auto.
  - apply POLL; auto.
  - eapply (Inv_wpc_frame s _ w WDone); eauto; try reflexivity.
    simpl. apply calls_pos_stopped; auto.
  - destruct Hp as [-> Hc0]. rewrite Hc0. simpl. exact I.
  - destruct (thread0_done s) eqn:Ed; [|exact I].
    eapply (Inv_wpc_frame s _ w WJDone); eauto; reflexivity.
Qed.

Lemma Inv_tstep s w : Inv s -> Inv (tstep s w).
Proof.
  intros I. unfold tstep.
  destruct (nth_error (wpcs s) w) as [p|] eqn:Ew; [|exact I].
  pose proof (Forall_nth _ _ _ _ (iW _ I) Ew) as Hp.
  destruct p as [|seen|seen|seen|seen fl| | | |]; try exact I.
  assert (I1 : Inv (set_wpc (with_queue s (remove_nat w (queue s))) w WTimedOut)).
  { eapply (Inv_wpc_frame s _ w WTimedOut); eauto; try reflexivity; try exact Logic.I. }
  destruct fl as [[|]|]; auto.
  apply Inv_notify_one; auto.
Qed.

Lemma Inv_dstep s : Inv s -> Inv (dstep s).
Proof.
  intros I. unfold dstep. destruct (rank (status s) <? 5) eqn:E; [|exact I].
  destruct I as [K C P N2 W].
  assert (stat_eqb (status s) Stopped = false) as R1 by (unfold stat_eqb; simpl; lia).
  assert ((5 <=? rank (status s)) = false) as R2 by lia.
  constructor; prj; auto.
  - rewrite R1 in K. exact K.
  - rewrite R2 in C. exact C.
  - eapply Forall_imp; [|exact W]. intros p. apply wok_status; auto.
    intros X. rewrite X in E. simpl in E. discriminate.
Qed.

Lemma Inv_step s l : Inv s -> Inv (step s l).
Proof.
  intros I. destruct l as [i|w|w| |g]; simpl.
  - apply Inv_astep; auto.
  - apply Inv_wstep; auto.
  - apply Inv_tstep; auto.
  - apply Inv_dstep; auto.
  - destruct I as [K C P N2 W]. constructor; prj; auto.
Qed.

Lemma Inv_run ls s : Inv s -> Inv (run ls s).
Proof.
  revert s; induction ls as [|l r IH]; intros s I; simpl; auto.
  apply IH. apply Inv_step; auto.
Qed.

(* ------------------------------------------------------------------ Part 2 *)
(* the real code has one actor-side thread (the actor's task).  For ANY program P of that
   thread: the history of completed instructions is a prefix of P, the status is the
   maximum of the initial status and the completed/in-progress ISet targets, the ghost
   counters count the completed instructions, and a completed ISet (>= Stopping) has run
   the cleanup block. *)
Fixpoint sets_of (h : list instr) : list stat :=
  match h with
  | [] => []
  | ISet x :: r => x :: sets_of r
  | _ :: r => sets_of r
  end.

Definition inprog (t : athread) : list stat :=
  match a_sub t, a_prog t with
  | SIdle, _ => []
  | _, ISet x :: _ => [x]
  | _, _ => []
  end.

Definition done_sets (t : athread) : list stat := sets_of (a_hist t) ++ inprog t.

Definition cleaned (g : ghost) : Prop :=
  name_reg g = false /\ pid_reg g = false /\ pg_reg g = false.

Definition gh_counts (h : list instr) : ghost := fold_left (fun g i => gh_instr i g) h gh0.

Definition counts_eq (g g' : ghost) : Prop :=
  ps_in g = ps_in g' /\ ps_out g = ps_out g' /\ n_term g = n_term g' /\
  n_sup g = n_sup g' /\ n_unlink g = n_unlink g'.

Record InvS (P : list instr) (s : st) (t : athread) : Prop := mkInvS {
  sA : athreads s = [t];
  sH : a_hist t ++ a_prog t = P;
  sStruct : a_sub t <> SIdle -> exists x r, a_prog t = ISet x :: r;
  sM1 : rank (status s) <= 4 \/ exists x, In x (done_sets t) /\ rank x = rank (status s);
  sM2 : forall x, In x (done_sets t) -> rank x <= rank (status s);
  sG : counts_eq (gh s) (gh_counts (a_hist t));
  sA4 : (exists x, In x (sets_of (a_hist t)) /\ 5 <= rank x) -> cleaned (gh s);
  sC : match a_sub t with
       | SClean2 _ => pid_reg (gh s) = false
       | SClean3 _ => pid_reg (gh s) = false /\ name_reg (gh s) = false
       | SNotify1 | SNotify2 => cleaned (gh s)
       | _ => True
       end
}.

Lemma sets_of_app a b : sets_of (a ++ b) = sets_of a ++ sets_of b.
Proof. induction a as [|[x|g| | | | | |] r IH]; simpl; auto. rewrite IH; reflexivity. Qed.

Lemma gh_counts_snoc h i : gh_counts (h ++ [i]) = gh_instr i (gh_counts h).
Proof. unfold gh_counts. rewrite fold_left_app. reflexivity. Qed.

Lemma counts_eq_instr i g g' : counts_eq g g' -> counts_eq (gh_instr i g) (gh_instr i g').
Proof.
  unfold counts_eq. intros (A & B & C & D & E).
  destruct i; simpl; repeat split; congruence.
Qed.

Lemma cleaned_instr i g : cleaned g -> cleaned (gh_instr i g).
Proof. unfold cleaned. destruct i; simpl; auto. Qed.

Lemma notify_one_frame s :
  status (notify_one s) = status s /\ gh (notify_one s) = gh s /\
  athreads (notify_one s) = athreads s /\ calls (notify_one s) = calls s /\ gates (notify_one s) = gates s.
Proof. unfold notify_one. destruct (queue s); repeat split; reflexivity. Qed.

Lemma wstep_frame s w :
  status (wstep s w) = status s /\ gh (wstep s w) = gh s /\ athreads (wstep s w) = athreads s
  /\ calls (wstep s w) = calls s /\ gates (wstep s w) = gates s.
Proof.
  unfold wstep. destruct (nth_error (wpcs s) w) as [p|]; [|repeat split; reflexivity].
  assert (PI : forall seen l, status (poll_init s w seen l) = status s /\ gh (poll_init s w seen l) = gh s
             /\ athreads (poll_init s w seen l) = athreads s /\ calls (poll_init s w seen l) = calls s
             /\ gates (poll_init s w seen l) = gates s).
  { intros seen l. unfold poll_init.
    destruct (negb (calls s =? seen)); [repeat split; reflexivity|].
    destruct (permit s); [repeat split; reflexivity|].
    destruct l; repeat split; reflexivity. }
  destruct p as [|seen|seen|seen|seen [n|]| | | |]; try (repeat split; reflexivity); auto.
  - destruct (stat_eqb (status s) Stopped); repeat split; reflexivity.
  - destruct (negb (calls s =? seen)); repeat split; reflexivity.
  - destruct (thread0_done s); repeat split; reflexivity.
Qed.

Lemma tstep_frame s w :
  status (tstep s w) = status s /\ gh (tstep s w) = gh s /\ athreads (tstep s w) = athreads s
  /\ calls (tstep s w) = calls s /\ gates (tstep s w) = gates s.
Proof.
  unfold tstep. destruct (nth_error (wpcs s) w) as [p|]; [|repeat split; reflexivity].
  destruct p as [|seen|seen|seen|seen fl| | | |]; try (repeat split; reflexivity).
  destruct fl as [[|]|]; try (repeat split; reflexivity).
  pose proof (notify_one_frame (set_wpc (with_queue s (remove_nat w (queue s))) w WTimedOut)) as (A & B & C & D & E).
  rewrite A, B, C, D, E. repeat split; reflexivity.
Qed.

Lemma InvS_frame P s s' t :
  InvS P s t -> status s' = status s -> gh s' = gh s -> athreads s' = athreads s -> InvS P s' t.
Proof.
  intros [A H S M1 M2 G A4 C] Es Eg Et.
  constructor; rewrite ?Es, ?Eg, ?Et; auto.
Qed.

Lemma inprog_idle t : a_sub t = SIdle -> inprog t = [].
Proof. unfold inprog; intros ->; reflexivity. Qed.

Lemma inprog_busy t x r : a_sub t <> SIdle -> a_prog t = ISet x :: r -> inprog t = [x].
Proof. unfold inprog; intros H ->. destruct (a_sub t); congruence. Qed.

(* the high (>= Stopping) status is witnessed by a completed ISet when the thread is idle *)
Lemma high_status_cleaned P s t :
  InvS P s t -> a_sub t = SIdle -> 5 <= rank (status s) -> cleaned (gh s).
Proof.
  intros I Esub H5. destruct (sM1 _ _ _ I) as [H4|(y & Hy & Ey)]; [lia|].
  apply (sA4 _ _ _ I). exists y. split; [|lia].
  unfold done_sets in Hy. rewrite inprog_idle in Hy by auto. rewrite app_nil_r in Hy. exact Hy.
Qed.

Lemma InvS_astep0 P s t : InvS P s t -> exists t', InvS P (astep s 0) t'.
Proof.
  intros I. pose proof I as [A H S M1 M2 G A4 C].
  unfold astep. rewrite A. cbn [nth_error].
  destruct (a_sub t) eqn:Esub.
  - (* SIdle *)
    destruct (a_prog t) as [|ins rest] eqn:Eprog; [exists t; exact I|].
    assert (DS : done_sets t = sets_of (a_hist t)).
    { unfold done_sets. rewrite inprog_idle by auto. apply app_nil_r. }
    assert (POP : forall s', athreads s' = [pop t] -> status s' = status s ->
              gh s' = gh_instr ins (gh s) -> sets_of [ins] = [] -> InvS P s' (pop t)).
    { intros s' Et Es Eg Hins.
      assert (DS' : done_sets (pop t) = done_sets t).
      { unfold done_sets. prj. rewrite Eprog. simpl firstn. rewrite sets_of_app, Hins.
        rewrite inprog_idle by reflexivity. rewrite inprog_idle by auto. rewrite ?app_nil_r. reflexivity. }
      constructor; prj; rewrite ?Es, ?Eg, ?DS'; auto.
      - rewrite Eprog. simpl. rewrite <- app_assoc. simpl. first [exact H | rewrite <- Eprog; exact H].
      - congruence.
      - rewrite Eprog. simpl firstn. rewrite gh_counts_snoc. apply counts_eq_instr; auto.
      - rewrite Eprog. simpl firstn. rewrite sets_of_app, Hins, app_nil_r.
        intros X. apply cleaned_instr; auto. }
    destruct ins as [x|g| | | | | |];
      try (eexists; apply POP; prj; rewrite ?A; reflexivity).
    + (* ISet x *)
      pose proof (rank_smax (status s) x) as Hmax.
      assert (M1' : forall t', done_sets t' = done_sets t ++ [x] ->
                rank (smax (status s) x) <= 4 \/
                exists y, In y (done_sets t') /\ rank y = rank (smax (status s) x)).
      { intros t' ->. destruct (rank (status s) <? rank x) eqn:Elt.
        - right. exists x. split; [apply in_or_app; right; left; reflexivity|lia].
        - destruct M1 as [M1|(y & Hy & Ey)]; [left; lia|].
          right. exists y. split; [apply in_or_app; left; auto|lia]. }
      assert (M2' : forall t', done_sets t' = done_sets t ++ [x] ->
                forall y, In y (done_sets t') -> rank y <= rank (smax (status s) x)).
      { intros t' -> y Hy. apply in_app_or in Hy as [Hy|[<-|[]]].
        - specialize (M2 _ Hy). lia.
        - lia. }
      destruct ((5 <=? rank x) && (rank (status s) <? 5)) eqn:Eec;
        [|destruct ((rank x =? 6) && (rank (status s) <? 6)) eqn:Een].
      * exists (at_sub t (SClean1 ((rank x =? 6) && (rank (status s) <? 6)))). constructor; prj; rewrite ?A, ?Eprog.
        -- reflexivity.
        -- exact H.
        -- intros _. eauto.
        -- apply M1'. rewrite DS. unfold done_sets; prj. rewrite (inprog_busy _ x rest); [reflexivity|prj; discriminate|prj; auto].
        -- apply M2'. rewrite DS. unfold done_sets; prj. rewrite (inprog_busy _ x rest); [reflexivity|prj; discriminate|prj; auto].
        -- exact G.
        -- exact A4.
        -- exact Logic.I.
      * assert (CL : cleaned (gh s)).
        { eapply high_status_cleaned; eauto. pose proof (rank_le6 x). lia. }
        exists (at_sub t SNotify1). constructor; prj; rewrite ?A, ?Eprog.
        -- reflexivity.
        -- exact H.
        -- intros _. eauto.
        -- apply M1'. rewrite DS. unfold done_sets; prj. rewrite (inprog_busy _ x rest); [reflexivity|prj; discriminate|prj; auto].
        -- apply M2'. rewrite DS. unfold done_sets; prj. rewrite (inprog_busy _ x rest); [reflexivity|prj; discriminate|prj; auto].
        -- exact G.
        -- exact A4.
        -- exact CL.
      * assert (DS' : done_sets (pop t) = done_sets t ++ [x]).
        { unfold done_sets; prj. rewrite Eprog. simpl firstn. rewrite sets_of_app.
          rewrite inprog_idle by reflexivity. rewrite inprog_idle by auto. simpl. rewrite !app_nil_r. reflexivity. }
        exists (pop t). constructor; prj; rewrite ?A.
        -- reflexivity.
        -- rewrite Eprog. simpl. rewrite <- app_assoc. simpl. first [exact H | rewrite <- Eprog; exact H].
        -- congruence.
        -- apply M1'; auto.
        -- apply M2'; auto.
        -- rewrite Eprog. simpl firstn. rewrite gh_counts_snoc. simpl. exact G.
        -- rewrite Eprog. simpl firstn. rewrite sets_of_app. simpl.
           intros (y & Hy & Ry). apply in_app_or in Hy as [Hy|[<-|[]]].
           ++ apply A4; eauto.
           ++ eapply high_status_cleaned; eauto. lia.
        -- exact Logic.I.
    + (* IGate *)
      destruct (mem_gate g (gates s)); [|exists t; exact I].
      eexists; apply POP; prj; rewrite ?A; reflexivity.
  - (* SClean1 *)
    destruct (S ltac:(congruence)) as (x & r & Eprog).
    exists (at_sub t (SClean2 nf)). constructor; prj; rewrite ?A; try reflexivity; auto.
    + intros _; eauto.
    + unfold done_sets in *; prj. rewrite (inprog_busy (at_sub t _) x r) by (prj; congruence). rewrite (inprog_busy t x r) in M1 by congruence. exact M1.
    + unfold done_sets in *; prj. rewrite (inprog_busy (at_sub t _) x r) by (prj; congruence). rewrite (inprog_busy t x r) in M2 by congruence. exact M2.
    + intros X. destruct (A4 X) as (? & ? & ?). repeat split; auto.
  - (* SClean2 *)
    destruct (S ltac:(congruence)) as (x & r & Eprog).
    exists (at_sub t (SClean3 nf)). constructor; prj; rewrite ?A; try reflexivity; auto.
    + intros _; eauto.
    + unfold done_sets in *; prj. rewrite (inprog_busy (at_sub t _) x r) by (prj; congruence). rewrite (inprog_busy t x r) in M1 by congruence. exact M1.
    + unfold done_sets in *; prj. rewrite (inprog_busy (at_sub t _) x r) by (prj; congruence). rewrite (inprog_busy t x r) in M2 by congruence. exact M2.
    + intros X. destruct (A4 X) as (? & ? & ?). repeat split; auto.
  - (* SClean3 *)
    destruct (S ltac:(congruence)) as (x & r & Eprog).
    destruct C as [Cp Cn].
    destruct nf.
    + exists (at_sub t SNotify1). constructor; prj; rewrite ?A; try reflexivity; auto.
      * intros _; eauto.
      * unfold done_sets in *; prj. rewrite (inprog_busy (at_sub t _) x r) by (prj; congruence). rewrite (inprog_busy t x r) in M1 by congruence. exact M1.
      * unfold done_sets in *; prj. rewrite (inprog_busy (at_sub t _) x r) by (prj; congruence). rewrite (inprog_busy t x r) in M2 by congruence. exact M2.
      * intros _. repeat split; auto.
      * repeat split; auto.
    + assert (DS' : done_sets (pop t) = done_sets t).
      { unfold done_sets; prj. rewrite Eprog. simpl firstn. rewrite sets_of_app.
        rewrite inprog_idle by reflexivity. rewrite (inprog_busy _ x r) by congruence. simpl.
        rewrite app_nil_r. reflexivity. }
      exists (pop t). constructor; prj; rewrite ?A, ?DS'; try reflexivity; auto.
      * rewrite Eprog. simpl. rewrite <- app_assoc. simpl. first [exact H | rewrite <- Eprog; exact H].
      * congruence.
      * rewrite Eprog. simpl firstn. rewrite gh_counts_snoc. simpl. exact G.
      * intros _. repeat split; auto.
  - (* SNotify1 *)
    destruct (S ltac:(congruence)) as (x & r & Eprog).
    exists (at_sub t SNotify2). constructor; prj; rewrite ?A; try reflexivity; auto.
    + intros _; eauto.
    + unfold done_sets in *; prj. rewrite (inprog_busy (at_sub t _) x r) by (prj; congruence). rewrite (inprog_busy t x r) in M1 by congruence. exact M1.
    + unfold done_sets in *; prj. rewrite (inprog_busy (at_sub t _) x r) by (prj; congruence). rewrite (inprog_busy t x r) in M2 by congruence. exact M2.
  - (* SNotify2 *)
    destruct (S ltac:(congruence)) as (x & r & Eprog).
    pose proof (notify_one_frame s) as (F1 & F2 & F3 & F4 & F5).
    assert (DS' : done_sets (pop t) = done_sets t).
    { unfold done_sets; prj. rewrite Eprog. simpl firstn. rewrite sets_of_app.
      rewrite inprog_idle by reflexivity. rewrite (inprog_busy _ x r) by congruence. simpl.
      rewrite app_nil_r. reflexivity. }
    exists (pop t). constructor; prj; rewrite ?F1, ?F2, ?F3, ?A, ?DS'; try reflexivity; auto.
    + rewrite Eprog. simpl. rewrite <- app_assoc. simpl. first [exact H | rewrite <- Eprog; exact H].
    + congruence.
    + rewrite Eprog. simpl firstn. rewrite gh_counts_snoc. simpl. exact G.
Qed.

Lemma InvS_dstep P s t : InvS P s t -> InvS P (dstep s) t.
Proof.
  intros I. unfold dstep. destruct (rank (status s) <? 5) eqn:E; [|exact I].
  destruct I as [A H S M1 M2 G A4 C].
  constructor; prj; auto.
  - left. simpl. lia.
  - intros x Hx. specialize (M2 _ Hx). simpl. lia.
Qed.

Lemma InvS_step P s l : (exists t, InvS P s t) -> exists t, InvS P (step s l) t.
Proof.
  intros (t & I). destruct l as [i|w|w| |g]; simpl.
  - destruct i as [|i].
    + eapply InvS_astep0; eauto.
    + exists t. unfold astep. rewrite (sA _ _ _ I). simpl. destruct i; exact I.
  - exists t. pose proof (wstep_frame s w) as (F1 & F2 & F3 & _). eapply InvS_frame; eauto.
  - exists t. pose proof (tstep_frame s w) as (F1 & F2 & F3 & _). eapply InvS_frame; eauto.
  - exists t. apply InvS_dstep; auto.
  - exists t. eapply InvS_frame; eauto.
Qed.

Lemma InvS_run P ls s : (exists t, InvS P s t) -> exists t, InvS P (run ls s) t.
Proof.
  revert s; induction ls as [|l r IH]; intros s I; simpl; auto.
  apply IH. apply InvS_step; auto.
Qed.

Lemma InvS_init P s0 ws ks r : rank s0 < 5 -> exists t, InvS P (mk_init_k s0 ws [P] ks r) t.
Proof.
  intros H. exists (init_thread P). constructor; unfold mk_init_k, gh0k, init_thread; prj; simpl; auto.
  - congruence.
  - left. lia.
  - intros x [].
  - repeat split.
  - intros (x & [] & _).
Qed.

Lemma sets_of_In x h : In x (sets_of h) <-> In (ISet x) h.
Proof.
  induction h as [|i r IH]; simpl; [tauto|].
  destruct i; simpl; rewrite IH; split; intros H; try tauto;
    try (destruct H as [H|H]; [discriminate|auto]).
  - destruct H as [->|H]; auto.
  - destruct H as [H|H]; auto. injection H as ->. auto.
Qed.

Lemma split_last_unique (h p pre : list instr) x :
  h ++ p = pre ++ [x] -> ~ In x pre -> (In x h \/ exists r, p = x :: r) ->
  (h = pre /\ p = [x]) \/ (h = pre ++ [x] /\ p = []).
Proof.
  revert h; induction pre as [|a pre IH]; intros h E N D.
  - destruct h as [|b h']; simpl in *.
    + left; auto.
    + injection E as -> E. apply app_eq_nil in E as [-> ->]. right; auto.
  - destruct h as [|b h']; simpl in *.
    + exfalso. destruct D as [[]|(r & ->)]. injection E as <- _. apply N; auto.
    + injection E as -> E.
      destruct (IH h' E) as [[-> ->]|[-> ->]].
      * intros X; apply N; auto.
      * destruct D as [[D|D]|D]; auto. exfalso; apply N; auto.
      * left; auto.
      * right; auto.
Qed.

Lemma inprog_In t y : In y (inprog t) -> a_sub t <> SIdle /\ exists r, a_prog t = ISet y :: r.
Proof.
  unfold inprog. intros H.
  destruct (a_sub t) eqn:E; [destruct H|..];
    (destruct (a_prog t) as [|[z|g| | | | | |] r]; simpl in H; try destruct H as [H|[]]; try destruct H; subst;
     split; [discriminate|eauto]).
Qed.

(* status = Stopped only once everything before the final ISet Stopped has completed *)
Lemma stopped_prefix P pre s t :
  InvS P s t -> P = pre ++ [ISet Stopped] -> ~ In (ISet Stopped) pre -> status s = Stopped ->
  (a_hist t = pre /\ a_prog t = [ISet Stopped]) \/ (a_hist t = pre ++ [ISet Stopped] /\ a_prog t = []).
Proof.
  intros I EP N Es.
  destruct (sM1 _ _ _ I) as [M|(y & Hy & Ey)]; [rewrite Es in M; simpl in M; lia|].
  rewrite Es in Ey. apply rank_inj in Ey. subst y.
  pose proof (sH _ _ _ I) as H. rewrite EP in H.
  apply split_last_unique in H; auto.
  unfold done_sets in Hy. apply in_app_or in Hy as [Hy|Hy].
  - left. apply sets_of_In; auto.
  - right. apply inprog_In in Hy as (_ & r & ->). eauto.
Qed.

Definition exit_pre (c : cause) (sup : bool) : list instr := removelast (exit_prog c sup).

Lemma exit_prog_split c sup : exit_prog c sup = exit_pre c sup ++ [ISet Stopped].
Proof. destruct c, sup; reflexivity. Qed.

Lemma exit_pre_no_stopped c sup : ~ In (ISet Stopped) (exit_pre c sup).
Proof. destruct c, sup; simpl; intuition discriminate. Qed.

Lemma exit_pre_stopping c sup : In Stopping (sets_of (exit_pre c sup)).
Proof. destruct c, sup; simpl; auto. Qed.

(* children: once terminate() has run, every child linked at exit time has been sent the kill
   signal or was already Stopping/Stopped — any number of threads, any programs *)
Definition kids_inv (g : ghost) : Prop := 0 < n_term g -> forallb kid_ok (kids g) = true.

Lemma signal_kid_ok k : kid_ok (signal_kid k) = true.
Proof. destruct k as [x b]. unfold kid_ok, signal_kid; simpl. destruct b; simpl; auto. lia. Qed.

Lemma kids_inv_instr i g : kids_inv g -> kids_inv (gh_instr i g).
Proof.
  unfold kids_inv. destruct i; simpl; auto.
  intros _ _. apply forallb_forall. intros k Hk. apply in_map_iff in Hk as (k0 & <- & _).
  apply signal_kid_ok.
Qed.

Lemma kids_inv_step s l : kids_inv (gh s) -> kids_inv (gh (step s l)).
Proof.
  intros K. destruct l as [i|w|w| |g]; simpl.
  - unfold astep. destruct (nth_error (athreads s) i) as [t|]; auto.
    destruct (a_sub t); prj; auto.
    + destruct (a_prog t) as [|[x|g| | | | | |] r]; prj; auto;
        try (apply (kids_inv_instr _ _ K)).
      * destruct ((5 <=? rank x) && (rank (status s) <? 5));
          [|destruct ((rank x =? 6) && (rank (status s) <? 6))]; prj; auto.
      * destruct (mem_gate g (gates s)); prj; auto.
    + destruct (notify_one_frame s) as (_ & -> & _). auto.
  - destruct (wstep_frame s w) as (_ & -> & _). auto.
  - destruct (tstep_frame s w) as (_ & -> & _). auto.
  - unfold dstep. destruct (rank (status s) <? 5); auto.
  - auto.
Qed.

Lemma kids_inv_run ls s : kids_inv (gh s) -> kids_inv (gh (run ls s)).
Proof. revert s; induction ls as [|l r IH]; intros s K; simpl; auto. apply IH, kids_inv_step; auto. Qed.

Lemma kids_inv_init s0 ws progs ks r : kids_inv (gh (mk_init_k s0 ws progs ks r)).
Proof. unfold kids_inv, mk_init_k, gh0k; prj. lia. Qed.

Lemma fully_stopped_at c sup s t :
  InvS (exit_prog c sup) s t -> kids_inv (gh s) -> status s = Stopped ->
  fully_stopped (want_ps_of c) (want_sup_of c sup) (snapshot s) = true.
Proof.
  intros I KI Es.
  destruct (stopped_prefix _ (exit_pre c sup) _ _ I (exit_prog_split c sup)
              (exit_pre_no_stopped c sup) Es) as [[Eh _]|[Eh _]].
  - assert (CL : cleaned (gh s)).
    { apply (sA4 _ _ _ I). exists Stopping. split; [|simpl; lia].
      rewrite Eh. apply exit_pre_stopping. }
    destruct CL as (C1 & C2 & C3).
    pose proof (sG _ _ _ I) as (G1 & G2 & G3 & G4 & G5). rewrite Eh in *.
    assert (KO : forallb kid_ok (kids (gh s)) = true).
    { apply KI. rewrite G3. destruct c, sup; vm_compute; reflexivity. }
    unfold fully_stopped, snapshot. cbn [sn_status sn_name sn_pid sn_pg sn_ps_active sn_ps_done sn_children sn_sup].
    rewrite Es, C1, C2, C3, G1, G2, G3, G4, KO.
    destruct c, sup; vm_compute; reflexivity.
  - assert (CL : cleaned (gh s)).
    { apply (sA4 _ _ _ I). exists Stopping. split; [|simpl; lia].
      rewrite Eh, sets_of_app. apply in_or_app; left. apply exit_pre_stopping. }
    destruct CL as (C1 & C2 & C3).
    pose proof (sG _ _ _ I) as (G1 & G2 & G3 & G4 & G5). rewrite Eh in *.
    assert (KO : forallb kid_ok (kids (gh s)) = true).
    { apply KI. rewrite G3. destruct c, sup; vm_compute; reflexivity. }
    unfold fully_stopped, snapshot. cbn [sn_status sn_name sn_pid sn_pg sn_ps_active sn_ps_done sn_children sn_sup].
    rewrite Es, C1, C2, C3, G1, G2, G3, G4, KO.
    destruct c, sup; vm_compute; reflexivity.
Qed.

(* the join handle: the task has finished => its whole program has completed *)
Lemma finished_stopped c sup s t :
  InvS (exit_prog c sup) s t -> thread0_done s = true -> status s = Stopped.
Proof.
  intros I D. unfold thread0_done in D. rewrite (sA _ _ _ I) in D.
  unfold a_done in D. destruct (a_prog t) eqn:Ep; [|discriminate].
  destruct (a_sub t) eqn:Esub; try discriminate.
  pose proof (sH _ _ _ I) as H. rewrite Ep, app_nil_r, exit_prog_split in H.
  assert (Hin : In Stopped (done_sets t)).
  { unfold done_sets. apply in_or_app; left. rewrite H, sets_of_app. apply in_or_app; right. simpl; auto. }
  pose proof (sM2 _ _ _ I _ Hin) as M. simpl in M.
  apply rank_inj. pose proof (rank_le6 (status s)). simpl. lia.
Qed.

(* ------------------------------------------------------------------ Part 3 *)
Definition init_ok (s0 : stat) (ws : list wpc) : Prop :=
  rank s0 < 5 /\ Forall (fun p => wpc_initial p = true) ws.

Lemma reach_inv_k s0 ws progs ks r ls : init_ok s0 ws -> Inv (run ls (mk_init_k s0 ws progs ks r)).
Proof. intros [H1 H2]. apply Inv_run. apply init_inv; auto. Qed.

Lemma reach_inv s0 ws progs ls : init_ok s0 ws -> Inv (run ls (mk_init s0 ws progs)).
Proof. apply reach_inv_k. Qed.

(* --- status monotone --- *)
Lemma step_status_mono s l : rank (status s) <= rank (status (step s l)).
Proof.
  destruct l as [i|w|w| |g]; simpl.
  - unfold astep. destruct (nth_error (athreads s) i) as [t|]; [|lia].
    destruct (a_sub t); prj; try lia.
    + destruct (a_prog t) as [|[x|g| | | | | |] r]; prj; try lia.
      * pose proof (rank_smax (status s) x).
        destruct ((5 <=? rank x) && (rank (status s) <? 5));
          [|destruct ((rank x =? 6) && (rank (status s) <? 6))]; prj; lia.
      * destruct (mem_gate g (gates s)); prj; lia.
    + destruct (notify_one_frame s) as (-> & _). lia.
  - destruct (wstep_frame s w) as (-> & _). lia.
  - destruct (tstep_frame s w) as (-> & _). lia.
  - unfold dstep. destruct (rank (status s) <? 5) eqn:E; prj; simpl; lia.
  - lia.
Qed.

Lemma run_status_mono ls s : rank (status s) <= rank (status (run ls s)).
Proof.
  revert s; induction ls as [|l r IH]; intros s; simpl; [lia|].
  pose proof (step_status_mono s l). specialize (IH (step s l)). lia.
Qed.

Lemma run_app l1 l2 s : run (l1 ++ l2) s = run l2 (run l1 s).
Proof. unfold run. apply fold_left_app. Qed.

(* --- no early return --- *)
Lemma done_stopped s0 ws progs ls w :
  init_ok s0 ws ->
  nth_error (wpcs (run ls (mk_init s0 ws progs))) w = Some WDone ->
  status (run ls (mk_init s0 ws progs)) = Stopped.
Proof.
  intros H E. pose proof (reach_inv s0 ws progs ls H) as I.
  exact (Forall_nth _ _ _ _ (iW _ I) E).
Qed.

Lemma early_return_full s0 ws c sup ks r ls w :
  init_ok s0 ws ->
  let s := run ls (scenario_init_k s0 ws c sup ks r) in
  (nth_error (wpcs s) w = Some WDone \/ nth_error (wpcs s) w = Some WJDone) ->
  fully_stopped (want_ps_of c) (want_sup_of c sup) (snapshot s) = true.
Proof.
  intros H s E. unfold scenario_init_k in *.
  pose proof (reach_inv_k s0 ws [exit_prog c sup] ks r ls H) as I.
  destruct (InvS_run (exit_prog c sup) ls _ (InvS_init _ s0 ws ks r (proj1 H))) as (t & IS).
  pose proof (kids_inv_run ls _ (kids_inv_init s0 ws [exit_prog c sup] ks r)) as KI.
  fold s in I, IS, KI.
  apply (fully_stopped_at c sup s t IS KI).
  destruct E as [E|E].
  - exact (Forall_nth _ _ _ _ (iW _ I) E).
  - eapply finished_stopped; eauto. exact (Forall_nth _ _ _ _ (iW _ I) E).
Qed.

(* --- no lost wake-up --- *)
Lemma threads_done_pn s : threads_done s = true -> sumf pn (athreads s) = 0.
Proof.
  unfold threads_done. intros H. apply sumf_zero. intros t Ht.
  rewrite forallb_forall in H. specialize (H _ Ht).
  unfold a_done in H. unfold pn. destruct (a_prog t), (a_sub t); try discriminate; reflexivity.
Qed.

Lemma threads_done_pcl s : threads_done s = true -> sumf pcl (athreads s) = 0.
Proof.
  unfold threads_done. intros H. apply sumf_zero. intros t Ht.
  rewrite forallb_forall in H. specialize (H _ Ht).
  unfold a_done in H. unfold pcl. destruct (a_prog t), (a_sub t); try discriminate; reflexivity.
Qed.

Lemma threads_done_t0 s : threads_done s = true -> thread0_done s = true.
Proof.
  unfold threads_done, thread0_done. destruct (athreads s); simpl; auto.
  intros H. apply andb_true_iff in H. tauto.
Qed.

Lemma no_lost_wakeup_inv s w p :
  Inv s -> threads_done s = true -> status s = Stopped ->
  nth_error (wpcs s) w = Some p -> can_move s p = false -> terminal p = true.
Proof.
  intros I D Es E M.
  pose proof (iK _ I) as K. rewrite (threads_done_pn _ D), Es in K.
  change (stat_eqb Stopped Stopped) with true in K. simpl in K.
  pose proof (Forall_nth _ _ _ _ (iW _ I) E) as Hp.
  destruct p as [|seen|seen|seen|seen [n|]| | | |]; simpl in *; try discriminate; auto.
  - destruct Hp as [_ Hc]. lia.
  - rewrite (threads_done_t0 _ D) in M. discriminate.
Qed.

(* can_move is exactly "the waiter's own step changes the state" *)
Lemma can_move_spec s w p :
  nth_error (wpcs s) w = Some p -> can_move s p = false -> wstep s w = s.
Proof.
  intros E M. unfold wstep. rewrite E.
  destruct p as [|seen|seen|seen|seen [n|]| | | |]; simpl in M; try discriminate; auto.
  - rewrite M. reflexivity.
  - rewrite M. reflexivity.
Qed.

Lemma can_move_progress s w p :
  nth_error (wpcs s) w = Some p -> can_move s p = true ->
  nth_error (wpcs (wstep s w)) w <> Some p.
Proof.
  intros E M. unfold wstep. rewrite E.
  assert (U : forall s' q, wpcs s' = upd (wpcs s) w q -> q <> p -> nth_error (wpcs s') w <> Some p).
  { intros s' q -> Hq. rewrite (nth_error_upd_eq _ _ _ _ E). congruence. }
  assert (PI : forall seen (l : bool), p = (if l then W2L seen else W2 seen) ->
             nth_error (wpcs (poll_init s w seen l)) w <> Some p).
  { intros seen l ->. unfold poll_init.
    destruct (negb (calls s =? seen)); [eapply U; [reflexivity|destruct l; discriminate]|].
    destruct (permit s); [eapply U; [reflexivity|destruct l; discriminate]|].
    destruct l; (eapply U; [reflexivity|discriminate]). }
  destruct p as [|seen|seen|seen|seen [n|]| | | |]; simpl in M; try discriminate.
  - eapply U; [reflexivity|discriminate].
  - destruct (stat_eqb (status s) Stopped); (eapply U; [reflexivity|discriminate]).
  - apply (PI seen false); reflexivity.
  - apply (PI seen true); reflexivity.
  - eapply U; [reflexivity|discriminate].
  - rewrite M. eapply U; [reflexivity|discriminate].
  - rewrite M. eapply U; [reflexivity|discriminate].
Qed.

(* a waiter is reported TimedOut only if its timeout label occurred *)
Lemma timedout_needs_label ls s w :
  nth_error (wpcs (run ls s)) w = Some WTimedOut ->
  nth_error (wpcs s) w = Some WTimedOut \/ In (LT w) ls.
Proof.
  revert s; induction ls as [|l r IH]; intros s H; simpl in *; auto.
  destruct (IH _ H) as [H1|H1]; [|auto].
  destruct l as [i|v|v| |g]; simpl in H1.
  - left. revert H1. unfold astep. destruct (nth_error (athreads s) i) as [t|]; auto.
    assert (FA : forall n, nth_error (map (flag_pc n) (wpcs s)) w = Some WTimedOut ->
                nth_error (wpcs s) w = Some WTimedOut).
    { intros n. rewrite nth_error_map. destruct (nth_error (wpcs s) w) as [[|?|?|?|? [?|]| | | |]|]; simpl; congruence. }
    destruct (a_sub t); prj; auto.
    + destruct (a_prog t) as [|[x|g| | | | | |] r']; prj; auto.
      * destruct ((5 <=? rank x) && (rank (status s) <? 5));
          [|destruct ((rank x =? 6) && (rank (status s) <? 6))]; prj; auto.
      * destruct (mem_gate g (gates s)); prj; auto.
    + apply (FA NAll).
    + unfold notify_one. destruct (queue s) as [|q qs]; prj; auto.
      unfold flag_at. destruct (nth_error (wpcs s) q) as [pq|] eqn:Eq; auto.
      destruct (Nat.eq_dec q w) as [->|Hn].
      * rewrite (nth_error_upd_eq _ _ _ _ Eq).
        destruct pq as [|?|?|?|? [?|]| | | |]; simpl; congruence.
      * rewrite nth_error_upd_neq; auto.
  - (* LW v *)
    left. revert H1. unfold wstep.
    destruct (nth_error (wpcs s) v) as [p|] eqn:Ev; auto.
    assert (U : forall s' q, wpcs s' = upd (wpcs s) v q -> q <> WTimedOut ->
             nth_error (wpcs s') w = Some WTimedOut -> nth_error (wpcs s) w = Some WTimedOut).
    { intros s' q -> Hq. destruct (Nat.eq_dec v w) as [->|Hn].
      - rewrite (nth_error_upd_eq _ _ _ _ Ev). congruence.
      - rewrite nth_error_upd_neq; auto. }
    assert (PI : forall seen l, nth_error (wpcs (poll_init s v seen l)) w = Some WTimedOut ->
               nth_error (wpcs s) w = Some WTimedOut).
    { intros seen l. unfold poll_init.
      destruct (negb (calls s =? seen)); [eapply U; [reflexivity|discriminate]|].
      destruct (permit s); [eapply U; [reflexivity|discriminate]|].
      destruct l; (eapply U; [reflexivity|discriminate]). }
    destruct p as [|seen|seen|seen|seen [n|]| | | |]; auto.
    + eapply U; [reflexivity|discriminate].
    + destruct (stat_eqb (status s) Stopped); (eapply U; [reflexivity|discriminate]).
    + apply PI.
    + apply PI.
    + eapply U; [reflexivity|discriminate].
    + destruct (negb (calls s =? seen)); auto. eapply U; [reflexivity|discriminate].
    + destruct (thread0_done s); auto. eapply U; [reflexivity|discriminate].
  - (* LT v *)
    destruct (Nat.eq_dec v w) as [->|Hn]; [right; auto|].
    left. revert H1. unfold tstep.
    destruct (nth_error (wpcs s) v) as [p|] eqn:Ev; auto.
    destruct p as [|seen|seen|seen|seen fl| | | |]; auto.
    assert (B : nth_error (wpcs (set_wpc (with_queue s (remove_nat v (queue s))) v WTimedOut)) w
                = nth_error (wpcs s) w).
    { prj. apply nth_error_upd_neq; auto. }
    destruct fl as [[|]|]; try (rewrite B; auto).
    unfold notify_one. prj.
    destruct (remove_nat v (queue s)) as [|q qs]; prj; [rewrite nth_error_upd_neq; auto|].
    unfold flag_at.
    destruct (nth_error (upd (wpcs s) v WTimedOut) q) as [pq|] eqn:Eq; [|rewrite nth_error_upd_neq; auto].
    destruct (Nat.eq_dec q w) as [->|Hq].
    + rewrite (nth_error_upd_eq _ _ _ _ Eq). rewrite nth_error_upd_neq in Eq by auto.
      destruct pq as [|?|?|?|? [?|]| | | |]; simpl; congruence.
    + rewrite nth_error_upd_neq by auto. rewrite nth_error_upd_neq; auto.
  - left. revert H1. unfold dstep. destruct (rank (status s) <? 5); auto.
  - left. exact H1.
Qed.

(* --- cleanup runs once --- *)
Lemma cleanup_at_most_once s : Inv s -> cleanups (gh s) <= 1.
Proof.
  intros I. pose proof (iC _ I) as C. destruct (5 <=? rank (status s)); unfold b2n in C; lia.
Qed.

Lemma cleanup_exactly_once s :
  Inv s -> threads_done s = true -> 5 <= rank (status s) -> cleanups (gh s) = 1.
Proof.
  intros I D H. pose proof (iC _ I) as C. rewrite (threads_done_pcl _ D) in C.
  assert ((5 <=? rank (status s)) = true) as R by lia. rewrite R in C. simpl in C. lia.
Qed.

Lemma cleanup_not_before s : Inv s -> rank (status s) < 5 -> cleanups (gh s) = 0.
Proof.
  intros I H. pose proof (iC _ I) as C.
  assert ((5 <=? rank (status s)) = false) as R by lia. rewrite R in C. simpl in C. lia.
Qed.

(* exactly one notify_waiters call, after the Stopped store *)
Lemma one_broadcast s : Inv s -> calls s <= 1 /\ (1 <= calls s -> status s = Stopped).
Proof.
  intros I. split; [|apply calls_pos_stopped; auto].
  pose proof (iK _ I) as K. destruct (stat_eqb (status s) Stopped); unfold b2n in K; lia.
Qed.

(* --- a timeout has no effect on the actor --- *)
Lemma timeout_inert s w :
  status (tstep s w) = status s /\ athreads (tstep s w) = athreads s /\ gh (tstep s w) = gh s
  /\ calls (tstep s w) = calls s /\ gates (tstep s w) = gates s.
Proof. pose proof (tstep_frame s w) as (A & B & C & D & E). auto. Qed.

Lemma timeout_reports s w seen fl :
  nth_error (wpcs s) w = Some (WWait seen fl) -> nth_error (wpcs (tstep s w)) w = Some WTimedOut.
Proof.
  intros E. unfold tstep. rewrite E.
  assert (B : nth_error (wpcs (set_wpc (with_queue s (remove_nat w (queue s))) w WTimedOut)) w = Some WTimedOut).
  { prj. eapply nth_error_upd_eq; eauto. }
  destruct fl as [[|]|]; auto.
  unfold notify_one. prj.
  destruct (remove_nat w (queue s)) as [|q qs] eqn:Eq; prj; [eapply nth_error_upd_eq; eauto|].
  unfold flag_at.
  destruct (nth_error (upd (wpcs s) w WTimedOut) q) as [pq|] eqn:Eq'; [|eapply nth_error_upd_eq; eauto].
  destruct (Nat.eq_dec q w) as [->|Hq].
  - rewrite (nth_error_upd_eq _ _ _ _ Eq'). rewrite (nth_error_upd_eq _ _ _ _ E) in Eq'.
    injection Eq' as <-. reflexivity.
  - rewrite nth_error_upd_neq by auto. eapply nth_error_upd_eq; eauto.
Qed.

(* ------------------------------------------------------------------ the oracle accepts every model run *)
Lemma obs_of_shape s s' l :
  obs_of s s' l = [] \/ exists w out, obs_of s s' l = [mkObs w out (snapshot s')] /\
     ((out = ORet /\ nth_error (wpcs s') w = Some WDone) \/
      (out = OJoin /\ nth_error (wpcs s') w = Some WJDone) \/ out = OTimeout).
Proof.
  unfold obs_of. destruct l as [i|w|w| |g]; auto.
  all: destruct (nth_error (wpcs s) w) as [p|]; auto.
  all: destruct (nth_error (wpcs s') w) as [p'|] eqn:E'; auto.
  all: destruct (terminal p); auto.
  all: destruct p'; auto; right; do 2 eexists; (split; [reflexivity|auto]).
Qed.

Lemma run_obs_snd ls s : snd (run_obs ls s) = run ls s.
Proof.
  revert s; induction ls as [|l r IH]; intros s; simpl; auto.
  specialize (IH (step s l)). destruct (run_obs r (step s l)); simpl in *; auto.
Qed.

Lemma run_obs_ok c sup cpl ls s :
  Inv s -> (exists t, InvS (exit_prog c sup) s t) -> kids_inv (gh s) ->
  forallb (obs_ok (want_ps_of c) (want_sup_of c sup) cpl) (fst (run_obs ls s)) = true.
Proof.
  revert s; induction ls as [|l r IH]; intros s I IS KI; simpl; auto.
  pose proof (Inv_step s l I) as I'. pose proof (InvS_step _ s l IS) as IS'.
  pose proof (kids_inv_step s l KI) as KI'.
  specialize (IH _ I' IS' KI'). destruct (run_obs r (step s l)) as [o s'']; simpl in *.
  rewrite forallb_app, IH, andb_true_r.
  destruct (obs_of_shape s (step s l) l) as [->|(w & out & -> & Hout)]; auto.
  simpl. rewrite andb_true_r. unfold obs_ok; simpl.
  destruct IS' as (t & IS').
  destruct Hout as [[-> E]|[[-> E]| ->]]; auto.
  - apply (fully_stopped_at c sup _ t IS' KI'). exact (Forall_nth _ _ _ _ (iW _ I') E).
  - apply (fully_stopped_at c sup _ t IS' KI'). eapply finished_stopped; eauto.
    exact (Forall_nth _ _ _ _ (iW _ I') E).
Qed.

Lemma nondec_pending k j l x :
  k <= rank (sn_status x) -> nondecreasing k (pending_from j l x) = true.
Proof.
  revert k j; induction l as [|p t IH]; intros k j H; simpl; auto.
  destruct (terminal p); simpl; auto.
  rewrite IH by lia. assert ((k <=? rank (sn_status x)) = true) as -> by lia. reflexivity.
Qed.

Lemma nondec_run ls s k j :
  k <= rank (status s) ->
  nondecreasing k (fst (run_obs ls s) ++ pending_from j (wpcs (run ls s)) (snapshot (run ls s))) = true.
Proof.
  revert s k; induction ls as [|l r IH]; intros s k H; simpl.
  - apply nondec_pending. simpl. exact H.
  - pose proof (step_status_mono s l) as M.
    destruct (run_obs r (step s l)) as [o s''] eqn:Er; simpl.
    assert (Eo : o = fst (run_obs r (step s l))) by (rewrite Er; reflexivity).
    destruct (obs_of_shape s (step s l) l) as [->|(w & out & -> & _)]; simpl.
    + rewrite Eo. apply IH. lia.
    + assert ((k <=? rank (status (step s l))) = true) as -> by lia. simpl.
      rewrite Eo. apply IH. lia.
Qed.

Lemma pending_none j l x : (forall p, In p l -> terminal p = true) -> pending_from j l x = [].
Proof.
  revert j; induction l as [|p t IH]; intros j H; simpl; auto.
  rewrite (H p) by (left; auto). simpl. apply IH. intros q Hq. apply H. right; auto.
Qed.

Lemma pending_ok wp wsup j l x :
  forallb (obs_ok wp wsup false) (pending_from j l x) = true.
Proof.
  revert j; induction l as [|p t IH]; intros j; simpl; auto.
  destruct (terminal p); simpl; auto.
Qed.

Lemma oracle_sound s0 ws c sup ks r ls :
  init_ok s0 ws ->
  check_C06 (want_ps_of c) (want_sup_of c sup) false (observe ls (scenario_init_k s0 ws c sup ks r)) = true.
Proof.
  intros H. unfold check_C06, observe, scenario_init_k.
  pose proof (run_obs_snd ls (mk_init_k s0 ws [exit_prog c sup] ks r)) as Es.
  pose proof (run_obs_ok c sup false ls (mk_init_k s0 ws [exit_prog c sup] ks r)
               (init_inv _ _ _ ks r (proj1 H) (proj2 H)) (InvS_init _ s0 ws ks r (proj1 H)) (kids_inv_init _ _ _ ks r)) as Ok.
  pose proof (nondec_run ls (mk_init_k s0 ws [exit_prog c sup] ks r) 0 0 ltac:(lia)) as Nd.
  destruct (run_obs ls (mk_init_k s0 ws [exit_prog c sup] ks r)) as [o s']; simpl in *. subst s'.
  rewrite forallb_app, Ok, pending_ok, Nd. reflexivity.
Qed.

Lemma oracle_sound_complete s0 ws c sup ks r ls :
  init_ok s0 ws ->
  let s := run ls (scenario_init_k s0 ws c sup ks r) in
  threads_done s = true -> status s = Stopped ->
  (forall w p, nth_error (wpcs s) w = Some p -> can_move s p = false) ->
  check_C06 (want_ps_of c) (want_sup_of c sup) true (observe ls (scenario_init_k s0 ws c sup ks r)) = true.
Proof.
  intros H s D St Q. unfold check_C06, observe, scenario_init_k in *.
  pose proof (run_obs_snd ls (mk_init_k s0 ws [exit_prog c sup] ks r)) as Es.
  pose proof (run_obs_ok c sup true ls (mk_init_k s0 ws [exit_prog c sup] ks r)
               (init_inv _ _ _ ks r (proj1 H) (proj2 H)) (InvS_init _ s0 ws ks r (proj1 H)) (kids_inv_init _ _ _ ks r)) as Ok.
  pose proof (nondec_run ls (mk_init_k s0 ws [exit_prog c sup] ks r) 0 0 ltac:(lia)) as Nd.
  pose proof (reach_inv_k s0 ws [exit_prog c sup] ks r ls H) as I.
  destruct (run_obs ls (mk_init_k s0 ws [exit_prog c sup] ks r)) as [o s']; simpl in *. subst s'.
  fold s in Nd, I |- *.
  assert (PN : pending_from 0 (wpcs s) (snapshot s) = []).
  { apply pending_none. intros p Hp. apply In_nth_error in Hp as (w & Hw).
    eapply no_lost_wakeup_inv; eauto. }
  rewrite PN in *. rewrite app_nil_r in *. rewrite Ok, Nd. reflexivity.
Qed.

(* the cleanup-count oracle accepts every model state in which no thread is inside the block *)
Definition no_thread_in_cleanup (s : st) : bool :=
  forallb (fun t => match a_sub t with SClean1 _ | SClean2 _ => false | _ => true end) (athreads s).

Lemma cleanup_oracle_sound s :
  Inv s -> no_thread_in_cleanup s = true -> check_cleanup (cleanups (gh s)) (status s) = true.
Proof.
  intros I H. pose proof (iC _ I) as C.
  assert (Z : sumf pcl (athreads s) = 0).
  { apply sumf_zero. intros t Ht. unfold no_thread_in_cleanup in H. rewrite forallb_forall in H.
    specialize (H _ Ht). unfold pcl. destruct (a_sub t); try discriminate; reflexivity. }
  rewrite Z in C. unfold check_cleanup.
  destruct (rank (status s) =? 6) eqn:E6; destruct (5 <=? rank (status s)) eqn:E5; unfold b2n in C; lia.
Qed.

(* ------------------------------------------------------------------ the waiter list is exactly the set of parked, unflagged waiters *)
(* (model sanity: notify_waiters is defined as a map over all waiters and notify_one pops the
   head of `queue`; this invariant shows the two views of tokio's waiter list coincide) *)
Definition parked (s : st) (w : nat) : Prop :=
  exists seen, nth_error (wpcs s) w = Some (WWait seen None).

Record InvQ (s : st) : Prop := mkInvQ {
  qIn : forall w, In w (queue s) <-> parked s w;
  qND : NoDup (queue s)
}.

Lemma remove_nat_In w x l : In x (remove_nat w l) <-> In x l /\ x <> w.
Proof.
  induction l as [|h t IH]; simpl; [tauto|].
  destruct (Nat.eqb h w) eqn:E.
  - apply Nat.eqb_eq in E. subst h. rewrite IH. split; [tauto|]. intros [[->|H] Hn]; [congruence|tauto].
  - apply Nat.eqb_neq in E. simpl. rewrite IH. split.
    + intros [->|[H Hn]]; auto.
    + intros [[->|H] Hn]; auto.
Qed.

Lemma remove_nat_NoDup w l : NoDup l -> NoDup (remove_nat w l).
Proof.
  induction 1 as [|h t Hn Hd IH]; simpl; [constructor|].
  destruct (Nat.eqb h w); auto. constructor; auto.
  intros X. apply remove_nat_In in X. tauto.
Qed.

Lemma parked_upd_other s s' w p v :
  wpcs s' = upd (wpcs s) w p -> v <> w -> (parked s' v <-> parked s v).
Proof. intros E Hn. unfold parked. rewrite E, nth_error_upd_neq by auto. tauto. Qed.

Lemma parked_upd_self s s' w p q :
  nth_error (wpcs s) w = Some q -> wpcs s' = upd (wpcs s) w p ->
  (parked s' w <-> exists seen, p = WWait seen None).
Proof.
  intros Eq E. unfold parked. rewrite E, (nth_error_upd_eq _ _ _ _ Eq).
  split; intros (seen & H); exists seen; congruence.
Qed.

(* a waiter's pc changes to a non-parked pc; it leaves the queue if it was parked *)
Lemma InvQ_leave s s' w q p :
  InvQ s -> nth_error (wpcs s) w = Some q -> wpcs s' = upd (wpcs s) w p ->
  (forall seen, p <> WWait seen None) ->
  queue s' = remove_nat w (queue s) -> InvQ s'.
Proof.
  intros [QI QN] Eq E Hp Eqq. constructor; rewrite Eqq.
  - intros v. rewrite remove_nat_In. destruct (Nat.eq_dec v w) as [->|Hn].
    + rewrite (parked_upd_self s s' w p q Eq E). split; [tauto|].
      intros (seen & H). exfalso. eapply Hp; eauto.
    + rewrite (parked_upd_other s s' w p v E Hn), QI. tauto.
  - apply remove_nat_NoDup; auto.
Qed.

Lemma remove_nat_notin w l : ~ In w l -> remove_nat w l = l.
Proof.
  induction l as [|h t IH]; simpl; auto. intros H.
  destruct (Nat.eqb h w) eqn:E.
  - apply Nat.eqb_eq in E. subst. exfalso. apply H; auto.
  - rewrite IH; auto.
Qed.

(* same, for a waiter that was not parked: the queue is unchanged *)
Lemma InvQ_unparked s s' w q p :
  InvQ s -> nth_error (wpcs s) w = Some q -> (forall seen, q <> WWait seen None) ->
  wpcs s' = upd (wpcs s) w p -> (forall seen, p <> WWait seen None) ->
  queue s' = queue s -> InvQ s'.
Proof.
  intros Q Eq Hq E Hp Eqq. eapply InvQ_leave; eauto.
  rewrite Eqq. symmetry. apply remove_nat_notin. intros X.
  apply (qIn _ Q) in X as (seen & H). rewrite Eq in H. injection H as ->. eapply Hq; eauto.
Qed.

Lemma InvQ_notify_one s : InvQ s -> InvQ (notify_one s).
Proof.
  intros [QI QN]. unfold notify_one. destruct (queue s) as [|w r] eqn:Eq.
  - constructor; prj; rewrite ?Eq; auto.
  - assert (Pw : parked s w) by (apply QI; left; auto).
    destruct Pw as (seen & Ew). inversion QN as [|? ? Hn Hd]; subst.
    constructor; prj; auto.
    intros v. unfold flag_at. rewrite Ew. simpl.
    destruct (Nat.eq_dec v w) as [->|Hne].
    + unfold parked; prj. rewrite (nth_error_upd_eq _ _ _ _ Ew). split; [tauto|].
      intros (x & H). discriminate.
    + unfold parked; prj. rewrite nth_error_upd_neq by auto.
      specialize (QI v). simpl in QI. unfold parked in QI. rewrite <- QI.
      split; [auto|]. intros [->|H]; [congruence|auto].
Qed.

Lemma InvQ_frame s s' : InvQ s -> queue s' = queue s -> wpcs s' = wpcs s -> InvQ s'.
Proof. intros [QI QN] Eq Ew. constructor; rewrite Eq; auto. intros w. unfold parked. rewrite Ew. apply QI. Qed.

Lemma NoDup_snoc (l : list nat) w : NoDup l -> ~ In w l -> NoDup (l ++ [w]).
Proof.
  induction 1 as [|h t Hn Hd IH]; simpl; intros Hw.
  - constructor; [intros []|constructor].
  - constructor.
    + rewrite in_app_iff. simpl. intros [X|[X|[]]]; [auto|]. apply Hw. left. auto.
    + apply IH. intros X. apply Hw. right. auto.
Qed.

Ltac unparked :=
  match goal with
  | Q : InvQ ?s, Ew : nth_error (wpcs ?s) ?w = Some _ |- _ =>
      eapply (InvQ_unparked s _ w); [exact Q | exact Ew | | reflexivity | | reflexivity];
      try (intros ?; discriminate); auto
  end.

Lemma InvQ_step s l : InvQ s -> InvQ (step s l).
Proof.
  intros Q. destruct l as [i|w|w| |g]; simpl.
  - (* actor thread *)
    unfold astep. destruct (nth_error (athreads s) i) as [t|]; auto.
    destruct (a_sub t).
    + destruct (a_prog t) as [|[x|g| | | | | |] r]; auto; try (eapply InvQ_frame; eauto; reflexivity).
      * destruct ((5 <=? rank x) && (rank (status s) <? 5));
          [|destruct ((rank x =? 6) && (rank (status s) <? 6))]; eapply InvQ_frame; eauto; reflexivity.
      * destruct (mem_gate g (gates s)); auto. eapply InvQ_frame; eauto; reflexivity.
    + eapply InvQ_frame; eauto; reflexivity.
    + eapply InvQ_frame; eauto; reflexivity.
    + eapply InvQ_frame; eauto; reflexivity.
    + (* notify_waiters *)
      constructor; prj; [|constructor].
      intros w. simpl. split; [tauto|]. intros (seen & H). prj. rewrite nth_error_map in H.
      destruct (nth_error (wpcs s) w) as [[|?|?|?|? [?|]| | | |]|]; simpl in H; discriminate.
    + (* notify_one *)
      apply (InvQ_frame (notify_one s)); [apply InvQ_notify_one; auto|reflexivity|reflexivity].
  - (* waiter *)
    unfold wstep. destruct (nth_error (wpcs s) w) as [p|] eqn:Ew; auto.
    assert (POLL : forall seen (l : bool), p = (if l then W2L seen else W2 seen) -> InvQ (poll_init s w seen l)).
    { intros seen l Hp. unfold poll_init.
      assert (Hq : forall x, p <> WWait x None) by (intros x; rewrite Hp; destruct l; discriminate).
      destruct (negb (calls s =? seen)); [unparked|].
      destruct (permit s); [unparked|].
      destruct l; [|unparked].
      (* registration *)
      destruct Q as [QI QN].
      assert (Nin : ~ In w (queue s)).
      { intros X. apply QI in X as (x & H). rewrite Ew in H. injection H as ->. eapply Hq; eauto. }
      constructor; prj.
      - intros v. rewrite in_app_iff. simpl. destruct (Nat.eq_dec v w) as [->|Hne].
        + unfold parked; prj. rewrite (nth_error_upd_eq _ _ _ _ Ew). split; eauto.
        + unfold parked; prj. rewrite nth_error_upd_neq by auto. rewrite QI. unfold parked.
          split; [intros [H|[H|[]]]; auto; congruence|auto].
      - apply NoDup_snoc; auto. }
    destruct p as [|seen|seen|seen|seen [n|]| | | |]; auto.
    + unparked.
    + destruct (stat_eqb (status s) Stopped);
        (unparked).
    + unparked.
    + destruct (negb (calls s =? seen)); auto.
      (match goal with
       | Q : InvQ ?s, Ew : nth_error (wpcs ?s) ?w = Some _ |- _ =>
           eapply (InvQ_leave s _ w); [exact Q | exact Ew | reflexivity | | reflexivity];
           try (intros ?; discriminate)
       end).
    + destruct (thread0_done s); auto.
      unparked.
  - (* timeout *)
    unfold tstep. destruct (nth_error (wpcs s) w) as [p|] eqn:Ew; auto.
    destruct p as [|seen|seen|seen|seen fl| | | |]; auto.
    assert (Q1 : InvQ (set_wpc (with_queue s (remove_nat w (queue s))) w WTimedOut)).
    { (match goal with
       | Q : InvQ ?s, Ew : nth_error (wpcs ?s) ?w = Some _ |- _ =>
           eapply (InvQ_leave s _ w); [exact Q | exact Ew | reflexivity | | reflexivity];
           try (intros ?; discriminate)
       end). }
    destruct fl as [[|]|]; auto. apply InvQ_notify_one; auto.
  - unfold dstep. destruct (rank (status s) <? 5); auto. eapply InvQ_frame; eauto; reflexivity.
  - eapply InvQ_frame; eauto; reflexivity.
Qed.

Lemma InvQ_run ls s : InvQ s -> InvQ (run ls s).
Proof. revert s; induction ls as [|l r IH]; intros s Q; simpl; auto. apply IH, InvQ_step; auto. Qed.

Lemma InvQ_init s0 ws progs : Forall (fun p => wpc_initial p = true) ws -> InvQ (mk_init s0 ws progs).
Proof.
  intros H. constructor; unfold mk_init, mk_init_k; prj; [|constructor].
  intros w. simpl. split; [tauto|]. intros (seen & E). prj.
  apply nth_error_In in E. rewrite Forall_forall in H. specialize (H _ E). discriminate.
Qed.
