(* Proofs about Spawn/Model.v (C08). *)
From Coq Require Import List NArith Bool Lia.
From RV Require Import Spawn.Model.
Import ListNotations.
Local Open Scope N_scope.

Definition stage (p : spc) : nat :=
  match p with C1 => 1 | C2 => 2 | C3 => 3 | C4 => 4 | C5 => 5 | C6 => 6 | PDone => 7 | _ => 0 end%nat.

Record Inv (s : st) : Prop := {
  i_quiet : pc s <> PRun -> events s = O /\ mark s = false;
  i_ran : pc s <> PRun -> ran s = O;
  i_calls : forall c, In c (accepted s) -> In (Some c) (mailbox s) \/ In c (closed_calls s);
  i_ports : ports_open s = false -> mailbox s = [];
  i_name : exists_cell s = true -> named s = true -> remote s = false -> status s < 5 -> name_mine s = true;
  i_named : name_mine s = true -> named s = true;
  i_remote : remote s = true -> name_mine s = false;
  i_nocell : exists_cell s = false ->
             name_mine s = false /\ pid_mine s = false /\ groups s = [] /\ mons s = [] /\ my_sup s = None
             /\ mailbox s = [] /\ accepted s = [] /\ waiters s = [] /\ status s = 0;
  i_early : (stage (pc s) <= 1)%nat -> status s <= 4;
  i_s2 : (2 <= stage (pc s))%nat ->
         5 <= status s /\ name_mine s = false /\ pid_mine s = false /\ groups s = [] /\ mons s = [];
  i_s3 : (3 <= stage (pc s))%nat -> my_children s = None;
  i_s5 : (5 <= stage (pc s))%nat -> my_sup s = None;
  i_s6 : (6 <= stage (pc s))%nat -> status s = 6 /\ forallb snd (waiters s) = true;
  i_s7 : (7 <= stage (pc s))%nat -> ports_open s = false
}.

Lemma mem_In : forall a l, mem a l = true <-> In a l.
Proof.
  intros a l; unfold mem; rewrite existsb_exists; split.
  - intros [x [Hin Heq]]. apply N.eqb_eq in Heq. now subst.
  - intros H; exists a; split; auto. apply N.eqb_refl.
Qed.

Lemma In_calls : forall c l, In c (calls l) <-> In (Some c) l.
Proof.
  intros c l. unfold calls. rewrite in_flat_map. split.
  - intros ([k|] & Hin & Hc); simpl in Hc; [destruct Hc as [->|[]]; auto|destruct Hc].
  - intros H. exists (Some c); simpl; auto.
Qed.

Lemma forallb_released : forall (l : list (N * bool)), forallb snd (map (fun w => (fst w, true)) l) = true.
Proof. induction l; simpl; auto. Qed.

Ltac t := unfold exists_cell in *; simpl in *;
  try solve [auto | lia | congruence | tauto | intuition (auto; try lia; try congruence)
            | intros; match goal with H : _ -> _ -> _ -> _ < 5 -> name_mine _ = true |- name_mine _ = true => apply H; auto; lia end].

Ltac spec := repeat match goal with
  | H : (?a <= ?b)%nat -> _ |- _ =>
      first [ let P := fresh in assert (P : (a <= b)%nat) by lia; specialize (H P); clear P | clear H ]
  end.
Ltac u Ep := unfold exists_cell in *; simpl in *; rewrite ?Ep in *; simpl in *; spec.

Lemma inv_init : forall nm sp loc scr f holder sst scl rem, Inv (init nm sp loc scr f holder sst scl rem).
Proof. intros. split; t. Qed.

(* effects of pre_start / of the environment on an existing cell keep the invariant *)
Lemma inv_eff : forall e s, Inv s -> exists_cell s = true -> Inv (apply_eff e s).
Proof.
  intros e s I Hx. destruct I.
  assert (Hst : (2 <= stage (pc s))%nat -> 5 <= status s) by (intros H; apply i_s4 in H; tauto).
  destruct e; simpl; auto; try (split; auto; fail).
  - destruct (status s <=? 4) eqn:E; [|split; auto]. apply N.leb_le in E.
    destruct (negb (mem g (groups s))); simpl; [|split; auto].
    split; t; try (intros H; specialize (Hst H); lia).
  - destruct (status s <=? 4) eqn:E; [|split; auto]. apply N.leb_le in E.
    destruct (negb (mem g (mons s))); simpl; [|split; auto].
    split; t; try (intros H; specialize (Hst H); lia).
  - destruct (status s <? 4) eqn:E; [|split; auto]. apply N.ltb_lt in E.
    split; t; try (intros H; assert (2 <= stage (pc s))%nat by lia; specialize (Hst H0); lia).
  - destruct (status s <? 4) eqn:E; [|split; auto]. apply N.ltb_lt in E.
    destruct (my_children s) eqn:Ec; [|split; auto].
    split; t; try (intros H; assert (2 <= stage (pc s))%nat by lia; specialize (Hst H0); lia).
Qed.

Lemma do_c2_fields : forall s,
  pc (do_c2 s) = pc s /\ status (do_c2 s) = status s /\ my_children (do_c2 s) = None.
Proof.
  intros s. unfold do_c2. destruct (sgn s); destruct (my_children s) eqn:Ec; simpl; rewrite ?Ec; auto.
Qed.

Lemma inv_do_c2 : forall s, Inv s -> Inv (do_c2 s).
Proof.
  intros s I. destruct I. unfold do_c2.
  destruct (sgn s); destruct (my_children s) eqn:Ec; simpl; rewrite ?Ec; split; t.
Qed.

Theorem inv_step : forall l s, Inv s -> Inv (step l s).
Proof.
  intros l s I. destruct l; unfold step.
  - (* LNew *)
    destruct (pc s) eqn:Ep; auto. destruct I.
    assert (N0 : name_mine s = false /\ pid_mine s = false /\ groups s = [] /\ mons s = [] /\ my_sup s = None
                 /\ mailbox s = [] /\ accepted s = [] /\ waiters s = [] /\ status s = 0)
      by (apply i_nocell0; unfold exists_cell; now rewrite Ep).
    destruct (remote s) eqn:Er.
    { split; u Ep; t. }
    destruct (named s) eqn:En.
    + destruct (name_other s); split; u Ep; t.
    + split; u Ep; t.
  - (* LBegin *)
    destruct (pc s) eqn:Ep; auto. destruct I.
    destruct (status s =? 0) eqn:E0; simpl.
    + apply N.eqb_eq in E0.
      destruct (local_ s); [destruct (sup s); [destruct (sup_link_ok _)|]|];
        split; u Ep; t.
    + split; u Ep; t.
  - (* LEff *)
    destruct (pc s) eqn:Ep; auto.
    assert (I1 : Inv (set_fresh false s)) by (destruct I; split; t).
    destruct (script s) as [|e tl].
    + destruct I1. destruct (fin_ s); split; u Ep; t.
    + apply inv_eff.
      * destruct I1; split; t.
      * unfold exists_cell; simpl; now rewrite Ep.
  - (* LLinkSup *)
    destruct (pc s) eqn:Ep; auto. destruct I.
    destruct (sup s); [destruct (local_ s); [|destruct (sup_link_ok s)]|]; split; u Ep; t.
  - (* LSeeKill *)
    destruct (sgn s) eqn:Es; auto. destruct (at_gate s) eqn:Eg; auto.
    unfold at_gate in Eg. destruct (pc s) eqn:Ep; try discriminate.
    assert (I1 : Inv (set_sgn SigConsumed s)) by (destruct I; split; t).
    apply inv_do_c2 in I1. destruct (do_c2_fields (set_sgn SigConsumed s)) as (F1 & F2 & F3).
    simpl in F1. destruct I1; split; unfold exists_cell in *; simpl in *; rewrite ?F1, ?Ep in *; simpl in *; spec; t.
  - (* LAbort *)
    destruct (pc s) eqn:Ep; auto; try (destruct (at_gate s) eqn:Eg; auto; unfold at_gate in Eg; rewrite Ep in Eg; try discriminate).
    + destruct I; split; u Ep; t.
    + destruct I; split; u Ep; t.
  - (* LClean *)
    destruct (pc s) eqn:Ep; auto.
    + (* C1 *)
      destruct I. assert (Hs : status s <= 4) by (apply i_early0; rewrite Ep; simpl; lia).
      unfold do_c1. assert (E : status s <? 5 = true) by (apply N.ltb_lt; lia). rewrite E.
      destruct (named s) eqn:En; destruct (remote s) eqn:Er; simpl.
      * pose proof (i_remote0 eq_refl) as Hrm. split; u Ep; t.
      * assert (Hn : name_mine s = true) by (apply i_name0; auto; [unfold exists_cell; now rewrite Ep|lia]).
        rewrite Hn. split; u Ep; t.
      * assert (Hm : name_mine s = false) by (destruct (name_mine s) eqn:Em; auto; specialize (i_named0 eq_refl); congruence).
        split; u Ep; t.
      * assert (Hm : name_mine s = false) by (destruct (name_mine s) eqn:Em; auto; specialize (i_named0 eq_refl); congruence).
        split; u Ep; t.
    + (* C2 *)
      pose proof (inv_do_c2 s I) as I1. destruct (do_c2_fields s) as (F1 & F2 & F3).
      destruct I1; split; unfold exists_cell in *; simpl in *; rewrite ?F1, ?Ep in *; simpl in *; spec; t.
    + destruct I. destruct (mark s) eqn:Em; split; u Ep; t.
      all: try (assert (mark s = false) by (apply i_quiet0; congruence); congruence).
    + destruct I; split; u Ep; t.
    + destruct I; split; u Ep; t.
      all: try (split; [reflexivity|apply forallb_released]).
    + destruct I; split; u Ep; t.
      intros c Hc. right. apply in_or_app. destruct (i_calls0 c Hc) as [H|H]; auto.
      right. now apply In_calls.
  - (* LSend *)
    destruct (exists_cell s) eqn:Ex; auto.
    destruct (status s <? 4) eqn:E4; simpl; auto. destruct (ports_open s) eqn:Eo; simpl; auto.
    apply N.ltb_lt in E4.
    assert (Hst : (2 <= stage (pc s))%nat -> False).
    { intros H. destruct I. apply i_s4 in H. lia. }
    destruct I. destruct c as [k|]; split; t; try (intros; exfalso; apply Hst; lia).
    + intros c [->|Hc]; [left; apply in_or_app; right; simpl; auto|].
      destruct (i_calls0 c Hc); auto. left; apply in_or_app; auto.
    + intros c Hc. destruct (i_calls0 c Hc); auto. left; apply in_or_app; auto.
  - (* LWait *)
    destruct (exists_cell s) eqn:Ex; auto. destruct I. split; t.
    intros H. destruct (i_s10 H) as [E1 E2]. rewrite E1. simpl. auto.
  - (* LKill *)
    destruct (exists_cell s) eqn:Ex; auto. destruct (sgn s); auto. destruct I; split; t.
  - (* LDrain *)
    destruct (exists_cell s) eqn:Ex; simpl; auto. destruct (status s <? 5) eqn:E5; auto.
    apply N.ltb_lt in E5. destruct I; split; t.
    all: try (intros H; apply i_s4 in H; lia).
    all: try (intros H; assert (2 <= stage (pc s))%nat by lia; apply i_s4 in H0; lia).
  - destruct (exists_cell s) eqn:Ex; auto. now apply inv_eff.
  - destruct (exists_cell s) eqn:Ex; auto. now apply inv_eff.
  - destruct (exists_cell s) eqn:Ex; auto. now apply inv_eff.
  - destruct (exists_cell s) eqn:Ex; auto. now apply inv_eff.
  - destruct (sup_status s <? n); auto. destruct I; split; t.
  - destruct I; split; t.
  - destruct (named s && negb (name_mine s)); auto. destruct (name_other s); auto. destruct I; split; t.
  - destruct (my_sup s) eqn:Em; auto. destruct (sup s); auto. destruct (_ =? _); auto.
    destruct (sgn s); destruct I; split; t.
Qed.

Lemma inv_exec : forall ls s, Inv s -> Inv (exec ls s).
Proof.
  induction ls as [|l ls IH]; intros s H; simpl; auto. apply IH. now apply inv_step.
Qed.

Lemma forallb_closed : forall s, Inv s -> mailbox s = [] ->
  forallb (fun c => mem c (closed_calls s)) (accepted s) = true.
Proof.
  intros s I Hm. apply forallb_forall. intros c Hc. apply mem_In.
  destruct (i_calls _ I c Hc) as [H|H]; auto. rewrite Hm in H. destruct H.
Qed.

Lemma filter_none : forall (P : N -> bool) l, forallb P l = true -> filter (fun c => negb (P c)) l = [].
Proof.
  induction l as [|c l IH]; simpl; auto. intros H. apply andb_true_iff in H. destruct H as [H1 H2].
  rewrite H1. simpl. auto.
Qed.

(* the failed spawn, once its guard and ports are dropped, has left nothing behind *)
Theorem residue_free_done : forall s, Inv s -> pc s = PDone -> residue_free s = true.
Proof.
  intros s I Ep. pose proof I as J. destruct J.
  rewrite Ep in *. simpl in *. spec.
  assert (Q : PDone <> PRun) by congruence. specialize (i_quiet0 Q).
  destruct i_quiet0 as (Q1 & Q2). destruct i_s4 as (S1 & S2 & S3 & S4 & S5). destruct i_s10 as (T1 & T2).
  specialize (i_ports0 i_s11).
  unfold residue_free. rewrite T1, T2, S2, S3, S4, S5, i_s8, i_s9, Q1, (i_ran0 Q), i_ports0, i_s11.
  rewrite forallb_closed; auto.
Qed.

Theorem observe_done : forall s, Inv s -> pc s = PDone -> check_C08 (observe s) = true.
Proof.
  intros s I Ep. pose proof (residue_free_done s I Ep) as R. pose proof I as J. destruct J.
  rewrite Ep in *. simpl in *. spec.
  assert (Q : PDone <> PRun) by congruence. specialize (i_quiet0 Q).
  destruct i_quiet0 as (Q1 & Q2). destruct i_s4 as (S1 & S2 & S3 & S4 & S5). destruct i_s10 as (T1 & T2).
  unfold check_C08, observe, count_open; simpl.
  rewrite T1, T2, S2, S3, S4, S5, i_s8, i_s9, Q1, (i_ran0 Q), i_s11. simpl.
  assert (F : filter (fun c => negb (mem c (closed_calls s))) (accepted s) = []).
  { apply filter_none. apply (forallb_closed s I (i_ports0 i_s11)). }
  rewrite F. simpl. rewrite andb_false_r. reflexivity.
Qed.

Lemma eff_fields : forall e s,
  pc (apply_eff e s) = pc s /\ named (apply_eff e s) = named s /\ name_other (apply_eff e s) = name_other s
  /\ remote (apply_eff e s) = remote s.
Proof.
  intros e s. destruct e; simpl; auto.
  - destruct (_ && _); auto.
  - destruct (_ && _); auto.
  - destruct (status s <? 4); auto.
  - destruct (status s <? 4); auto. destruct (my_children s); auto.
Qed.

Lemma c2_fields : forall s,
  named (do_c2 s) = named s /\ name_other (do_c2 s) = name_other s /\ remote (do_c2 s) = remote s.
Proof.
  intros s. unfold do_c2. destruct (sgn s); destruct (my_children s) eqn:Ec; simpl; rewrite ?Ec; auto.
Qed.

Lemma c1_fields : forall s, pc (do_c1 s) = pc s /\ named (do_c1 s) = named s /\ remote (do_c1 s) = remote s.
Proof.
  intros s. unfold do_c1. destruct (status s <? 5); auto. destruct (named s && negb (remote s)) eqn:En; simpl; auto.
  destruct (name_mine s); simpl; auto.
Qed.

Lemma pdone_absorbing : forall l s, pc s = PDone -> pc (step l s) = PDone.
Proof.
  intros l s Ep.
  assert (G : at_gate s = false) by (unfold at_gate; now rewrite Ep).
  destruct l; unfold step; rewrite ?Ep, ?G; auto.
  - destruct (sgn s); auto.
  - destruct (exists_cell s); auto. destruct (_ && _); auto. destruct c; auto.
  - destruct (exists_cell s); auto.
  - destruct (exists_cell s); auto. destruct (sgn s); auto.
  - destruct (_ && _); auto.
  - destruct (exists_cell s); auto. destruct (eff_fields (EJoin g) s) as (-> & _); auto.
  - destruct (exists_cell s); auto. destruct (eff_fields (EMon g) s) as (-> & _); auto.
  - destruct (exists_cell s); auto. destruct (eff_fields (ELinkTo q) s) as (-> & _); auto.
  - destruct (exists_cell s); auto. destruct (eff_fields (EAdopt o) s) as (-> & _); auto.
  - destruct (_ <? _); auto.
  - destruct (_ && _); auto. destruct (name_other s); auto.
  - destruct (my_sup s); auto. destruct (sup s); auto. destruct (_ =? _); auto. destruct (sgn s); auto.
Qed.

(* every stage of the cleanup is followed by the next: six more steps of the guard reach PDone *)
Lemma pc_do_c1 : forall s, pc (do_c1 s) = pc s.
Proof. intros s. apply c1_fields. Qed.

Lemma pc_clean : forall s, pc (step LClean s) =
  match pc s with C1 => C2 | C2 => C3 | C3 => C4 | C4 => C5 | C5 => C6 | C6 => PDone | p => p end.
Proof.
  intros s. unfold step. destruct (pc s) eqn:Ep; auto.
Qed.

Theorem cleanup_completes : forall s, (1 <= stage (pc s))%nat ->
  pc (exec [LClean; LClean; LClean; LClean; LClean; LClean] s) = PDone.
Proof.
  intros s H. unfold exec. cbn [fold_left]. rewrite !pc_clean.
  destruct (pc s); simpl in *; try lia; reflexivity.
Qed.

(* all the ways a spawn fails lead into the cleanup (or, for a taken name, create nothing) *)
Theorem failure_enters_cleanup : forall s,
  (pc s = P1 -> status s <> 0 -> pc (step LBegin s) = C1)
  /\ (pc s = P1 -> pc (step LAbort s) = C1)
  /\ (pc s = P2 -> script s = [] -> fin_ s <> ROk -> pc (step LEff s) = C1)
  /\ (at_gate s = true -> pc (step LAbort s) = C1)
  /\ (at_gate s = true -> sgn s = SigPending -> pc (step LSeeKill s) = C1)
  /\ (pc s = P3 -> local_ s = false -> sup s <> None -> sup_link_ok s = false -> pc (step LLinkSup s) = C1)
  /\ (pc s = P1 -> status s = 0 -> local_ s = true -> sup s <> None ->
      sup_link_ok (set_status 1 s) = false -> pc (step LBegin s) = C1)
  /\ (pc s = P0 -> remote s = false -> named s = true -> name_other s <> None -> step LNew s = set_pc PClash s).
Proof.
  intros s. repeat split.
  - intros Ep Hs. unfold step. rewrite Ep. apply N.eqb_neq in Hs. rewrite Hs. reflexivity.
  - intros Ep. unfold step. now rewrite Ep.
  - intros Ep Hs Hf. unfold step. rewrite Ep, Hs. destruct (fin_ s); try congruence; reflexivity.
  - intros Hg. unfold step. rewrite Hg. unfold at_gate in Hg. destruct (pc s); try discriminate; reflexivity.
  - intros Hg Hs. unfold step. rewrite Hs, Hg. reflexivity.
  - intros Ep Hl Hs Hk. unfold step. rewrite Ep, Hl, Hk. destruct (sup s); try congruence; reflexivity.
  - intros Ep Hs Hl Hp Hk. unfold step. rewrite Ep, Hl. apply N.eqb_eq in Hs. rewrite Hs. simpl.
    destruct (sup s); try congruence. rewrite Hk. reflexivity.
  - intros Ep Hr Hn Ho. unfold step. rewrite Ep, Hr, Hn. destruct (name_other s); try congruence; reflexivity.
Qed.

(* a name clash creates nothing, and no step of the failing spawn ever touches the holder's entry *)
Theorem holder_untouched : forall l s, Inv s ->
  name_other (step l s) = name_other s \/ (exists b, l = LReuseName b).
Proof.
  intros l s I. destruct l; try (right; eauto; fail); left; unfold step.
  - destruct (pc s); auto. destruct (remote s); auto. destruct (named s); auto. destruct (name_other s) eqn:E; simpl; auto.
  - destruct (pc s); auto. destruct (negb _); auto. destruct (local_ s); auto.
    destruct (sup s); auto. destruct (sup_link_ok _); auto.
  - destruct (pc s); auto. destruct (script s); [destruct (fin_ s); auto|].
    destruct (eff_fields e (set_script l (set_fresh false s))) as (_ & _ & -> & _); auto.
  - destruct (pc s); auto. destruct (sup s); auto. destruct (local_ s); auto. destruct (sup_link_ok s); auto.
  - destruct (sgn s); auto. destruct (at_gate s); auto. simpl.
    destruct (c2_fields (set_sgn SigConsumed s)) as (_ & -> & _); auto.
  - destruct (pc s); auto; destruct (at_gate s); auto.
  - destruct (pc s) eqn:Ep; auto; simpl.
    + (* C1: set_status(Stopping) unregisters by name: the entry is a's own *)
      unfold do_c1. destruct (status s <? 5) eqn:E5; auto.
      destruct (named s) eqn:En; destruct (remote s) eqn:Er; simpl; auto.
      assert (Hn : name_mine s = true).
      { apply (i_name _ I); auto; [unfold exists_cell; now rewrite Ep|now apply N.ltb_lt]. }
      rewrite Hn. reflexivity.
    + destruct (c2_fields s) as (_ & -> & _); auto.
    + destruct (mark s); auto.
  - destruct (exists_cell s); auto. destruct (_ && _); auto. destruct c; auto.
  - destruct (exists_cell s); auto.
  - destruct (exists_cell s); auto. destruct (sgn s); auto.
  - destruct (_ && _); auto.
  - destruct (exists_cell s); auto. destruct (eff_fields (EJoin g) s) as (_ & _ & -> & _); auto.
  - destruct (exists_cell s); auto. destruct (eff_fields (EMon g) s) as (_ & _ & -> & _); auto.
  - destruct (exists_cell s); auto. destruct (eff_fields (ELinkTo q) s) as (_ & _ & -> & _); auto.
  - destruct (exists_cell s); auto. destruct (eff_fields (EAdopt o) s) as (_ & _ & -> & _); auto.
  - destruct (_ <? _); auto.
  - reflexivity.
  - destruct (my_sup s); auto. destruct (sup s); auto. destruct (_ =? _); auto. destruct (sgn s); auto.
Qed.

Lemma nocell_step : forall l s, exists_cell s = false -> named s = true -> remote s = false ->
  name_other s <> None ->
  exists_cell (step l s) = false /\ named (step l s) = true /\ remote (step l s) = false.
Proof.
  intros l s Hx Hn Hr Ho.
  assert (G : at_gate s = false) by (unfold at_gate, exists_cell in *; destruct (pc s); auto; discriminate).
  destruct l; unfold step; rewrite ?G; rewrite ?Hx; simpl; auto;
    unfold exists_cell in *; destruct (pc s) eqn:Ep; try discriminate; simpl; rewrite ?Ep, ?Hr, ?Hn; simpl; auto.
  all: try (destruct (name_other s) eqn:E; [simpl; rewrite ?Ep; auto|congruence]).
  all: try (destruct (sgn s); simpl; rewrite ?Ep; auto; fail).
  all: try (destruct (_ <? _); simpl; rewrite ?Ep; auto; fail).
  all: try (destruct (negb (name_mine s)); simpl; rewrite ?Ep; auto;
            destruct (name_other s); simpl; rewrite ?Ep; auto; fail).
  all: try (destruct (my_sup s); simpl; rewrite ?Ep; auto; destruct (sup s); simpl; rewrite ?Ep; auto;
            destruct (_ =? _); simpl; rewrite ?Ep; auto; destruct (sgn s); simpl; rewrite ?Ep; auto; fail).
Qed.

Lemma clash_inv : forall ls h sp loc scr f sst scl,
  let s := exec ls (init true sp loc scr f (Some h) sst scl false) in
  Forall (fun l => forall b, l <> LReuseName b) ls ->
  Inv s /\ name_other s = Some h /\ exists_cell s = false.
Proof.
  intros ls h sp loc scr f sst scl.
  set (s0 := init true sp loc scr f (Some h) sst scl false).
  assert (G : forall ls s, Inv s -> named s = true -> remote s = false -> name_other s = Some h -> exists_cell s = false ->
              Forall (fun l => forall b, l <> LReuseName b) ls ->
              Inv (exec ls s) /\ name_other (exec ls s) = Some h /\ exists_cell (exec ls s) = false).
  { induction ls0 as [|l ls0 IH]; intros s I Hn Hr Ho Hx F; simpl; auto.
    inversion F; subst.
    assert (Ho' : name_other s <> None) by congruence.
    destruct (nocell_step l s Hx Hn Hr Ho') as (X1 & X2 & X3).
    apply IH; auto.
    - now apply inv_step.
    - destruct (holder_untouched l s I) as [E|[b E]]; [congruence|]. exfalso. apply (H1 b E). }
  intros s F. apply (G ls s0 (inv_init _ _ _ _ _ _ _ _ _) eq_refl eq_refl eq_refl eq_refl F).
Qed.

Theorem clash_creates_nothing : forall ls nm_holder sp loc scr f sst scl,
  let s := exec ls (init true sp loc scr f (Some nm_holder) sst scl false) in
  Forall (fun l => forall b, l <> LReuseName b) ls ->
  name_other s = Some nm_holder
  /\ exists_cell s = false
  /\ name_mine s = false /\ pid_mine s = false /\ groups s = [] /\ mons s = [] /\ my_sup s = None
  /\ mailbox s = [] /\ waiters s = [] /\ status s = 0 /\ events s = O /\ ran s = O.
Proof.
  intros ls h sp loc scr f sst scl s F.
  destruct (clash_inv ls h sp loc scr f sst scl F) as (I & Ho & Hx).
  fold s in I, Ho, Hx. split; auto. split; auto.
  destruct (i_nocell _ I Hx) as (A1 & A2 & A3 & A4 & A5 & A6 & A7 & A8 & A9).
  assert (Q : pc s <> PRun) by (unfold exists_cell in Hx; destruct (pc s); try discriminate; congruence).
  destruct (i_quiet _ I Q) as (Q1 & _). pose proof (i_ran _ I Q). auto 15.
Qed.

(* the oracle applied to a refused (name taken) spawn accepts every observation of the model *)
Theorem clash_oracle_sound : forall ls h sp loc scr f sst scl,
  let s := exec ls (init true sp loc scr f (Some h) sst scl false) in
  Forall (fun l => forall b, l <> LReuseName b) ls ->
  check_clash (observe s) = true.
Proof.
  intros ls h sp loc scr f sst scl s F.
  destruct (clash_inv ls h sp loc scr f sst scl F) as (I & Ho & Hx).
  fold s in I, Ho, Hx.
  destruct (i_nocell _ I Hx) as (A1 & A2 & A3 & A4 & A5 & A6 & A7 & A8 & A9).
  assert (Q : pc s <> PRun) by (unfold exists_cell in Hx; destruct (pc s); try discriminate; congruence).
  destruct (i_quiet _ I Q) as (Q1 & _). pose proof (i_ran _ I Q) as R.
  unfold check_clash, observe, count_open; simpl.
  rewrite Ho, A9, A1, A2, A3, A4, A5, A7, Q1, R, Hx. reflexivity.
Qed.

Theorem clean_failure : forall ls nm sp loc scr f holder sst scl rem,
  let s := exec ls (init nm sp loc scr f holder sst scl rem) in
  pc s = PDone -> residue_free s = true /\ check_C08 (observe s) = true.
Proof.
  intros ls nm sp loc scr f holder sst scl rem s Ep.
  assert (I : Inv s) by (apply inv_exec, inv_init).
  split; [now apply residue_free_done|now apply observe_done].
Qed.

(* the holder of the name is never touched along any run of a spawn request (local or remote id) that
   contains no foreign re-registration; with check_C08 at PDone this is the oracle used when a live actor
   owns the name the failed spawn carried *)
Theorem holder_kept : forall ls nm sp loc scr f h sst scl rem,
  Forall (fun l => forall b, l <> LReuseName b) ls ->
  name_other (exec ls (init nm sp loc scr f (Some h) sst scl rem)) = Some h.
Proof.
  intros ls nm sp loc scr f h sst scl rem.
  assert (G : forall ls s, Inv s -> name_other s = Some h ->
              Forall (fun l => forall b, l <> LReuseName b) ls -> name_other (exec ls s) = Some h).
  { induction ls0 as [|l ls0 IH]; intros s I Ho F; simpl; auto. inversion F; subst.
    apply IH; auto; [now apply inv_step|].
    destruct (holder_untouched l s I) as [E|[b E]]; [congruence|]. exfalso. apply (H1 b E). }
  intros F. apply G; auto. apply inv_init.
Qed.

Theorem remote_failure_oracle_sound : forall ls nm sp loc scr f h sst scl rem,
  let s := exec ls (init nm sp loc scr f (Some h) sst scl rem) in
  Forall (fun l => forall b, l <> LReuseName b) ls ->
  pc s = PDone -> check_C08_holder (observe s) = true.
Proof.
  intros ls nm sp loc scr f h sst scl rem s F Ep. unfold check_C08_holder.
  destruct (clean_failure ls nm sp loc scr f (Some h) sst scl rem Ep) as [_ E]. fold s in E. rewrite E.
  unfold observe; simpl. unfold s. rewrite (holder_kept ls nm sp loc scr f h sst scl rem F). reflexivity.
Qed.
