(* Model of the spawn pipeline of ractor (C08), projected on the actor `a` being spawned:
     ractor/src/actor.rs        ActorRuntime::{new, spawn*, start}, ActorLifecycleGuard::{cleanup, drop}
     ractor/src/actor/actor_cell.rs  ActorCell::new (name + pid registration), set_status (unregister,
                                     demonitor_all, leave_all, notify_stop_listener), terminate
     ractor/src/thread_local/inner.rs  start (links BEFORE pre_start)
   The state records everything the rest of the system can retain about `a`: registry entries,
   group memberships / monitor lists, the child set it sits in, its own child set, emitted
   lifecycle events, queued messages with their reply ports, waiters, and the callbacks that ran.
   A label is one stage of the pipeline, one stage of the guard's cleanup, or one operation of
   the environment (other tasks/threads: send, call, wait, kill, drain, pg::join, pg::monitor,
   link, adopt, supervisor status changes, reuse of the name).  Theorems quantify over all
   label lists, i.e. every cut point and every interleaving.  Definitions only. *)
From Coq Require Import List NArith Bool.
Import ListNotations.
Local Open Scope N_scope.

Definition aid := N.

Inductive sigst := SigNone | SigPending | SigConsumed.

(* side effects of the pre_start script *)
Inductive eff :=
| EGate                 (* an await point: the future can be dropped / the Kill seen here *)
| EJoin (g : N)         (* pg::join(g, [myself]) *)
| EMon (g : N)          (* pg::monitor(g, myself) *)
| ELinkTo (q : aid)     (* myself.link(q) *)
| EAdopt (o : aid)      (* o.link(myself), or spawn_linked(o) under myself *)
| ESend.                (* sending to others: no trace on `a` *)

Inductive fin := ROk | RErr | RPanic.

Inductive spc :=
| P0 | PClash            (* before ActorRuntime::new / new() failed: name taken *)
| P1                     (* cell + guard exist, start() not yet polled *)
| P2                     (* status Starting, inside pre_start *)
| P3                     (* pre_start returned Ok; supervisor link + mark_running + loop task next *)
| PRun                   (* the spawn succeeded (not a subject of C08) *)
| C1 | C2 | C3 | C4 | C5 | C6   (* next stage of the guard's cleanup / of dropping the ports *)
| PDone.                 (* failed spawn, everything dropped *)

Record st := mkSt {
  pc : spc;
  script : list eff;
  fin_ : fin;
  fresh : bool;
  named : bool;
  sup : option aid;
  local_ : bool;
  status : N;
  sgn : sigst;
  mark : bool;
  name_mine : bool;
  name_other : option aid;
  pid_mine : bool;
  groups : list N;
  mons : list N;
  my_sup : option aid;
  my_children : option (list aid);
  killed : list aid;
  events : nat;
  mailbox : list (option N);
  ports_open : bool;
  accepted : list N;
  closed_calls : list N;
  waiters : list (N * bool);
  ran : nat;
  sup_status : N;
  sup_closed : bool;
  remote : bool            (* the cell carries a REMOTE id (spawn_linked_remote): never enrolled in the name / pid registries *)
}.

Definition set_pc (v : spc) (x : st) : st := mkSt v (script x) (fin_ x) (fresh x) (named x) (sup x) (local_ x) (status x) (sgn x) (mark x) (name_mine x) (name_other x) (pid_mine x) (groups x) (mons x) (my_sup x) (my_children x) (killed x) (events x) (mailbox x) (ports_open x) (accepted x) (closed_calls x) (waiters x) (ran x) (sup_status x) (sup_closed x) (remote x).
Definition set_script (v : list eff) (x : st) : st := mkSt (pc x) v (fin_ x) (fresh x) (named x) (sup x) (local_ x) (status x) (sgn x) (mark x) (name_mine x) (name_other x) (pid_mine x) (groups x) (mons x) (my_sup x) (my_children x) (killed x) (events x) (mailbox x) (ports_open x) (accepted x) (closed_calls x) (waiters x) (ran x) (sup_status x) (sup_closed x) (remote x).
Definition set_fin_ (v : fin) (x : st) : st := mkSt (pc x) (script x) v (fresh x) (named x) (sup x) (local_ x) (status x) (sgn x) (mark x) (name_mine x) (name_other x) (pid_mine x) (groups x) (mons x) (my_sup x) (my_children x) (killed x) (events x) (mailbox x) (ports_open x) (accepted x) (closed_calls x) (waiters x) (ran x) (sup_status x) (sup_closed x) (remote x).
Definition set_fresh (v : bool) (x : st) : st := mkSt (pc x) (script x) (fin_ x) v (named x) (sup x) (local_ x) (status x) (sgn x) (mark x) (name_mine x) (name_other x) (pid_mine x) (groups x) (mons x) (my_sup x) (my_children x) (killed x) (events x) (mailbox x) (ports_open x) (accepted x) (closed_calls x) (waiters x) (ran x) (sup_status x) (sup_closed x) (remote x).
Definition set_named (v : bool) (x : st) : st := mkSt (pc x) (script x) (fin_ x) (fresh x) v (sup x) (local_ x) (status x) (sgn x) (mark x) (name_mine x) (name_other x) (pid_mine x) (groups x) (mons x) (my_sup x) (my_children x) (killed x) (events x) (mailbox x) (ports_open x) (accepted x) (closed_calls x) (waiters x) (ran x) (sup_status x) (sup_closed x) (remote x).
Definition set_sup (v : option aid) (x : st) : st := mkSt (pc x) (script x) (fin_ x) (fresh x) (named x) v (local_ x) (status x) (sgn x) (mark x) (name_mine x) (name_other x) (pid_mine x) (groups x) (mons x) (my_sup x) (my_children x) (killed x) (events x) (mailbox x) (ports_open x) (accepted x) (closed_calls x) (waiters x) (ran x) (sup_status x) (sup_closed x) (remote x).
Definition set_local_ (v : bool) (x : st) : st := mkSt (pc x) (script x) (fin_ x) (fresh x) (named x) (sup x) v (status x) (sgn x) (mark x) (name_mine x) (name_other x) (pid_mine x) (groups x) (mons x) (my_sup x) (my_children x) (killed x) (events x) (mailbox x) (ports_open x) (accepted x) (closed_calls x) (waiters x) (ran x) (sup_status x) (sup_closed x) (remote x).
Definition set_status (v : N) (x : st) : st := mkSt (pc x) (script x) (fin_ x) (fresh x) (named x) (sup x) (local_ x) v (sgn x) (mark x) (name_mine x) (name_other x) (pid_mine x) (groups x) (mons x) (my_sup x) (my_children x) (killed x) (events x) (mailbox x) (ports_open x) (accepted x) (closed_calls x) (waiters x) (ran x) (sup_status x) (sup_closed x) (remote x).
Definition set_sgn (v : sigst) (x : st) : st := mkSt (pc x) (script x) (fin_ x) (fresh x) (named x) (sup x) (local_ x) (status x) v (mark x) (name_mine x) (name_other x) (pid_mine x) (groups x) (mons x) (my_sup x) (my_children x) (killed x) (events x) (mailbox x) (ports_open x) (accepted x) (closed_calls x) (waiters x) (ran x) (sup_status x) (sup_closed x) (remote x).
Definition set_mark (v : bool) (x : st) : st := mkSt (pc x) (script x) (fin_ x) (fresh x) (named x) (sup x) (local_ x) (status x) (sgn x) v (name_mine x) (name_other x) (pid_mine x) (groups x) (mons x) (my_sup x) (my_children x) (killed x) (events x) (mailbox x) (ports_open x) (accepted x) (closed_calls x) (waiters x) (ran x) (sup_status x) (sup_closed x) (remote x).
Definition set_name_mine (v : bool) (x : st) : st := mkSt (pc x) (script x) (fin_ x) (fresh x) (named x) (sup x) (local_ x) (status x) (sgn x) (mark x) v (name_other x) (pid_mine x) (groups x) (mons x) (my_sup x) (my_children x) (killed x) (events x) (mailbox x) (ports_open x) (accepted x) (closed_calls x) (waiters x) (ran x) (sup_status x) (sup_closed x) (remote x).
Definition set_name_other (v : option aid) (x : st) : st := mkSt (pc x) (script x) (fin_ x) (fresh x) (named x) (sup x) (local_ x) (status x) (sgn x) (mark x) (name_mine x) v (pid_mine x) (groups x) (mons x) (my_sup x) (my_children x) (killed x) (events x) (mailbox x) (ports_open x) (accepted x) (closed_calls x) (waiters x) (ran x) (sup_status x) (sup_closed x) (remote x).
Definition set_pid_mine (v : bool) (x : st) : st := mkSt (pc x) (script x) (fin_ x) (fresh x) (named x) (sup x) (local_ x) (status x) (sgn x) (mark x) (name_mine x) (name_other x) v (groups x) (mons x) (my_sup x) (my_children x) (killed x) (events x) (mailbox x) (ports_open x) (accepted x) (closed_calls x) (waiters x) (ran x) (sup_status x) (sup_closed x) (remote x).
Definition set_groups (v : list N) (x : st) : st := mkSt (pc x) (script x) (fin_ x) (fresh x) (named x) (sup x) (local_ x) (status x) (sgn x) (mark x) (name_mine x) (name_other x) (pid_mine x) v (mons x) (my_sup x) (my_children x) (killed x) (events x) (mailbox x) (ports_open x) (accepted x) (closed_calls x) (waiters x) (ran x) (sup_status x) (sup_closed x) (remote x).
Definition set_mons (v : list N) (x : st) : st := mkSt (pc x) (script x) (fin_ x) (fresh x) (named x) (sup x) (local_ x) (status x) (sgn x) (mark x) (name_mine x) (name_other x) (pid_mine x) (groups x) v (my_sup x) (my_children x) (killed x) (events x) (mailbox x) (ports_open x) (accepted x) (closed_calls x) (waiters x) (ran x) (sup_status x) (sup_closed x) (remote x).
Definition set_my_sup (v : option aid) (x : st) : st := mkSt (pc x) (script x) (fin_ x) (fresh x) (named x) (sup x) (local_ x) (status x) (sgn x) (mark x) (name_mine x) (name_other x) (pid_mine x) (groups x) (mons x) v (my_children x) (killed x) (events x) (mailbox x) (ports_open x) (accepted x) (closed_calls x) (waiters x) (ran x) (sup_status x) (sup_closed x) (remote x).
Definition set_my_children (v : option (list aid)) (x : st) : st := mkSt (pc x) (script x) (fin_ x) (fresh x) (named x) (sup x) (local_ x) (status x) (sgn x) (mark x) (name_mine x) (name_other x) (pid_mine x) (groups x) (mons x) (my_sup x) v (killed x) (events x) (mailbox x) (ports_open x) (accepted x) (closed_calls x) (waiters x) (ran x) (sup_status x) (sup_closed x) (remote x).
Definition set_killed (v : list aid) (x : st) : st := mkSt (pc x) (script x) (fin_ x) (fresh x) (named x) (sup x) (local_ x) (status x) (sgn x) (mark x) (name_mine x) (name_other x) (pid_mine x) (groups x) (mons x) (my_sup x) (my_children x) v (events x) (mailbox x) (ports_open x) (accepted x) (closed_calls x) (waiters x) (ran x) (sup_status x) (sup_closed x) (remote x).
Definition set_events (v : nat) (x : st) : st := mkSt (pc x) (script x) (fin_ x) (fresh x) (named x) (sup x) (local_ x) (status x) (sgn x) (mark x) (name_mine x) (name_other x) (pid_mine x) (groups x) (mons x) (my_sup x) (my_children x) (killed x) v (mailbox x) (ports_open x) (accepted x) (closed_calls x) (waiters x) (ran x) (sup_status x) (sup_closed x) (remote x).
Definition set_mailbox (v : list (option N)) (x : st) : st := mkSt (pc x) (script x) (fin_ x) (fresh x) (named x) (sup x) (local_ x) (status x) (sgn x) (mark x) (name_mine x) (name_other x) (pid_mine x) (groups x) (mons x) (my_sup x) (my_children x) (killed x) (events x) v (ports_open x) (accepted x) (closed_calls x) (waiters x) (ran x) (sup_status x) (sup_closed x) (remote x).
Definition set_ports_open (v : bool) (x : st) : st := mkSt (pc x) (script x) (fin_ x) (fresh x) (named x) (sup x) (local_ x) (status x) (sgn x) (mark x) (name_mine x) (name_other x) (pid_mine x) (groups x) (mons x) (my_sup x) (my_children x) (killed x) (events x) (mailbox x) v (accepted x) (closed_calls x) (waiters x) (ran x) (sup_status x) (sup_closed x) (remote x).
Definition set_accepted (v : list N) (x : st) : st := mkSt (pc x) (script x) (fin_ x) (fresh x) (named x) (sup x) (local_ x) (status x) (sgn x) (mark x) (name_mine x) (name_other x) (pid_mine x) (groups x) (mons x) (my_sup x) (my_children x) (killed x) (events x) (mailbox x) (ports_open x) v (closed_calls x) (waiters x) (ran x) (sup_status x) (sup_closed x) (remote x).
Definition set_closed_calls (v : list N) (x : st) : st := mkSt (pc x) (script x) (fin_ x) (fresh x) (named x) (sup x) (local_ x) (status x) (sgn x) (mark x) (name_mine x) (name_other x) (pid_mine x) (groups x) (mons x) (my_sup x) (my_children x) (killed x) (events x) (mailbox x) (ports_open x) (accepted x) v (waiters x) (ran x) (sup_status x) (sup_closed x) (remote x).
Definition set_waiters (v : list (N * bool)) (x : st) : st := mkSt (pc x) (script x) (fin_ x) (fresh x) (named x) (sup x) (local_ x) (status x) (sgn x) (mark x) (name_mine x) (name_other x) (pid_mine x) (groups x) (mons x) (my_sup x) (my_children x) (killed x) (events x) (mailbox x) (ports_open x) (accepted x) (closed_calls x) v (ran x) (sup_status x) (sup_closed x) (remote x).
Definition set_ran (v : nat) (x : st) : st := mkSt (pc x) (script x) (fin_ x) (fresh x) (named x) (sup x) (local_ x) (status x) (sgn x) (mark x) (name_mine x) (name_other x) (pid_mine x) (groups x) (mons x) (my_sup x) (my_children x) (killed x) (events x) (mailbox x) (ports_open x) (accepted x) (closed_calls x) (waiters x) v (sup_status x) (sup_closed x) (remote x).
Definition set_sup_status (v : N) (x : st) : st := mkSt (pc x) (script x) (fin_ x) (fresh x) (named x) (sup x) (local_ x) (status x) (sgn x) (mark x) (name_mine x) (name_other x) (pid_mine x) (groups x) (mons x) (my_sup x) (my_children x) (killed x) (events x) (mailbox x) (ports_open x) (accepted x) (closed_calls x) (waiters x) (ran x) v (sup_closed x) (remote x).
Definition set_sup_closed (v : bool) (x : st) : st := mkSt (pc x) (script x) (fin_ x) (fresh x) (named x) (sup x) (local_ x) (status x) (sgn x) (mark x) (name_mine x) (name_other x) (pid_mine x) (groups x) (mons x) (my_sup x) (my_children x) (killed x) (events x) (mailbox x) (ports_open x) (accepted x) (closed_calls x) (waiters x) (ran x) (sup_status x) v (remote x).

Definition mem (a : N) (l : list N) : bool := existsb (N.eqb a) l.

Definition exists_cell (s : st) : bool :=
  match pc s with P0 | PClash => false | _ => true end.

(* the start future is parked at an await point (or its pre_start body was not polled yet) *)
Definition at_gate (s : st) : bool :=
  match pc s with
  | P2 => fresh s || match script s with EGate :: _ => true | _ => false end
  | _ => false
  end.

(* SupervisionTree::link(a, supervisor given to spawn_linked) *)
Definition sup_link_ok (s : st) : bool :=
  (status s <? 4) && (sup_status s <? 4) && negb (sup_closed s).

Definition calls (l : list (option N)) : list N :=
  flat_map (fun m => match m with Some c => [c] | None => [] end) l.

(* set_status(Stopping): on the first transition unregister pid and name, demonitor_all, leave_all *)
Definition do_c1 (s : st) : st :=
  if status s <? 5 then
    let s1 := set_status 5 (set_pid_mine false (set_mons [] (set_groups [] s))) in
    if named s && negb (remote s) then (if name_mine s1 then set_name_mine false s1 else set_name_other None s1) else s1
  else s.

(* terminate(): kill self, close the child set, kill the children *)
Definition do_c2 (s : st) : st :=
  let s1 := match sgn s with SigNone => set_sgn SigPending s | _ => s end in
  match my_children s1 with
  | Some l => set_killed (killed s1 ++ l) (set_my_children None s1)
  | None => s1
  end.

Definition apply_eff (e : eff) (s : st) : st :=
  match e with
  | EGate | ESend => s
  | EJoin g => if (status s <=? 4) && negb (mem g (groups s)) then set_groups (g :: groups s) s else s
  | EMon g => if (status s <=? 4) && negb (mem g (mons s)) then set_mons (g :: mons s) s else s
  | ELinkTo q => if status s <? 4 then set_my_sup (Some q) s else s
  | EAdopt o =>
      if status s <? 4 then
        match my_children s with Some l => set_my_children (Some (o :: l)) s | None => s end
      else s
  end.

Inductive label :=
(* the pipeline *)
| LNew | LBegin | LEff | LLinkSup
| LSeeKill              (* the signal port wins at an await point: handle_signal, then Err *)
| LAbort                (* the start future / the instant task is dropped *)
| LClean                (* next stage of cleanup *)
(* the environment *)
| LSend (c : option N)  (* cast (None) or call with reply port c *)
| LWait (w : N)
| LKill | LDrain
| LJoin (g : N) | LMon (g : N) | LLinkExt (q : aid) | LAdoptExt (o : aid)
| LSupStatus (n : N) | LSupClose
| LReuseName (b : aid)  (* some other actor is spawned with the same name *)
| LSupTake.             (* the supervisor given to spawn_linked exits: its terminate() detaches and kills a, if a is its child *)

Definition step (l : label) (s : st) : st :=
  match l with
  | LNew =>
      match pc s with
      | P0 =>
          if remote s then set_pc P1 s      (* ActorCell::new_remote: no name, no pid registration *)
          else if named s then
            match name_other s with
            | Some _ => set_pc PClash s
            | None => set_pc P1 (set_pid_mine true (set_name_mine true s))
            end
          else set_pc P1 (set_pid_mine true s)
      | _ => s
      end
  | LBegin =>
      match pc s with
      | P1 =>
          if negb (status s =? 0) then set_pc C1 s     (* ActorAlreadyStarted *)
          else
            let s1 := set_status 1 s in
            if local_ s then
              match sup s with
              | Some p => if sup_link_ok s1 then set_pc P2 (set_fresh true (set_my_sup (Some p) s1))
                          else set_pc C1 s1
              | None => set_pc P2 (set_fresh true s1)
              end
            else set_pc P2 (set_fresh true s1)
      | _ => s
      end
  | LEff =>
      match pc s with
      | P2 =>
          let s1 := set_fresh false s in
          match script s with
          | [] => match fin_ s with ROk => set_pc P3 s1 | _ => set_pc C1 s1 end
          | e :: t => apply_eff e (set_script t s1)
          end
      | _ => s
      end
  | LLinkSup =>
      match pc s with
      | P3 =>
          match sup s with
          | Some p =>
              if local_ s then set_pc PRun (set_ran 1%nat (set_mark true s))
              else if sup_link_ok s then set_pc PRun (set_ran 1%nat (set_mark true (set_my_sup (Some p) s)))
              else set_pc C1 s
          | None => set_pc PRun (set_ran 1%nat (set_mark true s))
          end
      | _ => s
      end
  | LSeeKill =>
      match sgn s with
      | SigPending => if at_gate s then set_pc C1 (do_c2 (set_sgn SigConsumed s)) else s
      | _ => s
      end
  | LAbort =>
      match pc s with
      | P1 => set_pc C1 s
      | _ => if at_gate s then set_pc C1 s else s
      end
  | LClean =>
      match pc s with
      | C1 => set_pc C2 (do_c1 s)
      | C2 => set_pc C3 (do_c2 s)
      | C3 => set_pc C4 (if mark s then set_events (S (events s)) s else s)
      | C4 => set_pc C5 (set_my_sup None s)
      | C5 => set_pc C6 (set_waiters (map (fun w => (fst w, true)) (waiters s)) (set_status 6 s))
      | C6 => set_pc PDone (set_ports_open false (set_closed_calls (closed_calls s ++ calls (mailbox s)) (set_mailbox [] s)))
      | _ => s
      end
  | LSend c =>
      if exists_cell s then
        if (status s <? 4) && ports_open s then
          set_mailbox (mailbox s ++ [c]) (match c with Some k => set_accepted (k :: accepted s) s | None => s end)
        else s
      else s
  | LWait w =>
      if exists_cell s then set_waiters ((w, status s =? 6) :: waiters s) s else s
  | LKill => if exists_cell s then match sgn s with SigNone => set_sgn SigPending s | _ => s end else s
  | LDrain => if exists_cell s && (status s <? 5) then set_status 4 s else s
  | LJoin g => if exists_cell s then apply_eff (EJoin g) s else s
  | LMon g => if exists_cell s then apply_eff (EMon g) s else s
  | LLinkExt q => if exists_cell s then apply_eff (ELinkTo q) s else s
  | LAdoptExt o => if exists_cell s then apply_eff (EAdopt o) s else s
  | LSupStatus n => if sup_status s <? n then set_sup_status n s else s
  | LSupClose => set_sup_closed true s
  | LReuseName b =>
      if named s && negb (name_mine s) then
        match name_other s with None => set_name_other (Some b) s | Some _ => s end
      else s
  | LSupTake =>
      match my_sup s, sup s with
      | Some x, Some p =>
          if x =? p then
            set_my_sup None (match sgn s with SigNone => set_sgn SigPending s | _ => s end)
          else s
      | _, _ => s
      end
  end.

Definition exec (ls : list label) (s : st) : st := fold_left (fun s l => step l s) ls s.

(* a spawn request: named?, supervisor?, thread-local order?, the pre_start script; the rest is
   the environment at the time of the request; rem = the cell gets a remote id *)
Definition init (nm : bool) (sp : option aid) (loc : bool) (scr : list eff) (f : fin)
                (holder : option aid) (sst : N) (scl : bool) (rem : bool) : st :=
  mkSt P0 scr f false nm sp loc 0 SigNone false false holder false [] [] None (Some []) [] O [] true [] [] [] O sst scl rem.

(* nothing of `a` is left: the oracle of C08 *)
Definition residue_free (s : st) : bool :=
  (status s =? 6) && forallb snd (waiters s)
  && negb (name_mine s) && negb (pid_mine s)
  && match groups s, mons s with [], [] => true | _, _ => false end
  && match my_sup s, my_children s with None, None => true | _, _ => false end
  && Nat.eqb (events s) 0 && Nat.eqb (ran s) 0
  && match mailbox s with [] => true | _ => false end && negb (ports_open s)
  && forallb (fun c => mem c (closed_calls s)) (accepted s).

(* ---- what the harness observes of `a` through public APIs, as one record ---------------- *)
Record obs := mkObs {
  o_status : N;               (* ActorStatus as u8 *)
  o_waiters_released : bool;  (* every wait() issued so far has returned *)
  o_name_mine : bool;         (* registry::where_is(name) == a *)
  o_pid_mine : bool;          (* registry::where_is_pid(id) == a *)
  o_groups : nat;             (* number of probed groups listing a as member *)
  o_mons : nat;               (* number of probed groups that still notify a *)
  o_in_sup_children : bool;   (* some probed supervisor lists a in get_children() *)
  o_has_sup : bool;           (* a.try_get_supervisor().is_some() *)
  o_children : nat;           (* a.get_children().len() *)
  o_events : nat;             (* lifecycle events about a in the probed supervisors' logs *)
  o_ran : nat;                (* callbacks of a other than pre_start that were entered *)
  o_calls_open : nat;         (* calls accepted by a that neither got a reply nor a closed port *)
  o_send_accepted : bool;     (* a probe message is still accepted *)
  o_holder : bool;            (* the name is held by an actor other than a, which is Running *)
  o_orphans : nat             (* children created by a's pre_start that are alive but no longer linked to a *)
}.

Definition check_C08 (o : obs) : bool :=
  (o_status o =? 6) && o_waiters_released o && negb (o_name_mine o) && negb (o_pid_mine o)
  && Nat.eqb (o_groups o) 0 && Nat.eqb (o_mons o) 0
  && negb (o_in_sup_children o) && negb (o_has_sup o) && Nat.eqb (o_children o) 0
  && Nat.eqb (o_events o) 0 && Nat.eqb (o_ran o) 0 && Nat.eqb (o_calls_open o) 0
  && negb (o_send_accepted o) && Nat.eqb (o_orphans o) 0.

(* ... and, when another live actor owns the name the failed spawn carried, that holder is intact *)
Definition check_C08_holder (o : obs) : bool := check_C08 o && o_holder o.

(* a spawn refused because the name is taken: nothing of a exists and the holder is intact *)
Definition check_clash (o : obs) : bool :=
  o_holder o && (o_status o =? 0) && negb (o_name_mine o) && negb (o_pid_mine o)
  && Nat.eqb (o_groups o) 0 && Nat.eqb (o_mons o) 0 && negb (o_in_sup_children o)
  && Nat.eqb (o_events o) 0 && Nat.eqb (o_ran o) 0 && Nat.eqb (o_calls_open o) 0 && negb (o_send_accepted o).

Definition count_open (s : st) : nat :=
  length (filter (fun c => negb (mem c (closed_calls s))) (accepted s)).

Definition observe (s : st) : obs :=
  mkObs (status s) (forallb snd (waiters s)) (name_mine s) (pid_mine s)
        (length (groups s)) (length (mons s))
        (match my_sup s with Some _ => true | None => false end)
        (match my_sup s with Some _ => true | None => false end)
        (match my_children s with Some l => length l | None => O end)
        (events s) (ran s) (count_open s)
        (exists_cell s && (status s <? 4) && ports_open s)
        (match name_other s with Some _ => true | None => false end) O.

(* the model's answer for a scenario: the observation after each chunk of labels (one chunk per
   settle of the harness) *)
Fixpoint run_chunks (chunks : list (list label)) (s : st) : list obs :=
  match chunks with
  | [] => []
  | c :: t => let s' := exec c s in observe s' :: run_chunks t s'
  end.
