(* Executable statements of C01 / C03 / C04 over event traces (both the model's
   and the implementation's traces are judged by these functions). *)
From Coq Require Import List Arith Bool.
From RV Require Import Loop.World.
Import ListNotations.

(* ---------- decidable equalities ---------- *)
Definition onat_eqb (a b : option nat) : bool :=
  match a, b with
  | Some x, Some y => Nat.eqb x y
  | None, None => true
  | _, _ => false
  end.

Definition supevt_eqb (a b : supevt) : bool :=
  match a, b with
  | SStarted x, SStarted y => Nat.eqb x y
  | STerminated x s r, STerminated y s' r' => Nat.eqb x y && Bool.eqb s s' && onat_eqb r r'
  | SFailed x t, SFailed y t' => Nat.eqb x y && Nat.eqb t t'
  | _, _ => false
  end.

Definition cb_eqb (a b : cb) : bool :=
  match a, b with
  | PreStart, PreStart | PostStart, PostStart | PostStop, PostStop => true
  | Handle m, Handle m' => Nat.eqb m m'
  | Sup e, Sup e' => supevt_eqb e e'
  | _, _ => false
  end.

Definition is_ok (f : fin) : bool := match f with ROk => true | _ => false end.

(* ---------- the per-actor lifecycle recogniser (C01 + C03) ---------- *)

Inductive phase :=
| P0            (* nothing has run *)
| PPre          (* inside pre_start *)
| PPreOk        (* pre_start returned Ok *)
| PPs           (* inside post_start *)
| PRun          (* between handlers *)
| PH (c : cb)   (* inside a message / supervision handler *)
| PPost         (* inside post_stop *)
| PEnd.         (* no callback may start any more *)

Record ast := mkAst {
  s_phase : phase;
  s_grace : bool;     (* a stop or drain of this actor has been requested *)
  s_stopreq : bool;   (* stop() on this actor has returned *)
  s_killed : bool;    (* kill() on this actor has returned *)
  s_parked : bool     (* the running callback is suspended at a gate *)
}.

Definition ast0 := mkAst P0 false false false false.

(* error codes: 1x = C01 (lifecycle order), 3x = C03 (priorities) *)
Inductive verdict := Go (s : ast) | Bad (code : nat).

Definition set_phase (s : ast) (p : phase) : ast :=
  mkAst p (s_grace s) (s_stopreq s) (s_killed s) false.

Definition astep (i : nat) (s : ast) (e : tev) : verdict :=
  match e with
  | TEnter j c =>
    if negb (Nat.eqb i j) then Go s else
    if s_killed s then (match c with PostStop => Bad 17 | _ => Bad 31 end) else   (* a callback started after kill() returned; 17: post_stop after a kill (C01 and C03) *)
    match s_phase s, c with
    | P0, PreStart => Go (set_phase s PPre)
    | PPreOk, PostStart => Go (set_phase s PPs)
    | PRun, Handle _ | PRun, Sup _ =>
        if s_stopreq s then Bad 32 else Go (set_phase s (PH c))   (* handler started after stop() returned *)
    | PRun, PostStop => if s_grace s then Go (set_phase s PPost) else Bad 12  (* post_stop without graceful cause *)
    | _, _ => Bad 11                                      (* overlap or out of lifecycle order *)
    end
  | TTick j =>
    if negb (Nat.eqb i j) then Go s else
    if s_killed s && s_parked s then Bad 33 else          (* progress past a suspension point after kill *)
    match s_phase s with
    | PPre | PPs | PH _ | PPost => Go (set_phase s (s_phase s))
    | _ => Bad 13
    end
  | TPark j _ =>
    if negb (Nat.eqb i j) then Go s else
    match s_phase s with
    | PPre | PPs | PH _ | PPost => Go (mkAst (s_phase s) (s_grace s) (s_stopreq s) (s_killed s) true)
    | _ => Bad 13
    end
  | TWake j _ =>
    if negb (Nat.eqb i j) then Go s else
    if s_killed s && s_parked s then Bad 33 else
    match s_phase s with
    | PPre | PPs | PH _ | PPost => Go (set_phase s (s_phase s))
    | _ => Bad 13
    end
  | TExit j c f =>
    if negb (Nat.eqb i j) then Go s else
    if s_killed s && s_parked s then Bad 33 else
    match s_phase s, c with
    | PPre, PreStart => Go (set_phase s (if is_ok f then PPreOk else PEnd))
    | PPs, PostStart => Go (set_phase s (if is_ok f then PRun else PEnd))
    | PH c0, _ => if cb_eqb c0 c then Go (set_phase s (if is_ok f then PRun else PEnd)) else Bad 14
    | PPost, PostStop => Go (set_phase s PEnd)
    | _, _ => Bad 14
    end
  | TCancel j c =>
    if negb (Nat.eqb i j) then Go s else
    match s_phase s, c with
    | PPre, PreStart | PPs, PostStart | PPost, PostStop => Go (set_phase s PEnd)
    | PH c0, _ => if cb_eqb c0 c then Go (set_phase s PEnd) else Bad 14
    | _, _ => Bad 14
    end
  | TSpawnRet j ok =>
    if negb (Nat.eqb i j) then Go s else
    match s_phase s, ok with
    | P0, true | PPre, true => Bad 15                     (* start() reported Ok before pre_start returned *)
    | _, true => Go s                                     (* (the spawner may observe the result late) *)
    | PPreOk, false | P0, false | PEnd, false => Go (set_phase s PEnd)
    | _, false => Bad 15
    end
  | TJoin j =>
    if negb (Nat.eqb i j) then Go s else
    match s_phase s with
    | P0 | PPreOk | PRun | PEnd => Go (set_phase s PEnd)
    | _ => Bad 16                                         (* the task ended inside an un-cancelled callback *)
    end
  | TAborted j =>
    if negb (Nat.eqb i j) then Go s else
    match s_phase s with
    | P0 | PPreOk | PRun | PEnd => Go (set_phase s PEnd)
    | _ => Go s                                           (* the running callback is cancelled next *)
    end
  | TKillReq j =>
    if Nat.eqb i j then Go (mkAst (s_phase s) (s_grace s) (s_stopreq s) true (s_parked s)) else Go s
  | TStopReq j _ =>
    if Nat.eqb i j then Go (mkAst (s_phase s) true true (s_killed s) (s_parked s)) else Go s
  | TDrainReq j =>
    if Nat.eqb i j then Go (mkAst (s_phase s) true (s_stopreq s) (s_killed s) (s_parked s)) else Go s
  | TSent _ _ _ => Go s
  end.

Fixpoint arun (i : nat) (s : ast) (es : list tev) : verdict :=
  match es with
  | [] => Go s
  | e :: t => match astep i s e with Go s' => arun i s' t | Bad c => Bad c end
  end.

Definition code_of (v : verdict) : nat := match v with Go _ => 0 | Bad c => c end.

(* C01: no lifecycle-order violation for any of the first n actors *)
Definition check_C01 (n : nat) (t : list tev) : bool :=
  forallb (fun i => let c := code_of (arun i ast0 t) in negb (Nat.leb 10 c && Nat.ltb c 20)) (seq 0 n).

(* C03: no priority violation (kill / stop clauses) *)
Definition check_C03 (n : nat) (t : list tev) : bool :=
  forallb (fun i => let c := code_of (arun i ast0 t) in negb (Nat.leb 30 c && Nat.ltb c 40)) (seq 0 n).

Definition check_life (n : nat) (t : list tev) : bool :=
  forallb (fun i => Nat.eqb (code_of (arun i ast0 t)) 0) (seq 0 n).

(* ---------- C03: the biased pick ---------- *)
Inductive picked := PkSignal | PkStop (r : option nat) | PkSup (e : supevt) | PkMsg (m : mux) | PkNone.

Definition pick (a : actor) : picked :=
  if a_sig a then PkSignal else
  match a_stop a with
  | Some r => PkStop r
  | None => match a_supq a with
            | e :: _ => PkSup e
            | [] => match a_msgq a with m :: _ => PkMsg m | [] => PkNone end
            end
  end.

(* ---------- C04: supervision events ---------- *)

Definition about (e : supevt) : nat :=
  match e with SStarted w | STerminated w _ _ | SFailed w _ => w end.
Definition is_terminal (e : supevt) : bool :=
  match e with SStarted _ => false | _ => true end.

(* what actor c's own callback events say about how it ended *)
Inductive ending := EndNone | EndFailed (t : nat) | EndGraceful | EndStartFailed.

Fixpoint ending_of (c : nat) (t : list tev) (acc : ending) : ending :=
  match t with
  | [] => acc
  | e :: r =>
    let acc' :=
      match e with
      | TExit j cbk f =>
        if Nat.eqb j c then
          match cbk, f with
          | PreStart, ROk => acc
          | PreStart, _ => EndStartFailed
          | _, RErr x | _, RPanic x => EndFailed x
          | PostStop, ROk => EndGraceful
          | _, ROk => acc
          end
        else acc
      | TCancel j PreStart => if Nat.eqb j c then EndStartFailed else acc
      | TSpawnRet j false => if Nat.eqb j c then EndStartFailed else acc
      | _ => acc
      end in
    ending_of c r acc'
  end.

Definition has_ev (p : tev -> bool) (t : list tev) : bool := existsb p t.

Definition count_sup (s : nat) (p : supevt -> bool) (t : list tev) : nat :=
  length (filter (fun e => match e with TEnter j (Sup x) => Nat.eqb j s && p x | _ => false end) t).

Definition post_start_ok (c : nat) (t : list tev) : bool :=
  has_ev (fun e => match e with TExit j PostStart ROk => Nat.eqb j c | _ => false end) t.

(* one supervision event x that supervisor s starts to handle, judged against everything
   logged before (seen):
   - only from an actor spawn-linked to s;
   - ActorStarted: post_start returned Ok, and nothing about that child was handled before;
   - terminal: no terminal event about that child was handled before (at most once), and the
     classification matches how the child's own callbacks ended:
       failure text for Err/panic; (no state, "killed") only if kill() was called on it and it
       neither failed nor completed post_stop; (no state, "actor_task_cancelled") only if its task
       was aborted; (state, reason) only if post_stop returned Ok, with "Drained" only if a drain
       was requested and any other reason only if stop() was called with that reason.
   [locals]: which actors are thread-local (ractor/src/thread_local/inner.rs).  Their State is
   not Send and the runtime documents that it therefore never boxes it into the event: for a
   thread-local child the graceful ActorTerminated carries NO state (and one that did carry a
   state is rejected); nothing else differs. *)
Definition judge_sup (links : list (option nat)) (locals : list bool) (seen : list tev) (s : nat) (x : supevt) : bool :=
  let c := about x in
  onat_eqb (nth c links None) (Some s)
  && match x with
     | SStarted _ =>
         post_start_ok c seen
         && Nat.eqb (count_sup s (fun y => Nat.eqb (about y) c) seen) 0
     | STerminated _ st reason =>
         Nat.eqb (count_sup s (fun y => is_terminal y && Nat.eqb (about y) c) seen) 0
         && match ending_of c seen EndNone, st, reason with
            | EndGraceful, st', Some 1 =>
                (* "Drained": a drain was requested, or a stop that carried this very reason *)
                Bool.eqb st' (negb (nth c locals false))
                && (has_ev (fun e => match e with TDrainReq j => Nat.eqb j c | _ => false end) seen
                    || has_ev (fun e => match e with TStopReq j r' => Nat.eqb j c && onat_eqb (Some 1) r' | _ => false end) seen)
            | EndGraceful, st', r =>
                Bool.eqb st' (negb (nth c locals false))
                && has_ev (fun e => match e with TStopReq j r' => Nat.eqb j c && onat_eqb r r' | _ => false end) seen
            | EndNone, false, Some 0 =>
                has_ev (fun e => match e with TKillReq j => Nat.eqb j c | _ => false end) seen
            | EndNone, false, Some 2 =>
                has_ev (fun e => match e with TAborted j => Nat.eqb j c | _ => false end) seen
            | _, _, _ => false
            end
     | SFailed _ txt =>
         Nat.eqb (count_sup s (fun y => is_terminal y && Nat.eqb (about y) c) seen) 0
         && match ending_of c seen EndNone with
            | EndFailed t0 => Nat.eqb t0 txt
            | _ => false
            end
     end.

Fixpoint check_C04_go (links : list (option nat)) (locals : list bool) (seen : list tev) (t : list tev) : bool :=
  match t with
  | [] => true
  | e :: r =>
    match e with
    | TEnter s (Sup x) => judge_sup links locals seen s x
    | _ => true
    end && check_C04_go links locals (seen ++ [e]) r
  end.

Definition check_C04 (links : list (option nat)) (locals : list bool) (t : list tev) : bool :=
  check_C04_go links locals [] t.

(* verdict codes of all actors (0 = accepted); used to report which rule failed *)
Definition codes (n : nat) (t : list tev) : list nat :=
  map (fun i => code_of (arun i ast0 t)) (seq 0 n).

(* ---------- C04, the "at least once" half, for complete (quiescent) traces ---------- *)
(* If child c was started successfully (start() returned Ok, so it was linked to its supervisor s
   and marked running) and has ended (its task completed or was aborted), and at the end of the
   trace s is alive and idle between handlers, then s has handled a terminal event about c. *)
Definition ended (c : nat) (t : list tev) : bool :=
  has_ev (fun e => match e with TJoin j | TAborted j => Nat.eqb j c | _ => false end) t.
Definition started_ok (c : nat) (t : list tev) : bool :=
  has_ev (fun e => match e with TSpawnRet j true => Nat.eqb j c | _ => false end) t.
Definition idle_alive_at_end (s : nat) (t : list tev) : bool :=
  match arun s ast0 t with
  | Go st => match s_phase st with PRun => negb (s_stopreq st) && negb (s_killed st) && negb (s_grace st) | _ => false end
  | Bad _ => false
  end.

Definition check_C04_complete (links : list (option nat)) (t : list tev) : bool :=
  forallb (fun c =>
    match nth c links None with
    | Some s =>
      if started_ok c t && ended c t && idle_alive_at_end s t
      then Nat.ltb 0 (count_sup s (fun y => is_terminal y && Nat.eqb (about y) c) t)
      else true
    | None => true
    end) (seq 0 (length links)).

(* ---------- C03: supervision before messages, on traces ---------- *)
(* When supervisor s starts a MESSAGE handler, every ActorStarted event that had already been sent
   to it (the child c is spawn-linked to s and its post_start has returned Ok earlier in the trace)
   has already been handled by s: a pending supervision event is never overtaken by a user message. *)
Fixpoint check_C03_sup_first_go (links : list (option nat)) (seen : list tev) (t : list tev) : bool :=
  match t with
  | [] => true
  | e :: r =>
    match e with
    | TEnter s (Handle _) =>
        forallb (fun c =>
          match nth c links None with
          | Some s' => negb (Nat.eqb s s') || negb (post_start_ok c seen)
                       || Nat.ltb 0 (count_sup s (fun y => Nat.eqb (about y) c) seen)
          | None => true
          end) (seq 0 (length links))
    | _ => true
    end && check_C03_sup_first_go links (seen ++ [e]) r
  end.
Definition check_C03_sup_first (links : list (option nat)) (t : list tev) : bool :=
  check_C03_sup_first_go links [] t.

(* ---------- C04/C03: a terminal event is delivered before any later user message ---------- *)
(* child c has logged the end of its last callback: post_stop returned, a callback after pre_start
   failed, or a callback after pre_start was cancelled (kill / abort); its cleanup notifies the
   supervisor in the same step, so the event is in the supervisor's queue from then on *)
Definition callbacks_over (c : nat) (t : list tev) : bool :=
  has_ev (fun e => match e with
                   | TExit j PostStop _ => Nat.eqb j c
                   | TExit j PreStart _ => false
                   | TExit j _ (RErr _) | TExit j _ (RPanic _) => Nat.eqb j c
                   | TCancel j PreStart => false
                   | TCancel j _ => Nat.eqb j c
                   | _ => false end) t.
Definition entered_post_start (c : nat) (t : list tev) : bool :=
  has_ev (fun e => match e with TEnter j PostStart => Nat.eqb j c | _ => false end) t.

(* whenever supervisor s starts a MESSAGE handler, every child spawn-linked to s whose loop task
   ran (post_start was entered) and whose callbacks are over has had its terminal event handled *)
Fixpoint check_C04_terminal_first_go (links : list (option nat)) (seen : list tev) (t : list tev) : bool :=
  match t with
  | [] => true
  | e :: r =>
    match e with
    | TEnter s (Handle _) =>
        forallb (fun c =>
          match nth c links None with
          | Some s' => negb (Nat.eqb s s') || negb (entered_post_start c seen && callbacks_over c seen)
                       || Nat.ltb 0 (count_sup s (fun y => is_terminal y && Nat.eqb (about y) c) seen)
          | None => true
          end) (seq 0 (length links))
    | _ => true
    end && check_C04_terminal_first_go links (seen ++ [e]) r
  end.
Definition check_C04_terminal_first (links : list (option nat)) (t : list tev) : bool :=
  check_C04_terminal_first_go links [] t.

(* ---------- C04: a failing callback never escapes the actor (settled traces) ---------- *)
(* an actor whose spawn returned Ok and one of whose callbacks after pre_start returned Err or
   panicked has, once everything has settled, a join handle that completed normally (TJoin is only
   logged for Ok(..) of the JoinHandle) - unless the harness itself aborted the task *)
Definition failed_cb (c : nat) (t : list tev) : bool :=
  has_ev (fun e => match e with
                   | TExit j PreStart _ => false
                   | TExit j _ (RErr _) | TExit j _ (RPanic _) => Nat.eqb j c
                   | _ => false end) t.
Definition check_C04_join (n : nat) (t : list tev) : bool :=
  forallb (fun c => negb (started_ok c t && failed_cb c t) || ended c t) (seq 0 n).

(* the same for a callback after pre_start that was cancelled by a kill: the kill never escapes
   the actor either (seeded regression C04-5: a kill during handle_supervisor_evt classified as a
   stop made the loop re-poll the consumed signal and panic outside every catch_unwind) *)
Definition cancelled_cb (c : nat) (t : list tev) : bool :=
  has_ev (fun e => match e with
                   | TCancel j PreStart => false
                   | TCancel j _ => Nat.eqb j c
                   | _ => false end) t.
Definition check_C04_join_cancel (n : nat) (t : list tev) : bool :=
  forallb (fun c => negb (started_ok c t && cancelled_cb c t) || ended c t) (seq 0 n).

(* ---------- C04: ActorStarted is delivered before the terminal event ---------- *)
(* when supervisor s starts to handle a terminal event about a child c spawn-linked to it whose
   post_start had returned Ok, it has already handled ActorStarted(c) (seeded regression C04-7:
   ActorStarted suppressed when a drain overtook post_start) *)
Fixpoint check_C04_started_first_go (links : list (option nat)) (seen : list tev) (t : list tev) : bool :=
  match t with
  | [] => true
  | e :: r =>
    match e with
    | TEnter s (Sup x) =>
        let c := about x in
        negb (is_terminal x) || negb (onat_eqb (nth c links None) (Some s)) || negb (post_start_ok c seen)
        || Nat.ltb 0 (count_sup s (fun y => negb (is_terminal y) && Nat.eqb (about y) c) seen)
    | _ => true
    end && check_C04_started_first_go links (seen ++ [e]) r
  end.
Definition check_C04_started_first (links : list (option nat)) (t : list tev) : bool :=
  check_C04_started_first_go links [] t.
