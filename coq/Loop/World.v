(* Model of the actor runtime of ractor/src/actor.rs (ActorRuntime::start,
   processing_loop, process_message, ActorLifecycleGuard), the four prioritised
   ports of ractor/src/actor/actor_cell.rs (listen_in_priority, run_with_signal),
   and the part of the supervision tree needed to route lifecycle events
   (ractor/src/actor/supervision.rs: link at start, take_children/terminate,
   notify_supervisor, unlink).

   A world is a finite list of actors; every step is a label: a driver operation
   on some actor (spawn/send/stop/kill/drain/open gate/abort) or one poll of one
   actor's task.  An arbitrary label list is an arbitrary schedule.
   User callbacks are scripts (data).  Definitions only; proofs in WorldProofs.v. *)
From Coq Require Import List Arith Bool.
Import ListNotations.

(* ---------- vocabulary ---------- *)

(* exit reasons: None | Some 0 "killed" | Some 1 "Drained" | Some 2 "actor_task_cancelled"
   | Some (10+k) user-supplied reason k *)
Definition R_KILLED := 0.
Definition R_DRAINED := 1.
Definition R_CANCELLED := 2.

Inductive supevt :=
| SStarted (who : nat)
| STerminated (who : nat) (has_state : bool) (reason : option nat)
| SFailed (who : nat) (txt : nat).

Inductive cb := PreStart | PostStart | Handle (m : nat) | Sup (e : supevt) | PostStop.
Inductive fin := ROk | RErr (txt : nat) | RPanic (txt : nat).

Inductive eff :=
| EGate (g : nat)                      (* await a harness-owned gate: the only suspension point *)
| ETick                                (* observable progress *)
| ESend (a m : nat)
| EStop (a : nat) (r : option nat)
| EKill (a : nat)
| EDrain (a : nat).

Definition script := (list eff * fin)%type.
Inductive mux := Msg (m : nat) | Marker.

Inductive supmode := SupDefault | SupScript (s : script).

Record cfg := mkCfg {
  c_pre : script; c_ps : script; c_stop : script;
  c_sup : supmode;
  c_link : option nat;           (* spawn_linked: the supervisor *)
  c_local : bool                 (* hosted on a ThreadLocalActorSpawner (ractor/src/thread_local/inner.rs):
                                    start() links BEFORE pre_start, and the final state (not Send) is
                                    never reported to the supervisor *)
}.

Inductive pc :=
| NotCreated                              (* no cell yet *)
| NotStarted                              (* cell exists, start() not yet polled *)
| Spawned                                 (* start() returned Ok; loop task not yet polled *)
| InCb (c : cb) (rest : list eff) (f : fin) (parked : bool)
| Idle
| Done.

(* status ranks: 0 Unstarted 1 Starting 2 Running 3 Upgrading 4 Draining 5 Stopping 6 Stopped *)
Record actor := mkActor {
  a_status : nat;
  a_sig : bool; a_sig_taken : bool;             (* oneshot signal port: pending / sender used *)
  a_stop : option (option nat); a_stop_taken : bool;
  a_supq : list supevt;
  a_msgq : list mux;
  a_ports : bool;                               (* receivers alive *)
  a_closed : bool; a_marker : bool;             (* message admission closed / marker sent *)
  a_pc : pc;
  a_armed : bool; a_notify : bool;              (* lifecycle guard *)
  a_reason : option nat;                        (* exit reason captured by the loop *)
  a_sup : option nat;
  a_kids : option (list nat);
  a_cfg : cfg
}.

Inductive tev :=
| TEnter (a : nat) (c : cb)
| TTick (a : nat)
| TPark (a : nat) (g : nat)
| TWake (a : nat) (g : nat)             (* a parked callback got past its gate *)
| TExit (a : nat) (c : cb) (f : fin)
| TCancel (a : nat) (c : cb)            (* the callback's future was dropped before completion *)
| TSpawnRet (a : nat) (ok : bool)       (* start() returned to the spawner *)
| TJoin (a : nat)                       (* the actor task ran to completion *)
| TAborted (a : nat)                    (* the task driving the actor was cancelled *)
| TKillReq (a : nat) | TStopReq (a : nat) (r : option nat) | TDrainReq (a : nat)   (* the call was made *)
| TSent (a m : nat) (ok : bool).

Record world := mkWorld {
  w_actors : list actor;
  w_open : list nat;
  w_msgs : list (nat * script);
  w_trace : list tev                   (* newest first *)
}.

(* ---------- record updates ---------- *)

Definition upd_status (a : actor) (s : nat) : actor :=
  mkActor (Nat.max (a_status a) s) (a_sig a) (a_sig_taken a) (a_stop a) (a_stop_taken a) (a_supq a)
    (a_msgq a) (a_ports a) (a_closed a) (a_marker a) (a_pc a) (a_armed a) (a_notify a)
    (a_reason a) (a_sup a) (a_kids a) (a_cfg a).
Definition upd_sig (a : actor) (p t : bool) : actor :=
  mkActor (a_status a) p t (a_stop a) (a_stop_taken a) (a_supq a)
    (a_msgq a) (a_ports a) (a_closed a) (a_marker a) (a_pc a) (a_armed a) (a_notify a)
    (a_reason a) (a_sup a) (a_kids a) (a_cfg a).
Definition upd_stop (a : actor) (p : option (option nat)) (t : bool) : actor :=
  mkActor (a_status a) (a_sig a) (a_sig_taken a) p t (a_supq a)
    (a_msgq a) (a_ports a) (a_closed a) (a_marker a) (a_pc a) (a_armed a) (a_notify a)
    (a_reason a) (a_sup a) (a_kids a) (a_cfg a).
Definition upd_supq (a : actor) (q : list supevt) : actor :=
  mkActor (a_status a) (a_sig a) (a_sig_taken a) (a_stop a) (a_stop_taken a) q
    (a_msgq a) (a_ports a) (a_closed a) (a_marker a) (a_pc a) (a_armed a) (a_notify a)
    (a_reason a) (a_sup a) (a_kids a) (a_cfg a).
Definition upd_msgq (a : actor) (q : list mux) : actor :=
  mkActor (a_status a) (a_sig a) (a_sig_taken a) (a_stop a) (a_stop_taken a) (a_supq a)
    q (a_ports a) (a_closed a) (a_marker a) (a_pc a) (a_armed a) (a_notify a)
    (a_reason a) (a_sup a) (a_kids a) (a_cfg a).
Definition upd_adm (a : actor) (c m : bool) : actor :=
  mkActor (a_status a) (a_sig a) (a_sig_taken a) (a_stop a) (a_stop_taken a) (a_supq a)
    (a_msgq a) (a_ports a) c m (a_pc a) (a_armed a) (a_notify a)
    (a_reason a) (a_sup a) (a_kids a) (a_cfg a).
Definition upd_pc (a : actor) (p : pc) : actor :=
  mkActor (a_status a) (a_sig a) (a_sig_taken a) (a_stop a) (a_stop_taken a) (a_supq a)
    (a_msgq a) (a_ports a) (a_closed a) (a_marker a) p (a_armed a) (a_notify a)
    (a_reason a) (a_sup a) (a_kids a) (a_cfg a).
Definition upd_notify (a : actor) (n : bool) : actor :=
  mkActor (a_status a) (a_sig a) (a_sig_taken a) (a_stop a) (a_stop_taken a) (a_supq a)
    (a_msgq a) (a_ports a) (a_closed a) (a_marker a) (a_pc a) (a_armed a) n
    (a_reason a) (a_sup a) (a_kids a) (a_cfg a).
Definition upd_reason (a : actor) (r : option nat) : actor :=
  mkActor (a_status a) (a_sig a) (a_sig_taken a) (a_stop a) (a_stop_taken a) (a_supq a)
    (a_msgq a) (a_ports a) (a_closed a) (a_marker a) (a_pc a) (a_armed a) (a_notify a)
    r (a_sup a) (a_kids a) (a_cfg a).
Definition upd_sup (a : actor) (s : option nat) : actor :=
  mkActor (a_status a) (a_sig a) (a_sig_taken a) (a_stop a) (a_stop_taken a) (a_supq a)
    (a_msgq a) (a_ports a) (a_closed a) (a_marker a) (a_pc a) (a_armed a) (a_notify a)
    (a_reason a) s (a_kids a) (a_cfg a).
Definition upd_kids (a : actor) (k : option (list nat)) : actor :=
  mkActor (a_status a) (a_sig a) (a_sig_taken a) (a_stop a) (a_stop_taken a) (a_supq a)
    (a_msgq a) (a_ports a) (a_closed a) (a_marker a) (a_pc a) (a_armed a) (a_notify a)
    (a_reason a) (a_sup a) k (a_cfg a).
(* the final cleanup: status Stopped, guard disarmed, ports dropped, pc Done *)
Definition upd_dead (a : actor) : actor :=
  mkActor (Nat.max (a_status a) 6) (a_sig a) (a_sig_taken a) (a_stop a) (a_stop_taken a) (a_supq a)
    (a_msgq a) false (a_closed a) (a_marker a) Done false (a_notify a)
    (a_reason a) (a_sup a) (a_kids a) (a_cfg a).

Fixpoint upd_nth {A} (l : list A) (i : nat) (f : A -> A) : list A :=
  match l, i with
  | [], _ => []
  | x :: t, O => f x :: t
  | x :: t, S j => x :: upd_nth t j f
  end.

Definition get (w : world) (i : nat) : option actor := nth_error (w_actors w) i.
Definition upd (w : world) (i : nat) (f : actor -> actor) : world :=
  mkWorld (upd_nth (w_actors w) i f) (w_open w) (w_msgs w) (w_trace w).
Definition emit (w : world) (e : tev) : world :=
  mkWorld (w_actors w) (w_open w) (w_msgs w) (e :: w_trace w).
Definition is_open (w : world) (g : nat) : bool := existsb (Nat.eqb g) (w_open w).

Fixpoint lookup (l : list (nat * script)) (m : nat) : script :=
  match l with
  | [] => ([], ROk)
  | (k, s) :: t => if Nat.eqb k m then s else lookup t m
  end.

Definition created (a : actor) : bool :=
  match a_pc a with NotCreated => false | _ => true end.

(* ---------- operations on a cell (callable from the driver or from scripts) ---------- *)

(* ActorCell::kill: the oneshot sender is used at most once; lost if the receiver is gone *)
Definition do_kill (w : world) (i : nat) : world :=
  match get w i with
  | Some a =>
    if negb (created a) || a_sig_taken a then w
    else upd w i (fun a => upd_sig a (a_ports a) true)
  | None => w
  end.

Definition do_stop (w : world) (i : nat) (r : option nat) : world :=
  match get w i with
  | Some a =>
    if negb (created a) || a_stop_taken a then w
    else upd w i (fun a => upd_stop a (if a_ports a then Some r else None) true)
  | None => w
  end.

(* send_message at task level: status gate, admission gate, channel open *)
Definition can_send (a : actor) : bool :=
  created a && Nat.ltb (a_status a) 4 && negb (a_closed a) && a_ports a.

Definition do_send (w : world) (i m : nat) : world :=
  match get w i with
  | Some a =>
    if can_send a
    then emit (upd w i (fun a => upd_msgq a (a_msgq a ++ [Msg m]))) (TSent i m true)
    else emit w (TSent i m false)
  | None => w
  end.

(* ActorCell::drain at task level (no concurrent senders in flight) *)
Definition do_drain (w : world) (i : nat) : world :=
  match get w i with
  | Some a =>
    if negb (created a) then w else
    upd w i (fun a =>
      let a1 := if Nat.ltb (a_status a) 5 then upd_status a 4 else a in
      if a_marker a1 then upd_adm a1 true true
      else upd_adm (if a_ports a1 then upd_msgq a1 (a_msgq a1 ++ [Marker]) else a1) true true)
  | None => w
  end.

(* a request as made through a cell handle (driver or script): logged, then performed;
   nothing can be requested of an actor whose cell does not exist yet *)
Definition is_created (w : world) (i : nat) : bool :=
  match get w i with Some a => created a | None => false end.
Definition req_kill (w : world) (i : nat) : world :=
  if is_created w i then do_kill (emit w (TKillReq i)) i else w.
Definition req_stop (w : world) (i : nat) (r : option nat) : world :=
  if is_created w i then do_stop (emit w (TStopReq i r)) i r else w.
Definition req_drain (w : world) (i : nat) : world :=
  if is_created w i then do_drain (emit w (TDrainReq i)) i else w.
Definition req_send (w : world) (i m : nat) : world :=
  if is_created w i then do_send w i m else w.

(* ---------- supervision tree pieces ---------- *)

Definition remove_nat (x : nat) (l : list nat) : list nat :=
  filter (fun y => negb (Nat.eqb x y)) l.

(* SupervisionTree::link(child, supervisor) as used by start(): fresh child, no previous supervisor *)
Definition try_link (w : world) (c s : nat) : world * bool :=
  match get w c, get w s with
  | Some ac, Some asup =>
    if Nat.leb 4 (a_status ac) || Nat.leb 4 (a_status asup) || negb (created asup) then (w, false)
    else match a_kids asup with
         | None => (w, false)
         | Some ks =>
           let w1 := upd w s (fun a => upd_kids a (Some (c :: remove_nat c ks))) in
           (upd w1 c (fun a => upd_sup a (Some s)), true)
         end
  | _, _ => (w, false)
  end.

(* take_children(p): close p's child set, clear the children's supervisor pointer *)
Definition take_children (w : world) (p : nat) : world * list nat :=
  match get w p with
  | Some ap =>
    match a_kids ap with
    | None => (w, [])
    | Some ks =>
      let w1 := upd w p (fun a => upd_kids a None) in
      (fold_left (fun w c => upd w c (fun a =>
          match a_sup a with
          | Some q => if Nat.eqb q p then upd_sup a None else a
          | None => a end)) ks w1, ks)
    end
  | None => (w, [])
  end.

(* ActorCell::terminate: worklist over the subtree; kill every actor not yet stopping *)
Fixpoint terminate_fuel (fuel : nat) (pending : list nat) (w : world) : world :=
  match fuel with
  | O => w
  | S k =>
    match pending with
    | [] => w
    | x :: rest =>
      let w1 := match get w x with
                | Some ax => if Nat.ltb (a_status ax) 5 then do_kill w x else w
                | None => w end in
      let '(w2, ks) := take_children w1 x in
      terminate_fuel k (ks ++ rest) w2
    end
  end.

Definition terminate (w : world) (i : nat) : world :=
  terminate_fuel (2 * length (w_actors w) + 2) [i] w.

(* notify_supervisor: to the current supervisor, if its supervision channel is still open *)
Definition notify_supervisor (w : world) (i : nat) (e : supevt) : world :=
  match get w i with
  | Some a =>
    match a_sup a with
    | Some s =>
      match get w s with
      | Some asup => if a_ports asup then upd w s (fun x => upd_supq x (a_supq x ++ [e])) else w
      | None => w
      end
    | None => w
    end
  | None => w
  end.

Definition unlink_from_supervisor (w : world) (i : nat) : world :=
  match get w i with
  | Some a =>
    match a_sup a with
    | Some s =>
      let w1 := upd w s (fun x => match a_kids x with
                                  | Some ks => upd_kids x (Some (remove_nat i ks))
                                  | None => x end) in
      upd w1 i (fun x => upd_sup x None)
    | None => w
    end
  | None => w
  end.

(* ActorLifecycleGuard::cleanup *)
Definition cleanup (w : world) (i : nat) (e : option supevt) : world :=
  match get w i with
  | Some a =>
    if negb (a_armed a) then w else
    let w1 := upd w i (fun a => upd_status a 5) in
    let w2 := terminate w1 i in
    let w3 := match e with Some e => notify_supervisor w2 i e | None => w2 end in
    let w4 := unlink_from_supervisor w3 i in
    upd w4 i upd_dead
  | None => w
  end.

(* the actor task completes with this event (lifecycle.finish) *)
Definition finish (w : world) (i : nat) (e : supevt) : world :=
  emit (cleanup w i (Some e)) (TJoin i).

(* start() returns Err: the guard is dropped, nothing was marked running *)
Definition start_failed (w : world) (i : nat) : world :=
  emit (cleanup w i None) (TSpawnRet i false).

(* handle_signal = terminate(); then the exit that the phase prescribes.
   [killed_has_state] is the state flag of the event for a kill that lands in the
   message loop (the code reports the state there; see KILLED_IN_LOOP_HAS_STATE). *)
Definition KILLED_IN_LOOP_HAS_STATE := false.

Definition killed_exit (w : world) (i : nat) (c : option cb) : world :=
  let w1 := terminate w i in
  match c with
  | Some PreStart => start_failed w1 i
  | Some PostStart | Some PostStop =>
      finish w1 i (STerminated i false (Some R_KILLED))
  | Some (Handle _) | Some (Sup _) | None =>
      finish (upd w1 i (fun a => upd_status a 5)) i
             (STerminated i KILLED_IN_LOOP_HAS_STATE (Some R_KILLED))
  end.

Definition consume_sig (w : world) (i : nat) : world := upd w i (fun a => upd_sig a false true).

Definition script_of (w : world) (a : actor) (c : cb) : script :=
  match c with
  | PreStart => c_pre (a_cfg a)
  | PostStart => c_ps (a_cfg a)
  | PostStop => c_stop (a_cfg a)
  | Handle m => lookup (w_msgs w) m
  | Sup e =>
    match c_sup (a_cfg a) with
    | SupScript s => s
    | SupDefault => ([], ROk)       (* the default handler's stop(None) is added by [enter] *)
    end
  end.

(* entering callback c of actor i (the biased signal race has already been lost by the signal) *)
Definition enter (w : world) (i : nat) (c : cb) : world :=
  match get w i with
  | Some a =>
    let '(es, f) := script_of w a c in
    let es := match c, c_sup (a_cfg a) with
              | Sup (STerminated _ _ _), SupDefault | Sup (SFailed _ _), SupDefault => [EStop i None]
              | _, _ => es end in
    upd (emit w (TEnter i c)) i (fun a => upd_pc a (InCb c es f false))
  | None => w
  end.

(* try to start callback c: run_with_signal polls the signal port first *)
Definition start_cb (w : world) (i : nat) (c : cb) : world :=
  match get w i with
  | Some a => if a_sig a then killed_exit (consume_sig w i) i (Some c) else enter w i c
  | None => w
  end.

(* what follows a finished callback *)
Definition after_cb (w : world) (i : nat) (c : cb) (f : fin) : world :=
  match get w i with
  | None => w
  | Some a =>
    match c, f with
    | PreStart, ROk =>
      (* a thread-local actor was linked before pre_start (see [seg]) *)
      let '(w1, ok) := match (if c_local (a_cfg a) then None else c_link (a_cfg a)) with
                       | Some s => try_link w i s
                       | None => (w, true) end in
      if ok then emit (upd w1 i (fun a => upd_pc (upd_notify a true) Spawned)) (TSpawnRet i true)
      else start_failed w1 i
    | PreStart, _ => start_failed w i
    | PostStart, ROk =>
      let w1 := upd w i (fun a => upd_pc (upd_status a 2) Idle) in
      notify_supervisor w1 i (SStarted i)
    | PostStart, RErr t | PostStart, RPanic t => finish w i (SFailed i t)
    | Handle _, ROk | Sup _, ROk => upd w i (fun a => upd_pc a Idle)
    | Handle _, RErr t | Handle _, RPanic t | Sup _, RErr t | Sup _, RPanic t =>
      finish (upd w i (fun a => upd_status a 5)) i (SFailed i t)
    | PostStop, ROk => finish w i (STerminated i (negb (c_local (a_cfg a))) (a_reason a))
    | PostStop, RErr t | PostStop, RPanic t => finish w i (SFailed i t)
    end
  end.

(* the loop leaves gracefully: status Stopping, then post_stop (raced with the signal) *)
Definition graceful_exit (w : world) (i : nat) (r : option nat) : world :=
  start_cb (upd w i (fun a => upd_status (upd_reason a r) 5)) i PostStop.

(* one effect of a running script *)
Definition do_eff (w : world) (e : eff) : world :=
  match e with
  | EGate _ => w
  | ETick => w
  | ESend b m => req_send w b m
  | EStop b r => req_stop w b r
  | EKill b => req_kill w b
  | EDrain b => req_drain w b
  end.

(* one segment of a poll of actor i; returns (world, continue?) *)
Definition seg (w : world) (i : nat) : world * bool :=
  match get w i with
  | None => (w, false)
  | Some a =>
    match a_pc a with
    | NotCreated | Done => (w, false)
    | NotStarted =>
      if negb (Nat.eqb (a_status a) 0) then (start_failed w i, false)   (* ActorAlreadyStarted *)
      else
        let w0 := upd w i (fun a => upd_status a 1) in
        (* thread-local start(): "setup supervision synchronously", then the builder runs pre_start *)
        let '(w1, ok) := match (if c_local (a_cfg a) then c_link (a_cfg a) else None) with
                         | Some s => try_link w0 i s
                         | None => (w0, true) end in
        if ok then (start_cb w1 i PreStart, true) else (start_failed w1 i, false)
    | Spawned => (start_cb w i PostStart, true)
    | InCb c rest f parked =>
      match rest with
      | [] =>
        (* start() returning hands over to a freshly spawned loop task: a scheduling boundary *)
        (after_cb (emit w (TExit i c f)) i c f, match c with PreStart => false | _ => true end)
      | EGate g :: r =>
        if is_open w g then
          (upd (if parked then emit w (TWake i g) else w) i (fun a => upd_pc a (InCb c r f false)), true)
        else if parked then (w, false)
        else (upd (emit w (TPark i g)) i (fun a => upd_pc a (InCb c rest f true)), false)
      | ETick :: r => (upd (emit w (TTick i)) i (fun a => upd_pc a (InCb c r f false)), true)
      | e :: r => (do_eff (upd w i (fun a => upd_pc a (InCb c r f false))) e, true)
      end
    | Idle =>
      (* listen_in_priority, biased: signal, stop, supervision, message *)
      if a_sig a then (killed_exit (consume_sig w i) i None, false)
      else match a_stop a with
      | Some r => (graceful_exit (upd w i (fun a => upd_stop a None true)) i r, true)
      | None =>
        match a_supq a with
        | e :: t => (start_cb (upd w i (fun a => upd_supq a t)) i (Sup e), true)
        | [] =>
          match a_msgq a with
          | Msg m :: t => (start_cb (upd w i (fun a => upd_msgq a t)) i (Handle m), true)
          | Marker :: t => (graceful_exit (upd w i (fun a => upd_msgq a t)) i (Some R_DRAINED), true)
          | [] => (w, false)
          end
        end
      end
    end
  end.

(* resuming a parked callback: the signal is raced first *)
Definition resume (w : world) (i : nat) : world * bool :=
  match get w i with
  | Some a =>
    match a_pc a with
    | InCb c _ _ _ =>
      if a_sig a then (killed_exit (emit (consume_sig w i) (TCancel i c)) i (Some c), false)
      else (w, true)
    | _ => (w, true)
    end
  | None => (w, false)
  end.

Fixpoint segs (fuel : nat) (w : world) (i : nat) : world :=
  match fuel with
  | O => w
  | S k => let '(w', go) := seg w i in if go then segs k w' i else w'
  end.

Definition poll (fuel : nat) (w : world) (i : nat) : world :=
  let '(w', go) := resume w i in if go then segs fuel w' i else w'.

(* JoinHandle::abort / dropping the start future while the task is at an await point *)
Definition abort (w : world) (i : nat) : world :=
  match get w i with
  | Some a =>
    let ev := if a_notify a then Some (STerminated i false (Some R_CANCELLED)) else None in
    match a_pc a with
    | InCb c _ _ true => cleanup (emit (emit w (TAborted i)) (TCancel i c)) i ev
    | Idle | NotStarted | Spawned => cleanup (emit w (TAborted i)) i ev
    | _ => w
    end
  | None => w
  end.

Inductive label :=
| LSpawn (a : nat)
| LSend (a m : nat)
| LStop (a : nat) (r : option nat)
| LKill (a : nat)
| LDrain (a : nat)
| LOpen (g : nat)
| LAbort (a : nat)
| LPoll (a : nat) (fuel : nat).

Definition step (w : world) (l : label) : world :=
  match l with
  | LSpawn i =>
    match get w i with
    | Some a => match a_pc a with
                | NotCreated => upd w i (fun a => upd_pc a NotStarted)
                | _ => w end
    | None => w
    end
  | LSend i m => req_send w i m
  | LStop i r => req_stop w i r
  | LKill i => req_kill w i
  | LDrain i => req_drain w i
  | LOpen g => mkWorld (w_actors w) (g :: w_open w) (w_msgs w) (w_trace w)
  | LAbort i => abort w i
  | LPoll i fuel => poll fuel w i
  end.

Definition run (w : world) (ls : list label) : world := fold_left step ls w.

Definition new_actor (c : cfg) : actor :=
  mkActor 0 false false None false [] [] true false false NotCreated true false None None (Some []) c.

Definition init (cfgs : list cfg) (msgs : list (nat * script)) : world :=
  mkWorld (map new_actor cfgs) [] msgs [].

(* "settle": poll every actor round-robin until nothing moves (bounded rounds) *)
Definition poll_all (fuel : nat) (w : world) : world :=
  fold_left (fun w i => poll fuel w i) (seq 0 (length (w_actors w))) w.

Fixpoint settle (rounds fuel : nat) (w : world) : world :=
  match rounds with
  | O => w
  | S k => settle k fuel (poll_all fuel w)
  end.

Definition trace_of (w : world) : list tev := rev (w_trace w).

(* ---------- driver programs (what the E1 engine executes) ---------- *)
Inductive dop := DL (l : label) | DSettle.

Definition poll_order (fuel : nat) (order : list nat) (w : world) : world :=
  fold_left (fun w i => poll fuel w i) order w.

Fixpoint settle_order (rounds fuel : nat) (order : list nat) (w : world) : world :=
  match rounds with
  | O => w
  | S k => settle_order k fuel order (poll_order fuel order w)
  end.

Definition run_dops (rounds fuel : nat) (order : list nat) (w : world) (ops : list dop) : world :=
  fold_left (fun w o => match o with
                        | DL l => step w l
                        | DSettle => settle_order rounds fuel order w
                        end) ops w.

(* the same program as a plain label list: a driver program is one particular schedule *)
Fixpoint rep_labels (rounds fuel : nat) (order : list nat) : list label :=
  match rounds with
  | O => []
  | S k => map (fun i => LPoll i fuel) order ++ rep_labels k fuel order
  end.

Definition labels_of (rounds fuel : nat) (order : list nat) (ops : list dop) : list label :=
  flat_map (fun o => match o with DL l => [l] | DSettle => rep_labels rounds fuel order end) ops.
