(* The biased pick of an idle actor (C03) and the link between driver programs and label lists. *)
From Coq Require Import List Arith Bool Lia.
From RV Require Import Loop.World Loop.Checks Loop.WorldProofs.
Import ListNotations.

(* ---------- driver programs are label lists ---------- *)

Lemma run_app w l1 l2 : run w (l1 ++ l2) = run (run w l1) l2.
Proof. unfold run. apply fold_left_app. Qed.

Lemma poll_order_run fuel order w :
  poll_order fuel order w = run w (map (fun i => LPoll i fuel) order).
Proof.
  unfold poll_order, run. revert w. induction order as [|i t IH]; simpl; intros w; auto.
Qed.

Lemma settle_order_run rounds fuel order w :
  settle_order rounds fuel order w = run w (rep_labels rounds fuel order).
Proof.
  revert w. induction rounds as [|k IH]; intros w; simpl; [reflexivity|].
  rewrite run_app, <- poll_order_run. apply IH.
Qed.

Theorem run_dops_labels rounds fuel order w ops :
  run_dops rounds fuel order w ops = run w (labels_of rounds fuel order ops).
Proof.
  unfold run_dops, labels_of. revert w. induction ops as [|o t IH]; intros w; simpl; [reflexivity|].
  rewrite run_app. destruct o as [l|]; simpl.
  - apply IH.
  - rewrite <- settle_order_run. apply IH.
Qed.

(* ---------- the pick follows the priority order ---------- *)

Definition idle_at (w : world) (i : nat) (a : actor) : Prop :=
  get w i = Some a /\ a_pc a = Idle.

(* a pending kill is served first: the poll ends the actor without starting any callback *)
Theorem pick_signal_first w i a :
  idle_at w i a -> a_sig a = true ->
  pick a = PkSignal /\
  seg w i = (killed_exit (consume_sig w i) i None, false).
Proof.
  intros [Eg Epc] Es. split; [unfold pick; now rewrite Es|].
  unfold seg. rewrite Eg, Epc, Es. reflexivity.
Qed.

(* no signal, a pending stop: the loop leaves gracefully, whatever else is queued *)
Theorem pick_stop_second w i a r :
  idle_at w i a -> a_sig a = false -> a_stop a = Some r ->
  pick a = PkStop r /\
  seg w i = (graceful_exit (upd w i (fun a => upd_stop a None true)) i r, true).
Proof.
  intros [Eg Epc] Es Est. split; [unfold pick; now rewrite Es, Est|].
  unfold seg. rewrite Eg, Epc, Es, Est. reflexivity.
Qed.

(* no signal, no stop, a pending supervision event: it is handled before any user message *)
Theorem pick_sup_before_msg w i a e t :
  idle_at w i a -> a_sig a = false -> a_stop a = None -> a_supq a = e :: t ->
  pick a = PkSup e /\
  seg w i = (start_cb (upd w i (fun a => upd_supq a t)) i (Sup e), true) /\
  hd_error (w_trace (fst (seg w i))) = Some (TEnter i (Sup e)).
Proof.
  intros [Eg Epc] Es Est Eq.
  assert (E : seg w i = (start_cb (upd w i (fun a => upd_supq a t)) i (Sup e), true)).
  { unfold seg. rewrite Eg, Epc, Es, Est, Eq. reflexivity. }
  split; [unfold pick; now rewrite Es, Est, Eq|]. split; [exact E|].
  rewrite E. simpl fst. unfold start_cb. rewrite get_upd_same, Eg. simpl. rewrite Es.
  unfold enter. rewrite get_upd_same, Eg. simpl.
  destruct (c_sup (a_cfg a)) as [|sc]; [destruct e|destruct sc]; reflexivity.
Qed.

(* a user message is only picked when the three other ports are empty *)
Theorem pick_msg_last a m :
  pick a = PkMsg m -> a_sig a = false /\ a_stop a = None /\ a_supq a = [] /\ hd_error (a_msgq a) = Some m.
Proof.
  unfold pick. destruct (a_sig a); [discriminate|]. destruct (a_stop a); [discriminate|].
  destruct (a_supq a); [|discriminate]. destruct (a_msgq a); [discriminate|].
  intros E; injection E as <-. auto.
Qed.
