(* C04 oracle for thread-local children (ractor/src/thread_local/inner.rs).

   A thread-local actor's State is not Send; the runtime documents that it therefore never
   boxes the final state into the supervision event ("Because the State in ThreadLocalActor's
   is not Send, we cannot construct a boxed state since it can't be sent to the supervisor"):
   every ActorTerminated of a thread-local child carries `None`, also on a graceful exit.
   The property text ("ActorTerminated for stop (with final state and reason)") is read for
   such children as: ActorTerminated with the reason, the state slot being empty by construction.

   [check_C04_local] is [check_C04] with exactly this one exception and nothing else relaxed:
     - an event that DOES carry a state is rejected (impossible for a thread-local child);
     - a state-less ActorTerminated about a child whose own callbacks ended gracefully
       (post_stop returned Ok) is judged as the Send oracle judges the event WITH state
       (reason must be backed by a stop / drain request, at most one terminal event, linked);
     - everything else (killed / task cancelled / failed / started, strangers, duplicates)
       goes through the unchanged [judge_sup].
   Used only for the engine's local modes; the Send-mode oracle is untouched.
   Definitions only. *)
From Coq Require Import List Arith Bool.
From RV Require Import Loop.World Loop.Checks.
Import ListNotations.

Definition judge_sup_local (links : list (option nat)) (seen : list tev) (s : nat) (x : supevt) : bool :=
  match x with
  | STerminated _ true _ => false
  | STerminated c false r =>
    match ending_of c seen EndNone with
    | EndGraceful => judge_sup links seen s (STerminated c true r)
    | _ => judge_sup links seen s x
    end
  | _ => judge_sup links seen s x
  end.

Fixpoint check_C04_local_go (links : list (option nat)) (seen : list tev) (t : list tev) : bool :=
  match t with
  | [] => true
  | e :: r =>
    match e with
    | TEnter s (Sup x) => judge_sup_local links seen s x
    | _ => true
    end && check_C04_local_go links (seen ++ [e]) r
  end.

Definition check_C04_local (links : list (option nat)) (t : list tev) : bool :=
  check_C04_local_go links [] t.
